/-
  AVX-512 lane kernels (Gen/Avx512.lean, regenerated from goldilocks_base_field_avx512.hpp) on `Nat`.
  Helper lemmas only; property statements are in Props/C11.lean.

  Proof scheme = the one of `Avx2Nat.lean` / `Avx2Mul.lean` (chosen so that behaviour-preserving rewrites of the C++
  do not disturb it):
  * `K_get`  : `(K a b).get i = L8.bin K (a.get i) (b.get i)` — both sides are normalised by the closed simp set
               `lane_get`, which here also reads the masked operations at one lane: `mask_add/sub_epi64` under any
               `vpcmpuq` predicate become the folded lane functions `Lane.ultSel` / `Lane.eqSel` (`cmplt(a,b)` and
               `cmpgt(b,a)`, `≤` / `≥` with exchanged branches give the same term).  No lane expression is written down.
  * `K_lane` : the lane function is moved to `Nat` by `lane_nat` and the arithmetic fact is closed by `omega` per
               case of the compare (masked subtract of `P` / masked add of `2^64 - P` are the same number there).
  * callers (`add_avx512`, `sub_avx512`, the reductions, `mult`, `square`) use the lane specifications of their
    callees whether the callee is called or its body is repeated, with either operand order of the exact products.
-/
import GoldilocksVerif.Gen.Avx512
import GoldilocksVerif.Lemmas.Avx2Mul
set_option linter.unusedSimpArgs false
namespace GoldilocksVerif.Avx512

theorem bit_getLsbD (c : Bool) (j : Nat) (hj : j < 8) (i : Fin 8) :
    (bit c j).getLsbD i.val = (c && decide (i.val = j)) := by
  cases c
  · simp [bit]
  · simp only [bit, if_true, Bool.true_and]
    have : ∀ j i : Fin 8, (BitVec.ofNat 8 (2 ^ j.val)).getLsbD i.val = decide (i.val = j.val) := by decide
    exact this ⟨j, hj⟩ i

theorem mask8_getLsbD (p : BitVec 64 → BitVec 64 → Bool) (a b : V8) (i : Fin 8) :
    (mask8 p a b).getLsbD i.val = p (a.get i) (b.get i) := by
  unfold mask8
  simp only [BitVec.getLsbD_or]
  rw [bit_getLsbD _ 0 (by omega), bit_getLsbD _ 1 (by omega), bit_getLsbD _ 2 (by omega), bit_getLsbD _ 3 (by omega),
    bit_getLsbD _ 4 (by omega), bit_getLsbD _ 5 (by omega), bit_getLsbD _ 6 (by omega), bit_getLsbD _ 7 (by omega)]
  match i with
  | ⟨0, _⟩ => simp [V8.get] | ⟨1, _⟩ => simp [V8.get] | ⟨2, _⟩ => simp [V8.get] | ⟨3, _⟩ => simp [V8.get]
  | ⟨4, _⟩ => simp [V8.get] | ⟨5, _⟩ => simp [V8.get] | ⟨6, _⟩ => simp [V8.get] | ⟨7, _⟩ => simp [V8.get]

theorem k255_getLsbD (i : Fin 8) : (255#8 : BitVec 8).getLsbD i.val = true := by revert i; decide

/-! masked operations read at one lane: `sel` of the mask bit; every compare predicate under a `sel` becomes the
  folded lane function `Lane.ultSel` / `Lane.eqSel` (`≤` by exchanging the branches) -/

theorem get_mask_add (src : V8) (k : BitVec 8) (a b : V8) (i : Fin 8) :
    (mask_add_epi64 src k a b).get i = sel k i.val (a.get i + b.get i) (src.get i) := by
  match i with
  | 0 => rfl | 1 => rfl | 2 => rfl | 3 => rfl | 4 => rfl | 5 => rfl | 6 => rfl | 7 => rfl
theorem get_mask_sub (src : V8) (k : BitVec 8) (a b : V8) (i : Fin 8) :
    (mask_sub_epi64 src k a b).get i = sel k i.val (a.get i - b.get i) (src.get i) := by
  match i with
  | 0 => rfl | 1 => rfl | 2 => rfl | 3 => rfl | 4 => rfl | 5 => rfl | 6 => rfl | 7 => rfl

theorem sel_mask8 (p : BitVec 64 → BitVec 64 → Bool) (a b : V8) (i : Fin 8) (u v : BitVec 64) :
    sel (mask8 p a b) i.val u v = if p (a.get i) (b.get i) then u else v := by
  unfold sel; rw [mask8_getLsbD]
theorem sel_mask8_255 (p : BitVec 64 → BitVec 64 → Bool) (a b : V8) (i : Fin 8) (u v : BitVec 64) :
    sel (mask8 p a b &&& 255#8) i.val u v = if p (a.get i) (b.get i) then u else v := by
  unfold sel; rw [BitVec.getLsbD_and, k255_getLsbD, Bool.and_true, mask8_getLsbD]

theorem ite_lt (x y u v : BitVec 64) : (if decide (x < y) then u else v) = Lane.ultSel x y u v := by
  unfold Lane.ultSel; by_cases h : x < y <;> simp [h]
theorem ite_le (x y u v : BitVec 64) : (if decide (x ≤ y) then u else v) = Lane.ultSel y x v u := by
  unfold Lane.ultSel
  by_cases h : y < x
  · have : ¬ x ≤ y := by rw [BitVec.le_def]; rw [BitVec.lt_def] at h; omega
    simp [h, this]
  · have : x ≤ y := by rw [BitVec.le_def]; rw [BitVec.lt_def] at h; omega
    simp [h, this]
theorem ite_beq (x y u v : BitVec 64) : (if (x == y) then u else v) = Lane.eqSel x y u v := by
  unfold Lane.eqSel; by_cases h : x = y <;> simp [h]
theorem ite_bne (x y u v : BitVec 64) : (if (x != y) then u else v) = Lane.eqSel x y v u := by
  unfold Lane.eqSel; by_cases h : x = y <;> simp [h]

/-- `vpcmpuq` with immediate 1 (`<`), 2 (`≤`), 5 (`≥`), 6 (`>`), 0 (`=`), 4 (`≠`) and a full write mask -/
theorem sel_ucmp_lt (a b : V8) (i : Fin 8) (u v : BitVec 64) :
    sel (ucmpq512_mask a b 1 255#8) i.val u v = Lane.ultSel (a.get i) (b.get i) u v := by
  have h : ucmpq512_mask a b 1 255#8 = mask8 (fun x y => decide (x < y)) a b &&& 255#8 := rfl
  rw [h, sel_mask8_255, ite_lt]
theorem sel_ucmp_le (a b : V8) (i : Fin 8) (u v : BitVec 64) :
    sel (ucmpq512_mask a b 2 255#8) i.val u v = Lane.ultSel (b.get i) (a.get i) v u := by
  have h : ucmpq512_mask a b 2 255#8 = mask8 (fun x y => decide (x ≤ y)) a b &&& 255#8 := rfl
  rw [h, sel_mask8_255, ite_le]
theorem sel_ucmp_ge (a b : V8) (i : Fin 8) (u v : BitVec 64) :
    sel (ucmpq512_mask a b 5 255#8) i.val u v = Lane.ultSel (a.get i) (b.get i) v u := by
  have h : ucmpq512_mask a b 5 255#8 = mask8 (fun x y => decide (y ≤ x)) a b &&& 255#8 := rfl
  rw [h, sel_mask8_255, ite_le]
theorem sel_ucmp_gt (a b : V8) (i : Fin 8) (u v : BitVec 64) :
    sel (ucmpq512_mask a b 6 255#8) i.val u v = Lane.ultSel (b.get i) (a.get i) u v := by
  have h : ucmpq512_mask a b 6 255#8 = mask8 (fun x y => decide (y < x)) a b &&& 255#8 := rfl
  rw [h, sel_mask8_255, ite_lt]
theorem sel_ucmp_eq (a b : V8) (i : Fin 8) (u v : BitVec 64) :
    sel (ucmpq512_mask a b 0 255#8) i.val u v = Lane.eqSel (a.get i) (b.get i) u v := by
  have h : ucmpq512_mask a b 0 255#8 = mask8 (fun x y => x == y) a b &&& 255#8 := rfl
  rw [h, sel_mask8_255, ite_beq]
theorem sel_ucmp_ne (a b : V8) (i : Fin 8) (u v : BitVec 64) :
    sel (ucmpq512_mask a b 4 255#8) i.val u v = Lane.eqSel (a.get i) (b.get i) v u := by
  have h : ucmpq512_mask a b 4 255#8 = mask8 (fun x y => x != y) a b &&& 255#8 := rfl
  rw [h, sel_mask8_255, ite_bne]
/-- the by-name compare intrinsics -/
theorem sel_cmplt (a b : V8) (i : Fin 8) (u v : BitVec 64) :
    sel (cmplt_epu64_mask a b) i.val u v = Lane.ultSel (a.get i) (b.get i) u v := by
  unfold cmplt_epu64_mask; rw [sel_mask8, ite_lt]
theorem sel_cmple (a b : V8) (i : Fin 8) (u v : BitVec 64) :
    sel (cmple_epu64_mask a b) i.val u v = Lane.ultSel (b.get i) (a.get i) v u := by
  unfold cmple_epu64_mask; rw [sel_mask8, ite_le]
theorem sel_cmpge (a b : V8) (i : Fin 8) (u v : BitVec 64) :
    sel (cmpge_epu64_mask a b) i.val u v = Lane.ultSel (a.get i) (b.get i) v u := by
  unfold cmpge_epu64_mask; rw [sel_mask8, ite_le]
theorem sel_cmpgt (a b : V8) (i : Fin 8) (u v : BitVec 64) :
    sel (cmpgt_epu64_mask a b) i.val u v = Lane.ultSel (b.get i) (a.get i) u v := by
  unfold cmpgt_epu64_mask; rw [sel_mask8, ite_lt]
theorem sel_cmpeq (a b : V8) (i : Fin 8) (u v : BitVec 64) :
    sel (cmpeq_epu64_mask a b) i.val u v = Lane.eqSel (a.get i) (b.get i) u v := by
  unfold cmpeq_epu64_mask; rw [sel_mask8, ite_beq]
theorem sel_cmpneq (a b : V8) (i : Fin 8) (u v : BitVec 64) :
    sel (cmpneq_epu64_mask a b) i.val u v = Lane.eqSel (a.get i) (b.get i) v u := by
  unfold cmpneq_epu64_mask; rw [sel_mask8, ite_bne]

theorem get_blend_aaaa (a b : V8) (i : Fin 8) :
    (mask_blend_epi32 43690 a b).get i = Lane.blend32 2 (a.get i) (b.get i) := by
  match i with
  | 0 => rfl | 1 => rfl | 2 => rfl | 3 => rfl | 4 => rfl | 5 => rfl | 6 => rfl | 7 => rfl
@[simp] theorem get_set_same (c : BitVec 64) (i : Fin 8) : (set_epi64 c c c c c c c c).get i = c := by
  match i with
  | 0 => rfl | 1 => rfl | 2 => rfl | 3 => rfl | 4 => rfl | 5 => rfl | 6 => rfl | 7 => rfl
theorem get_set1 (c : BitVec 64) (i : Fin 8) : (set1_epi64 c).get i = c := by
  match i with
  | 0 => rfl | 1 => rfl | 2 => rfl | 3 => rfl | 4 => rfl | 5 => rfl | 6 => rfl | 7 => rfl
theorem get_set4_same (c : BitVec 64) (i : Fin 8) : (set4_epi64 c c c c).get i = c := by
  match i with
  | 0 => rfl | 1 => rfl | 2 => rfl | 3 => rfl | 4 => rfl | 5 => rfl | 6 => rfl | 7 => rfl

end GoldilocksVerif.Avx512

namespace GoldilocksVerif
open Gen.Avx512 Gen.VecConsts Lane Avx512

-- the lane-wise intrinsics of `Isa/Avx512.lean`, the masked operations / compares read at one lane and the
-- register constants join the closed `lane_get` set
attribute [lane_get] Avx512.mask_mov_epi32 Avx512.add_epi64 Avx512.sub_epi64 Avx512.and_si512 Avx512.xor_si512 Avx512.or_si512
  Avx512.andnot_si512 Avx512.srli_epi64 Avx512.slli_epi64 Avx512.mul_epu32 Avx512.movehdup_ps Avx512.moveldup_ps
  V8.get_map V8.get_map2 V8.get_splat Avx512.get_set_same Avx512.get_set1 Avx512.get_set4_same Avx512.get_blend_aaaa
  Avx512.get_mask_add Avx512.get_mask_sub Avx512.sel_ucmp_lt Avx512.sel_ucmp_le Avx512.sel_ucmp_ge Avx512.sel_ucmp_gt
  Avx512.sel_ucmp_eq Avx512.sel_ucmp_ne Avx512.sel_cmplt Avx512.sel_cmple Avx512.sel_cmpge Avx512.sel_cmpgt
  Avx512.sel_cmpeq Avx512.sel_cmpneq g_P8 g_P8_n g_sqmask8

namespace L8
def un (f : V8 → V8) (x : BitVec 64) : BitVec 64 := (f (V8.splat x)).get 0
def bin (f : V8 → V8 → V8) (x y : BitVec 64) : BitVec 64 := (f (V8.splat x) (V8.splat y)).get 0
end L8

/-! #### lanewise-ness (tie to the generated definitions) and the lane functions on `Nat`

  Same scheme as `Avx2Nat.lean`: `K_get` normalises both sides by the closed set `lane_get` (no lane expression is
  written down: local names, the order of independent statements, `cmplt(a,b)` / `cmpgt(b,a)`, masked subtract of
  `P` / masked add of `2^64 - P`, calling `add_avx512_b_c` or repeating its body do not matter); `K_lane` moves the
  lane function to `Nat` by `lane_nat` and closes the arithmetic by `omega` per case of the compare. -/

theorem canon512_get (a : V8) (i : Fin 8) :
    (toCanonical_avx512 a).get i = L8.un toCanonical_avx512 (a.get i) := by
  unfold L8.un
  simp only [toCanonical_avx512, lane_get]

theorem add512_b_c_get (a b : V8) (i : Fin 8) :
    (add_avx512_b_c a b).get i = L8.bin add_avx512_b_c (a.get i) (b.get i) := by
  unfold L8.bin
  simp only [add_avx512_b_c, lane_get]

theorem sub512_b_c_get (a b : V8) (i : Fin 8) :
    (sub_avx512_b_c a b).get i = L8.bin sub_avx512_b_c (a.get i) (b.get i) := by
  unfold L8.bin
  simp only [sub_avx512_b_c, lane_get]

theorem add512_get (a b : V8) (i : Fin 8) :
    (add_avx512__wWW a b).get i = L8.bin add_avx512__wWW (a.get i) (b.get i) := by
  unfold L8.bin
  simp only [add_avx512__wWW, canon512_get, add512_b_c_get, lane_get]

theorem sub512_get (a b : V8) (i : Fin 8) :
    (sub_avx512__wWW a b).get i = L8.bin sub_avx512__wWW (a.get i) (b.get i) := by
  unfold L8.bin
  simp only [sub_avx512__wWW, canon512_get, sub512_b_c_get, lane_get]

theorem canon512_lane (x : BitVec 64) : (L8.un toCanonical_avx512 x).toNat = x.toNat % P := by
  unfold L8.un
  simp only [toCanonical_avx512, lane_get, lane_nat, P]
  simp only [ltN_def]
  have hx := x.isLt
  split <;> omega

/-- add_avx512_b_c : second operand canonical (the proof needs only a + b < 2^64 + p) -/
theorem add512_b_c_lane (x y : BitVec 64) (hb : x.toNat + y.toNat < 18446744073709551616 + P) :
    (L8.bin add_avx512_b_c x y).toNat % P = (x.toNat + y.toNat) % P := by
  unfold L8.bin
  simp only [add_avx512_b_c, lane_get, lane_nat, P] at *
  simp only [ltN_def]
  have hx := x.isLt
  have hy := y.isLt
  split <;> omega

theorem sub512_b_c_lane (x y : BitVec 64) (hb : y.toNat < P) :
    ((L8.bin sub_avx512_b_c x y).toNat + y.toNat) % P = x.toNat % P := by
  unfold L8.bin
  simp only [sub_avx512_b_c, lane_get, lane_nat, P] at *
  simp only [ltN_def]
  have hx := x.isLt
  split <;> omega

theorem canon512_spec (a : V8) (i : Fin 8) : ((toCanonical_avx512 a).get i).toNat = (a.get i).toNat % P := by
  rw [canon512_get, canon512_lane]

theorem add512_b_c_spec (a b : V8) (i : Fin 8) (hb : (a.get i).toNat + (b.get i).toNat < 18446744073709551616 + P) :
    ((add_avx512_b_c a b).get i).toNat % P = ((a.get i).toNat + (b.get i).toNat) % P := by
  rw [add512_b_c_get]; exact add512_b_c_lane _ _ hb

theorem sub512_b_c_spec (a b : V8) (i : Fin 8) (hb : (b.get i).toNat < P) :
    (((sub_avx512_b_c a b).get i).toNat + (b.get i).toNat) % P = (a.get i).toNat % P := by
  rw [sub512_b_c_get]; exact sub512_b_c_lane _ _ hb

/-- add_avx512 : canonicalise the first operand, then the `_b_c` addition (called, or its body repeated) -/
theorem add512_lane (x y : BitVec 64) : (L8.bin add_avx512__wWW x y).toNat % P = (x.toNat + y.toNat) % P := by
  have hc := canon512_lane x
  have hP : x.toNat % P < P := Nat.mod_lt _ (by decide)
  have hy := y.isLt
  unfold L8.bin
  simp only [add_avx512__wWW, canon512_get, add512_b_c_get, lane_get]
  generalize L8.un toCanonical_avx512 x = xc at *
  first
    | -- the `_b_c` kernel is called (the canonical operand in either position)
      (rw [add512_b_c_lane _ _ (by omega)]
       simp only [P] at *
       omega)
    | -- its body is repeated
      (simp only [lane_nat]
       simp only [ltN_def]
       have hxc := xc.isLt
       simp only [P] at *
       split <;> omega)

theorem sub512_lane (x y : BitVec 64) : ((L8.bin sub_avx512__wWW x y).toNat + y.toNat) % P = x.toNat % P := by
  have hc := canon512_lane y
  have hP : y.toNat % P < P := Nat.mod_lt _ (by decide)
  have hy := y.isLt
  have hx := x.isLt
  unfold L8.bin
  simp only [sub_avx512__wWW, canon512_get, sub512_b_c_get, lane_get]
  generalize L8.un toCanonical_avx512 y = yc at *
  first
    | (have h := sub512_b_c_lane x yc (by omega)
       simp only [P] at *
       omega)
    | (simp only [lane_nat]
       simp only [ltN_def]
       have hyc := yc.isLt
       simp only [P] at *
       split <;> omega)

theorem add512_spec (a b : V8) (i : Fin 8) :
    ((add_avx512__wWW a b).get i).toNat % P = ((a.get i).toNat + (b.get i).toNat) % P := by
  rw [add512_get, add512_lane]

theorem sub512_spec (a b : V8) (i : Fin 8) :
    (((sub_avx512__wWW a b).get i).toNat + (b.get i).toNat) % P = (a.get i).toNat % P := by
  rw [sub512_get, sub512_lane]

/-! #### products -/

def m128h (x y : BitVec 64) : BitVec 64 := ((mult_avx512_128 (V8.splat x) (V8.splat y)).1).get 0
def m128l (x y : BitVec 64) : BitVec 64 := ((mult_avx512_128 (V8.splat x) (V8.splat y)).2).get 0

theorem mult512_128_get (a b : V8) (i : Fin 8) :
    (mult_avx512_128 a b).1.get i = m128h (a.get i) (b.get i) ∧
    (mult_avx512_128 a b).2.get i = m128l (a.get i) (b.get i) := by
  unfold m128h m128l
  simp only [mult_avx512_128, lane_get]

/-- the 128-bit product is exact (same scheme as the AVX2 kernel, proved on this kernel's own text) -/
theorem m128_spec (x y : BitVec 64) :
    (m128h x y).toNat * 18446744073709551616 + (m128l x y).toNat = x.toNat * y.toNat := by
  unfold m128h m128l
  simp only [mult_avx512_128, lane_get, lane_nat]
  products_omega x, y

theorem reduce512_128_get (h l : V8) (i : Fin 8) :
    (reduce_avx512_128_64 h l).get i = L8.bin reduce_avx512_128_64 (h.get i) (l.get i) := by
  unfold L8.bin
  simp only [reduce_avx512_128_64, sub512_b_c_get, add512_b_c_get, lane_get]

/-- reduce_avx512_128_64 : for all 128-bit inputs (c_h, c_l) the result represents c_h·2^64 + c_l mod p -/
theorem reduce512_128_lane (h l : BitVec 64) :
    (L8.bin reduce_avx512_128_64 h l).toNat % P = (h.toNat * 18446744073709551616 + l.toNat) % P := by
  -- the call structure: subtract the top 32 bits, add (low 32 bits of c_h)·(2^32-1); either factor order
  have e : ∃ m, (m.toNat = h.toNat % 4294967296 * 4294967295) ∧ L8.bin reduce_avx512_128_64 h l =
      L8.bin add_avx512_b_c (L8.bin sub_avx512_b_c l (h >>> 32)) m := by
    first
      | (refine ⟨mul32 h 4294967295#64, mul32_Pn_toNat h, ?_⟩
         unfold L8.bin
         simp only [reduce_avx512_128_64, sub512_b_c_get, add512_b_c_get, lane_get]
         done)
      | (refine ⟨mul32 4294967295#64 h, Pn_mul32_toNat h, ?_⟩
         unfold L8.bin
         simp only [reduce_avx512_128_64, sub512_b_c_get, add512_b_c_get, lane_get]
         done)
  obtain ⟨m, hm, e⟩ := e
  rw [e]
  have hh := h.isLt
  have b2 : h.toNat % 4294967296 * 4294967295 ≤ 18446744065119617025 :=
    mul32_le _ _ (by omega) (by omega)
  have e1 : (h >>> 32).toNat = h.toNat / 4294967296 := ushr32_toNat h
  have s1 := sub512_b_c_lane l (h >>> 32) (by rw [e1]; unfold P; omega)
  have s2 := add512_b_c_lane (L8.bin sub_avx512_b_c l (h >>> 32)) m (by
    rw [hm]
    have := (L8.bin sub_avx512_b_c l (h >>> 32)).isLt
    unfold P; omega)
  rw [e1] at s1
  rw [hm] at s2
  have key := reduce128_core _ (h.toNat / 4294967296) (h.toNat % 4294967296) l.toNat _ s1 s2
  have e3 : h.toNat / 4294967296 * 4294967296 + h.toNat % 4294967296 = h.toNat := by omega
  rw [e3] at key
  exact key

theorem reduce512_128_spec (h l : V8) (i : Fin 8) :
    ((reduce_avx512_128_64 h l).get i).toNat % P = ((h.get i).toNat * 18446744073709551616 + (l.get i).toNat) % P := by
  rw [reduce512_128_get, reduce512_128_lane]

theorem mult512_get (a b : V8) (i : Fin 8) :
    (mult_avx512 a b).get i = L8.bin reduce_avx512_128_64 (m128h (a.get i) (b.get i)) (m128l (a.get i) (b.get i)) := by
  simp only [mult_avx512, reduce512_128_get, (mult512_128_get a b i).1, (mult512_128_get a b i).2]

theorem mult512_spec (a b : V8) (i : Fin 8) :
    ((mult_avx512 a b).get i).toNat % P = ((a.get i).toNat * (b.get i).toNat) % P := by
  rw [mult512_get, reduce512_128_lane, m128_spec]

/-! #### 72-bit product, 96-bit reduction -/

def m72h (x y : BitVec 64) : BitVec 64 := ((mult_avx512_72 (V8.splat x) (V8.splat y)).1).get 0
def m72l (x y : BitVec 64) : BitVec 64 := ((mult_avx512_72 (V8.splat x) (V8.splat y)).2).get 0

theorem mult512_72_get (a b : V8) (i : Fin 8) :
    (mult_avx512_72 a b).1.get i = m72h (a.get i) (b.get i) ∧
    (mult_avx512_72 a b).2.get i = m72l (a.get i) (b.get i) := by
  unfold m72h m72l
  simp only [mult_avx512_72, lane_get]

theorem m72_spec (x y : BitVec 64) :
    (m72h x y).toNat * 18446744073709551616 + (m72l x y).toNat = x.toNat * (y.toNat % 4294967296) ∧
    (m72h x y).toNat < 4294967296 := by
  unfold m72h m72l
  simp only [mult_avx512_72, lane_get, lane_nat]
  products_omega x, y

theorem reduce512_96_get (h l : V8) (i : Fin 8) :
    (reduce_avx512_96_64 h l).get i = L8.bin reduce_avx512_96_64 (h.get i) (l.get i) := by
  unfold L8.bin
  simp only [reduce_avx512_96_64, add512_b_c_get, lane_get]

theorem reduce512_96_lane (hv lv : BitVec 64) :
    (L8.bin reduce_avx512_96_64 hv lv).toNat % P = (hv.toNat % 4294967296 * 18446744073709551616 + lv.toNat) % P := by
  have e : ∃ m, (m.toNat = hv.toNat % 4294967296 * 4294967295) ∧
      L8.bin reduce_avx512_96_64 hv lv = L8.bin add_avx512_b_c lv m := by
    first
      | (refine ⟨mul32 hv 4294967295#64, mul32_Pn_toNat hv, ?_⟩
         unfold L8.bin
         simp only [reduce_avx512_96_64, add512_b_c_get, lane_get]
         done)
      | (refine ⟨mul32 4294967295#64 hv, Pn_mul32_toNat hv, ?_⟩
         unfold L8.bin
         simp only [reduce_avx512_96_64, add512_b_c_get, lane_get]
         done)
  obtain ⟨m, hm, e⟩ := e
  have b2 : hv.toNat % 4294967296 * 4294967295 ≤ 18446744065119617025 :=
    mul32_le _ _ (by omega) (by omega)
  rw [e, add512_b_c_lane _ _ (by rw [hm]; have := lv.isLt; unfold P; omega), hm]
  apply mod_cert _ _ (hv.toNat % 4294967296) 0
  unfold P
  omega

/-- reduce_avx512_96_64 : uses the low 32 bits of c_h only -/
theorem reduce512_96_spec (h l : V8) (i : Fin 8) :
    ((reduce_avx512_96_64 h l).get i).toNat % P =
      ((h.get i).toNat % 4294967296 * 18446744073709551616 + (l.get i).toNat) % P := by
  rw [reduce512_96_get, reduce512_96_lane]

theorem mult512_8_spec (a b : V8) (i : Fin 8) (hb : (b.get i).toNat < 4294967296) :
    ((mult_avx512_8 a b).get i).toNat % P = ((a.get i).toNat * (b.get i).toNat) % P := by
  have r := reduce512_96_spec (mult_avx512_72 a b).1 (mult_avx512_72 a b).2 i
  have e : (mult_avx512_8 a b).get i = (reduce_avx512_96_64 (mult_avx512_72 a b).1 (mult_avx512_72 a b).2).get i := by
    simp only [mult_avx512_8]
  rw [e, r, (mult512_72_get a b i).1, (mult512_72_get a b i).2]
  obtain ⟨s1, s2⟩ := m72_spec (a.get i) (b.get i)
  have e2 : (m72h (a.get i) (b.get i)).toNat % 4294967296 = (m72h (a.get i) (b.get i)).toNat := by omega
  have e3 : (b.get i).toNat % 4294967296 = (b.get i).toNat := by omega
  rw [e2, s1, e3]

/-! #### squares -/

def s128h (x : BitVec 64) : BitVec 64 := ((square_avx512_128 (V8.splat x)).1).get 0
def s128l (x : BitVec 64) : BitVec 64 := ((square_avx512_128 (V8.splat x)).2).get 0

theorem square512_128_get (a : V8) (i : Fin 8) :
    (square_avx512_128 a).1.get i = s128h (a.get i) ∧ (square_avx512_128 a).2.get i = s128l (a.get i) := by
  unfold s128h s128l
  simp only [square_avx512_128, lane_get]

theorem s128_spec (x : BitVec 64) :
    (s128h x).toNat * 18446744073709551616 + (s128l x).toNat = x.toNat * x.toNat := by
  unfold s128h s128l
  simp only [square_avx512_128, lane_get, lane_nat]
  products_omega x, x

theorem square512_get (a : V8) (i : Fin 8) :
    (square_avx512 a).get i = L8.bin reduce_avx512_128_64 (s128h (a.get i)) (s128l (a.get i)) := by
  simp only [square_avx512, reduce512_128_get, (square512_128_get a i).1, (square512_128_get a i).2]

theorem square512_spec (a : V8) (i : Fin 8) :
    ((square_avx512 a).get i).toNat % P = ((a.get i).toNat * (a.get i).toNat) % P := by
  rw [square512_get, reduce512_128_lane, s128_spec]

end GoldilocksVerif
