/-
  IN-BOUNDS ACCESSES of the generated CONSTRUCTOR itself (`NTT_ctor.Safe`, derived from the generated definition):
  `roots = malloc(nRoots·8)`, `powTwoInv = malloc((s+1)·8)`, `roots[0]`, `powTwoInv[0]`, `roots[1]`, `powTwoInv[1]`,
  the loop `roots[i] = roots[i-1]·roots[1]` (2 ≤ i < nRoots), the read `roots[nRoots-1]` of the assert and the loop
  `powTwoInv[i] = powTwoInv[i-1]·powTwoInv[1]` (2 ≤ i ≤ s, every state the `while` reaches).
  No hypothesis: any heap, any `maxDomainSize`, any fuel.  What is needed about `s` (1 ≤ s ≤ 32, so that `1 << s` does not
  wrap and the `powTwoInv` block has at least two words) is an invariant of the translated loop that counts `s`
  (partial correctness: `Loop.whileM_pres`), not a hypothesis.
-/
import GoldilocksVerif.Lemmas.HeapSafeComputeR
import GoldilocksVerif.Lemmas.BridgeNttCtor
open GoldilocksVerif Gen.NttGen GoldilocksVerif.BridgeNtt
namespace GoldilocksVerif.HeapSafe

/-- invariant of the `while ((!mpz_tstbit(m_aux, 0)) && (s < domainPow))` loop: 1 ≤ s ≤ 32, m_aux = (p−1)/2 >> (s−1) -/
def SInv (st : Nat × NTT_Goldilocks) : Prop :=
  1 ≤ st.2.s.toNat ∧ st.2.s.toNat ≤ 32 ∧ st.1 = Gmp.fdiv_q_2exp Q2 (st.2.s.toNat - 1)

theorem ctor_loop2_sinv (dp : BitVec 32) (st : Nat × NTT_Goldilocks) (b : Bool) (st' : Nat × NTT_Goldilocks)
    (h : SInv st) (hstep : NTT_ctor_loop2 dp st = some (b, st')) : SInv st' := by
  obtain ⟨h1, h2, h3⟩ := h
  unfold NTT_ctor_loop2 at hstep
  dsimp only at hstep
  by_cases hc : ((!(Gmp.tstbit st.1 0 != (0 : Int))) && decide (st.2.s < dp)) = true
  · rw [if_pos hc] at hstep
    injection hstep with hstep
    injection hstep with _ hstep
    rw [← hstep]
    rw [Bool.and_eq_true] at hc
    have hbit : Gmp.tstbit st.1 0 = 0 := by
      have := hc.1
      simpa using this
    have hs31 : st.2.s.toNat ≤ 31 := by
      rcases Nat.lt_or_ge st.2.s.toNat 32 with x | x
      · omega
      · have e : st.2.s.toNat - 1 = 31 := by omega
        rw [h3, e, q2_bit31] at hbit
        exact absurd hbit (by decide)
    have hs1 : (st.2.s + 1#32).toNat = st.2.s.toNat + 1 := by
      rw [BitVec.toNat_add]
      have : (1#32 : BitVec 32).toNat = 1 := rfl
      rw [this]; exact Nat.mod_eq_of_lt (by omega)
    refine ⟨?_, ?_, ?_⟩
    · show 1 ≤ (st.2.s + 1#32).toNat; omega
    · show (st.2.s + 1#32).toNat ≤ 32; omega
    · show Gmp.fdiv_q_2exp st.1 1 = Gmp.fdiv_q_2exp Q2 ((st.2.s + 1#32).toNat - 1)
      rw [h3, q2_shift, hs1]
      congr 1; omega
  · rw [if_neg hc] at hstep
    injection hstep with hstep
    injection hstep with _ hstep
    rw [← hstep]
    exact ⟨h1, h2, h3⟩

/-- **in-bounds accesses of the constructor** — for every heap, every `maxDomainSize`, thread count, extension and fuel -/
theorem ctor_safe (fuel : Nat) (hp : Heap) (self : NTT_Goldilocks) (m : BitVec 64) (thr : BitVec 32) (e : Int) :
    NTT_ctor.Safe fuel hp self m thr e := by
  unfold NTT_ctor.Safe
  zeta_goal
  intro hm y1 hy1 y2 hy2 y3 hy3 hlt
  simp only [gmp_negone, gmp_q2] at hy3
  have hinv : SInv y3 := by
    refine Loop.whileM_pres (NTT_ctor_loop2 y1) SInv (fun s b s' hi hs => ctor_loop2_sinv y1 s b s' hi hs) fuel _ y3 ?_ hy3
    exact ⟨by show 1 ≤ (1#32 : BitVec 32).toNat; decide, by show (1#32 : BitVec 32).toNat ≤ 32; decide,
      by show Q2 = Gmp.fdiv_q_2exp Q2 0; simp [Gmp.fdiv_q_2exp]⟩
  obtain ⟨hS1, hS32, _⟩ := hinv
  generalize hsv : y3.2.s = sv at *
  generalize hS : sv.toNat = S at *
  have h2S : 2 ^ S < 2 ^ 33 := Nat.pow_lt_pow_right (by omega) (by omega)
  have h2S2 : 2 ≤ 2 ^ S := by
    calc 2 = 2 ^ 1 := rfl
      _ ≤ 2 ^ S := Nat.pow_le_pow_right (by omega) hS1
  have e1 : (1#64 : BitVec 64) <<< S = bv (2 ^ S) := one_shl S (by omega)
  have e2 : (bv (2 ^ S) * 8#64).toNat / 8 = 2 ^ S := words_bv _ (by omega)
  have e3 : BitVec.setWidth 64 (sv + 1#32) = bv (S + 1) := by
    apply BitVec.eq_of_toNat_eq
    rw [BitVec.toNat_setWidth, BitVec.toNat_add, hS, bv_toNat _ (by omega)]
    have : (1#32 : BitVec 32).toNat = 1 := rfl
    rw [this, Nat.mod_eq_of_lt (a := S + 1) (by omega), Nat.mod_eq_of_lt (by omega)]
  have e4 : (bv (S + 1) * 8#64).toNat / 8 = S + 1 := words_bv _ (by omega)
  have e5 : decide (bv (2 ^ S) > 1#64) = true := by
    rw [decide_eq_true_eq]; show bv 1 < bv (2 ^ S); rw [lt_bv _ _ (by omega) (by omega)]; omega
  have e6 : (bv (2 ^ S)).toNat = 2 ^ S := bv_toNat _ (by omega)
  have e7 : (bv (2 ^ S) - 1#64).toNat = 2 ^ S - 1 := by
    rw [bv_one, bv_sub _ _ (by omega) (by omega), bv_toNat _ (by omega)]
  simp only [e1, e2, e3, e4, e5, e6, e7, if_true, Heap.alloc_snd, Heap.size_alloc]
  obtain ⟨x1, x2, _, _⟩ := ext_alloc_two hp (2 ^ S) (S + 1)
  generalize ((hp.alloc (2 ^ S)).1.alloc (S + 1)).1 = H at x1 x2 ⊢
  have r0 : H.InB ⟨hp.size, 0⟩ 0 := InB_base (by show 0 + 0 < H.ext hp.size; omega)
  have r1 : H.InB ⟨hp.size, 0⟩ 1 := InB_base (by show 0 + 1 < H.ext hp.size; omega)
  have rl : H.InB ⟨hp.size, 0⟩ (2 ^ S - 1) := InB_base (by show 0 + (2 ^ S - 1) < H.ext hp.size; omega)
  have q0 : H.InB ⟨hp.size + 1, 0⟩ 0 := InB_base (by show 0 + 0 < H.ext (hp.size + 1); omega)
  have q1 : H.InB ⟨hp.size + 1, 0⟩ 1 := InB_base (by show 0 + 1 < H.ext (hp.size + 1); omega)
  refine ⟨r0, q0.same (by heap_steps), fun _ => ⟨r1.same (by heap_steps), q1.same (by heap_steps)⟩, ?_, fun y hy => ?_⟩
  · -- the loop `roots[i] = roots[i-1] * roots[1]`, 2 ≤ i < 2^s, on the block of 2^s words
    refine Loop.RangeAll.of_same (fun i s _ => by loop_same) (fun i st h1 h2 hst => ?_)
    have hr : 0 + 2 ^ S ≤ st.ext hp.size := by
      rw [hst.2, Heap.ext_set, Heap.ext_set, Heap.ext_set, Heap.ext_set, x1]; omega
    unfold_loops
    zeta_goal
    repeat' apply And.intro
    all_goals exact InB_base (by simp only [Heap.ext_set]; omega)
  · have hsame : Heap.Same H y := by
      have h0 : Heap.Same H ((((H.set ⟨hp.size, 0⟩ 0 Gen.Scalar.one__r).set ⟨hp.size + 1, 0⟩ 0 Gen.Scalar.one__r).set
          ⟨hp.size, 0⟩ 1 (Gen.Scalar.w__rE (BitVec.setWidth 64 y1))).set ⟨hp.size + 1, 0⟩ 1
          (Gen.Scalar.fromU64__rE (Gmp.get_ui (Gmp.invert 2 (18446744069414584320 + 1))))) := by heap_steps
      exact h0.trans (OInv.rangeM (P := Heap.Same _) _ _ _ _ _ (Heap.Same.refl _)
        (fun i s hs => OInv.of_same hs (by loop_same)) y hy)
    refine ⟨⟨rl.same hsame, r1.same hsame⟩, fun _ => ?_⟩
    -- the loop `powTwoInv[i] = powTwoInv[i-1] * 2^-1`, 2 ≤ i ≤ s (2^-1 = `powTwoInv[1]` read in every iteration, or once in
    -- front of the loop): every state the `while` reaches
    have hq : 0 + S + 1 ≤ y.ext (hp.size + 1) := by rw [hsame.2, x2]; omega
    have hw : (BitVec.setWidth 64 sv).toNat = S := by
      rw [BitVec.toNat_setWidth, hS]; exact Nat.mod_eq_of_lt (by omega)
    have h1 : (1#64 : BitVec 64).toNat = 1 := rfl
    repeat' apply And.intro
    try any_goals exact q1.same hsame
    refine Loop.WhileAll.of_inv (fun st => Heap.Same y st.1 ∧ 2 ≤ st.2.toNat ∧ st.2.toNat ≤ S + 2)
      ⟨Heap.Same.refl _, by show 2 ≤ (2#64 : BitVec 64).toNat; decide, by show 2 ≤ S + 2; omega⟩ ?_ ?_
    · intro s s' hinv hstep
      unfold_loops at hstep
      dsimp only at hstep
      by_cases hc : decide (s.2 ≤ BitVec.setWidth 64 sv) = true
      · rw [if_pos hc] at hstep
        injection hstep with hstep
        injection hstep with _ hstep
        rw [← hstep]
        have hle := of_decide_eq_true hc
        rw [BitVec.le_def, hw] at hle
        have e : (s.2 + 1#64).toNat = s.2.toNat + 1 := by
          rw [BitVec.toNat_add, h1]; exact Nat.mod_eq_of_lt (by omega)
        refine ⟨hinv.1.trans (Heap.Same.set _ _ _ _), ?_, ?_⟩
        · show 2 ≤ (s.2 + 1#64).toNat; omega
        · show (s.2 + 1#64).toNat ≤ S + 2; omega
      · rw [if_neg hc] at hstep
        injection hstep with hstep
        injection hstep with hb _
        exact absurd hb (by decide)
    · intro s hinv
      obtain ⟨hsame', i2, _⟩ := hinv
      unfold_loops
      zeta_goal
      intro hc
      have hle := of_decide_eq_true hc
      rw [BitVec.le_def, hw] at hle
      have e : (s.2 - 1#64).toNat = s.2.toNat - 1 := by
        rw [BitVec.toNat_sub, h1]
        have := s.2.isLt
        omega
      rw [e]
      repeat' apply And.intro
      all_goals exact InB_base (by simp only [Heap.ext_set, hsame'.2]; omega)

end GoldilocksVerif.HeapSafe
