/-
  The cubic extension in the field view.  K = F[x]/(x^3 - x - 1) is represented by coefficient triples with the
  schoolbook product reduced by x^3 = x + 1, x^4 = x^2 + x (the oracle the property names).  Helper lemmas for C09.
-/
import GoldilocksVerif.Model.Ext
import GoldilocksVerif.Lemmas.ConvF
import Mathlib.Tactic.FieldSimp
import Mathlib.Tactic.LinearCombination
set_option linter.unusedSimpArgs false
namespace GoldilocksVerif
open Gen.Scalar Gen.Ext Model

/-- coefficient triple (c0, c1, c2) of c0 + c1·x + c2·x² -/
structure K3 where
  c0 : F
  c1 : F
  c2 : F

namespace K3
@[ext] theorem ext' (a b : K3) (h0 : a.c0 = b.c0) (h1 : a.c1 = b.c1) (h2 : a.c2 = b.c2) : a = b := by
  cases a; cases b; simp_all
def add (a b : K3) : K3 := ⟨a.c0 + b.c0, a.c1 + b.c1, a.c2 + b.c2⟩
def sub (a b : K3) : K3 := ⟨a.c0 - b.c0, a.c1 - b.c1, a.c2 - b.c2⟩
def neg (a : K3) : K3 := ⟨-a.c0, -a.c1, -a.c2⟩
def ofBase (s : F) : K3 := ⟨s, 0, 0⟩
def one : K3 := ⟨1, 0, 0⟩
def zero : K3 := ⟨0, 0, 0⟩
/-- schoolbook product reduced modulo x³ − x − 1 -/
def mul (a b : K3) : K3 :=
  ⟨a.c0 * b.c0 + (a.c1 * b.c2 + a.c2 * b.c1),
   a.c0 * b.c1 + a.c1 * b.c0 + (a.c1 * b.c2 + a.c2 * b.c1) + a.c2 * b.c2,
   a.c0 * b.c2 + a.c1 * b.c1 + a.c2 * b.c0 + a.c2 * b.c2⟩
end K3

/-- the element of K a 3-word region denotes -/
def den3 (r : Region) : K3 := ⟨den (r 0), den (r 1), den (r 2)⟩
def denE (e : E3) : K3 := ⟨den e.c0, den e.c1, den e.c2⟩

/-- every extension routine writes exactly words 0,1,2 of its result -/
theorem set3 (r : Region) (x y z : BitVec 64) :
    (Region.set (Region.set (Region.set r 0 x) 1 y) 2 z) 0 = x ∧
    (Region.set (Region.set (Region.set r 0 x) 1 y) 2 z) 1 = y ∧
    (Region.set (Region.set (Region.set r 0 x) 1 y) 2 z) 2 = z ∧
    ∀ k, 3 ≤ k → (Region.set (Region.set (Region.set r 0 x) 1 y) 2 z) k = r k := by
  refine ⟨by simp [Region.set], by simp [Region.set], by simp [Region.set], ?_⟩
  intro k hk
  have h0 : k ≠ 0 := by omega
  have h1 : k ≠ 1 := by omega
  have h2 : k ≠ 2 := by omega
  simp [Region.set, h0, h1, h2]

theorem den3_set3 (r : Region) (x y z : BitVec 64) :
    den3 (Region.set (Region.set (Region.set r 0 x) 1 y) 2 z) = ⟨den x, den y, den z⟩ := by
  obtain ⟨h0, h1, h2, _⟩ := set3 r x y z
  unfold den3; rw [h0, h1, h2]

theorem den_neg_r (a : BitVec 64) : den (neg__rE a) = - den a := by
  have : neg__rE a = sub__rEE zero__r a := rfl
  rw [this, den_sub_r]
  have : den zero__r = 0 := den_zero
  rw [this]; ring
theorem den_zero_r : den zero__r = 0 := den_zero
theorem den_one_r : den one__r = 1 := den_one
theorem den_copy (x : BitVec 64) : copy__eE x = x := rfl

theorem den3_zero_r : den3 G3_zero__r = K3.zero := by
  show den3 (Region.ofList [zero__r, zero__r, zero__r]) = _
  unfold den3 K3.zero Region.ofList
  simp only [List.getD_cons_zero, List.getD_cons_succ, den_zero_r]
theorem den3_one_r : den3 G3_one__r = K3.one := by
  show den3 (Region.ofList [one__r, zero__r, zero__r]) = _
  unfold den3 K3.one Region.ofList
  simp only [List.getD_cons_zero, List.getD_cons_succ, den_zero_r, den_one_r]
theorem zero_a3_den (result : Region) : den3 (G3_zero__a3 result) = K3.zero := by
  unfold G3_zero__a3; rw [den3_set3]; simp only [den_zero_r, K3.zero]
theorem one_a3_den (result : Region) : den3 (G3_one__a3 result) = K3.one := by
  unfold G3_one__a3; rw [den3_set3]; simp only [den_zero_r, den_one_r, K3.one]
theorem copy_den (dst src : Region) : den3 (G3_copy__a3A3 dst src) = den3 src ∧ den3 (G3_copy__pP dst src) = den3 src := by
  constructor
  · unfold G3_copy__a3A3; rw [den3_set3]; simp only [den_copy, den3]
  · unfold G3_copy__pP; rw [den3_set3]; simp only [den_copy, den3]

theorem add_den (result a b : Region) :
    den3 (G3_add__a3A3A3 result a b) = K3.add (den3 a) (den3 b) := by
  unfold G3_add__a3A3A3
  ext <;> simp [den3, Region.set, K3.mul, K3.add, K3.sub, K3.neg, K3.ofBase, den_add_r, den_sub_r, den_mul_r, den_neg_r, den_fromU64] <;> ring

theorem add_den_oa (result b : Region) :
    den3 (G3_add__a3A3A3_al_result_a result b) = K3.add (den3 result) (den3 b) := by
  unfold G3_add__a3A3A3_al_result_a
  ext <;> simp [den3, Region.set, K3.mul, K3.add, K3.sub, K3.neg, K3.ofBase, den_add_r, den_sub_r, den_mul_r, den_neg_r, den_fromU64] <;> ring

theorem add_den_ob (result a : Region) :
    den3 (G3_add__a3A3A3_al_result_b result a) = K3.add (den3 a) (den3 result) := by
  unfold G3_add__a3A3A3_al_result_b
  ext <;> simp [den3, Region.set, K3.mul, K3.add, K3.sub, K3.neg, K3.ofBase, den_add_r, den_sub_r, den_mul_r, den_neg_r, den_fromU64] <;> ring

theorem add_den_ab (result a : Region) :
    den3 (G3_add__a3A3A3_al_a_b result a) = K3.add (den3 a) (den3 a) := by
  unfold G3_add__a3A3A3_al_a_b
  ext <;> simp [den3, Region.set, K3.mul, K3.add, K3.sub, K3.neg, K3.ofBase, den_add_r, den_sub_r, den_mul_r, den_neg_r, den_fromU64] <;> ring

theorem add_den_oab (result : Region) :
    den3 (G3_add__a3A3A3_al_result_a_al_result_b result) = K3.add (den3 result) (den3 result) := by
  unfold G3_add__a3A3A3_al_result_a_al_result_b
  ext <;> simp [den3, Region.set, K3.mul, K3.add, K3.sub, K3.neg, K3.ofBase, den_add_r, den_sub_r, den_mul_r, den_neg_r, den_fromU64] <;> ring

theorem add_base_den (result a : Region) (b : BitVec 64) :
    den3 (G3_add__a3A3E result a b) = K3.add (den3 a) (K3.ofBase (den b)) := by
  unfold G3_add__a3A3E
  ext <;> simp [den3, Region.set, K3.mul, K3.add, K3.sub, K3.neg, K3.ofBase, den_add_r, den_sub_r, den_mul_r, den_neg_r, den_fromU64] <;> ring

theorem add_base_den_oa (result : Region) (b : BitVec 64) :
    den3 (G3_add__a3A3E_al_result_a result b) = K3.add (den3 result) (K3.ofBase (den b)) := by
  unfold G3_add__a3A3E_al_result_a
  ext <;> simp [den3, Region.set, K3.mul, K3.add, K3.sub, K3.neg, K3.ofBase, den_add_r, den_sub_r, den_mul_r, den_neg_r, den_fromU64] <;> ring

theorem add_int_den (result a : Region) (b : BitVec 64) :
    den3 (G3_add__a3A3U result a b) = K3.add (den3 a) (K3.ofBase (den b)) := by
  unfold G3_add__a3A3U
  ext <;> simp [den3, Region.set, K3.mul, K3.add, K3.sub, K3.neg, K3.ofBase, den_add_r, den_sub_r, den_mul_r, den_neg_r, den_fromU64] <;> ring

theorem add_int_den_oa (result : Region) (b : BitVec 64) :
    den3 (G3_add__a3A3U_al_result_a result b) = K3.add (den3 result) (K3.ofBase (den b)) := by
  unfold G3_add__a3A3U_al_result_a
  ext <;> simp [den3, Region.set, K3.mul, K3.add, K3.sub, K3.neg, K3.ofBase, den_add_r, den_sub_r, den_mul_r, den_neg_r, den_fromU64] <;> ring

theorem add_base_l_den (result : Region) (a : BitVec 64) (b : Region) :
    den3 (G3_add__a3EA3 result a b) = K3.add (K3.ofBase (den a)) (den3 b) := by
  unfold G3_add__a3EA3
  rw [add_base_den]; simp only [K3.add, K3.ofBase]; ext <;> simp only <;> ring
theorem add_base_l_den_ob (result : Region) (a : BitVec 64) :
    den3 (G3_add__a3EA3_al_result_b result a) = K3.add (K3.ofBase (den a)) (den3 result) := by
  unfold G3_add__a3EA3_al_result_b
  rw [add_base_den_oa]; simp only [K3.add, K3.ofBase]; ext <;> simp only <;> ring

theorem sub_den (result a b : Region) :
    den3 (G3_sub__a3a3a3 result a b) = K3.sub (den3 a) (den3 b) := by
  unfold G3_sub__a3a3a3
  ext <;> simp [den3, Region.set, K3.mul, K3.add, K3.sub, K3.neg, K3.ofBase, den_add_r, den_sub_r, den_mul_r, den_neg_r, den_fromU64] <;> ring

theorem sub_den_oa (result b : Region) :
    den3 (G3_sub__a3a3a3_al_result_a result b) = K3.sub (den3 result) (den3 b) := by
  unfold G3_sub__a3a3a3_al_result_a
  ext <;> simp [den3, Region.set, K3.mul, K3.add, K3.sub, K3.neg, K3.ofBase, den_add_r, den_sub_r, den_mul_r, den_neg_r, den_fromU64] <;> ring

theorem sub_den_ob (result a : Region) :
    den3 (G3_sub__a3a3a3_al_result_b result a) = K3.sub (den3 a) (den3 result) := by
  unfold G3_sub__a3a3a3_al_result_b
  ext <;> simp [den3, Region.set, K3.mul, K3.add, K3.sub, K3.neg, K3.ofBase, den_add_r, den_sub_r, den_mul_r, den_neg_r, den_fromU64] <;> ring

theorem sub_den_ab (result a : Region) :
    den3 (G3_sub__a3a3a3_al_a_b result a) = K3.sub (den3 a) (den3 a) := by
  unfold G3_sub__a3a3a3_al_a_b
  ext <;> simp [den3, Region.set, K3.mul, K3.add, K3.sub, K3.neg, K3.ofBase, den_add_r, den_sub_r, den_mul_r, den_neg_r, den_fromU64] <;> ring

theorem sub_den_oab (result : Region) :
    den3 (G3_sub__a3a3a3_al_result_a_al_result_b result) = K3.sub (den3 result) (den3 result) := by
  unfold G3_sub__a3a3a3_al_result_a_al_result_b
  ext <;> simp [den3, Region.set, K3.mul, K3.add, K3.sub, K3.neg, K3.ofBase, den_add_r, den_sub_r, den_mul_r, den_neg_r, den_fromU64] <;> ring

theorem sub_base_den (result a : Region) (b : BitVec 64) :
    den3 (G3_sub__a3a3E result a b) = K3.sub (den3 a) (K3.ofBase (den b)) := by
  unfold G3_sub__a3a3E
  ext <;> simp [den3, Region.set, K3.mul, K3.add, K3.sub, K3.neg, K3.ofBase, den_add_r, den_sub_r, den_mul_r, den_neg_r, den_fromU64] <;> ring

theorem sub_base_den_oa (result : Region) (b : BitVec 64) :
    den3 (G3_sub__a3a3E_al_result_a result b) = K3.sub (den3 result) (K3.ofBase (den b)) := by
  unfold G3_sub__a3a3E_al_result_a
  ext <;> simp [den3, Region.set, K3.mul, K3.add, K3.sub, K3.neg, K3.ofBase, den_add_r, den_sub_r, den_mul_r, den_neg_r, den_fromU64] <;> ring

theorem sub_int_den (result a : Region) (b : BitVec 64) :
    den3 (G3_sub__a3a3e result a b) = K3.sub (den3 a) (K3.ofBase (den b)) := by
  unfold G3_sub__a3a3e
  ext <;> simp [den3, Region.set, K3.mul, K3.add, K3.sub, K3.neg, K3.ofBase, den_add_r, den_sub_r, den_mul_r, den_neg_r, den_fromU64] <;> ring

theorem sub_int_den_oa (result : Region) (b : BitVec 64) :
    den3 (G3_sub__a3a3e_al_result_a result b) = K3.sub (den3 result) (K3.ofBase (den b)) := by
  unfold G3_sub__a3a3e_al_result_a
  ext <;> simp [den3, Region.set, K3.mul, K3.add, K3.sub, K3.neg, K3.ofBase, den_add_r, den_sub_r, den_mul_r, den_neg_r, den_fromU64] <;> ring

theorem sub_base_l_den (result : Region) (a : BitVec 64) (b : Region) :
    den3 (G3_sub__a3Ea3 result a b) = K3.sub (K3.ofBase (den a)) (den3 b) := by
  unfold G3_sub__a3Ea3
  ext <;> simp [den3, Region.set, K3.mul, K3.add, K3.sub, K3.neg, K3.ofBase, den_add_r, den_sub_r, den_mul_r, den_neg_r, den_fromU64] <;> ring

theorem sub_base_l_den_ob (result : Region) (a : BitVec 64) :
    den3 (G3_sub__a3Ea3_al_result_b result a) = K3.sub (K3.ofBase (den a)) (den3 result) := by
  unfold G3_sub__a3Ea3_al_result_b
  ext <;> simp [den3, Region.set, K3.mul, K3.add, K3.sub, K3.neg, K3.ofBase, den_add_r, den_sub_r, den_mul_r, den_neg_r, den_fromU64] <;> ring

/-- neg: whether written as `sub(result, zero(), a)` or coefficient-wise through `Goldilocks::neg` -/
theorem neg_den (result a : Region) : den3 (G3_neg result a) = K3.neg (den3 a) := by
  unfold G3_neg
  try simp only [sub_den, sub_den_ob, den3_zero_r]
  ext <;> simp [den3, Region.set, K3.mul, K3.add, K3.sub, K3.neg, K3.zero, K3.ofBase, den_add_r, den_sub_r, den_mul_r, den_neg_r, den_fromU64] <;> ring
theorem neg_den_oa (result : Region) : den3 (G3_neg_al_result_a result) = K3.neg (den3 result) := by
  unfold G3_neg_al_result_a
  try simp only [sub_den, sub_den_ob, den3_zero_r]
  ext <;> simp [den3, Region.set, K3.mul, K3.add, K3.sub, K3.neg, K3.zero, K3.ofBase, den_add_r, den_sub_r, den_mul_r, den_neg_r, den_fromU64] <;> ring

theorem mul_den (result a b : Region) :
    den3 (G3_mul__a3a3a3 result a b) = K3.mul (den3 a) (den3 b) := by
  unfold G3_mul__a3a3a3
  ext <;> simp [den3, Region.set, K3.mul, K3.add, K3.sub, K3.neg, K3.ofBase, den_add_r, den_sub_r, den_mul_r, den_neg_r, den_fromU64] <;> ring

theorem mul_den_oa (result b : Region) :
    den3 (G3_mul__a3a3a3_al_result_a result b) = K3.mul (den3 result) (den3 b) := by
  unfold G3_mul__a3a3a3_al_result_a
  ext <;> simp [den3, Region.set, K3.mul, K3.add, K3.sub, K3.neg, K3.ofBase, den_add_r, den_sub_r, den_mul_r, den_neg_r, den_fromU64] <;> ring

theorem mul_den_ob (result a : Region) :
    den3 (G3_mul__a3a3a3_al_result_b result a) = K3.mul (den3 a) (den3 result) := by
  unfold G3_mul__a3a3a3_al_result_b
  ext <;> simp [den3, Region.set, K3.mul, K3.add, K3.sub, K3.neg, K3.ofBase, den_add_r, den_sub_r, den_mul_r, den_neg_r, den_fromU64] <;> ring

theorem mul_den_ab (result a : Region) :
    den3 (G3_mul__a3a3a3_al_a_b result a) = K3.mul (den3 a) (den3 a) := by
  unfold G3_mul__a3a3a3_al_a_b
  ext <;> simp [den3, Region.set, K3.mul, K3.add, K3.sub, K3.neg, K3.ofBase, den_add_r, den_sub_r, den_mul_r, den_neg_r, den_fromU64] <;> ring

theorem mul_den_oab (result : Region) :
    den3 (G3_mul__a3a3a3_al_result_a_al_result_b result) = K3.mul (den3 result) (den3 result) := by
  unfold G3_mul__a3a3a3_al_result_a_al_result_b
  ext <;> simp [den3, Region.set, K3.mul, K3.add, K3.sub, K3.neg, K3.ofBase, den_add_r, den_sub_r, den_mul_r, den_neg_r, den_fromU64] <;> ring

theorem mul_base_den (result a : Region) (b : BitVec 64) :
    den3 (G3_mul__a3a3e result a b) = K3.mul (den3 a) (K3.ofBase (den b)) := by
  unfold G3_mul__a3a3e
  ext <;> simp [den3, Region.set, K3.mul, K3.add, K3.sub, K3.neg, K3.ofBase, den_add_r, den_sub_r, den_mul_r, den_neg_r, den_fromU64] <;> ring

theorem mul_base_den_oa (result : Region) (b : BitVec 64) :
    den3 (G3_mul__a3a3e_al_result_a result b) = K3.mul (den3 result) (K3.ofBase (den b)) := by
  unfold G3_mul__a3a3e_al_result_a
  ext <;> simp [den3, Region.set, K3.mul, K3.add, K3.sub, K3.neg, K3.ofBase, den_add_r, den_sub_r, den_mul_r, den_neg_r, den_fromU64] <;> ring

theorem mul_int_den (result a : Region) (b : BitVec 64) :
    den3 (G3_mul__a3a3E result a b) = K3.mul (den3 a) (K3.ofBase (den b)) := by
  unfold G3_mul__a3a3E
  ext <;> simp [den3, Region.set, K3.mul, K3.add, K3.sub, K3.neg, K3.ofBase, den_add_r, den_sub_r, den_mul_r, den_neg_r, den_fromU64] <;> ring

theorem mul_int_den_oa (result : Region) (b : BitVec 64) :
    den3 (G3_mul__a3a3E_al_result_a result b) = K3.mul (den3 result) (K3.ofBase (den b)) := by
  unfold G3_mul__a3a3E_al_result_a
  ext <;> simp [den3, Region.set, K3.mul, K3.add, K3.sub, K3.neg, K3.ofBase, den_add_r, den_sub_r, den_mul_r, den_neg_r, den_fromU64] <;> ring

theorem mul_base_l_den (result : Region) (a : BitVec 64) (b : Region) :
    den3 (G3_mul__a3Ea3 result a b) = K3.mul (K3.ofBase (den a)) (den3 b) := by
  unfold G3_mul__a3Ea3
  rw [mul_base_den]; simp only [K3.mul, K3.ofBase]; ext <;> simp only <;> ring
theorem mul_base_l_den_ob (result : Region) (a : BitVec 64) :
    den3 (G3_mul__a3Ea3_al_result_b result a) = K3.mul (K3.ofBase (den a)) (den3 result) := by
  unfold G3_mul__a3Ea3_al_result_b
  rw [mul_base_den_oa]; simp only [K3.mul, K3.ofBase]; ext <;> simp only <;> ring
theorem mul_ptr_den (result a b : Region) :
    den3 (G3_mul__ppp result a b) = K3.mul (den3 a) (den3 b) ∧
    den3 (G3_mul__ppp_al_result_a result b) = K3.mul (den3 result) (den3 b) ∧
    den3 (G3_mul__ppp_al_result_b result a) = K3.mul (den3 a) (den3 result) ∧
    den3 (G3_mul__ppp_al_a_b result a) = K3.mul (den3 a) (den3 a) ∧
    den3 (G3_mul__ppp_al_result_a_al_result_b result) = K3.mul (den3 result) (den3 result) := by
  refine ⟨?_, ?_, ?_, ?_, ?_⟩
  · unfold G3_mul__ppp; exact mul_den _ _ _
  · unfold G3_mul__ppp_al_result_a; exact mul_den_oa _ _
  · unfold G3_mul__ppp_al_result_b; exact mul_den_ob _ _
  · unfold G3_mul__ppp_al_a_b; exact mul_den_ab _ _
  · unfold G3_mul__ppp_al_result_a_al_result_b; exact mul_den_oab _
theorem square_den (result a : Region) : den3 (G3_square result a) = K3.mul (den3 a) (den3 a) := by
  unfold G3_square; exact mul_den _ _ _
theorem square_den_oa (result : Region) : den3 (G3_square_al_result_a result) = K3.mul (den3 result) (den3 result) := by
  unfold G3_square_al_result_a; exact mul_den_oab _

/-! #### ring laws of the triple representation (used by the batch inversion argument) -/
namespace K3
theorem mul_comm (a b : K3) : mul a b = mul b a := by
  ext <;> simp only [mul] <;> ring
theorem mul_assoc (a b c : K3) : mul (mul a b) c = mul a (mul b c) := by
  ext <;> simp only [mul] <;> ring
theorem mul_one (a : K3) : mul a one = a := by
  ext <;> simp only [mul, one] <;> ring
theorem one_mul (a : K3) : mul one a = a := by rw [mul_comm, mul_one]
/-- the quantity `t` of `Goldilocks3::inv` (minus the norm of a) -/
def tval (a : K3) : F :=
  a.c1 * a.c0 * a.c2 + a.c1 * a.c0 * a.c2 + a.c1 * a.c0 * a.c2 + a.c1 * a.c0 * a.c1 - a.c0 * a.c0 * a.c0 -
    a.c0 * a.c0 * a.c2 - a.c0 * a.c0 * a.c2 - a.c0 * a.c2 * a.c2 - a.c1 * a.c1 * a.c1 + a.c1 * a.c2 * a.c2 -
    a.c2 * a.c2 * a.c2
/-- the cofactor formula of `Goldilocks3::inv` -/
def cof (a : K3) (ti : F) : K3 :=
  ⟨(a.c1 * a.c2 + a.c1 * a.c1 - a.c0 * a.c0 - a.c0 * a.c2 - a.c0 * a.c2 - a.c2 * a.c2) * ti,
   (a.c1 * a.c0 - a.c2 * a.c2) * ti,
   (a.c0 * a.c2 + a.c2 * a.c2 - a.c1 * a.c1) * ti⟩
/-- cofactors times the element = t (the adjugate identity), hence the inverse when t·ti = 1 -/
theorem cof_mul (a : K3) (ti : F) (h : ti * tval a = 1) : mul (cof a ti) a = one := by
  have e0 : (mul (cof a ti) a).c0 = ti * tval a := by simp only [mul, cof, tval]; ring
  have e1 : (mul (cof a ti) a).c1 = 0 := by simp only [mul, cof]; ring
  have e2 : (mul (cof a ti) a).c2 = 0 := by simp only [mul, cof]; ring
  ext
  · rw [e0, h]; rfl
  · rw [e1]; rfl
  · rw [e2]; rfl
end K3

theorem g3t_den (a : E3) : den (g3t a) = K3.tval (denE a) := by
  unfold g3t
  simp only [den_add_r, den_sub_r, den_mul_r, K3.tval, denE]

theorem g3cof_den (a : E3) (ti : BitVec 64) : denE (g3cof a ti) = K3.cof (denE a) (den ti) := by
  unfold g3cof
  simp only [denE, K3.cof, den_add_r, den_sub_r, den_mul_r]

/-- `g3inv` in the field view: refuses exactly when t = 0, otherwise returns an inverse -/
theorem g3inv_den (a : E3) :
    (g3inv a = none ↔ K3.tval (denE a) = 0) ∧
    (∀ r, g3inv a = some r → K3.mul (denE r) (denE a) = K3.one) := by
  have hinv := inv_spec (g3t a)
  rw [g3t_den] at hinv
  unfold g3inv
  constructor
  · rw [← hinv.1]
    cases Model.inv (g3t a) <;> simp
  · intro r hr
    cases hti : Model.inv (g3t a) with
    | none => rw [hti] at hr; cases hr
    | some tinv =>
      rw [hti] at hr
      simp only [Option.map_some, Option.some.injEq] at hr
      have hm := (hinv.2 tinv hti).1
      rw [← hr, g3cof_den]
      exact K3.cof_mul _ _ hm

theorem g3div_den (a : E3) (b : BitVec 64) :
    (g3div a b = none ↔ den b = 0) ∧
    (∀ r, g3div a b = some r → K3.mul (denE r) (K3.ofBase (den b)) = denE a) := by
  have hinv := inv_spec b
  unfold g3div
  constructor
  · rw [← hinv.1]; cases Model.inv b <;> simp
  · intro r hr
    cases hbi : Model.inv b with
    | none => rw [hbi] at hr; cases hr
    | some bi =>
      rw [hbi] at hr
      simp only [Option.some.injEq] at hr
      have hm := (hinv.2 bi hbi).1
      rw [← hr]
      simp only [denE, K3.mul, K3.ofBase, den_mul_r]
      ext <;> simp only
      · linear_combination (den a.c0) * hm
      · linear_combination (den a.c1) * hm
      · linear_combination (den a.c2) * hm

theorem g3mulScalar_den (a : E3) (s : String) (x : Int) (h : parseInt 10 s = some x) :
    ∃ r, g3mulScalar a s = some r ∧ denE r = K3.mul (denE a) (K3.ofBase (x : F)) := by
  have hs : Model.fromString s 10 = some (fromScalar x) := by unfold Model.fromString; rw [h]; rfl
  refine ⟨⟨mul__rEE a.c0 (fromScalar x), mul__rEE a.c1 (fromScalar x), mul__rEE a.c2 (fromScalar x)⟩, ?_, ?_⟩
  · unfold g3mulScalar; rw [hs]
  · simp only [denE, K3.mul, K3.ofBase, den_mul_r, fromScalar_den]
    ext <;> simp only <;> ring

theorem isOne_den (r : Region) : G3_isOne r = true ↔ den3 r = K3.one := by
  unfold G3_isOne
  simp only [Bool.and_eq_true, (predicates _).1, (predicates _).2.1]
  constructor
  · rintro ⟨⟨h0, h1⟩, h2⟩
    ext <;> simp only [den3, K3.one] <;> assumption
  · intro h
    have h0 := congrArg K3.c0 h
    have h1 := congrArg K3.c1 h
    have h2 := congrArg K3.c2 h
    simp only [den3, K3.one] at h0 h1 h2
    exact ⟨⟨h0, h1⟩, h2⟩

end GoldilocksVerif
