/-
  Bridge theorem: the TRANSLATED `NTT_Goldilocks::NTT_iters` (Gen/NttGen.lean) for SIZE 1 — `domainPow = 0`, the clamp gives one
  phase, the bit reversal copies the row into `aux`, the pass loop is not entered, `a != dst_`, `size > 1` is false, and the row is
  copied to the destination by `Goldilocks::parcpy(dst_, a, size * ncols, nThreads)` — against the hand model's `nttIters`; then
  `nttIters_gen_all`: all sizes `1 ≤ 2^K ≤ 2^30`.

  FUEL.  `parcpy` is a chunk loop of `⌈ncols / chunk⌉ ≤ min(ncols, max(1, (int) nThreads))` iterations, a `while` loop of the
  generated model: size 1 needs `fuel ≥ parFuel ncols ((int) nThreads) = min(ncols, max(1, (int) nThreads)) + 1` in addition to
  the 64 of `log2`.  `itersFuel self K ncols` is that bound (64 for K ≥ 1).  For an object built with `nThreads ≤ 63`, or for
  `ncols ≤ 63`, it is 64.
-/
import GoldilocksVerif.Lemmas.BridgeNttItersTop
import GoldilocksVerif.Lemmas.BridgeNttTac
import GoldilocksVerif.Lemmas.BridgeParcpy

namespace GoldilocksVerif.BridgeNtt
open GoldilocksVerif Gen.NttGen

/-- fuel from which `NTT_iters(size = 2^K, ncols = NC)` on the object `self` cannot run out -/
def itersFuel (self : NTT_Goldilocks) (K NC : Nat) : Nat :=
  if K = 0 then max 64 (parFuel NC (I32.ofU32 self.nThreads)) else 64

theorem itersFuel_ge (self : NTT_Goldilocks) (K NC : Nat) : 64 ≤ itersFuel self K NC := by
  unfold itersFuel; split <;> omega

/-- with at most 63 threads (or at most 63 columns) the bound is 64 -/
theorem itersFuel_small (self : NTT_Goldilocks) (K NC : Nat) (h : self.nThreads.toNat ≤ 63 ∨ NC ≤ 63) :
    itersFuel self K NC = 64 := by
  unfold itersFuel
  split
  · unfold parFuel ParCopy.threads I32.ofU32
    rcases h with h | h
    · have : self.nThreads.toInt = (self.nThreads.toNat : Int) := by
        rw [BitVec.toInt_eq_toNat_cond, if_pos (by omega)]
      rw [this]
      split <;> omega
    · omega
  · rfl

theorem ofU32_lt (x : BitVec 32) : I32.ofU32 x < 2 ^ 63 := by
  unfold I32.ofU32
  have := BitVec.toInt_lt (x := x)
  omega

/-- **NTT_iters, size 1** -/
theorem nttIters_gen1 (fuel : Nat) (hf : 64 ≤ fuel) (hp : Heap) (self : NTT_Goldilocks) (o : Model.Ntt.Obj)
    (hrep : ObjRep hp self o) (D Sx Ax : Nat) (hD : D < hp.size) (hAx : Ax < hp.size) (hDA : D ≠ Ax) (hSA : Sx ≠ Ax)
    (dst : Ptr) (hdst : (if (dst != Ptr.null) = true then dst else (⟨Sx, 0⟩ : Ptr)) = ⟨D, 0⟩)
    (oc NC NCA : Nat) (nphase : BitVec 64) (inverse extend : Bool)
    (hb1 : NCA + oc < 2 ^ 64) (hNC8 : NC * 8 < 2 ^ 64) (hext31 : o.extension < 2 ^ 31)
    (hfp : parFuel NC (I32.ofU32 self.nThreads) ≤ fuel) :
    match Model.Ntt.nttIters o (hp.block D) (hp.block Sx) (hp.block Ax) (decide (D = Sx)) 1 oc NC NCA nphase.toNat
        inverse extend with
    | .ok (d, _) => ∃ X', NTT_NTT_iters fuel hp self dst ⟨Sx, 0⟩ (bv 1) (bv oc) (bv NC) (bv NCA) nphase ⟨Ax, 0⟩ inverse extend =
        some ((hp.setBlock D d).setBlock Ax X') ∧ X'.size = (hp.block Ax).size
    | .error _ => NTT_NTT_iters fuel hp self dst ⟨Sx, 0⟩ (bv 1) (bv oc) (bv NC) (bv NCA) nphase ⟨Ax, 0⟩ inverse extend = none := by
  have h1t : (bv 1).toNat = 1 := bv_toNat 1 (by omega)
  have h1ne : bv 1 ≠ 0#64 := by decide
  have hlog0 : Model.Ntt.log2 1 = 0 := by decide
  have hlog := log2_gen_eq fuel (by unfold log2Fuel; omega) (bv 1) h1ne
  rw [h1t, hlog0] at hlog
  have hpow : ((1#64 : BitVec 64) <<< (bv 0).toNat == bv 1) = true := by decide
  have hnp : Model.Ntt.clampPhase nphase.toNat 0 = 1 := (Model.Ntt.clampPhase_range nphase.toNat 0).2.2 rfl
  have hdiv : bv 0 / 1#64 = bv 0 := by decide
  have hmod : bv 0 % 1#64 = bv 0 := by decide
  have hres0 : decide (bv 0 > 0#64) = false := by decide
  have hodd : ((1#64 : BitVec 64) % 2#64 == 1#64) = true := by decide
  have hsize1 : decide (bv 1 > 1#64) = false := by decide
  have hocT : (bv oc).toNat = oc := bv_toNat _ (by omega)
  have hNCAT : (bv NCA).toNat = NCA := bv_toNat _ (by omega)
  have hNCT : (bv NC).toNat = NC := bv_toNat _ (by omega)
  have ha0 : (if decide (D = Sx) = true then hp.block Sx else hp.block D) = hp.block D := by
    by_cases h : D = Sx
    · subst h; simp
    · simp [h]
  have hrp := reversePermutation_gen fuel (by unfold log2Fuel; omega) hp self o Ax Sx (bv 1) (bv oc) (bv NC) (bv NCA) 0
    (by omega) (by rw [h1t]; rfl) hAx hrep.ext hext31 (by rw [h1t, hNCAT, hocT]; omega) (by rw [h1t, hNCT]; omega)
    (by rw [hNCT]; exact hNC8)
  have hdec : decide (Ax = Sx) = false := by simp [Ne.symm hSA]
  rw [h1t, hNCAT, hocT, hNCT, hdec] at hrp
  obtain ⟨fuel', rfl⟩ : ∃ f', fuel = f' + 1 := ⟨fuel - 1, by omega⟩
  unfold NTT_NTT_iters Model.Ntt.nttIters
  dsimp only
  rw [hdst, hlog]
  have h21 : (2 : Nat) ^ 0 = 1 := rfl
  simp only [Option.bind_some, setWidth_ofNat32 0 (by omega), hpow, if_true, Bool.or_true, hlog0, hnp, hdiv,
    hmod, hres0, hodd, h21, ne_eq, not_true_eq_false, if_false, ha0, Bool.false_eq_true, beq_self_eq_true,
    decide_true, Model.Ntt.schedule_zero, List.foldl_nil]
  rw [hrp]
  cases hr : Model.Ntt.reversePermutation o (hp.block Ax) (hp.block Sx) false 1 oc NC NCA with
  | error e => simp only [Option.bind_none]
  | ok t =>
    have hts := Model.Ntt.reversePermutation_size o _ _ false 1 oc NC NCA t hr
    simp only [Bool.false_eq_true, if_false] at hts
    simp only [Option.bind_some]
    have hone : (1#64 : BitVec 64) = bv 1 := rfl
    -- the pass loop is left at its first test (`s = 1 > domainPow = 0`), whatever the parameter list of its step function
    rw [hone, Loop.whileM_stop _ _ _ _ (by
        have hle : decide (bv 1 ≤ bv 0) = false := by decide
        unfold_loops
        dsimp only
        rw [hle]
        rfl)]
    have hne' : ((⟨Ax, 0⟩ : Ptr) != ⟨D, 0⟩) = true := by rw [ptr_ne]; simp [Ne.symm hDA]
    have hgt : ¬ (1 > 1) := by omega
    simp only [Option.bind_some, hne', if_true, hsize1, Bool.false_eq_true, if_false, hgt, bv_mul, Nat.one_mul]
    rw [parcpy_gen _ (hp.setBlock Ax t) D Ax 0 0 NC (I32.ofU32 self.nThreads) (by simp; exact hD) hDA hNC8
      (ofU32_lt _) hfp]
    rw [Heap.block_setBlock_other _ _ _ _ hDA, Heap.block_setBlock_same _ _ _ hAx]
    simp only [Option.bind_some]
    by_cases hDS : D = Sx
    · simp only [hDS, decide_true, if_true]
      exact ⟨t, by rw [Heap.setBlock_comm _ _ _ _ _ (Ne.symm hSA)], hts⟩
    · simp only [hDS, decide_false, Bool.false_eq_true, if_false]
      exact ⟨t, by rw [Heap.setBlock_comm _ _ _ _ _ (Ne.symm hDA)], hts⟩

/-- **NTT_iters, every size 1 ≤ 2^K ≤ 2^30** (`nttIters_gen` for K ≥ 1, `nttIters_gen1` for K = 0) -/
theorem nttIters_gen_all (fuel : Nat) (hp : Heap) (self : NTT_Goldilocks) (o : Model.Ntt.Obj)
    (hrep : ObjRep hp self o) (D Sx Ax : Nat) (hD : D < hp.size) (hAx : Ax < hp.size) (hDA : D ≠ Ax) (hSA : Sx ≠ Ax)
    (hfrD : ObjFrame self D) (hfrA : ObjFrame self Ax)
    (dst : Ptr) (hdst : (if (dst != Ptr.null) = true then dst else (⟨Sx, 0⟩ : Ptr)) = ⟨D, 0⟩)
    (K N oc NC NCA : Nat) (nphase : BitVec 64) (inverse extend : Bool)
    (hK : K ≤ 30) (hN : N = 2 ^ K) (hKs : K ≤ o.s) (hos : o.s ≤ 32)
    (hb1 : N * NCA + oc < 2 ^ 64) (hNNC : N * NC < 2 ^ 64) (hNC8 : NC * 8 < 2 ^ 64) (hext31 : o.extension < 2 ^ 31)
    (hcache : extend = true → o.rcache ≠ none) (hf : itersFuel self K NC ≤ fuel) :
    match Model.Ntt.nttIters o (hp.block D) (hp.block Sx) (hp.block Ax) (decide (D = Sx)) N oc NC NCA nphase.toNat
        inverse extend with
    | .ok (d, _) => ∃ X', NTT_NTT_iters fuel hp self dst ⟨Sx, 0⟩ (bv N) (bv oc) (bv NC) (bv NCA) nphase ⟨Ax, 0⟩ inverse extend =
        some ((hp.setBlock D d).setBlock Ax X') ∧ X'.size = (hp.block Ax).size
    | .error _ => NTT_NTT_iters fuel hp self dst ⟨Sx, 0⟩ (bv N) (bv oc) (bv NC) (bv NCA) nphase ⟨Ax, 0⟩ inverse extend = none := by
  have hf64 := Nat.le_trans (itersFuel_ge self K NC) hf
  rcases Nat.eq_zero_or_pos K with hK0 | hK1
  · subst hK0
    have hN1 : N = 1 := hN
    subst hN1
    have hfp : parFuel NC (I32.ofU32 self.nThreads) ≤ fuel := by
      unfold itersFuel at hf
      rw [if_pos rfl] at hf
      omega
    exact nttIters_gen1 fuel hf64 hp self o hrep D Sx Ax hD hAx hDA hSA dst hdst oc NC NCA nphase inverse extend (by omega) hNC8
      hext31 hfp
  · exact nttIters_gen fuel hf64 hp self o hrep D Sx Ax hD hAx hDA hSA hfrD hfrA dst hdst K N oc NC NCA nphase inverse extend hK1
      hK hN hKs hos hb1 hNNC hNC8 hext31 hcache

end GoldilocksVerif.BridgeNtt
