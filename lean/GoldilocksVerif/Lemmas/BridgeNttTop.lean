/-
  Bridge theorems: the TRANSLATED `NTT_Goldilocks::NTT` and `INTT` (Gen/NttGen.lean) against the hand model's `ntt` / `intt`
  (Model/Ntt.lean), for the default call shape: no caller scratch buffer (`buffer == NULL`: the function allocates and
  frees its own), one column block (`nblock` clamps to 1), 2 ≤ size = 2^K ≤ 2^30, ncols ≥ 1.
-/
import GoldilocksVerif.Lemmas.BridgeNttItersTop

namespace GoldilocksVerif.BridgeNtt
open GoldilocksVerif Gen.NttGen

/-- the blocks the object owns exist -/
def ObjIn (hp : Heap) (obj : NTT_Goldilocks) : Prop :=
  obj.roots.blk < hp.size ∧ obj.powTwoInv.blk < hp.size ∧ obj.r.blk < hp.size ∧ obj.r_.blk < hp.size

theorem ObjRep.push {hp : Heap} {obj : NTT_Goldilocks} {o : Model.Ntt.Obj} (h : ObjRep hp obj o) (hin : ObjIn hp obj)
    (Z : Block) : ObjRep (hp.push Z) obj o := by
  obtain ⟨i1, i2, i3, i4⟩ := hin
  apply h.frame
  rintro c (rfl | rfl | rfl | rfl)
  · exact Heap.block_push_lt _ _ _ i1
  · exact Heap.block_push_lt _ _ _ i2
  · exact Heap.block_push_lt _ _ _ i3
  · exact Heap.block_push_lt _ _ _ i4

theorem ObjIn.frame_last {hp : Heap} {obj : NTT_Goldilocks} (hin : ObjIn hp obj) : ObjFrame obj hp.size := by
  obtain ⟨i1, i2, i3, i4⟩ := hin
  exact ⟨by omega, by omega, by omega, by omega⟩

theorem rangeM_one {σ : Type} (s : σ) (f : Nat → σ → Option σ) : Loop.rangeM 0 1 1 s f = f 0 s := by
  unfold Loop.rangeM
  show Loop.rangeMAux 1 f 1 0 s = _
  rw [Loop.rangeMAux_succ]
  cases f 0 s <;> rfl

/-- **NTT** (forward or inverse, as `NTT` is called by `INTT` and `extendPol`), default call shape -/
theorem NTT_gen (fuel : Nat) (hf : 64 ≤ fuel) (hp : Heap) (self : NTT_Goldilocks) (o : Model.Ntt.Obj)
    (hrep : ObjRep hp self o) (hin : ObjIn hp self) (D Sx : Nat) (hD : D < hp.size) (hSx : Sx < hp.size) (hD0 : D ≠ 0)
    (hfrD : ObjFrame self D) (mode : Model.Ntt.DstMode) (hmode : mode = .other ↔ D ≠ Sx)
    (dst : Ptr) (hdst : (if (dst == Ptr.null) = true then (⟨Sx, 0⟩ : Ptr) else dst) = ⟨D, 0⟩)
    (K N NC : Nat) (nphase nblock : BitVec 64) (inverse extend : Bool)
    (hK1 : 1 ≤ K) (hK : K ≤ 30) (hN : N = 2 ^ K) (hKs : K ≤ o.s) (hos : o.s ≤ 32) (hNC1 : 1 ≤ NC)
    (hNNC8 : N * NC * 8 < 2 ^ 64) (hext31 : o.extension < 2 ^ 31) (hcache : extend = true → o.rcache ≠ none)
    (hnb : Model.Ntt.clampBlock nblock.toNat NC = 1) :
    match Model.Ntt.ntt o mode (hp.block D) (hp.block Sx) N NC nphase.toNat nblock.toNat inverse extend with
    | .ok (d, _) => NTT_NTT fuel hp self dst ⟨Sx, 0⟩ (bv N) (bv NC) Ptr.null nphase nblock inverse extend =
        some (hp.setBlock D d)
    | .error _ => NTT_NTT fuel hp self dst ⟨Sx, 0⟩ (bv N) (bv NC) Ptr.null nphase nblock inverse extend = none := by
  have hN2 : 2 ≤ N := by
    rw [hN]; calc 2 = 2 ^ 1 := rfl
      _ ≤ 2 ^ K := Nat.pow_le_pow_right (by omega) hK1
  have hN30 : N ≤ 2 ^ 30 := by rw [hN]; exact Nat.pow_le_pow_right (by omega) hK
  have hNCle : NC ≤ N * NC := Nat.le_mul_of_pos_left NC (by omega)
  have hNC64 : NC < 2 ^ 64 := by omega
  have hc0 : (bv NC == 0#64) = false := by
    show (bv NC == bv 0) = false
    rw [beq_bv _ _ hNC64 (by omega)]; simp; omega
  have hs0 : (bv N == 0#64) = false := by
    show (bv N == bv 0) = false
    rw [beq_bv _ _ (by omega) (by omega)]; simp; omega
  -- the clamp of nblock gives 1
  have hclamp : (if decide ((if decide (nblock < 1#64) = true then 1#64 else nblock) > bv NC) = true then bv NC
      else (if decide (nblock < 1#64) = true then 1#64 else nblock)) = 1#64 := by
    unfold Model.Ntt.clampBlock at hnb
    have h1 : decide (nblock < 1#64) = decide (nblock.toNat < 1) := by
      rw [decide_eq_decide, BitVec.lt_def]; rfl
    rw [h1]
    by_cases c1 : nblock.toNat < 1
    · simp only [c1, decide_true, if_true]
      have : ¬ ((1#64 : BitVec 64) > bv NC) := by
        show ¬ (bv NC < bv 1); rw [lt_bv _ _ hNC64 (by omega)]; omega
      simp only [this, decide_false, Bool.false_eq_true, if_false]
    · rw [if_neg c1] at hnb
      simp only [c1, decide_false, Bool.false_eq_true, if_false]
      have h2 : decide (nblock > bv NC) = decide (nblock.toNat > NC) := by
        rw [decide_eq_decide]; show bv NC < nblock ↔ _; rw [BitVec.lt_def, bv_toNat _ hNC64]
      rw [h2]
      by_cases c2 : nblock.toNat > NC
      · rw [if_pos c2] at hnb
        have c2' : nblock.toNat > 1 := by omega
        simp only [c2', decide_true, if_true, hnb]
      · rw [if_neg c2] at hnb
        simp only [c2, decide_false, Bool.false_eq_true, if_false]
        apply BitVec.eq_of_toNat_eq; rw [hnb]; rfl
  have hgt1 : decide ((1#64 : BitVec 64) > 1#64) = false := by decide
  have hdiv : bv NC / 1#64 = bv NC := by rw [bv_one, bv_div _ _ hNC64 (by omega), Nat.div_one]
  have hmod : bv NC % 1#64 = bv 0 := by rw [bv_one, bv_mod _ _ hNC64 (by omega), Nat.mod_one]
  have hres : decide (bv 0 > 0#64) = false := by decide
  have hlt0 : decide (BitVec.ofNat 64 0 < bv 0) = false := by decide
  have hcnt : (8#64 * bv N * bv NC).toNat / 8 = N * NC := by
    have h8 : (8#64 : BitVec 64) = bv 8 := rfl
    have e8 : 8 * N * NC = N * NC * 8 := by rw [Nat.mul_assoc, Nat.mul_comm]
    rw [h8, bv_mul, bv_mul, e8, bv_toNat _ hNNC8]
    omega
  -- the hand model
  have hm : Model.Ntt.ntt o mode (hp.block D) (hp.block Sx) N NC nphase.toNat nblock.toNat inverse extend =
      Model.Ntt.nttIters o (hp.block D) (hp.block Sx) (Array.replicate (N * NC) 0#64) (decide (D = Sx)) N 0 NC NC
        nphase.toNat inverse extend := by
    unfold Model.Ntt.ntt
    rw [if_neg (by omega), hnb]
    unfold Model.Ntt.nttBlocks
    have e1 : NC / 1 + (if NC % 1 > 0 then 1 else 0) = NC := by
      rw [Nat.div_one, Nat.mod_one]; rfl
    have e2 : decide (mode ≠ Model.Ntt.DstMode.other) = decide (D = Sx) := by
      rw [decide_eq_decide]
      constructor
      · intro h; by_contra h2; exact h (hmode.mpr h2)
      · intro h h2; exact (hmode.mp h2) h
    simp only [e1, e2, Nat.le_refl, if_true]
  rw [hm]
  -- the heap with the scratch block
  have hAx : hp.size < (hp.push (Array.replicate (N * NC) 0#64)).size := by simp
  have hit := nttIters_gen fuel hf (hp.push (Array.replicate (N * NC) 0#64)) self o (hrep.push hin _) D Sx hp.size
    (by simp; omega) hAx (by omega) (by omega) hfrD hin.frame_last ⟨D, 0⟩
    (by
      have : ((⟨D, 0⟩ : Ptr) != Ptr.null) = true := by
        show ((⟨D, 0⟩ : Ptr) != ⟨0, 0⟩) = true
        rw [ptr_ne]; simp [hD0]
      rw [if_pos this])
    K N 0 NC NC nphase inverse extend hK1 hK hN hKs hos (by omega) (by omega) (by omega) hext31 hcache
  rw [Heap.block_push_lt _ _ _ hD, Heap.block_push_lt _ _ _ hSx, Heap.block_push_last _ _ _ rfl] at hit
  unfold NTT_NTT
  rw [hc0, hs0]
  simp only [Bool.or_false, Bool.false_eq_true, if_false, hclamp, hgt1, hdiv, hmod, hres, beq_self_eq_true, if_true, hdst,
    add_toU64_ite, toU64_int_zero, BitVec.add_zero, hcnt, Heap.alloc_fst, Heap.alloc_snd]
  have h1n : (1#64 : BitVec 64).toNat = 1 := rfl
  rw [h1n, rangeM_one]
  unfold NTT_NTT_loop2
  simp only [hlt0, Bool.false_eq_true, if_false, hgt1]
  have hz : (0#64 : BitVec 64) = bv 0 := rfl
  rw [hz]
  cases hr : Model.Ntt.nttIters o (hp.block D) (hp.block Sx) (Array.replicate (N * NC) 0#64) (decide (D = Sx)) N 0 NC NC
      nphase.toNat inverse extend with
  | error e =>
    rw [hr] at hit
    simp only [] at hit
    rw [hit]
    rfl
  | ok v =>
    obtain ⟨d, s'⟩ := v
    rw [hr] at hit
    obtain ⟨X', hX, hXs⟩ := hit
    rw [hX]
    simp only [Option.bind_some]
    rw [Heap.setBlock_push_lt _ _ _ _ hD, Heap.setBlock_push_last' _ _ _ _ (by simp),
      Heap.free_push' _ _ _ (by simp) (by simp; omega)]

/-- **INTT**, default call shape -/
theorem INTT_gen (fuel : Nat) (hf : 64 ≤ fuel) (hp : Heap) (self : NTT_Goldilocks) (o : Model.Ntt.Obj)
    (hrep : ObjRep hp self o) (hin : ObjIn hp self) (D Sx : Nat) (hD : D < hp.size) (hSx : Sx < hp.size) (hD0 : D ≠ 0)
    (hfrD : ObjFrame self D) (mode : Model.Ntt.DstMode) (hmode : mode = .other ↔ D ≠ Sx)
    (dst : Ptr) (hdst : (if (dst == Ptr.null) = true then (⟨Sx, 0⟩ : Ptr) else dst) = ⟨D, 0⟩)
    (K N NC : Nat) (nphase nblock : BitVec 64) (extend : Bool)
    (hK1 : 1 ≤ K) (hK : K ≤ 30) (hN : N = 2 ^ K) (hKs : K ≤ o.s) (hos : o.s ≤ 32) (hNC1 : 1 ≤ NC)
    (hNNC8 : N * NC * 8 < 2 ^ 64) (hext31 : o.extension < 2 ^ 31) (hcache : extend = true → o.rcache ≠ none)
    (hnb : Model.Ntt.clampBlock nblock.toNat NC = 1) :
    match Model.Ntt.intt o mode (hp.block D) (hp.block Sx) N NC nphase.toNat nblock.toNat extend with
    | .ok (d, _) => NTT_INTT fuel hp self dst ⟨Sx, 0⟩ (bv N) (bv NC) Ptr.null nphase nblock extend = some (hp.setBlock D d)
    | .error _ => NTT_INTT fuel hp self dst ⟨Sx, 0⟩ (bv N) (bv NC) Ptr.null nphase nblock extend = none := by
  have hN2 : 2 ≤ N := by
    rw [hN]; calc 2 = 2 ^ 1 := rfl
      _ ≤ 2 ^ K := Nat.pow_le_pow_right (by omega) hK1
  have hN30 : N ≤ 2 ^ 30 := by rw [hN]; exact Nat.pow_le_pow_right (by omega) hK
  have hNCle : NC ≤ N * NC := Nat.le_mul_of_pos_left NC (by omega)
  have hc0 : (bv NC == 0#64) = false := by
    show (bv NC == bv 0) = false
    rw [beq_bv _ _ (by omega) (by omega)]; simp; omega
  have hs0 : (bv N == 0#64) = false := by
    show (bv N == bv 0) = false
    rw [beq_bv _ _ (by omega) (by omega)]; simp; omega
  have hmode' : (if mode = .null then Model.Ntt.DstMode.same else mode) = .other ↔ D ≠ Sx := by
    rw [← hmode]
    cases mode <;> simp
  have h := NTT_gen fuel hf hp self o hrep hin D Sx hD hSx hD0 hfrD _ hmode' ⟨D, 0⟩
    (by
      have : ((⟨D, 0⟩ : Ptr) == Ptr.null) = false := by
        have h1 : ((⟨D, 0⟩ : Ptr) != ⟨0, 0⟩) = true := by rw [ptr_ne]; simp [hD0]
        show ((⟨D, 0⟩ : Ptr) == ⟨0, 0⟩) = false
        simpa [bne] using h1
      rw [this]; rfl)
    K N NC nphase nblock true extend hK1 hK hN hKs hos hNC1 hNNC8 hext31 hcache hnb
  have hm : Model.Ntt.intt o mode (hp.block D) (hp.block Sx) N NC nphase.toNat nblock.toNat extend =
      Model.Ntt.ntt o (if mode = .null then .same else mode) (hp.block D) (hp.block Sx) N NC nphase.toNat nblock.toNat
        true extend := by
    unfold Model.Ntt.intt
    rw [if_neg (by omega)]
  rw [hm]
  unfold NTT_INTT
  rw [hc0, hs0]
  simp only [Bool.or_false, Bool.false_eq_true, if_false, bind_some_id]
  -- the destination selection, however it is written (if / else on a local, `?:` on `dst != NULL`, …)
  ptr_norm at hdst ⊢
  simp only [hdst]
  exact h

/-- what the hand model's constructor fixes of `s` and `extension` -/
theorem mkObj_s_val (m e : Nat) (o : Model.Ntt.Obj) (hm : m ≠ 0) (h : Model.Ntt.mkObj m e = some o) :
    Model.Ntt.log2 m ≤ o.s ∧ o.s ≤ 32 ∧ o.extension = e := by
  unfold Model.Ntt.mkObj at h
  rw [if_neg hm] at h
  dsimp only at h
  generalize Model.Ntt.log2 m = D at h ⊢
  by_cases h1 : (if D ≤ 1 then 1 else min D 32) < D
  · rw [if_pos h1] at h; cases h
  · rw [if_neg h1] at h
    have ho := Option.some.inj h
    subst ho
    dsimp only
    by_cases h2 : D ≤ 1
    · rw [if_pos h2] at h1 ⊢; omega
    · rw [if_neg h2] at h1 ⊢; omega

end GoldilocksVerif.BridgeNtt
