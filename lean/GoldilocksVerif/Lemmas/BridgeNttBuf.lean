/-
  Bridge theorems: the TRANSLATED `NTT` / `INTT` called WITH a caller scratch buffer (any content, one column block) against the
  hand model's `nttIters` run with that buffer as `aux`; with the field-level specification of `nttIters` (which holds for
  every `aux` of sufficient size, Lemmas/NttTop.lean) this gives the transform property for the caller-buffer call shape.
-/
import GoldilocksVerif.Lemmas.BridgeNttTop
import GoldilocksVerif.Lemmas.NttTop

namespace GoldilocksVerif.BridgeNtt
open GoldilocksVerif Gen.NttGen

/-- **NTT with a caller buffer** (block `B`, any content): the generated function is the hand model's `nttIters` with that
    block as `aux`; the buffer block is left with the other ping-pong buffer -/
theorem NTT_gen_buf (fuel : Nat) (hf : 64 ≤ fuel) (hp : Heap) (self : NTT_Goldilocks) (o : Model.Ntt.Obj)
    (hrep : ObjRep hp self o) (D Sx B : Nat) (hD : D < hp.size) (hB : B < hp.size) (hD0 : D ≠ 0) (hB0 : B ≠ 0)
    (hDB : D ≠ B) (hSB : Sx ≠ B) (hfrD : ObjFrame self D) (hfrB : ObjFrame self B)
    (dst : Ptr) (hdst : (if (dst == Ptr.null) = true then (⟨Sx, 0⟩ : Ptr) else dst) = ⟨D, 0⟩)
    (K N NC : Nat) (nphase nblock : BitVec 64) (inverse extend : Bool)
    (hK1 : 1 ≤ K) (hK : K ≤ 30) (hN : N = 2 ^ K) (hKs : K ≤ o.s) (hos : o.s ≤ 32) (hNC1 : 1 ≤ NC)
    (hNNC8 : N * NC * 8 < 2 ^ 64) (hext31 : o.extension < 2 ^ 31) (hcache : extend = true → o.rcache ≠ none)
    (hnb : Model.Ntt.clampBlock nblock.toNat NC = 1) :
    match Model.Ntt.nttIters o (hp.block D) (hp.block Sx) (hp.block B) (decide (D = Sx)) N 0 NC NC nphase.toNat inverse extend with
    | .ok (d, _) => ∃ X', NTT_NTT fuel hp self dst ⟨Sx, 0⟩ (bv N) (bv NC) ⟨B, 0⟩ nphase nblock inverse extend =
        some ((hp.setBlock D d).setBlock B X') ∧ X'.size = (hp.block B).size
    | .error _ => NTT_NTT fuel hp self dst ⟨Sx, 0⟩ (bv N) (bv NC) ⟨B, 0⟩ nphase nblock inverse extend = none := by
  have hN2 : 2 ≤ N := by
    rw [hN]; calc 2 = 2 ^ 1 := rfl
      _ ≤ 2 ^ K := Nat.pow_le_pow_right (by omega) hK1
  have hN30 : N ≤ 2 ^ 30 := by rw [hN]; exact Nat.pow_le_pow_right (by omega) hK
  have hNCle : NC ≤ N * NC := Nat.le_mul_of_pos_left NC (by omega)
  have hNC64 : NC < 2 ^ 64 := by omega
  have hc0 : (bv NC == 0#64) = false := by
    show (bv NC == bv 0) = false
    rw [beq_bv _ _ hNC64 (by omega)]; simp; omega
  have hs0 : (bv N == 0#64) = false := by
    show (bv N == bv 0) = false
    rw [beq_bv _ _ (by omega) (by omega)]; simp; omega
  -- the clamp of nblock gives 1
  have hclamp : (if decide ((if decide (nblock < 1#64) = true then 1#64 else nblock) > bv NC) = true then bv NC
      else (if decide (nblock < 1#64) = true then 1#64 else nblock)) = 1#64 := by
    unfold Model.Ntt.clampBlock at hnb
    have h1 : decide (nblock < 1#64) = decide (nblock.toNat < 1) := by
      rw [decide_eq_decide, BitVec.lt_def]; rfl
    rw [h1]
    by_cases c1 : nblock.toNat < 1
    · simp only [c1, decide_true, if_true]
      have : ¬ ((1#64 : BitVec 64) > bv NC) := by
        show ¬ (bv NC < bv 1); rw [lt_bv _ _ hNC64 (by omega)]; omega
      simp only [this, decide_false, Bool.false_eq_true, if_false]
    · rw [if_neg c1] at hnb
      simp only [c1, decide_false, Bool.false_eq_true, if_false]
      have h2 : decide (nblock > bv NC) = decide (nblock.toNat > NC) := by
        rw [decide_eq_decide]; show bv NC < nblock ↔ _; rw [BitVec.lt_def, bv_toNat _ hNC64]
      rw [h2]
      by_cases c2 : nblock.toNat > NC
      · rw [if_pos c2] at hnb
        have c2' : nblock.toNat > 1 := by omega
        simp only [c2', decide_true, if_true, hnb]
      · rw [if_neg c2] at hnb
        simp only [c2, decide_false, Bool.false_eq_true, if_false]
        apply BitVec.eq_of_toNat_eq; rw [hnb]; rfl
  have hgt1 : decide ((1#64 : BitVec 64) > 1#64) = false := by decide
  have hdiv : bv NC / 1#64 = bv NC := by rw [bv_one, bv_div _ _ hNC64 (by omega), Nat.div_one]
  have hmod : bv NC % 1#64 = bv 0 := by rw [bv_one, bv_mod _ _ hNC64 (by omega), Nat.mod_one]
  have hres : decide (bv 0 > 0#64) = false := by decide
  have hlt0 : decide (BitVec.ofNat 64 0 < bv 0) = false := by decide
  have hcnt : (8#64 * bv N * bv NC).toNat / 8 = N * NC := by
    have h8 : (8#64 : BitVec 64) = bv 8 := rfl
    have e8 : 8 * N * NC = N * NC * 8 := by rw [Nat.mul_assoc, Nat.mul_comm]
    rw [h8, bv_mul, bv_mul, e8, bv_toNat _ hNNC8]
    omega
  have hbuf : ((⟨B, 0⟩ : Ptr) == Ptr.null) = false := by
    have h1 : ((⟨B, 0⟩ : Ptr) != ⟨0, 0⟩) = true := by rw [ptr_ne]; simp [hB0]
    show ((⟨B, 0⟩ : Ptr) == ⟨0, 0⟩) = false
    simpa [bne] using h1
  have hit := nttIters_gen fuel hf hp self o hrep D Sx B hD hB hDB hSB hfrD hfrB ⟨D, 0⟩
    (by
      have : ((⟨D, 0⟩ : Ptr) != Ptr.null) = true := by
        show ((⟨D, 0⟩ : Ptr) != ⟨0, 0⟩) = true
        rw [ptr_ne]; simp [hD0]
      rw [if_pos this])
    K N 0 NC NC nphase inverse extend hK1 hK hN hKs hos (by omega) (by omega) (by omega) hext31 hcache
  unfold NTT_NTT
  rw [hc0, hs0]
  simp only [Bool.or_false, Bool.false_eq_true, if_false, hclamp, hgt1, hdiv, hmod, hres, hbuf, hdst]
  have h1n : (1#64 : BitVec 64).toNat = 1 := rfl
  rw [h1n, rangeM_one]
  unfold NTT_NTT_loop2
  simp only [hlt0, Bool.false_eq_true, if_false, hgt1]
  have hz : (0#64 : BitVec 64) = bv 0 := rfl
  rw [hz]
  cases hr : Model.Ntt.nttIters o (hp.block D) (hp.block Sx) (hp.block B) (decide (D = Sx)) N 0 NC NC
      nphase.toNat inverse extend with
  | error e =>
    rw [hr] at hit
    simp only [] at hit
    rw [hit]
    rfl
  | ok v =>
    obtain ⟨d, s'⟩ := v
    rw [hr] at hit
    obtain ⟨X', hX, hXs⟩ := hit
    rw [hX]
    exact ⟨X', rfl, hXs⟩

/-- **INTT with a caller buffer** -/
theorem INTT_gen_buf (fuel : Nat) (hf : 64 ≤ fuel) (hp : Heap) (self : NTT_Goldilocks) (o : Model.Ntt.Obj)
    (hrep : ObjRep hp self o) (D Sx B : Nat) (hD : D < hp.size) (hB : B < hp.size) (hD0 : D ≠ 0) (hB0 : B ≠ 0)
    (hDB : D ≠ B) (hSB : Sx ≠ B) (hfrD : ObjFrame self D) (hfrB : ObjFrame self B)
    (dst : Ptr) (hdst : (if (dst == Ptr.null) = true then (⟨Sx, 0⟩ : Ptr) else dst) = ⟨D, 0⟩)
    (K N NC : Nat) (nphase nblock : BitVec 64) (extend : Bool)
    (hK1 : 1 ≤ K) (hK : K ≤ 30) (hN : N = 2 ^ K) (hKs : K ≤ o.s) (hos : o.s ≤ 32) (hNC1 : 1 ≤ NC)
    (hNNC8 : N * NC * 8 < 2 ^ 64) (hext31 : o.extension < 2 ^ 31) (hcache : extend = true → o.rcache ≠ none)
    (hnb : Model.Ntt.clampBlock nblock.toNat NC = 1) :
    match Model.Ntt.nttIters o (hp.block D) (hp.block Sx) (hp.block B) (decide (D = Sx)) N 0 NC NC nphase.toNat true extend with
    | .ok (d, _) => ∃ X', NTT_INTT fuel hp self dst ⟨Sx, 0⟩ (bv N) (bv NC) ⟨B, 0⟩ nphase nblock extend =
        some ((hp.setBlock D d).setBlock B X') ∧ X'.size = (hp.block B).size
    | .error _ => NTT_INTT fuel hp self dst ⟨Sx, 0⟩ (bv N) (bv NC) ⟨B, 0⟩ nphase nblock extend = none := by
  have hN2 : 2 ≤ N := by
    rw [hN]; calc 2 = 2 ^ 1 := rfl
      _ ≤ 2 ^ K := Nat.pow_le_pow_right (by omega) hK1
  have hN30 : N ≤ 2 ^ 30 := by rw [hN]; exact Nat.pow_le_pow_right (by omega) hK
  have hNCle : NC ≤ N * NC := Nat.le_mul_of_pos_left NC (by omega)
  have hc0 : (bv NC == 0#64) = false := by
    show (bv NC == bv 0) = false
    rw [beq_bv _ _ (by omega) (by omega)]; simp; omega
  have hs0 : (bv N == 0#64) = false := by
    show (bv N == bv 0) = false
    rw [beq_bv _ _ (by omega) (by omega)]; simp; omega
  have h := NTT_gen_buf fuel hf hp self o hrep D Sx B hD hB hD0 hB0 hDB hSB hfrD hfrB ⟨D, 0⟩
    (by
      have : ((⟨D, 0⟩ : Ptr) == Ptr.null) = false := by
        have h1 : ((⟨D, 0⟩ : Ptr) != ⟨0, 0⟩) = true := by rw [ptr_ne]; simp [hD0]
        show ((⟨D, 0⟩ : Ptr) == ⟨0, 0⟩) = false
        simpa [bne] using h1
      rw [this]; rfl)
    K N NC nphase nblock true extend hK1 hK hN hKs hos hNC1 hNNC8 hext31 hcache hnb
  unfold NTT_INTT
  rw [hc0, hs0]
  simp only [Bool.or_false, Bool.false_eq_true, if_false, bind_some_id]
  -- the destination selection, however it is written (if / else on a local, `?:` on `dst != NULL`, …)
  ptr_norm at hdst ⊢
  simp only [hdst]
  exact h

/-! ### field-level: the transform property for the caller-buffer call shape -/
section spec
open GoldilocksVerif.Model.Ntt GoldilocksVerif.NttSpec

/-- forward transform through `nttIters` with ANY scratch buffer of sufficient size -/
theorem nttIters_forward (o : Obj) (Dm : Nat) (hO : ObjOk o Dm) (dstB srcB auxB : Buf) (dstIsSrc : Bool) (d nc nphase : Nat)
    (hd : d ≤ Dm) (hdst : 2 ^ d * nc ≤ (if dstIsSrc then srcB else dstB).size) (haux : 2 ^ d * nc ≤ auxB.size) :
    ∃ out, nttIters o dstB srcB auxB dstIsSrc (2 ^ d) 0 nc nc nphase false false = .ok (out, if dstIsSrc then out else srcB) ∧
      out.size = (if dstIsSrc then srcB else dstB).size ∧
      ∀ k c, k < 2 ^ d → c < nc → cell out nc k c = dft (omega d) (2 ^ d) (fun j => cell srcB nc j c) k := by
  have hO' := hO.mono hd
  obtain ⟨out, e, s, c⟩ := nttIters_spec' o dstB srcB auxB dstIsSrc d 0 nc nc nphase false false hO'.dle hO'.roots hdst haux
    (by omega) (fun _ => ⟨rfl, rfl⟩)
  refine ⟨out, e, s, ?_⟩
  intro k c' hk hc
  rw [c k c' hk hc, outSpec_fwd _ _ _ _ _ hk]
  apply dft_congr
  intro j _
  rw [xin_cell, if_pos (Or.inl hO.ext), Nat.zero_add]

/-- inverse transform through `nttIters` with ANY scratch buffer of sufficient size -/
theorem nttIters_inverse (o : Obj) (Dm : Nat) (hO : ObjOk o Dm) (dstB srcB auxB : Buf) (dstIsSrc : Bool) (d nc nphase : Nat)
    (hd : d ≤ Dm) (hdst : 2 ^ d * nc ≤ (if dstIsSrc then srcB else dstB).size) (haux : 2 ^ d * nc ≤ auxB.size) :
    ∃ out, nttIters o dstB srcB auxB dstIsSrc (2 ^ d) 0 nc nc nphase true false = .ok (out, if dstIsSrc then out else srcB) ∧
      out.size = (if dstIsSrc then srcB else dstB).size ∧
      ∀ k c, k < 2 ^ d → c < nc → cell out nc k c = idft (omega d) (2 ^ d) (fun j => cell srcB nc j c) k := by
  have hO' := hO.mono hd
  obtain ⟨out, e, s, c⟩ := nttIters_spec' o dstB srcB auxB dstIsSrc d 0 nc nc nphase true false hO'.dle hO'.roots hdst haux
    (by omega) (fun _ => ⟨rfl, rfl⟩)
  refine ⟨out, e, s, ?_⟩
  intro k c' hk hc
  rw [c k c' hk hc]
  have hx : ∀ j, j < 2 ^ d → xin o srcB (2 ^ d) nc 0 c' j = cell srcB nc j c' := by
    intro j _; rw [xin_cell, if_pos (Or.inl hO.ext), Nat.zero_add]
  rw [outSpec_congr o d true false _ _ k hx]
  unfold outSpec
  by_cases hd0 : d = 0
  · subst hd0
    have : k = 0 := by simpa using hk
    subst this
    rw [if_pos rfl]
    unfold idft
    simp
  · rw [if_neg hd0]
    simp only [if_true]
    rw [mul_comm]
    apply idft_scaled
    have := hO'.pti d (Nat.le_refl _)
    unfold scaleFactor
    simp only [Bool.false_eq_true, if_false]
    push_cast
    exact this

end spec

end GoldilocksVerif.BridgeNtt
