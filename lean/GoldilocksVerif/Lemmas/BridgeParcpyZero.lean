/-
  Bridge theorem: the TRANSLATED `Goldilocks::parSetZero` (Gen/ParZeroGen.lean, heap mode; goldilocks_base_field.cpp) — the clamp
  of the `int` thread count, the chunk length `(size + nt - 1) / nt` on 64-bit words, the chunk loop
  `for (i = 0; i < size; i += chunk) memset(&dst[i], 0, min(chunk, size - i))` — is ONE `memset` of `size` words of the
  destination block: exactly `size` words are zeroed, for every size and every `int` thread count (zero and negative
  included), no other word and no other block changes.  This is the hand model `Model/ParCopy.parSetZero` in the heap view
  (`parSetZero_gen_region`).  Same structure as Lemmas/BridgeParcpy.lean; the lifted body is read semantically
  (`parSetZero_step`, the tactic of Lemmas/BridgeParcpyStep.lean), the function around the loop through `parSetZero_top`.

  FUEL: as for `parcpy`, `fuel > min(size, max(1, nt))` (`parFuel`).
-/
import GoldilocksVerif.Lemmas.BridgeParcpy
import GoldilocksVerif.Gen.ParZeroGen

set_option linter.unusedSimpArgs false

namespace GoldilocksVerif.BridgeNtt
open GoldilocksVerif Gen.ParZeroGen

/-- **one evaluation of the lifted body of the chunk loop of the generated `parSetZero`** -/
theorem parSetZero_step (dst : Ptr) (size ct : BitVec 64) (X : Heap) (i : BitVec 64)
    (hs8 : size.toNat * 8 < 2 ^ 64) (hct : ct.toNat ≤ size.toNat) :
    parSetZero_loop1 dst size ct (X, i) =
      if i < size then some (true, (X.zero (dst.add i.toNat) (min (size.toNat - i.toNat) ct.toNat), i + ct))
      else some (false, (X, i)) := by
  unfold parSetZero_loop1
  dsimp only
  by_cases hlt : i < size
  · chunk_len_simp size i ct hs8 hct hlt
  · chunk_exit_simp size i hlt

/-- **the generated `parSetZero` is the chunk loop** started at 0 with the chunk length `chunkBV` -/
theorem parSetZero_top (fuel : Nat) (hp : Heap) (dst : Ptr) (size : BitVec 64) (nt : Int) :
    parSetZero fuel hp dst size nt =
      (Loop.whileM (parSetZero_loop1 dst size (chunkBV size nt)) fuel (hp, 0#64)).bind (fun st => some st.1) := by
  unfold parSetZero chunkBV
  dsimp only
  chunk_top nt

theorem zeroRow_append (d : Block) (d0 a b : Nat) :
    Model.Ntt.zeroRow (Model.Ntt.zeroRow d d0 a) (d0 + a) b = Model.Ntt.zeroRow d d0 (a + b) := by
  induction b with
  | zero => rfl
  | succ b ih =>
    have e1 : ∀ (x : Block) (x0 m : Nat), Model.Ntt.zeroRow x x0 (m + 1) =
        (Model.Ntt.zeroRow x x0 m).setIfInBounds (x0 + m) 0#64 := by
      intro x x0 m; unfold Model.Ntt.zeroRow; rw [Model.Ntt.iter_succ]
    rw [e1, ih, ← Nat.add_assoc a b 1, e1, Nat.add_assoc d0 a b]

section loop
variable (hp : Heap) (D od n ct : Nat) (hD : D < hp.size) (hn8 : n * 8 < 2 ^ 64) (hct : ct ≤ n)

/-- the heap after the chunks that start below `i` -/
def parZHeap (hp : Heap) (D od n : Nat) (i : Nat) : Heap :=
  hp.setBlock D (Model.Ntt.zeroRow (hp.block D) od (min i n))

include hD hn8 hct in
theorem parSetZero_body (i : Nat) (hi : i < n) :
    parSetZero_loop1 ⟨D, od⟩ (bv n) (bv ct) (parZHeap hp D od n i, bv i) =
      some (true, (parZHeap hp D od n (i + ct), bv (i + ct))) := by
  have hlt : bv i < bv n := (lt_bv _ _ (by omega) (by omega)).mpr hi
  rw [parSetZero_step _ _ _ _ _ (by rw [bv_toNat n (by omega)]; exact hn8)
    (by rw [bv_toNat n (by omega), bv_toNat ct (by omega)]; exact hct), if_pos hlt,
    bv_toNat n (by omega), bv_toNat i (by omega), bv_toNat ct (by omega), bv_add, Heap.zero_eq]
  simp only [Ptr.add_blk, Ptr.add_off]
  unfold parZHeap
  rw [Heap.block_setBlock_same _ _ _ hD, Heap.setBlock_setBlock, zeroRow_eq, Nat.min_eq_left (Nat.le_of_lt hi)]
  rw [zeroRow_append]
  have : i + min (n - i) ct = min (i + ct) n := by omega
  rw [this]

include hn8 hct in
theorem parSetZero_exit (H : Heap) (i : Nat) (hi : n ≤ i) (hi64 : i < 2 ^ 64) (dst : Ptr) :
    parSetZero_loop1 dst (bv n) (bv ct) (H, bv i) = some (false, (H, bv i)) := by
  have hlt : ¬ (bv i < bv n) := by rw [lt_bv _ _ hi64 (by omega)]; omega
  rw [parSetZero_step _ _ _ _ _ (by rw [bv_toNat n (by omega)]; exact hn8)
    (by rw [bv_toNat n (by omega), bv_toNat ct (by omega)]; exact hct), if_neg hlt]

include hD hn8 hct in
/-- the chunk loop from the chunk that starts at `i` -/
theorem parSetZero_loop (hct1 : 1 ≤ n → 1 ≤ ct) : ∀ (f : Nat) (i : Nat), i ≤ n + ct → (n - i + ct - 1) / ct < f ∨ (n ≤ i ∧ 0 < f) →
    ∃ j, Loop.whileM (parSetZero_loop1 ⟨D, od⟩ (bv n) (bv ct)) f (parZHeap hp D od n i, bv i) =
      some (parZHeap hp D od n n, bv j) := by
  intro f
  induction f with
  | zero =>
    intro i _ h
    rcases h with h | h
    · exact absurd h (Nat.not_lt_zero _)
    · omega
  | succ f ih =>
    intro i hi hf
    by_cases hin : n ≤ i
    · refine ⟨i, ?_⟩
      rw [Loop.whileM_stop _ _ _ _ (parSetZero_exit n ct hn8 hct _ i hin (by omega) _)]
      unfold parZHeap
      rw [Nat.min_eq_right hin, Nat.min_self]
    · have hi' : i < n := by omega
      have hc1 := hct1 (by omega)
      rw [Loop.whileM_next _ _ _ _ (parSetZero_body hp D od n ct hD hn8 hct i hi')]
      apply ih (i + ct) (by omega)
      rcases hf with hf | hf
      · by_cases hle : i + ct ≤ n
        · left
          have e : n - i + ct - 1 = (n - (i + ct) + ct - 1) + ct := by omega
          rw [e, Nat.add_div_right _ (by omega)] at hf
          omega
        · right
          refine ⟨by omega, ?_⟩
          have : 1 ≤ (n - i + ct - 1) / ct := (Nat.le_div_iff_mul_le (by omega)).mpr (by omega)
          omega
      · omega

end loop

/-- **generated `parSetZero` = one `memset` of `size` words** (destination block `D` at offset `od`), for every size, every `int`
    thread count and every fuel above the number of chunks -/
theorem parSetZero_gen (fuel : Nat) (hp : Heap) (D od n : Nat) (nt : Int) (hD : D < hp.size)
    (hn8 : n * 8 < 2 ^ 64) (hnt : nt < 2 ^ 63) (hf : parFuel n nt ≤ fuel) :
    parSetZero fuel hp ⟨D, od⟩ (bv n) nt = some (hp.setBlock D (Model.Ntt.zeroRow (hp.block D) od n)) := by
  generalize ht : ParCopy.threads nt = t at hf
  have ht1 : 1 ≤ t := by rw [← ht]; exact ParCopy.threads_pos nt
  have ht63 : t < 2 ^ 63 := by
    rw [← ht]; unfold ParCopy.threads
    by_cases h : nt < 1
    · rw [if_pos h]; omega
    · rw [if_neg h]; omega
  have hchunk : (bv n + bv t - 1#64) / bv t = bv ((n + t - 1) / t) := by
    rw [bv_add, bv_one, bv_sub _ _ (by omega) (by omega), bv_div _ _ (by omega) (by omega)]
  generalize hc : (n + t - 1) / t = ct at hchunk
  have hctn : ct ≤ n := by
    rw [← hc]
    rcases Nat.eq_zero_or_pos n with h0 | h1
    · subst h0
      have : (0 + t - 1) / t = 0 := Nat.div_eq_of_lt (by omega)
      rw [this]
    · apply Nat.le_of_lt_succ
      apply (Nat.div_lt_iff_lt_mul (by omega)).mpr
      have : n * 1 ≤ n * t := Nat.mul_le_mul_left _ ht1
      rw [Nat.succ_mul]; omega
  have hct1 : 1 ≤ n → 1 ≤ ct := by
    intro h; rw [← hc]; exact (chunks_le n t ht1 h).1
  have hfuel : (n - 0 + ct - 1) / ct < fuel ∨ (n ≤ 0 ∧ 0 < fuel) := by
    unfold parFuel at hf
    rcases Nat.eq_zero_or_pos n with h0 | h1
    · right; omega
    · left
      have := (chunks_le n t ht1 h1).2
      rw [hc] at this
      rw [Nat.sub_zero]
      omega
  obtain ⟨j, hw⟩ := parSetZero_loop hp D od n ct hD hn8 hctn hct1 fuel 0 (by omega) hfuel
  have h0 : parZHeap hp D od n 0 = hp := by
    unfold parZHeap
    rw [Nat.zero_min]
    exact Heap.setBlock_block hp D
  rw [h0] at hw
  rw [parSetZero_top]
  unfold chunkBV
  rw [ht, hchunk]
  have hz : (0#64 : BitVec 64) = bv 0 := rfl
  rw [hz, hw]
  unfold parZHeap
  rw [Nat.min_self]
  rfl

/-- the same in the view of the hand model `Model/ParCopy.lean` (region = what the pointer designates): when the destination
    range lies inside the destination block, the destination region afterwards is `ParCopy.parSetZero` of the region -/
theorem parSetZero_gen_region (hp : Heap) (D od n : Nat) (nt : Int) (hfit : od + n ≤ (hp.block D).size) (j : Nat) :
    (Model.Ntt.zeroRow (hp.block D) od n).getD (od + j) 0#64 =
      (ParCopy.parSetZero ⟨fun j => (hp.block D).getD (od + j) 0#64⟩ n nt) j := by
  have hseq : ∀ (dst : Region), (ParCopy.parSetZero dst n nt) j = if j < n then 0#64 else dst j := by
    intro dst
    unfold ParCopy.parSetZero
    rw [ParCopy.parSetZeroIn_apply]
    have := ParCopy.covered_iff n nt j
    by_cases h : j < n
    · rw [if_pos (this.mpr h), if_pos h]
    · rw [if_neg (fun hh => h (this.mp hh)), if_neg h]
  rw [hseq, Model.Ntt.zeroRow_getD]
  by_cases h : j < n
  · rw [if_pos h, if_pos ⟨by omega, by omega, by omega⟩]
  · rw [if_neg h, if_neg (by omega)]

end GoldilocksVerif.BridgeNtt
