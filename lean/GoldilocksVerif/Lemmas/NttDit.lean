/-
  Code-independent mathematics of the radix-2 decimation-in-time FFT over `F = ZMod P`:
  the partial transforms `S` (what the buffer holds after `t` butterfly stages, in terms of the bit-reversed
  input), the butterfly recursion `S_succ`, the index reflection of the fused inverse pass (`dft_reflect`),
  the zero-extended coset transform (`dft_zero_ext`) and the scaled inverse transform (`idft_scaled`).
-/
import GoldilocksVerif.Lemmas.NttSpec
import GoldilocksVerif.Lemmas.NttBitrev

namespace GoldilocksVerif.NttSpec
open Finset
open GoldilocksVerif.Model.Ntt (bitrev inttIdx)

/-! ### helpers -/

/-- split a sum over `range (2n)` into even and odd indices -/
theorem sum_range_two_mul {M : Type} [AddCommMonoid M] (f : Nat → M) (n : Nat) :
    ∑ i ∈ range (2 * n), f i = ∑ i ∈ range n, (f (2 * i) + f (2 * i + 1)) := by
  induction n with
  | zero => simp
  | succ n ih =>
    have e : 2 * (n + 1) = 2 * n + 1 + 1 := by omega
    rw [e, sum_range_succ, sum_range_succ, ih, sum_range_succ, add_assoc]

section twiddle
variable {K : Type} [Field K]

theorem tw_even (w : K) (i h : Nat) : w ^ (2 * i * h) = (w ^ 2) ^ (i * h) := by
  rw [← pow_mul]; congr 1; ring

theorem tw_odd (w : K) (i h : Nat) : w ^ ((2 * i + 1) * h) = w ^ h * (w ^ 2) ^ (i * h) := by
  rw [← pow_mul, ← pow_add]; congr 1; ring

theorem tw_even' (w : K) (m i h : Nat) (hw : w ^ m = -1) :
    w ^ (2 * i * (m + h)) = (w ^ 2) ^ (i * h) := by
  have e : 2 * i * (m + h) = m * (2 * i) + 2 * i * h := by ring
  rw [e, pow_add, pow_mul, hw, pow_mul, neg_one_sq, one_pow, one_mul, tw_even]

theorem tw_odd' (w : K) (m i h : Nat) (hw : w ^ m = -1) :
    w ^ ((2 * i + 1) * (m + h)) = -(w ^ h * (w ^ 2) ^ (i * h)) := by
  have e : (2 * i + 1) * (m + h) = m * (2 * i) + m + (2 * i + 1) * h := by ring
  rw [e, pow_add, pow_add, pow_mul, hw, pow_mul, neg_one_sq, one_pow, one_mul, tw_odd]
  ring

end twiddle

/-! ### partial transforms -/

/-- partial transform: the size-2^t DFT (output index `hi`) of the subsequence of `x` with offset
    `bitrev (d-t) lo` and stride 2^(d-t) -/
def S (d : Nat) (x : Nat → F) (t lo hi : Nat) : F :=
  ∑ i ∈ range (2 ^ t), x (bitrev (d - t) lo + i * 2 ^ (d - t)) * omega t ^ (i * hi)

theorem S_zero (d : Nat) (x : Nat → F) (lo : Nat) : S d x 0 lo 0 = x (bitrev d lo) := by
  simp [S]

theorem S_final (d : Nat) (x : Nat → F) (hi : Nat) : S d x d 0 hi = dft (omega d) (2 ^ d) x hi := by
  unfold S dft
  rw [Nat.sub_self]
  apply sum_congr rfl; intro i _
  rw [GoldilocksVerif.Model.Ntt.bitrev_zero, pow_zero, Nat.mul_one, Nat.zero_add]

/-- the index identities behind the even / odd split -/
theorem idx_even (e lo i : Nat) :
    bitrev e lo + 2 * i * 2 ^ e = bitrev (e + 1) (2 * lo) + i * 2 ^ (e + 1) := by
  rw [GoldilocksVerif.Model.Ntt.bitrev_even, pow_succ]; ring

theorem idx_odd (e lo i : Nat) :
    bitrev e lo + (2 * i + 1) * 2 ^ e = bitrev (e + 1) (2 * lo + 1) + i * 2 ^ (e + 1) := by
  rw [GoldilocksVerif.Model.Ntt.bitrev_odd, pow_succ]; ring

/-- the butterfly recursion -/
theorem S_succ (d : Nat) (x : Nat → F) (t lo h : Nat) (ht : t < d) (hd : d ≤ 32) :
    S d x (t + 1) lo h = S d x t (2 * lo) h + omega (t + 1) ^ h * S d x t (2 * lo + 1) h ∧
    S d x (t + 1) lo (2 ^ t + h) = S d x t (2 * lo) h - omega (t + 1) ^ h * S d x t (2 * lo + 1) h := by
  obtain ⟨e, rfl⟩ : ∃ e, d = t + 1 + e := ⟨d - (t + 1), by omega⟩
  have e1 : t + 1 + e - (t + 1) = e := by omega
  have e2 : t + 1 + e - t = e + 1 := by omega
  have hsq : omega (t + 1) ^ 2 = omega t := omega_sq t (by omega)
  have hhalf : omega (t + 1) ^ (2 ^ t) = -1 := omega_pow_half t (by omega)
  unfold S
  rw [e1, e2, pow_succ' 2 t, sum_range_two_mul, sum_range_two_mul]
  constructor
  · rw [mul_sum, ← sum_add_distrib]
    apply sum_congr rfl; intro i _
    rw [idx_even, idx_odd, tw_even, tw_odd, hsq]
    ring
  · rw [mul_sum, ← sum_sub_distrib]
    apply sum_congr rfl; intro i _
    rw [idx_even, idx_odd, tw_even' _ _ _ _ hhalf, tw_odd' _ _ _ _ hhalf, hsq]
    ring

/-! ### index reflection of the fused inverse pass -/

theorem inttIdx_lt (k n : Nat) (hn : 0 < n) : inttIdx k n < n := by
  unfold inttIdx
  split <;> omega

theorem inttIdx_inttIdx (k n : Nat) (hk : k < n) : inttIdx (inttIdx k n) n = k := by
  unfold inttIdx
  by_cases h : n - k = n
  · rw [if_pos h, if_pos (Nat.sub_zero n)]; omega
  · rw [if_neg h]
    have h2 : ¬ (n - (n - k) = n) := by omega
    rw [if_neg h2]; omega

theorem inttIdx_zero (n : Nat) : inttIdx 0 n = 0 := by
  unfold inttIdx
  rw [if_pos (Nat.sub_zero n)]

theorem inttIdx_pos (k n : Nat) (h0 : 0 < k) (hk : k < n) : inttIdx k n = n - k := by
  unfold inttIdx
  rw [if_neg (by omega)]

/-- index reflection of the fused inverse pass -/
theorem dft_reflect (d : Nat) (hd : d ≤ 32) (x : Nat → F) (k : Nat) (hk : k < 2 ^ d) :
    dft (omega d) (2 ^ d) x (inttIdx k (2 ^ d)) = dft (omega d)⁻¹ (2 ^ d) x k := by
  have hn : omega d ^ (2 ^ d) = 1 := omega_pow_n d hd
  have hω : omega d ≠ 0 := (omega_prim d hd).ne_zero (Nat.pos_of_ne_zero (by positivity))
  generalize omega d = w at hn hω
  generalize 2 ^ d = n at hn hk
  unfold dft
  apply sum_congr rfl; intro j _
  congr 1
  rcases Nat.eq_zero_or_pos k with h0 | h0
  · subst h0
    rw [inttIdx_zero, Nat.mul_zero, pow_zero, pow_zero]
  · rw [inttIdx_pos k n h0 hk, inv_pow]
    have hne : w ^ (j * k) ≠ 0 := pow_ne_zero _ hω
    apply eq_inv_of_mul_eq_one_left
    rw [← pow_add]
    have : j * (n - k) + j * k = n * j := by
      rw [← Nat.mul_add, Nat.sub_add_cancel (Nat.le_of_lt hk), Nat.mul_comm]
    rw [this, pow_mul, hn, one_pow]

/-! ### zero extension and scaling -/

/-- the forward transform of the coset-scaled, zero-extended coefficient vector evaluates the polynomial
    on the coset -/
theorem dft_zero_ext (ωE g : F) (N nE : Nat) (hN : N ≤ nE) (c : Nat → F) (k : Nat) :
    dft ωE nE (fun j => if j < N then g ^ j * c j else 0) k = evalPoly N c (g * ωE ^ k) := by
  unfold dft evalPoly
  rw [← sum_subset (range_subset_range.mpr hN)]
  · apply sum_congr rfl; intro j hj
    beta_reduce
    rw [if_pos (mem_range.mp hj), mul_pow, ← pow_mul, Nat.mul_comm k j]
    ring
  · intro j _ hj
    rw [mem_range] at hj
    beta_reduce
    rw [if_neg hj, zero_mul]

/-- scaled inverse transform = idft: n⁻¹ · dft ω⁻¹ -/
theorem idft_scaled (ω : F) (n : Nat) (x : Nat → F) (k : Nat) (s : F) (hs : s * (n : F) = 1) :
    s * dft ω⁻¹ n x k = idft ω n x k := by
  rw [idft_eq_dft_inv, eq_inv_of_mul_eq_one_left hs]

end GoldilocksVerif.NttSpec
