/-
  L2, part 4: the loop over the passes (`List.foldl pass` over the schedule) and `NTT_iters` as a whole:
  bit-reversal permutation, passes, ping-pong parity, final copy.
-/
import GoldilocksVerif.Lemmas.NttPass
import GoldilocksVerif.Lemmas.NttRevPerm
import GoldilocksVerif.Lemmas.NttSched

namespace GoldilocksVerif.Model.Ntt
open GoldilocksVerif.NttSpec

/-- which of the two buffers has which size: `flag` = "`a` designates dst_" -/
def SzInv (flag : Bool) (a a2 : Buf) (ds as : Nat) : Prop :=
  if flag then a.size = ds ∧ a2.size = as else a.size = as ∧ a2.size = ds

/-- the output of the fused last pass of an inverse transform -/
def InvOut (o : Obj) (S : Nat → Nat → Nat → Nat → F) (d nc : Nat) (extend : Bool) (a : Buf) : Prop :=
  ∀ k' k, k' < 2 ^ d → k < nc → cell a nc k' k = S d 0 (inttIdx k' (2 ^ d)) k * den (scaleFactor o extend d k')

theorem foldl_spec (o : Obj) (S : Nat → Nat → Nat → Nat → F) (d nc ds as : Nat) (inverse extend : Bool)
    (hR : RootsOk o d) (hS : SRec d S) (hds : 2 ^ d * nc ≤ ds) (has : 2 ^ d * nc ≤ as) :
    ∀ (ps : List (Nat × Nat)) (t : Nat) (a a2 : Buf) (flag : Bool),
      SchedOk d (t + 1) ps → SzInv flag a a2 ds as → Lay S d t nc a →
      ∃ a' a2', ps.foldl (pass o (2 ^ d) d nc inverse extend) (a, a2, flag)
          = (a', a2', (flag != decide (ps.length % 2 = 1))) ∧
        SzInv (flag != decide (ps.length % 2 = 1)) a' a2' ds as ∧
        (if inverse = true ∧ ps ≠ [] then InvOut o S d nc extend a' else Lay S d d nc a') := by
  intro ps
  induction ps with
  | nil =>
    intro t a a2 flag hs hz hl
    have ht : t = d := by simp only [SchedOk] at hs; omega
    subst ht
    refine ⟨a, a2, ?_, ?_, ?_⟩
    · simp
    · simpa using hz
    · rw [if_neg (by simp)]; exact hl
  | cons p rest ih =>
    intro t a a2 flag hs hz hl
    obtain ⟨s, c⟩ := p
    simp only [SchedOk] at hs
    obtain ⟨hs1, hc1, hsc, hrest⟩ := hs
    subst hs1
    have hsz : 2 ^ d * nc ≤ a.size ∧ 2 ^ d * nc ≤ a2.size := by
      unfold SzInv at hz
      cases flag <;> simp at hz <;> omega
    have hflip : ∀ (a' a2' : Buf), a2'.size = a2.size → a'.size = a.size → SzInv (!flag) a2' a' ds as := by
      intro a' a2' h1 h2
      unfold SzInv at hz ⊢
      cases flag <;> simp at hz ⊢ <;> omega
    have hpar : ((!flag) != decide (rest.length % 2 = 1)) = (flag != decide ((rest.length + 1) % 2 = 1)) := by
      rcases Nat.mod_two_eq_zero_or_one rest.length with h | h
      · have h2 : (rest.length + 1) % 2 = 1 := by omega
        rw [h, h2]; cases flag <;> rfl
      · have h2 : (rest.length + 1) % 2 = 0 := by omega
        rw [h, h2]; cases flag <;> rfl
    rw [List.foldl_cons, List.length_cons]
    cases hrest' : rest with
    | nil =>
      rw [hrest'] at hrest
      have htc : t + c = d := by simp only [SchedOk] at hrest; omega
      by_cases hinv : inverse = true
      · subst hinv
        obtain ⟨a', a2', e, z1, z2, hout⟩ := pass_inv o S d t c nc a a2 flag extend hR hS htc hsz.1 hsz.2 hl
        refine ⟨a2', a', ?_, ?_, ?_⟩
        · rw [e]; simp
        · have := hflip a' a2' z1 z2
          simpa using this
        · rw [if_pos ⟨rfl, by simp⟩]; exact hout
      · have hinv' : inverse = false := by cases inverse <;> simp at hinv ⊢
        obtain ⟨a', a2', e, z1, z2, hout⟩ := pass_fwd o S d t c nc a a2 flag inverse extend hR hS (by omega)
          (Or.inr hinv') hsz.1 hsz.2 hl
        refine ⟨a2', a', ?_, ?_, ?_⟩
        · rw [e]; simp
        · have := hflip a' a2' z1 z2
          simpa using this
        · rw [if_neg (fun h => hinv h.1)]
          rw [htc] at hout; exact hout
    | cons p2 rest2 =>
      rw [hrest'] at hrest
      obtain ⟨s2, c2⟩ := p2
      have hlt : t + c < d := by simp only [SchedOk] at hrest; omega
      obtain ⟨a', a2', e, z1, z2, hout⟩ := pass_fwd o S d t c nc a a2 flag inverse extend hR hS (by omega)
        (Or.inl hlt) hsz.1 hsz.2 hl
      rw [e]
      have hrest2 : SchedOk d (t + c + 1) rest := by
        rw [hrest']
        have : t + 1 + c = t + c + 1 := by omega
        rw [← this]; exact hrest
      obtain ⟨b', b2', e', y1, y2⟩ := ih (t + c) a2' a' (!flag) hrest2 (hflip a' a2' z1 z2) hout
      rw [hrest'] at e' y1 y2 hpar
      refine ⟨b', b2', ?_, ?_, ?_⟩
      · rw [e', hpar]
      · rw [← hpar]; exact y1
      · have hne : (rest2 ≠ [] ∨ True) := Or.inr trivial
        by_cases hinv : inverse = true
        · rw [if_pos ⟨hinv, by simp⟩] at y2
          rw [if_pos ⟨hinv, by simp⟩]; exact y2
        · rw [if_neg (fun h => hinv h.1)] at y2
          rw [if_neg (fun h => hinv h.1)]; exact y2

/-- the (zero-extended) input column `oc + k` of the source, as field elements -/
def xin (o : Obj) (srcB : Buf) (size nca oc : Nat) (k j : Nat) : F :=
  if o.extension ≤ 1 ∨ j < size / o.extension then den (srcB.getD (j * nca + oc + k) 0#64) else 0

/-- the partial transforms of the input columns -/
def Sfam (d : Nat) (x : Nat → Nat → F) : Nat → Nat → Nat → Nat → F := fun t lo hi k => NttSpec.S d (x k) t lo hi

theorem Sfam_rec (d : Nat) (hd : d ≤ 32) (x : Nat → Nat → F) : SRec d (Sfam d x) := by
  intro t lo h k ht
  exact S_succ d (x k) t lo h ht hd

/-- the part of `NTT_iters` after the bit-reversal permutation -/
def itersTail (o : Obj) (srcB : Buf) (dstIsSrc : Bool) (d nc np : Nat) (inverse extend : Bool) (st0 : Buf × Buf × Bool) :
    Except String (Buf × Buf) :=
  if (!(List.foldl (pass o (2 ^ d) d nc inverse extend) st0 (schedule d np)).2.2) = true then
    if 2 ^ d > 1 then Except.error "assert(0) // should never need this copy"
    else
      if dstIsSrc = true then
        Except.ok
          (copyRow (List.foldl (pass o (2 ^ d) d nc inverse extend) st0 (schedule d np)).2.1
              0 (List.foldl (pass o (2 ^ d) d nc inverse extend) st0 (schedule d np)).1 0 (2 ^ d * nc),
            copyRow (List.foldl (pass o (2 ^ d) d nc inverse extend) st0 (schedule d np)).2.1
              0 (List.foldl (pass o (2 ^ d) d nc inverse extend) st0 (schedule d np)).1 0 (2 ^ d * nc))
      else
        Except.ok
          (copyRow (List.foldl (pass o (2 ^ d) d nc inverse extend) st0 (schedule d np)).2.1
              0 (List.foldl (pass o (2 ^ d) d nc inverse extend) st0 (schedule d np)).1 0 (2 ^ d * nc),
            srcB)
  else
    if dstIsSrc = true then
      Except.ok
        ((List.foldl (pass o (2 ^ d) d nc inverse extend) st0 (schedule d np)).1,
          (List.foldl (pass o (2 ^ d) d nc inverse extend) st0 (schedule d np)).1)
    else
      Except.ok ((List.foldl (pass o (2 ^ d) d nc inverse extend) st0 (schedule d np)).1, srcB)

theorem itersTail_spec (o : Obj) (srcB t0 a20 : Buf) (flag0 dstIsSrc : Bool) (d nc np ds as : Nat) (inverse extend : Bool)
    (x : Nat → Nat → F) (hd : d ≤ 32) (hR : RootsOk o d)
    (hnp1 : 1 ≤ np) (hnp2 : 1 ≤ d → np ≤ d) (hnp3 : d = 0 → np = 1)
    (hds : 2 ^ d * nc ≤ ds) (has : 2 ^ d * nc ≤ as)
    (hflag0 : flag0 = !decide (np % 2 = 1)) (hsz0 : SzInv flag0 t0 a20 ds as) (hlay0 : Lay (Sfam d x) d 0 nc t0) :
    ∃ out, itersTail o srcB dstIsSrc d nc np inverse extend (t0, a20, flag0) = .ok (out, if dstIsSrc then out else srcB) ∧
      out.size = ds ∧
      (d = 0 → ∀ k, k < nc → cell out nc 0 k = x k 0) ∧
      (1 ≤ d → inverse = false → ∀ k' k, k' < 2 ^ d → k < nc → cell out nc k' k = dft (omega d) (2 ^ d) (x k) k') ∧
      (1 ≤ d → inverse = true → ∀ k' k, k' < 2 ^ d → k < nc →
        cell out nc k' k = dft (omega d)⁻¹ (2 ^ d) (x k) k' * den (scaleFactor o extend d k')) := by
  rcases Nat.eq_zero_or_pos d with hd0 | hd1
  · -- size 1: no pass, the result is copied from aux
    subst hd0
    have hnp := hnp3 rfl
    subst hnp
    have hf : flag0 = false := by rw [hflag0]; rfl
    subst hf
    unfold itersTail
    rw [schedule_zero]
    simp only [List.foldl_nil, Bool.not_false, if_true]
    have h1 : ¬ (2 ^ 0 > 1) := by simp
    rw [if_neg h1]
    unfold SzInv at hsz0
    simp only [Bool.false_eq_true, if_false] at hsz0
    have hcell : ∀ k, k < nc → cell (copyRow a20 0 t0 0 (2 ^ 0 * nc)) nc 0 k = x k 0 := by
      intro k hk
      unfold cell
      rw [copyRow_getD, if_pos (by simp at hds ⊢; omega)]
      have h0 := hlay0 0 0 k (by simp) (by simp) hk
      unfold cell Sfam at h0
      rw [S_zero] at h0
      simp only [Nat.zero_mul, Nat.zero_add, Nat.sub_zero, Nat.add_zero] at h0 ⊢
      rw [h0]; rfl
    cases dstIsSrc
    · simp only [Bool.false_eq_true, if_false]
      refine ⟨_, rfl, by rw [copyRow_size]; exact hsz0.2, fun _ => hcell, fun h => absurd h (by omega), fun h => absurd h (by omega)⟩
    · simp only [if_true]
      refine ⟨_, rfl, by rw [copyRow_size]; exact hsz0.2, fun _ => hcell, fun h => absurd h (by omega), fun h => absurd h (by omega)⟩
  · obtain ⟨hsched, hlen⟩ := schedule_ok d np hnp1 (hnp2 hd1)
    obtain ⟨a', a2', e, z, hout⟩ := foldl_spec o (Sfam d x) d nc ds as inverse extend hR (Sfam_rec d hd x) hds has
      (schedule d np) 0 t0 a20 flag0 hsched hsz0 hlay0
    have hfl : (flag0 != decide ((schedule d np).length % 2 = 1)) = true := by
      rw [hlen, hflag0]; cases decide (np % 2 = 1) <;> rfl
    rw [hfl] at e z
    unfold itersTail
    rw [e]
    simp only [Bool.not_true, Bool.false_eq_true, if_false]
    unfold SzInv at z
    simp only [if_true] at z
    have hne : schedule d np ≠ [] := by
      intro h; rw [h] at hlen; simp at hlen; omega
    have hres : (d = 0 → ∀ k, k < nc → cell a' nc 0 k = x k 0) ∧
      (1 ≤ d → inverse = false → ∀ k' k, k' < 2 ^ d → k < nc → cell a' nc k' k = dft (omega d) (2 ^ d) (x k) k') ∧
      (1 ≤ d → inverse = true → ∀ k' k, k' < 2 ^ d → k < nc →
        cell a' nc k' k = dft (omega d)⁻¹ (2 ^ d) (x k) k' * den (scaleFactor o extend d k')) := by
      refine ⟨fun h => absurd h (by omega), ?_, ?_⟩
      · intro _ hinv k' k hk' hk
        rw [if_neg (fun h => by rw [hinv] at h; exact Bool.false_ne_true h.1)] at hout
        have := hout k' 0 k hk' (by simp) hk
        rw [Nat.sub_self, Nat.pow_zero, Nat.mul_one, Nat.add_zero] at this
        rw [this]
        unfold Sfam
        exact S_final d (x k) k'
      · intro _ hinv k' k hk' hk
        rw [if_pos ⟨hinv, hne⟩] at hout
        rw [hout k' k hk' hk]
        unfold Sfam
        rw [S_final, dft_reflect d hd (x k) k' hk']
    cases dstIsSrc
    · simp only [Bool.false_eq_true, if_false]
      exact ⟨a', rfl, z.1, hres⟩
    · simp only [if_true]
      exact ⟨a', rfl, z.1, hres⟩

theorem nttIters_spec (o : Obj) (dstB srcB auxB : Buf) (dstIsSrc : Bool) (d oc nc nca nphase : Nat) (inverse extend : Bool)
    (hd : d ≤ 32) (hR : RootsOk o d)
    (hdst : 2 ^ d * nc ≤ (if dstIsSrc then srcB else dstB).size) (haux : 2 ^ d * nc ≤ auxB.size)
    (hoc : oc + nc ≤ nca) (hip : dstIsSrc = true → oc = 0 ∧ nc = nca) :
    ∃ out, nttIters o dstB srcB auxB dstIsSrc (2 ^ d) oc nc nca nphase inverse extend
        = .ok (out, if dstIsSrc then out else srcB) ∧
      out.size = (if dstIsSrc then srcB else dstB).size ∧
      (d = 0 → ∀ k, k < nc → cell out nc 0 k = xin o srcB (2 ^ d) nca oc k 0) ∧
      (1 ≤ d → inverse = false → ∀ k' k, k' < 2 ^ d → k < nc →
        cell out nc k' k = dft (omega d) (2 ^ d) (xin o srcB (2 ^ d) nca oc k) k') ∧
      (1 ≤ d → inverse = true → ∀ k' k, k' < 2 ^ d → k < nc →
        cell out nc k' k = dft (omega d)⁻¹ (2 ^ d) (xin o srcB (2 ^ d) nca oc k) k' * den (scaleFactor o extend d k')) := by
  have hlog : log2 (2 ^ d) = d := Nat.log2_two_pow
  generalize ha0 : (if dstIsSrc then srcB else dstB) = a0 at hdst
  obtain ⟨cp1, cp2, cp3⟩ := clampPhase_range nphase d
  have hlay : ∀ t : Buf, (∀ i k, i < 2 ^ d → k < nc → t.getD (i * nc + k) 0#64 =
      if o.extension ≤ 1 ∨ bitrev d i < 2 ^ d / o.extension then srcB.getD (bitrev d i * nca + oc + k) 0#64 else 0#64) →
      Lay (Sfam d (xin o srcB (2 ^ d) nca oc)) d 0 nc t := by
    intro t ht hi lo k hhi hlo hk
    have : hi = 0 := by simpa using hhi
    subst this
    rw [Nat.sub_zero] at hlo
    unfold Sfam
    rw [S_zero, Nat.zero_mul, Nat.zero_add]
    unfold cell xin
    rw [ht lo k hlo hk]
    by_cases hc : o.extension ≤ 1 ∨ bitrev d lo < 2 ^ d / o.extension
    · rw [if_pos hc, if_pos hc]
    · rw [if_neg hc, if_neg hc, den_zero]
  have tail := fun t0 a20 flag0 => itersTail_spec o srcB t0 a20 flag0 dstIsSrc d nc (clampPhase nphase d) a0.size auxB.size
    inverse extend (xin o srcB (2 ^ d) nca oc) hd hR cp1 cp2 cp3 hdst haux
  unfold nttIters
  simp only [hlog]
  rw [if_neg (by simp), ha0]
  by_cases hodd : clampPhase nphase d % 2 = 1
  · have hdec : (decide (clampPhase nphase d % 2 = 1) : Bool) = true := by simp [hodd]
    rw [hdec, if_pos rfl]
    obtain ⟨res, e, rs, rv⟩ := reversePermutation_spec o auxB srcB false d (2 ^ d) oc nc nca hd rfl
      (by simpa using haux) hoc (by simp)
    rw [e]
    exact tail res a0 false (by rw [hdec]; rfl) (by unfold SzInv; simp; simpa using rs) (hlay res rv)
  · have hdec : (decide (clampPhase nphase d % 2 = 1) : Bool) = false := by simp [hodd]
    rw [hdec, if_neg (by simp)]
    have hbuf : 2 ^ d * nc ≤ (if dstIsSrc = true then srcB else a0).size := by
      cases dstIsSrc
      · simpa using hdst
      · simp at ha0; simp; rw [ha0]; exact hdst
    obtain ⟨res, e, rs, rv⟩ := reversePermutation_spec o a0 srcB dstIsSrc d (2 ^ d) oc nc nca hd rfl hbuf hoc hip
    rw [e]
    refine tail res auxB true (by rw [hdec]; rfl) ?_ (hlay res rv)
    unfold SzInv; simp
    rw [rs]
    cases dstIsSrc
    · simp
    · simp at ha0; simp; rw [ha0]

end GoldilocksVerif.Model.Ntt
