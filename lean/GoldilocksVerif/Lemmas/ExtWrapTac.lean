/-
  The uniform proof scripts for the generated per-overload theorems of Props/C16Gen*.lean.

    ext_arr f    output = Element array            goal  Scatter3 W pos val c (f ..)   /  ScatterExact ..
    ext_vreg f   output = Element_avx (registers)  goal  PlanarV4 val c_ (f ..)        /  PlanarV8 ..
    ext_regs f   output = three register refs      goal  Planar4 val (f ..).1 (f ..).2.1 (f ..).2.2  /  Planar8 ..
    *_chal       the same under the challenge-sum hypothesis `h`

  Each script: unfold the translated body; normalise the gather / scatter code (`ext_norm`: loads, stores, local staging
  arrays, aliased kernel calls) to nested `Region.set`s / register expressions over the input words; peel the sequential
  writes (`WrittenBy.snoc`); for every written word push `den` through the kernels (lane lemmas of C01/C02/C11) and
  close the resulting identity of K3 = F_p[x]/(x^3-x-1) coefficients with `ring`.
-/
import GoldilocksVerif.Lemmas.ExtWrapL
namespace GoldilocksVerif

macro "ext_norm" : tactic => `(tactic| try
  simp only [Gen.Avx2Mat.load_avx, Gen.Avx2Mat.store_avx, Gen.Avx512Mat.store_avx512, Gen.PosAvx512.load_avx512,
    Avx2.load, Avx2.store_eq, Avx512.load, Avx512.store_eq, writeSeq, V4.getN, V8.getN,
    Region.unshift_set, Region.unshift_shift, Region.shift_apply,
    Region.set_apply, Region.zero, Region.mk_apply, VRegion4.set_apply, VRegion8.set_apply,
    mult_al_eq, sub_al_eq, add_al_eq', mult512_al_eq, sub512_al_eq, add512_al_eq',
    BitVec.mul_lit_comm, BitVec.add_zero, Gen.Ext.copy__eE, Region.ofList_apply, List.getD_cons_zero, List.getD_cons_succ,
    ↓reduceIte, Nat.reduceEqDiff, Nat.reduceAdd, Nat.reduceMul])

macro "ext_val_only" : tactic => `(tactic|
  (simp only [Nat.reduceDiv, Nat.reduceMod, Nat.reduceMul, Nat.reduceAdd, K3.coef_zero, K3.coef_one, K3.coef_two,
    K3.add, K3.sub, K3.mul, K3.ofBase, ext3, base1, val1, regs4, regs8, vreg4, vreg8, reg4, reg8,
    posS_0, posS_1, posS_2, posA_0, posA_1, posA_2, posD, posC, V4.getN, V8.getN, ↓reduceIte, Nat.reduceEqDiff,
    BitVec.add_zero,
    den_add_r, den_sub_r, den_mul_r, den_neg_r', den_zero_r',
    den_v4add_l0, den_v4add_l1, den_v4add_l2, den_v4add_l3, den_v4sub_l0, den_v4sub_l1, den_v4sub_l2, den_v4sub_l3,
    den_v4mul_l0, den_v4mul_l1, den_v4mul_l2, den_v4mul_l3,
    den_v8add_l0, den_v8add_l1, den_v8add_l2, den_v8add_l3, den_v8add_l4, den_v8add_l5, den_v8add_l6, den_v8add_l7,
    den_v8sub_l0, den_v8sub_l1, den_v8sub_l2, den_v8sub_l3, den_v8sub_l4, den_v8sub_l5, den_v8sub_l6, den_v8sub_l7,
    den_v8mul_l0, den_v8mul_l1, den_v8mul_l2, den_v8mul_l3, den_v8mul_l4, den_v8mul_l5, den_v8mul_l6, den_v8mul_l7]))

macro "ext_val" : tactic => `(tactic| (ext_val_only; try ring))

macro "ext_arr " f:ident : tactic => `(tactic|
  (unfold Scatter3 $f
   ext_norm
   repeat (first | exact WrittenBy.nil _ | refine WrittenBy.snoc _ ?_ ?_)
   all_goals ext_val))


macro "ext_lanes" : tactic => `(tactic|
  (intro k hk
   interval_cases k <;> (apply K3.ext' <;> ext_val)))

macro "ext_regs " f:ident : tactic => `(tactic|
  (unfold $f
   simp only [Planar4, Planar8]
   ext_norm
   ext_lanes))

macro "ext_vreg " f:ident : tactic => `(tactic|
  (unfold $f
   simp only [PlanarV4, PlanarV8, Planar4, Planar8]
   ext_norm
   refine ⟨?_, ?_⟩
   · ext_lanes
   · intro j hj
     have h0 : j ≠ 0 := by omega
     have h1 : j ≠ 1 := by omega
     have h2 : j ≠ 2 := by omega
     simp only [h0, h1, h2, ↓reduceIte, if_false]))


macro "ext_exact" : tactic => `(tactic|
  (simp only [Nat.reduceDiv, Nat.reduceMod, Nat.reduceMul, Nat.reduceAdd, posD, word4, word8, V4.getN, V8.getN,
    ↓reduceIte, Nat.reduceEqDiff]))

/-- copies: the written words are the source words themselves -/
macro "ext_copy " f:ident : tactic => `(tactic|
  (unfold ScatterExact $f
   ext_norm
   repeat (first | exact WrittenBy.nil _ | refine WrittenBy.snoc _ ?_ ?_)
   all_goals (first | rfl | ext_exact)))

/-- `mul_batch(result, a, b, b_)`: `h : ChalSums (ext3 b posC 0) (den (b_ 0)) (den (b_ 1)) (den (b_ 2))` -/
macro "ext_arr_chal " f:ident h:ident : tactic => `(tactic|
  (unfold Scatter3 $f
   simp only [ChalSums, ext3, posC] at $h:ident
   obtain ⟨h0, h1, h2⟩ := $h
   ext_norm
   repeat (first | exact WrittenBy.nil _ | refine WrittenBy.snoc _ ?_ ?_)
   all_goals (ext_val_only; simp only [h0, h1, h2]; ring)))

/-- `mul_avx(c0_, c1_, c2_, a0_, a1_, a2_, b0_, b1_, b2_, aux0_, aux1_, aux2_)`:
    `h : ∀ k, k < 4 → ChalSums (regs4 b0_ b1_ b2_ k) (den (aux0_.getN k)) (den (aux1_.getN k)) (den (aux2_.getN k))` -/
macro "ext_regs_chal4 " f:ident h:ident : tactic => `(tactic|
  (unfold $f
   simp only [Planar4]
   have e0 := $h 0 (by decide)
   have e1 := $h 1 (by decide)
   have e2 := $h 2 (by decide)
   have e3 := $h 3 (by decide)
   simp only [ChalSums, regs4, V4.getN, ↓reduceIte, Nat.reduceEqDiff] at e0 e1 e2 e3
   ext_norm
   intro k hk
   interval_cases k <;> (apply K3.ext' <;>
     (ext_val_only; simp only [e0.1, e0.2.1, e0.2.2, e1.1, e1.2.1, e1.2.2, e2.1, e2.2.1, e2.2.2, e3.1, e3.2.1, e3.2.2]; ring))))

macro "ext_regs_chal8 " f:ident h:ident : tactic => `(tactic|
  (unfold $f
   simp only [Planar8]
   have e0 := $h 0 (by decide)
   have e1 := $h 1 (by decide)
   have e2 := $h 2 (by decide)
   have e3 := $h 3 (by decide)
   have e4 := $h 4 (by decide)
   have e5 := $h 5 (by decide)
   have e6 := $h 6 (by decide)
   have e7 := $h 7 (by decide)
   simp only [ChalSums, regs8, V8.getN, ↓reduceIte, Nat.reduceEqDiff] at e0 e1 e2 e3 e4 e5 e6 e7
   ext_norm
   intro k hk
   interval_cases k <;> (apply K3.ext' <;>
     (ext_val_only; simp only [e0.1, e0.2.1, e0.2.2, e1.1, e1.2.1, e1.2.2, e2.1, e2.2.1, e2.2.2, e3.1, e3.2.1, e3.2.2,
        e4.1, e4.2.1, e4.2.2, e5.1, e5.2.1, e5.2.2, e6.1, e6.2.1, e6.2.2, e7.1, e7.2.1, e7.2.2]; ring))))

end GoldilocksVerif
