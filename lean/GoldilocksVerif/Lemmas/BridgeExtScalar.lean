/-
  Bridge: the translated `Goldilocks3::mulScalar(result, a, std::string)` (Gen/ExtScalarGen.lean, regenerated on every
  run; it calls the translated `fromString` three times with the default radix 10) equals the hand model `g3mulScalar`.
-/
import GoldilocksVerif.Gen.ExtScalarGen
import GoldilocksVerif.Lemmas.BridgeConv
import GoldilocksVerif.Lemmas.BridgeExt

namespace GoldilocksVerif
open Gen.Scalar Gen.Ext Gen.ConvGen Gen.ExtScalarGen Model

theorem G3_mulScalar_gen_eq (fuel : Nat) (result a : Region) (b : String) :
    G3_mulScalar fuel result a b = (g3mulScalar (E3.ofRegion a) b).map (put3 result) := by
  unfold G3_mulScalar g3mulScalar
  rw [BridgeConv.fromString_r_gen_eq]
  have e : (10 : Int).toNat = 10 := rfl
  rw [e]
  cases h : Model.fromString b 10 with
  | none => rfl
  | some k => simp only [Option.bind_some, Option.map_some, put3, E3.ofRegion]

end GoldilocksVerif
