/-
  Pure region / list lemmas used by the bridge theorems of the sponge (Lemmas/BridgeSponge.lean): what the memset / memcpy
  sequence of one iteration of `linear_hash*` leaves in the state, as a list.  Nothing here depends on generated code, so
  these (slow: case analysis over the word index) proofs are compiled once and stay cached when /repo changes.
-/
import GoldilocksVerif.Model.Region
import GoldilocksVerif.Model.Sponge
import Mathlib.Tactic.SplitIfs

namespace GoldilocksVerif
open Model

namespace Region
theorem length_toList (r : Region) (n : Nat) : (toList r n).length = n := by simp [toList]
theorem getElem?_toList (r : Region) (n i : Nat) : (toList r n)[i]? = if i < n then some (r i) else none := by
  unfold toList
  by_cases h : i < n
  · rw [if_pos h, List.getElem?_eq_getElem (by simpa using h)]; simp
  · rw [if_neg h, List.getElem?_eq_none (by simpa using h)]
theorem toList_zero (n : Nat) : toList Region.zero n = zeros n := by
  apply List.ext_getElem?
  intro j
  simp only [getElem?_toList, zeros, List.getElem?_replicate]
  rfl
end Region

theorem unshift_copyN_apply (s src : Region) (k m j : Nat) :
    (Region.unshift s k (Region.copyN (Region.shift s k) src m)) j = if k ≤ j ∧ j < k + m then src (j - k) else s j := by
  simp only [Region.unshift_apply, Region.copyN_apply, Region.shift_apply]
  split_ifs <;> first | rfl | omega | (congr 1; omega)


/-! ### linear_hash_seq / linear_hash: 12-word state -/

/-- the three region updates of one iteration build `block ++ zero padding ++ capacity` -/
theorem block_list (state input : Region) (sizeN rem n : Nat) (hn : n = min rem 8) (hrem : rem ≤ sizeN) (c : Bool)
    (hc : c = true ↔ rem = sizeN) :
    Region.toList
      (Region.copyN
        (Region.unshift
          (if c then Region.unshift state 8 (Region.zeroN (Region.shift state 8) 4)
            else Region.unshift state 8 (Region.copyN (Region.shift state 8) state 4)) n
          (Region.zeroN (Region.shift
            (if c then Region.unshift state 8 (Region.zeroN (Region.shift state 8) 4)
              else Region.unshift state 8 (Region.copyN (Region.shift state 8) state 4)) n) (8 - n)))
        (Region.shift input (sizeN - rem)) n) 12 =
    (((Region.toList input sizeN).drop (sizeN - rem)).take n ++ zeros (8 - n)) ++
      (if rem = sizeN then zeros 4 else (Region.toList state 12).take 4) := by
  apply List.ext_getElem?
  intro j
  have hn8 : n ≤ 8 := by omega
  have hnr : n ≤ rem := by omega
  cases c with
  | true =>
    have hrs : rem = sizeN := hc.mp rfl
    simp only [if_true, hrs, Region.getElem?_toList, List.getElem?_append, List.getElem?_take, List.getElem?_drop,
      List.getElem?_replicate, List.length_append, List.length_take, List.length_drop, Region.length_toList,
      List.length_replicate, zeros, Region.copyN_apply, Region.unshift_apply, Region.zeroN_apply, Region.shift_apply]
    split_ifs <;> first | rfl | omega
  | false =>
    have hrs : rem ≠ sizeN := fun h => by have := hc.mpr h; cases this
    simp only [Bool.false_eq_true, if_false, hrs, Region.getElem?_toList, List.getElem?_append, List.getElem?_take,
      List.getElem?_drop, List.getElem?_replicate, List.length_append, List.length_take, List.length_drop,
      Region.length_toList, List.length_replicate, zeros, Region.copyN_apply, Region.unshift_apply, Region.zeroN_apply,
      Region.shift_apply]
    split_ifs <;> first | rfl | omega | (congr 2; omega)


/-! ### linear_hash_avx512: two interleaved states, 24 words -/

theorem cap512 (state : Region) (rem sizeN : Nat) (c : Bool) (hc : c = true ↔ rem = sizeN) :
    Region.toList (Region.shift
      (if c then Region.unshift state 16 (Region.zeroN (Region.shift state 16) 8)
        else Region.unshift state 16 (Region.copyN (Region.shift state 16) state 8)) 16) 8 =
    (if rem = sizeN then zeros 8 else (Region.toList state 24).take 8) := by
  apply List.ext_getElem?
  intro j
  cases c with
  | true =>
    have hrs : rem = sizeN := hc.mp rfl
    simp only [if_true, hrs, Region.getElem?_toList, List.getElem?_replicate, zeros, Region.copyN_apply,
      Region.unshift_apply, Region.zeroN_apply, Region.shift_apply]
    split_ifs <;> first | rfl | omega
  | false =>
    have hrs : rem ≠ sizeN := fun h => by have := hc.mpr h; cases this
    simp only [Bool.false_eq_true, if_false, hrs, Region.getElem?_toList, List.getElem?_take, Region.copyN_apply,
      Region.unshift_apply, Region.zeroN_apply, Region.shift_apply]
    split_ifs <;> first | rfl | omega | (congr 2; omega)


set_option maxHeartbeats 4000000 in
theorem block512_small (s1 input : Region) (sizeN rem n : Nat) (hn : n = min rem 8) (hrem : rem ≤ sizeN)
    (hn4 : n ≤ 4) :
    Region.toList
      (Region.unshift
        (Region.copyN (Region.zeroN s1 16) (Region.shift input (sizeN - rem)) n) 4
        (Region.copyN
          (Region.shift (Region.copyN (Region.zeroN s1 16) (Region.shift input (sizeN - rem)) n) 4)
          (Region.shift (Region.shift input sizeN) (sizeN - rem)) n)) 24 =
    (((((Region.toList input (2 * sizeN)).drop (sizeN - rem)).take n).take 4 ++ zeros (4 - min n 4)) ++
      ((((Region.toList input (2 * sizeN)).drop (sizeN + (sizeN - rem))).take n).take 4 ++ zeros (4 - min n 4))) ++
    ((((((Region.toList input (2 * sizeN)).drop (sizeN - rem)).take n).drop 4) ++ zeros (4 - (n - 4))) ++
      (((((Region.toList input (2 * sizeN)).drop (sizeN + (sizeN - rem))).take n).drop 4) ++ zeros (4 - (n - 4)))) ++
    Region.toList (Region.shift s1 16) 8 := by
  apply List.ext_getElem?
  intro j
  have hnr : n ≤ rem := by omega
  simp only [Region.getElem?_toList, List.getElem?_append, List.getElem?_take, List.getElem?_drop,
    List.getElem?_replicate, List.length_append, List.length_take, List.length_drop, Region.length_toList,
    List.length_replicate, zeros, unshift_copyN_apply, Region.copyN_apply, Region.zeroN_apply, Region.shift_apply]
  split_ifs <;> first | rfl | omega | (congr 2; omega)

set_option maxHeartbeats 4000000 in
theorem block512_big (s1 input : Region) (sizeN rem n : Nat) (hn : n = min rem 8) (hrem : rem ≤ sizeN)
    (hn4 : 4 < n) :
    Region.toList
      (Region.unshift
        (Region.unshift
          (Region.unshift
            (Region.copyN (Region.zeroN s1 16) (Region.shift input (sizeN - rem)) 4) 4
            (Region.copyN (Region.shift (Region.copyN (Region.zeroN s1 16) (Region.shift input (sizeN - rem)) 4) 4)
              (Region.shift (Region.shift input sizeN) (sizeN - rem)) 4)) 8
          (Region.copyN
            (Region.shift
              (Region.unshift
                (Region.copyN (Region.zeroN s1 16) (Region.shift input (sizeN - rem)) 4) 4
                (Region.copyN (Region.shift (Region.copyN (Region.zeroN s1 16) (Region.shift input (sizeN - rem)) 4) 4)
                  (Region.shift (Region.shift input sizeN) (sizeN - rem)) 4)) 8)
            (Region.shift (Region.shift input (sizeN - rem)) 4) (n - 4))) 12
        (Region.copyN
          (Region.shift
            (Region.unshift
              (Region.unshift
                (Region.copyN (Region.zeroN s1 16) (Region.shift input (sizeN - rem)) 4) 4
                (Region.copyN (Region.shift (Region.copyN (Region.zeroN s1 16) (Region.shift input (sizeN - rem)) 4) 4)
                  (Region.shift (Region.shift input sizeN) (sizeN - rem)) 4)) 8
              (Region.copyN
                (Region.shift
                  (Region.unshift
                    (Region.copyN (Region.zeroN s1 16) (Region.shift input (sizeN - rem)) 4) 4
                    (Region.copyN (Region.shift (Region.copyN (Region.zeroN s1 16) (Region.shift input (sizeN - rem)) 4) 4)
                      (Region.shift (Region.shift input sizeN) (sizeN - rem)) 4)) 8)
                (Region.shift (Region.shift input (sizeN - rem)) 4) (n - 4))) 12)
          (Region.shift (Region.shift (Region.shift input sizeN) (sizeN - rem)) 4) (n - 4))) 24 =
    (((((Region.toList input (2 * sizeN)).drop (sizeN - rem)).take n).take 4 ++ zeros (4 - min n 4)) ++
      ((((Region.toList input (2 * sizeN)).drop (sizeN + (sizeN - rem))).take n).take 4 ++ zeros (4 - min n 4))) ++
    ((((((Region.toList input (2 * sizeN)).drop (sizeN - rem)).take n).drop 4) ++ zeros (4 - (n - 4))) ++
      (((((Region.toList input (2 * sizeN)).drop (sizeN + (sizeN - rem))).take n).drop 4) ++ zeros (4 - (n - 4)))) ++
    Region.toList (Region.shift s1 16) 8 := by
  apply List.ext_getElem?
  intro j
  have hnr : n ≤ rem := by omega
  have hn8 : n ≤ 8 := by omega
  simp only [Region.getElem?_toList, List.getElem?_append, List.getElem?_take, List.getElem?_drop,
    List.getElem?_replicate, List.length_append, List.length_take, List.length_drop, Region.length_toList,
    List.length_replicate, zeros, unshift_copyN_apply, Region.copyN_apply, Region.zeroN_apply, Region.shift_apply]
  split_ifs <;> first | rfl | omega | (congr 2; omega)

end GoldilocksVerif
