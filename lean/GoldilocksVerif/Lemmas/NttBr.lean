/-
  The C function `BR` (five mask/shift swap lines on a 64-bit word, then a right shift) is the bit reversal `bitrev`
  of the low `d` bits, for `d ≤ 32`; `bitrev d` is an involution (hence injective) on `[0, 2^d)`.
  Route: bit characterisations (`Nat.testBit`) of both sides.
-/
import GoldilocksVerif.Lemmas.NttBitrev
import Mathlib.Tactic.IntervalCases

namespace GoldilocksVerif.Model.Ntt

/-! ### bits of `bitrev` -/

theorem testBit_bitrev (d : Nat) : ∀ i k, Nat.testBit (bitrev d i) k = (decide (k < d) && Nat.testBit i (d - 1 - k)) := by
  induction d with
  | zero => intro i k; simp [bitrev]
  | succ d ih =>
    intro i k
    rw [bitrev_succ, Nat.mul_comm, Nat.testBit_two_pow_mul_add _ (bitrev_lt d (i / 2))]
    by_cases h1 : k < d
    · rw [if_pos h1, ih, Nat.testBit_div_two]
      have e : d - 1 - k + 1 = d + 1 - 1 - k := by omega
      rw [e]
      simp [h1, Nat.lt_succ_of_lt h1]
    · rw [if_neg h1]
      by_cases h2 : k = d
      · subst h2
        have e : k + 1 - 1 - k = 0 := by omega
        rw [e, Nat.sub_self]
        simp [Nat.testBit_zero]
      · have h3 : ¬ k < d + 1 := by omega
        have h4 : k - d = (k - d - 1) + 1 := by omega
        rw [h4, Nat.testBit_succ]
        have h5 : i % 2 / 2 = 0 := by omega
        rw [h5]
        simp [h3]

theorem bitrev_bitrev (d i : Nat) (hi : i < 2 ^ d) : bitrev d (bitrev d i) = i := by
  apply Nat.eq_of_testBit_eq
  intro k
  rw [testBit_bitrev, testBit_bitrev]
  by_cases h : k < d
  · have h1 : d - 1 - k < d := by omega
    have h2 : d - 1 - (d - 1 - k) = k := by omega
    simp [h, h1, h2]
  · have : i < 2 ^ k := Nat.lt_of_lt_of_le hi (Nat.pow_le_pow_right (by omega) (by omega))
    rw [Nat.testBit_lt_two_pow this]
    simp [h]

theorem bitrev_inj (d i j : Nat) (hi : i < 2 ^ d) (hj : j < 2 ^ d) (h : bitrev d i = bitrev d j) : i = j := by
  rw [← bitrev_bitrev d i hi, ← bitrev_bitrev d j hj, h]

/-! ### the swap lines of `BR` -/

theorem br_line16 (x : W) (hx : ∀ j, 32 ≤ j → x.getLsbD j = false) (k : Nat) (hk : k < 32) :
    ((x >>> 16) ||| (x <<< 16)).getLsbD k = x.getLsbD (k ^^^ 16) := by
  have e : k ^^^ 16 = if k < 16 then 16 + k else k - 16 := by interval_cases k <;> rfl
  rw [BitVec.getLsbD_or, BitVec.getLsbD_ushiftRight, BitVec.getLsbD_shiftLeft, e]
  by_cases h : k < 16
  · simp [h]
  · rw [hx (16 + k) (by omega)]
    have : k < 64 := by omega
    simp [h, this]

theorem br_line8 (x : W) (k : Nat) (hk : k < 32) :
    (((x &&& 0xFF00FF00#64) >>> 8) ||| ((x &&& 0x00FF00FF#64) <<< 8)).getLsbD k = x.getLsbD (k ^^^ 8) := by
  interval_cases k <;> simp

theorem br_line4 (x : W) (k : Nat) (hk : k < 32) :
    (((x &&& 0xF0F0F0F0#64) >>> 4) ||| ((x &&& 0x0F0F0F0F#64) <<< 4)).getLsbD k = x.getLsbD (k ^^^ 4) := by
  interval_cases k <;> simp

theorem br_line2 (x : W) (k : Nat) (hk : k < 32) :
    (((x &&& 0xCCCCCCCC#64) >>> 2) ||| ((x &&& 0x33333333#64) <<< 2)).getLsbD k = x.getLsbD (k ^^^ 2) := by
  interval_cases k <;> simp

theorem br_line1 (x : W) (k : Nat) (hk : k < 32) :
    (((x &&& 0xAAAAAAAA#64) >>> 1) ||| ((x &&& 0x55555555#64) <<< 1)).getLsbD k = x.getLsbD (k ^^^ 1) := by
  interval_cases k <;> simp

theorem br_line1_hi (x : W) (k : Nat) (hk : 32 ≤ k) :
    (((x &&& 0xAAAAAAAA#64) >>> 1) ||| ((x &&& 0x55555555#64) <<< 1)).getLsbD k = false := by
  by_cases h : k < 64
  · interval_cases k <;> simp
  · exact BitVec.getLsbD_of_ge _ _ (by omega)

theorem xor_chain (k : Nat) (hk : k < 32) :
    k ^^^ 1 < 32 ∧ k ^^^ 1 ^^^ 2 < 32 ∧ k ^^^ 1 ^^^ 2 ^^^ 4 < 32 ∧ k ^^^ 1 ^^^ 2 ^^^ 4 ^^^ 8 < 32 ∧
      k ^^^ 1 ^^^ 2 ^^^ 4 ^^^ 8 ^^^ 16 = 31 - k := by
  interval_cases k <;> decide

/-- the five swap lines reverse the low 32 bits -/
theorem br_lines (x : W) (hx : ∀ j, 32 ≤ j → x.getLsbD j = false) (k : Nat) :
    (let x := (x >>> 16) ||| (x <<< 16)
     let x := ((x &&& 0xFF00FF00#64) >>> 8) ||| ((x &&& 0x00FF00FF#64) <<< 8)
     let x := ((x &&& 0xF0F0F0F0#64) >>> 4) ||| ((x &&& 0x0F0F0F0F#64) <<< 4)
     let x := ((x &&& 0xCCCCCCCC#64) >>> 2) ||| ((x &&& 0x33333333#64) <<< 2)
     ((x &&& 0xAAAAAAAA#64) >>> 1) ||| ((x &&& 0x55555555#64) <<< 1)).getLsbD k
      = (decide (k < 32) && x.getLsbD (31 - k)) := by
  extract_lets x1 x2 x3 x4
  by_cases hk : k < 32
  · obtain ⟨c1, c2, c3, c4, c5⟩ := xor_chain k hk
    rw [br_line1 x4 k hk, br_line2 x3 _ c1, br_line4 x2 _ c2, br_line8 x1 _ c3, br_line16 x hx _ c4, c5]
    simp [hk]
  · rw [br_line1_hi x4 k (by omega)]
    simp [hk]

theorem testBit_br (d i : Nat) (hd : d ≤ 32) (hi : i < 2 ^ d) (k : Nat) :
    Nat.testBit (br i d) k = (decide (k < d) && Nat.testBit i (d - 1 - k)) := by
  have hx : ∀ j, 32 ≤ j → (BitVec.ofNat 64 i).getLsbD j = false := by
    intro j hj
    rw [BitVec.getLsbD_ofNat]
    have : i < 2 ^ j := Nat.lt_of_lt_of_le hi (Nat.pow_le_pow_right (by omega) (by omega))
    rw [Nat.testBit_lt_two_pow this]
    simp
  unfold br
  rw [BitVec.testBit_toNat, BitVec.getLsbD_ushiftRight]
  have := br_lines (BitVec.ofNat 64 i) hx (32 - d + k)
  simp only [] at this ⊢
  rw [this, BitVec.getLsbD_ofNat]
  by_cases h : k < d
  · have h1 : 32 - d + k < 32 := by omega
    have h2 : 31 - (32 - d + k) = d - 1 - k := by omega
    have h3 : d - 1 - k < 64 := by omega
    simp [h, h1, h2, h3]
  · have h1 : ¬ 32 - d + k < 32 := by omega
    simp [h, h1]

theorem br_eq_bitrev (d i : Nat) (hd : d ≤ 32) (hi : i < 2 ^ d) : br i d = bitrev d i := by
  apply Nat.eq_of_testBit_eq
  intro k
  rw [testBit_br d i hd hi, testBit_bitrev]

end GoldilocksVerif.Model.Ntt
