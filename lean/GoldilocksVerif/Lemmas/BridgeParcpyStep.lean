/-
  What ONE evaluation of the lifted chunk-loop body of the translated `Goldilocks::parcpy` (Gen/NttGen.lean: `parcpy_loop1`) does,
  stated SEMANTICALLY: test `i < size`; if so `memcpy` of `min (size - i) components_thread` words at `&dst[i]`, `&src[i]`, and
  `i += components_thread` (`parcpy_step`); and what the function around the loop is: the loop started at 0 with the chunk length
  `chunkBV` computed from the hand model's clamped thread count (`parcpy_top`).  Every other lemma about the generated chunk loop
  (Lemmas/BridgeParcpy.lean, ParGenCopy.lean; for `parSetZero`: BridgeParcpyZero.lean, ParGenZero.lean) goes through these two, so
  none of them depends on how the C++ spells the chunk length or the clamp: `dim_` overwritten in an `if`, a ternary on the element
  count multiplied by `sizeof` at the call, either operand order of the comparisons or of the product, `<` / `>` / `<=` / `>=`,
  hoisted `size - i`, local names, `if (nt < 1) nt = 1` or a ternary.
  Method: the tests are decided OUTSIDE the generated text (`chunk_len_facts`, `clamp_cases`: one bundle of facts per truth value,
  every spelling of the comparison, the word counts `(w * 8).toNat / 8` in both operand orders) and the bundle is handed to
  `simp only` (`chunk_len_simp`, `chunk_top`), which leaves no `if`.
-/
import GoldilocksVerif.Lemmas.BridgeNttIters
import GoldilocksVerif.Lemmas.ParCopyL

set_option linter.unusedSimpArgs false

namespace GoldilocksVerif.BridgeNtt
open GoldilocksVerif Gen.NttGen

theorem words_toNat' (n : BitVec 64) (h : n.toNat * 8 < 2 ^ 64) : (8#64 * n).toNat / 8 = n.toNat := by
  rw [BitVec.mul_comm]; exact words_toNat n h

/-- the inner test of a chunk loop (`size - i` against `components_thread`) decided three ways (`<`, `=`, `>`: every comparison
    between the two, strict or not, in either order, is then decided by `simp`), with the word count of the chunk
    (`min (size - i) components_thread` words, the byte count as either product) -/
theorem chunk_len_facts (size i ct : BitVec 64) (hs8 : size.toNat * 8 < 2 ^ 64) (hct : ct.toNat ≤ size.toNat) (hlt : i < size) :
    (size - i).toNat = size.toNat - i.toNat ∧
      ((size - i < ct ∧ size - i ≤ ct ∧ ¬ (ct ≤ size - i) ∧ ¬ (ct < size - i) ∧ ¬ (size - i = ct) ∧ ¬ (ct = size - i) ∧
          ((size - i) * 8#64).toNat / 8 = min (size.toNat - i.toNat) ct.toNat ∧
          (8#64 * (size - i)).toNat / 8 = min (size.toNat - i.toNat) ct.toNat) ∨
       (size - i = ct ∧ ¬ (ct < ct) ∧ ct ≤ ct ∧ ¬ (ct < ct) ∧ ct ≤ ct ∧ ct ≤ ct ∧
          (ct * 8#64).toNat / 8 = min (size.toNat - i.toNat) ct.toNat ∧
          (8#64 * ct).toNat / 8 = min (size.toNat - i.toNat) ct.toNat) ∨
       (¬ (size - i < ct) ∧ ¬ (size - i ≤ ct) ∧ ct ≤ size - i ∧ ct < size - i ∧ ¬ (size - i = ct) ∧ ¬ (ct = size - i) ∧
          (ct * 8#64).toNat / 8 = min (size.toNat - i.toNat) ct.toNat ∧
          (8#64 * ct).toNat / 8 = min (size.toNat - i.toNat) ct.toNat)) := by
  have hi' : i.toNat < size.toNat := BitVec.lt_def.mp hlt
  have esub : (size - i).toNat = size.toNat - i.toNat := by rw [BitVec.toNat_sub]; omega
  refine ⟨esub, ?_⟩
  have w1 := words_toNat (size - i) (by rw [esub]; omega)
  have w1' := words_toNat' (size - i) (by rw [esub]; omega)
  have w2 := words_toNat ct (by omega)
  have w2' := words_toNat' ct (by omega)
  have hne : ∀ a b : BitVec 64, a.toNat ≠ b.toNat → ¬ (a = b) := fun a b h e => h (congrArg BitVec.toNat e)
  rcases Nat.lt_trichotomy (size - i).toNat ct.toNat with h | h | h
  · left
    refine ⟨BitVec.lt_def.mpr h, BitVec.le_def.mpr (by omega), fun c => ?_, fun c => ?_, hne _ _ (by omega), hne _ _ (by omega), ?_, ?_⟩
    · have := BitVec.le_def.mp c; omega
    · have := BitVec.lt_def.mp c; omega
    · rw [w1]; omega
    · rw [w1']; omega
  · right; left
    refine ⟨BitVec.eq_of_toNat_eq h, BitVec.lt_irrefl _, BitVec.le_refl _, BitVec.lt_irrefl _, BitVec.le_refl _, BitVec.le_refl _,
      ?_, ?_⟩
    · rw [w2]; omega
    · rw [w2']; omega
  · right; right
    refine ⟨fun c => ?_, fun c => ?_, BitVec.le_def.mpr (by omega), BitVec.lt_def.mpr h, hne _ _ (by omega), hne _ _ (by omega), ?_, ?_⟩
    · have := BitVec.lt_def.mp c; omega
    · have := BitVec.le_def.mp c; omega
    · rw [w2]; omega
    · rw [w2']; omega

/-- the `simp` set that removes decided tests -/
macro "decided_simp " "[" ts:Lean.Parser.Tactic.simpLemma,* "]" : tactic => `(tactic|
  simp only [$ts,*, gt_iff_lt, ge_iff_le, decide_true, decide_false, Bool.not_true, Bool.not_false, Bool.false_eq_true,
    if_true, if_false, ite_true, ite_false, reduceIte, eq_self, true_implies, false_implies, forall_const, not_true_eq_false,
    not_false_eq_true])

/-- on a goal that contains the unfolded body of a chunk loop (lets reduced), with `hlt : i < size`: decide both tests and read the
    word count; what is left speaks of `min (size - i) ct` words (goals that `simp` closes by reflexivity are closed) -/
macro "chunk_len_simp " size:term:max i:term:max ct:term:max hs8:term:max hct:term:max hlt:term:max : tactic => `(tactic|
  (have hle : ¬ ($size ≤ $i) := BitVec.not_le.mpr $hlt
   have hne1 : ¬ ($size = $i) := fun e => BitVec.lt_irrefl _ (e ▸ $hlt)
   have hne2 : ¬ ($i = $size) := fun e => BitVec.lt_irrefl _ (e ▸ $hlt)
   have hgt : ¬ ($size < $i) := fun c => BitVec.lt_irrefl _ (BitVec.lt_trans c $hlt)
   have hge : $i ≤ $size := BitVec.le_of_lt $hlt
   obtain ⟨esub, ⟨c1, c2, c3, c4, c5, c6, c7, c8⟩ | ⟨c1, c2, c3, c4, c5, c6, c7, c8⟩ | ⟨c1, c2, c3, c4, c5, c6, c7, c8⟩⟩ :=
     chunk_len_facts $size $i $ct $hs8 $hct $hlt <;>
   decided_simp [$hlt:term, hle, hne1, hne2, hgt, hge, c1, c2, c3, c4, c5, c6, c7, c8]))

/-- the outer test fails: `size ≤ i` in every spelling -/
macro "chunk_exit_simp " size:term:max i:term:max hlt:term:max : tactic => `(tactic|
  (have hle : $size ≤ $i := BitVec.not_lt.mp $hlt
   have hgt : ¬ ($size > $i) := $hlt
   decided_simp [$hlt:term, hle, hgt]))

/-- **one evaluation of the lifted body of the chunk loop of the generated `parcpy`** -/
theorem parcpy_step (dst src : Ptr) (size ct : BitVec 64) (X : Heap) (i : BitVec 64)
    (hs8 : size.toNat * 8 < 2 ^ 64) (hct : ct.toNat ≤ size.toNat) :
    parcpy_loop1 dst src size ct (X, i) =
      if i < size then
        some (true, (X.copy (dst.add i.toNat) (src.add i.toNat) (min (size.toNat - i.toNat) ct.toNat), i + ct))
      else some (false, (X, i)) := by
  unfold parcpy_loop1
  dsimp only
  by_cases hlt : i < size
  · chunk_len_simp size i ct hs8 hct hlt
  · chunk_exit_simp size i hlt

/-! ### the function around the loop: clamp of the `int` thread count, chunk length, start at 0 -/

/-- `components_thread` of `parcpy` / `parSetZero` on 64-bit words, from the hand model's clamped thread count -/
def chunkBV (size : BitVec 64) (nt : Int) : BitVec 64 := (size + bv (ParCopy.threads nt) - 1#64) / bv (ParCopy.threads nt)

/-- facts handed to `simp` to decide the clamp `if (num_threads_copy < 1) num_threads_copy = 1` in every spelling, and to read the
    clamped `int` as the hand model's `ParCopy.threads` -/
theorem clamp_cases (nt : Int) :
    (nt < 1 ∧ nt ≤ 0 ∧ ¬ (1 ≤ nt) ∧ ¬ (0 < nt) ∧ ParCopy.threads nt = 1) ∨
    (¬ (nt < 1) ∧ ¬ (nt ≤ 0) ∧ 1 ≤ nt ∧ 0 < nt ∧ I32.toU64 nt = bv (ParCopy.threads nt)) := by
  unfold ParCopy.threads
  by_cases h : nt < 1
  · left; rw [if_pos h]; omega
  · right
    rw [if_neg h]
    refine ⟨h, by omega, by omega, by omega, ?_⟩
    obtain ⟨m, hm⟩ : ∃ m : Nat, nt = (m : Int) := ⟨nt.toNat, by omega⟩
    subst hm
    rw [toU64_nat, Int.toNat_natCast]

/-- on a goal that contains the text around a chunk loop (after `unfold f; dsimp only`) and `chunkBV` unfolded: decide the clamp;
    both sides then speak of `bv (ParCopy.threads nt)` (`bv 1` when `nt < 1`) -/
macro "chunk_top " nt:term:max : tactic => `(tactic|
  (have e1 : I32.toU64 (1 : Int) = bv 1 := toU64_nat 1
   rcases clamp_cases $nt with ⟨h1, h2, h3, h4, h5⟩ | ⟨h1, h2, h3, h4, h5⟩ <;>
   decided_simp [h1, h2, h3, h4, h5, e1]))

/-- **the generated `parcpy` is the chunk loop** started at 0 with the chunk length `chunkBV` -/
theorem parcpy_top (fuel : Nat) (hp : Heap) (dst src : Ptr) (size : BitVec 64) (nt : Int) :
    parcpy fuel hp dst src size nt =
      (Loop.whileM (parcpy_loop1 dst src size (chunkBV size nt)) fuel (hp, 0#64)).bind (fun st => some st.1) := by
  unfold parcpy chunkBV
  dsimp only
  chunk_top nt

end GoldilocksVerif.BridgeNtt
