/-
  IN-BOUNDS ACCESSES, SIZE 1: `Goldilocks::parcpy` (the chunk loop: every `memcpy` of every state the `while` reaches lies
  inside the two blocks, which are distinct) and `NTT_iters` for `size == 1` (domainPow = 0: one phase, `reversePermutation`
  into `aux`, the pass loop is not entered, `parcpy(dst_, aux, ncols, nThreads)`).  Hence `NTT_iters` for every size
  1 ≤ 2^K ≤ 2^30 (`NTT_iters_safe_all`).
-/
import GoldilocksVerif.Lemmas.HeapSafeIters
import GoldilocksVerif.Lemmas.BridgeParcpy
import GoldilocksVerif.Lemmas.BridgeNttSize1
open GoldilocksVerif Gen.NttGen GoldilocksVerif.BridgeNtt
namespace GoldilocksVerif.HeapSafe

/-- **`parcpy(dst, src, n, nt)`**: two distinct blocks with n words from the pointers; any `int` thread count.
    The text of the function and of its lifted loop body is read through Lemmas/BridgeParcpyStep.lean (`chunk_top`, `parcpy_step`,
    `chunk_len_simp`): no dependence on how the source spells the clamp of the thread count or the chunk length. -/
theorem parcpy_safe (fuel : Nat) (hp : Heap) (dst src : Ptr) (n : Nat) (nt : Int) (hn8 : n * 8 < 2 ^ 64) (hnt : nt < 2 ^ 63)
    (hd : dst.off + n ≤ hp.ext dst.blk) (hsr : src.off + n ≤ hp.ext src.blk) (hne : dst.blk ≠ src.blk) :
    parcpy.Safe fuel hp dst src (bv n) nt := by
  have ht1 : 1 ≤ ParCopy.threads nt := ParCopy.threads_pos nt
  have ht63 : ParCopy.threads nt < 2 ^ 63 := by
    unfold ParCopy.threads
    by_cases h : nt < 1
    · rw [if_pos h]; omega
    · rw [if_neg h]; omega
  have hchunk : chunkBV (bv n) nt = bv ((n + ParCopy.threads nt - 1) / ParCopy.threads nt) := by
    unfold chunkBV
    rw [bv_add, bv_one, bv_sub _ _ (by omega) (by omega), bv_div _ _ (by omega) (by omega)]
  generalize hc : (n + ParCopy.threads nt - 1) / ParCopy.threads nt = ct at hchunk
  have hctn : ct ≤ n := by
    rw [← hc]
    rcases Nat.eq_zero_or_pos n with h0 | h1
    · subst h0
      have : (0 + ParCopy.threads nt - 1) / ParCopy.threads nt = 0 := Nat.div_eq_of_lt (by omega)
      rw [this]
    · apply Nat.le_of_lt_succ
      apply (Nat.div_lt_iff_lt_mul (by omega)).mpr
      have : n * 1 ≤ n * ParCopy.threads nt := Nat.mul_le_mul_left _ ht1
      rw [Nat.succ_mul]; omega
  have hn8' : (bv n).toNat * 8 < 2 ^ 64 := by rw [bv_toNat n (by omega)]; exact hn8
  have hct' : (bv ct).toNat ≤ (bv n).toNat := by rw [bv_toNat n (by omega), bv_toNat ct (by omega)]; exact hctn
  -- the loop, for the chunk length `bv ct`
  have hloop : Loop.WhileAll (parcpy_loop1 dst src (bv n) (bv ct)) (hp, 0#64)
      (fun st => parcpy_loop1.Safe dst src (bv n) (bv ct) st) := by
    refine Loop.WhileAll.of_inv (fun st => Heap.Same hp st.1 ∧ ∃ i, st.2 = bv i ∧ i ≤ n + ct)
      ⟨Heap.Same.refl _, 0, rfl, by omega⟩ ?_ ?_
    · rintro ⟨X, iv⟩ s' ⟨hsame, i, hi, hile⟩ hstep
      simp only at hi hsame
      subst hi
      rw [parcpy_step _ _ _ _ _ _ hn8' hct'] at hstep
      by_cases hlt : bv i < bv n
      · rw [if_pos hlt] at hstep
        injection hstep with hstep
        injection hstep with _ hstep
        rw [← hstep]
        have hin : i < n := by rwa [lt_bv _ _ (by omega) (by omega)] at hlt
        exact ⟨hsame.trans (Heap.Same.copy _ _ _ _), i + ct, bv_add _ _, by omega⟩
      · rw [if_neg hlt] at hstep
        injection hstep with hstep
        injection hstep with hb _
        exact absurd hb (by decide)
    · rintro ⟨X, iv⟩ ⟨hsame, i, hi, hile⟩
      simp only at hi hsame
      subst hi
      unfold parcpy_loop1.Safe
      zeta_goal
      by_cases hlt : bv i < bv n
      · have hin : i < n := by rwa [lt_bv _ _ (by omega) (by omega)] at hlt
        have hgoal : X.CopyOK (dst.add (bv i).toNat) (src.add (bv i).toNat) (min ((bv n).toNat - (bv i).toNat) (bv ct).toNat) := by
          rw [bv_toNat n (by omega), bv_toNat i (by omega), bv_toNat ct (by omega)]
          have hL : i + min (n - i) ct ≤ n := by omega
          exact ⟨RangeOK_add (by rw [hsame.2]; omega), RangeOK_add (by rw [hsame.2]; omega), Or.inr (Or.inl hne)⟩
        chunk_len_simp (bv n) (bv i) (bv ct) hn8' hct' hlt <;> exact hgoal
      · chunk_exit_simp (bv n) (bv i) hlt
  unfold parcpy.Safe
  zeta_goal
  -- the chunk length the function computes is `chunkBV`, whatever the spelling of the clamp
  have hloop' := hloop
  rw [← hchunk] at hloop'
  unfold chunkBV at hloop'
  revert hloop'
  chunk_top nt <;> exact fun h => h

/-! ### `NTT_iters` for size 1 -/

/-- a `while` loop whose first test fails: the only state it reaches is the initial one -/
theorem WhileAll_stop {σ : Type} (step : σ → Option (Bool × σ)) (init : σ) (S : σ → Prop)
    (hstop : step init = some (false, init)) (h : S init) : Loop.WhileAll step init S := by
  refine Loop.WhileAll.of_inv (fun st => st = init) rfl ?_ (fun s hs => hs ▸ h)
  intro s s' hs hstep
  rw [hs, hstop] at hstep
  injection hstep with hstep
  injection hstep with hb _
  exact absurd hb (by decide)

theorem whileM_stop_eq {σ : Type} (step : σ → Option (Bool × σ)) (init : σ) (hstop : step init = some (false, init))
    (fuel : Nat) (y : σ) (h : Loop.whileM step fuel init = some y) : y = init := by
  refine Loop.whileM_pres step (fun st => st = init) ?_ fuel init y rfl h
  intro s b s' hs hstep
  rw [hs, hstop] at hstep
  injection hstep with hstep
  injection hstep with _ he
  exact he.symm

/-- the pass loop with `domainPow = 0` stops at its first test (`s = 1 ≤ 0` fails) -/
theorem loop10_stop (size ncols : BitVec 64) (inverse extend : Bool) (self : NTT_Goldilocks) (res m : BitVec 64) (X : Heap)
    (t a2 a : Ptr) (c : BitVec 64) :
    NTT_NTT_iters_loop10 size ncols inverse extend self 0#64 res (m, X, t, a2, a, 1#64, c) =
      some (false, (m, X, t, a2, a, 1#64, c)) := by
  unfold NTT_NTT_iters_loop10
  dsimp only
  have : decide ((1#64 : BitVec 64) ≤ 0#64) = false := by decide
  rw [this]
  rfl

/-- **in-bounds accesses of `NTT_iters` for `size == 1`** -/
theorem NTT_iters_safe0 (fuel : Nat) (hf : 64 ≤ fuel) (hp : Heap) (self : NTT_Goldilocks) (dst src aux : Ptr) (NC : Nat)
    (oc nca nphase : BitVec 64) (inverse extend : Bool) (hs : 0 < hp.size)
    (sh : IShape hp self (if (dst != Ptr.null) = true then dst else src) aux 1 NC 0 extend)
    (hNC : 0 < NC) (hcols : oc.toNat + NC ≤ nca.toNat) (hbytes : 1 * nca.toNat * 8 < 2 ^ 64)
    (hsrc : src.off + srcRows self (bv 1) * nca.toNat ≤ hp.ext src.blk)
    (_hd1 : (if (dst != Ptr.null) = true then dst else src) ≠ src → (if (dst != Ptr.null) = true then dst else src).blk ≠ src.blk)
    (hd2 : aux.blk ≠ src.blk) :
    NTT_NTT_iters.Safe fuel hp self dst src (bv 1) oc (bv NC) nca nphase aux inverse extend := by
  have hNt : (bv 1).toNat = 1 := bv_toNat 1 (by omega)
  have hNne : bv 1 ≠ 0#64 := by decide
  have hlog := log2_gen_eq fuel (by unfold log2Fuel; omega) (bv 1) hNne
  rw [hNt] at hlog
  have hl0 : Model.Ntt.log2 1 = 0 := by decide
  rw [hl0] at hlog
  have hNCt : (bv NC).toNat = NC := bv_toNat _ (by have := sh.hbytes; omega)
  unfold NTT_NTT_iters.Safe
  zeta_goal
  intro y hy
  rw [hlog] at hy
  cases hy
  have hw : BitVec.setWidth 64 (0#32 : BitVec 32) = 0#64 := rfl
  have hc : (decide (nphase < 1#64) || (0#64 : BitVec 64) == 0#64) = true := by rw [beq_self_eq_true, Bool.or_true]
  have h1 : (0#64 : BitVec 64) % 1#64 = 0#64 := by decide
  have h2 : (0#64 : BitVec 64) / 1#64 = 0#64 := by decide
  have h3 : decide ((0#64 : BitVec 64) > 0#64) = false := by decide
  have h4 : ((1#64 : BitVec 64) % 2#64 == 1#64) = true := by decide
  have h5 : ((false == false) = true) = True := by simp
  simp only [hw, hc, h1, h2, h3, h4, h5, if_true, Bool.false_eq_true, if_false]
  intro _
  generalize hD : (if (dst != Ptr.null) = true then dst else src) = D at *
  obtain ⟨_, _, hb8, ha, ha2, hne, _, _, _, _, _⟩ := sh
  refine ⟨reversePermutation_safe fuel (by unfold log2Fuel; omega) hp self aux src (bv 1) oc (bv NC) nca 0 hs
    ⟨by omega, by rw [hNt]; rfl, by rw [hNCt]; exact hNC, by rw [hNCt]; exact hcols, by rw [hNt]; exact hbytes,
      by rw [hNt, hNCt]; exact ha2, hsrc, fun _ => hd2⟩, fun y hy => ⟨?_, fun y1 hy1 _ _ => ?_⟩⟩
  · refine WhileAll_stop _ _ _ (loop10_stop _ _ _ _ _ _ _ _ _ _ _ _) ?_
    unfold NTT_NTT_iters_loop10.Safe
    zeta_goal
    intro hle
    exact absurd hle (by decide)
  · have hsame := reversePermutation_same fuel hp self aux src (bv 1) oc (bv NC) nca hs y hy
    have e := whileM_stop_eq _ _ (loop10_stop _ _ _ _ _ _ _ _ _ _ _ _) fuel y1 hy1
    rw [e]
    show parcpy.Safe fuel y D aux (bv 1 * bv NC) (I32.ofU32 self.nThreads)
    rw [bv_mul]
    exact parcpy_safe fuel y D aux (1 * NC) _ hb8 (ofU32_lt _) (by rw [hsame.2]; exact ha) (by rw [hsame.2]; exact ha2) hne

/-- **in-bounds accesses of `NTT_iters`, every size 1 ≤ 2^K ≤ 2^30** -/
theorem NTT_iters_safe_all (fuel : Nat) (hf : 64 ≤ fuel) (hp : Heap) (self : NTT_Goldilocks) (dst src aux : Ptr) (N NC K : Nat)
    (oc nca nphase : BitVec 64) (inverse extend : Bool) (hs : 0 < hp.size)
    (sh : IShape hp self (if (dst != Ptr.null) = true then dst else src) aux N NC K extend)
    (hNC : 0 < NC) (hcols : oc.toNat + NC ≤ nca.toNat) (hbytes : N * nca.toNat * 8 < 2 ^ 64)
    (hsrc : src.off + srcRows self (bv N) * nca.toNat ≤ hp.ext src.blk)
    (hd1 : (if (dst != Ptr.null) = true then dst else src) ≠ src → (if (dst != Ptr.null) = true then dst else src).blk ≠ src.blk)
    (hd2 : aux.blk ≠ src.blk) :
    NTT_NTT_iters.Safe fuel hp self dst src (bv N) oc (bv NC) nca nphase aux inverse extend := by
  rcases Nat.eq_zero_or_pos K with hK0 | hK1
  · have hN1 : N = 1 := by rw [sh.hN, hK0]; rfl
    subst hK0
    subst hN1
    exact NTT_iters_safe0 fuel hf hp self dst src aux NC oc nca nphase inverse extend hs sh hNC hcols hbytes hsrc hd1 hd2
  · exact NTT_iters_safe fuel hf hp self dst src aux N NC K oc nca nphase inverse extend hK1 hs sh hNC hcols hbytes hsrc hd1 hd2

end GoldilocksVerif.HeapSafe
