/-
  Bridge theorem: the TRANSLATED `NTT_Goldilocks::reversePermutation` (Gen/NttGen.lean), all four branches (destination
  distinct / in place × extension ≤ 1 / > 1), changes the destination block exactly as the hand model's
  `reversePermutation` (Model/Ntt.lean) changes its buffer; the failed `assert` is the model's `.error`.
-/
import GoldilocksVerif.Lemmas.BridgeNttBasic
import GoldilocksVerif.Lemmas.BridgeNttTac
import GoldilocksVerif.Lemmas.NttBr

namespace GoldilocksVerif.BridgeNtt
open GoldilocksVerif Gen.NttGen

/-! ### 64-bit index arithmetic that does not wrap -/

theorem ofNat_toNat_lt (i : Nat) (h : i < 2 ^ 64) : (BitVec.ofNat 64 i).toNat = i := by
  rw [BitVec.toNat_ofNat, Nat.mod_eq_of_lt h]

theorem mul_toNat (a b : BitVec 64) (h : a.toNat * b.toNat < 2 ^ 64) : (a * b).toNat = a.toNat * b.toNat := by
  rw [BitVec.toNat_mul, Nat.mod_eq_of_lt h]

theorem add_toNat (a b : BitVec 64) (h : a.toNat + b.toNat < 2 ^ 64) : (a + b).toNat = a.toNat + b.toNat := by
  rw [BitVec.toNat_add, Nat.mod_eq_of_lt h]

/-- `n * sizeof(Element) / 8` words -/
theorem words_toNat (n : BitVec 64) (h : n.toNat * 8 < 2 ^ 64) : (n * 8#64).toNat / 8 = n.toNat := by
  rw [mul_toNat _ _ (by simpa using h)]
  have : (8#64 : BitVec 64).toNat = 8 := by decide
  rw [this]; omega

theorem mul_le_of_lt (i n c : Nat) (h : i < n) : i * c + c ≤ n * c := by
  have := Nat.mul_le_mul_right c (show i + 1 ≤ n by omega)
  rw [Nat.add_mul, Nat.one_mul] at this
  exact this

theorem copyRow_eq (d : Block) (d0 : Nat) (s : Block) (s0 n : Nat) :
    Block.copyRow d d0 s s0 n = Model.Ntt.copyRow d d0 s s0 n := rfl
theorem zeroRow_eq (d : Block) (d0 n : Nat) : Block.zeroRow d d0 n = Model.Ntt.zeroRow d d0 n := rfl

/-! ### the four loop bodies on the representation `H.setBlock d A` -/

section bodies
variable (H : Heap) (d s : Nat) (oc nc nca : BitVec 64) (ds : BitVec 32) (k size : Nat)
variable (hk : k ≤ 32) (hds : ds.toNat = k) (hsz : size = 2 ^ k)
variable (hb1 : size * nca.toNat + oc.toNat < 2 ^ 64) (hb2 : size * nc.toNat < 2 ^ 64) (hb3 : nc.toNat * 8 < 2 ^ 64)

include hk hds hsz in
theorem BR_i (i : Nat) (hi : i < size) :
    (BR (BitVec.ofNat 64 i) (BitVec.setWidth 64 ds)).toNat = Model.Ntt.br i k ∧ Model.Ntt.br i k < size := by
  have h64 : size < 2 ^ 64 := by
    rw [hsz]; exact Nat.pow_lt_pow_right (by omega) (by omega)
  have hdw : (BitVec.setWidth 64 ds).toNat = k := by
    rw [BitVec.toNat_setWidth, hds]; exact Nat.mod_eq_of_lt (by omega)
  constructor
  · rw [BR_gen _ _ (by rw [hdw]; exact hk), hdw, ofNat_toNat_lt i (by omega)]
  · rw [Model.Ntt.br_eq_bitrev k i hk (hsz ▸ hi), hsz]
    exact Model.Ntt.bitrev_lt k i

include hk hds hsz hb1 in
theorem src_off (i : Nat) (hi : i < size) :
    (BR (BitVec.ofNat 64 i) (BitVec.setWidth 64 ds) * nca + oc).toNat = Model.Ntt.br i k * nca.toNat + oc.toNat := by
  obtain ⟨e, hlt⟩ := BR_i ds k size hk hds hsz i hi
  have hm := mul_le_of_lt _ _ nca.toNat hlt
  rw [add_toNat, mul_toNat, e]
  · rw [e]; omega
  · rw [mul_toNat _ _ (by rw [e]; omega), e]; omega

include hsz hk hb2 in
theorem dst_off (i : Nat) (hi : i < size) : (BitVec.ofNat 64 i * nc).toNat = i * nc.toNat := by
  have h64 : size < 2 ^ 64 := by
    rw [hsz]; exact Nat.pow_lt_pow_right (by omega) (by omega)
  have hm := mul_le_of_lt _ _ nc.toNat hi
  rw [mul_toNat, ofNat_toNat_lt i (by omega)]
  rw [ofNat_toNat_lt i (by omega)]; omega

theorem lt_ofNat (a : BitVec 64) (i : Nat) (h : i < 2 ^ 64) : (a < BitVec.ofNat 64 i) ↔ a.toNat < i := by
  rw [BitVec.lt_def, ofNat_toNat_lt i h]

/- The two loop bodies of the branch `dst != src` are characterised where the loops are CALLED (`reversePermutation_gen`),
   after unfolding: no statement mentions their parameter lists (a hoisted byte count, a swapped sum change them).
   The by-name forms `rp_body1`, `rp_body2` (C12) are in Lemmas/BridgeNttRevPerm.lean. -/

theorem zeroRow_replicate (n : Nat) : Model.Ntt.zeroRow (Array.replicate n 0#64) 0 n = Array.replicate n 0#64 := by
  apply Model.Ntt.buf_ext
  · rw [Model.Ntt.zeroRow_size]
  · intro j _
    rw [Model.Ntt.zeroRow_getD, Model.Ntt.getD_replicate]
    by_cases h : 0 ≤ j ∧ j < 0 + n ∧ j < (Array.replicate n (0#64 : BitVec 64)).size
    · rw [if_pos h]
      have : j < n := by omega
      rw [if_pos this]
    · rw [if_neg h]

/-- body of the hand model's in-place loop, extension ≤ 1 -/
def ipHand1 (k nc : Nat) (i : Nat) (D : Block) : Block :=
  let r := Model.Ntt.br i k
  if r < i then
    let tmp := Model.Ntt.copyRow (Array.replicate nc 0#64) 0 D (r * nc) nc
    let D := Model.Ntt.copyRow D (r * nc) D (i * nc) nc
    Model.Ntt.copyRow D (i * nc) tmp 0 nc
  else D

/-- body of the hand model's in-place loop, extension > 1 -/
def ipHand2 (k nc nIn : Nat) (i : Nat) (D : Block) : Block :=
  let r := Model.Ntt.br i k
  if r < i then
    let tmp := if r < nIn then Model.Ntt.copyRow (Array.replicate nc 0#64) 0 D (r * nc) nc else Array.replicate nc 0#64
    let D := if i < nIn then Model.Ntt.copyRow D (r * nc) D (i * nc) nc else Model.Ntt.zeroRow D (r * nc) nc
    Model.Ntt.copyRow D (i * nc) tmp 0 nc
  else if r = i ∧ nIn ≤ i then Model.Ntt.zeroRow D (i * nc) nc
  else D

include hk hds hsz hb2 in
theorem ip_off (i : Nat) (hi : i < size) :
    (BR (BitVec.ofNat 64 i) (BitVec.setWidth 64 ds) * nc).toNat = Model.Ntt.br i k * nc.toNat := by
  obtain ⟨e, hlt⟩ := BR_i ds k size hk hds hsz i hi
  have hm := mul_le_of_lt _ _ nc.toNat hlt
  rw [mul_toNat _ _ (by rw [e]; omega), e]

/- The two loop bodies of the in-place branches are characterised where the loops are called as well; the by-name forms
   `rp_body3`, `rp_body4` (C12) are in Lemmas/BridgeNttRevPerm.lean. -/

end bodies

/-! ### the function -/

theorem ptr_ne (d s : Nat) : ((⟨d, 0⟩ : Ptr) != ⟨s, 0⟩) = !decide (d = s) := by
  by_cases h : d = s
  · subst h; simp
  · have : (⟨d, 0⟩ : Ptr) ≠ ⟨s, 0⟩ := fun e => h (by injection e)
    simp [h, this]

/-- **reversePermutation**: generated function on the heap = hand model on the destination block.
    `size = 2^k`, `k ≤ 32`; the index products fit in 64 bits. -/
theorem reversePermutation_gen (fuel : Nat) (hf : log2Fuel ≤ fuel) (hp : Heap) (self : NTT_Goldilocks) (o : Model.Ntt.Obj)
    (d s : Nat) (size oc nc nca : BitVec 64) (k : Nat) (hk : k ≤ 32) (hsize : size.toNat = 2 ^ k) (hd : d < hp.size)
    (hext : self.extension = (o.extension : Int)) (hext31 : o.extension < 2 ^ 31)
    (hb1 : size.toNat * nca.toNat + oc.toNat < 2 ^ 64) (hb2 : size.toNat * nc.toNat < 2 ^ 64) (hb3 : nc.toNat * 8 < 2 ^ 64) :
    NTT_reversePermutation fuel hp self ⟨d, 0⟩ ⟨s, 0⟩ size oc nc nca =
      match Model.Ntt.reversePermutation o (hp.block d) (hp.block s) (decide (d = s)) size.toNat oc.toNat nc.toNat nca.toNat with
      | .ok D => some (hp.setBlock d D)
      | .error _ => none := by
  have hne0 : size ≠ 0#64 := by
    intro e
    have h1 := congrArg BitVec.toNat e
    rw [hsize] at h1
    have h2 : 0 < 2 ^ k := Nat.pow_pos (by omega)
    have h3 : (0#64 : BitVec 64).toNat = 0 := rfl
    omega
  have hlogk : Model.Ntt.log2 size.toNat = k := by rw [hsize]; exact Nat.log2_two_pow
  have hlog := log2_gen_eq fuel hf size hne0
  rw [hlogk] at hlog
  have hds : (BitVec.ofNat 32 k).toNat = k := by
    rw [BitVec.toNat_ofNat]; exact Nat.mod_eq_of_lt (by omega)
  unfold NTT_reversePermutation Model.Ntt.reversePermutation
  simp only [hlog, Option.bind_some, hlogk, ptr_ne]
  have hextd : decide (self.extension ≤ 1) = decide (o.extension ≤ 1) := by
    rw [hext, decide_eq_decide]; omega
  have hextu : I32.toU64 self.extension = BitVec.ofNat 64 o.extension := by
    rw [hext]; simp only [I32.toU64, BitVec.ofInt_natCast]
  have hextn : (BitVec.ofNat 64 o.extension).toNat = o.extension := ofNat_toNat_lt _ (by omega)
  have hnin : (size / BitVec.ofNat 64 o.extension).toNat = size.toNat / o.extension := by
    rw [BitVec.toNat_udiv, hextn]
  have hassert : (oc == 0#64 && nc == nca) = decide (oc.toNat = 0 ∧ nc.toNat = nca.toNat) := by
    rw [Bool.eq_iff_iff]
    simp only [Bool.and_eq_true, beq_iff_eq, decide_eq_true_eq]
    constructor
    · rintro ⟨rfl, rfl⟩; exact ⟨rfl, rfl⟩
    · rintro ⟨h1, h2⟩
      exact ⟨BitVec.eq_of_toNat_eq (by rw [h1]; rfl), BitVec.eq_of_toNat_eq h2⟩
  rw [hextd, hextu, hassert]
  by_cases hdseq : d = s
  · -- in place
    subst hdseq
    simp only [decide_true, Bool.not_true, Bool.false_eq_true, if_false]
    by_cases ha : oc.toNat = 0 ∧ nc.toNat = nca.toNat
    · simp only [ha, and_self, decide_true, Bool.not_true, Bool.false_eq_true, if_false, if_true]
      by_cases he : o.extension ≤ 1
      · simp only [he, decide_true, if_true]
        rw [Heap.rangeM_block hp d hd (ipHand1 k nc.toNat) _ 0 size.toNat]
        · rw [ha.2]
          rfl
        · -- the body of the in-place loop (extension ≤ 1), as it is written
          intro i X _ hi hs _
          have hd : d < X.size := by omega
          have h64 : size.toNat < 2 ^ 64 := by
            rw [hsize]; exact Nat.pow_lt_pow_right (by omega) (by omega)
          obtain ⟨e, hlt⟩ := BR_i (BitVec.ofNat 32 k) k size.toNat hk hds hsize i hi
          unfold_loops
          unfold ipHand1
          simp only [Ptr.add, Nat.zero_add, lt_ofNat _ i (by omega), e,
            ip_off nc (BitVec.ofNat 32 k) k size.toNat hk hds hsize hb2 i hi, dst_off nc k size.toNat hk hsize hb2 i hi, words_toNat nc hb3,
            Heap.alloc_fst, Heap.alloc_snd]
          by_cases hc : Model.Ntt.br i k < i
          · simp only [hc, decide_true, if_true]
            rw [Heap.tmp_copy_in X _ X.size d rfl hd, Heap.tmp_copy_self X _ d hd,
              Heap.tmp_copy_out _ _ X.size d (by simp) (by simpa using hd),
              Heap.free_push' _ _ X.size (by simp) (by simp; omega)]
            rw [Heap.setBlock_setBlock, Heap.block_setBlock_same _ _ _ hd]
            rfl
          · simp only [hc, decide_false, if_false, Bool.false_eq_true]
            rw [Heap.setBlock_block]
      · simp only [he, decide_false, if_false, Bool.false_eq_true]
        rw [Heap.rangeM_block hp d hd (ipHand2 k nc.toNat (size.toNat / o.extension)) _ 0 size.toNat]
        · rw [ha.2]
          rfl
        · -- the body of the in-place loop (extension > 1), as it is written
          intro i X _ hi hs _
          have hd : d < X.size := by omega
          rw [← hnin]
          generalize size / BitVec.ofNat 64 o.extension = nIn
          have h64 : size.toNat < 2 ^ 64 := by
            rw [hsize]; exact Nat.pow_lt_pow_right (by omega) (by omega)
          obtain ⟨e, hlt⟩ := BR_i (BitVec.ofNat 32 k) k size.toNat hk hds hsize i hi
          have hiN : (BitVec.ofNat 64 i).toNat = i := ofNat_toNat_lt i (by omega)
          have heq : (BR (BitVec.ofNat 64 i) (BitVec.setWidth 64 (BitVec.ofNat 32 k)) == BitVec.ofNat 64 i) = decide (Model.Ntt.br i k = i) := by
            rw [Bool.eq_iff_iff]
            simp only [beq_iff_eq, decide_eq_true_eq]
            constructor
            · intro h; rw [← e, h, hiN]
            · intro h; apply BitVec.eq_of_toNat_eq; rw [e, hiN, h]
          unfold_loops
          unfold ipHand2
          simp only [Ptr.add, Nat.zero_add, lt_ofNat _ i (by omega), BitVec.lt_def, BitVec.le_def, ge_iff_le, e, hiN, heq,
            ip_off nc (BitVec.ofNat 32 k) k size.toNat hk hds hsize hb2 i hi, dst_off nc k size.toNat hk hsize hb2 i hi, words_toNat nc hb3,
            Heap.alloc_fst, Heap.alloc_snd]
          by_cases hc : Model.Ntt.br i k < i
          · simp only [hc, decide_true, if_true]
            -- the temporary row
            have hA : (if decide (Model.Ntt.br i k < nIn.toNat) = true
                  then (X.push (Array.replicate nc.toNat 0#64)).copy ⟨X.size, 0⟩ ⟨d, Model.Ntt.br i k * nc.toNat⟩ nc.toNat
                  else (X.push (Array.replicate nc.toNat 0#64)).zero ⟨X.size, 0⟩ nc.toNat) =
                X.push (if Model.Ntt.br i k < nIn.toNat
                  then Model.Ntt.copyRow (Array.replicate nc.toNat 0#64) 0 (X.block d) (Model.Ntt.br i k * nc.toNat) nc.toNat
                  else Array.replicate nc.toNat 0#64) := by
              by_cases h1 : Model.Ntt.br i k < nIn.toNat
              · simp only [h1, decide_true, if_true]
                rw [Heap.tmp_copy_in X _ X.size d rfl hd]; rfl
              · simp only [h1, decide_false, if_false, Bool.false_eq_true]
                rw [Heap.tmp_zero_in X _ X.size rfl, zeroRow_eq, zeroRow_replicate]
            rw [hA]
            generalize (if Model.Ntt.br i k < nIn.toNat
                  then Model.Ntt.copyRow (Array.replicate nc.toNat 0#64) 0 (X.block d) (Model.Ntt.br i k * nc.toNat) nc.toNat
                  else Array.replicate nc.toNat 0#64) = T
            have hB : (if decide (i < nIn.toNat) = true
                  then (X.push T).copy ⟨d, Model.Ntt.br i k * nc.toNat⟩ ⟨d, i * nc.toNat⟩ nc.toNat
                  else (X.push T).zero ⟨d, Model.Ntt.br i k * nc.toNat⟩ nc.toNat) =
                (X.setBlock d (if i < nIn.toNat
                  then Model.Ntt.copyRow (X.block d) (Model.Ntt.br i k * nc.toNat) (X.block d) (i * nc.toNat) nc.toNat
                  else Model.Ntt.zeroRow (X.block d) (Model.Ntt.br i k * nc.toNat) nc.toNat)).push T := by
              by_cases h1 : i < nIn.toNat
              · simp only [h1, decide_true, if_true]
                rw [Heap.tmp_copy_self X _ d hd]; rfl
              · simp only [h1, decide_false, if_false, Bool.false_eq_true]
                rw [Heap.tmp_zero_self X _ d hd]; rfl
            rw [hB]
            rw [Heap.tmp_copy_out _ _ X.size d (by simp) (by simpa using hd),
              Heap.free_push' _ _ X.size (by simp) (by simp; omega)]
            rw [Heap.setBlock_setBlock, Heap.block_setBlock_same _ _ _ hd]
            rfl
          · simp only [hc, decide_false, if_false, Bool.false_eq_true]
            by_cases h2 : Model.Ntt.br i k = i ∧ nIn.toNat ≤ i
            · have h2' : (decide (Model.Ntt.br i k = i) && decide (nIn.toNat ≤ i)) = true := by simp [h2.1, h2.2]
              simp only [h2', if_true, if_pos h2, Heap.zero_eq, zeroRow_eq]
            · have h2' : (decide (Model.Ntt.br i k = i) && decide (nIn.toNat ≤ i)) = false := by
                rw [Bool.and_eq_false_iff]
                by_cases h3 : Model.Ntt.br i k = i
                · right; simp; omega
                · left; simp [h3]
              simp only [h2', if_neg h2, Bool.false_eq_true, if_false]
              rw [Heap.setBlock_block]
    · simp only [ha, decide_false, Bool.not_false, if_true, Bool.false_eq_true, if_false]
      by_cases he : o.extension ≤ 1 <;> simp [he]
  · -- destination distinct from the source
    simp only [hdseq, decide_false, Bool.not_false, if_true]
    by_cases he : o.extension ≤ 1
    · simp only [he, decide_true, if_true]
      rw [Heap.rangeM_block hp d hd
        (fun i D => Model.Ntt.copyRow D (i * nc.toNat) (hp.block s) (Model.Ntt.br i k * nca.toNat + oc.toNat) nc.toNat)
        _ 0 size.toNat]
      · rfl
      · intro i X _ hi _ hfr
        obtain ⟨e, hlt⟩ := BR_i (BitVec.ofNat 32 k) k size.toNat hk hds hsize i hi
        have hm := mul_le_of_lt _ _ nca.toNat hlt
        have hm2 := mul_le_of_lt _ _ nc.toNat hi
        have hiN : (BitVec.ofNat 64 i).toNat = i := ofNat_toNat_lt i (by have := size.isLt; omega)
        unfold_loops
        simp only [Heap.copy_eq, Ptr.add_blk, Ptr.add_off, copyRow_eq, hfr s (fun e => hdseq e.symm)]
        congr 3 <;> bv_arith [e, hiN]
    · have hE : (size / BitVec.ofNat 64 o.extension * nca).toNat = size.toNat / o.extension * nca.toNat := by
        have hle : size.toNat / o.extension * nca.toNat ≤ size.toNat * nca.toNat :=
          Nat.mul_le_mul_right _ (Nat.div_le_self _ _)
        rw [mul_toNat _ _ (by rw [hnin]; omega), hnin]
      simp only [he, decide_false, if_false, Bool.false_eq_true]
      rw [Heap.rangeM_block hp d hd
        (fun i D => if Model.Ntt.br i k * nca.toNat + oc.toNat < size.toNat / o.extension * nca.toNat
          then Model.Ntt.copyRow D (i * nc.toNat) (hp.block s) (Model.Ntt.br i k * nca.toNat + oc.toNat) nc.toNat
          else Model.Ntt.zeroRow D (i * nc.toNat) nc.toNat)
        _ 0 size.toNat]
      · rfl
      · intro i X _ hi _ hfr
        obtain ⟨e, hlt⟩ := BR_i (BitVec.ofNat 32 k) k size.toNat hk hds hsize i hi
        have hm := mul_le_of_lt _ _ nca.toNat hlt
        have hm2 := mul_le_of_lt _ _ nc.toNat hi
        have hiN : (BitVec.ofNat 64 i).toNat = i := ofNat_toNat_lt i (by have := size.isLt; omega)
        unfold_loops
        simp only [Heap.copy_eq, Heap.zero_eq, Ptr.add_blk, Ptr.add_off, copyRow_eq, zeroRow_eq, hfr s (fun e => hdseq e.symm)]
        by_cases hc : Model.Ntt.br i k * nca.toNat + oc.toNat < size.toNat / o.extension * nca.toNat
        · rw [if_pos hc, if_pos (by bv_arith [e, hE])]
          congr 3 <;> bv_arith [e, hiN]
        · rw [if_neg hc, if_neg (by bv_arith [e, hE])]
          congr 3 <;> bv_arith [e, hiN]

end GoldilocksVerif.BridgeNtt
