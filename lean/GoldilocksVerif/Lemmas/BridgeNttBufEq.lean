/-
  Bridge theorems: the TRANSLATED `NTT` / `INTT` (Gen/NttGen.lean) called WITH A CALLER SCRATCH BUFFER (block `B`, any content, at
  least size·ncols words) EQUAL the hand model's `ntt` / `intt` (Model/Ntt.lean, which takes a zero-filled scratch buffer of its
  own) — bit for bit, for every `nblock` and every size 1 ≤ 2^K ≤ 2^30.  The destination block holds the model's result, the
  buffer block keeps its size, nothing else changes.
  Route: generated `NTT_iters` = the model's `nttIters` run with the buffer block's actual content as `aux`
  (Lemmas/BridgeNttItersTop.lean, BridgeNttSize1.lean); the result of `nttIters` does not depend on the content of `aux`
  (`Model.Ntt.nttIters_aux_irrelevant`, Lemmas/NttIndep.lean); column blocks: `blocks_loop` (Lemmas/BridgeNttBlocks.lean).
-/
import GoldilocksVerif.Lemmas.BridgeNttBlocks

namespace GoldilocksVerif.BridgeNtt
open GoldilocksVerif Gen.NttGen

theorem ptr_beq_null (B : Nat) (hB0 : B ≠ 0) : ((⟨B, 0⟩ : Ptr) == Ptr.null) = false := by
  have h1 : ((⟨B, 0⟩ : Ptr) != ⟨0, 0⟩) = true := by rw [ptr_ne]; simp [hB0]
  show ((⟨B, 0⟩ : Ptr) == ⟨0, 0⟩) = false
  simpa [bne] using h1

/-- **NTT with a caller buffer, one column block, every size** = the hand model's `ntt` -/
theorem NTT_gen_buf_one (fuel : Nat) (hp : Heap) (self : NTT_Goldilocks) (o : Model.Ntt.Obj)
    (hrep : ObjRep hp self o) (D Sx B : Nat) (hD : D < hp.size) (hB : B < hp.size) (hD0 : D ≠ 0) (hB0 : B ≠ 0)
    (hDB : D ≠ B) (hSB : Sx ≠ B) (hfrD : ObjFrame self D) (hfrB : ObjFrame self B)
    (mode : Model.Ntt.DstMode) (hmode : mode = .other ↔ D ≠ Sx)
    (dst : Ptr) (hdst : (if (dst == Ptr.null) = true then (⟨Sx, 0⟩ : Ptr) else dst) = ⟨D, 0⟩)
    (K N NC : Nat) (nphase nblock : BitVec 64) (inverse extend : Bool)
    (hK : K ≤ 30) (hN : N = 2 ^ K) (hKs : K ≤ o.s) (hos : o.s ≤ 32) (hNC1 : 1 ≤ NC)
    (hNNC8 : N * NC * 8 < 2 ^ 64) (hext31 : o.extension < 2 ^ 31) (hcache : extend = true → o.rcache ≠ none)
    (hnb : Model.Ntt.clampBlock nblock.toNat NC = 1) (hf : itersFuel self K NC ≤ fuel)
    (hdsz : N * NC ≤ (hp.block D).size) (hbuf : N * NC ≤ (hp.block B).size) :
    match Model.Ntt.ntt o mode (hp.block D) (hp.block Sx) N NC nphase.toNat nblock.toNat inverse extend with
    | .ok (d, _) => ∃ X', NTT_NTT fuel hp self dst ⟨Sx, 0⟩ (bv N) (bv NC) ⟨B, 0⟩ nphase nblock inverse extend =
        some ((hp.setBlock D d).setBlock B X') ∧ X'.size = (hp.block B).size
    | .error _ => NTT_NTT fuel hp self dst ⟨Sx, 0⟩ (bv N) (bv NC) ⟨B, 0⟩ nphase nblock inverse extend = none := by
  have hNpos : 0 < N := by rw [hN]; exact Nat.two_pow_pos K
  have hN30 : N ≤ 2 ^ 30 := by rw [hN]; exact Nat.pow_le_pow_right (by omega) hK
  have hNCle : NC ≤ N * NC := Nat.le_mul_of_pos_left NC hNpos
  have hNC64 : NC < 2 ^ 64 := by omega
  have hc0 : (bv NC == 0#64) = false := by
    show (bv NC == bv 0) = false
    rw [beq_bv _ _ hNC64 (by omega)]; simp; omega
  have hs0 : (bv N == 0#64) = false := by
    show (bv N == bv 0) = false
    rw [beq_bv _ _ (by omega) (by omega)]; simp; omega
  have hclamp := clampBlock_gen nblock NC hNC64 hNC1
  rw [hnb] at hclamp
  have hgt1 : decide ((bv 1 : BitVec 64) > 1#64) = false := by decide
  have hdiv : bv NC / bv 1 = bv NC := by rw [bv_div _ _ hNC64 (by omega), Nat.div_one]
  have hmod : bv NC % bv 1 = bv 0 := by rw [bv_mod _ _ hNC64 (by omega), Nat.mod_one]
  have hres : decide (bv 0 > 0#64) = false := by decide
  have hlt0 : decide (BitVec.ofNat 64 0 < bv 0) = false := by decide
  have hbufn := ptr_beq_null B hB0
  have hdisz : N * NC ≤ (if decide (D = Sx) = true then hp.block Sx else hp.block D).size := by
    by_cases h : D = Sx
    · subst h; simpa using hdsz
    · simpa [h] using hdsz
  -- the hand model: `nttIters` with a zero-filled scratch buffer = `nttIters` with the caller's buffer
  have hm : Model.Ntt.ntt o mode (hp.block D) (hp.block Sx) N NC nphase.toNat nblock.toNat inverse extend =
      Model.Ntt.nttIters o (hp.block D) (hp.block Sx) (hp.block B) (decide (D = Sx)) N 0 NC NC
        nphase.toNat inverse extend := by
    unfold Model.Ntt.ntt
    rw [if_neg (by omega), hnb]
    unfold Model.Ntt.nttBlocks
    have e1 : NC / 1 + (if NC % 1 > 0 then 1 else 0) = NC := by
      rw [Nat.div_one, Nat.mod_one]; rfl
    have e2 : decide (mode ≠ Model.Ntt.DstMode.other) = decide (D = Sx) := by
      rw [decide_eq_decide]
      constructor
      · intro h; by_contra h2; exact h (hmode.mpr h2)
      · intro h h2; exact (hmode.mp h2) h
    simp only [e1, e2, Nat.le_refl, if_true]
    subst hN
    exact Model.Ntt.nttIters_aux_irrelevant o _ _ _ _ _ K 0 NC NC _ inverse extend hdisz (by rw [Array.size_replicate]) hbuf
  rw [hm]
  have hit := nttIters_gen_all fuel hp self o hrep D Sx B hD hB hDB hSB hfrD hfrB ⟨D, 0⟩
    (by
      have : ((⟨D, 0⟩ : Ptr) != Ptr.null) = true := by
        show ((⟨D, 0⟩ : Ptr) != ⟨0, 0⟩) = true
        rw [ptr_ne]; simp [hD0]
      rw [if_pos this])
    K N 0 NC NC nphase inverse extend hK hN hKs hos (by omega) (by omega) (by omega) hext31 hcache hf
  unfold NTT_NTT
  rw [hc0, hs0]
  simp only [Bool.or_false, Bool.false_eq_true, if_false, hclamp, hgt1, hdiv, hmod, hres, hbufn, hdst]
  have h1n : (bv 1).toNat = 1 := rfl
  rw [h1n, rangeM_one]
  unfold NTT_NTT_loop2
  simp only [hlt0, Bool.false_eq_true, if_false, hgt1]
  have hz : (0#64 : BitVec 64) = bv 0 := rfl
  rw [hz]
  cases hr : Model.Ntt.nttIters o (hp.block D) (hp.block Sx) (hp.block B) (decide (D = Sx)) N 0 NC NC
      nphase.toNat inverse extend with
  | error e =>
    rw [hr] at hit
    simp only [] at hit
    rw [hit]
    rfl
  | ok v =>
    obtain ⟨d, s'⟩ := v
    rw [hr] at hit
    obtain ⟨X', hX, hXs⟩ := hit
    rw [hX]
    exact ⟨X', rfl, hXs⟩

/-- **NTT with a caller buffer, more than one column block** = the hand model's `ntt` -/
theorem NTT_gen_buf_blocks (fuel : Nat) (hp : Heap) (self : NTT_Goldilocks) (o : Model.Ntt.Obj)
    (hrep : ObjRep hp self o) (hin : ObjIn hp self) (D Sx B : Nat) (hD : D < hp.size) (hSx : Sx < hp.size) (hB : B < hp.size)
    (hB0 : B ≠ 0) (hDB : D ≠ B) (hSB : Sx ≠ B) (hfrD : ObjFrame self D) (hfrB : ObjFrame self B)
    (mode : Model.Ntt.DstMode) (hmode : mode = .other ↔ D ≠ Sx)
    (dst : Ptr) (hdst : (if (dst == Ptr.null) = true then (⟨Sx, 0⟩ : Ptr) else dst) = ⟨D, 0⟩)
    (K N NC : Nat) (nphase nblock : BitVec 64) (inverse extend : Bool)
    (hK : K ≤ 30) (hN : N = 2 ^ K) (hKs : K ≤ o.s) (hos : o.s ≤ 32) (hNC1 : 1 ≤ NC)
    (hNNC8 : N * NC * 8 < 2 ^ 64) (hext31 : o.extension < 2 ^ 31) (hcache : extend = true → o.rcache ≠ none)
    (hnb : 2 ≤ Model.Ntt.clampBlock nblock.toNat NC) (hf : itersFuel self K NC ≤ fuel)
    (hbuf : N * NC ≤ (hp.block B).size) :
    match Model.Ntt.ntt o mode (hp.block D) (hp.block Sx) N NC nphase.toNat nblock.toNat inverse extend with
    | .ok (d, _) => ∃ X', NTT_NTT fuel hp self dst ⟨Sx, 0⟩ (bv N) (bv NC) ⟨B, 0⟩ nphase nblock inverse extend =
        some ((hp.setBlock D d).setBlock B X') ∧ X'.size = (hp.block B).size
    | .error _ => NTT_NTT fuel hp self dst ⟨Sx, 0⟩ (bv N) (bv NC) ⟨B, 0⟩ nphase nblock inverse extend = none := by
  subst hN
  have hNpos : 0 < 2 ^ K := Nat.two_pow_pos K
  have hN30 : 2 ^ K ≤ 2 ^ 30 := Nat.pow_le_pow_right (by omega) hK
  have hNCle : NC ≤ 2 ^ K * NC := Nat.le_mul_of_pos_left NC hNpos
  have hNC64 : NC < 2 ^ 64 := by omega
  have hc0 : (bv NC == 0#64) = false := by
    show (bv NC == bv 0) = false
    rw [beq_bv _ _ hNC64 (by omega)]; simp; omega
  have hs0 : (bv (2 ^ K) == 0#64) = false := by
    show (bv (2 ^ K) == bv 0) = false
    rw [beq_bv _ _ (by omega) (by omega)]; simp
  have hclamp := clampBlock_gen nblock NC hNC64 hNC1
  obtain ⟨_, hnbNC⟩ := Model.Ntt.clampBlock_range nblock.toNat NC hNC1
  generalize hnbe : Model.Ntt.clampBlock nblock.toNat NC = nb at hclamp hnb hnbNC
  have hgt1 : decide (bv nb > 1#64) = true := by
    rw [decide_eq_true_eq]; show bv 1 < bv nb; rw [lt_bv _ _ (by omega) (by omega)]; omega
  have hdiv : bv NC / bv nb = bv (NC / nb) := bv_div _ _ hNC64 (by omega)
  have hmod : bv NC % bv nb = bv (NC % nb) := bv_mod _ _ hNC64 (by omega)
  generalize hq : NC / nb = q at hdiv
  generalize hres : NC % nb = res at hmod
  have hresnb : res < nb := by rw [← hres]; exact Nat.mod_lt _ (by omega)
  have hqNC : q ≤ NC := by rw [← hq]; exact Nat.div_le_self _ _
  have hq1 : 1 ≤ q := by rw [← hq]; exact Nat.div_pos hnbNC (by omega)
  have hresd : decide (bv res > 0#64) = decide (res > 0) := by
    rw [decide_eq_decide]; show bv 0 < bv res ↔ _; rw [lt_bv _ _ (by omega) (by omega)]
  have hallocg : (if decide (res > 0) = true then bv q + 1#64 else bv q) = bv (q + if res > 0 then 1 else 0) := by
    by_cases h : res > 0
    · simp only [h, decide_true, if_true]; rw [bv_one, bv_add]
    · simp only [h, decide_false, Bool.false_eq_true, if_false]; rfl
  generalize halloc : (q + if res > 0 then 1 else 0) = alloc at hallocg
  have hallocNC : alloc ≤ NC := by
    rw [← halloc]
    by_cases h : res > 0
    · rw [if_pos h]
      have h1 := Nat.div_add_mod NC nb
      rw [hq, hres] at h1
      have h2 : nb * q ≥ 2 * q := Nat.mul_le_mul_right q hnb
      omega
    · rw [if_neg h]; omega
  have hNa : 2 ^ K * alloc ≤ 2 ^ K * NC := Nat.mul_le_mul_left _ hallocNC
  have hcnt : (8#64 * bv (2 ^ K) * bv alloc).toNat / 8 = 2 ^ K * alloc := by
    have h8 : (8#64 : BitVec 64) = bv 8 := rfl
    have e8 : 8 * 2 ^ K * alloc = 2 ^ K * alloc * 8 := by rw [Nat.mul_assoc, Nat.mul_comm]
    rw [h8, bv_mul, bv_mul, e8, bv_toNat _ (by omega)]
    omega
  have hdis : decide (mode ≠ Model.Ntt.DstMode.other) = decide (D = Sx) := by
    rw [decide_eq_decide]
    constructor
    · intro h; by_contra h2; exact h (hmode.mpr h2)
    · intro h h2; exact (hmode.mp h2) h
  have hdst0 : (if decide (D = Sx) = true then hp.block Sx else hp.block D) = hp.block D := by
    by_cases h : D = Sx
    · subst h; simp
    · simp [h]
  have hm : Model.Ntt.ntt o mode (hp.block D) (hp.block Sx) (2 ^ K) NC nphase.toNat nblock.toNat inverse extend =
      match Model.Ntt.iter nb (Except.ok (hp.block D, hp.block Sx, 0))
          (Model.Ntt.nttBlock o (Array.replicate (2 ^ K * alloc) 0#64) (decide (D = Sx)) (2 ^ K) NC nphase.toNat q res alloc
            inverse extend) with
      | .error e => .error e
      | .ok (dst, src, _) => .ok (dst, src) := by
    unfold Model.Ntt.ntt
    rw [if_neg (by omega), hnbe]
    unfold Model.Ntt.nttBlocks
    simp only [hq, hres, halloc, hdis, hdst0]
    rw [if_neg (by omega)]
    cases Model.Ntt.iter nb (Except.ok (hp.block D, hp.block Sx, 0))
          (Model.Ntt.nttBlock o (Array.replicate (2 ^ K * alloc) 0#64) (decide (D = Sx)) (2 ^ K) NC nphase.toNat q res alloc
            inverse extend) <;> rfl
  rw [hm]
  -- the heap with the temporary destination
  let Z : Block := Array.replicate (2 ^ K * alloc) 0#64
  have hZs : Z.size = 2 ^ K * alloc := Array.size_replicate
  generalize hH : hp.push Z = H
  have hHs : H.size = hp.size + 1 := by rw [← hH]; simp
  have hHb : ∀ c, c < hp.size → H.block c = hp.block c := by
    intro c hc; rw [← hH, Heap.block_push_lt _ _ _ hc]
  have hHT : H.block hp.size = Z := by rw [← hH, Heap.block_push_last _ _ _ rfl]
  have hrepH : ObjRep H self o := by rw [← hH]; exact hrep.push hin _
  have hloop := blocks_loop fuel H self o hrepH D Sx B hp.size (by omega) (by omega) (by omega) (by omega) hDB
    (by omega) (by omega) hSB (by omega) hfrD hfrB (ObjIn.frame_ge' hin _ (by omega))
    K NC q res alloc nb nphase inverse extend hK hKs hos hNNC8 hext31 hcache hnb hnbNC hq.symm hres.symm halloc.symm hf
    (by rw [hHb B hB]; omega) (by rw [hHT, hZs]) nb (Nat.le_refl _)
  rw [hHb D hD, hHb Sx hSx, hHb B hB] at hloop
  have hbufn := ptr_beq_null B hB0
  have hnbt : (bv nb).toNat = nb := bv_toNat _ (by omega)
  unfold NTT_NTT
  rw [hc0, hs0]
  simp only [Bool.or_false, Bool.false_eq_true, if_false, hclamp, hgt1, hdiv, hmod, hresd, hallocg, hbufn, if_true, hdst, add_toU64_ite, toU64_int_zero, BitVec.add_zero, hcnt,
    Heap.alloc_fst, Heap.alloc_snd, hnbt]
  have hZ' : (Array.replicate (2 ^ K * alloc) (0#64 : BitVec 64)) = Z := rfl
  have hz0 : (0#64 : BitVec 64) = bv 0 := rfl
  rw [hZ', hH, hz0]
  rcases hloop with ⟨dstF, XA, XT, e1, e2, s1, s2⟩ | ⟨e, e1, e2⟩
  · rw [e1, e2]
    simp only [Option.bind_some]
    have hR : R3 H D B hp.size dstF XA XT = ((hp.setBlock D dstF).setBlock B XA).push XT := by
      unfold R3
      rw [← hH, Heap.setBlock_push_lt _ _ _ _ hD, Heap.setBlock_push_lt _ _ _ _ (by simp; exact hB),
        Heap.setBlock_push_last' _ _ _ _ (by simp)]
    rw [hR, Heap.free_push' _ _ _ (by simp) (by simp; omega)]
    exact ⟨XA, rfl, s1⟩
  · rw [e1, e2]
    rfl

/-- **NTT with a caller buffer = the hand model's `ntt`, every `nblock`, every size 1 ≤ 2^K ≤ 2^30** -/
theorem NTT_gen_buf_all (fuel : Nat) (hp : Heap) (self : NTT_Goldilocks) (o : Model.Ntt.Obj)
    (hrep : ObjRep hp self o) (hin : ObjIn hp self) (D Sx B : Nat) (hD : D < hp.size) (hSx : Sx < hp.size) (hB : B < hp.size)
    (hD0 : D ≠ 0) (hB0 : B ≠ 0) (hDB : D ≠ B) (hSB : Sx ≠ B) (hfrD : ObjFrame self D) (hfrB : ObjFrame self B)
    (mode : Model.Ntt.DstMode) (hmode : mode = .other ↔ D ≠ Sx)
    (dst : Ptr) (hdst : (if (dst == Ptr.null) = true then (⟨Sx, 0⟩ : Ptr) else dst) = ⟨D, 0⟩)
    (K N NC : Nat) (nphase nblock : BitVec 64) (inverse extend : Bool)
    (hK : K ≤ 30) (hN : N = 2 ^ K) (hKs : K ≤ o.s) (hos : o.s ≤ 32) (hNC1 : 1 ≤ NC)
    (hNNC8 : N * NC * 8 < 2 ^ 64) (hext31 : o.extension < 2 ^ 31) (hcache : extend = true → o.rcache ≠ none)
    (hf : itersFuel self K NC ≤ fuel) (hdsz : N * NC ≤ (hp.block D).size) (hbuf : N * NC ≤ (hp.block B).size) :
    match Model.Ntt.ntt o mode (hp.block D) (hp.block Sx) N NC nphase.toNat nblock.toNat inverse extend with
    | .ok (d, _) => ∃ X', NTT_NTT fuel hp self dst ⟨Sx, 0⟩ (bv N) (bv NC) ⟨B, 0⟩ nphase nblock inverse extend =
        some ((hp.setBlock D d).setBlock B X') ∧ X'.size = (hp.block B).size
    | .error _ => NTT_NTT fuel hp self dst ⟨Sx, 0⟩ (bv N) (bv NC) ⟨B, 0⟩ nphase nblock inverse extend = none := by
  obtain ⟨h1, _⟩ := Model.Ntt.clampBlock_range nblock.toNat NC hNC1
  by_cases hnb : Model.Ntt.clampBlock nblock.toNat NC = 1
  · exact NTT_gen_buf_one fuel hp self o hrep D Sx B hD hB hD0 hB0 hDB hSB hfrD hfrB mode hmode dst hdst K N NC nphase nblock
      inverse extend hK hN hKs hos hNC1 hNNC8 hext31 hcache hnb hf hdsz hbuf
  · exact NTT_gen_buf_blocks fuel hp self o hrep hin D Sx B hD hSx hB hB0 hDB hSB hfrD hfrB mode hmode dst hdst K N NC nphase
      nblock inverse extend hK hN hKs hos hNC1 hNNC8 hext31 hcache (by omega) hf hbuf

/-- **INTT with a caller buffer = the hand model's `intt`**, same scope -/
theorem INTT_gen_buf_all (fuel : Nat) (hp : Heap) (self : NTT_Goldilocks) (o : Model.Ntt.Obj)
    (hrep : ObjRep hp self o) (hin : ObjIn hp self) (D Sx B : Nat) (hD : D < hp.size) (hSx : Sx < hp.size) (hB : B < hp.size)
    (hD0 : D ≠ 0) (hB0 : B ≠ 0) (hDB : D ≠ B) (hSB : Sx ≠ B) (hfrD : ObjFrame self D) (hfrB : ObjFrame self B)
    (mode : Model.Ntt.DstMode) (hmode : mode = .other ↔ D ≠ Sx)
    (dst : Ptr) (hdst : (if (dst == Ptr.null) = true then (⟨Sx, 0⟩ : Ptr) else dst) = ⟨D, 0⟩)
    (K N NC : Nat) (nphase nblock : BitVec 64) (extend : Bool)
    (hK : K ≤ 30) (hN : N = 2 ^ K) (hKs : K ≤ o.s) (hos : o.s ≤ 32) (hNC1 : 1 ≤ NC)
    (hNNC8 : N * NC * 8 < 2 ^ 64) (hext31 : o.extension < 2 ^ 31) (hcache : extend = true → o.rcache ≠ none)
    (hf : itersFuel self K NC ≤ fuel) (hdsz : N * NC ≤ (hp.block D).size) (hbuf : N * NC ≤ (hp.block B).size) :
    match Model.Ntt.intt o mode (hp.block D) (hp.block Sx) N NC nphase.toNat nblock.toNat extend with
    | .ok (d, _) => ∃ X', NTT_INTT fuel hp self dst ⟨Sx, 0⟩ (bv N) (bv NC) ⟨B, 0⟩ nphase nblock extend =
        some ((hp.setBlock D d).setBlock B X') ∧ X'.size = (hp.block B).size
    | .error _ => NTT_INTT fuel hp self dst ⟨Sx, 0⟩ (bv N) (bv NC) ⟨B, 0⟩ nphase nblock extend = none := by
  have hNpos : 0 < N := by rw [hN]; exact Nat.two_pow_pos K
  have hN30 : N ≤ 2 ^ 30 := by rw [hN]; exact Nat.pow_le_pow_right (by omega) hK
  have hNCle : NC ≤ N * NC := Nat.le_mul_of_pos_left NC hNpos
  have hc0 : (bv NC == 0#64) = false := by
    show (bv NC == bv 0) = false
    rw [beq_bv _ _ (by omega) (by omega)]; simp; omega
  have hs0 : (bv N == 0#64) = false := by
    show (bv N == bv 0) = false
    rw [beq_bv _ _ (by omega) (by omega)]; simp; omega
  have hmode' : (if mode = .null then Model.Ntt.DstMode.same else mode) = .other ↔ D ≠ Sx := by
    rw [← hmode]
    cases mode <;> simp
  have h := NTT_gen_buf_all fuel hp self o hrep hin D Sx B hD hSx hB hD0 hB0 hDB hSB hfrD hfrB _ hmode' ⟨D, 0⟩
    (by rw [ptr_beq_null D hD0]; rfl)
    K N NC nphase nblock true extend hK hN hKs hos hNC1 hNNC8 hext31 hcache hf hdsz hbuf
  have hm : Model.Ntt.intt o mode (hp.block D) (hp.block Sx) N NC nphase.toNat nblock.toNat extend =
      Model.Ntt.ntt o (if mode = .null then .same else mode) (hp.block D) (hp.block Sx) N NC nphase.toNat nblock.toNat
        true extend := by
    unfold Model.Ntt.intt
    rw [if_neg (by omega)]
  rw [hm]
  unfold NTT_INTT
  rw [hc0, hs0]
  simp only [Bool.or_false, Bool.false_eq_true, if_false, bind_some_id]
  -- the destination selection, however it is written (if / else on a local, `?:` on `dst != NULL`, …)
  ptr_norm at hdst ⊢
  simp only [hdst]
  exact h

end GoldilocksVerif.BridgeNtt
