/-
  Batch inversion in the cubic extension (Model.g3batchInverse: prefix products, one inversion, backward sweep).
  K3 has no zero divisors (from `K3.tval_ne_zero`), the product of the generated routine on `E3` values is `K3.mul`,
  and the backward sweep keeps the invariant  z · (src[0]·…·src[i]) = 1.
-/
import GoldilocksVerif.Lemmas.ExtIrred

namespace GoldilocksVerif
open Gen.Scalar Gen.Ext Model

/-! #### K3: zero, inverses, no zero divisors -/
namespace K3
theorem mul_zero (a : K3) : mul a zero = zero := by
  ext <;> simp only [mul, zero] <;> ring
theorem zero_mul (a : K3) : mul zero a = zero := by rw [mul_comm, mul_zero]
theorem one_ne_zero : one ≠ zero := by
  intro h
  have := congrArg K3.c0 h
  simp only [one, zero] at this
  exact _root_.one_ne_zero this

/-- every non-zero element has a (left) inverse -/
theorem exists_inv (a : K3) (h : a ≠ zero) : ∃ b, mul b a = one :=
  ⟨cof a (tval a)⁻¹, cof_mul a _ (inv_mul_cancel₀ (tval_ne_zero a h))⟩

theorem mul_eq_zero (a b : K3) : mul a b = zero ↔ a = zero ∨ b = zero := by
  constructor
  · intro h
    by_cases ha : a = zero
    · exact Or.inl ha
    · right
      obtain ⟨c, hc⟩ := exists_inv a ha
      calc b = mul one b := (one_mul b).symm
        _ = mul (mul c a) b := by rw [hc]
        _ = mul c (mul a b) := mul_assoc _ _ _
        _ = zero := by rw [h, mul_zero]
  · rintro (h | h)
    · rw [h, zero_mul]
    · rw [h, mul_zero]

theorem mul_ne_zero (a b : K3) (ha : a ≠ zero) (hb : b ≠ zero) : mul a b ≠ zero := by
  intro h
  rcases (mul_eq_zero a b).mp h with h | h
  · exact ha h
  · exact hb h

/-- an inverse is unique -/
theorem inv_unique (a b c : K3) (hb : mul b a = one) (hc : mul c a = one) : b = c := by
  calc b = mul b one := (mul_one b).symm
    _ = mul b (mul c a) := by rw [hc]
    _ = mul b (mul a c) := by rw [mul_comm c a]
    _ = mul (mul b a) c := (mul_assoc _ _ _).symm
    _ = c := by rw [hb, one_mul]
end K3

/-! #### the product on E3 values -/
theorem den3_toRegion (e : E3) : den3 e.toRegion = denE e := by
  unfold den3 denE E3.toRegion Region.ofList
  simp only [List.getD_cons_zero, List.getD_cons_succ]

theorem denE_ofRegion (r : Region) : denE (E3.ofRegion r) = den3 r := rfl

theorem g3mul_den (a b : E3) : denE (g3mul a b) = K3.mul (denE a) (denE b) := by
  unfold g3mul
  rw [denE_ofRegion, mul_den, den3_toRegion, den3_toRegion]

-- from here on the generated product is opaque: nothing below may unfold it (the generated body is huge)
attribute [local irreducible] g3mul

/-- `g3inv` returns exactly on the non-zero elements -/
theorem g3inv_none_iff (a : E3) : g3inv a = none ↔ denE a = K3.zero := by
  rw [(g3inv_den a).1, K3.tval_eq_zero_iff]

/-! #### prefix products and the backward sweep -/

/-- res[i] · src[i] = 1 -/
def InvOf (r s : E3) : Prop := K3.mul (denE r) (denE s) = K3.one

/-- `ps` is the reversed list of (tmp[i-1], src[i]), i = k … 1, with tmp[0] = s0 and tmp[i] = tmp[i-1]·src[i]; `top` = tmp[k] -/
def Chain (s0 : E3) : List (E3 × E3) → E3 → Prop
  | [], top => denE top = denE s0
  | (tp, s) :: ps, top => denE top = K3.mul (denE tp) (denE s) ∧ Chain s0 ps tp

/-- the last prefix product -/
def lastProd : E3 → List E3 → E3
  | acc, [] => acc
  | acc, x :: xs => lastProd (g3mul acc x) xs

/-- the pairs (tmp[i-1], src[i]) in forward order -/
def fwdPairs : E3 → List E3 → List (E3 × E3)
  | _, [] => []
  | acc, x :: xs => (acc, x) :: fwdPairs (g3mul acc x) xs

theorem zip_prefix (s0 : E3) (rest : List E3) : (s0 :: prefixProds s0 rest).zip rest = fwdPairs s0 rest := by
  induction rest generalizing s0 with
  | nil => rfl
  | cons x xs ih =>
    simp only [prefixProds, fwdPairs, List.zip_cons_cons]
    rw [ih]

theorem getLast_prefix (s0 : E3) (rest : List E3) : (s0 :: prefixProds s0 rest).getLast! = lastProd s0 rest := by
  induction rest generalizing s0 with
  | nil => rfl
  | cons x xs ih =>
    have := ih (g3mul s0 x)
    simp only [prefixProds, lastProd]
    rw [← this]
    simp [List.getLast!_eq_getLast?_getD, List.getLast?_cons_cons]

theorem fwdPairs_snd (s0 : E3) (rest : List E3) : (fwdPairs s0 rest).map Prod.snd = rest := by
  induction rest generalizing s0 with
  | nil => rfl
  | cons x xs ih => simp only [fwdPairs, List.map_cons, ih]

theorem chain_snoc (s0 p x : E3) (hp : denE p = K3.mul (denE s0) (denE x)) :
    ∀ (ps : List (E3 × E3)) (top : E3), Chain p ps top → Chain s0 (ps ++ [(s0, x)]) top := by
  intro ps
  induction ps with
  | nil =>
    intro top h
    simp only [Chain] at h
    simp only [List.nil_append, Chain]
    exact ⟨by rw [h, hp], trivial⟩
  | cons q qs ih =>
    intro top h
    obtain ⟨tp, s⟩ := q
    simp only [Chain] at h
    simp only [List.cons_append, Chain]
    exact ⟨h.1, ih tp h.2⟩

theorem chain_fwdPairs (s0 : E3) (rest : List E3) : Chain s0 (fwdPairs s0 rest).reverse (lastProd s0 rest) := by
  induction rest generalizing s0 with
  | nil => simp only [fwdPairs, List.reverse_nil, lastProd, Chain]
  | cons x xs ih =>
    simp only [fwdPairs, List.reverse_cons, lastProd]
    exact chain_snoc s0 (g3mul s0 x) x (g3mul_den s0 x) _ _ (ih (g3mul s0 x))

theorem backSweep_nil (z : E3) (acc : List E3) : backSweep z [] acc = z :: acc := rfl
theorem backSweep_cons (z tp s : E3) (rest : List (E3 × E3)) (acc : List E3) :
    backSweep z ((tp, s) :: rest) acc = backSweep (g3mul z s) rest (g3mul z tp :: acc) := rfl

/-- the backward sweep: started with the inverse of the top prefix product it produces the element-wise inverses -/
theorem backSweep_spec (s0 : E3) : ∀ (ps : List (E3 × E3)) (z top : E3) (acc accsrc : List E3),
    Chain s0 ps top → InvOf z top → List.Forall₂ InvOf acc accsrc →
    List.Forall₂ InvOf (backSweep z ps acc) (s0 :: ((ps.reverse.map Prod.snd) ++ accsrc)) := by
  intro ps
  induction ps with
  | nil =>
    intro z top acc accsrc hc hz hacc
    simp only [Chain] at hc
    rw [backSweep_nil]
    simp only [List.reverse_nil, List.map_nil, List.nil_append]
    refine List.Forall₂.cons ?_ hacc
    unfold InvOf at hz ⊢
    rw [← hc]; exact hz
  | cons q qs ih =>
    intro z top acc accsrc hc hz hacc
    obtain ⟨tp, s⟩ := q
    simp only [Chain] at hc
    obtain ⟨htop, hch⟩ := hc
    unfold InvOf at hz
    rw [htop] at hz
    have hz' : InvOf (g3mul z s) tp := by
      unfold InvOf
      rw [g3mul_den, K3.mul_assoc, K3.mul_comm (denE s) (denE tp)]; exact hz
    have hr : InvOf (g3mul z tp) s := by
      unfold InvOf
      rw [g3mul_den, K3.mul_assoc]; exact hz
    have := ih (g3mul z s) tp (g3mul z tp :: acc) (s :: accsrc) hch hz' (List.Forall₂.cons hr hacc)
    rw [backSweep_cons]
    simp only [List.reverse_cons, List.map_append, List.map_cons, List.map_nil, List.append_assoc,
      List.singleton_append]
    exact this

/-- the top prefix product is non-zero when every factor is -/
theorem lastProd_ne_zero (s0 : E3) (rest : List E3) (h0 : denE s0 ≠ K3.zero) (hr : ∀ x ∈ rest, denE x ≠ K3.zero) :
    denE (lastProd s0 rest) ≠ K3.zero := by
  induction rest generalizing s0 with
  | nil => exact h0
  | cons x xs ih =>
    simp only [lastProd]
    apply ih
    · rw [g3mul_den]
      exact K3.mul_ne_zero _ _ h0 (hr x (List.mem_cons_self))
    · intro y hy; exact hr y (List.mem_cons_of_mem _ hy)

theorem lastProd_eq_zero (s0 : E3) (rest : List E3) (h : denE s0 = K3.zero ∨ ∃ x ∈ rest, denE x = K3.zero) :
    denE (lastProd s0 rest) = K3.zero := by
  induction rest generalizing s0 with
  | nil =>
    rcases h with h | ⟨x, hx, _⟩
    · exact h
    · cases hx
  | cons x xs ih =>
    simp only [lastProd]
    apply ih
    rcases h with h | ⟨y, hy, hy0⟩
    · left; rw [g3mul_den, h, K3.zero_mul]
    · rcases List.mem_cons.mp hy with e | e
      · left; rw [g3mul_den, ← e, hy0, K3.mul_zero]
      · right; exact ⟨y, e, hy0⟩

/-! #### the shape of `g3batchInverse` on a non-empty array

  Neither the elaborator nor the kernel may be asked to reduce `match g3inv X with …` for a symbolic X: both unfold the
  matcher eagerly and then evaluate the scrutinee (g3inv → Model.inv → isZero (g3t X) → the generated arithmetic), which
  does not terminate in practical time.  So the routine is restated with the inversion abstracted (`batchGen`, built from
  the SAME auxiliary matchers, so that `g3batchInverse = batchGen g3inv` holds syntactically after one unfolding), the
  case analysis is done for an opaque `inv`, and the result is instantiated.  -/

set_option linter.auxLemma false in
/-- `g3batchInverse` with the inversion routine as a parameter (same matchers as the model definition; if Model/Ext.lean is
    refactored and the matcher names change, this definition stops compiling — it cannot silently drift) -/
def batchGen (inv : E3 → Option E3) : List E3 → Option (List E3) :=
  fun src =>
  g3batchInverse.match_3 (fun _ => Option (List E3)) src (fun _ => none) fun s0 rest =>
    have tmp := s0 :: prefixProds s0 rest;
    g3batchInverse.match_1 (fun _ => Option (List E3)) (inv tmp.getLast!)
      (fun _ => none) fun z =>
      have pairs := (tmp.zip rest).reverse;
      some (backSweep z pairs [])

theorem g3batchInverse_eq_batchGen : g3batchInverse = batchGen g3inv := rfl

theorem batchGen_cons (inv : E3 → Option E3) (s0 : E3) (rest : List E3) :
    batchGen inv (s0 :: rest) =
      (inv (lastProd s0 rest)).map (fun z => backSweep z (fwdPairs s0 rest).reverse []) := by
  unfold batchGen
  dsimp only
  rw [getLast_prefix, zip_prefix]
  cases inv (lastProd s0 rest) <;> rfl

theorem g3batchInverse_cons (s0 : E3) (rest : List E3) :
    g3batchInverse (s0 :: rest) =
      (g3inv (lastProd s0 rest)).map (fun z => backSweep z (fwdPairs s0 rest).reverse []) := by
  rw [g3batchInverse_eq_batchGen, batchGen_cons]

theorem g3batchInverse_nil : g3batchInverse [] = none := rfl

/-- whenever the batch inversion returns, every output is the inverse of the corresponding input -/
theorem g3batchInverse_forall2 (src res : List E3) (h : g3batchInverse src = some res) : List.Forall₂ InvOf res src := by
  cases src with
  | nil => rw [g3batchInverse_nil] at h; cases h
  | cons s0 rest =>
    rw [g3batchInverse_cons] at h
    cases hz : g3inv (lastProd s0 rest) with
    | none => rw [hz] at h; cases h
    | some z =>
      rw [hz] at h
      simp only [Option.map_some, Option.some.injEq] at h
      have hinv : InvOf z (lastProd s0 rest) := (g3inv_den _).2 z hz
      have := backSweep_spec s0 _ z _ [] [] (chain_fwdPairs s0 rest) hinv List.Forall₂.nil
      rw [List.reverse_reverse, fwdPairs_snd, List.append_nil, h] at this
      exact this

/-- it returns exactly when the array is non-empty and no element is zero -/
theorem g3batchInverse_none_iff (src : List E3) :
    g3batchInverse src = none ↔ src = [] ∨ ∃ x ∈ src, denE x = K3.zero := by
  cases src with
  | nil => simp [g3batchInverse_nil]
  | cons s0 rest =>
    rw [g3batchInverse_cons, Option.map_eq_none_iff, g3inv_none_iff]
    constructor
    · intro h
      right
      by_contra hne
      apply lastProd_ne_zero s0 rest _ _ h
      · intro h0; exact hne ⟨s0, List.mem_cons_self, h0⟩
      · intro x hx h0; exact hne ⟨x, List.mem_cons_of_mem _ hx, h0⟩
    · rintro (h | ⟨x, hx, h0⟩)
      · cases h
      · apply lastProd_eq_zero
        rcases List.mem_cons.mp hx with e | e
        · left; rw [← e]; exact h0
        · right; exact ⟨x, e, h0⟩

end GoldilocksVerif
