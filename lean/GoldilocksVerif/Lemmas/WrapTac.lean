/-
  The uniform proof script for the generated structural equalities of Props/C17Gen.lean (and C16Gen).
-/
import GoldilocksVerif.Lemmas.WrapL
import GoldilocksVerif.Gen.Avx2Mat
import GoldilocksVerif.Gen.Avx512Mat
import GoldilocksVerif.Gen.PosAvx512

namespace GoldilocksVerif

macro "wrap_simp" : tactic => `(tactic|
  simp only [Gen.Avx2Mat.load_avx, Gen.Avx2Mat.store_avx, Gen.Avx2Mat.load_avx_a, Gen.Avx2Mat.store_avx_a,
    Gen.Avx512Mat.store_avx512, Gen.PosAvx512.load_avx512,
    Avx2.load, Avx2.store_eq, Avx512.load, Avx512.store_eq, writeSeq, V4.getN, V4.ofFn, V8.getN, V8.ofFn,
    Avx2.set_epi64x, Avx2.set1_epi64x,
    Region.set_apply, Region.zero, Region.mk_apply, BitVec.zero_mul, BitVec.one_mul, BitVec.toNat_ofNat, Nat.zero_mod,
    ↓reduceIte, Nat.reduceEqDiff])

/-- running indices (`k += stride` carried through the unrolled iterations) folded into `i * stride` -/
macro "run_idx_simp" : tactic => `(tactic|
  simp only [BitVec.zero_add, BitVec.add_zero, BitVec.zero_mul, BitVec.one_mul, BitVec.mul_zero, BitVec.mul_one,
    BitVec.run_two, BitVec.run_succ, BitVec.run_succ', Nat.reduceAdd, BitVec.toNat_ofNat, Nat.zero_mod])

/-- unfold the generated wrapper, normalise gathers / scatters, close by reflexivity; last resort: the wrapper carries its
    strided indices from iteration to iteration (`k1 += offset1`) — fold them into `i * offset1` on both sides -/
macro "wrap_proof " f:ident : tactic => `(tactic|
  first
  | (unfold $f; wrap_simp; done)
  | (unfold $f; wrap_simp; rfl)
  | (unfold $f; rfl)
  | (unfold $f; wrap_simp; run_idx_simp; done)
  | (unfold $f; wrap_simp; run_idx_simp; rfl))

end GoldilocksVerif
