/-
  Bridge theorem: the TRANSLATED `NTT_Goldilocks::computeR` (Gen/NttGen.lean) builds, in two fresh heap blocks, exactly the
  tables `r`, `r_` of the hand model's `computeR` (Model/Ntt.lean).
-/
import GoldilocksVerif.Lemmas.BridgeNttBasic
import GoldilocksVerif.Lemmas.BridgeNttTac

namespace GoldilocksVerif.BridgeNtt
open GoldilocksVerif Gen.NttGen Gen.Scalar

/-- `a` followed by zeros up to length `n` (a `new[]` block whose first `a.size` words have been written) -/
def pad (a : Array (BitVec 64)) (n : Nat) : Array (BitVec 64) := a ++ Array.replicate (n - a.size) 0#64

theorem pad_getD (a : Array (BitVec 64)) (n j : Nat) : (pad a n).getD j 0#64 = a.getD j 0#64 := by
  simp only [pad, Array.getD_eq_getD_getElem?, Array.getElem?_append, Array.getElem?_replicate]
  by_cases h : j < a.size
  · simp [h]
  · simp only [h, if_false, Array.getElem?_eq_none (Nat.le_of_not_lt h)]
    by_cases h2 : j - a.size < n - a.size <;> simp [h2]

theorem pad_size (a : Array (BitVec 64)) (n : Nat) : (pad a n).size = max a.size n := by
  simp only [pad, Array.size_append, Array.size_replicate]; omega

theorem pad_full (a : Array (BitVec 64)) (n : Nat) (h : n ≤ a.size) : pad a n = a := by
  have : n - a.size = 0 := by omega
  simp [pad, this]

theorem pad_set (a : Array (BitVec 64)) (n : Nat) (v : BitVec 64) (h : a.size < n) :
    (pad a n).setIfInBounds a.size v = pad (a.push v) n := by
  apply Array.ext_getElem?
  intro j
  simp only [pad, Array.getElem?_setIfInBounds, Array.getElem?_append, Array.getElem?_replicate, Array.size_append,
    Array.size_replicate, Array.size_push, Array.getElem?_push]
  by_cases h1 : a.size = j
  · subst h1
    have : a.size < a.size + (n - a.size) := by omega
    simp [this]
  · by_cases h2 : j < a.size
    · have : j < a.size + 1 := by omega
      have h3 : ¬ j = a.size := by omega
      simp [h1, h2, this, h3]
    · have h3 : ¬ j < a.size + 1 := by omega
      have h4 : (j - a.size < n - a.size) ↔ (j - (a.size + 1) < n - (a.size + 1)) := by omega
      simp only [h1, h2, h3, if_false]
      by_cases h5 : j - a.size < n - a.size
      · simp [h5, h4.mp h5]
      · have : ¬ (j - (a.size + 1) < n - (a.size + 1)) := fun e => h5 (h4.mpr e)
        simp [h5, this]

theorem pad_empty (n : Nat) : pad #[] n = Array.replicate n 0#64 := by simp [pad]

/-- body of the generated loop on the two table blocks -/
def computeRStep (pinv : BitVec 64) (i : Nat) (s : Block × Block) : Block × Block :=
  let ri := mul__eEE (s.1.getD (i - 1) 0#64) shift__r
  let a := s.1.setIfInBounds i ri
  (a, s.2.setIfInBounds i (mul__eEE (a.getD i 0#64) pinv))

/-- body of the hand model's loop -/
def computeRHand (pinv : BitVec 64) (i : Nat) (st : Array (BitVec 64) × Array (BitVec 64)) :
    Array (BitVec 64) × Array (BitVec 64) :=
  let ri := mul__eEE (st.1.getD i 0#64) shift__r
  (st.1.push ri, st.2.push (mul__eEE ri pinv))

theorem computeR_arrays_aux (pinv : BitVec 64) (N : Nat) : ∀ (n i : Nat) (H1 H2 : Array (BitVec 64)),
    H1.size = i + 1 → H2.size = i + 1 → i + 1 + n ≤ N →
    Loop.rangeAux 1 (computeRStep pinv) n (i + 1) (pad H1 N, pad H2 N) =
      (pad (Loop.rangeAux 1 (computeRHand pinv) n i (H1, H2)).1 N, pad (Loop.rangeAux 1 (computeRHand pinv) n i (H1, H2)).2 N) := by
  intro n
  induction n with
  | zero => intro i H1 H2 _ _ _; rfl
  | succ n ih =>
    intro i H1 H2 h1 h2 hN
    show Loop.rangeAux 1 (computeRStep pinv) n (i + 1 + 1) (computeRStep pinv (i + 1) (pad H1 N, pad H2 N)) = _
    have hstep : computeRStep pinv (i + 1) (pad H1 N, pad H2 N) =
        (pad (H1.push (mul__eEE (H1.getD i 0#64) shift__r)) N,
         pad (H2.push (mul__eEE (mul__eEE (H1.getD i 0#64) shift__r) pinv)) N) := by
      simp only [computeRStep, Nat.add_sub_cancel, pad_getD]
      have e1 : (pad H1 N).setIfInBounds (i + 1) (mul__eEE (H1.getD i 0#64) shift__r) =
          pad (H1.push (mul__eEE (H1.getD i 0#64) shift__r)) N := by
        rw [← h1]; exact pad_set _ _ _ (by omega)
      rw [e1, pad_getD]
      have e2 : (H1.push (mul__eEE (H1.getD i 0#64) shift__r)).getD (i + 1) 0#64 = mul__eEE (H1.getD i 0#64) shift__r := by
        rw [Array.getD_eq_getD_getElem?, Array.getElem?_push, if_pos h1.symm, Option.getD_some]
      rw [e2]
      congr 1
      rw [← h2]; exact pad_set _ _ _ (by omega)
    rw [hstep]
    have := ih (i + 1) (H1.push (mul__eEE (H1.getD i 0#64) shift__r))
      (H2.push (mul__eEE (mul__eEE (H1.getD i 0#64) shift__r) pinv)) (by simp [h1]) (by simp [h2]) (by omega)
    rw [this]
    rfl

theorem rangeAux_size (pinv : BitVec 64) : ∀ (n i : Nat) (H1 H2 : Array (BitVec 64)),
    (Loop.rangeAux 1 (computeRHand pinv) n i (H1, H2)).1.size = H1.size + n ∧
    (Loop.rangeAux 1 (computeRHand pinv) n i (H1, H2)).2.size = H2.size + n := by
  intro n
  induction n with
  | zero => intro i H1 H2; exact ⟨rfl, rfl⟩
  | succ n ih =>
    intro i H1 H2
    have e : Loop.rangeAux 1 (computeRHand pinv) (n + 1) i (H1, H2) =
        Loop.rangeAux 1 (computeRHand pinv) n (i + 1)
          (H1.push (mul__eEE (H1.getD i 0#64) shift__r), H2.push (mul__eEE (mul__eEE (H1.getD i 0#64) shift__r) pinv)) := rfl
    rw [e]
    obtain ⟨a, b⟩ := ih (i + 1) (H1.push (mul__eEE (H1.getD i 0#64) shift__r))
      (H2.push (mul__eEE (mul__eEE (H1.getD i 0#64) shift__r) pinv))
    rw [a, b, Array.size_push, Array.size_push]
    omega

/-- the generated loop on two zero-filled blocks of N words = the hand model's loop that grows the two tables -/
theorem computeR_arrays (pinv : BitVec 64) (N : Nat) (hN : 1 ≤ N) :
    Loop.range 1 N 1 ((Array.replicate N 0#64).setIfInBounds 0 one__r, (Array.replicate N 0#64).setIfInBounds 0 pinv)
      (computeRStep pinv) =
    Loop.range 0 (N - 1) 1 ((#[one__r], #[pinv]) : Array (BitVec 64) × Array (BitVec 64)) (computeRHand pinv) := by
  have e0 : ∀ v : BitVec 64, (Array.replicate N 0#64).setIfInBounds 0 v = pad #[v] N := by
    intro v
    rw [← pad_empty]
    have := pad_set #[] N v (by show 0 < N; omega)
    simpa using this
  rw [e0, e0]
  unfold Loop.range
  have hn1 : (N - 1 + 1 - 1) / 1 = N - 1 := by simp
  have hn2 : (N - 1 - 0 + 1 - 1) / 1 = N - 1 := by simp
  rw [hn1, hn2]
  have := computeR_arrays_aux pinv N (N - 1) 0 #[one__r] #[pinv] rfl rfl (by omega)
  rw [this]
  obtain ⟨s1, s2⟩ := rangeAux_size pinv (N - 1) 0 #[one__r] #[pinv]
  rw [pad_full _ _ (by rw [s1]; simp; omega), pad_full _ _ (by rw [s2]; simp; omega)]

/-- **computeR**: for 1 ≤ N < 2^31 the generated function returns; the two tables are the hand model's, in two new blocks
    at the end of the heap; `r`, `r_`, `r_N` of the object point to them; nothing else changes -/
theorem computeR_gen (fuel : Nat) (hf : log2Fuel ≤ fuel) (hp : Heap) (self : NTT_Goldilocks) (o : Model.Ntt.Obj) (N : Nat)
    (hN : 1 ≤ N) (hN31 : N < 2 ^ 31)
    (hpti : hp.block self.powTwoInv.blk = o.powTwoInv) (hoff : self.powTwoInv.off = 0)
    (hblk : self.powTwoInv.blk < hp.size) :
    NTT_computeR fuel hp self (N : Int) =
      some ((hp.push (Model.Ntt.computeR o N).2.1).push (Model.Ntt.computeR o N).2.2,
            { self with r := ⟨hp.size, 0⟩, r_ := ⟨hp.size + 1, 0⟩, r_N := BitVec.ofNat 64 N }) := by
  have hNne : BitVec.ofNat 64 N ≠ 0#64 := by
    intro e
    have := congrArg BitVec.toNat e
    rw [BitVec.toNat_ofNat, Nat.mod_eq_of_lt (by omega)] at this
    simp at this; omega
  have hNnat : (BitVec.ofNat 64 N).toNat = N := by rw [BitVec.toNat_ofNat, Nat.mod_eq_of_lt (by omega)]
  have hlog := log2_gen_eq fuel hf (BitVec.ofNat 64 N) hNne
  rw [hNnat] at hlog
  have hl64 : Model.Ntt.log2 N < 64 := by
    simp only [Model.Ntt.log2]
    rw [Nat.log2_lt (by omega)]; omega
  have hdp : (BitVec.setWidth 64 (BitVec.ofNat 32 (Model.Ntt.log2 N))).toNat = Model.Ntt.log2 N := by
    rw [BitVec.toNat_setWidth, BitVec.toNat_ofNat, Nat.mod_eq_of_lt (a := Model.Ntt.log2 N) (by omega),
      Nat.mod_eq_of_lt (by omega)]
  unfold NTT_computeR
  simp only [I32.toU64, BitVec.ofInt_natCast, hlog, Option.bind_some, hNnat, Int.toNat_natCast]
  -- the heap after the two allocations, in representation form over a base heap with two (empty) blocks at the end
  let b := hp.size
  let H : Heap := (hp.push #[]).push #[]
  have hHsize : H.size = b + 2 := by simp [H, b]
  have hHblk : ∀ d, d < b → H.block d = hp.block d := by
    intro d hd
    simp only [H, Heap.block_push, Heap.size_push]
    rw [if_neg (by omega), if_neg (by omega)]
  have hpush : ∀ A B : Block, (hp.push A).push B = Heap.R2 H b (b + 1) (A, B) := by
    intro A B
    simp only [Heap.R2, H, b]
    rw [Heap.setBlock_push_lt _ _ _ _ (by simp), Heap.setBlock_push_last]
    have : hp.size + 1 = (hp.push A).size := by simp
    rw [this, Heap.setBlock_push_last]
  have hbc : b ≠ b + 1 := by omega
  have hp1 : self.powTwoInv.blk ≠ b := by omega
  have hp2 : self.powTwoInv.blk ≠ b + 1 := by omega
  simp only [Heap.alloc_fst, Heap.alloc_snd, Heap.size_push]
  -- every heap of the function is `R2 H b (b+1) (content of r, content of r_)`; the table `powTwoInv` is read from the base
  -- heap, wherever the read stands (in every iteration, or once in front of the loop)
  have hb1 : b < H.size := by omega
  have hb2 : b + 1 < H.size := by omega
  simp only [hpush]
  simp only [Heap.set_eq, Heap.get_def, Nat.zero_add, Nat.add_zero, show hp.size = b from rfl]
  simp (disch := assumption) only [Heap.R2_block_fst, Heap.R2_block_snd, Heap.R2_block_other, Heap.R2_setBlock_fst,
    Heap.R2_setBlock_snd]
  try dsimp only
  rw [Loop.rangeM_rep (R := Heap.R2 H b (b + 1))
    (f := computeRStep ((H.block self.powTwoInv.blk).getD (self.powTwoInv.off +
      (BitVec.setWidth 64 (BitVec.ofNat 32 (Model.Ntt.log2 N))).toNat) 0#64)) _ 1 N]
  · simp only [Option.bind_some]
    rw [hHblk _ hblk, hpti, hoff, hdp, Nat.zero_add, computeR_arrays _ N hN]
    rfl
  · -- the loop body, whatever its parameter list
    intro i s _ _
    unfold_loops
    unfold computeRStep
    simp only [Heap.set_eq, Heap.get_def, Nat.zero_add, show hp.size = b from rfl]
    simp (disch := assumption) only [Heap.R2_block_fst, Heap.R2_block_snd, Heap.R2_block_other, Heap.R2_setBlock_fst,
      Heap.R2_setBlock_snd]

end GoldilocksVerif.BridgeNtt
