/-
  Program-equivalence toolkit for the bridge lemmas (`*_generic` in Lemmas/BridgeSponge.lean, BridgeMerkle*.lean).

  The bridge files keep ONE reference text per family of generated functions (`lhGenG`, `lh512GenG`, `mtGenG`, …) and prove the
  property about that text.  The link "generated function = reference text" used to be `unfold …; rfl`, i.e. it held only for
  the literal generated text.  It is now proved EXTENSIONALLY by the tactic `gen_equiv`:
    * both sides are delta-unfolded (`delta_prefix` unfolds every constant whose name starts with a given string, so the
      number, the names and the parameter lists of the lifted loop bodies `<fn>_loopN` do not matter), `let`s are inlined;
    * the two terms are walked in parallel through `Option.bind`, `Loop.rangeM`, `Loop.whileM`, `some`, tuples, applications
      of the same (opaque) callee; `if`s are split on both sides and impossible combinations of conditions are refuted on
      `Nat` (`ge_contra`), so `a < b` / `b > a` / `¬ (a ≥ b)`, inverted branches and conditions that are implied by an
      enclosing branch are all accepted;
    * leaves: 64-bit words are compared as elements of the commutative ring Z/2^64 (`ge_word`: `grind`'s ring solver after
      normalising `ofNat (a*b)`, `x >>> 1`, …, or linear arithmetic over `toNat`), regions are compared pointwise
      (`ge_region`: word j of both sides after all `memcpy`/`memset`/pointer-offset steps, case analysis + `omega`), so the
      order of independent writes, hoisted sub-expressions and `p + a + b` vs `p + b + a` do not matter.
  `while` loops: same state tuple → body by body (`whileM_congr`); the same components in another ORDER (the translator orders
  the state by first assignment in the body) → `ge_while_perm` finds the rearrangement from the two initial tuples
  (`bind_whileM_perm`); a state with another MEANING (count-down `remaining` vs count-up `absorbed`) → `whileM_map` with an
  explicit relation and invariant (used in Lemmas/BridgeSponge.lean); a body that agrees with the reference one only on the
  REACHABLE states (first-iteration action hoisted out of the loop) → `whileM_congr_inv` with an invariant of the reference loop.
  `for` loops: the bodies are compared under `lo ≤ i < hi` (`rangeM_congr_mem`), and every hypothesis in the context of
  `gen_equiv` (e.g. a no-wrap bound on a count, given by the caller) is available to the arithmetic at the leaves: two
  independent writes at `j` and `n + j`, `j < n`, may be issued in either order.  `store (load s)` of an unaligned vector
  load/store pair is read as a copy of 4 resp. 8 words (`pt_store_load`).
  Nothing here depends on generated code.
-/
import GoldilocksVerif.Model.TrRt
import GoldilocksVerif.Isa.Avx2
import GoldilocksVerif.Isa.Avx512
import GoldilocksVerif.Lemmas.BridgeEquivAttr
import Mathlib.Tactic.SplitIfs
import Lean.Meta.Tactic.Delta

namespace GoldilocksVerif
namespace GenEquiv
open Loop

/-! ### congruence rules for the run-time combinators -/

theorem optBind_congr {α β : Type} {x y : Option α} {f g : α → Option β} (hx : x = y) (h : ∀ a, f a = g a) :
    x.bind f = y.bind g := by
  subst hx
  cases x with
  | none => rfl
  | some a => exact h a

theorem rangeM_congr {σ : Type} {lo hi lo' hi' step : Nat} {s s' : σ} {f g : Nat → σ → Option σ}
    (hlo : lo = lo') (hhi : hi = hi') (hs : s = s') (h : ∀ i t, f i t = g i t) :
    rangeM lo hi step s f = rangeM lo' hi' step s' g := by
  subst hlo; subst hhi; subst hs
  have : f = g := by funext i t; exact h i t
  rw [this]

theorem rangeMAux_congr_mem {σ : Type} (step : Nat) (f g : Nat → σ → Option σ) :
    ∀ (n i : Nat) (s : σ), (∀ k, k < n → ∀ t, f (i + k * step) t = g (i + k * step) t) →
      rangeMAux step f n i s = rangeMAux step g n i s := by
  intro n
  induction n with
  | zero => intro i s _; rfl
  | succ n ih =>
    intro i s h
    rw [rangeMAux_succ, rangeMAux_succ]
    have h0 := h 0 (Nat.succ_pos n) s
    rw [Nat.zero_mul, Nat.add_zero] at h0
    rw [h0]
    refine optBind_congr rfl (fun s' => ih (i + step) s' (fun k hk t => ?_))
    have := h (k + 1) (Nat.succ_lt_succ hk) t
    rw [Nat.succ_mul, ← Nat.add_assoc, Nat.add_right_comm] at this
    exact this

/-- as `rangeM_congr`, but the bodies only have to agree for the indices the loop visits (`lo ≤ i < hi`): a loop body may be
    rewritten using the loop bounds (e.g. two writes at `j` and at `j + n`, `j < n`, issued in the other order) -/
theorem rangeM_congr_mem {σ : Type} {lo hi lo' hi' step : Nat} {s s' : σ} {f g : Nat → σ → Option σ}
    (hlo : lo = lo') (hhi : hi = hi') (hs : s = s') (h : ∀ i t, lo ≤ i → i < hi → f i t = g i t) :
    rangeM lo hi step s f = rangeM lo' hi' step s' g := by
  subst hlo; subst hhi; subst hs
  unfold rangeM
  refine rangeMAux_congr_mem step f g _ lo s (fun k hk t => h _ t (Nat.le_add_right _ _) ?_)
  by_cases hst : step = 0
  · subst hst; rw [Nat.div_zero] at hk; exact absurd hk (Nat.not_lt_zero _)
  have h1 : (hi - lo + step - 1) / step * step ≤ hi - lo + step - 1 := Nat.div_mul_le_self _ _
  have h2 : (k + 1) * step ≤ (hi - lo + step - 1) / step * step := Nat.mul_le_mul_right _ hk
  rw [Nat.succ_mul] at h2
  generalize (hi - lo + step - 1) / step * step = q at h1 h2
  generalize k * step = m at h2 ⊢
  omega

theorem range_congr {σ : Type} {lo hi lo' hi' step : Nat} {s s' : σ} {f g : Nat → σ → σ}
    (hlo : lo = lo') (hhi : hi = hi') (hs : s = s') (h : ∀ i t, f i t = g i t) :
    range lo hi step s f = range lo' hi' step s' g := by
  subst hlo; subst hhi; subst hs
  have : f = g := by funext i t; exact h i t
  rw [this]

theorem whileM_congr {σ : Type} {f g : σ → Option (Bool × σ)} {fuel : Nat} {s s' : σ}
    (h : ∀ t, f t = g t) (hs : s = s') : whileM f fuel s = whileM g fuel s' := by
  subst hs
  have : f = g := by funext t; exact h t
  rw [this]

/-- two loops over DIFFERENT state types run in step: `ψ` maps the states of `g` to those of `f`, `Inv` is an invariant of
    `g`; if one step of `f` from `ψ t` is the `ψ`-image of one step of `g` from `t`, so is the whole loop -/
theorem whileM_map {σ τ : Type} (f : σ → Option (Bool × σ)) (g : τ → Option (Bool × τ)) (ψ : τ → σ) (Inv : τ → Prop)
    (h : ∀ t, Inv t → f (ψ t) = (g t).map (fun p => (p.1, ψ p.2)))
    (hInv : ∀ t b t', Inv t → g t = some (b, t') → Inv t') :
    ∀ (fuel : Nat) (t : τ), Inv t → whileM f fuel (ψ t) = (whileM g fuel t).map ψ := by
  intro fuel
  induction fuel with
  | zero => intro t _; rfl
  | succ n ih =>
    intro t ht
    rw [whileM_succ, whileM_succ, h t ht]
    cases hg : g t with
    | none => rfl
    | some p =>
      obtain ⟨b, t'⟩ := p
      cases b with
      | false => rfl
      | true => exact ih t' (hInv t true t' ht hg)

/-- two loops over the same state agree if their bodies agree on every state satisfying an invariant `Inv` of (the reference
    loop) `g`: used when a rewrite of the body is only correct for the states the loop can reach (a first-iteration action
    hoisted out of the loop, a fill skipped where it is dead, …) -/
theorem whileM_congr_inv {σ : Type} (f g : σ → Option (Bool × σ)) (Inv : σ → Prop)
    (h : ∀ t, Inv t → f t = g t)
    (hInv : ∀ t b t', Inv t → g t = some (b, t') → Inv t') :
    ∀ (fuel : Nat) (t : σ), Inv t → whileM f fuel t = whileM g fuel t := by
  intro fuel
  induction fuel with
  | zero => intro t _; rfl
  | succ n ih =>
    intro t ht
    rw [whileM_succ, whileM_succ, h t ht]
    cases hg : g t with
    | none => rfl
    | some p =>
      obtain ⟨b, t'⟩ := p
      cases b with
      | false => rfl
      | true => exact ih t' (hInv t true t' ht hg)

/-- the same loop with the components of the state tuple in another ORDER (`ψ` rearranges the reference state into the
    generated one): used when the assignments of a `while` body were reordered, which reorders the translator's state tuple -/
theorem bind_whileM_perm {σ τ α : Type} {F : σ → Option (Bool × σ)} {G : τ → Option (Bool × τ)} {K : σ → Option α}
    {K' : τ → Option α} {fuel : Nat} {s0 : σ} {t0 : τ} (ψ : τ → σ) (h0 : s0 = ψ t0)
    (hstep : ∀ t, F (ψ t) = (G t).map (fun p => (p.1, ψ p.2))) (hK : ∀ t, K (ψ t) = K' t) :
    (whileM F fuel s0).bind K = (whileM G fuel t0).bind K' := by
  subst h0
  rw [whileM_map F G ψ (fun _ => True) (fun t _ => hstep t) (fun _ _ _ _ _ => trivial) fuel t0 trivial]
  cases whileM G fuel t0 with
  | none => rfl
  | some r => exact hK r

theorem optBind_map {α β γ : Type} (x : Option α) (f : α → β) (g : β → Option γ) :
    (x.map f).bind g = x.bind (fun a => g (f a)) := by
  cases x <;> rfl

/-! ### 64-bit words: normal forms -/

theorem bv_ofNat_mul (a b : Nat) : BitVec.ofNat 64 (a * b) = BitVec.ofNat 64 a * BitVec.ofNat 64 b := by
  apply BitVec.eq_of_toNat_eq
  simp only [BitVec.toNat_ofNat, BitVec.toNat_mul, Nat.mul_mod, Nat.mod_mod]

theorem bv_ofNat_add (a b : Nat) : BitVec.ofNat 64 (a + b) = BitVec.ofNat 64 a + BitVec.ofNat 64 b := by
  apply BitVec.eq_of_toNat_eq
  simp only [BitVec.toNat_ofNat, BitVec.toNat_add, Nat.add_mod, Nat.mod_mod]

/-- `x >> 1` = `x / 2` -/
theorem bv_shr1 (p : BitVec 64) : p >>> 1 = p / 2#64 := by
  apply BitVec.eq_of_toNat_eq
  rw [BitVec.toNat_ushiftRight, BitVec.toNat_udiv]
  show p.toNat >>> 1 = p.toNat / 2
  omega

/-- `x << 1` = `x * 2` -/
theorem bv_shl1 (p : BitVec 64) : p <<< 1 = p * 2#64 := by
  apply BitVec.eq_of_toNat_eq
  rw [BitVec.toNat_shiftLeft, BitVec.toNat_mul]
  show p.toNat <<< 1 % 2 ^ 64 = p.toNat * 2 % 2 ^ 64
  omega

theorem bv_sub_sub_cancel (a b : BitVec 64) : a - (a - b) = b := by
  apply BitVec.eq_of_toNat_eq
  simp only [BitVec.toNat_sub]
  omega

theorem bv_add_sub_cancel_left (a b : BitVec 64) : a + b - a = b := by
  apply BitVec.eq_of_toNat_eq
  simp only [BitVec.toNat_sub, BitVec.toNat_add]
  omega

/-! ### tactics -/

open Lean Elab Tactic Meta in
/-- `delta_prefix S`: delta-unfold (and beta-reduce) every constant of the goal whose full name starts with the string `S`
    (e.g. a generated function together with all its lifted loop bodies `<fn>_loopN`, whatever their number and parameters) -/
elab "delta_prefix " s:str : tactic => do
  let pre := s.getString
  liftMetaTactic1 fun g => do
    let tgt ← instantiateMVars (← g.getType)
    let mut cur := tgt
    -- unfolded bodies can mention further constants with the prefix (loop bodies inside loop bodies): iterate
    for _ in [0:8] do
      let nxt ← deltaExpand cur (fun n => n.toString.startsWith pre)
      if nxt == cur then break
      cur := nxt
    let res ← Core.betaReduce cur
    g.replaceTargetDefEq res

/-- conditions (hypotheses left by `split_ifs`) as statements over `Nat`, then linear arithmetic -/
macro "ge_cond_norm" : tactic =>
  `(tactic| try simp only [bne_iff_ne, beq_iff_eq, ne_eq, decide_eq_true_eq, decide_eq_false_iff_not, Bool.not_eq_true,
      beq_eq_false_iff_ne, bne_eq_false_iff_eq, ge_iff_le, gt_iff_lt, Bool.decide_eq_true, Classical.not_not,
      not_true_eq_false, not_false_eq_true] at *)

/-- the conditions collected on the current path are contradictory -/
macro "ge_contra" : tactic => `(tactic| (exfalso; (ge_cond_norm <;> bv_omega)))

open Lean Elab Tactic Meta in
/-- remove every hypothesis (proposition) from the context; variables stay -/
elab "ge_clear_hyps" : tactic => liftMetaTactic1 fun g => g.withContext do
  let mut g := g
  let lctx ← getLCtx
  for d in lctx.decls.toArray.reverse do
    if let some d := d then
      if !d.isImplementationDetail && (← isProp d.type) then
        g ← (g.clear d.fvarId) <|> pure g
  return g

/-- equality of two 64-bit words: syntactic; linear arithmetic over `toNat` using the path conditions; identity of the
    commutative ring Z/2^64 (`grind`'s ring solver, run WITHOUT the path conditions: it is only asked for ring identities) -/
macro "ge_word" : tactic =>
  `(tactic| (show (_ : BitVec 64) = _
             first
             | with_reducible rfl
             | (simp only [bv_ofNat_mul, bv_ofNat_add, bv_shr1, bv_shl1]; done)
             | (try simp only [bv_ofNat_mul, bv_ofNat_add, bv_shr1, bv_shl1]
                first
                | with_reducible rfl
                | (ge_cond_norm <;> bv_omega)
                | (ge_clear_hyps; grind only))))

/-- equality of two natural numbers (element counts, offsets): linear arithmetic, `toNat` of words included -/
macro "ge_nat" : tactic =>
  `(tactic| (show (_ : Nat) = _
             first
             | with_reducible rfl
             | omega
             | (ge_cond_norm <;> bv_omega)))

open Lean Elab Tactic Meta in
/-- `f a₁ … aₙ = f b₁ … bₙ` (same constant or variable `f`): one new goal `aᵢ = bᵢ` for every argument position where the two
    sides differ SYNTACTICALLY.  Unlike `congr` it never tries `rfl` up to unfolding (the callees are translated permutations:
    unfolding them is hopeless), it only builds the congruence proof. -/
elab "ge_congr_args" : tactic => liftMetaTactic fun g => do
  let t := (← instantiateMVars (← g.getType)).cleanupAnnotations
  let some (_, l, r) := t.eq? | throwError "ge_congr_args: not an equation"
  let f := l.getAppFn
  unless (f.isConst || f.isFVar) && f == r.getAppFn && l.getAppNumArgs == r.getAppNumArgs && l.getAppNumArgs > 0 do
    throwError "ge_congr_args: different heads"
  let la := l.getAppArgs
  let ra := r.getAppArgs
  let mut pf ← mkEqRefl f
  let mut goals : Array MVarId := #[]
  for i in [0:la.size] do
    let a := la[i]!
    let b := ra[i]!
    if a == b then
      pf ← mkCongrFun pf a
    else
      let m ← mkFreshExprSyntheticOpaqueMVar (← mkEq a b)
      goals := goals.push m.mvarId!
      pf ← mkCongr pf m
  if goals.isEmpty then throwError "ge_congr_args: no differing argument"
  g.assign pf
  return goals.toList

/-! ### regions, pointwise
  The combined forms (`memcpy(p + k, src, m)` = write-back of a copy into the shifted region) come first: with the two-step
  reading the region written to occurs twice, and a sequence of d writes becomes a term of size 2^d. -/

attribute [region_pt] Region.copyN_apply Region.zeroN_apply Region.unshift_apply Region.shift_apply Region.set_apply
  Region.mk_apply

@[region_pt high] theorem pt_unshift_copyN (s src : Region) (k m j : Nat) :
    (Region.unshift s k (Region.copyN (Region.shift s k) src m)) j = if k ≤ j ∧ j < k + m then src (j - k) else s j := by
  simp only [Region.unshift_apply, Region.copyN_apply, Region.shift_apply]
  split_ifs <;> first | rfl | omega | (congr 1; omega)

@[region_pt high] theorem pt_unshift_zeroN (s : Region) (k m j : Nat) :
    (Region.unshift s k (Region.zeroN (Region.shift s k) m)) j = if k ≤ j ∧ j < k + m then 0#64 else s j := by
  simp only [Region.unshift_apply, Region.zeroN_apply, Region.shift_apply]
  split_ifs <;> first | rfl | omega | (congr 1; omega)

@[region_pt high] theorem pt_unshift_unshift_zeroN (s : Region) (k l m j : Nat) :
    (Region.unshift s k (Region.unshift (Region.shift s k) l (Region.zeroN (Region.shift (Region.shift s k) l) m))) j =
      if k + l ≤ j ∧ j < k + l + m then 0#64 else s j := by
  simp only [Region.unshift_apply, Region.zeroN_apply, Region.shift_apply]
  split_ifs <;> first | rfl | omega | (congr 1; omega)

@[region_pt high] theorem pt_unshift_unshift_copyN (s src : Region) (k l m j : Nat) :
    (Region.unshift s k (Region.unshift (Region.shift s k) l (Region.copyN (Region.shift (Region.shift s k) l) src m))) j =
      if k + l ≤ j ∧ j < k + l + m then src (j - (k + l)) else s j := by
  simp only [Region.unshift_apply, Region.copyN_apply, Region.shift_apply]
  split_ifs <;> first | rfl | omega | (congr 1; omega)

@[region_pt] theorem pt_zero (j : Nat) : Region.zero j = 0#64 := rfl

/-! unaligned vector load / store (`_mm256_loadu_si256` / `_mm256_storeu_si256`, `_mm512_…`) used as a 4- / 8-word copy:
  `store r (load s)` is `memcpy(r, s, 4 words)` -/

@[region_pt high] theorem pt_store_load (r s : Region) (j : Nat) :
    (Avx2.store r (Avx2.load s)) j = if j < 4 then s j else r j := by
  show (if j = 0 then s 0 else if j = 1 then s 1 else if j = 2 then s 2 else if j = 3 then s 3 else r j) = _
  split_ifs <;> first | rfl | omega | (subst_vars; rfl)

@[region_pt high] theorem pt_store_load512 (r s : Region) (j : Nat) :
    (Avx512.store r (Avx512.load s)) j = if j < 8 then s j else r j := by
  show (if j = 0 then s 0 else if j = 1 then s 1 else if j = 2 then s 2 else if j = 3 then s 3
    else if j = 4 then s 4 else if j = 5 then s 5 else if j = 6 then s 6 else if j = 7 then s 7 else r j) = _
  split_ifs <;> first | rfl | omega | (subst_vars; rfl)

macro "ge_region_apply" : tactic => `(tactic| simp only [region_pt])

/-! `toNat` of 64-bit arithmetic that provably does not wrap (side conditions discharged from the path conditions): element
  counts `n * sizeof(Element) / sizeof(Element)`, `size - remaining`, … become plain `Nat` terms once, before the case analysis
  on the word index, instead of `% 2^64` terms that `omega` would have to eliminate in every case. -/

theorem nw_cnt8 (x : BitVec 64) (h : x.toNat < 2305843009213693952) : (x * 8#64).toNat / 8 = x.toNat := by
  rw [BitVec.toNat_mul]
  show x.toNat * 8 % 18446744073709551616 / 8 = x.toNat
  omega

theorem nw_sub (a b : BitVec 64) (h : b.toNat ≤ a.toNat) : (a - b).toNat = a.toNat - b.toNat := by
  rw [BitVec.toNat_sub]
  omega

theorem nw_add (a b : BitVec 64) (h : a.toNat + b.toNat < 18446744073709551616) : (a + b).toNat = a.toNat + b.toNat := by
  rw [BitVec.toNat_add]
  show (a.toNat + b.toNat) % 18446744073709551616 = _
  omega

/-- equality of two regions, pointwise (closes the goal or fails) -/
macro "ge_region" : tactic =>
  `(tactic| (show (_ : Region) = _
             first
             | with_reducible rfl
             | (ge_cond_norm <;>
                ((try simp (disch := first | bv_omega | skip) only [nw_cnt8, nw_sub, nw_add, BitVec.reduceMul, BitVec.reduceSub,
                  BitVec.reduceAdd, BitVec.reduceToNat, Nat.reduceDiv, Nat.reduceSub, Nat.reduceAdd, Nat.reduceMul])
                 (try simp only [bitvec_to_nat] at *) <;>
                 (apply Region.ext'
                  intro j
                  ge_region_apply
                  split_ifs <;> first | with_reducible rfl | omega | (ge_congr_args <;> omega))))))

open Lean Elab Tactic Meta in
/-- succeeds iff the goal is `l = r` where `l` and `r` are applications of the constant `c` (syntactic check, no unification) -/
elab "ge_eq_heads " c:ident : tactic => do
  let n ← realizeGlobalConstNoOverloadWithInfo c
  let t := (← instantiateMVars (← (← getMainGoal).getType)).cleanupAnnotations
  match t.eq? with
  | some (_, l, r) =>
    unless l.getAppFn.isConstOf n && r.getAppFn.isConstOf n do throwError "ge_eq_heads: different heads"
  | none => throwError "ge_eq_heads: not an equation"

open Lean Elab Tactic Meta in
/-- components of a right-nested tuple `(a, b, c, …)` -/
private partial def tupleComponents (e : Expr) : List Expr :=
  if e.isAppOfArity ``Prod.mk 4 then e.getArg! 2 :: tupleComponents (e.getArg! 3) else [e]

open Lean Elab Tactic Meta in
/-- projection number `i` (of `n`) of a right-nested tuple -/
private def tupleProj (t : Expr) (i n : Nat) : MetaM Expr := do
  let mut e := t
  for _ in [0:i] do
    e ← mkAppM ``Prod.snd #[e]
  if i + 1 < n then mkAppM ``Prod.fst #[e] else pure e

open Lean Elab Tactic Meta in
/-- goal `(Loop.whileM F fuel s0).bind K = (Loop.whileM G fuel t0).bind K'` where the initial tuples `s0`, `t0` have the
    same components in a DIFFERENT order: find the rearrangement `ψ` from the initial tuples and reduce the goal to one
    step (`F (ψ t) = ψ-image of G t`) and the continuation (`K (ψ t) = K' t`).  Fails (so that the plain congruence rule
    is used) when the tuples are syntactically equal or do not have the same components. -/
elab "ge_while_perm" : tactic => do
  let g ← getMainGoal
  g.withContext do
    let tgt := (← instantiateMVars (← g.getType)).cleanupAnnotations
    let some (_, l, r) := tgt.eq? | throwError "ge_while_perm: not an equation"
    unless l.isAppOfArity ``Option.bind 4 && r.isAppOfArity ``Option.bind 4 do throwError "ge_while_perm: not binds"
    let wl := l.getArg! 2
    let wr := r.getArg! 2
    unless wl.isAppOfArity ``Loop.whileM 4 && wr.isAppOfArity ``Loop.whileM 4 do throwError "ge_while_perm: not loops"
    let s0 := wl.getArg! 3
    let t0 := wr.getArg! 3
    if s0 == t0 then throwError "ge_while_perm: same initial state"
    let cs := (tupleComponents s0).toArray
    let ct := (tupleComponents t0).toArray
    unless cs.size == ct.size && cs.size > 1 do throwError "ge_while_perm: different number of components"
    let τ ← inferType t0
    let mut used : Array Bool := Array.replicate ct.size false
    let mut perm : Array Nat := #[]
    for c in cs do
      let mut found := none
      for j in [0:ct.size] do
        if found.isNone && !used[j]! && ct[j]! == c then found := some j
      match found with
      | some j => used := used.set! j true; perm := perm.push j
      | none => throwError "ge_while_perm: component {c} of the generated initial state not found in the reference one"
    let ψ ← withLocalDeclD `t τ fun t => do
      let mut comps : Array Expr := #[]
      for j in perm do
        comps := comps.push (← tupleProj t j ct.size)
      let mut body := comps[comps.size - 1]!
      for k in [0:comps.size - 1] do
        body ← mkAppM ``Prod.mk #[comps[comps.size - 2 - k]!, body]
      mkLambdaFVars #[t] body
    let ψstx ← Term.exprToSyntax ψ
    evalTactic (← `(tactic| refine bind_whileM_perm $ψstx rfl (fun _ => ?_) (fun _ => ?_)))

/-- one step of the parallel walk -/
macro "ge_step" : tactic =>
  `(tactic| first
      | with_reducible rfl
      | (dsimp only [Function.comp_apply, Option.map_some, Option.map_none, Option.bind_some, Option.bind_none])
      | (simp only [bv_sub_sub_cancel, bv_add_sub_cancel_left, Option.map_bind])
      | (split_ifs <;> try ge_contra)
      | ge_word
      | ge_nat
      | ge_region
      | ge_while_perm
      | (ge_eq_heads Option.bind; refine optBind_congr ?_ (fun _ => ?_))
      | (ge_eq_heads Loop.rangeM; refine rangeM_congr_mem ?_ ?_ ?_ (fun _ _ _ _ => ?_))
      | (ge_eq_heads Loop.range; refine range_congr ?_ ?_ ?_ (fun _ _ => ?_))
      | (ge_eq_heads Loop.whileM; refine whileM_congr (fun _ => ?_) ?_)
      | ge_congr_args
      | (funext _))

/-- generated function = reference text, extensionally (both sides already unfolded) -/
macro "gen_equiv" : tactic => `(tactic| focus ((repeat' ge_step); done))

end GenEquiv
end GoldilocksVerif
