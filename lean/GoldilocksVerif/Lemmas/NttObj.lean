/-
  C19 layer: the only mutable state of the transform object is the shift-power cache `rcache`.
  Nothing but `scaleFactor … extend=true` reads it, `computeR` does not depend on it, `extendPol` refreshes it
  whenever the cached N differs.  Histories of calls (`runCalls`) on a shared object.
-/
import GoldilocksVerif.Lemmas.NttArr

namespace GoldilocksVerif.Model.Ntt

/-- the object with another cache content -/
def setCache (o : Obj) (c : Option (Nat × Array W × Array W)) : Obj := { o with rcache := c }

/-- the object as constructed: no cache -/
def Obj.base (o : Obj) : Obj := setCache o none

/-- cache invariant: the cache, when present, is what `computeR` builds for the N it is keyed with -/
def Obj.wf (o : Obj) : Prop := ∀ c, o.rcache = some c → c = computeR o c.1

theorem base_of_fresh (o : Obj) (h : o.rcache = none) : o.base = o := by
  cases o; simp [Obj.base, setCache] at *; exact h.symm

theorem wf_of_fresh (o : Obj) (h : o.rcache = none) : o.wf := by
  intro c hc; rw [h] at hc; cases hc

theorem mkObj_fresh (m e : Nat) (o : Obj) (h : mkObj m e = some o) : o.rcache = none := by
  unfold mkObj at h
  by_cases h0 : m = 0
  · rw [if_pos h0] at h; cases h; rfl
  · rw [if_neg h0] at h
    dsimp only at h
    by_cases h1 : (if log2 m ≤ 1 then 1 else min (log2 m) 32) < log2 m
    · rw [if_pos h1] at h; cases h
    · rw [if_neg h1] at h; cases h; rfl

theorem setCache_base (o : Obj) (c) : (setCache o c).base = o.base := rfl
theorem setCache_setCache (o : Obj) (c c') : setCache (setCache o c) c' = setCache o c' := rfl
theorem computeR_setCache (o : Obj) (c) (n : Nat) : computeR (setCache o c) n = computeR o n := rfl
theorem computeR_fst (o : Obj) (n : Nat) : (computeR o n).1 = n := rfl

/-! nothing but `scaleFactor` with `extend = true` reads the cache -/

theorem root_setCache (o : Obj) (c) (dp idx : Nat) : root (setCache o c) dp idx = root o dp idx := rfl

theorem scaleFactor_setCache (o : Obj) (c) (dp dsty : Nat) :
    scaleFactor (setCache o c) false dp dsty = scaleFactor o false dp dsty := rfl

theorem reversePermutation_setCache (o : Obj) (c) (dst src : Buf) (ip : Bool) (size oc nc nca : Nat) :
    reversePermutation (setCache o c) dst src ip size oc nc nca = reversePermutation o dst src ip size oc nc nca := rfl

theorem stageStep_setCache (o : Obj) (c) (s si b bs nc rs re rb : Nat) :
    stageStep (setCache o c) s si b bs nc rs re rb = stageStep o s si b bs nc rs re rb := rfl

theorem stage_setCache (o : Obj) (c) (a : Buf) (s si b bs nc rs re rb rm : Nat) :
    stage (setCache o c) a s si b bs nc rs re rb rm = stage o a s si b bs nc rs re rb rm := rfl

theorem batchStages_setCache (o : Obj) (c) (a : Buf) (s sInc b bs nc rs re rb rm : Nat) :
    batchStages (setCache o c) a s sInc b bs nc rs re rb rm = batchStages o a s sInc b bs nc rs re rb rm := rfl

theorem inverseCopy_setCache (o : Obj) (c) (a2 a : Buf) (b bs nB nc size dp : Nat) :
    inverseCopy (setCache o c) a2 a b bs nB nc size dp false = inverseCopy o a2 a b bs nB nc size dp false := rfl

theorem passBatch_setCache (o : Obj) (c) (size dp nc s sInc : Nat) (li : Bool) :
    passBatch (setCache o c) size dp nc s sInc li false = passBatch o size dp nc s sInc li false := by
  funext b st
  unfold passBatch
  simp only [batchStages_setCache, inverseCopy_setCache]

theorem pass_setCache (o : Obj) (c) (size dp nc : Nat) (inv : Bool) :
    pass (setCache o c) size dp nc inv false = pass o size dp nc inv false := by
  funext st p
  unfold pass
  simp only [passBatch_setCache]

theorem nttIters_setCache (o : Obj) (c) (dstB srcB auxB : Buf) (dis : Bool) (size oc nc nca np : Nat) (inv : Bool) :
    nttIters (setCache o c) dstB srcB auxB dis size oc nc nca np inv false
      = nttIters o dstB srcB auxB dis size oc nc nca np inv false := by
  unfold nttIters
  simp only [pass_setCache, reversePermutation_setCache]

theorem nttBlock_setCache (o : Obj) (c) (aux : Buf) (dis : Bool) (size nc np ncb ncr nca : Nat) (inv : Bool) :
    nttBlock (setCache o c) aux dis size nc np ncb ncr nca inv false = nttBlock o aux dis size nc np ncb ncr nca inv false := by
  funext ib st
  unfold nttBlock
  simp only [nttIters_setCache]

/-- `NTT` (not in `extend` mode) does not read the cache -/
theorem ntt_setCache (o : Obj) (c) (mode : DstMode) (dstB srcB : Buf) (size nc np nb : Nat) (inv : Bool) :
    ntt (setCache o c) mode dstB srcB size nc np nb inv false = ntt o mode dstB srcB size nc np nb inv false := by
  unfold ntt nttBlocks
  simp only [nttIters_setCache, nttBlock_setCache]

theorem intt_setCache (o : Obj) (c) (mode : DstMode) (dstB srcB : Buf) (size nc np nb : Nat) :
    intt (setCache o c) mode dstB srcB size nc np nb false = intt o mode dstB srcB size nc np nb false := by
  unfold intt
  simp only [ntt_setCache]

theorem ntt_base (o : Obj) (mode : DstMode) (dstB srcB : Buf) (size nc np nb : Nat) (inv : Bool) :
    ntt o mode dstB srcB size nc np nb inv false = ntt o.base mode dstB srcB size nc np nb inv false :=
  (ntt_setCache o none mode dstB srcB size nc np nb inv).symm

theorem intt_base (o : Obj) (mode : DstMode) (dstB srcB : Buf) (size nc np nb : Nat) :
    intt o mode dstB srcB size nc np nb false = intt o.base mode dstB srcB size nc np nb false :=
  (intt_setCache o none mode dstB srcB size nc np nb).symm

/-! the cache refresh of `extendPol` -/

theorem refreshCache_of_wf (o : Obj) (h : o.wf) (n : Nat) : refreshCache o n = setCache o.base (some (computeR o.base n)) := by
  unfold refreshCache
  cases hc : o.rcache with
  | none => rfl
  | some c =>
    obtain ⟨n0, r, r_⟩ := c
    simp only
    by_cases hn : n0 = n
    · rw [if_pos hn]
      have := h _ hc
      simp only at this
      subst hn
      cases o
      simp only [Obj.base, setCache] at *
      rw [hc, this]
      rfl
    · rw [if_neg hn]; rfl

theorem refreshCache_wf (o : Obj) (h : o.wf) (n : Nat) : (refreshCache o n).wf := by
  rw [refreshCache_of_wf o h n]
  intro c hc
  simp only [setCache, Obj.base] at hc
  cases hc
  rfl

theorem refreshCache_base (o : Obj) (h : o.wf) (n : Nat) : (refreshCache o n).base = o.base := by
  rw [refreshCache_of_wf o h n]; rfl

/-- `extendPol` on an object whose cache satisfies the invariant returns exactly what the cache-free object returns
    (the result buffer AND the new object) -/
theorem extendPol_base (o : Obj) (h : o.wf) (same : Bool) (outB inB : Buf) (nExt n nc np nb : Nat) :
    extendPol o same outB inB nExt n nc np nb = extendPol o.base same outB inB nExt n nc np nb := by
  unfold extendPol
  rw [refreshCache_of_wf o h n, refreshCache_of_wf o.base (wf_of_fresh _ rfl) n]
  rfl

theorem extendPol_wf (o : Obj) (h : o.wf) (same : Bool) (outB inB : Buf) (nExt n nc np nb : Nat) (o' : Obj) (out : Buf)
    (e : extendPol o same outB inB nExt n nc np nb = .ok (o', out)) : o'.wf ∧ o'.base = o.base := by
  have key : o' = refreshCache o n := by
    unfold extendPol at e
    cases h1 : mkObj nExt (nExt / n) with
    | none => rw [h1] at e; cases e
    | some oext =>
      rw [h1] at e
      dsimp only at e
      cases h2 : intt (refreshCache o n) (if same = true then DstMode.same else DstMode.other) outB inB n nc np nb true with
      | error _ => rw [h2] at e; cases e
      | ok r1 =>
        rw [h2] at e
        obtain ⟨out1, x⟩ := r1
        dsimp only at e
        cases h3 : ntt oext DstMode.same #[] out1 nExt nc np nb false false with
        | error _ => rw [h3] at e; cases e
        | ok r2 =>
          rw [h3] at e
          obtain ⟨out2, y⟩ := r2
          dsimp only at e
          cases e
          rfl
  rw [key]
  exact ⟨refreshCache_wf o h n, refreshCache_base o h n⟩

/-! ### histories of calls on one object -/

/-- one call of the public interface -/
inductive Call where
  | ntt (mode : DstMode) (dstB srcB : Buf) (size ncols nphase nblock : Nat)
  | intt (mode : DstMode) (dstB srcB : Buf) (size ncols nphase nblock : Nat)
  | extendPol (same : Bool) (outB inB : Buf) (nExt n ncols nphase nblock : Nat)

/-- run one call: the object afterwards and what the caller observes (abort, or destination and source contents) -/
def Call.run (o : Obj) : Call → Obj × Except String (Buf × Buf)
  | .ntt mode dstB srcB size ncols nphase nblock => (o, Ntt.ntt o mode dstB srcB size ncols nphase nblock false false)
  | .intt mode dstB srcB size ncols nphase nblock => (o, Ntt.intt o mode dstB srcB size ncols nphase nblock false)
  | .extendPol same outB inB nExt n ncols nphase nblock =>
    match Ntt.extendPol o same outB inB nExt n ncols nphase nblock with
    | .ok (o', out) => (o', .ok (out, if same then out else inB))
    | .error e => (o, .error e)

/-- a history of calls issued on ONE object, the object state threaded through -/
def runCalls : Obj → List Call → List (Except String (Buf × Buf))
  | _, [] => []
  | o, c :: cs => (c.run o).2 :: runCalls (c.run o).1 cs

theorem Call.run_base (o : Obj) (h : o.wf) (c : Call) :
    (c.run o).2 = (c.run o.base).2 ∧ (c.run o).1.wf ∧ (c.run o).1.base = o.base := by
  cases c with
  | ntt mode dstB srcB size ncols nphase nblock => exact ⟨ntt_base .., h, rfl⟩
  | intt mode dstB srcB size ncols nphase nblock => exact ⟨intt_base .., h, rfl⟩
  | extendPol same outB inB nExt n ncols nphase nblock =>
    have e := extendPol_base o h same outB inB nExt n ncols nphase nblock
    simp only [Call.run]
    rw [← e]
    cases hr : Ntt.extendPol o same outB inB nExt n ncols nphase nblock with
    | error err => exact ⟨rfl, h, rfl⟩
    | ok r =>
      obtain ⟨o', out⟩ := r
      exact ⟨rfl, extendPol_wf o h same outB inB nExt n ncols nphase nblock o' out hr⟩

theorem runCalls_base (cs : List Call) : ∀ (o : Obj), o.wf → runCalls o cs = cs.map (fun c => (c.run o.base).2) := by
  induction cs with
  | nil => intro o _; rfl
  | cons c cs ih =>
    intro o h
    obtain ⟨h1, h2, h3⟩ := Call.run_base o h c
    simp only [runCalls, List.map_cons]
    rw [h1, ih _ h2, h3]

end GoldilocksVerif.Model.Ntt
