/-
  Locality of the translated scalar permutation in the call pattern of `linear_hash_seq`
  (`hash_full_result_seq(state, state)`, Gen.LinearHashGen.Pos_hash_full_result_seq_al_state_input): its first twelve output
  words are a function of its first twelve input words.  This discharges the hypothesis `hP` of the bridge theorem of
  Lemmas/BridgeSponge.lean for `linear_hash_seq`, with `perm := permSeqList` (run the translated permutation on a
  12-element list).
-/
import GoldilocksVerif.Gen.LinearHashGen
import GoldilocksVerif.Lemmas.BridgeSponge

namespace GoldilocksVerif
open Gen.PosScalar Gen.LinearHashGen

/-- case split over the twelve state words (own copy: importing Lemmas/PosSpecL.lean would pull Mathlib's order library into
    Props/C08.lean and thereby into Props/C18.lean, whose existing proofs must keep their environment) -/
theorem br_forall_lt_12 (p : Nat → Prop) (h0 : p 0) (h1 : p 1) (h2 : p 2) (h3 : p 3) (h4 : p 4) (h5 : p 5) (h6 : p 6)
    (h7 : p 7) (h8 : p 8) (h9 : p 9) (h10 : p 10) (h11 : p 11) : ∀ i, i < 12 → p i := by
  intro i hi
  match i, hi with
  | 0, _ => exact h0
  | 1, _ => exact h1
  | 2, _ => exact h2
  | 3, _ => exact h3
  | 4, _ => exact h4
  | 5, _ => exact h5
  | 6, _ => exact h6
  | 7, _ => exact h7
  | 8, _ => exact h8
  | 9, _ => exact h9
  | 10, _ => exact h10
  | 11, _ => exact h11
  | n + 12, h => omega

/-- agreement on the first twelve words -/
def Eq12 (s s' : Region) : Prop := ∀ i, i < 12 → s i = s' i

theorem Eq12.words {s s' : Region} (h : Eq12 s s') :
    s 0 = s' 0 ∧ s 1 = s' 1 ∧ s 2 = s' 2 ∧ s 3 = s' 3 ∧ s 4 = s' 4 ∧ s 5 = s' 5 ∧ s 6 = s' 6 ∧ s 7 = s' 7 ∧ s 8 = s' 8 ∧
    s 9 = s' 9 ∧ s 10 = s' 10 ∧ s 11 = s' 11 :=
  ⟨h 0 (by omega), h 1 (by omega), h 2 (by omega), h 3 (by omega), h 4 (by omega), h 5 (by omega), h 6 (by omega),
   h 7 (by omega), h 8 (by omega), h 9 (by omega), h 10 (by omega), h 11 (by omega)⟩

theorem add_congr (x x' c : Region) (h : Eq12 x x') : Eq12 (Pos_add_ x c) (Pos_add_ x' c) := by
  obtain ⟨h0, h1, h2, h3, h4, h5, h6, h7, h8, h9, h10, h11⟩ := h.words
  refine br_forall_lt_12 _ ?_ ?_ ?_ ?_ ?_ ?_ ?_ ?_ ?_ ?_ ?_ ?_ <;>
    simp only [Pos_add_, Region.set_apply, ↓reduceIte, Nat.reduceEqDiff, h0, h1, h2, h3, h4, h5, h6, h7, h8, h9, h10, h11]

theorem pow7_congr (x x' : Region) (h : Eq12 x x') : Eq12 (Pos_pow7_ x) (Pos_pow7_ x') := by
  obtain ⟨h0, h1, h2, h3, h4, h5, h6, h7, h8, h9, h10, h11⟩ := h.words
  refine br_forall_lt_12 _ ?_ ?_ ?_ ?_ ?_ ?_ ?_ ?_ ?_ ?_ ?_ ?_ <;>
    simp only [Pos_pow7_, Region.set_apply, ↓reduceIte, Nat.reduceEqDiff, h0, h1, h2, h3, h4, h5, h6, h7, h8, h9, h10, h11]

theorem pow7add_congr (x x' c : Region) (h : Eq12 x x') : Eq12 (Pos_pow7add_ x c) (Pos_pow7add_ x' c) := by
  obtain ⟨h0, h1, h2, h3, h4, h5, h6, h7, h8, h9, h10, h11⟩ := h.words
  refine br_forall_lt_12 _ ?_ ?_ ?_ ?_ ?_ ?_ ?_ ?_ ?_ ?_ ?_ ?_ <;>
    simp only [Pos_pow7add_, Region.set_apply, ↓reduceIte, Nat.reduceEqDiff, h0, h1, h2, h3, h4, h5, h6, h7, h8, h9, h10, h11]

theorem mvp_congr (x x' m : Region) (h : Eq12 x x') : Eq12 (Pos_mvp_ x m) (Pos_mvp_ x' m) := by
  obtain ⟨h0, h1, h2, h3, h4, h5, h6, h7, h8, h9, h10, h11⟩ := h.words
  refine br_forall_lt_12 _ ?_ ?_ ?_ ?_ ?_ ?_ ?_ ?_ ?_ ?_ ?_ ?_ <;>
    simp only [Pos_mvp_, Region.set_apply, Region.copyN_apply, ↓reduceIte, Nat.reduceEqDiff, Nat.reduceLT, Nat.reduceAdd,
      h0, h1, h2, h3, h4, h5, h6, h7, h8, h9, h10, h11]

theorem loop_body_congr (r : Nat) (x x' : Region) (h : Eq12 x x') :
    Eq12 (Pos_hash_full_result_seq_al_state_input_loop1 r x) (Pos_hash_full_result_seq_al_state_input_loop1 r x') := by
  obtain ⟨h0, h1, h2, h3, h4, h5, h6, h7, h8, h9, h10, h11⟩ := h.words
  refine br_forall_lt_12 _ ?_ ?_ ?_ ?_ ?_ ?_ ?_ ?_ ?_ ?_ ?_ ?_ <;>
    simp only [Pos_hash_full_result_seq_al_state_input_loop1, Pos_dot_, Pos_prod_, Pos_add_, Region.set_apply,
      Region.shift_apply, ↓reduceIte, Nat.reduceEqDiff, h0, h1, h2, h3, h4, h5, h6, h7, h8, h9, h10, h11]

theorem rangeAux_congr (f : Nat → Region → Region) (hf : ∀ i s s', Eq12 s s' → Eq12 (f i s) (f i s')) :
    ∀ (n i : Nat) (s s' : Region), Eq12 s s' → Eq12 (Loop.rangeAux 1 f n i s) (Loop.rangeAux 1 f n i s') := by
  intro n
  induction n with
  | zero => intro i s s' h; exact h
  | succ n ih => intro i s s' h; exact ih (i + 1) _ _ (hf i s s' h)

theorem range_congr (f : Nat → Region → Region) (hf : ∀ i s s', Eq12 s s' → Eq12 (f i s) (f i s')) (lo hi : Nat)
    (s s' : Region) (h : Eq12 s s') : Eq12 (Loop.range lo hi 1 s f) (Loop.range lo hi 1 s' f) :=
  rangeAux_congr f hf _ _ _ _ h

theorem copy12_congr (s s' : Region) (h : Eq12 s s') : Eq12 (Region.copyN s s 12) (Region.copyN s' s' 12) := by
  intro i hi
  simp only [Region.copyN_apply, hi, if_true]
  exact h i hi

set_option maxRecDepth 16384 in
/-- the first twelve output words of the translated scalar permutation depend only on the first twelve input words -/
theorem perm_seq_local (s s' : Region) (h : Eq12 s s') :
    Eq12 (Pos_hash_full_result_seq_al_state_input s) (Pos_hash_full_result_seq_al_state_input s') := by
  unfold Pos_hash_full_result_seq_al_state_input
  dsimp only
  -- outermost call first: last full rounds, the 22 partial rounds, first full rounds, the initial memcpy
  apply mvp_congr; apply pow7_congr
  apply mvp_congr; apply pow7add_congr
  apply mvp_congr; apply pow7add_congr
  apply mvp_congr; apply pow7add_congr
  apply range_congr _ loop_body_congr
  apply mvp_congr; apply pow7add_congr
  apply mvp_congr; apply pow7add_congr
  apply mvp_congr; apply pow7add_congr
  apply mvp_congr; apply pow7add_congr
  apply add_congr
  exact copy12_congr _ _ h

/-- the translated scalar permutation as a list function on twelve words -/
def permSeqList (l : List Model.Wd) : List Model.Wd :=
  Region.toList (Pos_hash_full_result_seq_al_state_input (Region.ofList l)) 12

theorem eq12_ofList_toList (s : Region) : Eq12 s (Region.ofList (Region.toList s 12)) := by
  intro i hi
  rw [Region.ofList_apply, List.getD_eq_getElem?_getD, Region.getElem?_toList, if_pos hi]
  rfl

/-- hypothesis `hP` of the bridge for `linear_hash_seq`, discharged -/
theorem perm_seq_hP (s : Region) :
    Region.toList (Pos_hash_full_result_seq_al_state_input s) 12 = permSeqList (Region.toList s 12) := by
  unfold permSeqList
  apply List.ext_getElem?
  intro j
  rw [Region.getElem?_toList, Region.getElem?_toList]
  by_cases hj : j < 12
  · rw [if_pos hj, if_pos hj, perm_seq_local s _ (eq12_ofList_toList s) j hj]
  · rw [if_neg hj, if_neg hj]

/-! ### the call pattern of the Merkle builders: `hash_seq(out, pol_input)` -/

theorem loop_body2_congr (r : Nat) (x x' : Region) (h : Eq12 x x') :
    Eq12 (Pos_hash_full_result_seq_loop1 r x) (Pos_hash_full_result_seq_loop1 r x') := by
  obtain ⟨h0, h1, h2, h3, h4, h5, h6, h7, h8, h9, h10, h11⟩ := h.words
  refine br_forall_lt_12 _ ?_ ?_ ?_ ?_ ?_ ?_ ?_ ?_ ?_ ?_ ?_ ?_ <;>
    simp only [Pos_hash_full_result_seq_loop1, Pos_dot_, Pos_prod_, Pos_add_, Region.set_apply,
      Region.shift_apply, ↓reduceIte, Nat.reduceEqDiff, h0, h1, h2, h3, h4, h5, h6, h7, h8, h9, h10, h11]

theorem copy12_in_congr (st s s' : Region) (h : Eq12 s s') : Eq12 (Region.copyN st s 12) (Region.copyN st s' 12) := by
  intro i hi
  simp only [Region.copyN_apply, hi, if_true]
  exact h i hi

set_option maxRecDepth 16384 in
/-- `hash_full_result_seq(state, input)`: the first twelve output words depend only on the first twelve input words -/
theorem perm_seq2_local (st s s' : Region) (h : Eq12 s s') :
    Eq12 (Pos_hash_full_result_seq st s) (Pos_hash_full_result_seq st s') := by
  unfold Pos_hash_full_result_seq
  dsimp only
  apply mvp_congr; apply pow7_congr
  apply mvp_congr; apply pow7add_congr
  apply mvp_congr; apply pow7add_congr
  apply mvp_congr; apply pow7add_congr
  apply range_congr _ loop_body2_congr
  apply mvp_congr; apply pow7add_congr
  apply mvp_congr; apply pow7add_congr
  apply mvp_congr; apply pow7add_congr
  apply mvp_congr; apply pow7add_congr
  apply add_congr
  exact copy12_in_congr _ _ _ h

/-- the translated `hash_seq` as a list function: four digest words of twelve input words -/
def nodeSeqList (l : List Model.Wd) : List Model.Wd :=
  Region.toList (Pos_hash_full_result_seq Region.zero (Region.ofList l)) 4

/-- `hash_seq(out, inp)`: out[0..3] = `nodeSeqList` of inp[0..11]; nothing else of `out` is written -/
theorem hash_seq_node (out inp : Region) :
    Region.toList (Pos_hash_seq out inp) 4 = nodeSeqList (Region.toList inp 12) ∧
    ∀ k, 4 ≤ k → (Pos_hash_seq out inp) k = out k := by
  constructor
  · unfold nodeSeqList
    apply List.ext_getElem?
    intro j
    rw [Region.getElem?_toList, Region.getElem?_toList]
    by_cases hj : j < 4
    · rw [if_pos hj, if_pos hj]
      have e : (Pos_hash_seq out inp) j = (Pos_hash_full_result_seq Region.zero inp) j := by
        simp only [Pos_hash_seq, Region.copyN_apply, hj, if_true]
      rw [e, perm_seq2_local Region.zero inp _ (eq12_ofList_toList inp) j (by omega)]
    · rw [if_neg hj, if_neg hj]
  · intro k hk
    simp only [Pos_hash_seq, Region.copyN_apply, show ¬ k < 4 from by omega, if_false]

/-- digests have four words -/
theorem linearHash_length (perm : List Model.Wd → List Model.Wd) (hp : ∀ s, 4 ≤ (perm s).length) (input : List Model.Wd) :
    (Model.linearHash perm input).length = 4 := by
  unfold Model.linearHash
  by_cases h : input.length ≤ 4
  · simp only [h, if_true, List.length_append, Model.zeros, List.length_replicate]; omega
  · simp only [h, if_false]
    have : ∀ fuel r st, 4 ≤ st.length → 4 ≤ (Model.lhLoop perm input input.length fuel r st).length := by
      intro fuel
      induction fuel with
      | zero => intro r st hs; simpa [Model.lhLoop] using hs
      | succ f ih =>
        intro r st hs
        unfold Model.lhLoop
        by_cases hr : r = 0
        · simp only [hr, if_true]; exact hs
        · simp only [hr, if_false]; exact ih _ _ (hp _)
    have h12 := this input.length input.length (Model.zeros 12) (by simp [Model.zeros])
    rw [List.length_take]; omega

theorem permSeqList_length (l : List Model.Wd) : (permSeqList l).length = 12 := Region.length_toList _ _
theorem nodeSeqList_length (l : List Model.Wd) : (nodeSeqList l).length = 4 := Region.length_toList _ _

end GoldilocksVerif
