/-
  IN-BOUNDS ACCESSES of the generated `NTT_iters`: the butterfly column loop, one butterfly of one stage (offsets of the two
  rows, index of the twiddle factor in `roots`), one stage, all stages of a batch, the transposing copy, the reflecting /
  scaling copies of the last inverse pass (`r_[dsty]`, `powTwoInv[domainPow]`), one batch, one pass (schedule arithmetic on
  64-bit words), the pass loop with its pointer ping-pong (every reachable state), `reversePermutation` into the buffer
  the phase parity selects.  Pointers may have any offset; the buffers must be distinct blocks.  The predicates `*.Safe`
  are DERIVED from the generated definitions (Lemmas/HeapSafeDefs.lean); the index arithmetic re-uses the `bv` lemmas of
  the bridge theorems (Lemmas/BridgeNtt*.lean).
-/
import GoldilocksVerif.Lemmas.HeapSafeRevPerm
import GoldilocksVerif.Lemmas.BridgeNttItersTop
open GoldilocksVerif Gen.NttGen GoldilocksVerif.BridgeNtt
namespace GoldilocksVerif.HeapSafe

theorem InB_base {h : Heap} {p : Ptr} {i : Nat} (x : p.off + i < h.ext p.blk) : h.InB p i := x

/-- the extents `NTT_iters` works with: two distinct buffers of `N` rows of `NC` words (`N = 2^K`, `1 ≤ K ≤ 30`), the
    tables of the object (`roots`: 2^s words, `powTwoInv`: s+1 words, `K ≤ s ≤ 32`; `r_`: N words when `extend`) -/
structure IShape (st : Heap) (obj : NTT_Goldilocks) (a a2 : Ptr) (N NC K : Nat) (extend : Bool) : Prop where
  hK : K ≤ 30
  hN : N = 2 ^ K
  hbytes : N * NC * 8 < 2 ^ 64
  ha : a.off + N * NC ≤ st.ext a.blk
  ha2 : a2.off + N * NC ≤ st.ext a2.blk
  hne : a.blk ≠ a2.blk
  hsK : K ≤ obj.s.toNat
  hs32 : obj.s.toNat ≤ 32
  hroots : obj.roots.off + 2 ^ obj.s.toNat ≤ st.ext obj.roots.blk
  hpti : obj.powTwoInv.off + obj.s.toNat + 1 ≤ st.ext obj.powTwoInv.blk
  hr_ : extend = true → obj.r_.off + N ≤ st.ext obj.r_.blk

theorem IShape.same {st st' : Heap} {self : NTT_Goldilocks} {a a2 : Ptr} {N NC K : Nat} {extend : Bool}
    (h : IShape st self a a2 N NC K extend) (hs : Heap.Same st st') : IShape st' self a a2 N NC K extend := by
  obtain ⟨h1, h2, h3, h4, h5, h6, h7, h8, h9, h10, h11⟩ := h
  refine ⟨h1, h2, h3, ?_, ?_, h6, h7, h8, ?_, ?_, ?_⟩
  · rw [hs.2]; exact h4
  · rw [hs.2]; exact h5
  · rw [hs.2]; exact h9
  · rw [hs.2]; exact h10
  · rw [hs.2]; exact h11

theorem IShape.swap {st : Heap} {self : NTT_Goldilocks} {a a2 : Ptr} {N NC K : Nat} {extend : Bool}
    (h : IShape st self a a2 N NC K extend) : IShape st self a2 a N NC K extend := by
  obtain ⟨h1, h2, h3, h4, h5, h6, h7, h8, h9, h10, h11⟩ := h
  exact ⟨h1, h2, h3, h5, h4, fun e => h6 e.symm, h7, h8, h9, h10, h11⟩

/-- one access `p[i]`, extents read through a heap of the same shape, arithmetic by `bv_side` -/
macro "inb_close " h:term : tactic =>
  `(tactic| (unfold Heap.InB; simp only [Heap.ext_set, Heap.ext_copy, Heap.ext_zero, ($h).2]; bv_side))

/-- the generated `root(domainPow, idx)` reads inside `roots` (2^s words) -/
theorem root_safe (st : Heap) (self : NTT_Goldilocks) (dp j : Nat) (hdp : dp ≤ self.s.toNat) (hs32 : self.s.toNat ≤ 32)
    (hj : j < 2 ^ dp) (hroots : self.roots.off + 2 ^ self.s.toNat ≤ st.ext self.roots.blk) :
    NTT_root.Safe st self (BitVec.setWidth 32 (bv dp)) (bv j) := by
  have hp : 2 ^ dp ≤ 2 ^ 32 := Nat.pow_le_pow_right (by omega) (by omega)
  have edp : (BitVec.setWidth 32 (bv dp)).toNat = dp := by
    rw [BitVec.toNat_setWidth, bv_toNat _ (by omega)]
    exact Nat.mod_eq_of_lt (by omega)
  have h1 : (self.s - BitVec.setWidth 32 (bv dp)).toNat = self.s.toNat - dp := by
    rw [BitVec.toNat_sub, edp]
    have := self.s.isLt
    omega
  have hle : j * 2 ^ (self.s.toNat - dp) < 2 ^ self.s.toNat := by
    have h2 : 2 ^ dp * 2 ^ (self.s.toNat - dp) = 2 ^ self.s.toNat := by
      rw [← Nat.pow_add]; congr 1; omega
    have hpos : 0 < 2 ^ (self.s.toNat - dp) := Nat.pow_pos (by omega)
    calc j * 2 ^ (self.s.toNat - dp) < 2 ^ dp * 2 ^ (self.s.toNat - dp) := Nat.mul_lt_mul_of_pos_right hj hpos
      _ = 2 ^ self.s.toNat := h2
  have h3 : 2 ^ self.s.toNat ≤ 2 ^ 32 := Nat.pow_le_pow_right (by omega) hs32
  have h2 : (bv j <<< (self.s.toNat - dp)).toNat = j * 2 ^ (self.s.toNat - dp) := by
    rw [BitVec.toNat_shiftLeft, Nat.shiftLeft_eq, bv_toNat _ (by omega)]
    exact Nat.mod_eq_of_lt (by omega)
  unfold NTT_root.Safe
  zeta_goal
  rw [h1, h2]
  exact InB_base (by omega)

/-! ### one batch of one pass

  `NTT_NTT_iters_loop9.Safe` is named in the statement (it is a property statement of C18: the body of the OpenMP batch loop);
  the loops INSIDE the batch — stages, butterflies, columns, the three copies — are handled where they occur, after
  unfolding, so that nothing here depends on the parameter lists the translator gives their lifted bodies (a hoisted
  `b * batchSize`, `batchSize >> 1` or `powTwoInv[domainPow]`, swapped declarations, `x * 2` / `x + x`). -/

theorem passBatch_safe (st : Heap) (self : NTT_Goldilocks) (a a2 : Ptr) (N NC K MBP S sInc nB b : Nat) (inverse extend : Bool)
    (sh : IShape st self a a2 N NC K extend) (hS1 : 1 ≤ S) (hSleK : S ≤ K) (hSK : S + sInc ≤ K + 1)
    (hnB : nB = N / 2 ^ sInc) (hb : b < nB) :
    NTT_NTT_iters_loop9.Safe (bv N) (bv NC) inverse extend self a a2 (bv K) (bv MBP) (bv S) (bv sInc) (bv (S - 1))
      (bv (K - 1)) (bv (2 ^ (S - 1))) (bv (2 ^ (K - S) - 1)) (bv (2 ^ sInc)) (bv nB) b st := by
  obtain ⟨hK, hN, hbytes, ha, ha2, hne, hsK, hs32, hroots, hpti, hr_⟩ := sh
  have hN30 : N ≤ 2 ^ 30 := by rw [hN]; exact Nat.pow_le_pow_right (by omega) hK
  have hNNC : N * NC < 2 ^ 64 := by omega
  have hN0 : 0 < N := by rw [hN]; exact Nat.pow_pos (by omega)
  have hNC64 : NC < 2 ^ 64 := by
    have : NC ≤ N * NC := Nat.le_mul_of_pos_left _ hN0
    omega
  have hNC8 : NC * 8 < 2 ^ 64 := by
    have : NC ≤ N * NC := Nat.le_mul_of_pos_left _ hN0
    omega
  have hsIK : sInc ≤ K := by omega
  have hBN : 2 ^ sInc * nB = N := by
    rw [hnB, hN]
    have : 2 ^ K = 2 ^ sInc * 2 ^ (K - sInc) := by rw [← Nat.pow_add]; congr 1; omega
    rw [this, Nat.mul_div_cancel_left _ (Nat.pow_pos (by omega))]
  have hbB : b * 2 ^ sInc + 2 ^ sInc ≤ N := by
    have := mul_le_of_lt b nB (2 ^ sInc) hb
    rw [Nat.mul_comm nB] at this
    omega
  have hKS : K - 1 - (S - 1) = K - S := by omega
  have hB64 : 2 ^ sInc < 2 ^ 64 := Nat.pow_lt_pow_right (by omega) (by omega)
  have hnB64 : nB < 2 ^ 64 := by
    rw [hnB]; exact Nat.lt_of_le_of_lt (Nat.div_le_self _ _) (by omega)
  unfold NTT_NTT_iters_loop9.Safe
  zeta_goal
  rw [bv_toNat sInc (by omega)]
  refine ⟨?_, fun y hy => ?_⟩
  · -- all stages of the batch
    refine Loop.RangeAll.of_same (fun i s _ => by loop_same) (fun si st1 _ hsi hst1 => ?_)
    have hU : 0 < 2 ^ si := Nat.pow_pos (by omega)
    have hp1 : 2 ^ (S + si) < 2 ^ 64 := Nat.pow_lt_pow_right (by omega) (by omega)
    have hp2 : 2 ^ si < 2 ^ 64 := Nat.pow_lt_pow_right (by omega) (by omega)
    have hp3 : 2 ^ si * 2 ≤ 2 ^ sInc := by
      rw [← Nat.pow_succ]; exact Nat.pow_le_pow_right (by omega) (by omega)
    unfold_loops
    zeta_goal
    simp (disch := bv_side) only [bv_add, bv_mul, bv_shr, bv_toNat, shl_one, Nat.pow_one]
    refine Loop.RangeAll.of_same (fun i s _ => by loop_same) (fun i st2 _ hi hst2 => ?_)
    -- one butterfly of one stage: the two rows, the twiddle factor
    have hS12 := hst1.trans hst2
    have hi64 : i < 2 ^ 64 := by omega
    have hbB64 : b * 2 ^ sInc < 2 ^ 64 := by omega
    have hj0 : b * 2 ^ sInc / 2 + i ≤ 2 ^ 31 := by omega
    have hRB : 2 ^ (S - 1) ≤ 2 ^ 30 := Nat.pow_le_pow_right (by omega) (by omega)
    have hj1 : (b * 2 ^ sInc / 2 + i) % 2 ^ (K - S) * 2 ^ (S - 1) + (b * 2 ^ sInc / 2 + i) / 2 ^ (K - S) < 2 ^ 62 := by
      have h1 : (b * 2 ^ sInc / 2 + i) % 2 ^ (K - S) ≤ 2 ^ 31 := Nat.le_trans (Nat.mod_le _ _) hj0
      have h2 : (b * 2 ^ sInc / 2 + i) / 2 ^ (K - S) ≤ 2 ^ 31 := Nat.le_trans (Nat.div_le_self _ _) hj0
      have h3 : (b * 2 ^ sInc / 2 + i) % 2 ^ (K - S) * 2 ^ (S - 1) ≤ 2 ^ 31 * 2 ^ 30 := Nat.mul_le_mul h1 hRB
      omega
    have hM : 2 ^ (S + si) / 2 < 2 ^ 64 := by omega
    have hhalf : 0 < 2 ^ (S + si) / 2 := by
      have : 2 ^ (S + si) = 2 ^ (S + si - 1) * 2 := by
        rw [← Nat.pow_succ]; congr 1; omega
      rw [this, Nat.mul_div_cancel _ (by omega)]
      exact Nat.pow_pos (by omega)
    have hiM : i < 2 ^ (sInc - si - 1) * 2 ^ si := by
      have : 2 ^ sInc / 2 = 2 ^ (sInc - si - 1) * 2 ^ si := by
        rw [pow_stage sInc si hsi, ← Nat.mul_assoc, Nat.mul_div_cancel _ (by omega)]
      omega
    have hrow := row_lt (2 ^ si) (2 ^ (sInc - si - 1)) i hU hiM
    rw [← pow_stage sInc si hsi] at hrow
    have hrow2 := mul_le_of_lt _ _ NC
      (show b * 2 ^ sInc + i / 2 ^ si * (2 ^ si * 2) + i % 2 ^ si + 2 ^ si < N by omega)
    unfold_loops
    zeta_goal
    simp (disch := bv_side) only [bv_add, bv_mul, bv_div, bv_mod, bv_mask, bv_shr, bv_sub, bv_toNat, hKS]
    refine ⟨root_safe st2 self _ _ (by omega) hs32 (Nat.lt_of_lt_of_le (Nat.mod_lt _ hhalf) (Nat.div_le_self _ _))
      (by rw [hS12.2]; exact hroots), ?_⟩
    -- the columns of the butterfly
    refine Loop.RangeAll.of_same (fun k s _ => by loop_same) (fun k st3 _ hk hst3 => ?_)
    have hS13 := hS12.trans hst3
    unfold_loops
    zeta_goal
    simp only [bv_add]
    simp (disch := bv_side) only [bv_toNat]
    repeat' apply And.intro
    all_goals inb_close hS13
  have hsame : Heap.Same st y :=
    OInv.rangeM (P := Heap.Same st) _ _ _ _ _ (Heap.Same.refl _)
      (fun i s hs => OInv.of_same hs (by loop_same)) y hy
  simp (disch := bv_side) only [bv_toNat]
  refine ⟨fun _ => ?_, fun _ => ⟨fun hext => ?_, fun _ => ?_⟩⟩
  · -- the transposing copy: row `b*B + x` of `a` to row `x*nB + b` of `a2`
    refine Loop.RangeAll.of_same (fun x s _ => by loop_same) (fun x st1 _ hx hst1 => ?_)
    have hS1 := hsame.trans hst1
    have h1 : x * nB + b < N := by rw [← hBN]; exact mr_lt' x b (2 ^ sInc) nB hx hb
    have h2 : b * 2 ^ sInc + x < N := by rw [← hBN, Nat.mul_comm (2 ^ sInc) nB]; exact mr_lt' b x nB (2 ^ sInc) hb hx
    have h3 := mul_le_of_lt _ _ NC h1
    have h4 := mul_le_of_lt _ _ NC h2
    unfold_loops
    zeta_goal
    simp only [bv_add, bv_mul]
    simp (disch := bv_side) only [bv_toNat, Nat.mul_div_cancel, Nat.mul_div_cancel_left]
    refine ⟨RangeOK_add (by rw [hS1.2]; bv_side), RangeOK_add (by rw [hS1.2]; bv_side), Or.inr (Or.inl (fun e => hne e.symm))⟩
  · -- the reflecting, scaling copy with the factors `r_[dsty]`
    refine Loop.RangeAll.of_same (fun x s _ => by loop_same) (fun x st1 _ hx hst1 => ?_)
    have hS1 := hsame.trans hst1
    have h1 : x * nB + b < N := by rw [← hBN]; exact mr_lt' x b (2 ^ sInc) nB hx hb
    have h2 : b * 2 ^ sInc + x < N := by rw [← hBN, Nat.mul_comm (2 ^ sInc) nB]; exact mr_lt' b x nB (2 ^ sInc) hb hx
    have hd := inttIdx_lt _ _ h1
    have h3 := mul_le_of_lt _ _ NC hd
    have h4 := mul_le_of_lt _ _ NC h2
    have hr_' := hr_ hext
    unfold_loops
    zeta_goal
    simp only [bv_add, bv_mul]
    simp (disch := bv_side) only [ofU64_bv, intt_idx_gen, toU64_nat, bv_toNat, bv_mul]
    refine Loop.RangeAll.of_same (fun k s _ => by loop_same) (fun k st2 _ hk hst2 => ?_)
    have hS2 := hS1.trans hst2
    unfold_loops
    zeta_goal
    simp only [bv_add]
    simp (disch := bv_side) only [bv_toNat]
    repeat' apply And.intro
    all_goals inb_close hS2
  · -- the same with the factor `powTwoInv[domainPow]` (read in every iteration, or once in front of the loop)
    have hptiK : self.powTwoInv.off + K < st.ext self.powTwoInv.blk := by omega
    repeat' apply And.intro
    try any_goals inb_close hsame
    refine Loop.RangeAll.of_same (fun x s _ => by loop_same) (fun x st1 _ hx hst1 => ?_)
    have hS1 := hsame.trans hst1
    have h1 : x * nB + b < N := by rw [← hBN]; exact mr_lt' x b (2 ^ sInc) nB hx hb
    have h2 : b * 2 ^ sInc + x < N := by rw [← hBN, Nat.mul_comm (2 ^ sInc) nB]; exact mr_lt' b x nB (2 ^ sInc) hb hx
    have hd := inttIdx_lt _ _ h1
    have h3 := mul_le_of_lt _ _ NC hd
    have h4 := mul_le_of_lt _ _ NC h2
    unfold_loops
    zeta_goal
    simp only [bv_add, bv_mul]
    simp (disch := bv_side) only [ofU64_bv, intt_idx_gen, toU64_nat, bv_toNat, bv_mul]
    refine Loop.RangeAll.of_same (fun k s _ => by loop_same) (fun k st2 _ hk hst2 => ?_)
    have hS2 := hS1.trans hst2
    unfold_loops
    zeta_goal
    simp only [bv_add]
    simp (disch := bv_side) only [bv_toNat]
    repeat' apply And.intro
    all_goals inb_close hS2

/-! ### the pass loop -/

section passes
variable (self : NTT_Goldilocks) (N NC K res : Nat) (inverse extend : Bool)

/-- every access of one iteration of the pass loop is in bounds -/
theorem pass_safe (X : Heap) (a a2 tmp : Ptr) (sh : IShape X self a a2 N NC K extend) (mbp s count : Nat) (hs1 : 1 ≤ s)
    (hs64 : s < 2 ^ 63) (hm1 : 1 ≤ mbp) (hm : mbp ≤ 64) (hres : res ≤ 64) (hcount : count ≤ 128) :
    NTT_NTT_iters_loop10.Safe (bv N) (bv NC) inverse extend self (bv K) (bv res) (bv mbp, X, tmp, a2, a, bv s, bv count) := by
  unfold NTT_NTT_iters_loop10.Safe
  zeta_goal
  intro hle
  have hsK : s ≤ K := by
    have := of_decide_eq_true hle
    rwa [le_bv _ _ (by omega) (by have := sh.hK; omega)] at this
  obtain ⟨e1, e2, e3, e4, e5, e6, e7, e8, e9, _, hmb, hsi⟩ := sched_arith N K res mbp s count sh.hK sh.hN hs1 hsK hm1 hm hres hcount
  rw [e1, e2, e3, e4, e5, e6, e7, e8, e9]
  refine Loop.RangeAll.of_same (fun b st _ => by loop_same) (fun b st _ hb hst => ?_)
  exact passBatch_safe st self a a2 N NC K _ s _ _ b inverse extend (sh.same hst) hs1 hsK hsi.1 rfl hb

/-- the next state of the pass loop: a heap of the same shape, the two buffers exchanged -/
theorem pass_next (X : Heap) (a a2 tmp : Ptr) (hK : K ≤ 30) (hN : N = 2 ^ K) (mbp s count : Nat) (hs1 : 1 ≤ s)
    (hs64 : s < 2 ^ 63) (hm1 : 1 ≤ mbp) (hm : mbp ≤ 64) (hres : res ≤ 64) (hcount : count ≤ 128)
    (st' : BitVec 64 × Heap × Ptr × Ptr × Ptr × BitVec 64 × BitVec 64)
    (h : NTT_NTT_iters_loop10 (bv N) (bv NC) inverse extend self (bv K) (bv res) (bv mbp, X, tmp, a2, a, bv s, bv count) =
      some (true, st')) :
    s ≤ K ∧ ∃ X', Heap.Same X X' ∧
      st' = (bv (stepMbp res count mbp), X', a2, a, a2, bv (s + stepMbp res count mbp), bv (count + 1)) := by
  unfold NTT_NTT_iters_loop10 at h
  dsimp only at h
  by_cases hsK : s ≤ K
  · refine ⟨hsK, ?_⟩
    obtain ⟨e1, e2, e3, e4, e5, e6, e7, e8, e9, hle, hmb, hsi⟩ := sched_arith N K res mbp s count hK hN hs1 hsK hm1 hm hres hcount
    rw [if_pos hle, e1, e2, e3, e4, e5, e6, e7, e8, e9] at h
    cases hr : Loop.rangeM 0 (N / 2 ^ stepInc K s (stepMbp res count mbp)) 1 X
        (NTT_NTT_iters_loop9 (bv N) (bv NC) inverse extend self a a2 (bv K) (bv (stepMbp res count mbp)) (bv s)
          (bv (stepInc K s (stepMbp res count mbp))) (bv (s - 1)) (bv (K - 1)) (bv (2 ^ (s - 1))) (bv (2 ^ (K - s) - 1))
          (bv (2 ^ stepInc K s (stepMbp res count mbp))) (bv (N / 2 ^ stepInc K s (stepMbp res count mbp)))) with
    | none => rw [hr] at h; cases h
    | some y =>
      rw [hr] at h
      have hsame : Heap.Same X y :=
        OInv.rangeM (P := Heap.Same X) _ _ _ _ _ (Heap.Same.refl _)
          (fun i s hs => OInv.of_same hs (by loop_same)) y hr
      refine ⟨y, hsame, ?_⟩
      simp only [Option.bind_some, bv_add, bv_one] at h
      injection h with h
      injection h with _ h
      exact h.symm
  · have hle : decide (bv s ≤ bv K) = false := by
      rw [decide_eq_false_iff_not, le_bv _ _ (by omega) (by omega)]; exact hsK
    rw [hle] at h
    simp at h

end passes

/-! ### NTT_iters -/

/-- **in-bounds accesses of `NTT_iters`** (2 ≤ size = 2^K ≤ 2^30, any `nphase`): `reversePermutation` into the buffer the
    parity of the phase count selects, every butterfly, every twiddle read, every transposing / scaling copy of every pass
    stay inside the destination, the scratch buffer `aux`, the source and the object's tables -/
theorem NTT_iters_safe (fuel : Nat) (hf : 64 ≤ fuel) (hp : Heap) (self : NTT_Goldilocks) (dst src aux : Ptr) (N NC K : Nat)
    (oc nca nphase : BitVec 64) (inverse extend : Bool) (hK1 : 1 ≤ K) (hs : 0 < hp.size)
    (sh : IShape hp self (if (dst != Ptr.null) = true then dst else src) aux N NC K extend)
    (hNC : 0 < NC) (hcols : oc.toNat + NC ≤ nca.toNat) (hbytes : N * nca.toNat * 8 < 2 ^ 64)
    (hsrc : src.off + srcRows self (bv N) * nca.toNat ≤ hp.ext src.blk)
    (hd1 : (if (dst != Ptr.null) = true then dst else src) ≠ src → (if (dst != Ptr.null) = true then dst else src).blk ≠ src.blk)
    (hd2 : aux.blk ≠ src.blk) :
    NTT_NTT_iters.Safe fuel hp self dst src (bv N) oc (bv NC) nca nphase aux inverse extend := by
  have hK := sh.hK
  have hN := sh.hN
  have hN30 : N ≤ 2 ^ 30 := by rw [hN]; exact Nat.pow_le_pow_right (by omega) hK
  have hN2 : 2 ≤ N := by
    rw [hN]; calc 2 = 2 ^ 1 := rfl
      _ ≤ 2 ^ K := Nat.pow_le_pow_right (by omega) hK1
  have hNt : (bv N).toNat = N := bv_toNat N (by omega)
  have hNne : bv N ≠ 0#64 := by
    intro e; have := congrArg BitVec.toNat e; rw [hNt] at this; simp at this; omega
  have hlogK : Model.Ntt.log2 N = K := by rw [hN]; exact Nat.log2_two_pow
  have hlog := log2_gen_eq fuel (by unfold log2Fuel; omega) (bv N) hNne
  rw [hNt, hlogK] at hlog
  generalize hnp : Model.Ntt.clampPhase nphase.toNat K = np
  have hnpr : 1 ≤ np ∧ np ≤ K := by
    have := Model.Ntt.clampPhase_range nphase.toNat K
    rw [hnp] at this
    exact ⟨this.1, this.2.1 hK1⟩
  have hdiv : bv K / bv np = bv (K / np) := bv_div _ _ (by omega) (by omega)
  have hmod : bv K % bv np = bv (K % np) := bv_mod _ _ (by omega) (by omega)
  have hmodlt : K % np < np := Nat.mod_lt _ (by omega)
  have hdivle : K / np ≤ K := Nat.div_le_self _ _
  have hres0 : decide (bv (K % np) > 0#64) = decide (K % np > 0) := by
    rw [decide_eq_decide]; show bv 0 < bv (K % np) ↔ _; rw [lt_bv _ _ (by omega) (by omega)]
  have hmbp0 : (if decide (K % np > 0) = true then bv (K / np) + 1#64 else bv (K / np)) =
      bv (K / np + (if K % np > 0 then 1 else 0)) := by
    by_cases h : K % np > 0
    · simp only [h, decide_true, if_true]; rw [bv_one, bv_add]
    · simp only [h, decide_false, if_false, Bool.false_eq_true]; rfl
  have hodd : (bv np % 2#64 == 1#64) = decide (np % 2 = 1) := by
    rw [bv_two, bv_mod _ _ (by omega) (by omega), bv_one, beq_bv _ _ (by omega) (by omega)]
  have hsize1 : decide (bv N > 1#64) = true := by
    rw [decide_eq_true_eq]; show bv 1 < bv N; rw [lt_bv _ _ (by omega) (by omega)]; omega
  have hmb1 : 1 ≤ K / np + (if K % np > 0 then 1 else 0) ∧ K / np + (if K % np > 0 then 1 else 0) ≤ 64 := by
    have : 1 ≤ K / np := Nat.div_pos hnpr.2 (by omega)
    by_cases h : K % np > 0
    · rw [if_pos h]; omega
    · rw [if_neg h]; omega
  have hNCt : (bv NC).toNat = NC := bv_toNat _ (by
    have := sh.hbytes
    have : NC ≤ N * NC := Nat.le_mul_of_pos_left _ (by omega)
    omega)
  -- the shape `reversePermutation` needs, for either first buffer
  have hrp : ∀ t : Ptr, t.off + N * NC ≤ hp.ext t.blk → (t ≠ src → t.blk ≠ src.blk) →
      RPShape hp self t src (bv N) oc (bv NC) nca K :=
    fun t ht hdj => ⟨by omega, by rw [hNt]; exact hN, by rw [hNCt]; exact hNC, by rw [hNCt]; exact hcols,
      by rw [hNt]; exact hbytes, by rw [hNt, hNCt]; exact ht, hsrc, hdj⟩
  unfold NTT_NTT_iters.Safe
  zeta_goal
  intro y hy
  rw [hlog] at hy
  cases hy
  simp only [setWidth_ofNat32 K (by omega), clamp_gen nphase K (by omega), hnp, hdiv, hmod, hres0, hmbp0, hodd]
  intro _
  generalize hD : (if (dst != Ptr.null) = true then dst else src) = D at *
  -- the pass loop from a state (mbp, X, tmp, a2, a, s, count): what every reachable state looks like
  have hloop : ∀ (y : Heap) (a a2 tmp : Ptr), IShape y self a a2 N NC K extend →
      Loop.WhileAll (NTT_NTT_iters_loop10 (bv N) (bv NC) inverse extend self (bv K) (bv (K % np)))
        (bv (K / np + if K % np > 0 then 1 else 0), y, tmp, a2, a, 1#64, 1#64)
        (fun st => NTT_NTT_iters_loop10.Safe (bv N) (bv NC) inverse extend self (bv K) (bv (K % np)) st) := by
    intro y a a2 tmp shy
    refine Loop.WhileAll.of_inv
      (fun st => ∃ (mbp s count : Nat) (X : Heap) (tmp a a2 : Ptr), st = (bv mbp, X, tmp, a2, a, bv s, bv count) ∧
        IShape X self a a2 N NC K extend ∧ 1 ≤ s ∧ s ≤ K + 64 ∧ 1 ≤ mbp ∧ mbp ≤ 64 ∧ count ≤ s) ?_ ?_ ?_
    · exact ⟨_, 1, 1, y, tmp, a, a2, rfl, shy, by omega, by omega, hmb1.1, hmb1.2, by omega⟩
    · rintro st st' ⟨mbp, s, count, X, tmp, a, a2, rfl, shX, h1, h2, h3, h4, h5⟩ hstep
      obtain ⟨hsK, X', hsame, rfl⟩ := pass_next self N NC K (K % np) inverse extend X a a2 tmp hK hN mbp s count h1 (by omega)
        h3 h4 (by omega) (by omega) st' hstep
      have hmb : 1 ≤ stepMbp (K % np) count mbp ∧ stepMbp (K % np) count mbp ≤ 64 := by
        unfold stepMbp
        by_cases h : K % np > 0 ∧ count = K % np + 1 ∧ mbp > 1
        · rw [if_pos h]; omega
        · rw [if_neg h]; omega
      exact ⟨_, _, _, X', a2, a2, a, rfl, (shX.same hsame).swap, by omega, by omega, hmb.1, hmb.2, by omega⟩
    · rintro st ⟨mbp, s, count, X, tmp, a, a2, rfl, shX, h1, h2, h3, h4, h5⟩
      exact pass_safe self N NC K (K % np) inverse extend X a a2 tmp shX mbp s count h1 (by omega) h3 h4 (by omega) (by omega)
  by_cases hpar : np % 2 = 1
  · simp only [hpar, decide_true, if_true, beq_self_eq_true]
    refine ⟨reversePermutation_safe fuel (by unfold log2Fuel; omega) hp self aux src (bv N) oc (bv NC) nca K hs
      (hrp aux sh.ha2 (fun _ => hd2)), fun y hy => ⟨?_, fun y1 _ _ hc => absurd hsize1 hc⟩⟩
    have hsame := reversePermutation_same fuel hp self aux src (bv N) oc (bv NC) nca hs y hy
    exact hloop y aux D aux (sh.same hsame).swap
  · have hparf : decide (np % 2 = 1) = false := by simp [hpar]
    simp only [hparf, Bool.false_eq_true, if_false, show ((true == false) = true) = False from by simp]
    refine ⟨reversePermutation_safe fuel (by unfold log2Fuel; omega) hp self D src (bv N) oc (bv NC) nca K hs
      (hrp D sh.ha hd1), fun y hy => ⟨?_, fun y1 _ _ hc => absurd hsize1 hc⟩⟩
    have hsame := reversePermutation_same fuel hp self D src (bv N) oc (bv NC) nca hs y hy
    exact hloop y D aux D (sh.same hsame)

end GoldilocksVerif.HeapSafe
