/-
  IN-BOUNDS ACCESSES of the generated `NTT_iters`: the butterfly column loop, one butterfly of one stage (offsets of the two
  rows, index of the twiddle factor in `roots`), one stage, all stages of a batch, the transposing copy, the reflecting /
  scaling copies of the last inverse pass (`r_[dsty]`, `powTwoInv[domainPow]`), one batch, one pass (schedule arithmetic on
  64-bit words), the pass loop with its pointer ping-pong (every reachable state), `reversePermutation` into the buffer
  the phase parity selects.  Pointers may have any offset; the buffers must be distinct blocks.  The predicates `*.Safe`
  are DERIVED from the generated definitions (Lemmas/HeapSafeDefs.lean); the index arithmetic re-uses the `bv` lemmas of
  the bridge theorems (Lemmas/BridgeNtt*.lean).
-/
import GoldilocksVerif.Lemmas.HeapSafeRevPerm
import GoldilocksVerif.Lemmas.BridgeNttItersTop
open GoldilocksVerif Gen.NttGen GoldilocksVerif.BridgeNtt
namespace GoldilocksVerif.HeapSafe

theorem InB_base {h : Heap} {p : Ptr} {i : Nat} (x : p.off + i < h.ext p.blk) : h.InB p i := x

/-- the extents `NTT_iters` works with: two distinct buffers of `N` rows of `NC` words (`N = 2^K`, `1 ≤ K ≤ 30`), the
    tables of the object (`roots`: 2^s words, `powTwoInv`: s+1 words, `K ≤ s ≤ 32`; `r_`: N words when `extend`) -/
structure IShape (st : Heap) (obj : NTT_Goldilocks) (a a2 : Ptr) (N NC K : Nat) (extend : Bool) : Prop where
  hK : K ≤ 30
  hN : N = 2 ^ K
  hbytes : N * NC * 8 < 2 ^ 64
  ha : a.off + N * NC ≤ st.ext a.blk
  ha2 : a2.off + N * NC ≤ st.ext a2.blk
  hne : a.blk ≠ a2.blk
  hsK : K ≤ obj.s.toNat
  hs32 : obj.s.toNat ≤ 32
  hroots : obj.roots.off + 2 ^ obj.s.toNat ≤ st.ext obj.roots.blk
  hpti : obj.powTwoInv.off + obj.s.toNat + 1 ≤ st.ext obj.powTwoInv.blk
  hr_ : extend = true → obj.r_.off + N ≤ st.ext obj.r_.blk

theorem IShape.same {st st' : Heap} {self : NTT_Goldilocks} {a a2 : Ptr} {N NC K : Nat} {extend : Bool}
    (h : IShape st self a a2 N NC K extend) (hs : Heap.Same st st') : IShape st' self a a2 N NC K extend := by
  obtain ⟨h1, h2, h3, h4, h5, h6, h7, h8, h9, h10, h11⟩ := h
  refine ⟨h1, h2, h3, ?_, ?_, h6, h7, h8, ?_, ?_, ?_⟩
  · rw [hs.2]; exact h4
  · rw [hs.2]; exact h5
  · rw [hs.2]; exact h9
  · rw [hs.2]; exact h10
  · rw [hs.2]; exact h11

theorem IShape.swap {st : Heap} {self : NTT_Goldilocks} {a a2 : Ptr} {N NC K : Nat} {extend : Bool}
    (h : IShape st self a a2 N NC K extend) : IShape st self a2 a N NC K extend := by
  obtain ⟨h1, h2, h3, h4, h5, h6, h7, h8, h9, h10, h11⟩ := h
  exact ⟨h1, h2, h3, h5, h4, fun e => h6 e.symm, h7, h8, h9, h10, h11⟩

/-! ### one butterfly: the loop over the columns -/

theorem bfly_safe (a : Ptr) (o1 o2 NC : Nat) (w : BitVec 64) (st : Heap) (h1 : a.off + o1 + NC ≤ st.ext a.blk)
    (h2 : a.off + o2 + NC ≤ st.ext a.blk) (g1 : o1 + NC < 2 ^ 64) (g2 : o2 + NC < 2 ^ 64) (k : Nat) (hk : k < NC) :
    NTT_NTT_iters_loop1.Safe a (bv o1) (bv o2) w k st := by
  unfold NTT_NTT_iters_loop1.Safe
  zeta_goal
  have e1 : (bv o1 + BitVec.ofNat 64 k).toNat = o1 + k := by
    show (bv o1 + bv k).toNat = _
    rw [bv_add, bv_toNat _ (by omega)]
  have e2 : (bv o2 + BitVec.ofNat 64 k).toNat = o2 + k := by
    show (bv o2 + bv k).toNat = _
    rw [bv_add, bv_toNat _ (by omega)]
  rw [e1, e2]
  have i1 : st.InB a (o1 + k) := InB_base (by omega)
  have i2 : st.InB a (o2 + k) := InB_base (by omega)
  exact ⟨i1, i2, i2, i1.same (Heap.Same.set _ _ _ _)⟩

/-! ### one butterfly of one stage: the offsets of the two rows, the index of the twiddle factor in `roots` -/

theorem stageStep_safe (st : Heap) (self : NTT_Goldilocks) (a : Ptr) (S si b B NC RS RE RB N i : Nat)
    (hN30 : N ≤ 2 ^ 30) (hbB : b * B ≤ N) (hiN : i ≤ N) (hNNC : N * NC < 2 ^ 64)
    (hrow : b * B + i / 2 ^ si * (2 ^ si * 2) + i % 2 ^ si + 2 ^ si < N)
    (hRB : RB ≤ 2 ^ 30) (hRS : RS ≤ RE) (hRE : RE ≤ 30) (hS1 : 1 ≤ S) (hSs : S + si ≤ self.s.toNat) (hos : self.s.toNat ≤ 32)
    (ha : a.off + N * NC ≤ st.ext a.blk) (hroots : self.roots.off + 2 ^ self.s.toNat ≤ st.ext self.roots.blk) :
    NTT_NTT_iters_loop2.Safe (bv NC) self a (bv S) (bv RS) (bv RE) (bv RB) (bv (2 ^ (RE - RS) - 1)) (bv B) b si
      (bv (2 ^ (S + si) / 2)) (bv (2 ^ si)) (bv (2 ^ si * 2)) i st := by
  have hsi : si < 64 := by omega
  have h2si : 2 ^ si < 2 ^ 64 := Nat.pow_lt_pow_right (by omega) hsi
  have h2si' : 2 ^ si ≤ N := by omega
  have hi64 : i < 2 ^ 64 := by omega
  have hbB64 : b * B < 2 ^ 64 := by omega
  have ht : RE - RS < 64 := by omega
  -- the twiddle index (as in the bridge theorem `stageStep_body`)
  let j0 := b * B / 2 + i
  have hj0 : j0 ≤ 2 ^ 31 := by
    have : b * B / 2 ≤ N := Nat.le_trans (Nat.div_le_self _ _) hbB
    show b * B / 2 + i ≤ 2 ^ 31
    omega
  let j1 := j0 % 2 ^ (RE - RS) * RB + j0 / 2 ^ (RE - RS)
  have hj1 : j1 < 2 ^ 62 := by
    have h1 : j0 % 2 ^ (RE - RS) ≤ 2 ^ 31 := Nat.le_trans (Nat.mod_le _ _) hj0
    have h2 : j0 / 2 ^ (RE - RS) ≤ 2 ^ 31 := Nat.le_trans (Nat.div_le_self _ _) hj0
    have h3 : j0 % 2 ^ (RE - RS) * RB ≤ 2 ^ 31 * 2 ^ 30 := Nat.mul_le_mul h1 hRB
    show j0 % 2 ^ (RE - RS) * RB + j0 / 2 ^ (RE - RS) < 2 ^ 62
    omega
  have hM : 2 ^ (S + si) / 2 < 2 ^ 64 := by
    have : 2 ^ (S + si) < 2 ^ 64 := Nat.pow_lt_pow_right (by omega) (by omega)
    omega
  have hhalf : 2 ^ (S + si) / 2 = 2 ^ (S + si - 1) := by
    have : 2 ^ (S + si) = 2 ^ (S + si - 1) * 2 := by
      rw [← Nat.pow_succ]; congr 1; omega
    rw [this, Nat.mul_div_cancel _ (by omega)]
  have hJlt : j1 % (2 ^ (S + si) / 2) < 2 ^ (S + si) / 2 := by
    apply Nat.mod_lt
    rw [hhalf]; exact Nat.pow_pos (by omega)
  have ej : (((BitVec.ofNat 64 b * bv B / 2#64 + BitVec.ofNat 64 i) &&& bv (2 ^ (RE - RS) - 1)) * bv RB +
      ((BitVec.ofNat 64 b * bv B / 2#64 + BitVec.ofNat 64 i) >>> (bv RE - bv RS).toNat)) % bv (2 ^ (S + si) / 2) =
      bv (j1 % (2 ^ (S + si) / 2)) := by
    show (((bv b * bv B / 2#64 + bv i) &&& bv (2 ^ (RE - RS) - 1)) * bv RB +
      ((bv b * bv B / 2#64 + bv i) >>> (bv RE - bv RS).toNat)) % bv (2 ^ (S + si) / 2) = _
    rw [bv_two, bv_mul, bv_div _ _ hbB64 (by omega), bv_add, bv_sub RE RS hRS (by omega), bv_toNat _ (by omega),
      bv_mask _ _ (by show j0 < 2 ^ 64; omega) ht, bv_shr _ _ (by show j0 < 2 ^ 64; omega), bv_mul, bv_add,
      bv_mod _ _ (by show j1 < 2 ^ 64; omega) hM]
  have edp : (BitVec.setWidth 32 (bv (S + si))).toNat = S + si := by
    rw [BitVec.toNat_setWidth, bv_toNat _ (by omega)]
    exact Nat.mod_eq_of_lt (by omega)
  have eki : BitVec.ofNat 64 b * bv B + BitVec.ofNat 64 i / bv (2 ^ si) * bv (2 ^ si * 2) =
      bv (b * B + i / 2 ^ si * (2 ^ si * 2)) := by
    show bv b * bv B + bv i / bv (2 ^ si) * bv (2 ^ si * 2) = _
    rw [bv_mul, bv_div _ _ hi64 h2si, bv_mul, bv_add]
  have eji : BitVec.ofNat 64 i % bv (2 ^ si) = bv (i % 2 ^ si) := bv_mod _ _ hi64 h2si
  unfold NTT_NTT_iters_loop2.Safe
  zeta_goal
  simp only [eki, eji, ej]
  simp only [bv_add, bv_mul]
  refine ⟨?_, ?_⟩
  · -- roots[j << (s - domainPow)]
    unfold NTT_root.Safe
    have hJ64 : j1 % (2 ^ (S + si) / 2) < 2 ^ 64 := by omega
    have h1 : (self.s - BitVec.setWidth 32 (bv (S + si))).toNat = self.s.toNat - (S + si) := by
      rw [BitVec.toNat_sub, edp]
      have := self.s.isLt
      omega
    have hle : j1 % (2 ^ (S + si) / 2) * 2 ^ (self.s.toNat - (S + si)) < 2 ^ self.s.toNat := by
      have h2 : 2 ^ (S + si) * 2 ^ (self.s.toNat - (S + si)) = 2 ^ self.s.toNat := by
        rw [← Nat.pow_add]; congr 1; omega
      have h1' : 2 ^ (S + si) / 2 ≤ 2 ^ (S + si) := Nat.div_le_self _ _
      have hp : 0 < 2 ^ (self.s.toNat - (S + si)) := Nat.pow_pos (by omega)
      calc j1 % (2 ^ (S + si) / 2) * 2 ^ (self.s.toNat - (S + si))
          < 2 ^ (S + si) / 2 * 2 ^ (self.s.toNat - (S + si)) := Nat.mul_lt_mul_of_pos_right hJlt hp
        _ ≤ 2 ^ (S + si) * 2 ^ (self.s.toNat - (S + si)) := Nat.mul_le_mul_right _ h1'
        _ = 2 ^ self.s.toNat := h2
    have h3 : 2 ^ self.s.toNat ≤ 2 ^ 32 := Nat.pow_le_pow_right (by omega) hos
    have h2 : (bv (j1 % (2 ^ (S + si) / 2)) <<< (self.s.toNat - (S + si))).toNat =
        j1 % (2 ^ (S + si) / 2) * 2 ^ (self.s.toNat - (S + si)) := by
      rw [BitVec.toNat_shiftLeft, Nat.shiftLeft_eq, bv_toNat _ hJ64]
      exact Nat.mod_eq_of_lt (by omega)
    rw [h1, h2]
    exact InB_base (by omega)
  · have h1 := mul_le_of_lt _ _ NC hrow
    have h2 : (b * B + i / 2 ^ si * (2 ^ si * 2) + i % 2 ^ si) * NC ≤
        (b * B + i / 2 ^ si * (2 ^ si * 2) + i % 2 ^ si + 2 ^ si) * NC := Nat.mul_le_mul_right _ (by omega)
    rw [bv_toNat NC (by
      have : NC ≤ N * NC := Nat.le_mul_of_pos_left _ (by omega)
      omega)]
    refine Loop.RangeAll.of_same (fun k s _ => iters_loop1_same _ _ _ _ k s) (fun k st' _ hk hst => ?_)
    exact bfly_safe a _ _ NC _ st' (by rw [hst.2]; omega) (by rw [hst.2]; omega) (by omega) (by omega) k hk

/-! ### one stage of one batch, all stages of one batch -/

theorem stage_safe (st : Heap) (self : NTT_Goldilocks) (a : Ptr) (S si b B M NC RS RE RB N : Nat)
    (hN30 : N ≤ 2 ^ 30) (hB : B = M * (2 ^ si * 2)) (hbB : b * B + B ≤ N) (hNNC : N * NC < 2 ^ 64)
    (hRB : RB ≤ 2 ^ 30) (hRS : RS ≤ RE) (hRE : RE ≤ 30) (hS1 : 1 ≤ S) (hSs : S + si ≤ self.s.toNat) (hos : self.s.toNat ≤ 32)
    (hS30 : S + si ≤ 30)
    (ha : a.off + N * NC ≤ st.ext a.blk) (hroots : self.roots.off + 2 ^ self.s.toNat ≤ st.ext self.roots.blk) :
    NTT_NTT_iters_loop3.Safe (bv NC) self a (bv S) (bv RS) (bv RE) (bv RB) (bv (2 ^ (RE - RS) - 1)) (bv B) b si st := by
  have hU : 0 < 2 ^ si := Nat.pow_pos (by omega)
  have hB64 : B < 2 ^ 64 := by omega
  have e1 : I32.toU64 (I32.shl (1 : Int) (bv S + BitVec.ofNat 64 si).toNat) = bv (2 ^ (S + si)) := by
    show I32.toU64 (I32.shl (1 : Int) (bv S + bv si).toNat) = _
    rw [bv_add, bv_toNat _ (by omega), shl_one _ hS30]
  have e2 : bv (2 ^ (S + si)) >>> 1 = bv (2 ^ (S + si) / 2) := by
    rw [bv_shr _ _ (Nat.pow_lt_pow_right (by omega) (by omega))]; rfl
  have e3 : I32.toU64 (I32.shl (1 : Int) si) = bv (2 ^ si) := shl_one _ (by omega)
  have e4 : (bv B >>> 1).toNat = B / 2 := by
    rw [bv_shr _ _ hB64, bv_toNat _ (by omega)]; rfl
  unfold NTT_NTT_iters_loop3.Safe
  zeta_goal
  simp only [e1, e2, e3, e4, bv_two, bv_mul]
  refine Loop.RangeAll.of_same (fun i s _ => iters_loop2_same _ _ _ _ _ _ _ _ _ _ _ _ _ _ i s) (fun i st' _ hi hst => ?_)
  have hiM : i < M * 2 ^ si := by
    have : B / 2 = M * 2 ^ si := by
      rw [hB, ← Nat.mul_assoc, Nat.mul_div_cancel _ (by omega)]
    omega
  have hr := row_lt (2 ^ si) M i hU hiM
  exact stageStep_safe st' self a S si b B NC RS RE RB N i hN30 (by omega) (by omega) hNNC (by rw [← hB] at hr; omega)
    hRB hRS hRE hS1 hSs hos (by rw [hst.2]; exact ha) (by rw [hst.2]; exact hroots)

theorem batchStages_safe (st : Heap) (self : NTT_Goldilocks) (a : Ptr) (S sInc b NC RS RE RB N : Nat)
    (hN30 : N ≤ 2 ^ 30) (hbB : b * 2 ^ sInc + 2 ^ sInc ≤ N) (hNNC : N * NC < 2 ^ 64)
    (hRB : RB ≤ 2 ^ 30) (hRS : RS ≤ RE) (hRE : RE ≤ 30) (hS1 : 1 ≤ S) (hSs : S + sInc ≤ self.s.toNat + 1) (hos : self.s.toNat ≤ 32)
    (hS30 : S + sInc ≤ 31)
    (ha : a.off + N * NC ≤ st.ext a.blk) (hroots : self.roots.off + 2 ^ self.s.toNat ≤ st.ext self.roots.blk) :
    Loop.RangeAll 0 (bv sInc).toNat st
      (NTT_NTT_iters_loop3 (bv NC) self a (bv S) (bv RS) (bv RE) (bv RB) (bv (2 ^ (RE - RS) - 1)) (bv (2 ^ sInc)) b)
      (fun si st' => NTT_NTT_iters_loop3.Safe (bv NC) self a (bv S) (bv RS) (bv RE) (bv RB) (bv (2 ^ (RE - RS) - 1))
        (bv (2 ^ sInc)) b si st') := by
  rw [bv_toNat sInc (by omega)]
  refine Loop.RangeAll.of_same (fun i s _ => iters_loop3_same _ _ _ _ _ _ _ _ _ _ i s) (fun si st' _ hsi hst => ?_)
  exact stage_safe st' self a S si b (2 ^ sInc) (2 ^ (sInc - si - 1)) NC RS RE RB N hN30 (pow_stage sInc si hsi) hbB hNNC
    hRB hRS hRE hS1 (by omega) hos (by omega) (by rw [hst.2]; exact ha) (by rw [hst.2]; exact hroots)

/-! ### the copies at the end of a pass -/

/-- one row of the transposing copy: row `b*B + x` of `a` to row `x*nB + b` of `a2` -/
theorem transpose_safe (st : Heap) (a a2 : Ptr) (NC B nB b x N : Nat) (hx : x < B) (hb : b < nB) (hN : B * nB = N)
    (hNNC : N * NC < 2 ^ 64) (hNC8 : NC * 8 < 2 ^ 64) (ha : a.off + N * NC ≤ st.ext a.blk)
    (ha2 : a2.off + N * NC ≤ st.ext a2.blk) (hne : a.blk ≠ a2.blk) :
    NTT_NTT_iters_loop4.Safe (bv NC) a a2 (bv B) (bv nB) b x st := by
  have h1 : x * nB + b < N := by rw [← hN]; exact mr_lt' x b B nB hx hb
  have h2 : b * B + x < N := by rw [← hN, Nat.mul_comm B nB]; exact mr_lt' b x nB B hb hx
  have h3 := mul_le_of_lt _ _ NC h1
  have h4 := mul_le_of_lt _ _ NC h2
  have e1 : ((BitVec.ofNat 64 x * bv nB + BitVec.ofNat 64 b) * bv NC).toNat = (x * nB + b) * NC := by
    show ((bv x * bv nB + bv b) * bv NC).toNat = _
    rw [bv_mul, bv_add, bv_mul, bv_toNat _ (by omega)]
  have e2 : ((BitVec.ofNat 64 b * bv B + BitVec.ofNat 64 x) * bv NC).toNat = (b * B + x) * NC := by
    show ((bv b * bv B + bv x) * bv NC).toNat = _
    rw [bv_mul, bv_add, bv_mul, bv_toNat _ (by omega)]
  unfold NTT_NTT_iters_loop4.Safe
  zeta_goal
  rw [e1, e2, words_bv NC hNC8]
  exact ⟨RangeOK_add (by omega), RangeOK_add (by omega), Or.inr (Or.inl (fun e => hne e.symm))⟩

/-- one row of the reflecting, scaling copy of the last inverse pass (`extend`: factors `r_[dsty]`) -/
theorem extCopy_safe (st : Heap) (self : NTT_Goldilocks) (a a2 : Ptr) (NC B nB b x N : Nat) (hx : x < B) (hb : b < nB)
    (hN : B * nB = N) (hNNC : N * NC < 2 ^ 64) (hN30 : N ≤ 2 ^ 30) (ha : a.off + N * NC ≤ st.ext a.blk)
    (ha2 : a2.off + N * NC ≤ st.ext a2.blk) (hr_ : self.r_.off + N ≤ st.ext self.r_.blk) :
    NTT_NTT_iters_loop6.Safe (bv N) (bv NC) self a a2 (bv B) (bv nB) b x st := by
  have h1 : x * nB + b < N := by rw [← hN]; exact mr_lt' x b B nB hx hb
  have h2 : b * B + x < N := by rw [← hN, Nat.mul_comm B nB]; exact mr_lt' b x nB B hb hx
  have hd := inttIdx_lt _ _ h1
  have h3 := mul_le_of_lt _ _ NC hd
  have h4 := mul_le_of_lt _ _ NC h2
  have e2 : ((BitVec.ofNat 64 b * bv B + BitVec.ofNat 64 x) * bv NC) = bv ((b * B + x) * NC) := by
    show ((bv b * bv B + bv x) * bv NC) = _
    rw [bv_mul, bv_add, bv_mul]
  unfold NTT_NTT_iters_loop6.Safe
  zeta_goal
  simp only [dsty_eq x nB b B N hx hb hN hN30]
  rw [e2, bv_mul, bv_toNat NC (by
      have : NC ≤ N * NC := Nat.le_mul_of_pos_left _ (by omega)
      omega)]
  refine Loop.RangeAll.of_same (fun k s _ => iters_loop5_same _ _ _ _ _ _ k s) (fun k st' _ hk hst => ?_)
  unfold NTT_NTT_iters_loop5.Safe
  zeta_goal
  have e3 : (bv ((b * B + x) * NC) + BitVec.ofNat 64 k).toNat = (b * B + x) * NC + k := by
    show (bv _ + bv k).toNat = _
    rw [bv_add, bv_toNat _ (by omega)]
  have e4 : (bv (Model.Ntt.inttIdx (x * nB + b) N * NC) + BitVec.ofNat 64 k).toNat = Model.Ntt.inttIdx (x * nB + b) N * NC + k := by
    show (bv _ + bv k).toNat = _
    rw [bv_add, bv_toNat _ (by omega)]
  rw [e3, e4, bv_toNat _ (by omega)]
  exact ⟨⟨InB_base (by rw [hst.2]; omega), InB_base (by rw [hst.2]; omega)⟩, InB_base (by rw [hst.2]; omega)⟩

/-- the same with the factor `powTwoInv[domainPow]` -/
theorem invCopy_safe (st : Heap) (self : NTT_Goldilocks) (a a2 : Ptr) (NC B nB b x N DP : Nat) (hx : x < B) (hb : b < nB)
    (hN : B * nB = N) (hNNC : N * NC < 2 ^ 64) (hN30 : N ≤ 2 ^ 30) (hDP : DP < 2 ^ 64) (ha : a.off + N * NC ≤ st.ext a.blk)
    (ha2 : a2.off + N * NC ≤ st.ext a2.blk) (hpti : self.powTwoInv.off + DP < st.ext self.powTwoInv.blk) :
    NTT_NTT_iters_loop8.Safe (bv N) (bv NC) self a a2 (bv DP) (bv B) (bv nB) b x st := by
  have h1 : x * nB + b < N := by rw [← hN]; exact mr_lt' x b B nB hx hb
  have h2 : b * B + x < N := by rw [← hN, Nat.mul_comm B nB]; exact mr_lt' b x nB B hb hx
  have hd := inttIdx_lt _ _ h1
  have h3 := mul_le_of_lt _ _ NC hd
  have h4 := mul_le_of_lt _ _ NC h2
  have e2 : ((BitVec.ofNat 64 b * bv B + BitVec.ofNat 64 x) * bv NC) = bv ((b * B + x) * NC) := by
    show ((bv b * bv B + bv x) * bv NC) = _
    rw [bv_mul, bv_add, bv_mul]
  unfold NTT_NTT_iters_loop8.Safe
  zeta_goal
  simp only [dsty_eq x nB b B N hx hb hN hN30]
  rw [e2, bv_mul, bv_toNat NC (by
      have : NC ≤ N * NC := Nat.le_mul_of_pos_left _ (by omega)
      omega)]
  refine Loop.RangeAll.of_same (fun k s _ => iters_loop7_same _ _ _ _ _ _ k s) (fun k st' _ hk hst => ?_)
  unfold NTT_NTT_iters_loop7.Safe
  zeta_goal
  have e3 : (bv ((b * B + x) * NC) + BitVec.ofNat 64 k).toNat = (b * B + x) * NC + k := by
    show (bv _ + bv k).toNat = _
    rw [bv_add, bv_toNat _ (by omega)]
  have e4 : (bv (Model.Ntt.inttIdx (x * nB + b) N * NC) + BitVec.ofNat 64 k).toNat = Model.Ntt.inttIdx (x * nB + b) N * NC + k := by
    show (bv _ + bv k).toNat = _
    rw [bv_add, bv_toNat _ (by omega)]
  rw [e3, e4, bv_toNat _ hDP]
  exact ⟨⟨InB_base (by rw [hst.2]; omega), InB_base (by rw [hst.2]; omega)⟩, InB_base (by rw [hst.2]; omega)⟩

/-! ### one batch of one pass -/

theorem passBatch_safe (st : Heap) (self : NTT_Goldilocks) (a a2 : Ptr) (N NC K MBP S sInc nB b : Nat) (inverse extend : Bool)
    (sh : IShape st self a a2 N NC K extend) (hS1 : 1 ≤ S) (hSleK : S ≤ K) (hSK : S + sInc ≤ K + 1)
    (hnB : nB = N / 2 ^ sInc) (hb : b < nB) :
    NTT_NTT_iters_loop9.Safe (bv N) (bv NC) inverse extend self a a2 (bv K) (bv MBP) (bv S) (bv sInc) (bv (S - 1))
      (bv (K - 1)) (bv (2 ^ (S - 1))) (bv (2 ^ (K - S) - 1)) (bv (2 ^ sInc)) (bv nB) b st := by
  obtain ⟨hK, hN, hbytes, ha, ha2, hne, hsK, hs32, hroots, hpti, hr_⟩ := sh
  have hN30 : N ≤ 2 ^ 30 := by rw [hN]; exact Nat.pow_le_pow_right (by omega) hK
  have hNNC : N * NC < 2 ^ 64 := by omega
  have hN0 : 0 < N := by rw [hN]; exact Nat.pow_pos (by omega)
  have hNC8 : NC * 8 < 2 ^ 64 := by
    have : NC ≤ N * NC := Nat.le_mul_of_pos_left _ hN0
    omega
  have hsIK : sInc ≤ K := by omega
  have hBN : 2 ^ sInc * nB = N := by
    rw [hnB, hN]
    have : 2 ^ K = 2 ^ sInc * 2 ^ (K - sInc) := by rw [← Nat.pow_add]; congr 1; omega
    rw [this, Nat.mul_div_cancel_left _ (Nat.pow_pos (by omega))]
  have hbB : b * 2 ^ sInc + 2 ^ sInc ≤ N := by
    have := mul_le_of_lt b nB (2 ^ sInc) hb
    rw [Nat.mul_comm nB] at this
    omega
  have hKS : K - 1 - (S - 1) = K - S := by omega
  have hB64 : 2 ^ sInc < 2 ^ 64 := Nat.pow_lt_pow_right (by omega) (by omega)
  have hst := batchStages_safe st self a S sInc b NC (S - 1) (K - 1) (2 ^ (S - 1)) N hN30 hbB hNNC
    (Nat.pow_le_pow_right (by omega) (by omega)) (by omega) (by omega) hS1 (by omega) hs32 (by omega) ha hroots
  rw [hKS] at hst
  unfold NTT_NTT_iters_loop9.Safe
  zeta_goal
  refine ⟨hst, fun y hy => ?_⟩
  have hsame : Heap.Same st y :=
    OInv.rangeM (P := Heap.Same st) _ _ _ _ _ (Heap.Same.refl _)
      (fun i s hs => OInv.of_same hs (iters_loop3_same _ _ _ _ _ _ _ _ _ _ i s)) y hy
  rw [bv_toNat _ hB64]
  refine ⟨fun _ => ?_, fun _ => ⟨fun _ => ?_, fun _ => ?_⟩⟩
  · refine Loop.RangeAll.of_same (fun x s _ => iters_loop4_same _ _ _ _ _ _ x s) (fun x st' _ hx hst' => ?_)
    have hs' := hsame.trans hst'
    exact transpose_safe st' a a2 NC (2 ^ sInc) nB b x N hx hb hBN hNNC hNC8 (by rw [hs'.2]; exact ha)
      (by rw [hs'.2]; exact ha2) hne
  · refine Loop.RangeAll.of_same (fun x s _ => iters_loop6_same _ _ _ _ _ _ _ _ x s) (fun x st' _ hx hst' => ?_)
    have hs' := hsame.trans hst'
    exact extCopy_safe st' self a a2 NC (2 ^ sInc) nB b x N hx hb hBN hNNC hN30 (by rw [hs'.2]; exact ha)
      (by rw [hs'.2]; exact ha2) (by rw [hs'.2]; exact hr_ (by assumption))
  · refine Loop.RangeAll.of_same (fun x s _ => iters_loop8_same _ _ _ _ _ _ _ _ _ x s) (fun x st' _ hx hst' => ?_)
    have hs' := hsame.trans hst'
    exact invCopy_safe st' self a a2 NC (2 ^ sInc) nB b x N K hx hb hBN hNNC hN30 (by omega) (by rw [hs'.2]; exact ha)
      (by rw [hs'.2]; exact ha2) (by rw [hs'.2]; omega)

/-! ### the pass loop -/

/-- the schedule arithmetic of one iteration of the pass loop on 64-bit words (as in the bridge theorem `pass_step`) -/
theorem sched_arith (N K res mbp s count : Nat) (hK : K ≤ 30) (hN : N = 2 ^ K) (hs1 : 1 ≤ s) (hsK : s ≤ K) (hm1 : 1 ≤ mbp)
    (hm : mbp ≤ 64) (hres : res ≤ 64) (hcount : count ≤ 128) :
    (if ((decide (bv res > 0#64) && (bv count == bv res + 1#64)) && decide (bv mbp > 1#64)) = true
      then bv mbp - 1#64 else bv mbp) = bv (stepMbp res count mbp) ∧
    (if decide (bv s + bv (stepMbp res count mbp) ≤ bv K) = true then bv (stepMbp res count mbp) else bv K - bv s + 1#64) =
      bv (stepInc K s (stepMbp res count mbp)) ∧
    bv s - 1#64 = bv (s - 1) ∧ bv K - 1#64 = bv (K - 1) ∧
    I32.toU64 (I32.shl (1 : Int) (bv (s - 1)).toNat) = bv (2 ^ (s - 1)) ∧
    I32.toU64 (I32.shl (1 : Int) (bv (K - 1) - bv (s - 1)).toNat - (1 : Int)) = bv (2 ^ (K - s) - 1) ∧
    I32.toU64 (I32.shl (1 : Int) (bv (stepInc K s (stepMbp res count mbp))).toNat) = bv (2 ^ stepInc K s (stepMbp res count mbp)) ∧
    bv N / bv (2 ^ stepInc K s (stepMbp res count mbp)) = bv (N / 2 ^ stepInc K s (stepMbp res count mbp)) ∧
    (bv (N / 2 ^ stepInc K s (stepMbp res count mbp))).toNat = N / 2 ^ stepInc K s (stepMbp res count mbp) ∧
    decide (bv s ≤ bv K) = true ∧
    (1 ≤ stepMbp res count mbp ∧ stepMbp res count mbp ≤ 64) ∧
    (s + stepInc K s (stepMbp res count mbp) ≤ K + 1 ∧ stepInc K s (stepMbp res count mbp) ≤ K) := by
  have hN30 : N ≤ 2 ^ 30 := by rw [hN]; exact Nat.pow_le_pow_right (by omega) hK
  have hmbp' : (if ((decide (bv res > 0#64) && (bv count == bv res + 1#64)) && decide (bv mbp > 1#64)) = true
      then bv mbp - 1#64 else bv mbp) = bv (stepMbp res count mbp) := by
    have c1 : decide (bv res > 0#64) = decide (res > 0) := by
      rw [decide_eq_decide]; show bv 0 < bv res ↔ _; rw [lt_bv _ _ (by omega) (by omega)]
    have c2 : (bv count == bv res + 1#64) = decide (count = res + 1) := by
      rw [bv_one, bv_add, beq_bv _ _ (by omega) (by omega)]
    have c3 : decide (bv mbp > 1#64) = decide (mbp > 1) := by
      rw [decide_eq_decide]; show bv 1 < bv mbp ↔ _; rw [lt_bv _ _ (by omega) (by omega)]
    rw [c1, c2, c3]
    unfold stepMbp
    by_cases h : res > 0 ∧ count = res + 1 ∧ mbp > 1
    · rw [if_pos h]
      obtain ⟨h1, h2, h3⟩ := h
      simp only [h1, h2, h3, decide_true, Bool.and_self, if_true]
      rw [bv_one, bv_sub _ _ (by omega) (by omega)]
    · rw [if_neg h]
      have : ((decide (res > 0) && decide (count = res + 1)) && decide (mbp > 1)) = false := by
        rw [Bool.and_eq_false_iff, Bool.and_eq_false_iff]
        by_cases h1 : res > 0
        · by_cases h2 : count = res + 1
          · right; simp; exact Nat.le_of_not_lt (fun h3 => h ⟨h1, h2, h3⟩)
          · left; right; simp [h2]
        · left; left; simp [h1]
      rw [this]; simp
  have hm'1 : 1 ≤ stepMbp res count mbp ∧ stepMbp res count mbp ≤ 64 := by
    unfold stepMbp
    by_cases h : res > 0 ∧ count = res + 1 ∧ mbp > 1
    · rw [if_pos h]; omega
    · rw [if_neg h]; omega
  refine ⟨hmbp', ?_⟩
  generalize stepMbp res count mbp = mbp' at hm'1 ⊢
  have hcs : decide (bv s + bv mbp' ≤ bv K) = decide (s + mbp' ≤ K) := by
    rw [bv_add, decide_eq_decide, le_bv _ _ (by omega) (by omega)]
  have hsInc : (if decide (bv s + bv mbp' ≤ bv K) = true then bv mbp' else bv K - bv s + 1#64) = bv (stepInc K s mbp') := by
    rw [hcs]
    unfold stepInc
    by_cases h : s + mbp' ≤ K
    · simp only [h, decide_true, if_true]
    · simp only [h, decide_false, if_false, Bool.false_eq_true]
      rw [bv_sub _ _ hsK (by omega), bv_one, bv_add]
  have hsInc1 : s + stepInc K s mbp' ≤ K + 1 ∧ stepInc K s mbp' ≤ K := by
    unfold stepInc
    by_cases h : s + mbp' ≤ K
    · rw [if_pos h]; omega
    · rw [if_neg h]; omega
  refine ⟨hsInc, ?_⟩
  generalize stepInc K s mbp' = sInc at hsInc1 ⊢
  have hrs : bv s - 1#64 = bv (s - 1) := by rw [bv_one, bv_sub _ _ hs1 (by omega)]
  have hre : bv K - 1#64 = bv (K - 1) := by rw [bv_one, bv_sub _ _ (by omega) (by omega)]
  have hrb : I32.toU64 (I32.shl (1 : Int) (bv (s - 1)).toNat) = bv (2 ^ (s - 1)) := by
    rw [bv_toNat _ (by omega), shl_one _ (by omega)]
  have hrm : I32.toU64 (I32.shl (1 : Int) (bv (K - 1) - bv (s - 1)).toNat - (1 : Int)) = bv (2 ^ (K - s) - 1) := by
    rw [bv_sub _ _ (by omega) (by omega), bv_toNat _ (by omega)]
    have : K - 1 - (s - 1) = K - s := by omega
    rw [this, shl_one_sub _ (by omega)]
  have hbs : I32.toU64 (I32.shl (1 : Int) (bv sInc).toNat) = bv (2 ^ sInc) := by
    rw [bv_toNat _ (by omega), shl_one _ (by omega)]
  have h2s : 2 ^ sInc ≤ N := by rw [hN]; exact Nat.pow_le_pow_right (by omega) hsInc1.2
  have hnb : bv N / bv (2 ^ sInc) = bv (N / 2 ^ sInc) := bv_div _ _ (by omega) (by omega)
  have hnbN : (bv (N / 2 ^ sInc)).toNat = N / 2 ^ sInc :=
    bv_toNat _ (Nat.lt_of_le_of_lt (Nat.div_le_self _ _) (by omega))
  have hle : decide (bv s ≤ bv K) = true := by
    rw [decide_eq_true_eq, le_bv _ _ (by omega) (by omega)]; exact hsK
  exact ⟨hrs, hre, hrb, hrm, hbs, hnb, hnbN, hle, hm'1, hsInc1⟩

section passes
variable (self : NTT_Goldilocks) (N NC K res : Nat) (inverse extend : Bool)

/-- every access of one iteration of the pass loop is in bounds -/
theorem pass_safe (X : Heap) (a a2 tmp : Ptr) (sh : IShape X self a a2 N NC K extend) (mbp s count : Nat) (hs1 : 1 ≤ s)
    (hs64 : s < 2 ^ 63) (hm1 : 1 ≤ mbp) (hm : mbp ≤ 64) (hres : res ≤ 64) (hcount : count ≤ 128) :
    NTT_NTT_iters_loop10.Safe (bv N) (bv NC) inverse extend self (bv K) (bv res) (bv mbp, X, tmp, a2, a, bv s, bv count) := by
  unfold NTT_NTT_iters_loop10.Safe
  zeta_goal
  intro hle
  have hsK : s ≤ K := by
    have := of_decide_eq_true hle
    rwa [le_bv _ _ (by omega) (by have := sh.hK; omega)] at this
  obtain ⟨e1, e2, e3, e4, e5, e6, e7, e8, e9, _, hmb, hsi⟩ := sched_arith N K res mbp s count sh.hK sh.hN hs1 hsK hm1 hm hres hcount
  rw [e1, e2, e3, e4, e5, e6, e7, e8, e9]
  refine Loop.RangeAll.of_same (fun b st _ => iters_loop9_same _ _ _ _ _ _ _ _ _ _ _ _ _ _ _ _ _ b st) (fun b st _ hb hst => ?_)
  exact passBatch_safe st self a a2 N NC K _ s _ _ b inverse extend (sh.same hst) hs1 hsK hsi.1 rfl hb

/-- the next state of the pass loop: a heap of the same shape, the two buffers exchanged -/
theorem pass_next (X : Heap) (a a2 tmp : Ptr) (hK : K ≤ 30) (hN : N = 2 ^ K) (mbp s count : Nat) (hs1 : 1 ≤ s)
    (hs64 : s < 2 ^ 63) (hm1 : 1 ≤ mbp) (hm : mbp ≤ 64) (hres : res ≤ 64) (hcount : count ≤ 128)
    (st' : BitVec 64 × Heap × Ptr × Ptr × Ptr × BitVec 64 × BitVec 64)
    (h : NTT_NTT_iters_loop10 (bv N) (bv NC) inverse extend self (bv K) (bv res) (bv mbp, X, tmp, a2, a, bv s, bv count) =
      some (true, st')) :
    s ≤ K ∧ ∃ X', Heap.Same X X' ∧
      st' = (bv (stepMbp res count mbp), X', a2, a, a2, bv (s + stepMbp res count mbp), bv (count + 1)) := by
  unfold NTT_NTT_iters_loop10 at h
  dsimp only at h
  by_cases hsK : s ≤ K
  · refine ⟨hsK, ?_⟩
    obtain ⟨e1, e2, e3, e4, e5, e6, e7, e8, e9, hle, hmb, hsi⟩ := sched_arith N K res mbp s count hK hN hs1 hsK hm1 hm hres hcount
    rw [if_pos hle, e1, e2, e3, e4, e5, e6, e7, e8, e9] at h
    cases hr : Loop.rangeM 0 (N / 2 ^ stepInc K s (stepMbp res count mbp)) 1 X
        (NTT_NTT_iters_loop9 (bv N) (bv NC) inverse extend self a a2 (bv K) (bv (stepMbp res count mbp)) (bv s)
          (bv (stepInc K s (stepMbp res count mbp))) (bv (s - 1)) (bv (K - 1)) (bv (2 ^ (s - 1))) (bv (2 ^ (K - s) - 1))
          (bv (2 ^ stepInc K s (stepMbp res count mbp))) (bv (N / 2 ^ stepInc K s (stepMbp res count mbp)))) with
    | none => rw [hr] at h; cases h
    | some y =>
      rw [hr] at h
      have hsame : Heap.Same X y :=
        OInv.rangeM (P := Heap.Same X) _ _ _ _ _ (Heap.Same.refl _)
          (fun i s hs => OInv.of_same hs (iters_loop9_same _ _ _ _ _ _ _ _ _ _ _ _ _ _ _ _ _ i s)) y hr
      refine ⟨y, hsame, ?_⟩
      simp only [Option.bind_some, bv_add, bv_one] at h
      injection h with h
      injection h with _ h
      exact h.symm
  · have hle : decide (bv s ≤ bv K) = false := by
      rw [decide_eq_false_iff_not, le_bv _ _ (by omega) (by omega)]; exact hsK
    rw [hle] at h
    simp at h

end passes

/-! ### NTT_iters -/

/-- **in-bounds accesses of `NTT_iters`** (2 ≤ size = 2^K ≤ 2^30, any `nphase`): `reversePermutation` into the buffer the
    parity of the phase count selects, every butterfly, every twiddle read, every transposing / scaling copy of every pass
    stay inside the destination, the scratch buffer `aux`, the source and the object's tables -/
theorem NTT_iters_safe (fuel : Nat) (hf : 64 ≤ fuel) (hp : Heap) (self : NTT_Goldilocks) (dst src aux : Ptr) (N NC K : Nat)
    (oc nca nphase : BitVec 64) (inverse extend : Bool) (hK1 : 1 ≤ K) (hs : 0 < hp.size)
    (sh : IShape hp self (if (dst != Ptr.null) = true then dst else src) aux N NC K extend)
    (hNC : 0 < NC) (hcols : oc.toNat + NC ≤ nca.toNat) (hbytes : N * nca.toNat * 8 < 2 ^ 64)
    (hsrc : src.off + srcRows self (bv N) * nca.toNat ≤ hp.ext src.blk)
    (hd1 : (if (dst != Ptr.null) = true then dst else src) ≠ src → (if (dst != Ptr.null) = true then dst else src).blk ≠ src.blk)
    (hd2 : aux.blk ≠ src.blk) :
    NTT_NTT_iters.Safe fuel hp self dst src (bv N) oc (bv NC) nca nphase aux inverse extend := by
  have hK := sh.hK
  have hN := sh.hN
  have hN30 : N ≤ 2 ^ 30 := by rw [hN]; exact Nat.pow_le_pow_right (by omega) hK
  have hN2 : 2 ≤ N := by
    rw [hN]; calc 2 = 2 ^ 1 := rfl
      _ ≤ 2 ^ K := Nat.pow_le_pow_right (by omega) hK1
  have hNt : (bv N).toNat = N := bv_toNat N (by omega)
  have hNne : bv N ≠ 0#64 := by
    intro e; have := congrArg BitVec.toNat e; rw [hNt] at this; simp at this; omega
  have hlogK : Model.Ntt.log2 N = K := by rw [hN]; exact Nat.log2_two_pow
  have hlog := log2_gen_eq fuel (by unfold log2Fuel; omega) (bv N) hNne
  rw [hNt, hlogK] at hlog
  generalize hnp : Model.Ntt.clampPhase nphase.toNat K = np
  have hnpr : 1 ≤ np ∧ np ≤ K := by
    have := Model.Ntt.clampPhase_range nphase.toNat K
    rw [hnp] at this
    exact ⟨this.1, this.2.1 hK1⟩
  have hdiv : bv K / bv np = bv (K / np) := bv_div _ _ (by omega) (by omega)
  have hmod : bv K % bv np = bv (K % np) := bv_mod _ _ (by omega) (by omega)
  have hmodlt : K % np < np := Nat.mod_lt _ (by omega)
  have hdivle : K / np ≤ K := Nat.div_le_self _ _
  have hres0 : decide (bv (K % np) > 0#64) = decide (K % np > 0) := by
    rw [decide_eq_decide]; show bv 0 < bv (K % np) ↔ _; rw [lt_bv _ _ (by omega) (by omega)]
  have hmbp0 : (if decide (K % np > 0) = true then bv (K / np) + 1#64 else bv (K / np)) =
      bv (K / np + (if K % np > 0 then 1 else 0)) := by
    by_cases h : K % np > 0
    · simp only [h, decide_true, if_true]; rw [bv_one, bv_add]
    · simp only [h, decide_false, if_false, Bool.false_eq_true]; rfl
  have hodd : (bv np % 2#64 == 1#64) = decide (np % 2 = 1) := by
    rw [bv_two, bv_mod _ _ (by omega) (by omega), bv_one, beq_bv _ _ (by omega) (by omega)]
  have hsize1 : decide (bv N > 1#64) = true := by
    rw [decide_eq_true_eq]; show bv 1 < bv N; rw [lt_bv _ _ (by omega) (by omega)]; omega
  have hmb1 : 1 ≤ K / np + (if K % np > 0 then 1 else 0) ∧ K / np + (if K % np > 0 then 1 else 0) ≤ 64 := by
    have : 1 ≤ K / np := Nat.div_pos hnpr.2 (by omega)
    by_cases h : K % np > 0
    · rw [if_pos h]; omega
    · rw [if_neg h]; omega
  have hNCt : (bv NC).toNat = NC := bv_toNat _ (by
    have := sh.hbytes
    have : NC ≤ N * NC := Nat.le_mul_of_pos_left _ (by omega)
    omega)
  -- the shape `reversePermutation` needs, for either first buffer
  have hrp : ∀ t : Ptr, t.off + N * NC ≤ hp.ext t.blk → (t ≠ src → t.blk ≠ src.blk) →
      RPShape hp self t src (bv N) oc (bv NC) nca K :=
    fun t ht hdj => ⟨by omega, by rw [hNt]; exact hN, by rw [hNCt]; exact hNC, by rw [hNCt]; exact hcols,
      by rw [hNt]; exact hbytes, by rw [hNt, hNCt]; exact ht, hsrc, hdj⟩
  unfold NTT_NTT_iters.Safe
  zeta_goal
  intro y hy
  rw [hlog] at hy
  cases hy
  simp only [setWidth_ofNat32 K (by omega), clamp_gen nphase K (by omega), hnp, hdiv, hmod, hres0, hmbp0, hodd]
  intro _
  generalize hD : (if (dst != Ptr.null) = true then dst else src) = D at *
  -- the pass loop from a state (mbp, X, tmp, a2, a, s, count): what every reachable state looks like
  have hloop : ∀ (y : Heap) (a a2 tmp : Ptr), IShape y self a a2 N NC K extend →
      Loop.WhileAll (NTT_NTT_iters_loop10 (bv N) (bv NC) inverse extend self (bv K) (bv (K % np)))
        (bv (K / np + if K % np > 0 then 1 else 0), y, tmp, a2, a, 1#64, 1#64)
        (fun st => NTT_NTT_iters_loop10.Safe (bv N) (bv NC) inverse extend self (bv K) (bv (K % np)) st) := by
    intro y a a2 tmp shy
    refine Loop.WhileAll.of_inv
      (fun st => ∃ (mbp s count : Nat) (X : Heap) (tmp a a2 : Ptr), st = (bv mbp, X, tmp, a2, a, bv s, bv count) ∧
        IShape X self a a2 N NC K extend ∧ 1 ≤ s ∧ s ≤ K + 64 ∧ 1 ≤ mbp ∧ mbp ≤ 64 ∧ count ≤ s) ?_ ?_ ?_
    · exact ⟨_, 1, 1, y, tmp, a, a2, rfl, shy, by omega, by omega, hmb1.1, hmb1.2, by omega⟩
    · rintro st st' ⟨mbp, s, count, X, tmp, a, a2, rfl, shX, h1, h2, h3, h4, h5⟩ hstep
      obtain ⟨hsK, X', hsame, rfl⟩ := pass_next self N NC K (K % np) inverse extend X a a2 tmp hK hN mbp s count h1 (by omega)
        h3 h4 (by omega) (by omega) st' hstep
      have hmb : 1 ≤ stepMbp (K % np) count mbp ∧ stepMbp (K % np) count mbp ≤ 64 := by
        unfold stepMbp
        by_cases h : K % np > 0 ∧ count = K % np + 1 ∧ mbp > 1
        · rw [if_pos h]; omega
        · rw [if_neg h]; omega
      exact ⟨_, _, _, X', a2, a2, a, rfl, (shX.same hsame).swap, by omega, by omega, hmb.1, hmb.2, by omega⟩
    · rintro st ⟨mbp, s, count, X, tmp, a, a2, rfl, shX, h1, h2, h3, h4, h5⟩
      exact pass_safe self N NC K (K % np) inverse extend X a a2 tmp shX mbp s count h1 (by omega) h3 h4 (by omega) (by omega)
  by_cases hpar : np % 2 = 1
  · simp only [hpar, decide_true, if_true, beq_self_eq_true]
    refine ⟨reversePermutation_safe fuel (by unfold log2Fuel; omega) hp self aux src (bv N) oc (bv NC) nca K hs
      (hrp aux sh.ha2 (fun _ => hd2)), fun y hy => ⟨?_, fun y1 _ _ hc => absurd hsize1 hc⟩⟩
    have hsame := reversePermutation_same fuel hp self aux src (bv N) oc (bv NC) nca hs y hy
    exact hloop y aux D aux (sh.same hsame).swap
  · have hparf : decide (np % 2 = 1) = false := by simp [hpar]
    simp only [hparf, Bool.false_eq_true, if_false, show ((true == false) = true) = False from by simp]
    refine ⟨reversePermutation_safe fuel (by unfold log2Fuel; omega) hp self D src (bv N) oc (bv NC) nca K hs
      (hrp D sh.ha hd1), fun y hy => ⟨?_, fun y1 _ _ hc => absurd hsize1 hc⟩⟩
    have hsame := reversePermutation_same fuel hp self D src (bv N) oc (bv NC) nca hs y hy
    exact hloop y D aux D (sh.same hsame)

end GoldilocksVerif.HeapSafe
