/-
  Characterising lemmas: every instruction of `Isa/X86.lean` as arithmetic on `Nat`.
  (core-only; used by the proofs of C01 and everything that builds on the scalar ops)
-/
import GoldilocksVerif.Isa.X86

namespace X86

theorem add64_fst (a b : BitVec 64) : (add64 a b).1.toNat = (a.toNat + b.toNat) % 2^64 := by
  simp [add64, BitVec.toNat_add]
theorem add64_snd (a b : BitVec 64) : (add64 a b).2 = decide (2^64 ≤ a.toNat + b.toNat) := by
  simp [add64]
theorem sub64_fst (a b : BitVec 64) : (sub64 a b).1.toNat = (2^64 - b.toNat + a.toNat) % 2^64 := by
  simp [sub64, BitVec.toNat_sub]
theorem sub64_snd (a b : BitVec 64) : (sub64 a b).2 = decide (a.toNat < b.toNat) := by
  simp [sub64]
theorem toNat_ite (c : Prop) [Decidable c] (x y : BitVec 64) :
    (if c then x else y).toNat = if c then x.toNat else y.toNat := by
  split <;> rfl
theorem cmovc_toNat (cf : Bool) (x y : BitVec 64) :
    (cmovc64 cf x y).toNat = if cf then y.toNat else x.toNat := by
  unfold cmovc64; split <;> rfl

theorem rol32_toNat (x : BitVec 64) :
    (x.rotateLeft 32).toNat = (x.toNat % 2^32) * 2^32 + x.toNat / 2^32 := by
  rw [BitVec.rotateLeft_def]
  simp only [BitVec.toNat_or, BitVec.toNat_shiftLeft, BitVec.toNat_ushiftRight, Nat.reduceMod, Nat.reduceSub]
  have hx := x.isLt
  have h1 : (x.toNat <<< 32) % 2^64 = (x.toNat % 2^32) <<< 32 := by
    simp only [Nat.shiftLeft_eq]; omega
  have h2 : x.toNat >>> 32 < 2^32 := by
    simp only [Nat.shiftRight_eq_div_pow]; omega
  rw [h1, ← Nat.shiftLeft_add_eq_or_of_lt h2]
  simp only [Nat.shiftLeft_eq, Nat.shiftRight_eq_div_pow]

theorem rol64_32_fst (x : BitVec 64) (cf : Bool) :
    (rol64 x 32 cf).1.toNat = (x.toNat % 2^32) * 2^32 + x.toNat / 2^32 := by
  simp only [rol64]; exact rol32_toNat x

theorem mov32_toNat (x : BitVec 64) : (mov32 x).toNat = x.toNat % 2^32 := by
  unfold mov32
  rw [BitVec.toNat_and]
  show x.toNat &&& (2^32 - 1) = _
  rw [Nat.and_two_pow_sub_one_eq_mod]

theorem mul64_hi (a b : BitVec 64) : (mul64 a b).1.toNat = a.toNat * b.toNat / 2^64 := by
  simp only [mul64, BitVec.toNat_ofNat]
  have := Nat.mul_lt_mul'' a.isLt b.isLt
  apply Nat.mod_eq_of_lt
  apply Nat.div_lt_of_lt_mul
  calc a.toNat * b.toNat < 2^64 * 2^64 := this
    _ = 2^64 * 2^64 := rfl
theorem mul64_lo (a b : BitVec 64) : (mul64 a b).2.1.toNat = a.toNat * b.toNat % 2^64 := by
  simp only [mul64, BitVec.toNat_ofNat]

end X86
