/-
  Poseidon (C06), part 2: the scalar backend (Gen/PosScalar.lean) in the field view.  Helper lemmas; statements in
  Props/C06.lean.
-/
import GoldilocksVerif.Gen.PosScalar
import GoldilocksVerif.Lemmas.PosSpecL
set_option linter.unusedSimpArgs false
set_option linter.unnecessarySeqFocus false
set_option maxRecDepth 8192
namespace GoldilocksVerif
open PoseidonSpec Gen.PosScalar Gen.PosConsts

theorem ne12 (i : Nat) (h : 12 ≤ i) : i ≠ 0 ∧ i ≠ 1 ∧ i ≠ 2 ∧ i ≠ 3 ∧ i ≠ 4 ∧ i ≠ 5 ∧ i ≠ 6 ∧ i ≠ 7 ∧ i ≠ 8 ∧ i ≠ 9 ∧
    i ≠ 10 ∧ i ≠ 11 := by omega

theorem den_pow7 (x : BitVec 64) : den (Pos_pow7 x) = den x ^ 7 := by
  simp only [Pos_pow7, den_mul_r]; ring

/-! #### add_ / pow7_ / pow7add_ -/

theorem sadd_den (x c : Region) : ∀ i, i < 12 → den ((Pos_add_ x c) i) = den (x i) + den (c i) := by
  refine forall_lt_12 _ ?_ ?_ ?_ ?_ ?_ ?_ ?_ ?_ ?_ ?_ ?_ ?_ <;>
    simp only [Pos_add_, Region.set_apply, ↓reduceIte, Nat.reduceEqDiff, den_add_r]

theorem sadd_frame (x c : Region) (i : Nat) (h : 12 ≤ i) : (Pos_add_ x c) i = x i := by
  obtain ⟨h0, h1, h2, h3, h4, h5, h6, h7, h8, h9, h10, h11⟩ := ne12 i h
  simp only [Pos_add_, Region.set_apply, h0, h1, h2, h3, h4, h5, h6, h7, h8, h9, h10, h11, ↓reduceIte]

theorem spow7_den (x : Region) : ∀ i, i < 12 → den ((Pos_pow7_ x) i) = den (x i) ^ 7 := by
  refine forall_lt_12 _ ?_ ?_ ?_ ?_ ?_ ?_ ?_ ?_ ?_ ?_ ?_ ?_ <;>
    (simp only [Pos_pow7_, Region.set_apply, ↓reduceIte, Nat.reduceEqDiff, den_mul_r, den_pow7] <;> ring)

theorem spow7_frame (x : Region) (i : Nat) (h : 12 ≤ i) : (Pos_pow7_ x) i = x i := by
  obtain ⟨h0, h1, h2, h3, h4, h5, h6, h7, h8, h9, h10, h11⟩ := ne12 i h
  simp only [Pos_pow7_, Region.set_apply, h0, h1, h2, h3, h4, h5, h6, h7, h8, h9, h10, h11, ↓reduceIte]

theorem spow7add_den (x c : Region) : ∀ i, i < 12 → den ((Pos_pow7add_ x c) i) = den (x i) ^ 7 + den (c i) := by
  refine forall_lt_12 _ ?_ ?_ ?_ ?_ ?_ ?_ ?_ ?_ ?_ ?_ ?_ ?_ <;>
    (simp only [Pos_pow7add_, Region.set_apply, ↓reduceIte, Nat.reduceEqDiff, den_mul_r, den_add_r, den_pow7] <;> ring)

theorem spow7add_frame (x c : Region) (i : Nat) (h : 12 ≤ i) : (Pos_pow7add_ x c) i = x i := by
  obtain ⟨h0, h1, h2, h3, h4, h5, h6, h7, h8, h9, h10, h11⟩ := ne12 i h
  simp only [Pos_pow7add_, Region.set_apply, h0, h1, h2, h3, h4, h5, h6, h7, h8, h9, h10, h11, ↓reduceIte]

/-! #### mvp_ -/

theorem smvp_den (s mat : Region) : ∀ i, i < 12 → den ((Pos_mvp_ s mat) i) =
    den (mat i) * den (s 0) + den (mat (12 + i)) * den (s 1) + den (mat (24 + i)) * den (s 2) +
    den (mat (36 + i)) * den (s 3) + den (mat (48 + i)) * den (s 4) + den (mat (60 + i)) * den (s 5) +
    den (mat (72 + i)) * den (s 6) + den (mat (84 + i)) * den (s 7) + den (mat (96 + i)) * den (s 8) +
    den (mat (108 + i)) * den (s 9) + den (mat (120 + i)) * den (s 10) + den (mat (132 + i)) * den (s 11) := by
  refine forall_lt_12 _ ?_ ?_ ?_ ?_ ?_ ?_ ?_ ?_ ?_ ?_ ?_ ?_ <;>
    simp only [Pos_mvp_, Region.set_apply, Region.copyN_apply, ↓reduceIte, Nat.reduceEqDiff, Nat.reduceLT, Nat.reduceAdd,
      den_add_r, den_mul_r]

theorem smvp_frame (s mat : Region) (i : Nat) (h : 12 ≤ i) : (Pos_mvp_ s mat) i = s i := by
  obtain ⟨h0, h1, h2, h3, h4, h5, h6, h7, h8, h9, h10, h11⟩ := ne12 i h
  simp only [Pos_mvp_, Region.set_apply, h0, h1, h2, h3, h4, h5, h6, h7, h8, h9, h10, h11, ↓reduceIte]


/-! #### the body of the 22-round loop -/

theorem sloop_den0 (r : Nat) (st : Region) :
    den ((Pos_hash_full_result_seq_loop1 r st) 0) =
      (den (st 0) ^ 7 + den (c_Pos_C (r + 60))) * den (c_Pos_S (23 * r)) + den (st 1) * den (c_Pos_S (23 * r + 1)) +
      den (st 2) * den (c_Pos_S (23 * r + 2)) + den (st 3) * den (c_Pos_S (23 * r + 3)) +
      den (st 4) * den (c_Pos_S (23 * r + 4)) + den (st 5) * den (c_Pos_S (23 * r + 5)) +
      den (st 6) * den (c_Pos_S (23 * r + 6)) + den (st 7) * den (c_Pos_S (23 * r + 7)) +
      den (st 8) * den (c_Pos_S (23 * r + 8)) + den (st 9) * den (c_Pos_S (23 * r + 9)) +
      den (st 10) * den (c_Pos_S (23 * r + 10)) + den (st 11) * den (c_Pos_S (23 * r + 11)) := by
  simp only [Pos_hash_full_result_seq_loop1, Pos_dot_, Pos_prod_, Pos_add_, Region.set_apply, Region.shift_apply,
    ↓reduceIte, Nat.reduceEqDiff, den_add_r, den_mul_r, den_pow7, Nat.add_zero]

theorem sloop_den (r : Nat) (st : Region) : ∀ i, i < 12 → i ≠ 0 →
    den ((Pos_hash_full_result_seq_loop1 r st) i) =
      den (st i) + (den (st 0) ^ 7 + den (c_Pos_C (r + 60))) * den (c_Pos_S (23 * r + 11 + i)) := by
  refine forall_lt_12 _ (fun h => absurd rfl h) ?_ ?_ ?_ ?_ ?_ ?_ ?_ ?_ ?_ ?_ ?_ <;> intro _ <;>
    simp only [Pos_hash_full_result_seq_loop1, Pos_dot_, Pos_prod_, Pos_add_, Region.set_apply, Region.shift_apply,
      ↓reduceIte, Nat.reduceEqDiff, den_add_r, den_mul_r, den_pow7]

theorem sloop_frame (r : Nat) (st : Region) (i : Nat) (h : 12 ≤ i) : (Pos_hash_full_result_seq_loop1 r st) i = st i := by
  obtain ⟨h0, h1, h2, h3, h4, h5, h6, h7, h8, h9, h10, h11⟩ := ne12 i h
  simp only [Pos_hash_full_result_seq_loop1, Pos_add_, Region.set_apply, h0, h1, h2, h3, h4, h5, h6, h7, h8, h9, h10, h11,
    ↓reduceIte]

/-! #### state-level statements -/

theorem stF_copyN (state input : Region) : stF (Region.copyN state input 12) = stF input := by
  funext i
  have := i.isLt
  simp only [stF_apply, Region.copyN_apply, this, ↓reduceIte]

theorem stF_sadd0 (s : Region) : stF (Pos_add_ s c_Pos_C) = addC 0 (stF s) := by
  funext i
  simp only [stF_apply, addC, C, sadd_den s _ i.val i.isLt, Nat.zero_add]

theorem stF_spow7add (s : Region) (off : Nat) :
    stF (Pos_pow7add_ s (Region.shift c_Pos_C off)) = addC off (sbox (stF s)) := by
  funext i
  simp only [stF_apply, addC, sbox, C, spow7add_den s _ i.val i.isLt, Region.shift_apply]

theorem stF_spow7 (s : Region) : stF (Pos_pow7_ s) = sbox (stF s) := by
  funext i
  simp only [stF_apply, sbox, spow7_den s i.val i.isLt]

theorem stF_smvp (s mat : Region) :
    stF (Pos_mvp_ s mat) = mulMat (fun j i => den (mat (12 * j.val + i.val))) (stF s) := by
  obtain ⟨⟨v0, v1, v2, v3⟩, ⟨v4, v5, v6, v7⟩, ⟨v8, v9, v10, v11⟩⟩ := fin12_val
  funext i
  rw [mulMat_apply]
  simp only [stF_apply, smvp_den s mat i.val i.isLt, v0, v1, v2, v3, v4, v5, v6, v7, v8, v9, v10, v11, Nat.reduceMul,
    Nat.zero_add]

theorem stF_sloop (r : Nat) (st : Region) : stF (Pos_hash_full_result_seq_loop1 r st) = partialRound r (stF st) := by
  obtain ⟨⟨v0, v1, v2, v3⟩, ⟨v4, v5, v6, v7⟩, ⟨v8, v9, v10, v11⟩⟩ := fin12_val
  funext i
  by_cases hi : i = 0
  · subst hi
    rw [partialRound_zero]
    simp only [stF_apply, C, S, v0, v1, v2, v3, v4, v5, v6, v7, v8, v9, v10, v11, sloop_den0, Nat.add_comm 60 r]
  · rw [partialRound_succ _ _ _ hi]
    have hv : i.val ≠ 0 := fun h => hi (Fin.ext h)
    simp only [stF_apply, C, S, v0, sloop_den r st i.val i.isLt hv, Nat.add_comm 60 r]

theorem stF_sloops (s : Region) (n : Nat) :
    stF (Loop.range 0 n 1 s Pos_hash_full_result_seq_loop1) = partialRounds n (stF s) ∧
    ∀ i, 12 ≤ i → (Loop.range 0 n 1 s Pos_hash_full_result_seq_loop1) i = s i := by
  refine Loop.range_inv (fun k t => stF t = partialRounds k (stF s) ∧ ∀ i, 12 ≤ i → t i = s i) _ n s ⟨rfl, fun _ _ => rfl⟩ ?_
  intro r t _ ⟨h1, h2⟩
  refine ⟨?_, fun i hi => ?_⟩
  · rw [stF_sloop, h1]; rfl
  · rw [sloop_frame r t i hi, h2 i hi]


theorem stF_smvp_M (s : Region) : stF (Pos_mvp_ s c_Pos_M) = mulMat M (stF s) := stF_smvp s c_Pos_M
theorem stF_smvp_P (s : Region) : stF (Pos_mvp_ s c_Pos_P) = mulMat Pm (stF s) := stF_smvp s c_Pos_P

/-- the scalar full-result permutation is the specified permutation; nothing beyond the twelve state words is written -/
theorem seq_spec (state input : Region) :
    stF (Pos_hash_full_result_seq state input) = permutation (stF input) ∧
    ∀ i, 12 ≤ i → (Pos_hash_full_result_seq state input) i = state i := by
  refine ⟨?_, fun i hi => ?_⟩
  · simp only [Pos_hash_full_result_seq, stF_smvp_M, stF_smvp_P, stF_spow7add, stF_spow7, stF_sadd0, (stF_sloops _ _).1,
      stF_copyN, permutation, fullRound]
  · have hlt : ¬ i < 12 := by omega
    simp only [Pos_hash_full_result_seq, smvp_frame _ _ i hi, spow7add_frame _ _ i hi, spow7_frame _ i hi,
      sadd_frame _ _ i hi, (stF_sloops _ _).2 i hi, Region.copyN_apply, hlt, ↓reduceIte]

end GoldilocksVerif
