/-
  The constructor tables of the transform object (`mkObj` of Model/Ntt.lean) and the shift-power cache (`computeR`):
  `roots` holds the powers of the library's primitive root (`root o dp idx` denotes `omega dp ^ idx`),
  `powTwoInv[k]` denotes `2^-k`, `computeR` builds `r[i] = 7^i`, `r_[i] = 7^i · powTwoInv[log2 N]`.
-/
import GoldilocksVerif.Lemmas.NttSpec
import GoldilocksVerif.Lemmas.NttArr

namespace GoldilocksVerif.Model.Ntt
open GoldilocksVerif.NttSpec

theorem mkObj_aux_getD_push (a : Buf) (v : W) (j : Nat) :
    (a.push v).getD j 0#64 = if j < a.size then a.getD j 0#64 else if j = a.size then v else 0#64 := by
  rw [Array.getD_eq_getD_getElem?, Array.getD_eq_getD_getElem?, Array.getElem?_push]
  by_cases h1 : j < a.size
  · rw [if_pos h1, if_neg (by omega)]
  · rw [if_neg h1]
    by_cases h2 : j = a.size
    · rw [if_pos h2, if_pos h2]; rfl
    · rw [if_neg h2, if_neg h2]
      have : a[j]? = none := by simp; omega
      rw [this]; rfl

theorem mkObj_aux_getD_push_lt (a : Buf) (v : W) (j : Nat) (h : j < a.size) : (a.push v).getD j 0#64 = a.getD j 0#64 := by
  rw [mkObj_aux_getD_push, if_pos h]

theorem mkObj_aux_getD_push_eq (a : Buf) (v : W) : (a.push v).getD a.size 0#64 = v := by
  rw [mkObj_aux_getD_push, if_neg (by omega), if_pos rfl]

theorem mkObj_aux_den_one_r : den Gen.Scalar.one__r = 1 := den_one

/-- the table of powers built by `a.push (a[i+1] * r)` from `#[1, r]` -/
theorem mkObj_aux_powTable (r : W) (n : Nat) :
    (iter n (#[Gen.Scalar.one__r, r] : Array W) (fun i a => a.push (Gen.Scalar.mul__rEE (a.getD (i + 1) 0#64) r))).size = n + 2 ∧
    ∀ j, j < n + 2 →
      den ((iter n (#[Gen.Scalar.one__r, r] : Array W)
        (fun i a => a.push (Gen.Scalar.mul__rEE (a.getD (i + 1) 0#64) r))).getD j 0#64) = den r ^ j := by
  apply iter_ind (fun i (a : Array W) => a.size = i + 2 ∧ ∀ j, j < i + 2 → den (a.getD j 0#64) = den r ^ j)
  · refine ⟨rfl, ?_⟩
    intro j hj
    have : j = 0 ∨ j = 1 := by omega
    rcases this with rfl | rfl
    · have : (#[Gen.Scalar.one__r, r] : Array W).getD 0 0#64 = Gen.Scalar.one__r := rfl
      rw [this, mkObj_aux_den_one_r, pow_zero]
    · have : (#[Gen.Scalar.one__r, r] : Array W).getD 1 0#64 = r := rfl
      rw [this, pow_one]
  · intro i _ a ⟨hsz, hv⟩
    refine ⟨by rw [Array.size_push, hsz], ?_⟩
    intro j hj
    by_cases h : j < i + 2
    · rw [mkObj_aux_getD_push_lt _ _ _ (by omega)]
      exact hv j h
    · have hj' : j = a.size := by omega
      subst hj'
      rw [mkObj_aux_getD_push_eq, den_mul_r, hv (i + 1) (by omega), hsz, ← pow_succ]

theorem mkObj_aux_toNat_ofNat_small (D : Nat) (hD : D ≤ 32) : (BitVec.ofNat 64 D).toNat = D := by
  rw [BitVec.toNat_ofNat]
  exact Nat.mod_eq_of_lt (Nat.lt_of_le_of_lt hD (by decide))

theorem mkObj_aux_den_w (D : Nat) (hD : D ≤ 32) : den (Gen.Scalar.w__rE (BitVec.ofNat 64 D)) = omega D := by
  unfold omega wtab Gen.Scalar.w__rE Gen.Scalar.c_W
  rw [Region.ofList_apply, mkObj_aux_toNat_ofNat_small D hD]

/-- the clamp `s` of the constructor when it does not throw -/
theorem mkObj_s (D : Nat) (h : ¬ (if D ≤ 1 then 1 else min D 32) < D) :
    D ≤ 32 ∧ 1 ≤ (if D ≤ 1 then 1 else min D 32) ∧ D ≤ (if D ≤ 1 then 1 else min D 32) ∧
    (1 ≤ D → (if D ≤ 1 then 1 else min D 32) = D) := by
  by_cases h1 : D ≤ 1
  · rw [if_pos h1] at h ⊢
    exact ⟨by omega, by omega, by omega, fun _ => by omega⟩
  · rw [if_neg h1] at h ⊢
    have : min D 32 = D := by omega
    rw [this]
    exact ⟨by omega, by omega, by omega, fun _ => rfl⟩

theorem mkObj_aux_two_le_two_pow (s : Nat) (hs : 1 ≤ s) : 2 ≤ 2 ^ s := by
  have := Nat.pow_le_pow_right (n := 2) (by decide) hs
  rw [Nat.pow_one] at this
  exact this

theorem mkObj_aux_idx_shift_lt (D dp idx : Nat) (h2 : dp ≤ D) (h3 : idx < 2 ^ dp) : idx * 2 ^ (D - dp) < 2 ^ D := by
  have e : 2 ^ D = 2 ^ dp * 2 ^ (D - dp) := by
    rw [← Nat.pow_add]; congr 1; omega
  rw [e]
  exact Nat.mul_lt_mul_of_pos_right h3 (Nat.pow_pos (by decide))

theorem mkObj_spec (m e : Nat) (o : Obj) (hm : m ≠ 0) (h : mkObj m e = some o) :
    log2 m ≤ 32 ∧ o.extension = e ∧ o.rcache = none ∧
    (∀ dp idx, 1 ≤ dp → dp ≤ log2 m → idx < 2 ^ dp → den (root o dp idx) = omega dp ^ idx) ∧
    (∀ k, k ≤ log2 m → den (o.powTwoInv.getD k 0#64) * (2 : F) ^ k = 1) := by
  unfold mkObj at h
  rw [if_neg hm] at h
  dsimp only at h
  generalize log2 m = D at h ⊢
  by_cases h1 : (if D ≤ 1 then 1 else min D 32) < D
  · rw [if_pos h1] at h; cases h
  · rw [if_neg h1] at h
    obtain ⟨hD, hs1, hsD, hsEq⟩ := mkObj_s D h1
    generalize (if D ≤ 1 then 1 else min D 32) = s at h hs1 hsD hsEq
    have ho := Option.some.inj h
    subst ho
    refine ⟨hD, rfl, rfl, ?_, ?_⟩
    · intro dp idx hdp1 hdp2 hidx
      have hs : s = D := hsEq (by omega)
      subst hs
      unfold root
      dsimp only
      have hlt : idx * 2 ^ (s - dp) < 2 ^ s - 2 + 2 := by
        have := mkObj_aux_idx_shift_lt s dp idx hdp2 hidx
        have := mkObj_aux_two_le_two_pow s hs1
        omega
      rw [(mkObj_aux_powTable (Gen.Scalar.w__rE (BitVec.ofNat 64 s)) (2 ^ s - 2)).2 _ hlt, mkObj_aux_den_w s hD, pow_mul']
      have := omega_pow_two_pow dp (s - dp) (by omega)
      have e : dp + (s - dp) = s := by omega
      rw [e] at this
      rw [this]
    · intro k hk
      dsimp only
      rw [(mkObj_aux_powTable 9223372034707292161#64 (s - 1)).2 k (by omega), ← mul_pow, den_half, one_pow]

theorem mkObj_some (m e : Nat) (hm : log2 m ≤ 32) : ∃ o, mkObj m e = some o := by
  unfold mkObj
  by_cases h0 : m = 0
  · rw [if_pos h0]; exact ⟨_, rfl⟩
  · rw [if_neg h0]
    dsimp only
    have h1 : ¬ (if log2 m ≤ 1 then 1 else min (log2 m) 32) < log2 m := by
      by_cases h : log2 m ≤ 1
      · rw [if_pos h]; omega
      · rw [if_neg h]; omega
    rw [if_neg h1]
    exact ⟨_, rfl⟩

theorem computeR_spec (o : Obj) (N : Nat) (hN : 0 < N) :
    (computeR o N).1 = N ∧ (computeR o N).2.2.size = N ∧
    ∀ i, i < N → den ((computeR o N).2.2.getD i 0#64) = (7 : F) ^ i * den (o.powTwoInv.getD (log2 N) 0#64) := by
  unfold computeR
  dsimp only
  generalize o.powTwoInv.getD (log2 N) 0#64 = pinv
  have key := iter_ind
    (fun i (st : Array W × Array W) => st.1.size = i + 1 ∧ st.2.size = i + 1 ∧
      ∀ j, j < i + 1 → den (st.1.getD j 0#64) = (7 : F) ^ j ∧ den (st.2.getD j 0#64) = (7 : F) ^ j * den pinv)
    (N - 1) ((#[Gen.Scalar.one__r], #[pinv]) : Array W × Array W)
    (fun i st => (st.1.push (Gen.Scalar.mul__eEE (st.1.getD i 0#64) Gen.Scalar.shift__r),
      st.2.push (Gen.Scalar.mul__eEE (Gen.Scalar.mul__eEE (st.1.getD i 0#64) Gen.Scalar.shift__r) pinv)))
    (by
      refine ⟨rfl, rfl, ?_⟩
      intro j hj
      have hj0 : j = 0 := by omega
      subst hj0
      have e1 : (#[Gen.Scalar.one__r] : Array W).getD 0 0#64 = Gen.Scalar.one__r := rfl
      have e2 : (#[pinv] : Array W).getD 0 0#64 = pinv := rfl
      dsimp only
      rw [e1, e2, mkObj_aux_den_one_r, pow_zero, one_mul]
      exact ⟨rfl, rfl⟩)
    (by
      intro i _ st ⟨hs1, hs2, hv⟩
      dsimp only
      refine ⟨by rw [Array.size_push, hs1], by rw [Array.size_push, hs2], ?_⟩
      intro j hj
      by_cases h : j < i + 1
      · rw [mkObj_aux_getD_push_lt _ _ _ (by omega), mkObj_aux_getD_push_lt _ _ _ (by omega)]
        exact hv j h
      · have hj1 : j = st.1.size := by omega
        have hj2 : j = st.2.size := by omega
        have hji : j = i + 1 := by omega
        have e1 := mkObj_aux_getD_push_eq st.1 (Gen.Scalar.mul__eEE (st.1.getD i 0#64) Gen.Scalar.shift__r)
        have e2 := mkObj_aux_getD_push_eq st.2
          (Gen.Scalar.mul__eEE (Gen.Scalar.mul__eEE (st.1.getD i 0#64) Gen.Scalar.shift__r) pinv)
        rw [← hj1] at e1
        rw [← hj2] at e2
        have hri : den (Gen.Scalar.mul__eEE (st.1.getD i 0#64) Gen.Scalar.shift__r) = (7 : F) ^ j := by
          rw [den_mul, (hv i (by omega)).1, den_shift, hji, ← pow_succ]
        constructor
        · rw [e1, hri]
        · rw [e2, den_mul, hri])
  obtain ⟨_, k2, k3⟩ := key
  refine ⟨rfl, by rw [k2]; omega, ?_⟩
  intro i hi
  exact (k3 i (by omega)).2

end GoldilocksVerif.Model.Ntt
