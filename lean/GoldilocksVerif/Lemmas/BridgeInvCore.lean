/-
  Generic part of the inv / div / exp bridge (independent of Gen/InvGen.lean, hence cached across regenerations).

  The bridge theorems of Lemmas/BridgeInv.lean used to follow the TEXT of the generated loops: they wrote down the state
  tuple of `inv___eE_loop1` (its arity and order = the variables assigned in the loop in order of first assignment),
  the value of every component after one iteration, and the names of the aliased `mul` call patterns of `exp`.  Every
  behaviour-preserving rewrite of the C++ loop (loop-local temporaries, reordered independent updates, swapped operands
  of a commutative exact operation, `while(true)` for `for(;;)`, `== 0` for `!`, `square` for `mul(b,b,b)`) changed one
  of these and broke the proof.

  Here the loops are characterised SEMANTICALLY, for an arbitrary state type `σ` and arbitrary observations
  (`pt pnt pr pnr : σ → BitVec 64` resp. `pres pe pbase`) of the state:

    * `EuclidSim step pt pnt pr pnr`: the step leaves the loop iff `pnr s = 0` (then `pt` is kept), and otherwise
        (pr s').toNat  = (pnr s).toNat mod p                                      (r   := toU64(fromU64 newr))
        pnr s' canonical, den (pnr s') = den (pr s) − den (pr s / pnr s)·den (pnr s)     (newr := r − q·newr in F_p)
        (pt s').toNat  = (pnt s).toNat mod p
        pnt s' canonical, den (pnt s') = den (pt s) − den (pr s / pnr s)·den (pnt s)
      — facts in `Nat` / `F`, closed under commutativity (`ring`), independent of names, of the order of the updates,
      of which temporaries exist and of whether they live in the loop state.  A canonical word is determined by its
      field value (`canon_den_ext`), so these facts pin the next state down bit for bit and `euclid_loop` relates the
      run to `Model.invLoop`.
    * `ExpSim step pres pe pbase`: the step halves `pe` (`Nat` division), continues iff the halved exponent is not 0,
      multiplies `pres` by `pbase` iff the exponent was odd, squares `pbase` when it continues.  `Goldilocks::mul` is
      commutative BIT FOR BIT (`mul_comm_bit`, from the exact characterisation `mul_toNat` of the asm block), so either
      operand order is accepted.

  Lemmas/BridgeInv.lean instantiates these for the generated step functions; the observations are FOUND by search
  (`pick_proj`: the components of the state tuple are tried one after the other and validated by the hypotheses), so
  that file never writes a state tuple down.
-/
import GoldilocksVerif.Model.TrRt
import GoldilocksVerif.Lemmas.InvF

namespace GoldilocksVerif
open Gen.Scalar Model

/-- fuel from which the generated `inv` / `div` (and everything calling them) cannot run out of fuel -/
def invFuel : Nat := 129
/-- fuel from which the generated `exp` cannot run out of fuel -/
def expFuel : Nat := 64

/-! ### generic facts -/

/-- more fuel never changes a result that was reached, seen through the continuation of the loop -/
theorem Loop.whileM_bind_mono {σ τ : Type} (step : σ → Option (Bool × σ)) (k : σ → Option τ) (f g : Nat) (s : σ) (r : τ)
    (h : (Loop.whileM step f s).bind k = some r) (hfg : f ≤ g) : (Loop.whileM step g s).bind k = some r := by
  cases hw : Loop.whileM step f s with
  | none => rw [hw] at h; cases h
  | some st => rw [hw] at h; rw [Loop.whileM_mono step f s st g hw hfg]; exact h

/-- what a step function returns is determined by its flag and … the step function (inversion helper) -/
theorem Loop.step_of_flag {σ : Type} (step : σ → Option (Bool × σ)) (s : σ) (b : Bool)
    (h : Option.map Prod.fst (step s) = some b) : ∃ s', step s = some (b, s') := by
  cases hs : step s with
  | none => rw [hs] at h; cases h
  | some p =>
    obtain ⟨b', s'⟩ := p
    rw [hs] at h
    simp only [Option.map_some, Option.some.injEq] at h
    subst h
    exact ⟨s', rfl⟩

theorem toU64_r_lt (x : BitVec 64) : (toU64__rE x).toNat < P := by
  rw [Model.toU64_r_toNat]; exact Nat.mod_lt _ (by decide)
theorem toU64_e_lt (x : BitVec 64) : (toU64__eE x).toNat < P := toU64_r_lt x

/-- a canonical word is determined by its field value -/
theorem canon_den_ext (x y : BitVec 64) (hx : x.toNat < P) (hy : y.toNat < P) (h : den x = den y) : x = y := by
  apply BitVec.eq_of_toNat_eq
  have := (den_eq_iff x y).mp h
  rwa [Nat.mod_eq_of_lt hx, Nat.mod_eq_of_lt hy] at this

/-- `Goldilocks::mul` is commutative bit for bit: the asm block is a function of the 128-bit product -/
theorem mul_comm_bit (a b : BitVec 64) : mul__eEE a b = mul__eEE b a :=
  BitVec.eq_of_toNat_eq (by rw [mul_toNat, mul_toNat, Nat.mul_comm])

/-- Components of a tuple, as REWRITE rules with a propositional proof (not `rfl`-lemmas): `dsimp` / `rfl` would leave the
    kernel a definitional cast `(a, X, c).2.1 ≡ X`, and when `X` is an application of a translated asm block the kernel
    unfolds THAT first (greater definitional height than `Prod.fst`) and runs out of stack evaluating it. -/
theorem fst_mk' {α β : Type} (a : α) (b : β) : (a, b).1 = a := congrArg id rfl
theorem snd_mk' {α β : Type} (a : α) (b : β) : (a, b).2 = b := congrArg id rfl

/-- a test against zero written with the constant first (`0 != newr`) -/
theorem zero_eq_bv (x : BitVec 64) : (0#64 = x) ↔ (x = 0#64) := eq_comm

theorem mul_comm_bit_r (a b : BitVec 64) : mul__rEE a b = mul__rEE b a := mul_comm_bit a b

/-! ### normal forms of the scalar wrappers (value-returning overloads are the reference overloads) -/
theorem sub_r_eq (a b : BitVec 64) : sub__rEE a b = sub__eEE a b := rfl
theorem mul_r_eq (a b : BitVec 64) : mul__rEE a b = mul__eEE a b := rfl
theorem add_r_eq (a b : BitVec 64) : add__rEE a b = add__eEE a b := rfl
theorem square_r_eq (a : BitVec 64) : square__rE a = mul__eEE a a := rfl
theorem square_e_eq (a : BitVec 64) : square__eE a = mul__eEE a a := rfl
theorem fromU64_e_eq (x : BitVec 64) : fromU64__eE x = x := rfl
theorem toU64_e_eq (x : BitVec 64) : toU64__eE x = toU64__rE x := rfl

/-! ### Euclid loop -/

theorem euclid_halves (a b : Nat) (hb : 0 < b) (h : b ≤ a) : 2 * (b * (a % b)) ≤ a * b := by
  have hm := Nat.mod_lt a hb
  have hd := Nat.div_add_mod a b
  have hq : 1 ≤ a / b := Nat.div_pos h hb
  have hbq : b ≤ b * (a / b) := Nat.le_mul_of_pos_right b hq
  have h2 : 2 * (a % b) ≤ a := by omega
  calc 2 * (b * (a % b)) = (2 * (a % b)) * b := by ring
    _ ≤ a * b := Nat.mul_le_mul_right b h2

theorem invLoop_congr (t r nt nr t' r' nt' nr' : BitVec 64) (hn : nr.toNat < P) (hn' : nr'.toNat < P)
    (e1 : t = t') (e2 : r = r') (e3 : nt = nt') (e4 : nr = nr') :
    invLoop t r nt nr hn = invLoop t' r' nt' nr' hn' := by
  subst e1 e2 e3 e4; rfl

/-- One iteration of the extended Euclid loop of `Goldilocks::inv`, stated on observations of an arbitrary loop state. -/
structure EuclidSim {σ : Type} (step : σ → Option (Bool × σ)) (pt pnt pr pnr : σ → BitVec 64) : Prop where
  /-- the loop continues iff the remainder is not zero -/
  cond : ∀ s, Option.map Prod.fst (step s) = some (decide (pnr s ≠ 0#64))
  /-- leaving the loop keeps `t` -/
  stop : ∀ s s', step s = some (false, s') → pt s' = pt s
  hr : ∀ s s', step s = some (true, s') → (pr s').toNat = (pnr s).toNat % P
  hnr : ∀ s s', step s = some (true, s') →
    (pnr s').toNat < P ∧ den (pnr s') = den (pr s) - den (pr s / pnr s) * den (pnr s)
  ht : ∀ s s', step s = some (true, s') → (pt s').toNat = (pnt s).toNat % P
  hnt : ∀ s s', step s = some (true, s') →
    (pnt s').toNat < P ∧ den (pnt s') = den (pt s) - den (pr s / pnr s) * den (pnt s)

section Euclid
variable {σ : Type} {step : σ → Option (Bool × σ)} {pt pnt pr pnr : σ → BitVec 64}

/-- the loop returns whenever `r·newr < 2^fuel`, and its `t` is the hand model's result -/
theorem euclid_loop (H : EuclidSim step pt pnt pr pnr) : ∀ (fuel : Nat) (s : σ) (hn : (pnr s).toNat < P),
    (pnr s).toNat ≤ (pr s).toNat → (pr s).toNat * (pnr s).toNat < 2 ^ fuel →
    ∃ s', Loop.whileM step (fuel + 1) s = some s' ∧ pt s' = invLoop (pt s) (pr s) (pnt s) (pnr s) hn := by
  have hstop : ∀ (f : Nat) (s : σ) (hn : (pnr s).toNat < P), pnr s = 0#64 →
      ∃ s', Loop.whileM step (f + 1) s = some s' ∧ pt s' = invLoop (pt s) (pr s) (pnt s) (pnr s) hn := by
    intro f s hn h0
    have hc := H.cond s
    rw [show decide (pnr s ≠ 0#64) = false from by simp [h0]] at hc
    obtain ⟨s', hs⟩ := Loop.step_of_flag step s false hc
    exact ⟨s', Loop.whileM_stop _ _ _ _ hs, by rw [H.stop s s' hs, invLoop_of_zero _ _ _ _ hn h0]⟩
  intro fuel
  induction fuel with
  | zero =>
    intro s hn hle hf
    have h0 : pnr s = 0#64 := by
      apply BitVec.eq_of_toNat_eq
      have : (pr s).toNat * (pnr s).toNat = 0 := by omega
      rcases Nat.mul_eq_zero.mp this with h | h
      · show (pnr s).toNat = 0; omega
      · exact h
    exact hstop 0 s hn h0
  | succ f ih =>
    intro s hn hle hf
    by_cases h0 : pnr s = 0#64
    · exact hstop (f + 1) s hn h0
    · have hpos : 0 < (pnr s).toNat := by
        have : (pnr s).toNat ≠ 0 := fun h => h0 (BitVec.eq_of_toNat_eq (by simpa using h))
        omega
      have hc := H.cond s
      rw [show decide (pnr s ≠ 0#64) = true from by simp [h0]] at hc
      obtain ⟨s', hs⟩ := Loop.step_of_flag step s true hc
      -- the next state, bit for bit
      have e_r : pr s' = toU64__rE (fromU64__rE (pnr s)) := by
        apply BitVec.eq_of_toNat_eq
        rw [H.hr s s' hs, Model.toU64_r_toNat, fromU64_eq]
      have e_t : pt s' = toU64__rE (fromU64__rE (pnt s)) := by
        apply BitVec.eq_of_toNat_eq
        rw [H.ht s s' hs, Model.toU64_r_toNat, fromU64_eq]
      have e_nr : pnr s' = stepVal (pr s) (pnr s) (fromU64__rE (pr s / pnr s)) := by
        obtain ⟨hc1, hd1⟩ := H.hnr s s' hs
        exact canon_den_ext _ _ hc1 (toU64_r_lt _) (by rw [hd1, den_stepVal, den_fromU64])
      have e_nt : pnt s' = stepVal (pt s) (pnt s) (fromU64__rE (pr s / pnr s)) := by
        obtain ⟨hc1, hd1⟩ := H.hnt s s' hs
        exact canon_den_ext _ _ hc1 (toU64_r_lt _) (by rw [hd1, den_stepVal, den_fromU64])
      have n_r : (pr s').toNat = (pnr s).toNat := by rw [H.hr s s' hs]; exact Nat.mod_eq_of_lt hn
      have n_nr : (pnr s').toNat = (pr s).toNat % (pnr s).toNat := by rw [e_nr]; exact stepVal_rem _ _ hpos hn
      have hn' : (pnr s').toNat < P := (H.hnr s s' hs).1
      have hle' : (pnr s').toNat ≤ (pr s').toNat := by
        rw [n_r, n_nr]; exact Nat.le_of_lt (Nat.mod_lt _ hpos)
      have hf' : (pr s').toNat * (pnr s').toNat < 2 ^ f := by
        rw [n_r, n_nr]
        have := euclid_halves (pr s).toNat (pnr s).toNat hpos hle
        rw [Nat.pow_succ] at hf
        omega
      obtain ⟨s'', hw, ht⟩ := ih s' hn' hle' hf'
      refine ⟨s'', by rw [Loop.whileM_next _ _ _ _ hs, hw], ?_⟩
      rw [ht, invLoop_succ (pt s) (pr s) (pnt s) (pnr s) hn h0]
      exact invLoop_congr _ _ _ _ _ _ _ _ _ _ e_t e_r e_nt e_nr

/-- the body of the generated `inv`: the loop started as the C++ starts it, followed by `fromU64(result, t)` -/
theorem euclid_bind (H : EuclidSim step pt pnt pr pnr) (init : σ) (a : BitVec 64) (k : σ → Option (BitVec 64))
    (i_t : pt init = 0#64) (i_r : pr init = 18446744069414584321#64) (i_nt : pnt init = 1#64)
    (i_nr : pnr init = toU64__rE a) (hk : ∀ s, k s = some (fromU64__rE (pt s)))
    (fuel : Nat) (hf : invFuel ≤ fuel) :
    (Loop.whileM step fuel init).bind k =
      some (fromU64__rE (invLoop 0#64 18446744069414584321#64 1#64 (toU64__rE a) (toU64_r_lt a))) := by
  have hP : (18446744069414584321#64 : BitVec 64).toNat = P := by decide
  have hn : (pnr init).toNat < P := by rw [i_nr]; exact toU64_r_lt a
  have hle : (pnr init).toNat ≤ (pr init).toNat := by rw [i_r, hP]; omega
  have hprod : (pr init).toNat * (pnr init).toNat < 2 ^ 128 := by
    rw [i_r, hP]
    have h1 : P * (pnr init).toNat < P * P := Nat.mul_lt_mul_of_pos_left hn (by decide)
    have h2 : P * P < 2 ^ 128 := by decide
    omega
  obtain ⟨s', hw, ht⟩ := euclid_loop H 128 init hn hle hprod
  rw [Loop.whileM_mono step 129 _ _ fuel hw hf]
  show k s' = _
  rw [hk, ht]
  exact congrArg (fun x => some (fromU64__rE x)) (invLoop_congr _ _ _ _ _ _ _ _ _ _ i_t i_r i_nt i_nr)

end Euclid

/-! ### exp: right-to-left square and multiply -/

theorem ushiftRight_one_toNat (e : BitVec 64) : (e >>> 1).toNat = e.toNat / 2 := by
  rw [BitVec.toNat_ushiftRight, Nat.shiftRight_eq_div_pow]

theorem ushiftRight_one_eq_zero (e : BitVec 64) : (e >>> 1 = 0#64) ↔ e.toNat / 2 = 0 := by
  constructor
  · intro h; rw [← ushiftRight_one_toNat, h]; rfl
  · intro h; apply BitVec.eq_of_toNat_eq; rw [ushiftRight_one_toNat, h]; rfl

/-- the exponent halved by a division instead of a shift -/
theorem udiv_two_toNat (e : BitVec 64) : (e / 2#64).toNat = e.toNat / 2 := by
  rw [BitVec.toNat_udiv]; rfl

theorem udiv_two_eq_zero (e : BitVec 64) : (e / 2#64 = 0#64) ↔ e.toNat / 2 = 0 := by
  constructor
  · intro h; rw [← udiv_two_toNat, h]; rfl
  · intro h; apply BitVec.eq_of_toNat_eq; rw [udiv_two_toNat, h]; rfl

theorem and_one_toNat (e : BitVec 64) : (e &&& 1#64).toNat = e.toNat % 2 := by
  rw [BitVec.toNat_and]
  show e.toNat &&& 1 = e.toNat % 2
  exact Nat.and_one_is_mod _

theorem and_one_eq_zero (e : BitVec 64) : (e &&& 1#64 = 0#64) ↔ e.toNat % 2 = 0 := by
  constructor
  · intro h; rw [← and_one_toNat, h]; rfl
  · intro h; apply BitVec.eq_of_toNat_eq; rw [and_one_toNat, h]; rfl

theorem and_one_eq_one (e : BitVec 64) : (e &&& 1#64 = 1#64) ↔ e.toNat % 2 = 1 := by
  constructor
  · intro h; rw [← and_one_toNat, h]; rfl
  · intro h; apply BitVec.eq_of_toNat_eq; rw [and_one_toNat, h]; rfl

/-- One iteration of `Goldilocks::exp`, stated on observations of an arbitrary loop state. -/
structure ExpSim {σ : Type} (step : σ → Option (Bool × σ)) (pres pe pbase : σ → BitVec 64) : Prop where
  /-- the loop continues iff the halved exponent is not zero -/
  cond : ∀ s, Option.map Prod.fst (step s) = some (decide ((pe s).toNat / 2 ≠ 0))
  he : ∀ s b s', step s = some (b, s') → (pe s').toNat = (pe s).toNat / 2
  hres : ∀ s b s', step s = some (b, s') →
    pres s' = if (pe s).toNat % 2 = 1 then mul__eEE (pres s) (pbase s) else pres s
  hbase : ∀ s s', step s = some (true, s') → pbase s' = mul__eEE (pbase s) (pbase s)

section Exp
variable {σ : Type} {step : σ → Option (Bool × σ)} {pres pe pbase : σ → BitVec 64}

theorem expLoop_unfold (n : Nat) (result base e : BitVec 64) :
    expLoop (n + 1) result base e =
      if e.toNat / 2 = 0 then (if e.toNat % 2 = 1 then mul__eEE result base else result)
      else expLoop n (if e.toNat % 2 = 1 then mul__eEE result base else result) (mul__eEE base base) (e >>> 1) := by
  have hc : (e &&& 1#64 != 0#64) = decide (e.toNat % 2 = 1) := by
    have := and_one_eq_zero e
    by_cases h : e.toNat % 2 = 1
    · have : ¬ (e &&& 1#64 = 0#64) := fun h' => by have := (and_one_eq_zero e).mp h'; omega
      simp [h, this]
    · have : e &&& 1#64 = 0#64 := (and_one_eq_zero e).mpr (by omega)
      simp [h, this]
  have hz : (e >>> 1 == 0#64) = decide (e.toNat / 2 = 0) := by
    by_cases h : e.toNat / 2 = 0
    · simp [h, (ushiftRight_one_eq_zero e).mpr h]
    · have : ¬ (e >>> 1 = 0#64) := fun h' => h ((ushiftRight_one_eq_zero e).mp h')
      simp [h, this]
  conv => lhs; unfold expLoop
  simp only [hc, hz, decide_eq_true_eq]

/-- the generated loop computes `expLoop n` whenever the exponent has at most n bits (n ≥ 1 iterations) -/
theorem exp_loop (H : ExpSim step pres pe pbase) : ∀ (n : Nat) (s : σ), (pe s).toNat < 2 ^ (n + 1) →
    ∃ s', Loop.whileM step (n + 1) s = some s' ∧ pres s' = expLoop (n + 1) (pres s) (pbase s) (pe s) := by
  intro n
  induction n with
  | zero =>
    intro s h
    have hz : (pe s).toNat / 2 = 0 := by omega
    have hc := H.cond s
    rw [show decide ((pe s).toNat / 2 ≠ 0) = false from by simp [hz]] at hc
    obtain ⟨s', hs⟩ := Loop.step_of_flag step s false hc
    refine ⟨s', Loop.whileM_stop _ _ _ _ hs, ?_⟩
    rw [H.hres s false s' hs, expLoop_unfold, if_pos hz]
  | succ n ih =>
    intro s h
    by_cases hz : (pe s).toNat / 2 = 0
    · have hc := H.cond s
      rw [show decide ((pe s).toNat / 2 ≠ 0) = false from by simp [hz]] at hc
      obtain ⟨s', hs⟩ := Loop.step_of_flag step s false hc
      refine ⟨s', Loop.whileM_stop _ _ _ _ hs, ?_⟩
      rw [H.hres s false s' hs, expLoop_unfold, if_pos hz]
    · have hc := H.cond s
      rw [show decide ((pe s).toNat / 2 ≠ 0) = true from by simp [hz]] at hc
      obtain ⟨s', hs⟩ := Loop.step_of_flag step s true hc
      have e_e : pe s' = pe s >>> 1 := by
        apply BitVec.eq_of_toNat_eq; rw [H.he s true s' hs, ushiftRight_one_toNat]
      have hlt : (pe s').toNat < 2 ^ (n + 1) := by
        rw [H.he s true s' hs]; rw [Nat.pow_succ] at h; omega
      obtain ⟨s'', hw, hr⟩ := ih s' hlt
      refine ⟨s'', by rw [Loop.whileM_next _ _ _ _ hs, hw], ?_⟩
      rw [hr, H.hres s true s' hs, H.hbase s s' hs, e_e]
      conv => rhs; rw [expLoop_unfold, if_neg hz]

/-- the body of the generated `exp`: `result = one()`, the loop, `result` -/
theorem exp_bind (H : ExpSim step pres pe pbase) (init : σ) (b e : BitVec 64) (k : σ → Option (BitVec 64))
    (i_res : pres init = one__r) (i_e : pe init = e) (i_base : pbase init = b) (hk : ∀ s, k s = some (pres s))
    (fuel : Nat) (hf : expFuel ≤ fuel) :
    (Loop.whileM step fuel init).bind k = some (Model.exp b e) := by
  obtain ⟨s', hw, hr⟩ := exp_loop H 63 init (by rw [i_e]; exact e.isLt)
  rw [Loop.whileM_mono step 64 _ _ fuel hw (by unfold expFuel at hf; omega)]
  show k s' = _
  rw [hk, hr, i_res, i_e, i_base]
  rfl

end Exp


/-! ### products as the generated text forms them -/

open Lean Meta Elab Tactic in
/-- unfold the head of `e` as long as it is a generated definition (namespace `Gen`), reducing `let`s / β at the head -/
partial def unfoldGenHead (e : Expr) : MetaM Expr := do
  let e ← whnfCore e
  match e.getAppFn with
  | .const n _ =>
    if n.getRoot == `Gen then
      match ← delta? e with
      | some e' => unfoldGenHead e'
      | none => pure e
    else pure e
  | _ => pure e

open Lean Meta Elab Tactic in
/-- `lhs = mul__eEE a b` (or `mul__rEE a b`) where `lhs` is any generated overload / aliased call pattern of `mul` / `square` (whatever its
    name) applied to the same operands in either order.  The unfolded texts are compared SYNTACTICALLY (a failing
    definitional-equality search through two asm blocks runs into the recursion limit, which `first` cannot catch), then the
    goal is closed by `rfl` resp. `mul_comm_bit`; the kernel re-checks that term. -/
elab "mul_form" : tactic => withMainContext do
  let g ← getMainGoal
  let t ← instantiateMVars (← g.getType)
  let some (_, lhs, rhs) := t.eq? | throwError "mul_form: not an equation"
  let l ← unfoldGenHead lhs
  let r ← unfoldGenHead rhs
  if l == r then
    -- an auxiliary theorem: the kernel compares the two asm blocks at the top of its stack, not deep inside the proof
    g.assign (← mkAuxTheorem t (← mkEqRefl lhs))
    return
  let fn := rhs.getAppFn
  let args := rhs.getAppArgs
  if (fn.isConstOf ``Gen.Scalar.mul__eEE || fn.isConstOf ``Gen.Scalar.mul__rEE) && args.size == 2 then
    let rhs' := mkApp2 fn args[1]! args[0]!
    let r' ← unfoldGenHead rhs'
    if l == r' then
      let p1 ← mkAuxTheorem (← mkEq lhs rhs') (← mkEqRefl lhs)
      let comm := if fn.isConstOf ``Gen.Scalar.mul__eEE then ``GoldilocksVerif.mul_comm_bit else ``GoldilocksVerif.mul_comm_bit_r
      let p2 ← mkAppM comm #[args[1]!, args[0]!]
      g.assign (← mkEqTrans p1 p2)
      return
  throwError "mul_form: the two sides are different texts"

open Lean Meta Elab Tactic in
/-- `base` when the last component of `n` is `<base>_al_…` (an aliased call pattern emitted by the translator) -/
def aliasBase? (n : Name) : Option String :=
  match n with
  | .str _ s =>
    match s.splitOn "_al_" with
    | base :: _ :: _ => some base
    | _ => none
  | _ => none

open Lean Meta Elab Tactic in
/-- all tuples of length `m` over `xs` -/
def tuplesOf (xs : Array Expr) : Nat → List (Array Expr)
  | 0 => [#[]]
  | m + 1 => (tuplesOf xs m).flatMap fun t => xs.toList.map fun x => t.push x

open Lean Meta Elab Tactic in
/-- the distinct applications of the constant `c` to `arity` arguments inside `t` -/
partial def collectApps (c : Name) (arity : Nat) (e : Expr) (acc : Array Expr) : Array Expr :=
  let acc := if e.getAppFn.isConstOf c && e.getAppNumArgs == arity && !acc.contains e then acc.push e else acc
  match e with
  | .app f a => collectApps c arity a (collectApps c arity f acc)
  | .lam _ d b _ => collectApps c arity b (collectApps c arity d acc)
  | .forallE _ d b _ => collectApps c arity b (collectApps c arity d acc)
  | .letE _ ty v b _ => collectApps c arity b (collectApps c arity v (collectApps c arity ty acc))
  | .mdata _ b => collectApps c arity b acc
  | .proj _ _ b => collectApps c arity b acc
  | _ => acc

open Lean Meta Elab Tactic in
/-- Replace every application of an aliased call pattern `f_al_… a b` (the translator's specialisation of `f` to a call
    whose arguments share storage) in the goal by the application of `f` itself it is definitionally equal to.  The
    arguments of `f` are found by comparing the unfolded texts SYNTACTICALLY, so nothing depends on the alias' name. -/
def dealiasFind (tgt : Expr) : MetaM (Array (Expr × Expr)) := do
  let env ← getEnv
  let cands := tgt.foldConsts (init := (#[] : Array Name)) fun n acc =>
    if n.getRoot == `Gen && (aliasBase? n).isSome then acc.push n else acc
  let mut found : Array (Expr × Expr) := #[]
  for c in cands do
    let some base := aliasBase? c | continue
    -- the function the alias specialises: same last component, any generated module
    let bases := env.constants.fold (init := (#[] : Array Name)) fun acc n _ =>
      match n with
      | .str _ s => if s == base && n.getRoot == `Gen then acc.push n else acc
      | _ => acc
    let some cinfo := env.find? c | continue
    let arity := cinfo.type.getForallBinderNames.length
    for e in collectApps c arity tgt #[] do
      if e.hasLooseBVars then continue
      let args := e.getAppArgs
      let ue ← unfoldGenHead e
      let mut done := false
      for b in bases do
        if done then break
        let some binfo := env.find? b | continue
        let m := binfo.type.getForallBinderNames.length
        for t in tuplesOf args m do
          if done then break
          let cand := mkAppN (mkConst b) t
          if !(← isTypeCorrect cand) then continue
          let uc ← unfoldGenHead cand
          if uc == ue then
            found := found.push (e, cand)
            done := true
  return found

open Lean Meta Elab Tactic in
/-- see `dealiasFind`.  Every equation `alias … = f …` becomes an auxiliary theorem proved by `rfl` (so the kernel compares
    the two texts at the top of its stack, not deep inside a proof term) and the goal is rewritten with it; nested aliased
    calls are resolved from the outside in. -/
elab "gen_dealias" : tactic => withMainContext do
  for _ in [0:16] do
    let g ← getMainGoal
    let tgt ← instantiateMVars (← g.getType)
    let found ← dealiasFind tgt
    if found.isEmpty then break
    let mut g := g
    for (e, cand) in found do
      let pr ← mkAuxTheorem (← mkEq e cand) (← mkEqRefl e)
      let tgt ← instantiateMVars (← g.getType)
      let r ← g.rewrite tgt pr
      g ← g.replaceTargetEq r.eNew r.eqProof
    replaceMainGoal [g]

/-! ### search for the observations

  `pick_proj x => tac`: assign the pending goal `?x : σ → BitVec 64` (σ a right-nested tuple of up to 12 components)
  to one projection after the other and keep the first for which `tac` succeeds (`tac` validates the choice and may
  contain further `pick_proj`s: the search backtracks).  Components of another type are skipped (type error). -/
syntax "pick_proj " ident " => " tacticSeq : tactic
macro_rules
  | `(tactic| pick_proj $x => $t) => do
    let msg := Lean.Syntax.mkStrLit
      s!"pick_proj: no component of the generated loop state satisfies the obligations of the observation `{x.getId}` (or of the observations chosen after it): the loop no longer performs the modelled step"
    `(tactic| first
      | ((case $x:ident => exact fun s => s); ($t))
      | ((case $x:ident => exact fun s => s.1); ($t))
      | ((case $x:ident => exact fun s => s.2); ($t))
      | ((case $x:ident => exact fun s => s.2.1); ($t))
      | ((case $x:ident => exact fun s => s.2.2); ($t))
      | ((case $x:ident => exact fun s => s.2.2.1); ($t))
      | ((case $x:ident => exact fun s => s.2.2.2); ($t))
      | ((case $x:ident => exact fun s => s.2.2.2.1); ($t))
      | ((case $x:ident => exact fun s => s.2.2.2.2); ($t))
      | ((case $x:ident => exact fun s => s.2.2.2.2.1); ($t))
      | ((case $x:ident => exact fun s => s.2.2.2.2.2); ($t))
      | ((case $x:ident => exact fun s => s.2.2.2.2.2.1); ($t))
      | ((case $x:ident => exact fun s => s.2.2.2.2.2.2); ($t))
      | ((case $x:ident => exact fun s => s.2.2.2.2.2.2.1); ($t))
      | ((case $x:ident => exact fun s => s.2.2.2.2.2.2.2); ($t))
      | ((case $x:ident => exact fun s => s.2.2.2.2.2.2.2.1); ($t))
      | ((case $x:ident => exact fun s => s.2.2.2.2.2.2.2.2); ($t))
      | ((case $x:ident => exact fun s => s.2.2.2.2.2.2.2.2.1); ($t))
      | ((case $x:ident => exact fun s => s.2.2.2.2.2.2.2.2.2); ($t))
      | ((case $x:ident => exact fun s => s.2.2.2.2.2.2.2.2.2.1); ($t))
      | ((case $x:ident => exact fun s => s.2.2.2.2.2.2.2.2.2.2); ($t))
      | ((case $x:ident => exact fun s => s.2.2.2.2.2.2.2.2.2.2.1); ($t))
      | ((case $x:ident => exact fun s => s.2.2.2.2.2.2.2.2.2.2.2); ($t))
      | fail $msg)

end GoldilocksVerif
