/-
  Bridge: the TRANSLATED batched Merkle builders `merkletree_batch_seq` and `merkletree_batch_avx` (Gen/MerkleGen.lean,
  regenerated from poseidon_goldilocks.cpp on every run) build `Model.merkleTree (Model.batchLeaf lh cols dim batch) node`.

  Shape of the argument
    * `mtTailG`: everything after the leaf phase (`while (pending > 1)` with its initialisation) is ONE text for all eight
      builders; `mtTailG_spec` (from `mt_levels` of Lemmas/BridgeMerkle.lean): if the leaf phase returns a buffer whose
      first 4·2^k words are `leaves` and which is otherwise the old buffer, the builder returns
      `leaves ++ upperLevels node 2^k 2^k leaves` in the first 4·(2·2^k − 1) words and writes nothing else.
    * `fill_spec`: a counted loop whose iteration m hands out `buf + c·m` to a writer of c words `D m` (and nothing else)
      leaves `(range N).flatMap D` in the first c·N words.  Used for the leaf loops (c = 4; c = 8 for the AVX512 builders
      in Lemmas/BridgeMerkle512.lean) and for the inner loop over the column batches.
    * `mtb_seq_generic`, `mtb_avx_generic`: the two generated batched builders EQUAL the reference text
      (`mtbInnerG`, `mtbLeafG`, `mtTailG`) instantiated with the translated linear hash and capacity-sized hash they call;
      proved extensionally (`gen_equiv`, Lemmas/BridgeEquiv.lean), see Lemmas/BridgeMerkle.lean.
    * `mtbGenG_spec`: for rows = 2^k (k ≤ 48), rows·cols·dim < 2^64, batch_size ≥ 1, cols + batch_size < 2^62,
      fuel > rows, > cols·dim, > 4·(cols + 1).
  num_cols = 0: nbatches = 1, nlastb = 0: the leaf is lh (lh []) on both sides.
-/
import GoldilocksVerif.Lemmas.BridgeMerkle
set_option linter.unusedSimpArgs false

namespace GoldilocksVerif
open Model Gen.MerkleGen

/-! ### the level loop, shared by all builders -/

/-- everything after the leaf phase -/
def mtTailG (H : Region → Region → Region) (fuel : Nat) (leafPhase : Option Region) (num_rows : BitVec 64) : Option Region :=
  leafPhase.bind fun st_2 =>
  let tree := st_2
  let pending : BitVec 64 := num_rows
  let nextN : BitVec 64 := (F64.toU64 (F64.add (F64.floor (F64.ofU64 ((pending - 1#64) / 2#64))) (F64.ofNat 1)))
  let nextIndex : BitVec 64 := 0#64
  (Loop.whileM (mtLevelG H) fuel (tree, nextIndex, pending, nextN)).bind fun st_5 =>
  let tree := st_5.1
  some tree

theorem mtTailG_spec (H : Region → Region → Region) (nodeF : List Wd → List Wd) (hH : NodeHash H nodeF)
    (fuel : Nat) (tree : Region) (num_rows : BitVec 64) (k : Nat)
    (hR : num_rows.toNat = 2 ^ k) (hk : k ≤ 48) (hf2 : 2 ^ k < fuel)
    (lp : Option Region) (leaves : List Wd)
    (hlp : ∃ t0, lp = some t0 ∧ Region.toList t0 (4 * 2 ^ k) = leaves ∧ ∀ j, 4 * 2 ^ k ≤ j → t0 j = tree j) :
    ∃ t, mtTailG H fuel lp num_rows = some t ∧
      Region.toList t (4 * (2 * 2 ^ k - 1)) =
        leaves ++ upperLevels (fun x => nodeF (x ++ zeros 4)) (2 ^ k) (2 ^ k) leaves ∧
      ∀ i, 4 * (2 * 2 ^ k - 1) ≤ i → t i = tree i := by
  obtain ⟨t0, rfl, hl0, hfr0⟩ := hlp
  have hkpos : 0 < 2 ^ k := Nat.two_pow_pos k
  have hk48 := pow_le_48 k hk
  have e_n0 : (F64.toU64 (F64.add (F64.floor (F64.ofU64 ((num_rows - 1#64) / 2#64))) (F64.ofNat 1))).toNat =
      (if k = 0 then 1 else 2 ^ (k - 1)) := by
    have ex : ((num_rows - 1#64) / 2#64).toNat = (2 ^ k - 1) / 2 := by
      rw [BitVec.toNat_udiv, BitVec.toNat_sub, hR]
      show (2 ^ 64 - 1 + 2 ^ k) % 2 ^ 64 / 2 = _
      omega
    rw [nextN_val _ (by rw [ex]; omega), ex, half_pow]
  obtain ⟨s', hw', hM, hfr⟩ := mt_levels H nodeF hH
    (leaves ++ upperLevels (fun x => nodeF (x ++ zeros 4)) (2 ^ k) (2 ^ k) leaves) tree k hk fuel
    (t0, 0#64, num_rows, F64.toU64 (F64.add (F64.floor (F64.ofU64 ((num_rows - 1#64) / 2#64))) (F64.ofNat 1)))
    ⟨k, Nat.le_refl _, hR, by simp, e_n0, by
      simp only [Nat.sub_self, Nat.mul_zero, Nat.zero_add, Region.shift_zero]
      rw [hl0, upperLevels_fuel _ k (2 ^ k) k _ (Nat.le_of_lt Nat.lt_two_pow_self) (Nat.le_refl _)],
     fun i hi => hfr0 i (by omega)⟩ (by simp only; omega)
  refine ⟨s'.1, ?_, hM, hfr⟩
  unfold mtTailG
  simp only [Option.bind_some]
  rw [hw']
  rfl

/-- `merkleTree` is the leaves followed by the upper levels -/
theorem merkleTree_rowsOf (leaf node : List Wd → List Wd) (input : Region) (w R : Nat) :
    merkleTree leaf node (rowsOf input w R) =
      (List.range R).flatMap (fun i => leaf (rowOf input w i)) ++
        upperLevels node R R ((List.range R).flatMap (fun i => leaf (rowOf input w i))) := by
  unfold merkleTree rowsOf
  simp only [List.length_map, List.length_range, List.flatMap_map]

/-! ### counted loops that fill a buffer c words at a time -/

theorem rangeM_zero_one {σ : Type} (R : Nat) (s : σ) (f : Nat → σ → Option σ) :
    Loop.rangeM 0 R 1 s f = Loop.rangeMAux 1 f R 0 s := by
  unfold Loop.rangeM
  simp

/-- `G out` returns, writes the c words `D` to the beginning of `out` and nothing else -/
def DigestWriter (c : Nat) (G : Region → Option Region) (D : List Wd) : Prop :=
  ∀ out, ∃ out', G out = some out' ∧ Region.toList out' c = D ∧ ∀ k, c ≤ k → out' k = out k

theorem fill_spec (c : Nat) (f : Nat → Region → Option Region) (G : Nat → Region → Option Region) (D : Nat → List Wd)
    (N : Nat)
    (hf : ∀ m, m < N → ∀ t, f m t = (G m (Region.shift t (c * m))).bind fun r => some (Region.unshift t (c * m) r))
    (hG : ∀ m, m < N → DigestWriter c (G m) (D m)) (t : Region) :
    ∃ t', Loop.rangeMAux 1 f N 0 t = some t' ∧ Region.toList t' (c * N) = (List.range N).flatMap D ∧
      ∀ j, c * N ≤ j → t' j = t j := by
  refine Loop.rangeMAux_inv f
    (fun m t' => Region.toList t' (c * m) = (List.range m).flatMap D ∧ ∀ j, c * m ≤ j → t' j = t j) N ?_ N 0 t
    (by omega) ⟨by simp [Region.toList], fun j _ => rfl⟩
  intro m tm hm ⟨hl, hfr⟩
  obtain ⟨out', ho, hd, hofr⟩ := hG m hm (Region.shift tm (c * m))
  refine ⟨Region.unshift tm (c * m) out', by rw [hf m hm, ho]; rfl, ?_, ?_⟩
  · have e4 : c * (m + 1) = c * m + c := Nat.mul_succ c m
    rw [e4, toList_add, List.range_succ, List.flatMap_append, ← hl]
    congr 1
    · exact toList_congr _ _ _ (fun j hj => by rw [Region.unshift_apply, if_neg (by omega)])
    · have : Region.toList (Region.shift (Region.unshift tm (c * m) out') (c * m)) c = Region.toList out' c :=
        toList_congr _ _ _ (fun j _ => by
          rw [Region.shift_apply, Region.unshift_apply, if_pos (by omega)]; congr 1; omega)
      rw [this, hd]
      simp
  · intro j hj
    have e4 : c * (m + 1) = c * m + c := Nat.mul_succ c m
    rw [Region.unshift_apply, if_pos (by omega), hofr _ (by omega), Region.shift_apply]
    have : c * m + (j - c * m) = j := by omega
    rw [this]
    exact hfr j (by omega)

/-! ### the generated text of the batched builders, generic in the two hash calls -/

def mtbInnerG (LH : Nat → Region → Region → BitVec 64 → Option Region) (fuel : Nat) (input : Region)
    (num_cols batch_size dim nbatches nlastb : BitVec 64) (i j : Nat) (st__ : Region) : Option Region :=
  let buff0 := st__
  let nn : BitVec 64 := batch_size
  let nn := if ((BitVec.ofNat 64 j) == (nbatches - 1#64)) then
      let nn := nlastb
      nn
    else
      nn
  (LH fuel (Region.shift buff0 (4 * j)) (Region.shift input (((((BitVec.ofNat 64 i) * num_cols) * dim) + (((BitVec.ofNat 64 j) * batch_size) * dim))).toNat) (nn * dim)).bind fun r_1 =>
  let buff0 := (Region.unshift buff0 (4 * j) r_1)
  some buff0

def mtbLeafG (LH : Nat → Region → Region → BitVec 64 → Option Region) (fuel : Nat) (input : Region)
    (num_cols batch_size dim nbatches nlastb : BitVec 64) (i : Nat) (st__ : Region) : Option Region :=
  let tree := st__
  let buff0 : Region := Region.zero
  (Loop.rangeM 0 (nbatches).toNat 1 buff0 (mtbInnerG LH fuel input num_cols batch_size dim nbatches nlastb i)).bind fun st_2 =>
  let buff0 := st_2
  (LH fuel (Region.shift tree (4 * i)) buff0 (nbatches * 4#64)).bind fun r_3 =>
  let tree := (Region.unshift tree (4 * i) r_3)
  some tree

/-- `nbatches`, `nlastb` as the code computes them -/
def nbBV (num_cols batch_size : BitVec 64) : BitVec 64 :=
  if (decide (num_cols > 0#64)) then (((num_cols + batch_size) - 1#64) / batch_size) else 1#64
def nlastBV (num_cols batch_size : BitVec 64) : BitVec 64 :=
  (num_cols - ((nbBV num_cols batch_size - 1#64) * batch_size))

def mtbGenG (LH : Nat → Region → Region → BitVec 64 → Option Region) (H : Region → Region → Region) (fuel : Nat)
    (tree input : Region) (num_cols num_rows batch_size : BitVec 64) (dim : BitVec 64) : Option Region :=
  if (num_rows == 0#64) then
    some tree
  else
    mtTailG H fuel (Loop.rangeM 0 (num_rows).toNat 1 tree
      (mtbLeafG LH fuel input num_cols batch_size dim (nbBV num_cols batch_size) (nlastBV num_cols batch_size))) num_rows

theorem mtb_seq_generic (fuel : Nat) (tree input : Region) (num_cols num_rows batch_size : BitVec 64) (nThreads : Int)
    (dim : BitVec 64) :
    Pos_merkletree_batch_seq fuel tree input num_cols num_rows batch_size nThreads dim =
      mtbGenG Gen.LinearHashGen.Pos_linear_hash_seq Gen.PosScalar.Pos_hash_seq fuel tree input num_cols num_rows
        batch_size dim := by
  delta mtbGenG mtTailG mtbLeafG mtbInnerG mtLevelG mtNodeG nlastBV nbBV
  delta_prefix "Gen.MerkleGen."
  gen_equiv

theorem mtb_avx_generic (fuel : Nat) (tree input : Region) (num_cols num_rows batch_size : BitVec 64) (nThreads : Int)
    (dim : BitVec 64) :
    Pos_merkletree_batch_avx fuel tree input num_cols num_rows batch_size nThreads dim =
      mtbGenG Gen.LinearHashGen.Pos_linear_hash Gen.PosAvx2.Pos_hash fuel tree input num_cols num_rows
        batch_size dim := by
  delta mtbGenG mtTailG mtbLeafG mtbInnerG mtLevelG mtNodeG nlastBV nbBV
  delta_prefix "Gen.MerkleGen."
  gen_equiv

/-! ### the batch arithmetic -/

/-- `nbatches`, `nlastb`, the width of batch j, over the naturals (as in `Model.batchLeaf`) -/
def nbOf (cols batch : Nat) : Nat := if cols > 0 then (cols + batch - 1) / batch else 1
def nlastOf (cols batch : Nat) : Nat := cols - (nbOf cols batch - 1) * batch
def nnOf (cols batch j : Nat) : Nat := if j = nbOf cols batch - 1 then nlastOf cols batch else batch

theorem nbOf_pos (cols batch : Nat) (hb : 1 ≤ batch) : 1 ≤ nbOf cols batch := by
  unfold nbOf
  by_cases hc : cols > 0
  · rw [if_pos hc]
    exact (Nat.le_div_iff_mul_le (by omega)).2 (by omega)
  · rw [if_neg hc]; omega

theorem nbOf_le (cols batch : Nat) (hb : 1 ≤ batch) : nbOf cols batch ≤ cols + 1 := by
  unfold nbOf
  by_cases hc : cols > 0
  · rw [if_pos hc]
    have h1 : cols + batch - 1 ≤ batch * cols := by
      obtain ⟨c', rfl⟩ : ∃ c', cols = c' + 1 := ⟨cols - 1, by omega⟩
      have : c' ≤ batch * c' := Nat.le_mul_of_pos_left _ (by omega)
      rw [Nat.mul_succ]; omega
    have := Nat.div_le_of_le_mul h1
    omega
  · rw [if_neg hc]; omega

/-- the batches before the last one fit into the columns -/
theorem nb_pred_mul_le (cols batch : Nat) (hb : 1 ≤ batch) : (nbOf cols batch - 1) * batch ≤ cols := by
  unfold nbOf
  by_cases hc : cols > 0
  · rw [if_pos hc]
    have h1 := Nat.div_mul_le_self (cols + batch - 1) batch
    have h2 : 1 ≤ (cols + batch - 1) / batch := (Nat.le_div_iff_mul_le (by omega)).2 (by omega)
    rw [Nat.sub_mul, Nat.one_mul]
    omega
  · rw [if_neg hc]; simp

theorem nlast_add (cols batch : Nat) (hb : 1 ≤ batch) : (nbOf cols batch - 1) * batch + nlastOf cols batch = cols := by
  have := nb_pred_mul_le cols batch hb
  unfold nlastOf
  omega

/-- batch j lies inside the row -/
theorem batch_in_cols (cols batch j : Nat) (hb : 1 ≤ batch) (hj : j < nbOf cols batch) :
    j * batch + nnOf cols batch j ≤ cols := by
  have h2 := nlast_add cols batch hb
  unfold nnOf
  by_cases hl : j = nbOf cols batch - 1
  · rw [if_pos hl, hl]; omega
  · rw [if_neg hl]
    have h3 : (j + 1) * batch ≤ (nbOf cols batch - 1) * batch := Nat.mul_le_mul_right _ (by omega)
    rw [Nat.succ_mul] at h3
    omega

theorem batch_in_row (cols batch dim j : Nat) (hb : 1 ≤ batch) (hj : j < nbOf cols batch) :
    j * batch * dim + nnOf cols batch j * dim ≤ cols * dim := by
  rw [← Nat.add_mul]
  exact Nat.mul_le_mul_right _ (batch_in_cols cols batch j hb hj)

theorem mul3_toNat (x y z : BitVec 64) (h : x.toNat * y.toNat * z.toNat < 2 ^ 64) :
    ((x * y) * z).toNat = x.toNat * y.toNat * z.toNat := by
  rw [BitVec.toNat_mul, BitVec.toNat_mul, Nat.mod_mul_mod]
  exact Nat.mod_eq_of_lt h

theorem ofNat_toNat_lt (j : Nat) (h : j < 2 ^ 64) : (BitVec.ofNat 64 j).toNat = j := by
  rw [BitVec.toNat_ofNat]
  exact Nat.mod_eq_of_lt h

theorem nbBV_toNat (num_cols batch_size : BitVec 64) (hb : 1 ≤ batch_size.toNat)
    (hcb : num_cols.toNat + batch_size.toNat < 2 ^ 64) :
    (nbBV num_cols batch_size).toNat = nbOf num_cols.toNat batch_size.toNat := by
  have h1 : (1#64 : BitVec 64).toNat = 1 := rfl
  have h0 : (0#64 : BitVec 64).toNat = 0 := rfl
  unfold nbBV nbOf
  by_cases hc : num_cols > 0#64
  · have hc' : num_cols.toNat > 0 := by rw [gt_iff_lt, BitVec.lt_def, h0] at hc; exact hc
    rw [if_pos (by simpa using hc), if_pos hc', BitVec.toNat_udiv, BitVec.toNat_sub, BitVec.toNat_add, h1]
    congr 1
    omega
  · have hc' : ¬ num_cols.toNat > 0 := by rw [gt_iff_lt, BitVec.lt_def, h0] at hc; exact hc
    rw [if_neg (by simpa using hc), if_neg hc', h1]

theorem nlastBV_toNat (num_cols batch_size : BitVec 64) (hb : 1 ≤ batch_size.toNat)
    (hcb : num_cols.toNat + batch_size.toNat < 2 ^ 64) :
    (nlastBV num_cols batch_size).toNat = nlastOf num_cols.toNat batch_size.toNat := by
  have h1 : (1#64 : BitVec 64).toNat = 1 := rfl
  have hnb := nbBV_toNat num_cols batch_size hb hcb
  have hpos := nbOf_pos num_cols.toNat batch_size.toNat hb
  have hle := nb_pred_mul_le num_cols.toNat batch_size.toNat hb
  have e1 : (nbBV num_cols batch_size - 1#64).toNat = nbOf num_cols.toNat batch_size.toNat - 1 := by
    rw [BitVec.toNat_sub, hnb, h1]; omega
  have e2 : ((nbBV num_cols batch_size - 1#64) * batch_size).toNat =
      (nbOf num_cols.toNat batch_size.toNat - 1) * batch_size.toNat := by
    rw [BitVec.toNat_mul, e1]
    exact Nat.mod_eq_of_lt (by omega)
  unfold nlastBV nlastOf
  rw [BitVec.toNat_sub, e2]
  omega

/-! ### the leaf phase of the batched builders -/

theorem shift_shift (r : Region) (a b : Nat) : Region.shift (Region.shift r a) b = Region.shift r (a + b) := by
  ext i
  simp only [Region.shift_apply, Nat.add_assoc]

theorem batchLeaf_eq (lh : List Wd → List Wd) (c d b : Nat) (row : List Wd) :
    batchLeaf lh c d b row =
      lh ((List.range (nbOf c b)).flatMap fun j => lh ((row.drop (j * b * d)).take (nnOf c b j * d))) := rfl

/-- word offset of batch j of row i and its width, as the code computes them -/
theorem batch_offset (num_cols batch_size dim : BitVec 64) (c b d R i j : Nat)
    (hc : num_cols.toNat = c) (hbv : batch_size.toNat = b) (hd : dim.toNat = d) (hb : 1 ≤ b) (hi : i < R)
    (hj : j < nbOf c b) (hprod : R * (c * d) < 2 ^ 64) :
    (((BitVec.ofNat 64 i) * num_cols) * dim + ((BitVec.ofNat 64 j) * batch_size) * dim).toNat = i * (c * d) + j * b * d := by
  have hrow := batch_in_row c b d j hb hj
  have hR : (i + 1) * (c * d) ≤ R * (c * d) := Nat.mul_le_mul_right _ (by omega)
  rw [Nat.succ_mul] at hR
  have hjlt : j < 2 ^ 64 := by
    have := nbOf_le c b hb
    have : c < 2 ^ 64 := by rw [← hc]; exact num_cols.isLt
    omega
  have e1 : (((BitVec.ofNat 64 i) * num_cols) * dim).toNat = i * (c * d) := by
    have := row_index num_cols dim R i hi (by rw [hc, hd]; exact hprod)
    rw [hc, hd] at this
    exact this
  have e2 : (((BitVec.ofNat 64 j) * batch_size) * dim).toNat = j * b * d := by
    have := mul3_toNat (BitVec.ofNat 64 j) batch_size dim (by rw [ofNat_toNat_lt j hjlt, hbv, hd]; omega)
    rw [ofNat_toNat_lt j hjlt, hbv, hd] at this
    exact this
  rw [BitVec.toNat_add, e1, e2]
  exact Nat.mod_eq_of_lt (by omega)

theorem batch_width (batch_size dim nbatches nlastb : BitVec 64) (c b d j : Nat)
    (hbv : batch_size.toNat = b) (hd : dim.toNat = d) (hb : 1 ≤ b) (_hc64 : c < 2 ^ 64) (hcd : c * d < 2 ^ 64)
    (hnb : nbatches.toNat = nbOf c b) (hnl : nlastb.toNat = nlastOf c b) (hj : j < nbOf c b) :
    ((if ((BitVec.ofNat 64 j) == (nbatches - 1#64)) then nlastb else batch_size) * dim).toNat = nnOf c b j * d := by
  have h1 : (1#64 : BitVec 64).toNat = 1 := rfl
  have hrow := batch_in_row c b d j hb hj
  have hpos := nbOf_pos c b hb
  have hjlt : j < 2 ^ 64 := by
    have := nbOf_le c b hb
    omega
  have epred : (nbatches - 1#64).toNat = nbOf c b - 1 := by
    rw [BitVec.toNat_sub, hnb, h1]; omega
  by_cases hl : j = nbOf c b - 1
  · have hcond : ((BitVec.ofNat 64 j) == (nbatches - 1#64)) = true := by
      rw [beq_iff_eq]
      exact BitVec.eq_of_toNat_eq (by rw [ofNat_toNat_lt j hjlt, epred, hl])
    have hnn : nnOf c b j = nlastOf c b := by unfold nnOf; rw [if_pos hl]
    rw [if_pos hcond, BitVec.toNat_mul, hnl, hd, hnn]
    rw [hnn] at hrow
    exact Nat.mod_eq_of_lt (by omega)
  · have hcond : ¬ ((BitVec.ofNat 64 j) == (nbatches - 1#64)) = true := by
      rw [beq_iff_eq]
      intro h
      have := congrArg BitVec.toNat h
      rw [ofNat_toNat_lt j hjlt, epred] at this
      exact hl this
    have hnn : nnOf c b j = b := by unfold nnOf; rw [if_neg hl]
    rw [if_neg hcond, BitVec.toNat_mul, hbv, hd, hnn]
    rw [hnn] at hrow
    exact Nat.mod_eq_of_lt (by omega)

/-- the inner loop over the column batches of row i: `buff0` = the batch digests in order -/
theorem mtb_inner (LH : Nat → Region → Region → BitVec 64 → Option Region) (leaf : List Wd → List Wd)
    (hLH : LeafHash LH leaf) (fuel : Nat) (input : Region) (num_cols batch_size dim nbatches nlastb : BitVec 64)
    (c b d R i : Nat) (hc : num_cols.toNat = c) (hbv : batch_size.toNat = b) (hd : dim.toNat = d) (hb : 1 ≤ b)
    (hi : i < R) (hprod : R * (c * d) < 2 ^ 64)
    (hnb : nbatches.toNat = nbOf c b) (hnl : nlastb.toNat = nlastOf c b) (hf1 : c * d < fuel) :
    ∃ b0, Loop.rangeM 0 nbatches.toNat 1 Region.zero
        (mtbInnerG LH fuel input num_cols batch_size dim nbatches nlastb i) = some b0 ∧
      Region.toList b0 (4 * nbOf c b) =
        (List.range (nbOf c b)).flatMap fun j =>
          leaf (((rowOf input (c * d) i).drop (j * b * d)).take (nnOf c b j * d)) := by
  have hR : (i + 1) * (c * d) ≤ R * (c * d) := Nat.mul_le_mul_right _ (by omega)
  rw [Nat.succ_mul] at hR
  have hc64 : c < 2 ^ 64 := by rw [← hc]; exact num_cols.isLt
  obtain ⟨b0, h1, h2, _⟩ := fill_spec 4 (mtbInnerG LH fuel input num_cols batch_size dim nbatches nlastb i)
    (fun j out => LH fuel out
      (Region.shift input (((((BitVec.ofNat 64 i) * num_cols) * dim) + (((BitVec.ofNat 64 j) * batch_size) * dim))).toNat)
      ((if ((BitVec.ofNat 64 j) == (nbatches - 1#64)) then nlastb else batch_size) * dim))
    (fun j => leaf (((rowOf input (c * d) i).drop (j * b * d)).take (nnOf c b j * d)))
    (nbOf c b) (fun j _ t => rfl)
    (by
      intro j hj out
      have hrow := batch_in_row c b d j hb hj
      have ew := batch_width batch_size dim nbatches nlastb c b d j hbv hd hb hc64 (by omega) hnb hnl hj
      have eo := batch_offset num_cols batch_size dim c b d R i j hc hbv hd hb hi hj hprod
      obtain ⟨out', ho, hdg, hofr⟩ := hLH fuel out
        (Region.shift input (((((BitVec.ofNat 64 i) * num_cols) * dim) + (((BitVec.ofNat 64 j) * batch_size) * dim))).toNat)
        ((if ((BitVec.ofNat 64 j) == (nbatches - 1#64)) then nlastb else batch_size) * dim) (by rw [ew]; omega)
      refine ⟨out', ho, ?_, hofr⟩
      rw [hdg, ew, eo]
      unfold rowOf
      rw [toList_drop_take _ _ _ _ hrow, shift_shift])
    Region.zero
  exact ⟨b0, by rw [rangeM_zero_one, hnb]; exact h1, h2⟩

/-- the leaf loop of the batched builders -/
theorem mtb_leaves (LH : Nat → Region → Region → BitVec 64 → Option Region) (leaf : List Wd → List Wd)
    (hLH : LeafHash LH leaf) (fuel : Nat) (input tree : Region) (num_cols batch_size dim nbatches nlastb : BitVec 64)
    (c b d R : Nat) (hc : num_cols.toNat = c) (hbv : batch_size.toNat = b) (hd : dim.toNat = d) (hb : 1 ≤ b)
    (hprod : R * (c * d) < 2 ^ 64) (hcb : c + b < 2 ^ 62)
    (hnb : nbatches.toNat = nbOf c b) (hnl : nlastb.toNat = nlastOf c b) (hf1 : c * d < fuel) (hf3 : 4 * (c + 1) < fuel) :
    ∃ t, Loop.rangeM 0 R 1 tree (mtbLeafG LH fuel input num_cols batch_size dim nbatches nlastb) = some t ∧
      Region.toList t (4 * R) = (List.range R).flatMap (fun i => batchLeaf leaf c d b (rowOf input (c * d) i)) ∧
      ∀ j, 4 * R ≤ j → t j = tree j := by
  have hnble := nbOf_le c b hb
  have e4 : (nbatches * 4#64).toNat = 4 * nbOf c b := by
    have h4 : (4#64 : BitVec 64).toNat = 4 := rfl
    rw [BitVec.toNat_mul, hnb, h4]
    omega
  rw [rangeM_zero_one]
  refine fill_spec 4 (mtbLeafG LH fuel input num_cols batch_size dim nbatches nlastb)
    (fun i out => (Loop.rangeM 0 nbatches.toNat 1 Region.zero
        (mtbInnerG LH fuel input num_cols batch_size dim nbatches nlastb i)).bind fun st_2 =>
      LH fuel out st_2 (nbatches * 4#64))
    (fun i => batchLeaf leaf c d b (rowOf input (c * d) i)) R ?_ ?_ tree
  · intro i _ t
    unfold mtbLeafG
    dsimp only
    cases (Loop.rangeM 0 nbatches.toNat 1 Region.zero
      (mtbInnerG LH fuel input num_cols batch_size dim nbatches nlastb i)) <;> rfl
  · intro i hi out
    obtain ⟨b0, hb0, hl0⟩ := mtb_inner LH leaf hLH fuel input num_cols batch_size dim nbatches nlastb c b d R i hc hbv hd hb
      hi hprod hnb hnl hf1
    obtain ⟨out', ho, hdg, hofr⟩ := hLH fuel out b0 (nbatches * 4#64) (by rw [e4]; omega)
    refine ⟨out', by rw [hb0]; exact ho, ?_, hofr⟩
    rw [hdg, e4, hl0, batchLeaf_eq]

/-- the generated batched builder `mtbGenG LH H` builds `Model.merkleTree (Model.batchLeaf leaf ..)` for rows = 2^k -/
theorem mtbGenG_spec (LH : Nat → Region → Region → BitVec 64 → Option Region) (leaf : List Wd → List Wd)
    (hLH : LeafHash LH leaf) (H : Region → Region → Region) (nodeF : List Wd → List Wd) (hH : NodeHash H nodeF)
    (fuel : Nat) (tree input : Region) (num_cols num_rows batch_size : BitVec 64) (dim : BitVec 64) (k : Nat)
    (hR : num_rows.toNat = 2 ^ k) (hk : k ≤ 48) (hprod : 2 ^ k * (num_cols.toNat * dim.toNat) < 2 ^ 64)
    (hb : 1 ≤ batch_size.toNat) (hcb : num_cols.toNat + batch_size.toNat < 2 ^ 62)
    (hf1 : num_cols.toNat * dim.toNat < fuel) (hf2 : 2 ^ k < fuel) (hf3 : 4 * (num_cols.toNat + 1) < fuel) :
    ∃ t, mtbGenG LH H fuel tree input num_cols num_rows batch_size dim = some t ∧
      Region.toList t (4 * (2 * 2 ^ k - 1)) =
        merkleTree (batchLeaf leaf num_cols.toNat dim.toNat batch_size.toNat) (fun x => nodeF (x ++ zeros 4))
          (rowsOf input (num_cols.toNat * dim.toNat) (2 ^ k)) ∧
      ∀ i, 4 * (2 * 2 ^ k - 1) ≤ i → t i = tree i := by
  have hkpos : 0 < 2 ^ k := Nat.two_pow_pos k
  have hne : ¬ (num_rows == 0#64) = true := by
    rw [beq_iff_eq]
    intro h
    rw [h] at hR
    have : (0#64 : BitVec 64).toNat = 0 := rfl
    omega
  unfold mtbGenG
  rw [if_neg hne, merkleTree_rowsOf]
  refine mtTailG_spec H nodeF hH fuel tree num_rows k hR hk hf2 _ _ ?_
  rw [hR]
  exact mtb_leaves LH leaf hLH fuel input tree num_cols batch_size dim _ _ _ _ _ (2 ^ k) rfl rfl rfl hb hprod hcb
    (nbBV_toNat num_cols batch_size hb (by omega)) (nlastBV_toNat num_cols batch_size hb (by omega)) hf1 hf3

end GoldilocksVerif
