/-
  Poseidon (C06), part 5: the AVX512 backend (Gen/PosAvx512.lean: two interleaved states, the low halves of the three
  8-lane registers hold state A, the high halves state B) in the field view.  Helper lemmas; statements in Props/C06.lean.
-/
import GoldilocksVerif.Gen.PosAvx512
import GoldilocksVerif.Lemmas.Avx512MatF
import GoldilocksVerif.Lemmas.PosAvx2F
set_option linter.unusedSimpArgs false
set_option linter.unnecessarySeqFocus false
set_option linter.unusedTactic false
set_option linter.unreachableTactic false
set_option linter.unusedVariables false
set_option maxRecDepth 8192
namespace GoldilocksVerif
open PoseidonSpec Gen.PosAvx512 Gen.PosConsts Gen.Avx512 Gen.Avx512Mat

/-! #### halves of a register -/

def lo8 (i : Fin 4) : Fin 8 := ⟨i.val, by omega⟩
def hi8 (i : Fin 4) : Fin 8 := ⟨4 + i.val, by omega⟩

theorem half_get (a : V8) (i : Fin 4) : a.lo.get i = a.get (lo8 i) ∧ a.hi.get i = a.get (hi8 i) := by
  match i with
  | 0 => exact ⟨rfl, rfl⟩ | 1 => exact ⟨rfl, rfl⟩ | 2 => exact ⟨rfl, rfl⟩ | 3 => exact ⟨rfl, rfl⟩

theorem set4_get (x3 x2 x1 x0 : BitVec 64) (i : Fin 4) :
    (Avx512.set4_epi64 x3 x2 x1 x0).get (lo8 i) = (⟨x0, x1, x2, x3⟩ : V4).get i ∧
    (Avx512.set4_epi64 x3 x2 x1 x0).get (hi8 i) = (⟨x0, x1, x2, x3⟩ : V4).get i := by
  match i with
  | 0 => exact ⟨rfl, rfl⟩ | 1 => exact ⟨rfl, rfl⟩ | 2 => exact ⟨rfl, rfl⟩ | 3 => exact ⟨rfl, rfl⟩

theorem get_mk4 (c : Region) (i : Fin 4) :
    (⟨c 0, c 1, c 2, c 3⟩ : V4).get i = c i.val ∧ (⟨c 4, c 5, c 6, c 7⟩ : V4).get i = c (4 + i.val) ∧
    (⟨c 8, c 9, c 10, c 11⟩ : V4).get i = c (8 + i.val) := by
  match i with
  | 0 => exact ⟨rfl, rfl, rfl⟩ | 1 => exact ⟨rfl, rfl, rfl⟩ | 2 => exact ⟨rfl, rfl, rfl⟩ | 3 => exact ⟨rfl, rfl, rfl⟩

theorem set8_get (y1 y0 : BitVec 64) (i : Fin 4) :
    (Avx512.set_epi64 y1 y1 y1 y1 y0 y0 y0 y0).get (lo8 i) = y0 ∧
    (Avx512.set_epi64 y1 y1 y1 y1 y0 y0 y0 y0).get (hi8 i) = y1 := by
  match i with
  | 0 => exact ⟨rfl, rfl⟩ | 1 => exact ⟨rfl, rfl⟩ | 2 => exact ⟨rfl, rfl⟩ | 3 => exact ⟨rfl, rfl⟩

/-! #### lane kernels used by the Poseidon code -/

theorem add512_al_eq (c b : V8) : add_avx512__wWW_al_c_a c b = add_avx512__wWW c b := by
  simp only [add_avx512__wWW_al_c_a, add_avx512__wWW]

theorem add512_b_c_al_eq (c b : V8) : add_avx512_b_c_al_c_a c b = add_avx512_b_c c b := by
  simp only [add_avx512_b_c_al_c_a, add_avx512_b_c]

theorem den_add512_b_c (a b : V8) (i : Fin 8) (hb : (b.get i).toNat < P) :
    den ((add_avx512_b_c a b).get i) = den (a.get i) + den (b.get i) := by
  apply den_add_of
  apply add512_b_c_spec
  have := (a.get i).isLt
  omega

theorem den_square_avx512 (a : V8) (i : Fin 8) : den ((square_avx512 a).get i) = den (a.get i) * den (a.get i) := by
  apply den_mul_of; exact square512_spec a i


/-! #### the two interleaved states -/

/-- state A / state B of a 24-word region in the interleaved layout [a0..3 b0..3 a4..7 b4..7 a8..11 b8..11] -/
def stA (s : Region) : State := fun k => den (s (8 * (k.val / 4) + k.val % 4))
def stB (s : Region) : State := fun k => den (s (8 * (k.val / 4) + 4 + k.val % 4))

theorem vF_ext512 (b0 b1 b2 : V8) (tA tB : State)
    (h0 : ∀ i : Fin 4, den (b0.get (lo8 i)) = tA ⟨i.val, by omega⟩ ∧ den (b0.get (hi8 i)) = tB ⟨i.val, by omega⟩)
    (h1 : ∀ i : Fin 4, den (b1.get (lo8 i)) = tA ⟨4 + i.val, by omega⟩ ∧ den (b1.get (hi8 i)) = tB ⟨4 + i.val, by omega⟩)
    (h2 : ∀ i : Fin 4, den (b2.get (lo8 i)) = tA ⟨8 + i.val, by omega⟩ ∧ den (b2.get (hi8 i)) = tB ⟨8 + i.val, by omega⟩) :
    vF b0.lo b1.lo b2.lo = tA ∧ vF b0.hi b1.hi b2.hi = tB := by
  constructor
  · apply vF_ext <;> intro i
    · rw [(half_get _ i).1]; exact (h0 i).1
    · rw [(half_get _ i).1]; exact (h1 i).1
    · rw [(half_get _ i).1]; exact (h2 i).1
  · apply vF_ext <;> intro i
    · rw [(half_get _ i).2]; exact (h0 i).2
    · rw [(half_get _ i).2]; exact (h1 i).2
    · rw [(half_get _ i).2]; exact (h2 i).2

/-- reading the two states back lane by lane -/
theorem vF_get512 (a0 a1 a2 : V8) (i : Fin 4) :
    (vF a0.lo a1.lo a2.lo ⟨i.val, by omega⟩ = den (a0.get (lo8 i)) ∧
     vF a0.lo a1.lo a2.lo ⟨4 + i.val, by omega⟩ = den (a1.get (lo8 i)) ∧
     vF a0.lo a1.lo a2.lo ⟨8 + i.val, by omega⟩ = den (a2.get (lo8 i))) ∧
    (vF a0.hi a1.hi a2.hi ⟨i.val, by omega⟩ = den (a0.get (hi8 i)) ∧
     vF a0.hi a1.hi a2.hi ⟨4 + i.val, by omega⟩ = den (a1.get (hi8 i)) ∧
     vF a0.hi a1.hi a2.hi ⟨8 + i.val, by omega⟩ = den (a2.get (hi8 i))) := by
  have A := vF_get a0.lo a1.lo a2.lo i
  have B := vF_get a0.hi a1.hi a2.hi i
  simp only [(half_get _ i).1, (half_get _ i).2] at A B
  exact ⟨A, B⟩

theorem vF_load512 (s : Region) :
    vF (load_avx512 s).lo (load_avx512 (Region.shift s 8)).lo (load_avx512 (Region.shift s 16)).lo = stA s ∧
    vF (load_avx512 s).hi (load_avx512 (Region.shift s 8)).hi (load_avx512 (Region.shift s 16)).hi = stB s := by
  constructor <;> refine state_ext _ _ (forall_lt_12' _ ?_ ?_ ?_ ?_ ?_ ?_ ?_ ?_ ?_ ?_ ?_ ?_) <;>
    simp only [vF, lane12, V8.lo, V8.hi, load_avx512, Avx512.load, Region.shift_apply, stA, stB, Nat.reduceDiv, Nat.reduceMod,
      Nat.reduceMul, Nat.reduceAdd]

/-! #### the steps of the full rounds, on both states -/

theorem vF512_add_small (a0 a1 a2 : V8) (c : Region) (hc : ∀ k, k < 12 → (c k).toNat < P) :
    vF (Pos_add_avx512_small a0 a1 a2 c).1.lo (Pos_add_avx512_small a0 a1 a2 c).2.1.lo (Pos_add_avx512_small a0 a1 a2 c).2.2.lo =
      (fun i => vF a0.lo a1.lo a2.lo i + den (c i.val)) ∧
    vF (Pos_add_avx512_small a0 a1 a2 c).1.hi (Pos_add_avx512_small a0 a1 a2 c).2.1.hi (Pos_add_avx512_small a0 a1 a2 c).2.2.hi =
      (fun i => vF a0.hi a1.hi a2.hi i + den (c i.val)) := by
  apply vF_ext512 <;> intro i
  · have h1 : ((Avx512.set4_epi64 (c 3) (c 2) (c 1) (c 0)).get (lo8 i)).toNat < P := by
      rw [(set4_get _ _ _ _ i).1, (get_mk4 c i).1]; exact hc _ (by omega)
    have h2 : ((Avx512.set4_epi64 (c 3) (c 2) (c 1) (c 0)).get (hi8 i)).toNat < P := by
      rw [(set4_get _ _ _ _ i).2, (get_mk4 c i).1]; exact hc _ (by omega)
    simp only [Pos_add_avx512_small, add512_b_c_al_eq, den_add512_b_c _ _ _ h1, den_add512_b_c _ _ _ h2,
      (set4_get _ _ _ _ i).1, (set4_get _ _ _ _ i).2, (get_mk4 c i).1, (vF_get512 a0 a1 a2 i).1.1, (vF_get512 a0 a1 a2 i).2.1,
      and_self]
  · have h1 : ((Avx512.set4_epi64 (c 7) (c 6) (c 5) (c 4)).get (lo8 i)).toNat < P := by
      rw [(set4_get _ _ _ _ i).1, (get_mk4 c i).2.1]; exact hc _ (by omega)
    have h2 : ((Avx512.set4_epi64 (c 7) (c 6) (c 5) (c 4)).get (hi8 i)).toNat < P := by
      rw [(set4_get _ _ _ _ i).2, (get_mk4 c i).2.1]; exact hc _ (by omega)
    simp only [Pos_add_avx512_small, add512_b_c_al_eq, den_add512_b_c _ _ _ h1, den_add512_b_c _ _ _ h2,
      (set4_get _ _ _ _ i).1, (set4_get _ _ _ _ i).2, (get_mk4 c i).2.1, (vF_get512 a0 a1 a2 i).1.2.1,
      (vF_get512 a0 a1 a2 i).2.2.1, and_self]
  · have h1 : ((Avx512.set4_epi64 (c 11) (c 10) (c 9) (c 8)).get (lo8 i)).toNat < P := by
      rw [(set4_get _ _ _ _ i).1, (get_mk4 c i).2.2]; exact hc _ (by omega)
    have h2 : ((Avx512.set4_epi64 (c 11) (c 10) (c 9) (c 8)).get (hi8 i)).toNat < P := by
      rw [(set4_get _ _ _ _ i).2, (get_mk4 c i).2.2]; exact hc _ (by omega)
    simp only [Pos_add_avx512_small, add512_b_c_al_eq, den_add512_b_c _ _ _ h1, den_add512_b_c _ _ _ h2,
      (set4_get _ _ _ _ i).1, (set4_get _ _ _ _ i).2, (get_mk4 c i).2.2, (vF_get512 a0 a1 a2 i).1.2.2,
      (vF_get512 a0 a1 a2 i).2.2.2, and_self]

theorem posC_canon_shift (off : Nat) (h : off + 12 ≤ 118) (k : Nat) (hk : k < 12) :
    ((Region.shift c_Pos_C off) k).toNat < P := by
  rw [Region.shift_apply]; exact posC_canon (off + k) (by omega)

theorem vF512_add_small_C (a0 a1 a2 : V8) (off : Nat) (h : off + 12 ≤ 118) :
    vF (Pos_add_avx512_small a0 a1 a2 (Region.shift c_Pos_C off)).1.lo (Pos_add_avx512_small a0 a1 a2 (Region.shift c_Pos_C off)).2.1.lo
      (Pos_add_avx512_small a0 a1 a2 (Region.shift c_Pos_C off)).2.2.lo = addC off (vF a0.lo a1.lo a2.lo) ∧
    vF (Pos_add_avx512_small a0 a1 a2 (Region.shift c_Pos_C off)).1.hi (Pos_add_avx512_small a0 a1 a2 (Region.shift c_Pos_C off)).2.1.hi
      (Pos_add_avx512_small a0 a1 a2 (Region.shift c_Pos_C off)).2.2.hi = addC off (vF a0.hi a1.hi a2.hi) := by
  obtain ⟨h1, h2⟩ := vF512_add_small a0 a1 a2 _ (posC_canon_shift off h)
  rw [h1, h2]
  constructor <;> (funext i; simp only [addC, C, Region.shift_apply])

theorem vF512_add_small_C0 (a0 a1 a2 : V8) :
    vF (Pos_add_avx512_small a0 a1 a2 c_Pos_C).1.lo (Pos_add_avx512_small a0 a1 a2 c_Pos_C).2.1.lo
      (Pos_add_avx512_small a0 a1 a2 c_Pos_C).2.2.lo = addC 0 (vF a0.lo a1.lo a2.lo) ∧
    vF (Pos_add_avx512_small a0 a1 a2 c_Pos_C).1.hi (Pos_add_avx512_small a0 a1 a2 c_Pos_C).2.1.hi
      (Pos_add_avx512_small a0 a1 a2 c_Pos_C).2.2.hi = addC 0 (vF a0.hi a1.hi a2.hi) := by
  have := vF512_add_small_C a0 a1 a2 0 (by omega)
  rw [Region.shift_zero] at this
  exact this

theorem vF512_add (a0 a1 a2 : V8) (c : Region) :
    vF (Pos_add_avx512 a0 a1 a2 c).1.lo (Pos_add_avx512 a0 a1 a2 c).2.1.lo (Pos_add_avx512 a0 a1 a2 c).2.2.lo =
      (fun i => vF a0.lo a1.lo a2.lo i + den (c i.val)) ∧
    vF (Pos_add_avx512 a0 a1 a2 c).1.hi (Pos_add_avx512 a0 a1 a2 c).2.1.hi (Pos_add_avx512 a0 a1 a2 c).2.2.hi =
      (fun i => vF a0.hi a1.hi a2.hi i + den (c i.val)) := by
  apply vF_ext512 <;> intro i
  · simp only [Pos_add_avx512, add512_al_eq, den_add_avx512, (set4_get _ _ _ _ i).1, (set4_get _ _ _ _ i).2,
      (get_mk4 c i).1, (vF_get512 a0 a1 a2 i).1.1, (vF_get512 a0 a1 a2 i).2.1, and_self]
  · simp only [Pos_add_avx512, add512_al_eq, den_add_avx512, (set4_get _ _ _ _ i).1, (set4_get _ _ _ _ i).2,
      (get_mk4 c i).2.1, (vF_get512 a0 a1 a2 i).1.2.1, (vF_get512 a0 a1 a2 i).2.2.1, and_self]
  · simp only [Pos_add_avx512, add512_al_eq, den_add_avx512, (set4_get _ _ _ _ i).1, (set4_get _ _ _ _ i).2,
      (get_mk4 c i).2.2, (vF_get512 a0 a1 a2 i).1.2.2, (vF_get512 a0 a1 a2 i).2.2.2, and_self]

theorem vF512_add_C (a0 a1 a2 : V8) (off : Nat) :
    vF (Pos_add_avx512 a0 a1 a2 (Region.shift c_Pos_C off)).1.lo (Pos_add_avx512 a0 a1 a2 (Region.shift c_Pos_C off)).2.1.lo
      (Pos_add_avx512 a0 a1 a2 (Region.shift c_Pos_C off)).2.2.lo = addC off (vF a0.lo a1.lo a2.lo) ∧
    vF (Pos_add_avx512 a0 a1 a2 (Region.shift c_Pos_C off)).1.hi (Pos_add_avx512 a0 a1 a2 (Region.shift c_Pos_C off)).2.1.hi
      (Pos_add_avx512 a0 a1 a2 (Region.shift c_Pos_C off)).2.2.hi = addC off (vF a0.hi a1.hi a2.hi) := by
  obtain ⟨h1, h2⟩ := vF512_add a0 a1 a2 (Region.shift c_Pos_C off)
  rw [h1, h2]
  constructor <;> (funext i; simp only [addC, C, Region.shift_apply])

theorem vF512_pow7 (a0 a1 a2 : V8) :
    vF (Pos_pow7_avx512 a0 a1 a2).1.lo (Pos_pow7_avx512 a0 a1 a2).2.1.lo (Pos_pow7_avx512 a0 a1 a2).2.2.lo =
      sbox (vF a0.lo a1.lo a2.lo) ∧
    vF (Pos_pow7_avx512 a0 a1 a2).1.hi (Pos_pow7_avx512 a0 a1 a2).2.1.hi (Pos_pow7_avx512 a0 a1 a2).2.2.hi =
      sbox (vF a0.hi a1.hi a2.hi) := by
  apply vF_ext512 <;> intro i
  · simp only [Pos_pow7_avx512, den_mult_avx512, den_square_avx512, sbox, (vF_get512 a0 a1 a2 i).1.1,
      (vF_get512 a0 a1 a2 i).2.1]
    constructor <;> ring
  · simp only [Pos_pow7_avx512, den_mult_avx512, den_square_avx512, sbox, (vF_get512 a0 a1 a2 i).1.2.1,
      (vF_get512 a0 a1 a2 i).2.2.1]
    constructor <;> ring
  · simp only [Pos_pow7_avx512, den_mult_avx512, den_square_avx512, sbox, (vF_get512 a0 a1 a2 i).1.2.2,
      (vF_get512 a0 a1 a2 i).2.2.2]
    constructor <;> ring


theorem vF512_mmult8_M (a0 a1 a2 : V8) :
    vF (mmult_avx512_8 a0 a1 a2 c_Pos_M_).1.lo (mmult_avx512_8 a0 a1 a2 c_Pos_M_).2.1.lo (mmult_avx512_8 a0 a1 a2 c_Pos_M_).2.2.lo =
      mulMat M (vF a0.lo a1.lo a2.lo) ∧
    vF (mmult_avx512_8 a0 a1 a2 c_Pos_M_).1.hi (mmult_avx512_8 a0 a1 a2 c_Pos_M_).2.1.hi (mmult_avx512_8 a0 a1 a2 c_Pos_M_).2.2.hi =
      mulMat M (vF a0.hi a1.hi a2.hi) := by
  have e1 : ∀ i : Fin 4, 48 + 12 * i.val = 12 * (4 + i.val) := fun i => by omega
  have e2 : ∀ i : Fin 4, 96 + 12 * i.val = 12 * (8 + i.val) := fun i => by omega
  constructor <;> apply vF_ext <;> intro i
  · rw [(mmult512_8_den a0 a1 a2 c_Pos_M_ i posM__8bit).1.1]
    exact dot12_transp _ _ _ c_Pos_M_ c_Pos_M posM__transp i.val (by omega)
  · rw [(mmult512_8_den a0 a1 a2 c_Pos_M_ i posM__8bit).2.1.1, e1]
    exact dot12_transp _ _ _ c_Pos_M_ c_Pos_M posM__transp (4 + i.val) (by omega)
  · rw [(mmult512_8_den a0 a1 a2 c_Pos_M_ i posM__8bit).2.2.1, e2]
    exact dot12_transp _ _ _ c_Pos_M_ c_Pos_M posM__transp (8 + i.val) (by omega)
  · rw [(mmult512_8_den a0 a1 a2 c_Pos_M_ i posM__8bit).1.2]
    exact dot12_transp _ _ _ c_Pos_M_ c_Pos_M posM__transp i.val (by omega)
  · rw [(mmult512_8_den a0 a1 a2 c_Pos_M_ i posM__8bit).2.1.2, e1]
    exact dot12_transp _ _ _ c_Pos_M_ c_Pos_M posM__transp (4 + i.val) (by omega)
  · rw [(mmult512_8_den a0 a1 a2 c_Pos_M_ i posM__8bit).2.2.2, e2]
    exact dot12_transp _ _ _ c_Pos_M_ c_Pos_M posM__transp (8 + i.val) (by omega)

theorem vF512_mmult_P (a0 a1 a2 : V8) :
    vF (mmult_avx512 a0 a1 a2 c_Pos_P_).1.lo (mmult_avx512 a0 a1 a2 c_Pos_P_).2.1.lo (mmult_avx512 a0 a1 a2 c_Pos_P_).2.2.lo =
      mulMat Pm (vF a0.lo a1.lo a2.lo) ∧
    vF (mmult_avx512 a0 a1 a2 c_Pos_P_).1.hi (mmult_avx512 a0 a1 a2 c_Pos_P_).2.1.hi (mmult_avx512 a0 a1 a2 c_Pos_P_).2.2.hi =
      mulMat Pm (vF a0.hi a1.hi a2.hi) := by
  have e1 : ∀ i : Fin 4, 48 + 12 * i.val = 12 * (4 + i.val) := fun i => by omega
  have e2 : ∀ i : Fin 4, 96 + 12 * i.val = 12 * (8 + i.val) := fun i => by omega
  constructor <;> apply vF_ext <;> intro i
  · rw [(mmult512_den a0 a1 a2 c_Pos_P_ i).1.1]
    exact dot12_transp _ _ _ c_Pos_P_ c_Pos_P posP__transp i.val (by omega)
  · rw [(mmult512_den a0 a1 a2 c_Pos_P_ i).2.1.1, e1]
    exact dot12_transp _ _ _ c_Pos_P_ c_Pos_P posP__transp (4 + i.val) (by omega)
  · rw [(mmult512_den a0 a1 a2 c_Pos_P_ i).2.2.1, e2]
    exact dot12_transp _ _ _ c_Pos_P_ c_Pos_P posP__transp (8 + i.val) (by omega)
  · rw [(mmult512_den a0 a1 a2 c_Pos_P_ i).1.2]
    exact dot12_transp _ _ _ c_Pos_P_ c_Pos_P posP__transp i.val (by omega)
  · rw [(mmult512_den a0 a1 a2 c_Pos_P_ i).2.1.2, e1]
    exact dot12_transp _ _ _ c_Pos_P_ c_Pos_P posP__transp (4 + i.val) (by omega)
  · rw [(mmult512_den a0 a1 a2 c_Pos_P_ i).2.2.2, e2]
    exact dot12_transp _ _ _ c_Pos_P_ c_Pos_P posP__transp (8 + i.val) (by omega)

/-! #### the body of the 22-round loop -/

/-- the lane mask of the partial rounds: lanes 0 and 4 (element 0 of either state) cleared -/
abbrev posMask8 : V8 :=
  Avx512.set_epi64 18446744073709551615#64 18446744073709551615#64 18446744073709551615#64 0#64
    18446744073709551615#64 18446744073709551615#64 18446744073709551615#64 0#64

theorem get8_lits (a : V8) :
    (a.get (lo8 0) = a.l0 ∧ a.get (lo8 1) = a.l1 ∧ a.get (lo8 2) = a.l2 ∧ a.get (lo8 3) = a.l3) ∧
    (a.get (hi8 0) = a.l4 ∧ a.get (hi8 1) = a.l5 ∧ a.get (hi8 2) = a.l6 ∧ a.get (hi8 3) = a.l7) :=
  ⟨⟨rfl, rfl, rfl, rfl⟩, ⟨rfl, rfl, rfl, rfl⟩⟩

theorem and_mask8_lanes (a0 : V8) :
    ((Avx512.and_si512 a0 posMask8).l1 = a0.l1 ∧ (Avx512.and_si512 a0 posMask8).l2 = a0.l2 ∧
      (Avx512.and_si512 a0 posMask8).l3 = a0.l3) ∧
    ((Avx512.and_si512 a0 posMask8).l5 = a0.l5 ∧ (Avx512.and_si512 a0 posMask8).l6 = a0.l6 ∧
      (Avx512.and_si512 a0 posMask8).l7 = a0.l7) := by
  simp only [posMask8, Avx512.and_si512, Avx512.set_epi64, V8.map2, and_ones64, and_self]

theorem vloop512_y (r : Nat) (s04 s04_ : Region) (a0 a1 a2 : V8) :
    den ((Pos_hash_full_result_avx512_loop1 posMask8 r (s04, s04_, a0, a1, a2)).2.1 0) =
      (den (s04_ 0) ^ 7 + C (60 + r)) * S (23 * r) + den a0.l1 * S (23 * r + 1) + den a0.l2 * S (23 * r + 2) +
      den a0.l3 * S (23 * r + 3) + den a1.l0 * S (23 * r + 4) + den a1.l1 * S (23 * r + 5) + den a1.l2 * S (23 * r + 6) +
      den a1.l3 * S (23 * r + 7) + den a2.l0 * S (23 * r + 8) + den a2.l1 * S (23 * r + 9) + den a2.l2 * S (23 * r + 10) +
      den a2.l3 * S (23 * r + 11) ∧
    den ((Pos_hash_full_result_avx512_loop1 posMask8 r (s04, s04_, a0, a1, a2)).2.1 1) =
      (den (s04_ 1) ^ 7 + C (60 + r)) * S (23 * r) + den a0.l5 * S (23 * r + 1) + den a0.l6 * S (23 * r + 2) +
      den a0.l7 * S (23 * r + 3) + den a1.l4 * S (23 * r + 4) + den a1.l5 * S (23 * r + 5) + den a1.l6 * S (23 * r + 6) +
      den a1.l7 * S (23 * r + 7) + den a2.l4 * S (23 * r + 8) + den a2.l5 * S (23 * r + 9) + den a2.l6 * S (23 * r + 10) +
      den a2.l7 * S (23 * r + 11) := by
  constructor
  · simp only [Pos_hash_full_result_avx512_loop1, Region.set_apply, ↓reduceIte, Nat.reduceEqDiff, den_add_r, den_mul_r,
      den_pow7, (dot512_den _ _ _ _ _).1, dot12, V8.lo, posMask8, Avx512.and_si512, Avx512.set_epi64, V8.map2,
      Region.shift_apply, BitVec.and_zero, and_ones64, den_zero64, Nat.add_zero, C, S, Nat.add_comm 60 r]
    ring
  · simp only [Pos_hash_full_result_avx512_loop1, Region.set_apply, ↓reduceIte, Nat.reduceEqDiff, den_add_r, den_mul_r,
      den_pow7, (dot512_den _ _ _ _ _).2.1, dot12, V8.hi, posMask8, Avx512.and_si512, Avx512.set_epi64, V8.map2,
      Region.shift_apply, BitVec.and_zero, and_ones64, den_zero64, Nat.add_zero, C, S, Nat.add_comm 60 r]
    ring


theorem vloop512_lane (r : Nat) (s04 s04_ : Region) (a0 a1 a2 : V8) (i : Fin 4) :
    (den ((Pos_hash_full_result_avx512_loop1 posMask8 r (s04, s04_, a0, a1, a2)).2.2.1.get (lo8 i)) =
      den ((Avx512.and_si512 a0 posMask8).get (lo8 i)) + (den (s04_ 0) ^ 7 + C (60 + r)) * S (23 * r + 11 + i.val) ∧
     den ((Pos_hash_full_result_avx512_loop1 posMask8 r (s04, s04_, a0, a1, a2)).2.2.2.1.get (lo8 i)) =
      den (a1.get (lo8 i)) + (den (s04_ 0) ^ 7 + C (60 + r)) * S (23 * r + 11 + (4 + i.val)) ∧
     den ((Pos_hash_full_result_avx512_loop1 posMask8 r (s04, s04_, a0, a1, a2)).2.2.2.2.get (lo8 i)) =
      den (a2.get (lo8 i)) + (den (s04_ 0) ^ 7 + C (60 + r)) * S (23 * r + 11 + (8 + i.val))) ∧
    (den ((Pos_hash_full_result_avx512_loop1 posMask8 r (s04, s04_, a0, a1, a2)).2.2.1.get (hi8 i)) =
      den ((Avx512.and_si512 a0 posMask8).get (hi8 i)) + (den (s04_ 1) ^ 7 + C (60 + r)) * S (23 * r + 11 + i.val) ∧
     den ((Pos_hash_full_result_avx512_loop1 posMask8 r (s04, s04_, a0, a1, a2)).2.2.2.1.get (hi8 i)) =
      den (a1.get (hi8 i)) + (den (s04_ 1) ^ 7 + C (60 + r)) * S (23 * r + 11 + (4 + i.val)) ∧
     den ((Pos_hash_full_result_avx512_loop1 posMask8 r (s04, s04_, a0, a1, a2)).2.2.2.2.get (hi8 i)) =
      den (a2.get (hi8 i)) + (den (s04_ 1) ^ 7 + C (60 + r)) * S (23 * r + 11 + (8 + i.val))) := by
  -- operand order of the exact lane operations and index arithmetic of the constants: `ring_nf`.  The call pattern
  -- `add_avx512(st, w, st)` (result aliasing the SECOND operand) has a generated definition only when the code uses it: its
  -- equation is tried first.
  first
  | (have eb : ∀ c a : V8, add_avx512__wWW_al_c_b c a = add_avx512__wWW a c := by
       intro c a; simp only [add_avx512__wWW_al_c_b, add_avx512__wWW]
     refine ⟨⟨?_, ?_, ?_⟩, ⟨?_, ?_, ?_⟩⟩ <;>
       (simp only [Pos_hash_full_result_avx512_loop1, add512_al_eq, eb, den_add_avx512, den_mult_avx512, (set8_get _ _ i).1,
          (set8_get _ _ i).2, (set4_get _ _ _ _ i).1, (set4_get _ _ _ _ i).2, (get_mk4 _ i).1, (get_mk4 _ i).2.1,
          (get_mk4 _ i).2.2, Region.set_apply, ↓reduceIte, Nat.reduceEqDiff, den_add_r, den_pow7]
        simp only [Region.shift_apply, C, S, Nat.add_comm 60 r] <;> ring_nf))
  | (refine ⟨⟨?_, ?_, ?_⟩, ⟨?_, ?_, ?_⟩⟩ <;>
       (simp only [Pos_hash_full_result_avx512_loop1, add512_al_eq, den_add_avx512, den_mult_avx512, (set8_get _ _ i).1,
          (set8_get _ _ i).2, (set4_get _ _ _ _ i).1, (set4_get _ _ _ _ i).2, (get_mk4 _ i).1, (get_mk4 _ i).2.1,
          (get_mk4 _ i).2.2, Region.set_apply, ↓reduceIte, Nat.reduceEqDiff, den_add_r, den_pow7]
        simp only [Region.shift_apply, C, S, Nat.add_comm 60 r] <;> ring_nf))

theorem vloop512 (r : Nat) (s04 s04_ : Region) (a0 a1 a2 : V8) :
    pF ((Pos_hash_full_result_avx512_loop1 posMask8 r (s04, s04_, a0, a1, a2)).2.1 0)
       (Pos_hash_full_result_avx512_loop1 posMask8 r (s04, s04_, a0, a1, a2)).2.2.1.lo
       (Pos_hash_full_result_avx512_loop1 posMask8 r (s04, s04_, a0, a1, a2)).2.2.2.1.lo
       (Pos_hash_full_result_avx512_loop1 posMask8 r (s04, s04_, a0, a1, a2)).2.2.2.2.lo =
      partialRound r (pF (s04_ 0) a0.lo a1.lo a2.lo) ∧
    pF ((Pos_hash_full_result_avx512_loop1 posMask8 r (s04, s04_, a0, a1, a2)).2.1 1)
       (Pos_hash_full_result_avx512_loop1 posMask8 r (s04, s04_, a0, a1, a2)).2.2.1.hi
       (Pos_hash_full_result_avx512_loop1 posMask8 r (s04, s04_, a0, a1, a2)).2.2.2.1.hi
       (Pos_hash_full_result_avx512_loop1 posMask8 r (s04, s04_, a0, a1, a2)).2.2.2.2.hi =
      partialRound r (pF (s04_ 1) a0.hi a1.hi a2.hi) := by
  obtain ⟨Y0, Y1⟩ := vloop512_y r s04 s04_ a0 a1 a2
  have L0 := vloop512_lane r s04 s04_ a0 a1 a2 0
  have L1 := vloop512_lane r s04 s04_ a0 a1 a2 1
  have L2 := vloop512_lane r s04 s04_ a0 a1 a2 2
  have L3 := vloop512_lane r s04 s04_ a0 a1 a2 3
  obtain ⟨⟨m1, m2, m3⟩, ⟨m5, m6, m7⟩⟩ := and_mask8_lanes a0
  have e3 : ((3 : Fin 4).val) = 3 := rfl
  simp only [(get8_lits _).1.1, (get8_lits _).1.2.1, (get8_lits _).1.2.2.1, (get8_lits _).1.2.2.2, (get8_lits _).2.1,
    (get8_lits _).2.2.1, (get8_lits _).2.2.2.1, (get8_lits _).2.2.2.2, Fin.val_zero, Fin.val_one, Fin.val_two, e3,
    Nat.add_zero, Nat.reduceAdd, m1, m2, m3, m5, m6, m7] at L0 L1 L2 L3
  generalize Pos_hash_full_result_avx512_loop1 posMask8 r (s04, s04_, a0, a1, a2) = B at Y0 Y1 L0 L1 L2 L3 ⊢
  obtain ⟨t04, t04_, b0, b1, b2⟩ := B
  simp only at Y0 Y1 L0 L1 L2 L3 ⊢
  constructor
  · exact pF_round r (s04_ 0) (t04_ 0) a0.lo a1.lo a2.lo b0.lo b1.lo b2.lo Y0 L1.1.1 L2.1.1 L3.1.1 L0.1.2.1 L1.1.2.1 L2.1.2.1
      L3.1.2.1 L0.1.2.2 L1.1.2.2 L2.1.2.2 L3.1.2.2
  · exact pF_round r (s04_ 1) (t04_ 1) a0.hi a1.hi a2.hi b0.hi b1.hi b2.hi Y1 L1.2.1 L2.2.1 L3.2.1 L0.2.2.1 L1.2.2.1 L2.2.2.1
      L3.2.2.1 L0.2.2.2 L1.2.2.2 L2.2.2.2 L3.2.2.2

theorem vloops512 (n : Nat) (s04 s04_ : Region) (a0 a1 a2 : V8) :
    pF ((Loop.range 0 n 1 (s04, s04_, a0, a1, a2) (Pos_hash_full_result_avx512_loop1 posMask8)).2.1 0)
       (Loop.range 0 n 1 (s04, s04_, a0, a1, a2) (Pos_hash_full_result_avx512_loop1 posMask8)).2.2.1.lo
       (Loop.range 0 n 1 (s04, s04_, a0, a1, a2) (Pos_hash_full_result_avx512_loop1 posMask8)).2.2.2.1.lo
       (Loop.range 0 n 1 (s04, s04_, a0, a1, a2) (Pos_hash_full_result_avx512_loop1 posMask8)).2.2.2.2.lo =
      partialRounds n (pF (s04_ 0) a0.lo a1.lo a2.lo) ∧
    pF ((Loop.range 0 n 1 (s04, s04_, a0, a1, a2) (Pos_hash_full_result_avx512_loop1 posMask8)).2.1 1)
       (Loop.range 0 n 1 (s04, s04_, a0, a1, a2) (Pos_hash_full_result_avx512_loop1 posMask8)).2.2.1.hi
       (Loop.range 0 n 1 (s04, s04_, a0, a1, a2) (Pos_hash_full_result_avx512_loop1 posMask8)).2.2.2.1.hi
       (Loop.range 0 n 1 (s04, s04_, a0, a1, a2) (Pos_hash_full_result_avx512_loop1 posMask8)).2.2.2.2.hi =
      partialRounds n (pF (s04_ 1) a0.hi a1.hi a2.hi) := by
  refine Loop.range_inv (fun k (t : Region × Region × V8 × V8 × V8) =>
    pF (t.2.1 0) t.2.2.1.lo t.2.2.2.1.lo t.2.2.2.2.lo = partialRounds k (pF (s04_ 0) a0.lo a1.lo a2.lo) ∧
    pF (t.2.1 1) t.2.2.1.hi t.2.2.2.1.hi t.2.2.2.2.hi = partialRounds k (pF (s04_ 1) a0.hi a1.hi a2.hi)) _ n _ ⟨rfl, rfl⟩ ?_
  intro r t _ h
  obtain ⟨t04, t04_, b0, b1, b2⟩ := t
  obtain ⟨h1, h2⟩ := h
  obtain ⟨k1, k2⟩ := vloop512 r t04 t04_ b0 b1 b2
  simp only at h1 h2
  refine ⟨?_, ?_⟩
  · show pF _ _ _ _ = partialRound r (partialRounds r (pF (s04_ 0) a0.lo a1.lo a2.lo))
    rw [k1, h1]
  · show pF _ _ _ _ = partialRound r (partialRounds r (pF (s04_ 1) a0.hi a1.hi a2.hi))
    rw [k2, h2]


/-! #### glue: spilling element 0 of both states around the loop, the final stores -/

theorem reload512_eq (S : Region) (a0 : V8) (y0 y1 : BitVec 64) :
    (load_avx512 (Region.set (Region.set (store_avx512 S a0) 0 y0) 4 y1)).lo = ⟨y0, a0.l1, a0.l2, a0.l3⟩ ∧
    (load_avx512 (Region.set (Region.set (store_avx512 S a0) 0 y0) 4 y1)).hi = ⟨y1, a0.l5, a0.l6, a0.l7⟩ := by
  simp only [load_avx512, Avx512.load, store_avx512, Avx512.store, Region.set_apply, Region.mk_apply, ↓reduceIte,
    Nat.reduceEqDiff, V8.lo, V8.hi, and_self]

theorem vF_reload512 (S : Region) (a0 a1 a2 : V8) (y0 y1 : BitVec 64) :
    vF (load_avx512 (Region.set (Region.set (store_avx512 S a0) 0 y0) 4 y1)).lo a1.lo a2.lo = pF y0 a0.lo a1.lo a2.lo ∧
    vF (load_avx512 (Region.set (Region.set (store_avx512 S a0) 0 y0) 4 y1)).hi a1.hi a2.hi = pF y1 a0.hi a1.hi a2.hi := by
  rw [(reload512_eq S a0 y0 y1).1, (reload512_eq S a0 y0 y1).2]; exact ⟨rfl, rfl⟩

theorem pF_spill512 (S : Region) (a0 a1 a2 : V8) :
    pF ((Region.ofList [(store_avx512 S a0) 0, (store_avx512 S a0) 4]) 0) a0.lo a1.lo a2.lo = vF a0.lo a1.lo a2.lo ∧
    pF ((Region.ofList [(store_avx512 S a0) 0, (store_avx512 S a0) 4]) 1) a0.hi a1.hi a2.hi = vF a0.hi a1.hi a2.hi := by
  have e0 : (Region.ofList [(store_avx512 S a0) 0, (store_avx512 S a0) 4]) 0 = a0.l0 := (store512_get S a0).1
  have e1 : (Region.ofList [(store_avx512 S a0) 0, (store_avx512 S a0) 4]) 1 = a0.l4 := (store512_get S a0).2.2.2.2.1
  rw [e0, e1]; exact ⟨rfl, rfl⟩

theorem stores512_den (S : Region) (b0 b1 b2 : V8) :
    stA (Region.unshift (Region.unshift (store_avx512 S b0) 8 (store_avx512 (Region.shift (store_avx512 S b0) 8) b1)) 16
      (store_avx512 (Region.shift (Region.unshift (store_avx512 S b0) 8 (store_avx512 (Region.shift (store_avx512 S b0) 8) b1)) 16) b2)) =
      vF b0.lo b1.lo b2.lo ∧
    stB (Region.unshift (Region.unshift (store_avx512 S b0) 8 (store_avx512 (Region.shift (store_avx512 S b0) 8) b1)) 16
      (store_avx512 (Region.shift (Region.unshift (store_avx512 S b0) 8 (store_avx512 (Region.shift (store_avx512 S b0) 8) b1)) 16) b2)) =
      vF b0.hi b1.hi b2.hi := by
  constructor <;> refine state_ext _ _ (forall_lt_12' _ ?_ ?_ ?_ ?_ ?_ ?_ ?_ ?_ ?_ ?_ ?_ ?_) <;>
    simp only [stA, stB, vF, lane12, V8.lo, V8.hi, Region.unshift_apply, store_avx512, Avx512.store, Region.mk_apply,
      Region.shift_apply, Nat.reduceDiv, Nat.reduceMod, Nat.reduceMul, Nat.reduceAdd, Nat.reduceLeDiff, Nat.reduceSub,
      ↓reduceIte, Nat.reduceEqDiff]

theorem store512_frame (S : Region) (b : V8) (i : Nat) (hi : 8 ≤ i) : (store_avx512 S b) i = S i := by
  have d0 : i ≠ 0 := by omega
  have d1 : i ≠ 1 := by omega
  have d2 : i ≠ 2 := by omega
  have d3 : i ≠ 3 := by omega
  have d4 : i ≠ 4 := by omega
  have d5 : i ≠ 5 := by omega
  have d6 : i ≠ 6 := by omega
  have d7 : i ≠ 7 := by omega
  simp only [store_avx512, Avx512.store, Region.mk_apply, d0, d1, d2, d3, d4, d5, d6, d7, ↓reduceIte]

theorem stores512_frame (S : Region) (b0 b1 b2 : V8) (i : Nat) (hi : 24 ≤ i) :
    (Region.unshift (Region.unshift (store_avx512 S b0) 8 (store_avx512 (Region.shift (store_avx512 S b0) 8) b1)) 16
      (store_avx512 (Region.shift (Region.unshift (store_avx512 S b0) 8 (store_avx512 (Region.shift (store_avx512 S b0) 8) b1)) 16) b2)) i =
      S i := by
  have h16 : 16 ≤ i := by omega
  have h8 : 8 ≤ i := by omega
  have e : 16 + (i - 16) = i := by omega
  have e' : 8 + (i - 8) = i := by omega
  rw [Region.unshift_apply, if_pos h16, store512_frame _ _ (i - 16) (by omega), Region.shift_apply, e,
    Region.unshift_apply, if_pos h8, store512_frame _ _ (i - 8) (by omega), Region.shift_apply, e',
    store512_frame _ _ i h8]

theorem stAB_copyN (state input : Region) :
    stA (Region.copyN state input 24) = stA input ∧ stB (Region.copyN state input 24) = stB input := by
  constructor <;> funext k
  · have : 8 * (k.val / 4) + k.val % 4 < 24 := by have := k.isLt; omega
    simp only [stA, Region.copyN_apply, this, ↓reduceIte]
  · have : 8 * (k.val / 4) + 4 + k.val % 4 < 24 := by have := k.isLt; omega
    simp only [stB, Region.copyN_apply, this, ↓reduceIte]

/-- the AVX512 full-result permutation maps both interleaved states by the specified permutation; nothing beyond the
    24 state words is written -/
theorem avx512_spec (state input : Region) :
    stA (Pos_hash_full_result_avx512 state input) = permutation (stA input) ∧
    stB (Pos_hash_full_result_avx512 state input) = permutation (stB input) ∧
    ∀ i, 24 ≤ i → (Pos_hash_full_result_avx512 state input) i = state i := by
  refine ⟨?_, ?_, fun i hi => ?_⟩
  · simp only [Pos_hash_full_result_avx512, (stores512_den _ _ _ _).1, (vF512_mmult8_M _ _ _).1, (vF512_pow7 _ _ _).1,
      (vF512_add_small_C _ _ _ 12 (by omega)).1, (vF512_add_small_C _ _ _ 24 (by omega)).1,
      (vF512_add_small_C _ _ _ 36 (by omega)).1, (vF512_add_small_C _ _ _ 82 (by omega)).1,
      (vF512_add_small_C _ _ _ 94 (by omega)).1, (vF512_add_small_C _ _ _ 106 (by omega)).1, (vF512_add_small_C0 _ _ _).1,
      (vF512_add_C _ _ _ _).1, (vF512_mmult_P _ _ _).1, (vF_reload512 _ _ _ _ _ _).1, (vloops512 _ _ _ _ _ _).1,
      (pF_spill512 _ _ _ _).1, (vF_load512 _).1, (stAB_copyN _ _).1, permutation, fullRound]
  · simp only [Pos_hash_full_result_avx512, (stores512_den _ _ _ _).2, (vF512_mmult8_M _ _ _).2, (vF512_pow7 _ _ _).2,
      (vF512_add_small_C _ _ _ 12 (by omega)).2, (vF512_add_small_C _ _ _ 24 (by omega)).2,
      (vF512_add_small_C _ _ _ 36 (by omega)).2, (vF512_add_small_C _ _ _ 82 (by omega)).2,
      (vF512_add_small_C _ _ _ 94 (by omega)).2, (vF512_add_small_C _ _ _ 106 (by omega)).2, (vF512_add_small_C0 _ _ _).2,
      (vF512_add_C _ _ _ _).2, (vF512_mmult_P _ _ _).2, (vF_reload512 _ _ _ _ _ _).2, (vloops512 _ _ _ _ _ _).2,
      (pF_spill512 _ _ _ _).2, (vF_load512 _).2, (stAB_copyN _ _).2, permutation, fullRound]
  · have hlt : ¬ i < 24 := by omega
    have h0 : i ≠ 0 := by omega
    have h4 : i ≠ 4 := by omega
    simp only [Pos_hash_full_result_avx512, stores512_frame _ _ _ _ i hi, store512_frame _ _ i (by omega : 8 ≤ i),
      Region.set_apply, h0, h4, Region.copyN_apply, hlt, ↓reduceIte]

end GoldilocksVerif
