/-
  The generated destructor releases only pointers that are the start of a live block (`NTT_dtor.Safe`, derived from the
  generated definition): no double release, no release of an interior pointer — for an object that owns distinct live blocks.
-/
import GoldilocksVerif.Lemmas.HeapSafeNtt
import GoldilocksVerif.Lemmas.HeapSafeOwn
open GoldilocksVerif Gen.NttGen GoldilocksVerif.BridgeNtt
namespace GoldilocksVerif.HeapSafe

theorem ext_free_ne (h : Heap) (p : Ptr) (b : Nat) (hb : b ≠ p.blk) : (h.free p).ext b = h.ext b := by
  rw [Heap.ext_free, if_neg (fun x => hb x.1)]

/-- the object owns live blocks: every pointer the destructor releases is the start of a live block of its own -/
structure OwnsLive (hp : Heap) (obj : NTT_Goldilocks) : Prop where
  tables : obj.s ≠ 0#32 → obj.roots.off = 0 ∧ 0 < hp.ext obj.roots.blk ∧ obj.powTwoInv.off = 0 ∧
    0 < hp.ext obj.powTwoInv.blk ∧ obj.roots.blk ≠ obj.powTwoInv.blk
  hr : obj.r ≠ Ptr.null → obj.r.off = 0 ∧ 0 < hp.ext obj.r.blk ∧
    (obj.s ≠ 0#32 → obj.r.blk ≠ obj.roots.blk ∧ obj.r.blk ≠ obj.powTwoInv.blk)
  hr_ : obj.r_ ≠ Ptr.null → obj.r_.off = 0 ∧ 0 < hp.ext obj.r_.blk ∧
    (obj.s ≠ 0#32 → obj.r_.blk ≠ obj.roots.blk ∧ obj.r_.blk ≠ obj.powTwoInv.blk) ∧ (obj.r ≠ Ptr.null → obj.r_.blk ≠ obj.r.blk)

/-- the destructor releases only starts of live blocks (no double release, no release of an interior pointer) -/
theorem dtor_safe (hp : Heap) (self : NTT_Goldilocks) (h : OwnsLive hp self) : NTT_dtor.Safe hp self := by
  obtain ⟨ht, hr, hr_⟩ := h
  unfold NTT_dtor.Safe
  zeta_goal
  refine ⟨fun hs => ?_, fun hrn => ?_, fun hrn_ => ?_⟩
  · have hs' := (bne_true _ _).1 hs
    obtain ⟨a, b, c, d, e⟩ := ht hs'
    exact ⟨Or.inr ⟨a, b⟩, Or.inr ⟨c, by rw [ext_free_ne _ _ _ (fun x => e x.symm)]; exact d⟩⟩
  · have hrn' := (bne_true _ _).1 hrn
    obtain ⟨a, b, c⟩ := hr hrn'
    refine Or.inr ⟨a, ?_⟩
    by_cases hs : (self.s != 0#32) = true
    · rw [if_pos hs]
      obtain ⟨c1, c2⟩ := c ((bne_true _ _).1 hs)
      rw [ext_free_ne _ _ _ c2, ext_free_ne _ _ _ c1]; exact b
    · rw [if_neg hs]; exact b
  · have hrn' := (bne_true _ _).1 hrn_
    obtain ⟨a, b, c, d⟩ := hr_ hrn'
    refine Or.inr ⟨a, ?_⟩
    have h1 : (if (self.s != 0#32) = true then (hp.free self.roots).free self.powTwoInv else hp).ext self.r_.blk = hp.ext self.r_.blk := by
      by_cases hs : (self.s != 0#32) = true
      · rw [if_pos hs]
        obtain ⟨c1, c2⟩ := c ((bne_true _ _).1 hs)
        rw [ext_free_ne _ _ _ c2, ext_free_ne _ _ _ c1]
      · rw [if_neg hs]
    by_cases hr0 : (self.r != Ptr.null) = true
    · rw [if_pos hr0, ext_free_ne _ _ _ (d ((bne_true _ _).1 hr0)), h1]; exact b
    · rw [if_neg hr0, h1]; exact b

end GoldilocksVerif.HeapSafe
