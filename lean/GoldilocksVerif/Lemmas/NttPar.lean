/-
  Race freedom of the MODEL's parallel loops, generic part (helper of Props/C12.lean).

  `Lemmas/Bernstein.lean` works on memories `L → V`.  The hand model of the transforms (Model/Ntt.lean) works on
  buffers (`Array`) whose accesses are bounds-tolerant (`getD`, `setIfInBounds`), so here the same argument is made on
  states observed through a `View`: a shape (the buffer sizes) and the word at every location `(buffer, index)`.
  * `PIter V`    : a state transformer with read/write footprints, frame and dependency proofs (as `Par.Iter`).
  * `commute`, `any_order` : Bernstein's conditions (`Par.FootIndep`, the SAME predicate the footprint theorems of
                   Props/C12.lean establish) ⇒ the iterations of a loop can be folded in any order.
  * `Local f X`  : `f : Buf → Buf` touches only the words `X` and its result there depends only on the words `X`.
  * `Writer f Rd Wr` : `f src dst` writes only the words `Wr` of `dst`; what it writes depends only on the words `Rd`
                   of `src` (and on the size of `dst`).
  Both notions are closed under the loops of the model (`iter`), which is how the footprints of the loop BODIES of
  Model/Ntt.lean are derived (Lemmas/NttParBatch.lean, Lemmas/NttParRev.lean) — no buffer-size hypotheses are needed.
-/
import GoldilocksVerif.Lemmas.Bernstein
import GoldilocksVerif.Lemmas.NttArr

namespace GoldilocksVerif.Par
open GoldilocksVerif.Model.Ntt

/-! ### states observed through locations -/

/-- what the iterations of a parallel loop can observe of a state: the sizes of its buffers and the word at every
    location `(buffer, index)`; two states with the same shape and the same words are equal -/
structure View (S : Type) where
  shape : S → List Nat
  rd : S → Nat × Nat → W
  ext : ∀ s s', shape s = shape s' → (∀ l, rd s l = rd s' l) → s = s'

/-- one iteration of a parallel loop on states `S` -/
structure PIter {S : Type} (V : View S) where
  run : S → S
  R : Nat × Nat → Prop
  W : Nat × Nat → Prop
  shape_eq : ∀ s, V.shape (run s) = V.shape s
  /-- nothing outside the write footprint changes -/
  frame : ∀ s l, ¬ W l → V.rd (run s) l = V.rd s l
  /-- what is written depends only on the content of the read footprint (and on the shape) -/
  dep : ∀ s s', V.shape s = V.shape s' → (∀ l, R l → V.rd s l = V.rd s' l) → ∀ l, W l → V.rd (run s) l = V.rd (run s') l

variable {S : Type} {V : View S}

/-- two iterations whose footprints satisfy Bernstein's conditions commute -/
theorem PIter.commute (f g : PIter V) (h : FootIndep f.R f.W g.R g.W) (s : S) : f.run (g.run s) = g.run (f.run s) := by
  obtain ⟨hww, hwr, hrw⟩ := h
  apply V.ext
  · rw [f.shape_eq, g.shape_eq, g.shape_eq, f.shape_eq]
  intro l
  by_cases hf : f.W l
  · have hg : ¬ g.W l := fun hg => hww l ⟨hf, hg⟩
    rw [g.frame _ l hg]
    exact f.dep _ _ (g.shape_eq s) (fun l' hr => g.frame s l' (fun hw => hrw l' ⟨hw, hr⟩)) l hf
  · rw [f.frame _ l hf]
    by_cases hg : g.W l
    · exact (g.dep _ _ (f.shape_eq s) (fun l' hr => f.frame s l' (fun hw => hwr l' ⟨hw, hr⟩)) l hg).symm
    · rw [g.frame _ l hg, g.frame _ l hg, f.frame _ l hf]

/-- a family of iterations indexed by `ι`, pairwise independent on the indices of `l`: folding them over any permutation
    of `l` gives the same state -/
theorem any_order {ι : Type} (it : ι → PIter V) (l l' : List ι) (hp : l.Perm l')
    (hind : ∀ i ∈ l, ∀ j ∈ l, i ≠ j → FootIndep (it i).R (it i).W (it j).R (it j).W) (s : S) :
    l.foldl (fun s i => (it i).run s) s = l'.foldl (fun s i => (it i).run s) s := by
  apply hp.foldl_eq'
  intro x hx y hy z
  by_cases e : x = y
  · subst e; rfl
  · exact ((it y).commute (it x) (hind y hy x hx (fun h => e h.symm)) z)

/-- change the presentation of the footprints -/
def PIter.reFoot (p : PIter V) (R W : Nat × Nat → Prop) (hR : ∀ l, R l ↔ p.R l) (hW : ∀ l, W l ↔ p.W l) : PIter V where
  run := p.run
  R := R
  W := W
  shape_eq := p.shape_eq
  frame := fun s l h => p.frame s l (fun hw => h ((hW l).2 hw))
  dep := fun s s' hs h l hl => p.dep s s' hs (fun l' hr => h l' ((hR l').2 hr)) l ((hW l).1 hl)

/-- the model's `for` loop is the fold over `0, 1, …, n-1` -/
theorem iter_eq_foldl {σ : Type} (n : Nat) (s : σ) (f : Nat → σ → σ) :
    iter n s f = (List.range n).foldl (fun s i => f i s) s := by
  induction n with
  | zero => rfl
  | succ n ih => rw [iter_succ, List.range_succ, List.foldl_append, ← ih]; rfl

/-! ### the two views used by the transform loops -/

/-- one buffer: buffer 0 -/
def view1 : View Buf where
  shape a := [a.size]
  rd a l := if l.1 = 0 then a.getD l.2 0#64 else 0#64
  ext := by
    intro a a' hs h
    have hs' : a.size = a'.size := by simpa using hs
    apply buf_ext a a' hs'
    intro j _
    have := h (0, j)
    simpa using this

/-- two buffers: buffers 0 and 1 -/
def view2 : View (Buf × Buf) where
  shape st := [st.1.size, st.2.size]
  rd st l := if l.1 = 0 then st.1.getD l.2 0#64 else if l.1 = 1 then st.2.getD l.2 0#64 else 0#64
  ext := by
    intro st st' hs h
    have hs' : st.1.size = st'.1.size ∧ st.2.size = st'.2.size := by simpa using hs
    apply Prod.ext
    · apply buf_ext _ _ hs'.1
      intro j _
      have := h (0, j)
      simpa using this
    · apply buf_ext _ _ hs'.2
      intro j _
      have := h (1, j)
      simpa using this

/-! ### footprints of buffer transformers -/

def Agree (X : Nat → Prop) (a a' : Buf) : Prop := ∀ j, X j → a.getD j 0#64 = a'.getD j 0#64

/-- `f` touches only the words `X`, and its result on `X` depends only on the words `X` (and on the size) -/
structure Local (f : Buf → Buf) (X : Nat → Prop) : Prop where
  size : ∀ a, (f a).size = a.size
  frame : ∀ a j, ¬ X j → (f a).getD j 0#64 = a.getD j 0#64
  dep : ∀ a a', a.size = a'.size → Agree X a a' → Agree X (f a) (f a')

/-- `f src dst` writes only the words `Wr` of `dst`; what it writes depends only on the words `Rd` of `src` -/
structure Writer (f : Buf → Buf → Buf) (Rd Wr : Nat → Prop) : Prop where
  size : ∀ s d, (f s d).size = d.size
  frame : ∀ s d j, ¬ Wr j → (f s d).getD j 0#64 = d.getD j 0#64
  dep : ∀ s s' d d', d.size = d'.size → Agree Rd s s' → Agree Wr (f s d) (f s' d')

theorem Local.mono {f : Buf → Buf} {X Y : Nat → Prop} (h : Local f X) (hXY : ∀ j, X j → Y j) : Local f Y where
  size := h.size
  frame := fun a j hj => h.frame a j (fun hx => hj (hXY j hx))
  dep := by
    intro a a' hs hag j hj
    by_cases hx : X j
    · exact h.dep a a' hs (fun j' hj' => hag j' (hXY j' hj')) j hx
    · rw [h.frame a j hx, h.frame a' j hx]; exact hag j hj

theorem Local.comp {f g : Buf → Buf} {X : Nat → Prop} (hf : Local f X) (hg : Local g X) : Local (fun a => g (f a)) X where
  size := fun a => by rw [hg.size, hf.size]
  frame := fun a j hj => by rw [hg.frame _ j hj, hf.frame a j hj]
  dep := fun a a' hs hag => hg.dep _ _ (by rw [hf.size, hf.size, hs]) (hf.dep a a' hs hag)

theorem Local.id (X : Nat → Prop) : Local (fun a => a) X :=
  ⟨fun _ => rfl, fun _ _ _ => rfl, fun _ _ _ h => h⟩

/-- a loop whose every iteration is local to `X` is local to `X` -/
theorem Local.iter {X : Nat → Prop} (n : Nat) (f : Nat → Buf → Buf) (h : ∀ i, i < n → Local (f i) X) :
    Local (fun a => Model.Ntt.iter n a f) X := by
  induction n with
  | zero => exact Local.id X
  | succ n ih =>
    have := Local.comp (ih (fun i hi => h i (by omega))) (h n (by omega))
    have e : (fun a => Model.Ntt.iter (n + 1) a f) = (fun a => f n (Model.Ntt.iter n a f)) := by funext a; rw [iter_succ]
    rw [e]; exact this

theorem Local.ite {X : Nat → Prop} (c : Prop) [Decidable c] {f g : Buf → Buf} (hf : Local f X) (hg : Local g X) :
    Local (fun a => if c then f a else g a) X := by
  by_cases h : c
  · simp only [if_pos h]; exact hf
  · simp only [if_neg h]; exact hg

theorem Writer.monoR {f : Buf → Buf → Buf} {Rd Rd' Wr : Nat → Prop} (h : Writer f Rd Wr) (hR : ∀ j, Rd j → Rd' j) :
    Writer f Rd' Wr :=
  ⟨h.size, h.frame, fun s s' d d' hs hag => h.dep s s' d d' hs (fun j hj => hag j (hR j hj))⟩

theorem Writer.congrW {f : Buf → Buf → Buf} {Rd Wr Wr' : Nat → Prop} (h : Writer f Rd Wr) (hW : ∀ j, Wr' j ↔ Wr j) :
    Writer f Rd Wr' :=
  ⟨h.size, fun s d j hj => h.frame s d j (fun hw => hj ((hW j).2 hw)),
   fun s s' d d' hs hag j hj => h.dep s s' d d' hs hag j ((hW j).1 hj)⟩

/-- a loop of writers (iteration `x` writes `Wr x`) writes the union -/
theorem Writer.iter {Rd : Nat → Prop} (n : Nat) (f : Nat → Buf → Buf → Buf) (Wr : Nat → Nat → Prop)
    (h : ∀ x, x < n → Writer (f x) Rd (Wr x)) :
    Writer (fun s d => Model.Ntt.iter n d (fun x d => f x s d)) Rd (fun j => ∃ x, x < n ∧ Wr x j) := by
  induction n with
  | zero =>
    exact ⟨fun _ _ => rfl, fun _ _ _ _ => rfl, fun _ _ _ _ _ _ j hj => by obtain ⟨x, hx, _⟩ := hj; omega⟩
  | succ n ih =>
    have ih := ih (fun x hx => h x (by omega))
    have hn := h n (by omega)
    refine ⟨?_, ?_, ?_⟩
    · intro s d; simp only [iter_succ]; rw [hn.size]; exact ih.size s d
    · intro s d j hj
      simp only [iter_succ]
      rw [hn.frame _ _ j (fun hw => hj ⟨n, by omega, hw⟩)]
      exact ih.frame s d j (fun ⟨x, hx, hw⟩ => hj ⟨x, by omega, hw⟩)
    · intro s s' d d' hs hag j hj
      simp only [iter_succ]
      have hsz : (Model.Ntt.iter n d (fun x d => f x s d)).size = (Model.Ntt.iter n d' (fun x d => f x s' d)).size := by
        rw [ih.size s d, ih.size s' d', hs]
      by_cases hw : Wr n j
      · exact hn.dep s s' _ _ hsz hag j hw
      · rw [hn.frame _ _ j hw, hn.frame _ _ j hw]
        obtain ⟨x, hx, hxw⟩ := hj
        have hxn : x < n := by
          rcases Nat.lt_or_ge x n with h1 | h1
          · exact h1
          · have : x = n := by omega
            subst this; exact absurd hxw hw
        exact ih.dep s s' d d' hs hag j ⟨x, hxn, hxw⟩

theorem Writer.ite {Rd Wr : Nat → Prop} (c : Prop) [Decidable c] {f g : Buf → Buf → Buf} (hf : Writer f Rd Wr)
    (hg : Writer g Rd Wr) : Writer (fun s d => if c then f s d else g s d) Rd Wr := by
  by_cases h : c
  · simp only [if_pos h]; exact hf
  · simp only [if_neg h]; exact hg

/-! ### the row primitives of the model -/

/-- `memcpy(&dst[d0], &src[so], n)` -/
theorem copyRow_writer (d0 so n : Nat) :
    Writer (fun s d => copyRow d d0 s so n) (fun j => so ≤ j ∧ j < so + n) (fun j => d0 ≤ j ∧ j < d0 + n) where
  size := fun s d => copyRow_size d d0 s so n
  frame := fun s d j hj => by rw [copyRow_getD, if_neg (fun c => hj ⟨c.1, c.2.1⟩)]
  dep := by
    intro s s' d d' hs hag j hj
    rw [copyRow_getD, copyRow_getD, hs]
    by_cases hb : j < d'.size
    · rw [if_pos ⟨hj.1, hj.2, hb⟩, if_pos ⟨hj.1, hj.2, hb⟩]
      exact hag _ (by omega)
    · rw [if_neg (fun c => hb c.2.2), if_neg (fun c => hb c.2.2), getD_ge d j (by omega), getD_ge d' j (by omega)]

theorem zeroRow_writer (Rd : Nat → Prop) (d0 n : Nat) :
    Writer (fun _ d => zeroRow d d0 n) Rd (fun j => d0 ≤ j ∧ j < d0 + n) where
  size := fun _ d => zeroRow_size d d0 n
  frame := fun s d j hj => by rw [zeroRow_getD, if_neg (fun c => hj ⟨c.1, c.2.1⟩)]
  dep := by
    intro s s' d d' hs _ j hj
    rw [zeroRow_getD, zeroRow_getD, hs]
    by_cases hb : j < d'.size
    · rw [if_pos ⟨hj.1, hj.2, hb⟩, if_pos ⟨hj.1, hj.2, hb⟩]
    · rw [if_neg (fun c => hb c.2.2), if_neg (fun c => hb c.2.2), getD_ge d j (by omega), getD_ge d' j (by omega)]

/-- `for k: mul(a2[d0 + k], a[s0 + k], f)` -/
theorem scaleRow_writer (d0 s0 n : Nat) (fac : W) :
    Writer (fun s d => scaleRow d s d0 s0 n fac) (fun j => s0 ≤ j ∧ j < s0 + n) (fun j => d0 ≤ j ∧ j < d0 + n) where
  size := fun s d => scaleRow_size d s d0 s0 n fac
  frame := fun s d j hj => by rw [scaleRow_getD, if_neg (fun c => hj ⟨c.1, c.2.1⟩)]
  dep := by
    intro s s' d d' hs hag j hj
    rw [scaleRow_getD, scaleRow_getD, hs]
    by_cases hb : j < d'.size
    · rw [if_pos ⟨hj.1, hj.2, hb⟩, if_pos ⟨hj.1, hj.2, hb⟩, hag _ (by omega)]
    · rw [if_neg (fun c => hb c.2.2), if_neg (fun c => hb c.2.2), getD_ge d j (by omega), getD_ge d' j (by omega)]

/-! ### rows -/

/-- the words of the rows `r` with `P r` of a row-major matrix with `nc` columns -/
def rowsW (nc : Nat) (P : Nat → Prop) : Nat → Prop := fun j => ∃ r, P r ∧ r * nc ≤ j ∧ j < r * nc + nc

/-- the words of a footprint given in rows (as in Props/C12.lean) -/
def wordsOf (nc : Nat) (F : Nat × Nat → Prop) : Nat × Nat → Prop :=
  fun w => ∃ r, F (w.1, r) ∧ r * nc ≤ w.2 ∧ w.2 < r * nc + nc

/-- a word lies in one row only -/
theorem row_unique (nc r r' j : Nat) (h1 : r * nc ≤ j) (h2 : j < r * nc + nc) (h1' : r' * nc ≤ j) (h2' : j < r' * nc + nc) :
    r = r' := by
  rcases Nat.lt_trichotomy r r' with h | h | h
  · have : (r + 1) * nc ≤ r' * nc := Nat.mul_le_mul_right _ h
    rw [Nat.add_mul, Nat.one_mul] at this; omega
  · exact h
  · have : (r' + 1) * nc ≤ r * nc := Nat.mul_le_mul_right _ h
    rw [Nat.add_mul, Nat.one_mul] at this; omega

/-- Bernstein's conditions on rows give Bernstein's conditions on the words of these rows -/
theorem FootIndep.words (nc : Nat) {R1 W1 R2 W2 : Nat × Nat → Prop} (h : FootIndep R1 W1 R2 W2) :
    FootIndep (wordsOf nc R1) (wordsOf nc W1) (wordsOf nc R2) (wordsOf nc W2) := by
  have key : ∀ (F G : Nat × Nat → Prop), (∀ l, ¬ (F l ∧ G l)) → ∀ w, ¬ (wordsOf nc F w ∧ wordsOf nc G w) := by
    rintro F G hFG ⟨b, j⟩ ⟨⟨r, hr, h1, h2⟩, ⟨r', hr', h1', h2'⟩⟩
    have := row_unique nc r r' j h1 h2 h1' h2'
    subst this
    exact hFG _ ⟨hr, hr'⟩
  exact ⟨key _ _ h.1, key _ _ h.2.1, key _ _ h.2.2⟩

theorem FootIndep.congr {L : Type} {R1 W1 R2 W2 R1' W1' R2' W2' : L → Prop} (h : FootIndep R1 W1 R2 W2)
    (e1 : ∀ l, R1' l → R1 l) (e2 : ∀ l, W1' l → W1 l) (e3 : ∀ l, R2' l → R2 l) (e4 : ∀ l, W2' l → W2 l) :
    FootIndep R1' W1' R2' W2' :=
  ⟨fun l hl => h.1 l ⟨e2 l hl.1, e4 l hl.2⟩, fun l hl => h.2.1 l ⟨e2 l hl.1, e3 l hl.2⟩,
   fun l hl => h.2.2 l ⟨e4 l hl.1, e1 l hl.2⟩⟩

/-! ### iterations from buffer transformers -/

/-- an in-place iteration on one buffer -/
def PIter.ofLocal (f : Buf → Buf) (X : Nat → Prop) (h : Local f X) : PIter view1 where
  run := f
  R := fun l => l.1 = 0 ∧ X l.2
  W := fun l => l.1 = 0 ∧ X l.2
  shape_eq := fun a => by show [(f a).size] = [a.size]; rw [h.size]
  frame := by
    intro a l hl
    show (if l.1 = 0 then (f a).getD l.2 0#64 else 0#64) = (if l.1 = 0 then a.getD l.2 0#64 else 0#64)
    by_cases h0 : l.1 = 0
    · rw [if_pos h0, if_pos h0]; exact h.frame a l.2 (fun hx => hl ⟨h0, hx⟩)
    · rw [if_neg h0, if_neg h0]
  dep := by
    intro a a' hs hag l hl
    have hs' : a.size = a'.size := by simpa [view1] using hs
    show (if l.1 = 0 then (f a).getD l.2 0#64 else 0#64) = (if l.1 = 0 then (f a').getD l.2 0#64 else 0#64)
    rw [if_pos hl.1, if_pos hl.1]
    apply h.dep a a' hs' _ l.2 hl.2
    intro j hj
    have := hag (0, j) ⟨rfl, hj⟩
    simpa [view1] using this

/-- state `(src, dst)`: the iteration reads `Rd` of buffer 0 and writes `Wr` of buffer 1 -/
def PIter.ofWriter (f : Buf → Buf → Buf) (Rd Wr : Nat → Prop) (h : Writer f Rd Wr) : PIter view2 where
  run := fun st => (st.1, f st.1 st.2)
  R := fun l => l.1 = 0 ∧ Rd l.2
  W := fun l => l.1 = 1 ∧ Wr l.2
  shape_eq := fun st => by show [st.1.size, (f st.1 st.2).size] = [st.1.size, st.2.size]; rw [h.size]
  frame := by
    intro st l hl
    show (if l.1 = 0 then st.1.getD l.2 0#64 else if l.1 = 1 then (f st.1 st.2).getD l.2 0#64 else 0#64)
      = (if l.1 = 0 then st.1.getD l.2 0#64 else if l.1 = 1 then st.2.getD l.2 0#64 else 0#64)
    by_cases h0 : l.1 = 0
    · rw [if_pos h0, if_pos h0]
    · rw [if_neg h0, if_neg h0]
      by_cases h1 : l.1 = 1
      · rw [if_pos h1, if_pos h1]; exact h.frame _ _ l.2 (fun hx => hl ⟨h1, hx⟩)
      · rw [if_neg h1, if_neg h1]
  dep := by
    intro st st' hs hag l hl
    have hs' : st.1.size = st'.1.size ∧ st.2.size = st'.2.size := by simpa [view2] using hs
    have h0 : ¬ l.1 = 0 := by rw [hl.1]; omega
    show (if l.1 = 0 then st.1.getD l.2 0#64 else if l.1 = 1 then (f st.1 st.2).getD l.2 0#64 else 0#64)
      = (if l.1 = 0 then st'.1.getD l.2 0#64 else if l.1 = 1 then (f st'.1 st'.2).getD l.2 0#64 else 0#64)
    rw [if_neg h0, if_neg h0, if_pos hl.1, if_pos hl.1]
    apply h.dep _ _ _ _ hs'.2 _ l.2 hl.2
    intro j hj
    have := hag (0, j) ⟨rfl, hj⟩
    simpa [view2] using this

/-- state `(a, a2)`: the iteration transforms the words `X` of buffer 0 in place, then writes `Y` of buffer 1 from them -/
def PIter.ofLocalWriter (f : Buf → Buf) (g : Buf → Buf → Buf) (X Y : Nat → Prop) (hf : Local f X) (hg : Writer g X Y) :
    PIter view2 where
  run := fun st => (f st.1, g (f st.1) st.2)
  R := fun l => l.1 = 0 ∧ X l.2
  W := fun l => (l.1 = 0 ∧ X l.2) ∨ (l.1 = 1 ∧ Y l.2)
  shape_eq := fun st => by
    show [(f st.1).size, (g (f st.1) st.2).size] = [st.1.size, st.2.size]; rw [hf.size, hg.size]
  frame := by
    intro st l hl
    show (if l.1 = 0 then (f st.1).getD l.2 0#64 else if l.1 = 1 then (g (f st.1) st.2).getD l.2 0#64 else 0#64)
      = (if l.1 = 0 then st.1.getD l.2 0#64 else if l.1 = 1 then st.2.getD l.2 0#64 else 0#64)
    by_cases h0 : l.1 = 0
    · rw [if_pos h0, if_pos h0]; exact hf.frame _ l.2 (fun hx => hl (Or.inl ⟨h0, hx⟩))
    · rw [if_neg h0, if_neg h0]
      by_cases h1 : l.1 = 1
      · rw [if_pos h1, if_pos h1]; exact hg.frame _ _ l.2 (fun hx => hl (Or.inr ⟨h1, hx⟩))
      · rw [if_neg h1, if_neg h1]
  dep := by
    intro st st' hs hag l hl
    have hs' : st.1.size = st'.1.size ∧ st.2.size = st'.2.size := by simpa [view2] using hs
    have hX : Agree X st.1 st'.1 := by
      intro j hj
      have := hag (0, j) ⟨rfl, hj⟩
      simpa [view2] using this
    have hfX := hf.dep _ _ hs'.1 hX
    show (if l.1 = 0 then (f st.1).getD l.2 0#64 else if l.1 = 1 then (g (f st.1) st.2).getD l.2 0#64 else 0#64)
      = (if l.1 = 0 then (f st'.1).getD l.2 0#64 else if l.1 = 1 then (g (f st'.1) st'.2).getD l.2 0#64 else 0#64)
    rcases hl with hl | hl
    · rw [if_pos hl.1, if_pos hl.1]; exact hfX l.2 hl.2
    · have h0 : ¬ l.1 = 0 := by rw [hl.1]; omega
      rw [if_neg h0, if_neg h0, if_pos hl.1, if_pos hl.1]
      exact hg.dep _ _ _ _ hs'.2 hfX l.2 hl.2

/-- folding writers over a fixed source is the second component of the fold on `(src, dst)` -/
theorem foldl_writer {ι : Type} (f : ι → Buf → Buf → Buf) (src : Buf) (l : List ι) (d : Buf) :
    l.foldl (fun (st : Buf × Buf) i => (st.1, f i st.1 st.2)) (src, d) = (src, l.foldl (fun d i => f i src d) d) := by
  induction l generalizing d with
  | nil => rfl
  | cons i rest ih => simp only [List.foldl_cons]; exact ih _

/-- writers over a fixed source whose footprints are pairwise independent can be folded in any order -/
theorem writers_any_order {ι : Type} (f : ι → Buf → Buf → Buf) (Rd Wr : ι → Nat → Prop)
    (h : ∀ i, Writer (f i) (Rd i) (Wr i)) (l l' : List ι) (hp : l.Perm l')
    (hind : ∀ i ∈ l, ∀ j ∈ l, i ≠ j →
      FootIndep (fun w : Nat × Nat => w.1 = 0 ∧ Rd i w.2) (fun w => w.1 = 1 ∧ Wr i w.2)
                (fun w => w.1 = 0 ∧ Rd j w.2) (fun w => w.1 = 1 ∧ Wr j w.2)) (src d : Buf) :
    l.foldl (fun d i => f i src d) d = l'.foldl (fun d i => f i src d) d := by
  have := any_order (fun i => PIter.ofWriter (f i) (Rd i) (Wr i) (h i)) l l' hp hind (src, d)
  have e : ∀ l : List ι, l.foldl (fun s i => (PIter.ofWriter (f i) (Rd i) (Wr i) (h i)).run s) (src, d)
      = (src, l.foldl (fun d i => f i src d) d) := fun l => foldl_writer f src l d
  rw [e l, e l'] at this
  exact congrArg Prod.snd this

/-- in-place iterations on one buffer whose footprints are pairwise independent can be folded in any order -/
theorem locals_any_order {ι : Type} (f : ι → Buf → Buf) (X : ι → Nat → Prop) (h : ∀ i, Local (f i) (X i))
    (l l' : List ι) (hp : l.Perm l')
    (hind : ∀ i ∈ l, ∀ j ∈ l, i ≠ j →
      FootIndep (fun w : Nat × Nat => w.1 = 0 ∧ X i w.2) (fun w => w.1 = 0 ∧ X i w.2)
                (fun w => w.1 = 0 ∧ X j w.2) (fun w => w.1 = 0 ∧ X j w.2)) (d : Buf) :
    l.foldl (fun d i => f i d) d = l'.foldl (fun d i => f i d) d :=
  any_order (fun i => PIter.ofLocal (f i) (X i) (h i)) l l' hp hind d

end GoldilocksVerif.Par
