/-
  C20 helper lemmas, part 2: pure-`Nat` facts about the mirrors of `Lemmas/PtxNat.lean`
  (small `omega`/`grind` contexts, one carry case per goal, congruences by explicit certificate `mod_cert`),
  and the resulting statements about the generated definitions.  Core only.
-/
import GoldilocksVerif.Lemmas.PtxNat

namespace GoldilocksVerif.PtxN
open Gen.Ptx Ptx

local notation "M32" => 4294967296
local notation "M64" => 18446744073709551616
local notation "W32" => 4294967295


/-- close a goal `(if c then x else y) = z` whose condition is decided by arithmetic -/
macro "split_omega" : tactic =>
  `(tactic| first | omega | (split <;> first | omega | exact absurd trivial (by assumption)))

theorem mod_once (x : Nat) (h1 : 18446744069414584321 ≤ x) (h2 : x < 36893488138829168642) :
    x % 18446744069414584321 = x - 18446744069414584321 := by
  rw [Nat.mod_eq_sub_mod h1]
  exact Nat.mod_eq_of_lt (by omega)

theorem addN_spec (a b : Nat) (ha : a < P) (hb : b < P) : addN a b = (a + b) % P := by
  unfold P at *
  unfold addN
  simp only []
  generalize hs : a + b = s
  have hs2 : s < 36893488138829168641 := by omega
  clear hs ha hb
  by_cases h : 18446744073709551616 ≤ s
  · have e1 : s / 18446744073709551616 = 1 := by omega
    have e2 : s % 18446744073709551616 = s - 18446744073709551616 := by omega
    simp only [e1, e2]
    have e3 : (18446744069414584321 + (18446744073709551615 - (s - 18446744073709551616))) / 18446744073709551616 = 1 := by omega
    simp only [e3]
    rw [mod_once s (by omega) (by omega)]
    have e4 : (s - 18446744073709551616 + 4294967295) % 18446744073709551616 = s - 18446744069414584321 := by omega
    rw [e4]
    split_omega
  · have e1 : s / 18446744073709551616 = 0 := by omega
    have e2 : s % 18446744073709551616 = s := by omega
    simp only [e1, e2]
    by_cases h2 : 18446744069414584321 ≤ s
    · have e3 : (18446744069414584321 + (18446744073709551615 - s)) / 18446744073709551616 = 0 := by omega
      simp only [e3]
      rw [mod_once s (by omega) (by omega)]
      have e4 : (s + 4294967295) % 18446744073709551616 = s - 18446744069414584321 := by omega
      rw [e4]
      split_omega
    · have e3 : (18446744069414584321 + (18446744073709551615 - s)) / 18446744073709551616 = 1 := by omega
      simp only [e3]
      rw [Nat.mod_eq_of_lt (by omega : s < 18446744069414584321)]
      split_omega

theorem subN_spec (a b : Nat) (ha : a < P) (hb : b < P) : subN a b = (a + (P - b)) % P := by
  unfold P at *
  unfold subN
  simp only []
  by_cases h : a < b
  · have e1 : (b + (18446744073709551615 - a)) / 18446744073709551616 = 1 := by omega
    simp only [e1]
    rw [Nat.mod_eq_of_lt (by omega : a + (18446744069414584321 - b) < 18446744069414584321)]
    split_omega
  · have e1 : (b + (18446744073709551615 - a)) / 18446744073709551616 = 0 := by omega
    simp only [e1]
    by_cases hb0 : b = 0
    · subst hb0
      simp only [Nat.sub_zero, Nat.add_mod_right]
      rw [Nat.mod_eq_of_lt ha]
      split_omega
    · rw [mod_once (a + (18446744069414584321 - b)) (by omega) (by omega)]
      split_omega

theorem finalN_spec (a : Nat) (ha : a < 2 ^ 64) : finalN a = a % P := by
  unfold P
  unfold finalN
  simp only []
  by_cases h : 18446744069414584321 ≤ a
  · have e1 : (a + 4294967295) / 18446744073709551616 = 1 := by omega
    simp only [e1]
    rw [mod_once a h (by omega)]
    split_omega
  · have e1 : (a + 4294967295) / 18446744073709551616 = 0 := by omega
    simp only [e1]
    rw [Nat.mod_eq_of_lt (by omega : a < 18446744069414584321)]
    split_omega

theorem cnegN_spec (a : Nat) (flag : Bool) (ha : a < P) :
    cnegN a flag = if flag = true then (P - a) % P else a := by
  unfold P at *
  unfold cnegN
  cases flag
  · simp
  · by_cases h0 : a = 0
    · subst h0; simp
    · simp only [Bool.toNat_true, ne_eq, Nat.succ_ne_zero, not_false_eq_true, h0, decide_false,
        Bool.toNat_false, and_self, if_true]
      rw [Nat.mod_eq_of_lt (by omega : 18446744069414584321 - a < 18446744069414584321)]
      omega

local notation "M96" => 79228162514264337593543950336
local notation "PP" => 18446744069414584321
local notation "SQ" => 18446744065119617025   -- (2^32-1)^2

theorem mul32_le (a b : Nat) (ha : a < M32) (hb : b < M32) : a * b ≤ SQ := by
  have : a * b ≤ 4294967295 * 4294967295 := Nat.mul_le_mul (by omega) (by omega)
  omega

theorem split_mul (a0 a1 b0 b1 : Nat) :
    (a0 + a1 * M32) * (b0 + b1 * M32) = a0 * b0 + (a0 * b1 + a1 * b0) * M32 + a1 * b1 * M64 := by
  simp only [Nat.add_mul, Nat.mul_add]
  have e1 : a1 * 4294967296 * (b1 * 4294967296) = a1 * b1 * 18446744073709551616 := by
    rw [Nat.mul_mul_mul_comm]
  have e2 : a1 * 4294967296 * b0 = a1 * b0 * 4294967296 := Nat.mul_right_comm _ _ _
  have e3 : a0 * (b1 * 4294967296) = a0 * b1 * 4294967296 := (Nat.mul_assoc _ _ _).symm
  rw [e1, e2, e3]
  omega

/-- sub.cc / subc.cc on two words -/
theorem sub2_spec (t0 t1 s0 s1 : Nat) (h0 : t0 < M32) (h1 : t1 < M32) (h2 : s0 < M32) (h3 : s1 < M32) :
    let u0 := (t0 + (M32 - s0)) % M32
    let bw1 := (s0 + (W32 - t0)) / M32
    let u1 := (t1 + (M32 - s1) + (M32 - bw1)) % M32
    let bw2 := (s1 + bw1 + (W32 - t1)) / M32
    u0 < M32 ∧ u1 < M32 ∧ bw2 ≤ 1 ∧ u0 + u1 * M32 + (s0 + s1 * M32) = t0 + t1 * M32 + bw2 * M64 := by
  intro u0 bw1 u1 bw2
  have hb1 : bw1 ≤ 1 := by omega
  have e0 : u0 + s0 = t0 + bw1 * M32 := by omega
  have hu0 : u0 < M32 := by omega
  clear_value u0 bw1
  omega

/-- mad.lo.cc / madc.hi.cc : two words += p -/
theorem madchain_spec (p x0 x1 : Nat) (hp : p ≤ SQ) (h0 : x0 < M32) (h1 : x1 < M32) :
    let y0 := (p % M32 + x0) % M32
    let c := (p % M32 + x0) / M32
    let y1 := (p / M32 + x1 + c) % M32
    let c' := (p / M32 + x1 + c) / M32
    y0 < M32 ∧ y1 < M32 ∧ c' ≤ 1 ∧ y0 + y1 * M32 + c' * M64 = x0 + x1 * M32 + p := by
  intro y0 c y1 c'
  have hc : c ≤ 1 := by omega
  have e0 : y0 + c * M32 = p % M32 + x0 := by omega
  have hy0 : y0 < M32 := by omega
  clear_value y0 c
  omega

theorem foldN_sm70_spec (v0 v1 e : Nat) (h0 : v0 < M32) (h1 : v1 < M32) (he : e ≤ 1)
    (hb : v0 + v1 * M32 + e * W32 < M64) : foldN_sm70 v0 v1 e = v0 + v1 * M32 + e * W32 := by
  unfold foldN_sm70
  have hp : e * W32 ≤ SQ := by omega
  have h := madchain_spec (e * W32) v0 v1 hp h0 h1
  extract_lets y0 c y1 c' at h
  extract_lets
  clear_value y0 c y1 c'
  omega

theorem foldN_pre70_spec (v0 v1 e : Nat) (h0 : v0 < M32) (h1 : v1 < M32) (he : e ≤ 1)
    (hb : v0 + v1 * M32 + e * W32 < M64) : foldN_pre70 v0 v1 e = v0 + v1 * M32 + e * W32 := by
  unfold foldN_pre70
  rcases (by omega : e = 0 ∨ e = 1) with rfl | rfl
  · have hn : (M32 - 0) % M32 = 0 := by decide
    simp only [hn]
    omega
  · have hn : (M32 - 1) % M32 = W32 := by decide
    simp only [hn]
    omega

/-- blocks 1-2 of the sm70 reduce: the 96-bit value `(u0, v1, cr2)` is exact -/
theorem red_sm70_A (t0 t1 t2 t3 u0 u1 bw2 v1 c1 cr2 : Nat)
    (h0 : t0 < M32) (h1 : t1 < M32) (h2 : t2 < M32) (h3 : t3 < M32)
    (hu0 : u0 < M32) (hu1 : u1 < M32) (hbw : bw2 ≤ 1)
    (hsum : u0 + u1 * M32 + (t2 + t3 * M32) = t0 + t1 * M32 + bw2 * M64)
    (hv : v1 + c1 * M32 = u1 + t2) (hv1 : v1 < M32)
    (hcr2 : cr2 = (bw2 * W32 + t3 + c1) % M32) :
    u0 + v1 * M32 + cr2 * M64 = t0 + t1 * M32 + t2 * W32 + t3 * 18446744069414584320 := by
  rcases (by omega : bw2 = 0 ∨ bw2 = 1) with rfl | rfl
  · have hc : t3 + c1 < M32 := by omega
    have e : cr2 = t3 + c1 := by omega
    clear hc hcr2
    grind
  · have hc : 1 ≤ t3 + c1 := by omega
    have hc' : c1 ≤ 1 := by omega
    have e : cr2 + 1 = t3 + c1 := by omega
    clear hc hcr2
    grind

theorem reduce4N_sm70_spec (t0 t1 t2 t3 : Nat) (h0 : t0 < M32) (h1 : t1 < M32) (h2 : t2 < M32) (h3 : t3 < M32) :
    ∃ k1 k2, reduce4N_sm70 t0 t1 t2 t3 + PP * k1 = t0 + t1 * M32 + t2 * M64 + t3 * M96 + PP * k2 := by
  unfold reduce4N_sm70
  extract_lets u0 bw1 u1 bw2 cr v1 c1 cr2 w0 c2 w1 c3 e
  have hA : u0 < M32 ∧ u1 < M32 ∧ bw2 ≤ 1 ∧ u0 + u1 * M32 + (t2 + t3 * M32) = t0 + t1 * M32 + bw2 * M64 :=
    sub2_spec t0 t1 t2 t3 h0 h1 h2 h3
  obtain ⟨hu0, hu1, hbw, hsum⟩ := hA
  clear_value u0 bw1 u1 bw2
  have hcr : cr = bw2 * W32 := by omega
  have hv : v1 + c1 * M32 = u1 + t2 ∧ v1 < M32 := by omega
  have hcr2 : cr2 = (cr + t3 + c1) % M32 := rfl
  have hcr2lt : cr2 < M32 := by omega
  clear_value cr v1 c1 cr2
  subst hcr
  have hV := red_sm70_A t0 t1 t2 t3 u0 u1 bw2 v1 c1 cr2 h0 h1 h2 h3 hu0 hu1 hbw hsum hv.1 hv.2 hcr2
  have hp : cr2 * W32 ≤ SQ := by omega
  have hB : w0 < M32 ∧ w1 < M32 ∧ c3 ≤ 1 ∧ w0 + w1 * M32 + c3 * M64 = u0 + v1 * M32 + cr2 * W32 :=
    madchain_spec (cr2 * W32) u0 v1 hp hu0 hv.2
  obtain ⟨hw0, hw1, hc3, hsumB⟩ := hB
  have he : e = c3 := by omega
  clear_value w0 c2 w1 c3 e
  subst he   -- c3 is replaced by e
  have hv1 := hv.2
  clear hsum hcr2 hbw hu1 hv
  have hbound : w0 + w1 * M32 + e * W32 < M64 := by omega
  rw [foldN_sm70_spec w0 w1 e hw0 hw1 hc3 hbound]
  refine ⟨cr2 + e + t2 + t3 * M32, 0, ?_⟩
  omega

/-- add.cc / addc 0,0 : sum word and carry word -/
theorem addcarry_spec (x y : Nat) (hx : x < M32) (hy : y < M32) :
    let w := (x + y) % M32
    let e := (x + y) / M32 % M32
    w + e * M32 = x + y ∧ w < M32 ∧ e ≤ 1 := by
  intro w e
  omega

/-- blocks 1-3 of the pre-sm70 reduce: `(v0, v1)` is `lo64 - (t2 + t3)`, plus `P` when that is negative -/
theorem red_pre70_A (t0 t1 t2 t3 u0 u1 bw2 v0 c1 v1 b0 b1 : Nat)
    (h0 : t0 < M32) (h1 : t1 < M32) (h2 : t2 < M32) (h3 : t3 < M32)
    (hb : b0 + b1 * M32 = t2 + t3)
    (hu0 : u0 < M32) (hu1 : u1 < M32) (hbw : bw2 ≤ 1)
    (hsum : u0 + u1 * M32 + (b0 + b1 * M32) = t0 + t1 * M32 + bw2 * M64)
    (hv0 : v0 + c1 * M32 = u0 + bw2) (hv0lt : v0 < M32)
    (hv1 : v1 = (u1 + bw2 * W32 + c1) % M32) :
    v0 + v1 * M32 + (t2 + t3) = t0 + t1 * M32 + bw2 * PP := by
  rcases (by omega : bw2 = 0 ∨ bw2 = 1) with rfl | rfl
  · have hc : c1 = 0 := by omega
    subst hc
    have e : v1 = u1 := by omega
    clear hv1
    omega
  · have hc' : c1 ≤ 1 := by omega
    have hc : 1 ≤ u1 + c1 := by omega
    have e : v1 + 1 = u1 + c1 := by omega
    clear hc hv1
    first | omega | grind

theorem reduce4N_pre70_spec (t0 t1 t2 t3 : Nat) (h0 : t0 < M32) (h1 : t1 < M32) (h2 : t2 < M32) (h3 : t3 < M32) :
    ∃ k1 k2, reduce4N_pre70 t0 t1 t2 t3 + PP * k1 = t0 + t1 * M32 + t2 * M64 + t3 * M96 + PP * k2 := by
  unfold reduce4N_pre70
  extract_lets b0 b1 u0 bw1 u1 bw2 cr v0 c1 v1 w1 e
  have hb : b0 + b1 * M32 = t2 + t3 ∧ b0 < M32 ∧ b1 ≤ 1 := addcarry_spec t2 t3 h2 h3
  have hb1 : b1 < M32 := by omega
  have hA : u0 < M32 ∧ u1 < M32 ∧ bw2 ≤ 1 ∧ u0 + u1 * M32 + (b0 + b1 * M32) = t0 + t1 * M32 + bw2 * M64 :=
    sub2_spec t0 t1 b0 b1 h0 h1 hb.2.1 hb1
  obtain ⟨hu0, hu1, hbw, hsum⟩ := hA
  clear_value b0 b1 u0 bw1 u1 bw2
  have hcr : cr = bw2 * W32 := by omega
  have hv0 : v0 + c1 * M32 = u0 + bw2 ∧ v0 < M32 := by omega
  have hv1 : v1 = (u1 + cr + c1) % M32 := rfl
  have hv1lt : v1 < M32 := by omega
  clear_value cr v0 c1 v1
  subst hcr
  have hV := red_pre70_A t0 t1 t2 t3 u0 u1 bw2 v0 c1 v1 b0 b1 h0 h1 h2 h3 hb.1 hu0 hu1 hbw hsum hv0.1 hv0.2 hv1
  have hw : w1 + e * M32 = v1 + t2 ∧ w1 < M32 ∧ e ≤ 1 := addcarry_spec v1 t2 hv1lt h2
  clear_value w1 e
  have hv0lt := hv0.2
  clear hsum hv1 hv0 hu0 hu1 hb hb1
  have hbound : v0 + w1 * M32 + e * W32 < M64 := by omega
  rw [foldN_pre70_spec v0 w1 e hv0lt hw.2.1 hw.2.2 hbound]
  refine ⟨e + t2 + t3 * 4294967297, bw2, ?_⟩
  first | omega | grind

theorem divmod32 (p : Nat) (hp : p ≤ SQ) : p % M32 + p / M32 * M32 = p ∧ p % M32 < M32 ∧ p / M32 < M32 := by
  omega

/-- the mad chains of `mul` produce the exact 128-bit product -/
theorem mulTN_spec (a b : Nat) (ha : a < M64) (hb : b < M64) (k : Nat → Nat → Nat → Nat → Nat) :
    ∃ t0 t1 t2 t3, t0 < M32 ∧ t1 < M32 ∧ t2 < M32 ∧ t3 < M32 ∧
      t0 + t1 * M32 + t2 * M64 + t3 * M96 = a * b ∧ mulTN a b k = k t0 t1 t2 t3 := by
  unfold mulTN
  extract_lets a0 b0 a1 b1 t0 t1 t2 t3 u1 c1 u2 c2 cr v1 c3 v2 c4 v3
  refine ⟨t0, v1, v2, v3, ?_, ?_, ?_, ?_, ?_, rfl⟩
  · omega
  · omega
  · omega
  · omega
  have ha0 : a0 < M32 := by omega
  have hb0 : b0 < M32 := by omega
  have ha1 : a1 < M32 := by omega
  have hb1 : b1 < M32 := by omega
  have ea : a = a0 + a1 * M32 := by omega
  have eb : b = b0 + b1 * M32 := by omega
  have hab : a * b = a0 * b0 + (a0 * b1 + a1 * b0) * M32 + a1 * b1 * M64 := by
    rw [ea, eb]; exact split_mul a0 a1 b0 b1
  have hab2 : a * b ≤ 340282366920938463426481119284349108225 := by
    have : a * b ≤ 18446744073709551615 * 18446744073709551615 := Nat.mul_le_mul (by omega) (by omega)
    omega
  clear_value a0 b0 a1 b1
  clear ea eb ha hb
  have p00 := mul32_le a0 b0 ha0 hb0
  have p01 := mul32_le a0 b1 ha0 hb1
  have p10 := mul32_le a1 b0 ha1 hb0
  have p11 := mul32_le a1 b1 ha1 hb1
  have f0 : t0 + t1 * M32 = a0 * b0 ∧ t0 < M32 ∧ t1 < M32 := divmod32 (a0 * b0) p00
  have f1 : t2 + t3 * M32 = a1 * b1 ∧ t2 < M32 ∧ t3 < M32 := divmod32 (a1 * b1) p11
  have f2 : u1 < M32 ∧ u2 < M32 ∧ c2 ≤ 1 ∧ u1 + u2 * M32 + c2 * M64 = t1 + t2 * M32 + a0 * b1 :=
    madchain_spec (a0 * b1) t1 t2 p01 f0.2.2 f1.2.1
  have f3 : v1 < M32 ∧ v2 < M32 ∧ c4 ≤ 1 ∧ v1 + v2 * M32 + c4 * M64 = u1 + u2 * M32 + a1 * b0 :=
    madchain_spec (a1 * b0) u1 u2 p10 f2.1 f2.2.1
  have ecr : cr = c2 := by omega
  have ev3 : v3 = (t3 + cr + c4) % M32 := rfl
  clear_value t0 t1 t2 t3 u1 c1 u2 c2 cr v1 c3 v2 c4 v3
  subst ecr
  generalize a * b = ab at *
  generalize a0 * b0 = q00 at *
  generalize a0 * b1 = q01 at *
  generalize a1 * b0 = q10 at *
  generalize a1 * b1 = q11 at *
  clear ha0 ha1 hb0 hb1 p00 p01 p10 p11
  obtain ⟨f0a, f0b, f0c⟩ := f0
  obtain ⟨f1a, f1b, f1c⟩ := f1
  obtain ⟨f2a, f2b, f2c, f2d⟩ := f2
  obtain ⟨f3a, f3b, f3c, f3d⟩ := f3
  have hsum : t0 + v1 * M32 + v2 * M64 + t3 * M96 + cr * M96 + c4 * M96 = ab := by
    first | omega | grind
  have hlt : t3 + cr + c4 < M32 := by
    clear f0a f1a f2d f3d hab
    omega
  have ev3' : v3 = t3 + cr + c4 := by omega
  clear ev3 hlt hab f0a f1a f2d f3d
  first | omega | grind

/-- the same for the alternative form of the chains (`mulTN2`) -/
theorem mulTN2_spec (a b : Nat) (ha : a < M64) (hb : b < M64) (k : Nat → Nat → Nat → Nat → Nat) :
    ∃ t0 t1 t2 t3, t0 < M32 ∧ t1 < M32 ∧ t2 < M32 ∧ t3 < M32 ∧
      t0 + t1 * M32 + t2 * M64 + t3 * M96 = a * b ∧ mulTN2 a b k = k t0 t1 t2 t3 := by
  unfold mulTN2
  extract_lets a0 b0 a1 b1 t0 t1 t2 t3 u1 c1 u2 c2 u3 v1 c3 v2 c4 v3
  refine ⟨t0, v1, v2, v3, ?_, ?_, ?_, ?_, ?_, rfl⟩
  · omega
  · omega
  · omega
  · omega
  have ha0 : a0 < M32 := by omega
  have hb0 : b0 < M32 := by omega
  have ha1 : a1 < M32 := by omega
  have hb1 : b1 < M32 := by omega
  have ea : a = a0 + a1 * M32 := by omega
  have eb : b = b0 + b1 * M32 := by omega
  have hab : a * b = a0 * b0 + (a0 * b1 + a1 * b0) * M32 + a1 * b1 * M64 := by
    rw [ea, eb]; exact split_mul a0 a1 b0 b1
  have hab2 : a * b ≤ 340282366920938463426481119284349108225 := by
    have : a * b ≤ 18446744073709551615 * 18446744073709551615 := Nat.mul_le_mul (by omega) (by omega)
    omega
  clear_value a0 b0 a1 b1
  clear ea eb ha hb
  have p00 := mul32_le a0 b0 ha0 hb0
  have p01 := mul32_le a0 b1 ha0 hb1
  have p10 := mul32_le a1 b0 ha1 hb0
  have p11 := mul32_le a1 b1 ha1 hb1
  have f0 : t0 + t1 * M32 = a0 * b0 ∧ t0 < M32 ∧ t1 < M32 := divmod32 (a0 * b0) p00
  have f1 : t2 + t3 * M32 = a1 * b1 ∧ t2 < M32 ∧ t3 < M32 := divmod32 (a1 * b1) p11
  have f2 : u1 < M32 ∧ u2 < M32 ∧ c2 ≤ 1 ∧ u1 + u2 * M32 + c2 * M64 = t1 + t2 * M32 + a0 * b1 :=
    madchain_spec (a0 * b1) t1 t2 p01 f0.2.2 f1.2.1
  have f3 : v1 < M32 ∧ v2 < M32 ∧ c4 ≤ 1 ∧ v1 + v2 * M32 + c4 * M64 = u1 + u2 * M32 + a1 * b0 :=
    madchain_spec (a1 * b0) u1 u2 p10 f2.1 f2.2.1
  have eu3 : u3 = (t3 + 0 + c2) % M32 := rfl
  have ev3 : v3 = (u3 + 0 + c4) % M32 := rfl
  clear_value t0 t1 t2 t3 u1 c1 u2 c2 u3 v1 c3 v2 c4 v3
  generalize a * b = ab at *
  generalize a0 * b0 = q00 at *
  generalize a0 * b1 = q01 at *
  generalize a1 * b0 = q10 at *
  generalize a1 * b1 = q11 at *
  clear ha0 ha1 hb0 hb1 p00 p01 p10 p11
  obtain ⟨f0a, f0b, f0c⟩ := f0
  obtain ⟨f1a, f1b, f1c⟩ := f1
  obtain ⟨f2a, f2b, f2c, f2d⟩ := f2
  obtain ⟨f3a, f3b, f3c, f3d⟩ := f3
  have hsum : t0 + v1 * M32 + v2 * M64 + t3 * M96 + c2 * M96 + c4 * M96 = ab := by
    first | omega | grind
  have hlt : t3 + c2 + c4 < M32 := by
    clear f0a f1a f2d f3d hab eu3 ev3
    omega
  have eu3' : u3 = t3 + c2 := by omega
  have ev3' : v3 = t3 + c2 + c4 := by omega
  clear ev3 eu3 eu3' hlt hab f0a f1a f2d f3d
  first | omega | grind

/-- mad.lo.cc / madc.hi with addend 0 : two words, no carry out -/
theorem madchain0_spec (p x0 : Nat) (hp : p ≤ SQ) (h0 : x0 < M32) :
    let y0 := (p % M32 + x0) % M32
    let c := (p % M32 + x0) / M32
    let y1 := (p / M32 + 0 + c) % M32
    y0 < M32 ∧ y1 < M32 ∧ y0 + y1 * M32 = x0 + p := by
  intro y0 c y1
  have hc : c ≤ 1 := by omega
  have e0 : y0 + c * M32 = p % M32 + x0 := by omega
  have hy0 : y0 < M32 := by omega
  clear_value y0 c
  omega

/-- sub.cc 0,x / subc x,0 : the two words of `x * (2^32 - 1)` -/
theorem negmul_spec (x : Nat) (hx : x < M32) :
    let n0 := (M32 - x) % M32
    let bw := (x + W32) / M32
    let n1 := (x + M32 + (M32 - bw)) % M32
    n0 < M32 ∧ n1 < M32 ∧ n0 + n1 * M32 = x * W32 := by
  intro n0 bw n1
  rcases (by omega : x = 0 ∨ 1 ≤ x) with rfl | h
  · omega
  · have hb : bw = 1 := by omega
    have e0 : n0 = M32 - x := by omega
    have e1 : n1 = x - 1 := by omega
    clear_value n0 bw n1
    omega

/-- add.cc / addc.cc / addc 0,0 : two-word addition with carry word -/
theorem add2_spec (x0 x1 y0 y1 : Nat) (h0 : x0 < M32) (h1 : x1 < M32) (h2 : y0 < M32) (h3 : y1 < M32) :
    let v0 := (x0 + y0) % M32
    let c2 := (x0 + y0) / M32
    let v1 := (x1 + y1 + c2) % M32
    let c3 := (x1 + y1 + c2) / M32
    let e := c3 % M32
    v0 < M32 ∧ v1 < M32 ∧ e ≤ 1 ∧ v0 + v1 * M32 + e * M64 = x0 + x1 * M32 + (y0 + y1 * M32) := by
  intro v0 c2 v1 c3 e
  have hc : c2 ≤ 1 := by omega
  have e0 : v0 + c2 * M32 = x0 + y0 := by omega
  have hv0 : v0 < M32 := by omega
  clear_value v0 c2
  omega

theorem mulU32TN_spec (a b : Nat) (ha : a < M64) (hb : b < M32) (k : Nat → Nat → Nat → Nat) :
    ∃ v0 v1 e, v0 < M32 ∧ v1 < M32 ∧ e ≤ 1 ∧ v0 + v1 * M32 + e * W32 < M64 ∧
      (∃ k1, v0 + v1 * M32 + e * M64 + PP * k1 = a * b) ∧ mulU32TN a b k = k v0 v1 e := by
  unfold mulU32TN
  extract_lets a0 a1 t0 t1 u1 c1 u2 n0 bw n1 v0 c2 v1 c3 e
  have ha0 : a0 < M32 := by omega
  have ha1 : a1 < M32 := by omega
  have ea : a = a0 + a1 * M32 := by omega
  have hab : a * b = a0 * b + a1 * b * M32 := by
    rw [ea, Nat.add_mul, Nat.mul_right_comm]
  clear_value a0 a1
  clear ea ha
  have p0 := mul32_le a0 b ha0 hb
  have p1 := mul32_le a1 b ha1 hb
  have f0 : t0 + t1 * M32 = a0 * b ∧ t0 < M32 ∧ t1 < M32 := divmod32 (a0 * b) p0
  have f1 : u1 < M32 ∧ u2 < M32 ∧ u1 + u2 * M32 = t1 + a1 * b := madchain0_spec (a1 * b) t1 p1 f0.2.2
  have f2 : n0 < M32 ∧ n1 < M32 ∧ n0 + n1 * M32 = u2 * W32 := negmul_spec u2 f1.2.1
  have f3 : v0 < M32 ∧ v1 < M32 ∧ e ≤ 1 ∧ v0 + v1 * M32 + e * M64 = t0 + u1 * M32 + (n0 + n1 * M32) :=
    add2_spec t0 u1 n0 n1 f0.2.1 f1.1 f2.1 f2.2.1
  clear_value t0 t1 u1 c1 u2 n0 bw n1 v0 c2 v1 c3 e
  refine ⟨v0, v1, e, f3.1, f3.2.1, f3.2.2.1, ?_, ⟨u2, ?_⟩, rfl⟩
  · obtain ⟨f0a, f0b, f0c⟩ := f0
    obtain ⟨f1a, f1b, f1c⟩ := f1
    obtain ⟨f2a, f2b, f2c⟩ := f2
    obtain ⟨f3a, f3b, f3c, f3d⟩ := f3
    clear hab f0a f1c p0 p1
    omega
  · generalize a * b = ab at *
    generalize a0 * b = q0 at *
    generalize a1 * b = q1 at *
    obtain ⟨f0a, f0b, f0c⟩ := f0
    obtain ⟨f1a, f1b, f1c⟩ := f1
    obtain ⟨f2a, f2b, f2c⟩ := f2
    obtain ⟨f3a, f3b, f3c, f3d⟩ := f3
    clear p0 p1 ha0 ha1 hb
    first | omega | grind


/-! ### the raw products are congruent to the exact product, for ALL 64-bit operands -/

theorem mod_cert_two (a b k1 k2 : Nat) (h : a + P * k1 + P * k2 = b) : a % P = b % P := by
  apply mod_cert a b (k1 + k2) 0
  rw [Nat.mul_add, Nat.mul_zero, Nat.add_zero, ← Nat.add_assoc]
  exact h

theorem reduce4_sm70_mod (v : BitVec 64) (t0 t1 t2 t3 : BitVec 32) :
    (reduce4_sm70 v t0 t1 t2 t3).toNat % P =
      (t0.toNat + t1.toNat * M32 + t2.toNat * M64 + t3.toNat * M96) % P := by
  rw [reduce4_sm70_toNat]
  obtain ⟨k1, k2, hc⟩ := reduce4N_sm70_spec _ _ _ _ t0.isLt t1.isLt t2.isLt t3.isLt
  exact mod_cert _ _ k1 k2 hc

theorem reduce4_pre70_mod (v : BitVec 64) (t0 t1 t2 t3 : BitVec 32) :
    (reduce4_pre70 v t0 t1 t2 t3).toNat % P =
      (t0.toNat + t1.toNat * M32 + t2.toNat * M64 + t3.toNat * M96) % P := by
  rw [reduce4_pre70_toNat]
  obtain ⟨k1, k2, hc⟩ := reduce4N_pre70_spec _ _ _ _ t0.isLt t1.isLt t2.isLt t3.isLt
  exact mod_cert _ _ k1 k2 hc

theorem mulTN_sm70_mod (x y : Nat) (hx : x < M64) (hy : y < M64) :
    mulTN x y reduce4N_sm70 % P = (x * y) % P := by
  obtain ⟨t0, t1, t2, t3, h0, h1, h2, h3, hs, hk⟩ := mulTN_spec x y hx hy reduce4N_sm70
  rw [hk]
  obtain ⟨k1, k2, hc⟩ := reduce4N_sm70_spec t0 t1 t2 t3 h0 h1 h2 h3
  rw [← hs]
  exact mod_cert _ _ k1 k2 hc

theorem mulTN_pre70_mod (x y : Nat) (hx : x < M64) (hy : y < M64) :
    mulTN x y reduce4N_pre70 % P = (x * y) % P := by
  obtain ⟨t0, t1, t2, t3, h0, h1, h2, h3, hs, hk⟩ := mulTN_spec x y hx hy reduce4N_pre70
  rw [hk]
  obtain ⟨k1, k2, hc⟩ := reduce4N_pre70_spec t0 t1 t2 t3 h0 h1 h2 h3
  rw [← hs]
  exact mod_cert _ _ k1 k2 hc

theorem mulTN2_sm70_mod (x y : Nat) (hx : x < M64) (hy : y < M64) :
    mulTN2 x y reduce4N_sm70 % P = (x * y) % P := by
  obtain ⟨t0, t1, t2, t3, h0, h1, h2, h3, hs, hk⟩ := mulTN2_spec x y hx hy reduce4N_sm70
  rw [hk]
  obtain ⟨k1, k2, hc⟩ := reduce4N_sm70_spec t0 t1 t2 t3 h0 h1 h2 h3
  rw [← hs]
  exact mod_cert _ _ k1 k2 hc

theorem mulTN2_pre70_mod (x y : Nat) (hx : x < M64) (hy : y < M64) :
    mulTN2 x y reduce4N_pre70 % P = (x * y) % P := by
  obtain ⟨t0, t1, t2, t3, h0, h1, h2, h3, hs, hk⟩ := mulTN2_spec x y hx hy reduce4N_pre70
  rw [hk]
  obtain ⟨k1, k2, hc⟩ := reduce4N_pre70_spec t0 t1 t2 t3 h0 h1 h2 h3
  rw [← hs]
  exact mod_cert _ _ k1 k2 hc

theorem mul_raw_sm70_mod (a b : BitVec 64) : (mul_raw_sm70 a b).toNat % P = (a.toNat * b.toNat) % P := by
  have ha : a.toNat < M64 := a.isLt
  have hb : b.toNat < M64 := b.isLt
  rcases mul_raw_sm70_toNat a b with e | e | e | e
  · rw [e]; exact mulTN_sm70_mod _ _ ha hb
  · rw [e, Nat.mul_comm a.toNat]; exact mulTN_sm70_mod _ _ hb ha
  · rw [e]; exact mulTN2_sm70_mod _ _ ha hb
  · rw [e, Nat.mul_comm a.toNat]; exact mulTN2_sm70_mod _ _ hb ha

theorem mul_raw_pre70_mod (a b : BitVec 64) : (mul_raw_pre70 a b).toNat % P = (a.toNat * b.toNat) % P := by
  have ha : a.toNat < M64 := a.isLt
  have hb : b.toNat < M64 := b.isLt
  rcases mul_raw_pre70_toNat a b with e | e | e | e
  · rw [e]; exact mulTN_pre70_mod _ _ ha hb
  · rw [e, Nat.mul_comm a.toNat]; exact mulTN_pre70_mod _ _ hb ha
  · rw [e]; exact mulTN2_pre70_mod _ _ ha hb
  · rw [e, Nat.mul_comm a.toNat]; exact mulTN2_pre70_mod _ _ hb ha

theorem mul_u32_raw_sm70_mod (a : BitVec 64) (b : BitVec 32) :
    (mul_u32_raw_sm70 a b).toNat % P = (a.toNat * b.toNat) % P := by
  rw [mul_u32_raw_sm70_toNat]
  have ha : a.toNat < M64 := a.isLt
  have hb : b.toNat < M32 := b.isLt
  obtain ⟨v0, v1, e, h0, h1, he, hbd, ⟨k1, hk1⟩, hk⟩ := mulU32TN_spec a.toNat b.toNat ha hb foldN_sm70
  rw [hk, foldN_sm70_spec v0 v1 e h0 h1 he hbd]
  apply mod_cert_two _ _ k1 e
  generalize a.toNat * b.toNat = ab at *
  unfold P
  clear hk ha hb hbd
  omega

theorem mul_u32_raw_pre70_mod (a : BitVec 64) (b : BitVec 32) :
    (mul_u32_raw_pre70 a b).toNat % P = (a.toNat * b.toNat) % P := by
  rw [mul_u32_raw_pre70_toNat]
  have ha : a.toNat < M64 := a.isLt
  have hb : b.toNat < M32 := b.isLt
  obtain ⟨v0, v1, e, h0, h1, he, hbd, ⟨k1, hk1⟩, hk⟩ := mulU32TN_spec a.toNat b.toNat ha hb foldN_pre70
  rw [hk, foldN_pre70_spec v0 v1 e h0 h1 he hbd]
  apply mod_cert_two _ _ k1 e
  generalize a.toNat * b.toNat = ab at *
  unfold P
  clear hk ha hb hbd
  omega

/-! ### the 64-bit functions (`+=`, `-=`, `cneg`, `reduce()`): specification proved on the symbolically executed
  asm, first semantically (`ptx_simp`, case split on the position of the mathematical result relative to `P` / `2^64`,
  `omega`: no reference to the shape of the instruction sequence), and, should `omega` not find it, through the
  Nat mirror (`ptx_nat`, equality up to AC) and its `*_spec` lemma -/

/-- close an arithmetic goal that may contain one `if` -/
macro "ptx_close" : tactic =>
  `(tactic| first | omega | (split <;> omega) | (simp only [] <;> omega) | (simp <;> omega))

theorem add_assign_spec (a b : BitVec 64) (ha : a.toNat < P) (hb : b.toNat < P) :
    (add_assign a b).toNat = (a.toNat + b.toNat) % P := by
  first
  | (unfold add_assign
     unfold P at *
     ptx_simp
     generalize a.toNat = x at *
     generalize b.toNat = y at *
     rcases Nat.lt_or_ge (x + y) 18446744069414584321 with h | h
     · ptx_close
     · rcases Nat.lt_or_ge (x + y) 18446744073709551616 with h' | h'
       · ptx_close
       · ptx_close)
  | (have e : (add_assign a b).toNat = addN a.toNat b.toNat := by
       unfold add_assign addN
       ptx_nat
     rw [e]; exact addN_spec _ _ ha hb)

theorem sub_assign_spec (a b : BitVec 64) (ha : a.toNat < P) (hb : b.toNat < P) :
    (sub_assign a b).toNat = (a.toNat + (P - b.toNat)) % P := by
  first
  | (unfold sub_assign
     unfold P at *
     ptx_simp
     generalize a.toNat = x at *
     generalize b.toNat = y at *
     rcases Nat.lt_or_ge x y with h | h
     · ptx_close
     · ptx_close)
  | (have e : (sub_assign a b).toNat = subN a.toNat b.toNat := by
       unfold sub_assign subN
       ptx_nat
     rw [e]; exact subN_spec _ _ ha hb)

theorem cneg_spec (a : BitVec 64) (flag : Bool) (ha : a.toNat < P) :
    (cneg a flag).toNat = if flag = true then (P - a.toNat) % P else a.toNat := by
  first
  | (unfold cneg
     unfold P at *
     ptx_simp
     generalize a.toNat = x at *
     cases flag <;> rcases Nat.eq_zero_or_pos x with h | h
     · subst h; simp
     · have h2 : x ≠ 0 := by omega
       first | (simp [h2]; done) | (simp [h2]; omega)
     · subst h; simp
     · have h2 : x ≠ 0 := by omega
       first | (simp [h2]; done) | (simp [h2]; omega))
  | (have e : (cneg a flag).toNat = cnegN a.toNat flag := by
       unfold cneg cnegN
       ptx_nat
     rw [e]; exact cnegN_spec _ _ ha)

theorem final_reduce_spec (a : BitVec 64) : (final_reduce a).toNat = a.toNat % P := by
  first
  | (unfold final_reduce
     unfold P at *
     ptx_simp
     have ha := a.isLt
     generalize a.toNat = x at *
     rcases Nat.lt_or_ge x 18446744069414584321 with h | h
     · ptx_close
     · ptx_close)
  | (have e : (final_reduce a).toNat = finalN a.toNat := by
       unfold final_reduce finalN
       ptx_nat
     rw [e]; exact finalN_spec _ a.isLt)

/-- the final reduction `to()` on any 64-bit value -/
theorem to_toNat (a : BitVec 64) : (to_ a).toNat = a.toNat % P := by
  unfold to_
  simp only []
  exact final_reduce_spec a

end GoldilocksVerif.PtxN
