/-
  The sponge loop of Model/Sponge.lean equals the specification fold, for every permutation and every length.
-/
import GoldilocksVerif.Model.Sponge
namespace GoldilocksVerif.Model

/-- main invariant: with `r` elements remaining (0 < r ≤ size, fuel ≥ r), the loop finishes with the capacity the
    specification reaches from the current capacity on the remaining input -/
theorem lhLoop_spec (perm : List Wd → List Wd) (input : List Wd) (size : Nat) (hsz : input.length = size) :
    ∀ (r : Nat) (fuel fuel' : Nat) (state : List Wd), r ≤ fuel → r ≤ fuel' → r ≤ size → 0 < r →
      (lhLoop perm input size fuel r state).take 4 =
        absorb perm fuel' (input.drop (size - r)) (if r = size then zeros 4 else state.take 4) := by
  intro r
  induction r using Nat.strongRecOn with
  | ind r ih =>
    intro fuel fuel' state hf hf' hr hpos
    obtain ⟨f, rfl⟩ : ∃ f, fuel = f + 1 := ⟨fuel - 1, by omega⟩
    obtain ⟨f', rfl⟩ : ∃ f', fuel' = f' + 1 := ⟨fuel' - 1, by omega⟩
    have hlen : (input.drop (size - r)).length = r := by rw [List.length_drop]; omega
    have hne : (input.drop (size - r)).isEmpty = false := by
      cases h : input.drop (size - r) with
      | nil => rw [h] at hlen; simp at hlen; omega
      | cons a t => rfl
    unfold lhLoop absorb
    have hr0 : r ≠ 0 := by omega
    simp only [hr0, if_false, hne, Bool.false_eq_true]
    -- the block read by the loop is the chunk of the specification
    have hblk : (input.drop (size - r)).take (min r 8) = (input.drop (size - r)).take 8 := by
      by_cases h8 : r ≤ 8
      · have : min r 8 = r := by omega
        rw [this, List.take_of_length_le (by omega), List.take_of_length_le (by omega)]
      · have : min r 8 = 8 := by omega
        rw [this]
    have hchunk : ((input.drop (size - r)).take 8).length = min r 8 := by
      rw [List.length_take, hlen]; omega
    have hstep : perm (((input.drop (size - r)).take (min r 8) ++ zeros (8 - min r 8)) ++
        (if r = size then zeros 4 else state.take 4)) =
        perm ((((input.drop (size - r)).take 8) ++ zeros (8 - ((input.drop (size - r)).take 8).length)) ++
        (if r = size then zeros 4 else state.take 4)) := by
      rw [hblk, hchunk]
    by_cases hlast : r - min r 8 = 0
    · -- this was the last block
      have hrest : ((input.drop (size - r)).drop 8).isEmpty = true := by
        have : ((input.drop (size - r)).drop 8).length = 0 := by rw [List.length_drop, hlen]; omega
        cases h : (input.drop (size - r)).drop 8 with
        | nil => rfl
        | cons a t => rw [h] at this; simp at this
      rw [hlast]
      cases f with
      | zero => cases f' with
        | zero => simp only [lhLoop, absorb, spongeStep, hstep]
        | succ g' => simp only [lhLoop, absorb, spongeStep, hstep, hrest, if_true]
      | succ g => cases f' with
        | zero => simp only [lhLoop, absorb, spongeStep, hstep, if_true]
        | succ g' => simp only [lhLoop, absorb, spongeStep, hstep, hrest, if_true]
    · -- more blocks follow: r > 8
      have h8 : min r 8 = 8 := by omega
      have hr' : r - 8 < r := by omega
      have key := ih (r - 8) hr' f f' (perm (((input.drop (size - r)).take (min r 8) ++ zeros (8 - min r 8)) ++
        (if r = size then zeros 4 else state.take 4))) (by omega) (by omega) (by omega) (by omega)
      have hne' : ¬ (r - 8 = size) := by omega
      rw [if_neg hne'] at key
      have hdrop : (input.drop (size - r)).drop 8 = input.drop (size - (r - 8)) := by
        rw [List.drop_drop]; congr 1; omega
      rw [h8] at key ⊢
      rw [key, hdrop]
      simp only [spongeStep]
      rw [← hstep, h8]

/-- C07, one-input variants: the loop model is the specification, for every permutation and every input length -/
theorem linearHash_eq_spec (perm : List Wd → List Wd) (input : List Wd) :
    linearHash perm input = spongeSpec perm input := by
  unfold linearHash spongeSpec
  by_cases h : input.length ≤ 4
  · simp only [h, if_true]
  · simp only [h, if_false]
    have := lhLoop_spec perm input input.length rfl input.length input.length input.length (zeros 12)
      (Nat.le_refl _) (Nat.le_refl _) (Nat.le_refl _) (by omega)
    rw [this]
    simp

end GoldilocksVerif.Model

/-! ### linear_hash_avx512: the interleaved two-input loop is the pair of one-input loops (C07, AVX512 clause) -/
namespace GoldilocksVerif.Model

theorem blk_pieces (a cap : List Wd) (n : Nat) (ha : a.length = n) (hn : n ≤ 8) (hc : cap.length = 4) :
    ((a ++ zeros (8 - n)) ++ cap).take 4 = a.take 4 ++ zeros (4 - min n 4) ∧
    (((a ++ zeros (8 - n)) ++ cap).drop 4).take 4 = a.drop 4 ++ zeros (4 - (n - 4)) ∧
    (((a ++ zeros (8 - n)) ++ cap).drop 8).take 4 = cap := by
  subst ha
  refine ⟨?_, ?_, ?_⟩
  · simp only [zeros, List.take_append, List.length_append, List.length_replicate, List.take_replicate]
    have e1 : 4 - (a.length + (8 - a.length)) = 0 := by omega
    have e2 : min (4 - a.length) (8 - a.length) = 4 - min a.length 4 := by omega
    rw [e1, e2, List.take_zero, List.append_nil]
  · simp only [zeros, List.drop_append, List.take_append, List.length_append, List.length_replicate, List.take_replicate,
      List.drop_replicate, List.length_drop]
    have e1 : 4 - (a.length - 4 + (8 - a.length - (4 - a.length))) = 0 := by omega
    have e2 : min (4 - (a.length - 4)) (8 - a.length - (4 - a.length)) = 4 - (a.length - 4) := by omega
    have e3 : List.take 4 (List.drop 4 a) = List.drop 4 a := List.take_of_length_le (by rw [List.length_drop]; omega)
    rw [e1, e2, e3, List.take_zero, List.append_nil]
  · simp only [zeros, List.drop_append, List.take_append, List.length_append, List.length_replicate, List.take_replicate,
      List.drop_replicate, List.length_drop]
    have e0 : List.drop 8 a = [] := List.drop_eq_nil_of_le hn
    have e1 : 8 - a.length - (8 - a.length) = 0 := by omega
    have e2 : 8 - (a.length + (8 - a.length)) = 0 := by omega
    have e3 : 4 - (a.length - 8 + 0) = 4 := by omega
    have e4 : List.take 4 cap = cap := List.take_of_length_le (by omega)
    rw [e0, e1, e2, Nat.min_zero, e3, List.drop_zero, e4]
    simp

theorem interleave_blk (a b cap1 cap2 : List Wd) (n : Nat) (ha : a.length = n) (hb : b.length = n) (hn : n ≤ 8)
    (hc1 : cap1.length = 4) (hc2 : cap2.length = 4) :
    ((a.take 4 ++ zeros (4 - min n 4)) ++ (b.take 4 ++ zeros (4 - min n 4))) ++
      ((a.drop 4 ++ zeros (4 - (n - 4))) ++ (b.drop 4 ++ zeros (4 - (n - 4)))) ++ (cap1 ++ cap2) =
    interleave ((a ++ zeros (8 - n)) ++ cap1) ((b ++ zeros (8 - n)) ++ cap2) := by
  obtain ⟨p1, p2, p3⟩ := blk_pieces a cap1 n ha hn hc1
  obtain ⟨q1, q2, q3⟩ := blk_pieces b cap2 n hb hn hc2
  unfold interleave
  rw [p1, p2, p3, q1, q2, q3]
  simp only [List.append_assoc]

theorem interleave_take8 (s1 s2 : List Wd) (h1 : 4 ≤ s1.length) (h2 : 4 ≤ s2.length) :
    (interleave s1 s2).take 8 = s1.take 4 ++ s2.take 4 := by
  unfold interleave
  simp only [List.append_assoc]
  rw [← List.append_assoc]
  apply List.take_left'
  simp only [List.length_append, List.length_take]
  omega


/-- the interleaved two-input loop is the pair of one-input loops, state by state -/
theorem lh512_interleave (perm perm2 : List Wd → List Wd)
    (h : ∀ a b, a.length = 12 → b.length = 12 → perm2 (interleave a b) = interleave (perm a) (perm b))
    (hp : ∀ s, s.length = 12 → (perm s).length = 12)
    (in1 in2 : List Wd) (size : Nat) (h1 : in1.length = size) (h2 : in2.length = size) :
    ∀ (fuel r : Nat) (s1 s2 : List Wd), s1.length = 12 → s2.length = 12 → r ≤ size →
      lh512Loop perm2 (in1 ++ in2) size fuel r (interleave s1 s2) =
        interleave (lhLoop perm in1 size fuel r s1) (lhLoop perm in2 size fuel r s2) ∧
      (lhLoop perm in1 size fuel r s1).length = 12 ∧ (lhLoop perm in2 size fuel r s2).length = 12 := by
  intro fuel
  induction fuel with
  | zero =>
    intro r s1 s2 l1 l2 _
    refine ⟨?_, ?_, ?_⟩
    · simp only [lh512Loop, lhLoop]
    · simp only [lhLoop]; exact l1
    · simp only [lhLoop]; exact l2
  | succ f ih =>
    intro r s1 s2 l1 l2 hr
    unfold lh512Loop lhLoop
    by_cases hr0 : r = 0
    · simp only [hr0, if_true]
      exact ⟨trivial, l1, l2⟩
    · simp only [hr0, if_false]
      -- the two blocks read by the interleaved loop are the blocks of the two one-input loops
      have hn8 : min r 8 ≤ 8 := by omega
      have ea : ((in1 ++ in2).drop (size - r)).take (min r 8) = (in1.drop (size - r)).take (min r 8) := by
        rw [List.drop_append_of_le_length (by omega), List.take_append_of_le_length (by rw [List.length_drop]; omega)]
      have eb : ((in1 ++ in2).drop (size + (size - r))).take (min r 8) = (in2.drop (size - r)).take (min r 8) := by
        have : size + (size - r) = in1.length + (size - r) := by omega
        rw [this, List.drop_append, List.drop_eq_nil_of_le (by omega), List.nil_append, Nat.add_sub_cancel_left]
      have la : ((in1.drop (size - r)).take (min r 8)).length = min r 8 := by
        rw [List.length_take, List.length_drop]; omega
      have lb : ((in2.drop (size - r)).take (min r 8)).length = min r 8 := by
        rw [List.length_take, List.length_drop]; omega
      -- the capacities
      have lc1 : (if r = size then zeros 4 else s1.take 4).length = 4 := by
        by_cases hs : r = size
        · simp only [hs, if_true, zeros, List.length_replicate]
        · simp only [hs, if_false, List.length_take]; omega
      have lc2 : (if r = size then zeros 4 else s2.take 4).length = 4 := by
        by_cases hs : r = size
        · simp only [hs, if_true, zeros, List.length_replicate]
        · simp only [hs, if_false, List.length_take]; omega
      have ecap : (if r = size then zeros 8 else (interleave s1 s2).take 8) =
          (if r = size then zeros 4 else s1.take 4) ++ (if r = size then zeros 4 else s2.take 4) := by
        by_cases hs : r = size
        · simp only [hs, if_true]; rfl
        · simp only [hs, if_false]; exact interleave_take8 s1 s2 (by omega) (by omega)
      rw [ea, eb, ecap,
        interleave_blk _ _ _ _ (min r 8) la lb hn8 lc1 lc2]
      have len1 : (((in1.drop (size - r)).take (min r 8) ++ zeros (8 - min r 8)) ++
          (if r = size then zeros 4 else s1.take 4)).length = 12 := by
        rw [List.length_append, List.length_append, la, lc1]; simp only [zeros, List.length_replicate]; omega
      have len2 : (((in2.drop (size - r)).take (min r 8) ++ zeros (8 - min r 8)) ++
          (if r = size then zeros 4 else s2.take 4)).length = 12 := by
        rw [List.length_append, List.length_append, lb, lc2]; simp only [zeros, List.length_replicate]; omega
      rw [h _ _ len1 len2]
      exact ih (r - min r 8) _ _ (hp _ len1) (hp _ len2) (by omega)

theorem zeros24_interleave : zeros 24 = interleave (zeros 12) (zeros 12) := by decide

/-- C07, AVX512 variant: two equally long inputs hashed side by side give the two one-input digests -/
theorem linearHash512_eq (perm perm2 : List Wd → List Wd)
    (h : ∀ a b, a.length = 12 → b.length = 12 → perm2 (interleave a b) = interleave (perm a) (perm b))
    (hp : ∀ s, s.length = 12 → (perm s).length = 12)
    (in1 in2 : List Wd) (hl : in1.length = in2.length) :
    linearHash512 perm2 (in1 ++ in2) in1.length = linearHash perm in1 ++ linearHash perm in2 := by
  unfold linearHash512 linearHash
  by_cases hs : in1.length ≤ 4
  · have hs2 : in2.length ≤ 4 := by omega
    simp only [hs, hs2, if_true]
    rw [List.take_left', List.drop_left', hl, List.take_of_length_le (Nat.le_refl _)] <;> first | rfl | exact hl.symm ▸ rfl
  · have hs2 : ¬ in2.length ≤ 4 := by omega
    simp only [hs, hs2, if_false]
    obtain ⟨k, k1, k2⟩ := lh512_interleave perm perm2 h hp in1 in2 in1.length rfl hl.symm in1.length in1.length
      (zeros 12) (zeros 12) (by simp [zeros]) (by simp [zeros]) (Nat.le_refl _)
    rw [zeros24_interleave, k, interleave_take8 _ _ (by omega) (by omega), ← hl]

end GoldilocksVerif.Model
