/-
  The sponge loop of Model/Sponge.lean equals the specification fold, for every permutation and every length.
-/
import GoldilocksVerif.Model.Sponge
namespace GoldilocksVerif.Model

/-- main invariant: with `r` elements remaining (0 < r ≤ size, fuel ≥ r), the loop finishes with the capacity the
    specification reaches from the current capacity on the remaining input -/
theorem lhLoop_spec (perm : List Wd → List Wd) (input : List Wd) (size : Nat) (hsz : input.length = size) :
    ∀ (r : Nat) (fuel fuel' : Nat) (state : List Wd), r ≤ fuel → r ≤ fuel' → r ≤ size → 0 < r →
      (lhLoop perm input size fuel r state).take 4 =
        absorb perm fuel' (input.drop (size - r)) (if r = size then zeros 4 else state.take 4) := by
  intro r
  induction r using Nat.strongRecOn with
  | ind r ih =>
    intro fuel fuel' state hf hf' hr hpos
    obtain ⟨f, rfl⟩ : ∃ f, fuel = f + 1 := ⟨fuel - 1, by omega⟩
    obtain ⟨f', rfl⟩ : ∃ f', fuel' = f' + 1 := ⟨fuel' - 1, by omega⟩
    have hlen : (input.drop (size - r)).length = r := by rw [List.length_drop]; omega
    have hne : (input.drop (size - r)).isEmpty = false := by
      cases h : input.drop (size - r) with
      | nil => rw [h] at hlen; simp at hlen; omega
      | cons a t => rfl
    unfold lhLoop absorb
    have hr0 : r ≠ 0 := by omega
    simp only [hr0, if_false, hne, Bool.false_eq_true]
    -- the block read by the loop is the chunk of the specification
    have hblk : (input.drop (size - r)).take (min r 8) = (input.drop (size - r)).take 8 := by
      by_cases h8 : r ≤ 8
      · have : min r 8 = r := by omega
        rw [this, List.take_of_length_le (by omega), List.take_of_length_le (by omega)]
      · have : min r 8 = 8 := by omega
        rw [this]
    have hchunk : ((input.drop (size - r)).take 8).length = min r 8 := by
      rw [List.length_take, hlen]; omega
    have hstep : perm (((input.drop (size - r)).take (min r 8) ++ zeros (8 - min r 8)) ++
        (if r = size then zeros 4 else state.take 4)) =
        perm ((((input.drop (size - r)).take 8) ++ zeros (8 - ((input.drop (size - r)).take 8).length)) ++
        (if r = size then zeros 4 else state.take 4)) := by
      rw [hblk, hchunk]
    by_cases hlast : r - min r 8 = 0
    · -- this was the last block
      have hrest : ((input.drop (size - r)).drop 8).isEmpty = true := by
        have : ((input.drop (size - r)).drop 8).length = 0 := by rw [List.length_drop, hlen]; omega
        cases h : (input.drop (size - r)).drop 8 with
        | nil => rfl
        | cons a t => rw [h] at this; simp at this
      rw [hlast]
      cases f with
      | zero => cases f' with
        | zero => simp only [lhLoop, absorb, spongeStep, hstep]
        | succ g' => simp only [lhLoop, absorb, spongeStep, hstep, hrest, if_true]
      | succ g => cases f' with
        | zero => simp only [lhLoop, absorb, spongeStep, hstep, if_true]
        | succ g' => simp only [lhLoop, absorb, spongeStep, hstep, hrest, if_true]
    · -- more blocks follow: r > 8
      have h8 : min r 8 = 8 := by omega
      have hr' : r - 8 < r := by omega
      have key := ih (r - 8) hr' f f' (perm (((input.drop (size - r)).take (min r 8) ++ zeros (8 - min r 8)) ++
        (if r = size then zeros 4 else state.take 4))) (by omega) (by omega) (by omega) (by omega)
      have hne' : ¬ (r - 8 = size) := by omega
      rw [if_neg hne'] at key
      have hdrop : (input.drop (size - r)).drop 8 = input.drop (size - (r - 8)) := by
        rw [List.drop_drop]; congr 1; omega
      rw [h8] at key ⊢
      rw [key, hdrop]
      simp only [spongeStep]
      rw [← hstep, h8]

/-- C07, one-input variants: the loop model is the specification, for every permutation and every input length -/
theorem linearHash_eq_spec (perm : List Wd → List Wd) (input : List Wd) :
    linearHash perm input = spongeSpec perm input := by
  unfold linearHash spongeSpec
  by_cases h : input.length ≤ 4
  · simp only [h, if_true]
  · simp only [h, if_false]
    have := lhLoop_spec perm input input.length rfl input.length input.length input.length (zeros 12)
      (Nat.le_refl _) (Nat.le_refl _) (Nat.le_refl _) (by omega)
    rw [this]
    simp

end GoldilocksVerif.Model
