/-
  Lane functions of `Isa/Vec.lean` as arithmetic on `Nat` (core-only helper lemmas for C02/C11/C13/C14).
-/
import GoldilocksVerif.Isa.Vec
import GoldilocksVerif.Lemmas.LaneAttr
set_option linter.unusedSimpArgs false
namespace GoldilocksVerif.Lane

theorem getLsbD_lo32 (i : Nat) : (0xFFFFFFFF#64).getLsbD i = decide (i < 32) := by
  by_cases h : i < 64
  · have : ∀ j : Fin 64, (0xFFFFFFFF#64).getLsbD j.val = decide (j.val < 32) := by decide
    exact this ⟨i, h⟩
  · rw [BitVec.getLsbD_of_ge _ _ (by omega)]; simp; omega

theorem getLsbD_hi32 (i : Nat) : (0xFFFFFFFF00000000#64).getLsbD i = decide (32 ≤ i ∧ i < 64) := by
  by_cases h : i < 64
  · have : ∀ j : Fin 64, (0xFFFFFFFF00000000#64).getLsbD j.val = decide (32 ≤ j.val ∧ j.val < 64) := by decide
    exact this ⟨i, h⟩
  · rw [BitVec.getLsbD_of_ge _ _ (by omega)]; simp; omega

theorem and_lo32_toNat (x : BitVec 64) : (x &&& 0xFFFFFFFF#64).toNat = x.toNat % 4294967296 := by
  rw [BitVec.toNat_and]
  show x.toNat &&& (2^32 - 1) = _
  rw [Nat.and_two_pow_sub_one_eq_mod]

theorem and_hi32_eq (x : BitVec 64) : x &&& 0xFFFFFFFF00000000#64 = (x >>> 32) <<< 32 := by
  apply BitVec.eq_of_getLsbD_eq
  intro i hi
  simp only [BitVec.getLsbD_and, BitVec.getLsbD_shiftLeft, BitVec.getLsbD_ushiftRight, getLsbD_hi32]
  by_cases h : i < 32
  · simp [h]; omega
  · have e : 32 + (i - 32) = i := by omega
    have h32 : 32 ≤ i := by omega
    simp [h, hi, e, h32]

theorem and_hi32_toNat (x : BitVec 64) : (x &&& 0xFFFFFFFF00000000#64).toNat = x.toNat / 4294967296 * 4294967296 := by
  rw [and_hi32_eq, BitVec.toNat_shiftLeft, BitVec.toNat_ushiftRight, Nat.shiftLeft_eq, Nat.shiftRight_eq_div_pow]
  have := x.isLt
  omega

theorem ushr32_toNat (x : BitVec 64) : (x >>> 32).toNat = x.toNat / 4294967296 := by
  rw [BitVec.toNat_ushiftRight, Nat.shiftRight_eq_div_pow]
theorem ushr_toNat (x : BitVec 64) (k : Nat) : (x >>> k).toNat = x.toNat / 2^k := by
  rw [BitVec.toNat_ushiftRight, Nat.shiftRight_eq_div_pow]
theorem shl_toNat (x : BitVec 64) (k : Nat) : (x <<< k).toNat = (x.toNat * 2^k) % 18446744073709551616 := by
  rw [BitVec.toNat_shiftLeft, Nat.shiftLeft_eq]

/-- OR of a value with zero low half and a value below 2^32 is their sum -/
theorem or_hi_lo_toNat (h l : BitVec 64) (hh : h.toNat % 4294967296 = 0) (hl : l.toNat < 4294967296) :
    (h ||| l).toNat = h.toNat + l.toNat := by
  rw [BitVec.toNat_or]
  have e : h.toNat = (h.toNat / 4294967296) <<< 32 := by rw [Nat.shiftLeft_eq]; omega
  rw [e, ← Nat.shiftLeft_add_eq_or_of_lt (by simpa using hl)]

theorem xor_msb_toNat (x : BitVec 64) :
    (x ^^^ 9223372036854775808#64).toNat = (x.toNat + 9223372036854775808) % 18446744073709551616 := by
  rw [BitVec.toNat_xor]
  have hx := x.isLt
  show x.toNat ^^^ 2^63 = _
  have h1 : (x.toNat ^^^ 2^63) / 2^63 = (x.toNat / 2^63) ^^^ 1 := by
    rw [← Nat.shiftRight_eq_div_pow, Nat.shiftRight_xor_distrib, Nat.shiftRight_eq_div_pow, Nat.shiftRight_eq_div_pow]
  have h2 : (x.toNat ^^^ 2^63) % 2^63 = x.toNat % 2^63 := by
    rw [Nat.xor_mod_two_pow]; simp
  have h3 : x.toNat / 2^63 = 0 ∨ x.toNat / 2^63 = 1 := by omega
  rcases h3 with h3 | h3
  · rw [h3] at h1
    have : (0 ^^^ 1 : Nat) = 1 := by decide
    rw [this] at h1
    omega
  · rw [h3] at h1
    have : (1 ^^^ 1 : Nat) = 0 := by decide
    rw [this] at h1
    omega

theorem slt_iff (a b : BitVec 64) :
    a.slt b = decide ((a.toNat + 9223372036854775808) % 18446744073709551616 <
                      (b.toNat + 9223372036854775808) % 18446744073709551616) := by
  rw [BitVec.slt_eq_decide]
  congr 1
  rw [BitVec.toInt_eq_toNat_cond, BitVec.toInt_eq_toNat_cond]
  have ha := a.isLt
  have hb := b.isLt
  simp only [Nat.reducePow, Nat.reduceMul]
  apply propext
  split <;> split <;> omega

theorem slt32_iff (a b : BitVec 32) :
    a.slt b = decide ((a.toNat + 2147483648) % 4294967296 < (b.toNat + 2147483648) % 4294967296) := by
  rw [BitVec.slt_eq_decide]
  congr 1
  rw [BitVec.toInt_eq_toNat_cond, BitVec.toInt_eq_toNat_cond]
  have ha := a.isLt
  have hb := b.isLt
  simp only [Nat.reducePow, Nat.reduceMul]
  apply propext
  split <;> split <;> omega

theorem mask_toNat (c : Bool) : (mask c).toNat = if c then 18446744073709551615 else 0 := by
  cases c <;> rfl

theorem mask_and_toNat (c : Bool) (k : BitVec 64) : (mask c &&& k).toNat = if c then k.toNat else 0 := by
  cases c
  · simp [mask]
  · simp only [mask, if_true]
    have : (18446744073709551615#64 : BitVec 64) = BitVec.allOnes 64 := by decide
    rw [this, BitVec.allOnes_and]

theorem mask_andnot_toNat (c : Bool) (k : BitVec 64) : (~~~(mask c) &&& k).toNat = if c then 0 else k.toNat := by
  cases c
  · simp only [mask, Bool.false_eq_true, if_false]
    have : (~~~(0#64) : BitVec 64) = BitVec.allOnes 64 := by decide
    rw [this, BitVec.allOnes_and]
  · simp only [mask, if_true]
    have : (~~~(18446744073709551615#64) : BitVec 64) = 0#64 := by decide
    rw [this]; simp

theorem cmpgt64_eq (a b : BitVec 64) :
    cmpgt64 a b = mask (decide ((b.toNat + 9223372036854775808) % 18446744073709551616 <
                                (a.toNat + 9223372036854775808) % 18446744073709551616)) := by
  unfold cmpgt64; rw [slt_iff]

theorem mul32_toNat (a b : BitVec 64) : (mul32 a b).toNat = (a.toNat % 4294967296) * (b.toNat % 4294967296) := by
  unfold mul32
  rw [BitVec.toNat_mul, and_lo32_toNat, and_lo32_toNat]
  apply Nat.mod_eq_of_lt
  have h1 : a.toNat % 4294967296 < 4294967296 := Nat.mod_lt _ (by decide)
  have h2 : b.toNat % 4294967296 < 4294967296 := Nat.mod_lt _ (by decide)
  calc a.toNat % 4294967296 * (b.toNat % 4294967296) < 4294967296 * 4294967296 := Nat.mul_lt_mul'' h1 h2
    _ = 2^64 := by decide

theorem hdup_mod (a : BitVec 64) : (hdup a).toNat % 4294967296 = a.toNat / 4294967296 := by
  unfold hdup
  have ha := a.isLt
  rw [BitVec.or_comm, or_hi_lo_toNat _ _ (by rw [and_hi32_toNat]; omega) (by rw [ushr32_toNat]; omega),
    and_hi32_toNat, ushr32_toNat]
  omega

/-- `movsldup`: the low half in both halves -/
theorem ldup_toNat (a : BitVec 64) : (ldup a).toNat = (a.toNat % 4294967296) * 4294967296 + a.toNat % 4294967296 := by
  unfold ldup
  have ha := a.isLt
  rw [BitVec.or_comm, or_hi_lo_toNat _ _ (by rw [shl_toNat]; omega) (by rw [and_lo32_toNat]; omega),
    shl_toNat, and_lo32_toNat]
  omega

/-- blend with selector 2 (imm 0xAA): high half from `b`, low half from `a` -/
theorem blend32_2_toNat (a b : BitVec 64) :
    (blend32 2 a b).toNat = b.toNat / 4294967296 * 4294967296 + a.toNat % 4294967296 := by
  simp only [blend32, Nat.reduceMod, Nat.reduceDiv, Nat.zero_ne_one, if_false, if_true]
  rw [or_hi_lo_toNat _ _ (by rw [and_hi32_toNat]; omega) (by rw [and_lo32_toNat]; omega), and_hi32_toNat, and_lo32_toNat]

/-- the `moveldup` + blend idiom of `mult_avx_128`: low half of `r` on top of the low half of `a` -/
theorem blend_ldup_toNat (a r : BitVec 64) :
    (blend32 2 a (ldup r)).toNat = r.toNat % 4294967296 * 4294967296 + a.toNat % 4294967296 := by
  rw [blend32_2_toNat, ldup_toNat]
  have := r.isLt
  omega

/-- the shift + blend idiom of `mult_avx_72` -/
theorem blend_shl_toNat (a r : BitVec 64) :
    (blend32 2 a (r <<< 32)).toNat = r.toNat % 4294967296 * 4294967296 + a.toNat % 4294967296 := by
  rw [blend32_2_toNat, shl_toNat]
  have := r.isLt
  omega

theorem extract_lo32_toNat (a : BitVec 64) : (a.extractLsb' 0 32).toNat = a.toNat % 4294967296 := by
  simp [BitVec.extractLsb'_toNat]
theorem extract_hi32_toNat (a : BitVec 64) : (a.extractLsb' 32 32).toNat = a.toNat / 4294967296 := by
  simp only [BitVec.extractLsb'_toNat, Nat.shiftRight_eq_div_pow]
  have := a.isLt
  omega

/-- the correction word used by the 32-bit-compare kernels: (cmpgt_epi32 a b) >> 32 -/
theorem cmpgt32_shr_toNat (a b : BitVec 64) :
    (cmpgt32 a b >>> 32).toNat =
      if (b.toNat / 4294967296 + 2147483648) % 4294967296 < (a.toNat / 4294967296 + 2147483648) % 4294967296
      then 4294967295 else 0 := by
  unfold cmpgt32
  simp only [slt32_iff, extract_lo32_toNat, extract_hi32_toNat]
  rw [ushr32_toNat]
  split <;> split <;> simp_all [BitVec.toNat_or] <;> rfl

/-! ### both operand orders of the commutative lane operations, equivalent idioms; the `lane_nat` simp set -/

theorem lo32_and_toNat (x : BitVec 64) : (0xFFFFFFFF#64 &&& x).toNat = x.toNat % 4294967296 := by
  rw [BitVec.and_comm, and_lo32_toNat]
theorem hi32_and_toNat (x : BitVec 64) : (0xFFFFFFFF00000000#64 &&& x).toNat = x.toNat / 4294967296 * 4294967296 := by
  rw [BitVec.and_comm, and_hi32_toNat]
theorem msb_xor_toNat (x : BitVec 64) :
    (9223372036854775808#64 ^^^ x).toNat = (x.toNat + 9223372036854775808) % 18446744073709551616 := by
  rw [BitVec.xor_comm, xor_msb_toNat]
theorem and_mask_toNat (c : Bool) (k : BitVec 64) : (k &&& mask c).toNat = if c then k.toNat else 0 := by
  rw [BitVec.and_comm, mask_and_toNat]
theorem and_sqmask_toNat (x : BitVec 64) : (x &&& 8589934591#64).toNat = x.toNat % 8589934592 := by
  rw [BitVec.toNat_and]
  show x.toNat &&& (2^33 - 1) = _
  rw [Nat.and_two_pow_sub_one_eq_mod]
theorem sqmask_and_toNat (x : BitVec 64) : (8589934591#64 &&& x).toNat = x.toNat % 8589934592 := by
  rw [BitVec.and_comm, and_sqmask_toNat]

/-- `movshdup` in full: the high half in both halves -/
theorem hdup_toNat (a : BitVec 64) : (hdup a).toNat = a.toNat / 4294967296 * 4294967296 + a.toNat / 4294967296 := by
  unfold hdup
  have ha := a.isLt
  rw [BitVec.or_comm, or_hi_lo_toNat _ _ (by rw [and_hi32_toNat]; omega) (by rw [ushr32_toNat]; omega),
    and_hi32_toNat, ushr32_toNat]

/-- OR of two values with disjoint bit ranges (`h` a multiple of 2^k, `l` below 2^k) is their sum -/
theorem or_disj_toNat (h l : BitVec 64) (k : Nat) (hh : h.toNat % 2^k = 0) (hl : l.toNat < 2^k) :
    (h ||| l).toNat = h.toNat + l.toNat := by
  rw [BitVec.toNat_or]
  have e : h.toNat = (h.toNat / 2^k) <<< k := by
    rw [Nat.shiftLeft_eq]
    have := Nat.div_add_mod h.toNat (2^k)
    rw [hh, Nat.add_zero, Nat.mul_comm] at this
    exact this.symm
  rw [e, ← Nat.shiftLeft_add_eq_or_of_lt hl]

/-- `or` instead of `add` when a value shifted left by 33 is combined with a 33-bit value (either operand order) -/
theorem shl33_or_and_toNat (r c : BitVec 64) : ((r <<< 33) ||| (c &&& 8589934591#64)).toNat =
    (r.toNat * 8589934592) % 18446744073709551616 + c.toNat % 8589934592 := by
  rw [or_disj_toNat _ _ 33 (by rw [shl_toNat]; omega) (by rw [and_sqmask_toNat]; omega),
    shl_toNat, and_sqmask_toNat]
theorem and_or_shl33_toNat (r c : BitVec 64) : ((c &&& 8589934591#64) ||| (r <<< 33)).toNat =
    (r.toNat * 8589934592) % 18446744073709551616 + c.toNat % 8589934592 := by
  rw [BitVec.or_comm, shl33_or_and_toNat]
/-- the same with a shift by 32 and the low-half mask -/
theorem shl32_or_and_toNat (r c : BitVec 64) : ((r <<< 32) ||| (c &&& 4294967295#64)).toNat =
    (r.toNat * 4294967296) % 18446744073709551616 + c.toNat % 4294967296 := by
  rw [or_disj_toNat _ _ 32 (by rw [shl_toNat]; omega) (by rw [and_lo32_toNat]; omega),
    shl_toNat, and_lo32_toNat]
theorem and_or_shl32_toNat (r c : BitVec 64) : ((c &&& 4294967295#64) ||| (r <<< 32)).toNat =
    (r.toNat * 4294967296) % 18446744073709551616 + c.toNat % 4294967296 := by
  rw [BitVec.or_comm, shl32_or_and_toNat]

/-- unshifted value of a shifted representation -/
def _root_.GoldilocksVerif.unsh (n : Nat) : Nat := (n + 9223372036854775808) % 18446744073709551616

/-! Signed compares: stated over `unsh` (folded, so that no term `_ + 2^63` is visible to `simp`) and directly on the
  masked forms.  (`simp` must never see the intermediate `mask (decide (_ < _))` under a `.toNat`: matching it
  against `(?x + ?y).toNat` makes the unifier evaluate the comparison on 2^63-sized literals.) -/
theorem xor_msb_unsh (x : BitVec 64) : (x ^^^ 9223372036854775808#64).toNat = unsh x.toNat := xor_msb_toNat x
theorem msb_xor_unsh (x : BitVec 64) : (9223372036854775808#64 ^^^ x).toNat = unsh x.toNat := msb_xor_toNat x
/-- `if u < v then a else b`, kept folded while `simp` is still rewriting inside `u` and `v`: an `if` whose
  condition is rewritten by definitional lemmas keeps its old `Decidable` instance, and `split` then fails.
  Unfold with `ltN_def` once the operands are in normal form, then `split`. -/
def ltN (u v a b : Nat) : Nat := if u < v then a else b
theorem ltN_def (u v a b : Nat) : ltN u v a b = if u < v then a else b := rfl

theorem cmpgt64_toNat (a b : BitVec 64) :
    (cmpgt64 a b).toNat = ltN (unsh b.toNat) (unsh a.toNat) 18446744073709551615 0 := by
  rw [cmpgt64_eq, mask_toNat]; unfold unsh ltN
  simp only [decide_eq_true_eq]
theorem cmpgt64_and_toNat (a b k : BitVec 64) :
    (cmpgt64 a b &&& k).toNat = ltN (unsh b.toNat) (unsh a.toNat) k.toNat 0 := by
  rw [cmpgt64_eq, mask_and_toNat]; unfold unsh ltN
  simp only [decide_eq_true_eq]
theorem and_cmpgt64_toNat (a b k : BitVec 64) :
    (k &&& cmpgt64 a b).toNat = ltN (unsh b.toNat) (unsh a.toNat) k.toNat 0 := by
  rw [BitVec.and_comm, cmpgt64_and_toNat]
theorem andnot_cmpgt64_toNat (a b k : BitVec 64) :
    (~~~cmpgt64 a b &&& k).toNat = ltN (unsh b.toNat) (unsh a.toNat) 0 k.toNat := by
  rw [cmpgt64_eq, mask_andnot_toNat]; unfold unsh ltN
  simp only [decide_eq_true_eq]

/-- `srli_epi64(cmpgt_epi64(a, b), 32)`: the low-half constant 2^32 - 1 under the mask, without the `and` -/
theorem cmpgt64_shr32_toNat (a b : BitVec 64) :
    (cmpgt64 a b >>> 32).toNat = ltN (unsh b.toNat) (unsh a.toNat) 4294967295 0 := by
  rw [ushr32_toNat, cmpgt64_toNat]; unfold ltN
  split <;> rfl

/-- the high half is already below 2^32 (`srli 32` feeding `mul_epu32` is the same as `movehdup` feeding it) -/
theorem hi_mod_32 (x : BitVec 64) : x.toNat / 4294967296 % 4294967296 = x.toNat / 4294967296 := by
  have := x.isLt; omega

attribute [lane_nat] hi_mod_32 Nat.mod_mod BitVec.toNat_add BitVec.toNat_sub BitVec.toNat_ofNat Nat.reducePow Nat.reduceMod Nat.reduceMul
  xor_msb_unsh msb_xor_unsh and_lo32_toNat lo32_and_toNat and_hi32_toNat hi32_and_toNat and_sqmask_toNat
  sqmask_and_toNat ushr_toNat shl_toNat cmpgt64_toNat
  mul32_toNat hdup_mod ldup_toNat blend32_2_toNat shl33_or_and_toNat and_or_shl33_toNat shl32_or_and_toNat
  and_or_shl32_toNat
attribute [lane_nat high] cmpgt32_shr_toNat cmpgt64_shr32_toNat cmpgt64_and_toNat and_cmpgt64_toNat andnot_cmpgt64_toNat

/-! ### unsigned compare-and-select on one lane (AVX-512 mask registers), folded like `ltN` -/

/-- `if x < y then u else v` on lanes (unsigned); every `vpcmpuq` predicate under a masked operation is brought to
  this form (`≤` by exchanging the branches) -/
def ultSel (x y u v : BitVec 64) : BitVec 64 := if x < y then u else v
/-- `if x = y then u else v` on lanes -/
def eqSel (x y u v : BitVec 64) : BitVec 64 := if x = y then u else v
/-- `if u = v then a else b` on `Nat`, folded (see `ltN`) -/
def eqN (u v a b : Nat) : Nat := if u = v then a else b
theorem eqN_def (u v a b : Nat) : eqN u v a b = if u = v then a else b := rfl

theorem ultSel_toNat (x y u v : BitVec 64) : (ultSel x y u v).toNat = ltN x.toNat y.toNat u.toNat v.toNat := by
  unfold ultSel ltN
  by_cases h : x < y
  · rw [if_pos h, if_pos (BitVec.lt_def.mp h)]
  · rw [if_neg h, if_neg (fun h' => h (BitVec.lt_def.mpr h'))]
theorem eqSel_toNat (x y u v : BitVec 64) : (eqSel x y u v).toNat = eqN x.toNat y.toNat u.toNat v.toNat := by
  unfold eqSel eqN
  by_cases h : x = y
  · rw [if_pos h, if_pos (congrArg BitVec.toNat h)]
  · rw [if_neg h, if_neg (fun h' => h (BitVec.eq_of_toNat_eq h'))]

attribute [lane_nat] ultSel_toNat eqSel_toNat

/-- `BitVec.toNat_add` holds by `rfl`, so `simp` leaves that step to the kernel's definitional-equality check; on
  `x + c` with a 2^32-sized literal `c` (the AVX-512 kernels add `2^32 - 1` directly, the AVX2 kernels only under a
  mask) the kernel then unfolds `Nat.add` literal-many times and never returns.  This copy is a proper rewrite rule
  and is tried first. -/
theorem toNat_add64 (x y : BitVec 64) : (x + y).toNat = (x.toNat + y.toNat) % 18446744073709551616 := by
  have h : (2 : Nat) ^ 64 = 18446744073709551616 := by decide
  rw [BitVec.toNat_add, h]
attribute [lane_nat high] toNat_add64

end GoldilocksVerif.Lane
