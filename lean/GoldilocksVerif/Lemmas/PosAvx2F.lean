/-
  Poseidon (C06), part 4: the AVX2 backend (Gen/PosAvx2.lean) in the field view.  Helper lemmas; statements in
  Props/C06.lean.
-/
import GoldilocksVerif.Gen.PosAvx2
import GoldilocksVerif.Lemmas.Avx2MatF
import GoldilocksVerif.Lemmas.PosSpecL
import GoldilocksVerif.Lemmas.PosTables
import GoldilocksVerif.Lemmas.PosScalarF
set_option linter.unusedSimpArgs false
set_option linter.unnecessarySeqFocus false
set_option linter.unusedTactic false
set_option linter.unreachableTactic false
set_option linter.unusedVariables false
set_option maxRecDepth 8192
namespace GoldilocksVerif
open PoseidonSpec Gen.PosAvx2 Gen.PosConsts Gen.Avx2 Gen.Avx2Mat

/-! #### three registers as a 12-element state -/

/-- element `k` of the state held in three 4-lane registers -/
def lane12 (a0 a1 a2 : V4) : Nat → BitVec 64
  | 0 => a0.l0 | 1 => a0.l1 | 2 => a0.l2 | 3 => a0.l3
  | 4 => a1.l0 | 5 => a1.l1 | 6 => a1.l2 | 7 => a1.l3
  | 8 => a2.l0 | 9 => a2.l1 | 10 => a2.l2 | 11 => a2.l3
  | _ => 0#64

def vF (a0 a1 a2 : V4) : State := fun i => den (lane12 a0 a1 a2 i.val)

theorem vF_lit (a0 a1 a2 : V4) :
    (vF a0 a1 a2 0 = den a0.l0 ∧ vF a0 a1 a2 1 = den a0.l1 ∧ vF a0 a1 a2 2 = den a0.l2 ∧ vF a0 a1 a2 3 = den a0.l3) ∧
    (vF a0 a1 a2 4 = den a1.l0 ∧ vF a0 a1 a2 5 = den a1.l1 ∧ vF a0 a1 a2 6 = den a1.l2 ∧ vF a0 a1 a2 7 = den a1.l3) ∧
    (vF a0 a1 a2 8 = den a2.l0 ∧ vF a0 a1 a2 9 = den a2.l1 ∧ vF a0 a1 a2 10 = den a2.l2 ∧ vF a0 a1 a2 11 = den a2.l3) :=
  ⟨⟨rfl, rfl, rfl, rfl⟩, ⟨rfl, rfl, rfl, rfl⟩, ⟨rfl, rfl, rfl, rfl⟩⟩

theorem vF_get (a0 a1 a2 : V4) (i : Fin 4) :
    vF a0 a1 a2 ⟨i.val, by omega⟩ = den (a0.get i) ∧ vF a0 a1 a2 ⟨4 + i.val, by omega⟩ = den (a1.get i) ∧
    vF a0 a1 a2 ⟨8 + i.val, by omega⟩ = den (a2.get i) := by
  match i with
  | 0 => exact ⟨rfl, rfl, rfl⟩ | 1 => exact ⟨rfl, rfl, rfl⟩ | 2 => exact ⟨rfl, rfl, rfl⟩ | 3 => exact ⟨rfl, rfl, rfl⟩

theorem vF_ext (b0 b1 b2 : V4) (t : State)
    (h0 : ∀ i : Fin 4, den (b0.get i) = t ⟨i.val, by omega⟩)
    (h1 : ∀ i : Fin 4, den (b1.get i) = t ⟨4 + i.val, by omega⟩)
    (h2 : ∀ i : Fin 4, den (b2.get i) = t ⟨8 + i.val, by omega⟩) : vF b0 b1 b2 = t := by
  refine state_ext _ _ (forall_lt_12' _ ?_ ?_ ?_ ?_ ?_ ?_ ?_ ?_ ?_ ?_ ?_ ?_)
  · exact h0 0
  · exact h0 1
  · exact h0 2
  · exact h0 3
  · exact h1 0
  · exact h1 1
  · exact h1 2
  · exact h1 3
  · exact h2 0
  · exact h2 1
  · exact h2 2
  · exact h2 3

/-! #### lane kernels used by the Poseidon code -/

theorem add_al_eq (c b : V4) : add_avx__vVV_al_c_a c b = add_avx__vVV c b := by
  simp only [add_avx__vVV_al_c_a, add_avx__vVV]

theorem add_b_small_al_eq (c b : V4) : add_avx_b_small_al_c_a c b = add_avx_b_small c b := by
  simp only [add_avx_b_small_al_c_a, add_avx_b_small]

theorem den_add_b_small (a b : V4) (i : Fin 4) (hb : (b.get i).toNat ≤ 18446744069414584320) :
    den ((add_avx_b_small a b).get i) = den (a.get i) + den (b.get i) := by
  apply den_add_of; rw [add_b_small_get, add_b_small_spec _ _ hb]

theorem den_square_avx (a : V4) (i : Fin 4) : den ((square_avx a).get i) = den (a.get i) * den (a.get i) := by
  apply den_mul_of; exact square_spec a i

theorem den_zero64 : den 0#64 = 0 := by
  have : den 0#64 = ((0 : Nat) : F) := den_of_mod _ 0 (by decide)
  simpa using this

theorem and_ones64 (x : BitVec 64) : x &&& 18446744073709551615#64 = x := by
  have e : (18446744073709551615#64 : BitVec 64) = BitVec.allOnes 64 := by decide
  rw [e, BitVec.and_allOnes]

theorem get_set1 (x : BitVec 64) (i : Fin 4) : (Avx2.set1_epi64x x).get i = x := by
  match i with
  | 0 => rfl | 1 => rfl | 2 => rfl | 3 => rfl


/-! #### the steps of the full rounds -/

theorem vF_load (s : Region) : vF (load_avx s) (load_avx (Region.shift s 4)) (load_avx (Region.shift s 8)) = stF s := by
  apply vF_ext <;> intro i <;> simp only [load_avx, get_load, Region.shift_apply, stF_apply]

/-- add_avx_small: exact whenever the twelve constants are at most 0xFFFFFFFF00000000 -/
theorem vF_add_small (a0 a1 a2 : V4) (c : Region) (hc : ∀ k, k < 12 → (c k).toNat ≤ 18446744069414584320) :
    vF (Pos_add_avx_small a0 a1 a2 c).1 (Pos_add_avx_small a0 a1 a2 c).2.1 (Pos_add_avx_small a0 a1 a2 c).2.2 =
      fun i => vF a0 a1 a2 i + den (c i.val) := by
  apply vF_ext <;> intro i
  · have h : ((Avx2.load c).get i).toNat ≤ 18446744069414584320 := by
      rw [get_load]; exact hc _ (by omega)
    simp only [Pos_add_avx_small, add_b_small_al_eq, den_add_b_small _ _ i h, (vF_get a0 a1 a2 i).1, load_avx, get_load]
  · have h : ((Avx2.load (Region.shift c 4)).get i).toNat ≤ 18446744069414584320 := by
      rw [get_load, Region.shift_apply]; exact hc _ (by omega)
    simp only [Pos_add_avx_small, add_b_small_al_eq, den_add_b_small _ _ i h, (vF_get a0 a1 a2 i).2.1, load_avx, get_load,
      Region.shift_apply]
  · have h : ((Avx2.load (Region.shift c 8)).get i).toNat ≤ 18446744069414584320 := by
      rw [get_load, Region.shift_apply]; exact hc _ (by omega)
    simp only [Pos_add_avx_small, add_b_small_al_eq, den_add_b_small _ _ i h, (vF_get a0 a1 a2 i).2.2, load_avx, get_load,
      Region.shift_apply]

theorem posC_small (off : Nat) (h : off + 12 ≤ 118) (k : Nat) (hk : k < 12) :
    ((Region.shift c_Pos_C off) k).toNat ≤ 18446744069414584320 := by
  have := posC_canon (off + k) (by omega)
  rw [Region.shift_apply]
  unfold P at this
  omega

theorem vF_add_small_C (a0 a1 a2 : V4) (off : Nat) (h : off + 12 ≤ 118) :
    vF (Pos_add_avx_small a0 a1 a2 (Region.shift c_Pos_C off)).1 (Pos_add_avx_small a0 a1 a2 (Region.shift c_Pos_C off)).2.1
      (Pos_add_avx_small a0 a1 a2 (Region.shift c_Pos_C off)).2.2 = addC off (vF a0 a1 a2) := by
  rw [vF_add_small _ _ _ _ (posC_small off h)]
  funext i
  simp only [addC, C, Region.shift_apply]

theorem vF_add_small_C0 (a0 a1 a2 : V4) :
    vF (Pos_add_avx_small a0 a1 a2 c_Pos_C).1 (Pos_add_avx_small a0 a1 a2 c_Pos_C).2.1
      (Pos_add_avx_small a0 a1 a2 c_Pos_C).2.2 = addC 0 (vF a0 a1 a2) := by
  have := vF_add_small_C a0 a1 a2 0 (by omega)
  rw [Region.shift_zero] at this
  exact this

theorem vF_add_C (a0 a1 a2 : V4) (off : Nat) :
    vF (Pos_add_avx a0 a1 a2 (Region.shift c_Pos_C off)).1 (Pos_add_avx a0 a1 a2 (Region.shift c_Pos_C off)).2.1
      (Pos_add_avx a0 a1 a2 (Region.shift c_Pos_C off)).2.2 = addC off (vF a0 a1 a2) := by
  apply vF_ext <;> intro i
  · simp only [Pos_add_avx, add_al_eq, den_add_avx, (vF_get a0 a1 a2 i).1, load_avx, get_load, Region.shift_apply, addC, C]
  · simp only [Pos_add_avx, add_al_eq, den_add_avx, (vF_get a0 a1 a2 i).2.1, load_avx, get_load, Region.shift_apply, addC, C,
      Nat.add_assoc]
  · simp only [Pos_add_avx, add_al_eq, den_add_avx, (vF_get a0 a1 a2 i).2.2, load_avx, get_load, Region.shift_apply, addC, C,
      Nat.add_assoc]

theorem vF_pow7 (a0 a1 a2 : V4) :
    vF (Pos_pow7_avx a0 a1 a2).1 (Pos_pow7_avx a0 a1 a2).2.1 (Pos_pow7_avx a0 a1 a2).2.2 = sbox (vF a0 a1 a2) := by
  apply vF_ext <;> intro i
  · simp only [Pos_pow7_avx, den_mult_avx, den_square_avx, sbox, (vF_get a0 a1 a2 i).1]; ring
  · simp only [Pos_pow7_avx, den_mult_avx, den_square_avx, sbox, (vF_get a0 a1 a2 i).2.1]; ring
  · simp only [Pos_pow7_avx, den_mult_avx, den_square_avx, sbox, (vF_get a0 a1 a2 i).2.2]; ring

/-- a row of the transposed table against the state = a column of the table against the state -/
theorem dot12_transp (a0 a1 a2 : V4) (Mt M : Region) (htr : ∀ k, k < 144 → Mt k = M (12 * (k % 12) + k / 12)) :
    ∀ e (he : e < 12), dot12 a0 a1 a2 Mt (12 * e) =
      mulMat (fun j i => den (M (12 * j.val + i.val))) (vF a0 a1 a2) ⟨e, he⟩ := by
  obtain ⟨⟨v0, v1, v2, v3⟩, ⟨v4, v5, v6, v7⟩, ⟨v8, v9, v10, v11⟩⟩ := fin12_val
  obtain ⟨⟨f0, f1, f2, f3⟩, ⟨f4, f5, f6, f7⟩, ⟨f8, f9, f10, f11⟩⟩ := vF_lit a0 a1 a2
  refine forall_lt_12' _ ?_ ?_ ?_ ?_ ?_ ?_ ?_ ?_ ?_ ?_ ?_ ?_ <;>
    (rw [mulMat_apply]
     simp only [dot12, v0, v1, v2, v3, v4, v5, v6, v7, v8, v9, v10, v11, f0, f1, f2, f3, f4, f5, f6, f7, f8, f9, f10, f11,
       Nat.reduceMul, Nat.reduceAdd, Nat.add_zero, htr, Nat.reduceLT, Nat.reduceMod, Nat.reduceDiv]
     ring)

theorem vF_mmult8_M (a0 a1 a2 : V4) :
    vF (mmult_avx_8 a0 a1 a2 c_Pos_M_).1 (mmult_avx_8 a0 a1 a2 c_Pos_M_).2.1 (mmult_avx_8 a0 a1 a2 c_Pos_M_).2.2 =
      mulMat M (vF a0 a1 a2) := by
  apply vF_ext <;> intro i
  · rw [(mmult_8_den a0 a1 a2 c_Pos_M_ i posM__8bit).1]
    exact dot12_transp a0 a1 a2 c_Pos_M_ c_Pos_M posM__transp i.val (by omega)
  · rw [(mmult_8_den a0 a1 a2 c_Pos_M_ i posM__8bit).2.1]
    have e : 48 + 12 * i.val = 12 * (4 + i.val) := by omega
    rw [e]
    exact dot12_transp a0 a1 a2 c_Pos_M_ c_Pos_M posM__transp (4 + i.val) (by omega)
  · rw [(mmult_8_den a0 a1 a2 c_Pos_M_ i posM__8bit).2.2]
    have e : 96 + 12 * i.val = 12 * (8 + i.val) := by omega
    rw [e]
    exact dot12_transp a0 a1 a2 c_Pos_M_ c_Pos_M posM__transp (8 + i.val) (by omega)

theorem vF_mmult_P (a0 a1 a2 : V4) :
    vF (mmult_avx a0 a1 a2 c_Pos_P_).1 (mmult_avx a0 a1 a2 c_Pos_P_).2.1 (mmult_avx a0 a1 a2 c_Pos_P_).2.2 =
      mulMat Pm (vF a0 a1 a2) := by
  apply vF_ext <;> intro i
  · rw [(mmult_den a0 a1 a2 c_Pos_P_ i).1]
    exact dot12_transp a0 a1 a2 c_Pos_P_ c_Pos_P posP__transp i.val (by omega)
  · rw [(mmult_den a0 a1 a2 c_Pos_P_ i).2.1]
    have e : 48 + 12 * i.val = 12 * (4 + i.val) := by omega
    rw [e]
    exact dot12_transp a0 a1 a2 c_Pos_P_ c_Pos_P posP__transp (4 + i.val) (by omega)
  · rw [(mmult_den a0 a1 a2 c_Pos_P_ i).2.2]
    have e : 96 + 12 * i.val = 12 * (8 + i.val) := by omega
    rw [e]
    exact dot12_transp a0 a1 a2 c_Pos_P_ c_Pos_P posP__transp (8 + i.val) (by omega)


/-! #### the body of the 22-round loop: (state0_, lanes 1..3 of st0, st1, st2) hold the state -/

/-- the lane mask of the partial rounds: lane 0 cleared, lanes 1..3 kept -/
abbrev posMask : V4 :=
  Avx2.set_epi64x 18446744073709551615#64 18446744073709551615#64 18446744073709551615#64 0#64

/-- the state during the partial rounds: element 0 lives in the scalar `state0_`, lane 0 of st0 is dead -/
def pF (y : BitVec 64) (a0 a1 a2 : V4) : State := vF ⟨y, a0.l1, a0.l2, a0.l3⟩ a1 a2

theorem vloop_y (r : Nat) (x y : BitVec 64) (a0 a1 a2 : V4) :
    den (Pos_hash_full_result_loop1 posMask r (x, y, a0, a1, a2)).2.1 =
      (den y ^ 7 + C (60 + r)) * S (23 * r) + den a0.l1 * S (23 * r + 1) + den a0.l2 * S (23 * r + 2) +
      den a0.l3 * S (23 * r + 3) + den a1.l0 * S (23 * r + 4) + den a1.l1 * S (23 * r + 5) + den a1.l2 * S (23 * r + 6) +
      den a1.l3 * S (23 * r + 7) + den a2.l0 * S (23 * r + 8) + den a2.l1 * S (23 * r + 9) + den a2.l2 * S (23 * r + 10) +
      den a2.l3 * S (23 * r + 11) := by
  simp only [Pos_hash_full_result_loop1, posMask, den_add_r, den_mul_r, den_pow7, dot_den, dot12, Avx2.and_si256,
    Avx2.set_epi64x, V4.map2, Region.shift_apply, BitVec.and_zero, and_ones64, den_zero64, Nat.add_zero, C, S,
    Nat.add_comm 60 r]
  ring

theorem vloop_lane (r : Nat) (x y : BitVec 64) (a0 a1 a2 : V4) (i : Fin 4) :
    den ((Pos_hash_full_result_loop1 posMask r (x, y, a0, a1, a2)).2.2.1.get i) =
      den ((Avx2.and_si256 a0 posMask).get i) + (den y ^ 7 + C (60 + r)) * S (23 * r + 11 + i.val) ∧
    den ((Pos_hash_full_result_loop1 posMask r (x, y, a0, a1, a2)).2.2.2.1.get i) =
      den (a1.get i) + (den y ^ 7 + C (60 + r)) * S (23 * r + 11 + (4 + i.val)) ∧
    den ((Pos_hash_full_result_loop1 posMask r (x, y, a0, a1, a2)).2.2.2.2.get i) =
      den (a2.get i) + (den y ^ 7 + C (60 + r)) * S (23 * r + 11 + (8 + i.val)) := by
  have e1 : 23 * r + 11 + (4 + i.val) = 23 * r + 15 + i.val := by omega
  have e2 : 23 * r + 11 + (8 + i.val) = 23 * r + 19 + i.val := by omega
  rw [e1, e2]
  -- the index arithmetic of the constants (`&S[23 r + 11 + 4]` or `&Sr[11 + 4]` with `Sr = &S[23 r]` hoisted) and the operand order
  -- of the exact lane operations are left to `ring_nf`.  The call pattern `add_avx(st, w, st)` (result aliasing the SECOND
  -- operand) has a generated definition only when the code uses it: its equation is tried first.
  first
  | (have eb : ∀ c a : V4, add_avx__vVV_al_c_b c a = add_avx__vVV a c := by
       intro c a; simp only [add_avx__vVV_al_c_b, add_avx__vVV, add_avx_a_sc_al_c_b, add_avx_a_sc]
     refine ⟨?_, ?_, ?_⟩ <;>
       (simp only [Pos_hash_full_result_loop1, add_al_eq, eb, den_add_avx, den_mult_avx, get_set1, load_avx, get_load,
         Region.shift_apply, den_add_r, den_pow7, C, S, Nat.add_comm 60 r] <;> ring_nf))
  | (refine ⟨?_, ?_, ?_⟩ <;>
       (simp only [Pos_hash_full_result_loop1, add_al_eq, den_add_avx, den_mult_avx, get_set1, load_avx, get_load,
         Region.shift_apply, den_add_r, den_pow7, C, S, Nat.add_comm 60 r] <;> ring_nf))

theorem and_mask_lanes (a0 : V4) : (Avx2.and_si256 a0 posMask).l1 = a0.l1 ∧ (Avx2.and_si256 a0 posMask).l2 = a0.l2 ∧
    (Avx2.and_si256 a0 posMask).l3 = a0.l3 := by
  simp only [posMask, Avx2.and_si256, Avx2.set_epi64x, V4.map2, and_ones64, and_self]

theorem pF_lit (y : BitVec 64) (a0 a1 a2 : V4) : pF y a0 a1 a2 0 = den y := rfl

/-- one partial round on the representation (scalar element 0, eleven lanes), from the twelve lane equations -/
theorem pF_round (r : Nat) (y y' : BitVec 64) (a0 a1 a2 b0 b1 b2 : V4)
    (Y : den y' = (den y ^ 7 + C (60 + r)) * S (23 * r) + den a0.l1 * S (23 * r + 1) + den a0.l2 * S (23 * r + 2) +
      den a0.l3 * S (23 * r + 3) + den a1.l0 * S (23 * r + 4) + den a1.l1 * S (23 * r + 5) + den a1.l2 * S (23 * r + 6) +
      den a1.l3 * S (23 * r + 7) + den a2.l0 * S (23 * r + 8) + den a2.l1 * S (23 * r + 9) + den a2.l2 * S (23 * r + 10) +
      den a2.l3 * S (23 * r + 11))
    (h1 : den b0.l1 = den a0.l1 + (den y ^ 7 + C (60 + r)) * S (23 * r + 11 + 1))
    (h2 : den b0.l2 = den a0.l2 + (den y ^ 7 + C (60 + r)) * S (23 * r + 11 + 2))
    (h3 : den b0.l3 = den a0.l3 + (den y ^ 7 + C (60 + r)) * S (23 * r + 11 + 3))
    (h4 : den b1.l0 = den a1.l0 + (den y ^ 7 + C (60 + r)) * S (23 * r + 11 + 4))
    (h5 : den b1.l1 = den a1.l1 + (den y ^ 7 + C (60 + r)) * S (23 * r + 11 + 5))
    (h6 : den b1.l2 = den a1.l2 + (den y ^ 7 + C (60 + r)) * S (23 * r + 11 + 6))
    (h7 : den b1.l3 = den a1.l3 + (den y ^ 7 + C (60 + r)) * S (23 * r + 11 + 7))
    (h8 : den b2.l0 = den a2.l0 + (den y ^ 7 + C (60 + r)) * S (23 * r + 11 + 8))
    (h9 : den b2.l1 = den a2.l1 + (den y ^ 7 + C (60 + r)) * S (23 * r + 11 + 9))
    (h10 : den b2.l2 = den a2.l2 + (den y ^ 7 + C (60 + r)) * S (23 * r + 11 + 10))
    (h11 : den b2.l3 = den a2.l3 + (den y ^ 7 + C (60 + r)) * S (23 * r + 11 + 11)) :
    pF y' b0 b1 b2 = partialRound r (pF y a0 a1 a2) := by
  refine state_ext _ _ (forall_lt_12' _ ?_ ?_ ?_ ?_ ?_ ?_ ?_ ?_ ?_ ?_ ?_ ?_)
  · show den y' = partialRound r (pF y a0 a1 a2) 0
    rw [Y, partialRound_zero]; rfl
  · show den b0.l1 = _
    rw [partialRound_succ r _ ⟨1, _⟩ (by decide), h1]; rfl
  · show den b0.l2 = _
    rw [partialRound_succ r _ ⟨2, _⟩ (by decide), h2]; rfl
  · show den b0.l3 = _
    rw [partialRound_succ r _ ⟨3, _⟩ (by decide), h3]; rfl
  · show den b1.l0 = _
    rw [partialRound_succ r _ ⟨4, _⟩ (by decide), h4]; rfl
  · show den b1.l1 = _
    rw [partialRound_succ r _ ⟨5, _⟩ (by decide), h5]; rfl
  · show den b1.l2 = _
    rw [partialRound_succ r _ ⟨6, _⟩ (by decide), h6]; rfl
  · show den b1.l3 = _
    rw [partialRound_succ r _ ⟨7, _⟩ (by decide), h7]; rfl
  · show den b2.l0 = _
    rw [partialRound_succ r _ ⟨8, _⟩ (by decide), h8]; rfl
  · show den b2.l1 = _
    rw [partialRound_succ r _ ⟨9, _⟩ (by decide), h9]; rfl
  · show den b2.l2 = _
    rw [partialRound_succ r _ ⟨10, _⟩ (by decide), h10]; rfl
  · show den b2.l3 = _
    rw [partialRound_succ r _ ⟨11, _⟩ (by decide), h11]; rfl

theorem vloop (r : Nat) (x y : BitVec 64) (a0 a1 a2 : V4) :
    pF (Pos_hash_full_result_loop1 posMask r (x, y, a0, a1, a2)).2.1
       (Pos_hash_full_result_loop1 posMask r (x, y, a0, a1, a2)).2.2.1
       (Pos_hash_full_result_loop1 posMask r (x, y, a0, a1, a2)).2.2.2.1
       (Pos_hash_full_result_loop1 posMask r (x, y, a0, a1, a2)).2.2.2.2 = partialRound r (pF y a0 a1 a2) := by
  have Y := vloop_y r x y a0 a1 a2
  have L0 := vloop_lane r x y a0 a1 a2 0
  have L1 := vloop_lane r x y a0 a1 a2 1
  have L2 := vloop_lane r x y a0 a1 a2 2
  have L3 := vloop_lane r x y a0 a1 a2 3
  obtain ⟨m1, m2, m3⟩ := and_mask_lanes a0
  have e3 : ((3 : Fin 4).val) = 3 := rfl
  simp only [V4.get, Fin.val_zero, Fin.val_one, Fin.val_two, e3, Nat.add_zero, Nat.reduceAdd, m1, m2, m3] at L0 L1 L2 L3
  generalize Pos_hash_full_result_loop1 posMask r (x, y, a0, a1, a2) = B at Y L0 L1 L2 L3 ⊢
  obtain ⟨x', y', b0, b1, b2⟩ := B
  simp only at Y L0 L1 L2 L3 ⊢
  exact pF_round r y y' a0 a1 a2 b0 b1 b2 Y L1.1 L2.1 L3.1 L0.2.1 L1.2.1 L2.2.1 L3.2.1 L0.2.2 L1.2.2 L2.2.2 L3.2.2

theorem vloops (n : Nat) (x y : BitVec 64) (a0 a1 a2 : V4) :
    pF (Loop.range 0 n 1 (x, y, a0, a1, a2) (Pos_hash_full_result_loop1 posMask)).2.1
       (Loop.range 0 n 1 (x, y, a0, a1, a2) (Pos_hash_full_result_loop1 posMask)).2.2.1
       (Loop.range 0 n 1 (x, y, a0, a1, a2) (Pos_hash_full_result_loop1 posMask)).2.2.2.1
       (Loop.range 0 n 1 (x, y, a0, a1, a2) (Pos_hash_full_result_loop1 posMask)).2.2.2.2 =
      partialRounds n (pF y a0 a1 a2) := by
  refine Loop.range_inv (fun k (t : BitVec 64 × BitVec 64 × V4 × V4 × V4) =>
    pF t.2.1 t.2.2.1 t.2.2.2.1 t.2.2.2.2 = partialRounds k (pF y a0 a1 a2)) _ n _ rfl ?_
  intro r t _ h
  obtain ⟨x', y', b0, b1, b2⟩ := t
  show pF _ _ _ _ = partialRound r (partialRounds r (pF y a0 a1 a2))
  rw [vloop, h]


/-! #### glue: spilling state[0] around the loop, the final stores -/

theorem reload_eq (S : Region) (a0 : V4) (y : BitVec 64) :
    load_avx (Region.set (store_avx S a0) 0 y) = ⟨y, a0.l1, a0.l2, a0.l3⟩ := by
  simp only [load_avx, Avx2.load, store_avx, Avx2.store, Region.set_apply, Region.mk_apply, ↓reduceIte, Nat.reduceEqDiff]

theorem vF_reload (S : Region) (a0 a1 a2 : V4) (y : BitVec 64) :
    vF (load_avx (Region.set (store_avx S a0) 0 y)) a1 a2 = pF y a0 a1 a2 := by
  rw [reload_eq]; rfl

theorem pF_spill (S : Region) (a0 a1 a2 : V4) : pF ((store_avx S a0) 0) a0 a1 a2 = vF a0 a1 a2 := by
  have : (store_avx S a0) 0 = a0.l0 := (store_get S a0).1
  rw [this]; rfl

theorem stores_den (S : Region) (b0 b1 b2 : V4) :
    stF (Region.unshift (Region.unshift (store_avx S b0) 4 (store_avx (Region.shift (store_avx S b0) 4) b1)) 8
      (store_avx (Region.shift (Region.unshift (store_avx S b0) 4 (store_avx (Region.shift (store_avx S b0) 4) b1)) 8) b2)) =
      vF b0 b1 b2 := by
  refine state_ext _ _ (forall_lt_12' _ ?_ ?_ ?_ ?_ ?_ ?_ ?_ ?_ ?_ ?_ ?_ ?_) <;>
    simp only [stF_apply, vF, lane12, Region.unshift_apply, store_avx, Avx2.store, Region.mk_apply, Region.shift_apply,
      Nat.reduceLeDiff, Nat.reduceSub, ↓reduceIte, Nat.reduceEqDiff]

theorem stores_frame (S : Region) (b0 b1 b2 : V4) (i : Nat) (hi : 12 ≤ i) :
    (Region.unshift (Region.unshift (store_avx S b0) 4 (store_avx (Region.shift (store_avx S b0) 4) b1)) 8
      (store_avx (Region.shift (Region.unshift (store_avx S b0) 4 (store_avx (Region.shift (store_avx S b0) 4) b1)) 8) b2)) i =
      S i := by
  have h8 : 8 ≤ i := by omega
  have h4 : 4 ≤ i := by omega
  have a0 : i - 8 ≠ 0 := by omega
  have a1 : i - 8 ≠ 1 := by omega
  have a2 : i - 8 ≠ 2 := by omega
  have a3 : i - 8 ≠ 3 := by omega
  have e : 8 + (i - 8) = i := by omega
  have c0 : i - 4 ≠ 0 := by omega
  have c1 : i - 4 ≠ 1 := by omega
  have c2 : i - 4 ≠ 2 := by omega
  have c3 : i - 4 ≠ 3 := by omega
  have e' : 4 + (i - 4) = i := by omega
  obtain ⟨d0, d1, d2, d3, _⟩ := ne12 i hi
  simp only [Region.unshift_apply, store_avx, Avx2.store, Region.mk_apply, Region.shift_apply, h8, h4, a0, a1, a2, a3, e,
    c0, c1, c2, c3, e', d0, d1, d2, d3, ↓reduceIte]

theorem store_frame (S : Region) (b : V4) (i : Nat) (hi : 4 ≤ i) : (store_avx S b) i = S i := by
  have d0 : i ≠ 0 := by omega
  have d1 : i ≠ 1 := by omega
  have d2 : i ≠ 2 := by omega
  have d3 : i ≠ 3 := by omega
  simp only [store_avx, Avx2.store, Region.mk_apply, d0, d1, d2, d3, ↓reduceIte]

/-- the AVX2 full-result permutation is the specified permutation; nothing beyond the twelve state words is written -/
theorem avx2_spec (state input : Region) :
    stF (Pos_hash_full_result state input) = permutation (stF input) ∧
    ∀ i, 12 ≤ i → (Pos_hash_full_result state input) i = state i := by
  refine ⟨?_, fun i hi => ?_⟩
  · simp only [Pos_hash_full_result, stores_den, vF_mmult8_M, vF_pow7, vF_add_small_C _ _ _ 12 (by omega),
      vF_add_small_C _ _ _ 24 (by omega), vF_add_small_C _ _ _ 36 (by omega), vF_add_small_C _ _ _ 82 (by omega),
      vF_add_small_C _ _ _ 94 (by omega), vF_add_small_C _ _ _ 106 (by omega), vF_add_small_C0, vF_add_C, vF_mmult_P,
      vF_reload, vloops, pF_spill, vF_load, stF_copyN, permutation, fullRound]
  · have hlt : ¬ i < 12 := by omega
    have h0 : i ≠ 0 := by omega
    simp only [Pos_hash_full_result, stores_frame _ _ _ _ i hi, store_frame _ _ i (by omega : 4 ≤ i), Region.set_apply, h0,
      Region.copyN_apply, hlt, ↓reduceIte]

end GoldilocksVerif
