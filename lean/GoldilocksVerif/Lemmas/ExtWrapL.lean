/-
  Helper definitions, lemmas and the uniform proof scripts for the batched / AVX2 / AVX512 cubic-extension routines (C16).
  Property statements: Props/C16.lean; per-overload theorems (generated from the C++ signatures): Props/C16Gen*.lean.

  Contents
  (1) designation vocabulary used by the generated statements: positions (`posD`, `posS`, `posA`, `posC`), operands read as
      elements of K3 (`ext3`, `base1`, `regs4`, `vreg4`, ...), outputs (`Scatter3`, `Planar4`, `Planar8`, `ScatterExact`);
  (2) `WrittenBy`: "res is c after n sequential writes, the j-th at position pos j of a word satisfying ok j";
  (3) lane lemmas in the field view (`den` of a lane of add_avx / sub_avx / mult_avx and the AVX512 kernels);
  (4) normalisation lemmas for the gather / scatter code and the proof macros `ext_arr`, `ext_regs`, `ext_vreg`.
-/
import GoldilocksVerif.Lemmas.ExtF
import GoldilocksVerif.Lemmas.WrapL
import GoldilocksVerif.Lemmas.Avx2Mul
import GoldilocksVerif.Lemmas.Avx512Nat
import GoldilocksVerif.Model.VRegion
import GoldilocksVerif.Gen.ExtWrap
import Mathlib.Tactic.IntervalCases
set_option linter.unusedSimpArgs false
namespace GoldilocksVerif

/-! ### (1) designation vocabulary -/

namespace K3
/-- coefficient `i` (0, 1, 2) of an element -/
def coef (x : K3) : Nat → F
  | 0 => x.c0
  | 1 => x.c1
  | _ => x.c2
@[simp] theorem coef_zero (x : K3) : x.coef 0 = x.c0 := rfl
@[simp] theorem coef_one (x : K3) : x.coef 1 = x.c1 := rfl
@[simp] theorem coef_two (x : K3) : x.coef 2 = x.c2 := rfl
end K3

/-- default layout: coefficient `i` of element `k` at `d*k + i` (`d` = 3 for extension arrays, 1 for base arrays) -/
def posD (d k i : Nat) : Nat := d * k + i
/-- scalar stride `s`: `k*s + i` in 64-bit arithmetic (as the C++ computes it) -/
def posS (s : BitVec 64) (k : Nat) : Nat → Nat
  | 0 => (BitVec.ofNat 64 k * s).toNat
  | i + 1 => (BitVec.ofNat 64 k * s + BitVec.ofNat 64 (i + 1)).toNat
/-- index array `s`: `s[k] + i` in 64-bit arithmetic -/
def posA (s : Region) (k : Nat) : Nat → Nat
  | 0 => (s k).toNat
  | i + 1 => (s k + BitVec.ofNat 64 (i + 1)).toNat
/-- one constant operand: coefficient `i` at `i`, for every element -/
def posC (_k i : Nat) : Nat := i

theorem posS_0 (s : BitVec 64) (k : Nat) : posS s k 0 = (BitVec.ofNat 64 k * s).toNat := rfl
theorem posS_1 (s : BitVec 64) (k : Nat) : posS s k 1 = (BitVec.ofNat 64 k * s + 1#64).toNat := rfl
theorem posS_2 (s : BitVec 64) (k : Nat) : posS s k 2 = (BitVec.ofNat 64 k * s + 2#64).toNat := rfl
theorem posA_0 (s : Region) (k : Nat) : posA s k 0 = (s k).toNat := rfl
theorem posA_1 (s : Region) (k : Nat) : posA s k 1 = (s k + 1#64).toNat := rfl
theorem posA_2 (s : Region) (k : Nat) : posA s k 2 = (s k + 2#64).toNat := rfl

/-- extension operand in an array: element `k` -/
def ext3 (r : Region) (pos : Nat → Nat → Nat) (k : Nat) : K3 := ⟨den (r (pos k 0)), den (r (pos k 1)), den (r (pos k 2))⟩
/-- base operand in an array: element `k`, embedded in K3 -/
def base1 (r : Region) (pos : Nat → Nat → Nat) (k : Nat) : K3 := K3.ofBase (den (r (pos k 0)))
/-- one base value for every element -/
def val1 (x : BitVec 64) (_k : Nat) : K3 := K3.ofBase (den x)
/-- planar registers: lane `k` of register `i` is coefficient `i` of element `k` -/
def regs4 (r0 r1 r2 : V4) (k : Nat) : K3 := ⟨den (r0.getN k), den (r1.getN k), den (r2.getN k)⟩
def regs8 (r0 r1 r2 : V8) (k : Nat) : K3 := ⟨den (r0.getN k), den (r1.getN k), den (r2.getN k)⟩
def vreg4 (v : VRegion4) (k : Nat) : K3 := regs4 (v 0) (v 1) (v 2) k
def vreg8 (v : VRegion8) (k : Nat) : K3 := regs8 (v 0) (v 1) (v 2) k
/-- base operand in one register: lane `k` -/
def reg4 (r : V4) (k : Nat) : K3 := K3.ofBase (den (r.getN k))
def reg8 (r : V8) (k : Nat) : K3 := K3.ofBase (den (r.getN k))

/-- raw word of coefficient `i` of element `k` in planar registers (copies) -/
def word4 (r0 r1 r2 : V4) (k : Nat) : Nat → BitVec 64
  | 0 => r0.getN k
  | 1 => r1.getN k
  | _ => r2.getN k
def word8 (r0 r1 r2 : V8) (k : Nat) : Nat → BitVec 64
  | 0 => r0.getN k
  | 1 => r1.getN k
  | _ => r2.getN k

/-- hypothesis of the challenge products: `s0, s1, s2` are the precomputed sums `b0+b1, b0+b2, b1+b2` of `b`'s coefficients -/
def ChalSums (b : K3) (s0 s1 s2 : F) : Prop := s0 = b.c0 + b.c1 ∧ s1 = b.c0 + b.c2 ∧ s2 = b.c1 + b.c2

/-! ### (2) sequential writes -/

/-- `res` is `c` after `n` sequential writes; write `j` (0 first) puts at position `pos j` a word `w` with `ok j w` -/
inductive WrittenBy (pos : Nat → Nat) (ok : Nat → BitVec 64 → Prop) : Nat → Region → Region → Prop
  | nil (c : Region) : WrittenBy pos ok 0 c c
  | snoc {n : Nat} {c r : Region} (w : BitVec 64) :
      WrittenBy pos ok n c r → ok n w → WrittenBy pos ok (n + 1) c (Region.set r (pos n) w)

/-- array output: for k = 0..W-1 in order, three words denoting `val k` are written at `pos k 0`, `pos k 1`, `pos k 2` -/
def Scatter3 (W : Nat) (pos : Nat → Nat → Nat) (val : Nat → K3) (c res : Region) : Prop :=
  WrittenBy (fun j => pos (j / 3) (j % 3)) (fun j w => den w = (val (j / 3)).coef (j % 3)) (3 * W) c res

/-- copies: the words themselves -/
def ScatterExact (W : Nat) (pos : Nat → Nat → Nat) (word : Nat → Nat → BitVec 64) (c res : Region) : Prop :=
  WrittenBy (fun j => pos (j / 3) (j % 3)) (fun j w => w = word (j / 3) (j % 3)) (3 * W) c res

/-- planar register output -/
def Planar4 (val : Nat → K3) (c0 c1 c2 : V4) : Prop := ∀ k, k < 4 → regs4 c0 c1 c2 k = val k
def Planar8 (val : Nat → K3) (c0 c1 c2 : V8) : Prop := ∀ k, k < 8 → regs8 c0 c1 c2 k = val k
/-- `Element_avx` output: registers 0, 1, 2 written, the rest of the register array untouched -/
def PlanarV4 (val : Nat → K3) (c res : VRegion4) : Prop := Planar4 val (res 0) (res 1) (res 2) ∧ ∀ j, 3 ≤ j → res j = c j
def PlanarV8 (val : Nat → K3) (c res : VRegion8) : Prop := Planar8 val (res 0) (res 1) (res 2) ∧ ∀ j, 3 ≤ j → res j = c j

theorem WrittenBy.frame {pos ok n c res} (h : WrittenBy pos ok n c res) (j : Nat) (hj : ∀ m, m < n → j ≠ pos m) :
    res j = c j := by
  induction h with
  | nil => rfl
  | snoc w _ _ ih =>
    rw [Region.set_other _ _ _ _ (hj _ (Nat.lt_succ_self _))]
    exact ih (fun m hm => hj m (Nat.lt_succ_of_lt hm))

/-- every designated position holds a word accepted for one of the writes designated for it -/
theorem WrittenBy.mem {pos ok n c res} (h : WrittenBy pos ok n c res) (m : Nat) (hm : m < n) :
    ∃ m', m' < n ∧ pos m' = pos m ∧ ok m' (res (pos m)) := by
  induction h with
  | nil => exact absurd hm (Nat.not_lt_zero _)
  | @snoc n' c' r w _ hw ih =>
    by_cases e : pos m = pos n'
    · exact ⟨n', Nat.lt_succ_self _, e.symm, by rw [e, Region.set_same]; exact hw⟩
    · have hm' : m < n' := by
        rcases Nat.lt_or_ge m n' with h | h
        · exact h
        · have : m = n' := Nat.le_antisymm (Nat.le_of_lt_succ hm) h
          subst this; exact absurd rfl e
      obtain ⟨m', h1, h2, h3⟩ := ih hm'
      exact ⟨m', Nat.lt_succ_of_lt h1, h2, by rw [Region.set_other _ _ _ _ e]; exact h3⟩

/-- the last write designated for a position determines it -/
theorem WrittenBy.last {pos ok n c res} (h : WrittenBy pos ok n c res) (m : Nat) (hm : m < n)
    (hl : ∀ m', m < m' → m' < n → pos m' ≠ pos m) : ok m (res (pos m)) := by
  induction h with
  | nil => exact absurd hm (Nat.not_lt_zero _)
  | @snoc n' c' r w _ hw ih =>
    by_cases e : m = n'
    · subst e; rw [Region.set_same]; exact hw
    · have hm' : m < n' := Nat.lt_of_le_of_ne (Nat.le_of_lt_succ hm) e
      rw [Region.set_other _ _ _ _ (fun he => hl n' hm' (Nat.lt_succ_self _) he.symm)]
      exact ih hm' (fun m' h1 h2 => hl m' h1 (Nat.lt_succ_of_lt h2))

/-! ### (3) lanes of the vector kernels in the field view -/

theorem add4_mod (a b : V4) (i : Fin 4) :
    ((Gen.Avx2.add_avx__vVV a b).get i).toNat % P = ((a.get i).toNat + (b.get i).toNat) % P := by rw [add_get, add_spec]
theorem sub4_mod (a b : V4) (i : Fin 4) :
    (((Gen.Avx2.sub_avx__vVV a b).get i).toNat + (b.get i).toNat) % P = (a.get i).toNat % P := by rw [sub_get, sub_spec]

/- transfer from `get i` (the form of the kernel theorems) to the projections, stated for VARIABLE registers so that no
   generated kernel is ever unfolded by a definitional-equality check -/
theorem V4.tr_add_l0 (r x y : V4) (h : (r.get 0).toNat % P = ((x.get 0).toNat + (y.get 0).toNat) % P) :
    den r.l0 = den x.l0 + den y.l0 := den_add_of _ _ _ h
theorem V4.tr_sub_l0 (r x y : V4) (h : ((r.get 0).toNat + (y.get 0).toNat) % P = (x.get 0).toNat % P) :
    den r.l0 = den x.l0 - den y.l0 := den_sub_of _ _ _ h
theorem V4.tr_mul_l0 (r x y : V4) (h : (r.get 0).toNat % P = ((x.get 0).toNat * (y.get 0).toNat) % P) :
    den r.l0 = den x.l0 * den y.l0 := den_mul_of _ _ _ h
theorem V4.tr_add_l1 (r x y : V4) (h : (r.get 1).toNat % P = ((x.get 1).toNat + (y.get 1).toNat) % P) :
    den r.l1 = den x.l1 + den y.l1 := den_add_of _ _ _ h
theorem V4.tr_sub_l1 (r x y : V4) (h : ((r.get 1).toNat + (y.get 1).toNat) % P = (x.get 1).toNat % P) :
    den r.l1 = den x.l1 - den y.l1 := den_sub_of _ _ _ h
theorem V4.tr_mul_l1 (r x y : V4) (h : (r.get 1).toNat % P = ((x.get 1).toNat * (y.get 1).toNat) % P) :
    den r.l1 = den x.l1 * den y.l1 := den_mul_of _ _ _ h
theorem V4.tr_add_l2 (r x y : V4) (h : (r.get 2).toNat % P = ((x.get 2).toNat + (y.get 2).toNat) % P) :
    den r.l2 = den x.l2 + den y.l2 := den_add_of _ _ _ h
theorem V4.tr_sub_l2 (r x y : V4) (h : ((r.get 2).toNat + (y.get 2).toNat) % P = (x.get 2).toNat % P) :
    den r.l2 = den x.l2 - den y.l2 := den_sub_of _ _ _ h
theorem V4.tr_mul_l2 (r x y : V4) (h : (r.get 2).toNat % P = ((x.get 2).toNat * (y.get 2).toNat) % P) :
    den r.l2 = den x.l2 * den y.l2 := den_mul_of _ _ _ h
theorem V4.tr_add_l3 (r x y : V4) (h : (r.get 3).toNat % P = ((x.get 3).toNat + (y.get 3).toNat) % P) :
    den r.l3 = den x.l3 + den y.l3 := den_add_of _ _ _ h
theorem V4.tr_sub_l3 (r x y : V4) (h : ((r.get 3).toNat + (y.get 3).toNat) % P = (x.get 3).toNat % P) :
    den r.l3 = den x.l3 - den y.l3 := den_sub_of _ _ _ h
theorem V4.tr_mul_l3 (r x y : V4) (h : (r.get 3).toNat % P = ((x.get 3).toNat * (y.get 3).toNat) % P) :
    den r.l3 = den x.l3 * den y.l3 := den_mul_of _ _ _ h
theorem den_v4add_l0 (a b : V4) : den (Gen.Avx2.add_avx__vVV a b).l0 = den a.l0 + den b.l0 :=
  V4.tr_add_l0 _ a b (add4_mod a b 0)
theorem den_v4sub_l0 (a b : V4) : den (Gen.Avx2.sub_avx__vVV a b).l0 = den a.l0 - den b.l0 :=
  V4.tr_sub_l0 _ a b (sub4_mod a b 0)
theorem den_v4mul_l0 (a b : V4) : den (Gen.Avx2.mult_avx a b).l0 = den a.l0 * den b.l0 :=
  V4.tr_mul_l0 _ a b (mult_spec a b 0)
theorem den_v4add_l1 (a b : V4) : den (Gen.Avx2.add_avx__vVV a b).l1 = den a.l1 + den b.l1 :=
  V4.tr_add_l1 _ a b (add4_mod a b 1)
theorem den_v4sub_l1 (a b : V4) : den (Gen.Avx2.sub_avx__vVV a b).l1 = den a.l1 - den b.l1 :=
  V4.tr_sub_l1 _ a b (sub4_mod a b 1)
theorem den_v4mul_l1 (a b : V4) : den (Gen.Avx2.mult_avx a b).l1 = den a.l1 * den b.l1 :=
  V4.tr_mul_l1 _ a b (mult_spec a b 1)
theorem den_v4add_l2 (a b : V4) : den (Gen.Avx2.add_avx__vVV a b).l2 = den a.l2 + den b.l2 :=
  V4.tr_add_l2 _ a b (add4_mod a b 2)
theorem den_v4sub_l2 (a b : V4) : den (Gen.Avx2.sub_avx__vVV a b).l2 = den a.l2 - den b.l2 :=
  V4.tr_sub_l2 _ a b (sub4_mod a b 2)
theorem den_v4mul_l2 (a b : V4) : den (Gen.Avx2.mult_avx a b).l2 = den a.l2 * den b.l2 :=
  V4.tr_mul_l2 _ a b (mult_spec a b 2)
theorem den_v4add_l3 (a b : V4) : den (Gen.Avx2.add_avx__vVV a b).l3 = den a.l3 + den b.l3 :=
  V4.tr_add_l3 _ a b (add4_mod a b 3)
theorem den_v4sub_l3 (a b : V4) : den (Gen.Avx2.sub_avx__vVV a b).l3 = den a.l3 - den b.l3 :=
  V4.tr_sub_l3 _ a b (sub4_mod a b 3)
theorem den_v4mul_l3 (a b : V4) : den (Gen.Avx2.mult_avx a b).l3 = den a.l3 * den b.l3 :=
  V4.tr_mul_l3 _ a b (mult_spec a b 3)
theorem V8.tr_add_l0 (r x y : V8) (h : (r.get 0).toNat % P = ((x.get 0).toNat + (y.get 0).toNat) % P) :
    den r.l0 = den x.l0 + den y.l0 := den_add_of _ _ _ h
theorem V8.tr_sub_l0 (r x y : V8) (h : ((r.get 0).toNat + (y.get 0).toNat) % P = (x.get 0).toNat % P) :
    den r.l0 = den x.l0 - den y.l0 := den_sub_of _ _ _ h
theorem V8.tr_mul_l0 (r x y : V8) (h : (r.get 0).toNat % P = ((x.get 0).toNat * (y.get 0).toNat) % P) :
    den r.l0 = den x.l0 * den y.l0 := den_mul_of _ _ _ h
theorem V8.tr_add_l1 (r x y : V8) (h : (r.get 1).toNat % P = ((x.get 1).toNat + (y.get 1).toNat) % P) :
    den r.l1 = den x.l1 + den y.l1 := den_add_of _ _ _ h
theorem V8.tr_sub_l1 (r x y : V8) (h : ((r.get 1).toNat + (y.get 1).toNat) % P = (x.get 1).toNat % P) :
    den r.l1 = den x.l1 - den y.l1 := den_sub_of _ _ _ h
theorem V8.tr_mul_l1 (r x y : V8) (h : (r.get 1).toNat % P = ((x.get 1).toNat * (y.get 1).toNat) % P) :
    den r.l1 = den x.l1 * den y.l1 := den_mul_of _ _ _ h
theorem V8.tr_add_l2 (r x y : V8) (h : (r.get 2).toNat % P = ((x.get 2).toNat + (y.get 2).toNat) % P) :
    den r.l2 = den x.l2 + den y.l2 := den_add_of _ _ _ h
theorem V8.tr_sub_l2 (r x y : V8) (h : ((r.get 2).toNat + (y.get 2).toNat) % P = (x.get 2).toNat % P) :
    den r.l2 = den x.l2 - den y.l2 := den_sub_of _ _ _ h
theorem V8.tr_mul_l2 (r x y : V8) (h : (r.get 2).toNat % P = ((x.get 2).toNat * (y.get 2).toNat) % P) :
    den r.l2 = den x.l2 * den y.l2 := den_mul_of _ _ _ h
theorem V8.tr_add_l3 (r x y : V8) (h : (r.get 3).toNat % P = ((x.get 3).toNat + (y.get 3).toNat) % P) :
    den r.l3 = den x.l3 + den y.l3 := den_add_of _ _ _ h
theorem V8.tr_sub_l3 (r x y : V8) (h : ((r.get 3).toNat + (y.get 3).toNat) % P = (x.get 3).toNat % P) :
    den r.l3 = den x.l3 - den y.l3 := den_sub_of _ _ _ h
theorem V8.tr_mul_l3 (r x y : V8) (h : (r.get 3).toNat % P = ((x.get 3).toNat * (y.get 3).toNat) % P) :
    den r.l3 = den x.l3 * den y.l3 := den_mul_of _ _ _ h
theorem V8.tr_add_l4 (r x y : V8) (h : (r.get 4).toNat % P = ((x.get 4).toNat + (y.get 4).toNat) % P) :
    den r.l4 = den x.l4 + den y.l4 := den_add_of _ _ _ h
theorem V8.tr_sub_l4 (r x y : V8) (h : ((r.get 4).toNat + (y.get 4).toNat) % P = (x.get 4).toNat % P) :
    den r.l4 = den x.l4 - den y.l4 := den_sub_of _ _ _ h
theorem V8.tr_mul_l4 (r x y : V8) (h : (r.get 4).toNat % P = ((x.get 4).toNat * (y.get 4).toNat) % P) :
    den r.l4 = den x.l4 * den y.l4 := den_mul_of _ _ _ h
theorem V8.tr_add_l5 (r x y : V8) (h : (r.get 5).toNat % P = ((x.get 5).toNat + (y.get 5).toNat) % P) :
    den r.l5 = den x.l5 + den y.l5 := den_add_of _ _ _ h
theorem V8.tr_sub_l5 (r x y : V8) (h : ((r.get 5).toNat + (y.get 5).toNat) % P = (x.get 5).toNat % P) :
    den r.l5 = den x.l5 - den y.l5 := den_sub_of _ _ _ h
theorem V8.tr_mul_l5 (r x y : V8) (h : (r.get 5).toNat % P = ((x.get 5).toNat * (y.get 5).toNat) % P) :
    den r.l5 = den x.l5 * den y.l5 := den_mul_of _ _ _ h
theorem V8.tr_add_l6 (r x y : V8) (h : (r.get 6).toNat % P = ((x.get 6).toNat + (y.get 6).toNat) % P) :
    den r.l6 = den x.l6 + den y.l6 := den_add_of _ _ _ h
theorem V8.tr_sub_l6 (r x y : V8) (h : ((r.get 6).toNat + (y.get 6).toNat) % P = (x.get 6).toNat % P) :
    den r.l6 = den x.l6 - den y.l6 := den_sub_of _ _ _ h
theorem V8.tr_mul_l6 (r x y : V8) (h : (r.get 6).toNat % P = ((x.get 6).toNat * (y.get 6).toNat) % P) :
    den r.l6 = den x.l6 * den y.l6 := den_mul_of _ _ _ h
theorem V8.tr_add_l7 (r x y : V8) (h : (r.get 7).toNat % P = ((x.get 7).toNat + (y.get 7).toNat) % P) :
    den r.l7 = den x.l7 + den y.l7 := den_add_of _ _ _ h
theorem V8.tr_sub_l7 (r x y : V8) (h : ((r.get 7).toNat + (y.get 7).toNat) % P = (x.get 7).toNat % P) :
    den r.l7 = den x.l7 - den y.l7 := den_sub_of _ _ _ h
theorem V8.tr_mul_l7 (r x y : V8) (h : (r.get 7).toNat % P = ((x.get 7).toNat * (y.get 7).toNat) % P) :
    den r.l7 = den x.l7 * den y.l7 := den_mul_of _ _ _ h
theorem den_v8add_l0 (a b : V8) : den (Gen.Avx512.add_avx512__wWW a b).l0 = den a.l0 + den b.l0 :=
  V8.tr_add_l0 _ a b (add512_spec a b 0)
theorem den_v8sub_l0 (a b : V8) : den (Gen.Avx512.sub_avx512__wWW a b).l0 = den a.l0 - den b.l0 :=
  V8.tr_sub_l0 _ a b (sub512_spec a b 0)
theorem den_v8mul_l0 (a b : V8) : den (Gen.Avx512.mult_avx512 a b).l0 = den a.l0 * den b.l0 :=
  V8.tr_mul_l0 _ a b (mult512_spec a b 0)
theorem den_v8add_l1 (a b : V8) : den (Gen.Avx512.add_avx512__wWW a b).l1 = den a.l1 + den b.l1 :=
  V8.tr_add_l1 _ a b (add512_spec a b 1)
theorem den_v8sub_l1 (a b : V8) : den (Gen.Avx512.sub_avx512__wWW a b).l1 = den a.l1 - den b.l1 :=
  V8.tr_sub_l1 _ a b (sub512_spec a b 1)
theorem den_v8mul_l1 (a b : V8) : den (Gen.Avx512.mult_avx512 a b).l1 = den a.l1 * den b.l1 :=
  V8.tr_mul_l1 _ a b (mult512_spec a b 1)
theorem den_v8add_l2 (a b : V8) : den (Gen.Avx512.add_avx512__wWW a b).l2 = den a.l2 + den b.l2 :=
  V8.tr_add_l2 _ a b (add512_spec a b 2)
theorem den_v8sub_l2 (a b : V8) : den (Gen.Avx512.sub_avx512__wWW a b).l2 = den a.l2 - den b.l2 :=
  V8.tr_sub_l2 _ a b (sub512_spec a b 2)
theorem den_v8mul_l2 (a b : V8) : den (Gen.Avx512.mult_avx512 a b).l2 = den a.l2 * den b.l2 :=
  V8.tr_mul_l2 _ a b (mult512_spec a b 2)
theorem den_v8add_l3 (a b : V8) : den (Gen.Avx512.add_avx512__wWW a b).l3 = den a.l3 + den b.l3 :=
  V8.tr_add_l3 _ a b (add512_spec a b 3)
theorem den_v8sub_l3 (a b : V8) : den (Gen.Avx512.sub_avx512__wWW a b).l3 = den a.l3 - den b.l3 :=
  V8.tr_sub_l3 _ a b (sub512_spec a b 3)
theorem den_v8mul_l3 (a b : V8) : den (Gen.Avx512.mult_avx512 a b).l3 = den a.l3 * den b.l3 :=
  V8.tr_mul_l3 _ a b (mult512_spec a b 3)
theorem den_v8add_l4 (a b : V8) : den (Gen.Avx512.add_avx512__wWW a b).l4 = den a.l4 + den b.l4 :=
  V8.tr_add_l4 _ a b (add512_spec a b 4)
theorem den_v8sub_l4 (a b : V8) : den (Gen.Avx512.sub_avx512__wWW a b).l4 = den a.l4 - den b.l4 :=
  V8.tr_sub_l4 _ a b (sub512_spec a b 4)
theorem den_v8mul_l4 (a b : V8) : den (Gen.Avx512.mult_avx512 a b).l4 = den a.l4 * den b.l4 :=
  V8.tr_mul_l4 _ a b (mult512_spec a b 4)
theorem den_v8add_l5 (a b : V8) : den (Gen.Avx512.add_avx512__wWW a b).l5 = den a.l5 + den b.l5 :=
  V8.tr_add_l5 _ a b (add512_spec a b 5)
theorem den_v8sub_l5 (a b : V8) : den (Gen.Avx512.sub_avx512__wWW a b).l5 = den a.l5 - den b.l5 :=
  V8.tr_sub_l5 _ a b (sub512_spec a b 5)
theorem den_v8mul_l5 (a b : V8) : den (Gen.Avx512.mult_avx512 a b).l5 = den a.l5 * den b.l5 :=
  V8.tr_mul_l5 _ a b (mult512_spec a b 5)
theorem den_v8add_l6 (a b : V8) : den (Gen.Avx512.add_avx512__wWW a b).l6 = den a.l6 + den b.l6 :=
  V8.tr_add_l6 _ a b (add512_spec a b 6)
theorem den_v8sub_l6 (a b : V8) : den (Gen.Avx512.sub_avx512__wWW a b).l6 = den a.l6 - den b.l6 :=
  V8.tr_sub_l6 _ a b (sub512_spec a b 6)
theorem den_v8mul_l6 (a b : V8) : den (Gen.Avx512.mult_avx512 a b).l6 = den a.l6 * den b.l6 :=
  V8.tr_mul_l6 _ a b (mult512_spec a b 6)
theorem den_v8add_l7 (a b : V8) : den (Gen.Avx512.add_avx512__wWW a b).l7 = den a.l7 + den b.l7 :=
  V8.tr_add_l7 _ a b (add512_spec a b 7)
theorem den_v8sub_l7 (a b : V8) : den (Gen.Avx512.sub_avx512__wWW a b).l7 = den a.l7 - den b.l7 :=
  V8.tr_sub_l7 _ a b (sub512_spec a b 7)
theorem den_v8mul_l7 (a b : V8) : den (Gen.Avx512.mult_avx512 a b).l7 = den a.l7 * den b.l7 :=
  V8.tr_mul_l7 _ a b (mult512_spec a b 7)

/-- aliased call patterns (`mult_avx(A_, A_, aux_)`, `sub_avx(c, c, F_)`, `add_avx(auxr_, auxr_, D_)`): same kernels -/
theorem mult_al_eq (c b : V4) : Gen.ExtWrap.mult_avx_al_c_a c b = Gen.Avx2.mult_avx c b := by
  simp only [Gen.ExtWrap.mult_avx_al_c_a, Gen.Avx2.mult_avx]
theorem sub_al_eq (c b : V4) : Gen.ExtWrap.sub_avx__vVV_al_c_a c b = Gen.Avx2.sub_avx__vVV c b := by
  simp only [Gen.ExtWrap.sub_avx__vVV_al_c_a, Gen.Avx2.sub_avx__vVV]
theorem add_al_eq' (c b : V4) : Gen.PosAvx2.add_avx__vVV_al_c_a c b = Gen.Avx2.add_avx__vVV c b := by
  simp only [Gen.PosAvx2.add_avx__vVV_al_c_a, Gen.Avx2.add_avx__vVV]
theorem mult512_al_eq (c b : V8) : Gen.ExtWrap.mult_avx512_al_c_a c b = Gen.Avx512.mult_avx512 c b := by
  simp only [Gen.ExtWrap.mult_avx512_al_c_a, Gen.Avx512.mult_avx512]
theorem sub512_al_eq (c b : V8) : Gen.ExtWrap.sub_avx512__wWW_al_c_a c b = Gen.Avx512.sub_avx512__wWW c b := by
  simp only [Gen.ExtWrap.sub_avx512__wWW_al_c_a, Gen.Avx512.sub_avx512__wWW]
theorem add512_al_eq' (c b : V8) : Gen.PosAvx512.add_avx512__wWW_al_c_a c b = Gen.Avx512.add_avx512__wWW c b := by
  simp only [Gen.PosAvx512.add_avx512__wWW_al_c_a, Gen.Avx512.add_avx512__wWW]

/-! ### (4) normalisation of the gather / scatter code -/

theorem Region.unshift_set (r s : Region) (k i : Nat) (v : BitVec 64) :
    Region.unshift r k (Region.set s i v) = Region.set (Region.unshift r k s) (k + i) v := by
  apply Region.ext'; intro j
  simp only [Region.unshift_apply, Region.set_apply]
  by_cases h : k ≤ j
  · simp only [h, if_true]
    by_cases e : j - k = i
    · have : j = k + i := by omega
      simp [e, this]
    · have : j ≠ k + i := by omega
      simp [e, this]
  · have : j ≠ k + i := by omega
    simp [h, this]

theorem Region.unshift_shift (r : Region) (k : Nat) : Region.unshift r k (Region.shift r k) = r := by
  apply Region.ext'; intro j
  simp only [Region.unshift_apply, Region.shift_apply]
  by_cases h : k ≤ j
  · simp only [h, if_true]; congr 1; omega
  · simp [h]

/-- `s * k` with a literal `k` (the C++ writes both `k * stride` and `stride * k`) -/
theorem BitVec.mul_lit_comm (s : BitVec 64) (n : Nat) : s * BitVec.ofNat 64 n = BitVec.ofNat 64 n * s := BitVec.mul_comm _ _

theorem V4.getN_mk (a b c d : BitVec 64) :
    (V4.mk a b c d).getN 0 = a ∧ (V4.mk a b c d).getN 1 = b ∧ (V4.mk a b c d).getN 2 = c ∧ (V4.mk a b c d).getN 3 = d :=
  ⟨rfl, rfl, rfl, rfl⟩
theorem V4.getN_lit (v : V4) : v.getN 0 = v.l0 ∧ v.getN 1 = v.l1 ∧ v.getN 2 = v.l2 ∧ v.getN 3 = v.l3 := ⟨rfl, rfl, rfl, rfl⟩
theorem V8.getN_lit (v : V8) : v.getN 0 = v.l0 ∧ v.getN 1 = v.l1 ∧ v.getN 2 = v.l2 ∧ v.getN 3 = v.l3 ∧
    v.getN 4 = v.l4 ∧ v.getN 5 = v.l5 ∧ v.getN 6 = v.l6 ∧ v.getN 7 = v.l7 := ⟨rfl, rfl, rfl, rfl, rfl, rfl, rfl, rfl⟩

theorem den_neg_r' (a : BitVec 64) : den (Gen.Scalar.neg__rE a) = - den a := den_neg_r a
theorem den_zero_r' : den Gen.Scalar.zero__r = 0 := den_zero_r

end GoldilocksVerif
