/-
  IN-BOUNDS ACCESSES of the generated heap model: the verification-condition generator.

  `Heap.get` outside a block returns 0 and `Heap.set` outside is dropped (Model/TrHeap.lean): an overrun of the C++ code
  is INVISIBLE in the values the generated model computes.  It is made visible here: the command

      derive_safe f

  reads the DEFINITION of the generated function `f` (Gen/NttGen.lean, re-translated from the C++ source on every run) and
  defines the proposition `f.Safe : (the parameters of f) → Prop` = "every memory operation `f` performs on these
  arguments is within the extent of its block", by recursion over the body:

    Heap.get h p i, Heap.set h p i v   ↦  Heap.InB h p i        (p.off + i < ext of the block)
    Heap.copy h d s n  (memcpy)        ↦  Heap.CopyOK h d s n   (both ranges inside their blocks, and disjoint)
    Heap.zero h d n    (memset)        ↦  Heap.RangeOK h d n
    Heap.free h p                      ↦  Heap.FreeOK h p       (NULL, or the start of a live block)
    let x := v; b                      ↦  VC(v) ∧ (let x := v; VC(b))
    if c then a else b                 ↦  VC(c) ∧ (c → VC(a)) ∧ (¬c → VC(b))
    x.bind (fun y => b)                ↦  VC(x) ∧ ∀ y, x = some y → VC(b)         (b runs only when x returned y)
    Loop.rangeM lo hi 1 s0 body        ↦  ∀ i s, lo ≤ i < hi → (the loop reaches iteration i in state s) → VC(body i s)
    Loop.whileM step fuel s0           ↦  ∀ s reachable from s0 by iterations of step → VC(step s)
    let (a, b) := d; body              ↦  VC(d) ∧ (let t := d; VC(body t.1 t.2))
    g a₁ … aₙ  (g has a .Safe)         ↦  VC(aᵢ) ∧ g.Safe a₁ … aₙ
    any other application              ↦  ∧ VC(aᵢ)
  where the heap a condition speaks about is the heap VALUE at that program point (the model threads the heap as a
  value, so "the state when this access happens" is a term).  Anything else that contains a memory operation (a lambda
  in an unexpected position, a partial application, a generated function without `.Safe`) is an ERROR of the command, so
  a construct the generator does not understand cannot silently drop an access.

  The predicate changes when the source changes; the theorems `C18_generated_inbounds_*` are about these predicates.
-/
import Lean
import GoldilocksVerif.Lemmas.HeapSafeTac

namespace GoldilocksVerif

namespace Heap
/-- `p[i]` is a word of the block `p` points into -/
def InB (h : Heap) (p : Ptr) (i : Nat) : Prop := p.off + i < h.ext p.blk
/-- the `n` words from `p` are inside the block -/
def RangeOK (h : Heap) (p : Ptr) (n : Nat) : Prop := p.off + n ≤ h.ext p.blk
/-- `memcpy(d, s, n words)`: both ranges inside their blocks, and they do not overlap -/
def CopyOK (h : Heap) (d s : Ptr) (n : Nat) : Prop :=
  RangeOK h d n ∧ RangeOK h s n ∧ (n = 0 ∨ d.blk ≠ s.blk ∨ d.off + n ≤ s.off ∨ s.off + n ≤ d.off)
/-- `free(p)` / `delete[] p` / end of scope: NULL, or the start of a live block -/
def FreeOK (h : Heap) (p : Ptr) : Prop := p = Ptr.null ∨ (p.off = 0 ∧ 0 < h.ext p.blk)
end Heap

namespace Loop
/-- `S i s` for every iteration `i` the counted loop reaches, `s` the state it reaches it in -/
def RangeAll {σ : Type} (lo hi : Nat) (init : σ) (f : Nat → σ → Option σ) (S : Nat → σ → Prop) : Prop :=
  ∀ i st, lo ≤ i → i < hi → rangeM lo i 1 init f = some st → S i st

/-- the states in which the condition / body of a `while` loop is evaluated -/
inductive Reach {σ : Type} (step : σ → Option (Bool × σ)) (init : σ) : σ → Prop where
  | init : Reach step init init
  | next {s s' : σ} : Reach step init s → step s = some (true, s') → Reach step init s'

def WhileAll {σ : Type} (step : σ → Option (Bool × σ)) (init : σ) (S : σ → Prop) : Prop :=
  ∀ st, Reach step init st → S st
end Loop

namespace SafeGen
open Lean Meta Elab Command

def heapOps : List Name := [``Heap.get, ``Heap.set, ``Heap.copy, ``Heap.zero, ``Heap.free]

def mentionsHeap (e : Expr) : Bool := (e.find? fun t => t.isConstOf ``Heap).isSome

/-- a constant that must be looked at: a memory operation, a function with a `.Safe`, or a function of the module being
    processed (name prefix `pfx`) that takes or returns a heap -/
def relevantConst (env : Environment) (pfx : Name) (n : Name) : Bool :=
  heapOps.contains n || env.contains (n ++ `Safe) ||
    (n.getPrefix == pfx && match env.find? n with
      | some ci => mentionsHeap ci.type
      | none => false)

def relevant (env : Environment) (pfx : Name) (e : Expr) : Bool :=
  (e.find? fun t => match t with
    | .const n _ => relevantConst env pfx n
    | _ => false).isSome

def mkAnd' (a b : Expr) : Expr :=
  if a.isConstOf ``True then b else if b.isConstOf ``True then a else mkAnd a b

def isTrue' (a : Expr) : Bool := a.isConstOf ``True

partial def vc (pfx : Name) (e : Expr) : MetaM Expr := do
  let e := e.consumeMData
  let env ← getEnv
  unless relevant env pfx e do return mkConst ``True
  let vcArgs (args : Array Expr) : MetaM Expr :=
    args.foldlM (fun acc a => do return mkAnd' acc (← vc pfx a)) (mkConst ``True)
  match e with
  | .letE n t v b _ =>
    let cv ← vc pfx v
    withLetDecl n t v fun x => do
      let cb ← vc pfx (b.instantiate1 x)
      return mkAnd' cv (← mkLetFVars #[x] cb)
  | .proj _ _ s => vc pfx s
  | .lam .. => throwError "derive_safe: a function value that contains a memory operation in a position without a rule:{indentExpr e}"
  | .app .. =>
    let f := e.getAppFn
    let args := e.getAppArgs
    let some n := f.constName? | vcArgs (#[f] ++ args)
    if n == ``ite && args.size == 5 then
      let c := args[1]!
      let cc ← vc pfx c
      let ca ← vc pfx args[3]!
      let cb ← vc pfx args[4]!
      let pa ← if isTrue' ca then pure ca else mkArrow c ca
      let pb ← if isTrue' cb then pure cb else mkArrow (mkNot c) cb
      return mkAnd' cc (mkAnd' pa pb)
    else if n == ``Option.bind && args.size == 4 then
      let x := args[2]!
      let cx ← vc pfx x
      let cf ← withLocalDeclD `y args[0]! fun y => do
        let cb ← vc pfx (mkApp args[3]! y).headBeta
        if isTrue' cb then return cb
        let eq ← mkEq x (← mkAppM ``Option.some #[y])
        mkForallFVars #[y] (← mkArrow eq cb)
      return mkAnd' cx cf
    else if n == ``Loop.rangeM && args.size == 6 then
      let σ := args[0]!
      unless args[3]!.nat? == some 1 || args[3]!.rawNatLit? == some 1 do
        throwError "derive_safe: counted loop with a step other than 1:{indentExpr e}"
      let c0 ← vcArgs #[args[1]!, args[2]!, args[4]!]
      let S ← withLocalDeclD `i (mkConst ``Nat) fun i => withLocalDeclD `st σ fun st => do
        let cb ← vc pfx (mkApp2 args[5]! i st).headBeta
        mkLambdaFVars #[i, st] cb
      if isTrue' S.getLambdaBody then return c0   -- hmm: body `True` under binders
      return mkAnd' c0 (← mkAppM ``Loop.RangeAll #[args[1]!, args[2]!, args[4]!, args[5]!, S])
    else if n == ``Loop.whileM && args.size == 4 then
      let σ := args[0]!
      let c0 ← vcArgs #[args[2]!, args[3]!]
      let S ← withLocalDeclD `st σ fun st => do
        let cb ← vc pfx (mkApp args[1]! st).headBeta
        mkLambdaFVars #[st] cb
      if isTrue' S.getLambdaBody then return c0
      return mkAnd' c0 (← mkAppM ``Loop.WhileAll #[args[1]!, args[3]!, S])
    else if heapOps.contains n then
      let ca ← vcArgs args
      let site ←
        if n == ``Heap.get && args.size == 3 then mkAppM ``Heap.InB #[args[0]!, args[1]!, args[2]!]
        else if n == ``Heap.set && args.size == 4 then mkAppM ``Heap.InB #[args[0]!, args[1]!, args[2]!]
        else if n == ``Heap.copy && args.size == 4 then mkAppM ``Heap.CopyOK args
        else if n == ``Heap.zero && args.size == 3 then mkAppM ``Heap.RangeOK args
        else if n == ``Heap.free && args.size == 2 then mkAppM ``Heap.FreeOK args
        else throwError "derive_safe: partially applied memory operation:{indentExpr e}"
      return mkAnd' ca site
    else if let some app ← matchMatcherApp? e then
      unless app.discrs.size == 1 && app.alts.size == 1 && app.remaining.isEmpty do
        throwError "derive_safe: `match` other than a tuple pattern:{indentExpr e}"
      let d := app.discrs[0]!
      let cd ← vc pfx d
      withLetDecl `t (← inferType d) d fun x => do
        let cs ← tupleComps app.altNumParams[0]! x
        let cb ← vc pfx (app.alts[0]!.beta cs.toArray).headBeta
        return mkAnd' cd (← mkLetFVars #[x] cb)
    else if env.contains (n ++ `Safe) then
      let ca ← vcArgs args
      let arity := (← getConstInfo (n ++ `Safe)).type.getForallBinderNames.length
      unless args.size == arity do
        throwError "derive_safe: `{n}` is applied to {args.size} of {arity} arguments:{indentExpr e}"
      return mkAnd' ca (mkAppN (mkConst (n ++ `Safe)) args)
    else if n.getPrefix == pfx && relevantConst env pfx n then
      throwError "derive_safe: `{n}` works on the heap and has no `.Safe` yet (derive_safe {n} first)"
    else
      vcArgs args
  | _ => return mkConst ``True

/-- `derive_safe f`: define `f.Safe` from the definition of `f` -/
elab "derive_safe " id:ident : command => liftTermElabM do
  let n ← realizeGlobalConstNoOverloadWithInfo id
  let info ← getConstInfo n
  let some v := info.value? | throwError "derive_safe: `{n}` has no definition"
  let val ← lambdaTelescope v fun xs body => do
    let c ← vc n.getPrefix body
    mkLambdaFVars xs c
  let val ← instantiateMVars val
  let type ← inferType val
  addDecl (.defnDecl { name := n ++ `Safe, levelParams := info.levelParams, type := type, value := val,
                       hints := .regular 0, safety := .safe })

end SafeGen
end GoldilocksVerif
