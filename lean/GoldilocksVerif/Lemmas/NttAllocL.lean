/-
  Lemmas about the allocation traces of Model/NttAlloc.lean (helpers for Props/C18.lean).  Core-only.
-/
import GoldilocksVerif.Model.NttAlloc

namespace GoldilocksVerif.NttAlloc

theorem run_append (h : Heap × Nat) (a b : List Ev) :
    run h (a ++ b) = (run h a).bind (fun h' => run h' b) := by
  induction a generalizing h with
  | nil => rfl
  | cons e es ih =>
    simp only [List.cons_append, run]
    cases step h e with
    | none => rfl
    | some h' => exact ih h'

theorem run_append_some (h h' : Heap × Nat) (a b : List Ev) (ha : run h a = some h') :
    run h (a ++ b) = run h' b := by
  rw [run_append, ha]; rfl

/-- NTT / INTT leave the heap exactly as they found it, for every shape, with or without a caller buffer -/
theorem run_ntt (H : Heap) (c size ncols nblock : Nat) (buf : Bool) :
    run (H, c) (nttEv c size ncols nblock buf).1 = some (H, (nttEv c size ncols nblock buf).2) := by
  unfold nttEv
  by_cases h0 : size = 0 ∨ ncols = 0
  · rw [if_pos h0]; rfl
  · rw [if_neg h0]
    simp only
    cases buf <;>
      cases hd : decide ((if nblock < 1 then 1 else if nblock > ncols then ncols else nblock) > 1) <;>
      simp [run, step]

theorem run_extMid (H : Heap) (c nExt n ncols nblock : Nat) :
    run (H, c) (extMid c nExt n ncols nblock).1 = some (H, (extMid c nExt n ncols nblock).2) := by
  unfold extMid
  simp only
  rw [run_append_some _ _ _ _ (run_ntt H c n ncols nblock true)]
  exact run_ntt H _ nExt ncols nblock true

/-- the cache blocks / the table blocks an object owns between two calls, newest first -/
def cacheL : Option (Nat × Nat × Nat) → Heap
  | some (_, r, r') => [(r', Kind.newArr), (r, Kind.newArr)]
  | none => []
def tablesL : Option (Nat × Nat) → Heap
  | some (a, b) => [(b, Kind.malloc), (a, Kind.malloc)]
  | none => []

/-- the cache ids are consecutive (r_ is allocated right after r) -/
def CacheOk : Option (Nat × Nat × Nat) → Prop
  | some (_, r, r') => r' = r + 1
  | none => True
def TablesOk : Option (Nat × Nat) → Prop
  | some (a, b) => b = a + 1
  | none => True

theorem ctor_tablesOk (c m : Nat) : TablesOk (ctor c m).2.2 := by
  unfold ctor; split <;> simp [TablesOk]

theorem run_ctor (H : Heap) (c m : Nat) :
    run (H, c) (ctor c m).1 = some (tablesL (ctor c m).2.2 ++ H, (ctor c m).2.1) := by
  unfold ctor; split <;> simp [run, step, tablesL]

theorem run_dtor (T : Heap) (t : Option (Nat × Nat)) (ch : Option (Nat × Nat × Nat)) (c : Nat) (hc : CacheOk ch)
    (ht : TablesOk t) : run (cacheL ch ++ tablesL t ++ T, c) (dtor t ch) = some (T, c) := by
  cases t with
  | none =>
    cases ch with
    | none => rfl
    | some x =>
      obtain ⟨n, r, r'⟩ := x
      have : r' = r + 1 := hc
      subst this
      simp [cacheL, tablesL, dtor, run, step]
  | some y =>
    obtain ⟨a, b⟩ := y
    have hb : b = a + 1 := ht
    subst hb
    cases ch with
    | none => simp [cacheL, tablesL, dtor, run, step]
    | some x =>
      obtain ⟨n, r, r'⟩ := x
      have : r' = r + 1 := hc
      subst this
      simp [cacheL, tablesL, dtor, run, step]

/-- blocks `extPre` leaves on top of the object's own tables: new cache, temporary, local tables (newest first) -/
def tmpL : Option Nat → Heap
  | some t => [(t, Kind.malloc)]
  | none => []

theorem run_extPre (T : Heap) (ch : Option (Nat × Nat × Nat)) (c nExt n ncols : Nat) (buf : Bool) (hc : CacheOk ch) :
    (run (cacheL ch ++ T, c) (extPre c ch nExt n ncols buf).1 =
        some (if (extPre c ch nExt n ncols buf).2.2.2.2 = ch
              then tmpL (extPre c ch nExt n ncols buf).2.2.2.1 ++ tablesL (extPre c ch nExt n ncols buf).2.2.1 ++ (cacheL ch ++ T)
              else cacheL (extPre c ch nExt n ncols buf).2.2.2.2 ++
                    (tmpL (extPre c ch nExt n ncols buf).2.2.2.1 ++ tablesL (extPre c ch nExt n ncols buf).2.2.1 ++ T),
              (extPre c ch nExt n ncols buf).2.1)) ∧
    CacheOk (extPre c ch nExt n ncols buf).2.2.2.2 ∧ TablesOk (extPre c ch nExt n ncols buf).2.2.1 := by
  by_cases hx : nExt = 0
  · cases buf <;> cases ch with
    | none => simp [extPre, ctor, hx, run, step, cacheL, tablesL, tmpL, CacheOk, TablesOk]
    | some x =>
      obtain ⟨n', r, r'⟩ := x
      have : r' = r + 1 := hc
      subst this
      by_cases hn : n' = n
      · simp [extPre, ctor, hx, hn, run, step, cacheL, tablesL, tmpL, CacheOk, TablesOk]
      · simp [extPre, ctor, hx, hn, run, step, cacheL, tablesL, tmpL, CacheOk, TablesOk]
        all_goals (intro h; exact absurd h.symm hn)
  · cases buf <;> cases ch with
    | none => simp [extPre, ctor, hx, run, step, cacheL, tablesL, tmpL, CacheOk, TablesOk]
    | some x =>
      obtain ⟨n', r, r'⟩ := x
      have : r' = r + 1 := hc
      subst this
      by_cases hn : n' = n
      · simp [extPre, ctor, hx, hn, run, step, cacheL, tablesL, tmpL, CacheOk, TablesOk]
      · simp [extPre, ctor, hx, hn, run, step, cacheL, tablesL, tmpL, CacheOk, TablesOk]
        all_goals (intro h; exact absurd h.symm hn)

theorem run_extPost (T : Heap) (ch : Option (Nat × Nat × Nat)) (t1 : Option (Nat × Nat)) (tmp : Option Nat) (c : Nat)
    (ht : TablesOk t1) :
    run (cacheL ch ++ (tmpL tmp ++ tablesL t1 ++ T), c) (extPost t1 tmp) = some (cacheL ch ++ T, c) := by
  cases ch with
  | none =>
    cases tmp <;> cases t1 with
    | none => simp [extPost, dtor, run, step, cacheL, tablesL, tmpL]
    | some y =>
      obtain ⟨a, b⟩ := y
      have hb : b = a + 1 := ht
      subst hb
      simp [extPost, dtor, run, step, cacheL, tablesL, tmpL]
  | some x =>
    obtain ⟨n, r, r'⟩ := x
    cases tmp <;> cases t1 with
    | none => simp [extPost, dtor, run, step, cacheL, tablesL, tmpL]
    | some y =>
      obtain ⟨a, b⟩ := y
      have hb : b = a + 1 := ht
      subst hb
      simp [extPost, dtor, run, step, cacheL, tablesL, tmpL]

/-- extendPol: everything it allocates is released again, except the (possibly replaced) r / r_ cache -/
theorem run_extend (T : Heap) (ch : Option (Nat × Nat × Nat)) (c nExt n ncols nblock : Nat) (buf : Bool) (hc : CacheOk ch) :
    run (cacheL ch ++ T, c) (extendEv c ch nExt n ncols nblock buf).1 =
      some (cacheL (extendEv c ch nExt n ncols nblock buf).2.2 ++ T, (extendEv c ch nExt n ncols nblock buf).2.1) ∧
    CacheOk (extendEv c ch nExt n ncols nblock buf).2.2 := by
  obtain ⟨h1, h2, h3⟩ := run_extPre T ch c nExt n ncols buf hc
  unfold extendEv
  simp only
  refine ⟨?_, h2⟩
  rw [List.append_assoc, run_append_some _ _ _ _ h1]
  by_cases he : (extPre c ch nExt n ncols buf).2.2.2.2 = ch
  · rw [if_pos he, run_append_some _ _ _ _ (run_extMid _ _ _ _ _ _)]
    have := run_extPost (cacheL ch ++ T) none (extPre c ch nExt n ncols buf).2.2.1 (extPre c ch nExt n ncols buf).2.2.2.1
      (extMid (extPre c ch nExt n ncols buf).2.1 nExt n ncols nblock).2 h3
    rw [he]
    exact this
  · rw [if_neg he, run_append_some _ _ _ _ (run_extMid _ _ _ _ _ _)]
    exact run_extPost T _ _ _ _ h3

/-- the invariant between two calls: the heap holds exactly the object's cache and tables -/
theorem run_call (T : Heap) (s : St) (cl : Call) (hc : CacheOk s.cache) :
    run (cacheL s.cache ++ T, s.next) (callEv s cl).1 = some (cacheL (callEv s cl).2.cache ++ T, (callEv s cl).2.next) ∧
    CacheOk (callEv s cl).2.cache ∧ (callEv s cl).2.tables = s.tables := by
  cases cl with
  | ntt size ncols nblock buf =>
    simp only [callEv]
    exact ⟨run_ntt _ _ _ _ _ _, hc, trivial⟩
  | extendPol nExt n ncols nblock buf =>
    simp only [callEv]
    obtain ⟨h1, h2⟩ := run_extend T s.cache s.next nExt n ncols nblock buf hc
    exact ⟨h1, h2, trivial⟩

theorem run_calls (T : Heap) : ∀ (cs : List Call) (s : St), CacheOk s.cache →
    run (cacheL s.cache ++ T, s.next) (callsEv s cs).1 = some (cacheL (callsEv s cs).2.cache ++ T, (callsEv s cs).2.next) ∧
    CacheOk (callsEv s cs).2.cache ∧ (callsEv s cs).2.tables = s.tables := by
  intro cs
  induction cs with
  | nil => intro s hc; exact ⟨rfl, hc, rfl⟩
  | cons cl rest ih =>
    intro s hc
    obtain ⟨h1, h2, h3⟩ := run_call T s cl hc
    obtain ⟨g1, g2, g3⟩ := ih (callEv s cl).2 h2
    simp only [callsEv]
    refine ⟨?_, g2, g3.trans h3⟩
    rw [run_append_some _ _ _ _ h1]
    exact g1

end GoldilocksVerif.NttAlloc
