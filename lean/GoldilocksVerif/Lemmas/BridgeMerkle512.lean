/-
  Bridge: the TRANSLATED AVX512 Merkle builders `merkletree_avx512`, `merkletree_batch_avx512` and the two default wrappers
  `merkletree`, `merkletree_batch` (Gen/MerkleGen.lean, regenerated from poseidon_goldilocks.cpp on every run).

  The AVX512 builders hash TWO rows per iteration of the leaf loop (`for (i = 0; i < num_rows; i += 2)`) through
  `linear_hash_avx512`, which writes the two digests side by side (8 words at tree + 4·i); an odd last row (for rows = 2^k
  only rows = 1) goes through the one-state `linear_hash`.  The level loop is the AVX2 one (`hash`), i.e. `mtLevelG`.

  Shape of the argument
    * `mt512_generic`, `mtb512_generic`, `mt_default_generic`, `mtb_default_generic`: the generated builders EQUAL the
      reference texts `mt512GenG LH2 LH1 H`, `mtb512GenG LH2 LH1 H` instantiated with the translated hashes they call
      (extensionally, `gen_equiv` of Lemmas/BridgeEquiv.lean: e.g. the leaf loop may test `i + 1 >= num_rows` first);
      the wrappers call the AVX512 builders.
    * `PairHash LH2 leaf2`: what Lemmas/BridgeSponge.lean (`lh512GenG_spec`) proves about the translated `linear_hash_avx512`:
      8 output words = `leaf2 (the 2·size input words) size`, nothing else written.
    * `mt512GenG_spec`: for rows = 2^k: the first 4·(2·rows − 1) tree words are `treeOfLeaves node rows (leaves512 ..)`,
      where `leaves512` = the pair digests `leaf2 (row_2m ++ row_2m+1)` in order (for rows = 1: `leaf1 row_0`).
    * `leaves512_rows`: if `leaf2 (a ++ b) |a| = leaf1 a ++ leaf1 b` for equally long a, b (C07_avx512: follows from the
      interleaving property of the two-state permutation), `leaves512` are the row digests, so the buffer is
      `Model.merkleTree leaf1 node rows`.
-/
import GoldilocksVerif.Lemmas.BridgeMerkleBatch
import GoldilocksVerif.Lemmas.BridgeMerkleAvx
set_option linter.unusedVariables false
set_option linter.unusedSimpArgs false

namespace GoldilocksVerif
open Model Gen.MerkleGen

/-! ### counted loops with step 2 -/

theorem rangeMAux_reindex {σ : Type} (step : Nat) (f : Nat → σ → Option σ) :
    ∀ (n m : Nat) (s : σ), Loop.rangeMAux step f n (step * m) s = Loop.rangeMAux 1 (fun m => f (step * m)) n m s := by
  intro n
  induction n with
  | zero => intro m s; rfl
  | succ n ih =>
    intro m s
    rw [Loop.rangeMAux_succ, Loop.rangeMAux_succ]
    cases h : f (step * m) s with
    | none => rfl
    | some s' =>
      simp only [Option.bind_some]
      have e : step * m + step = step * (m + 1) := (Nat.mul_succ step m).symm
      rw [e, ih (m + 1) s']

theorem rangeM_zero_two {σ : Type} (R : Nat) (s : σ) (f : Nat → σ → Option σ) :
    Loop.rangeM 0 R 2 s f = Loop.rangeMAux 1 (fun m => f (2 * m)) ((R + 1) / 2) 0 s := by
  unfold Loop.rangeM
  have e : (R - 0 + 2 - 1) / 2 = (R + 1) / 2 := by simp
  rw [e]
  exact rangeMAux_reindex 2 f ((R + 1) / 2) 0 s

/-! ### the model of the leaf level -/

/-- leaves followed by the levels above them (`Model.merkleTree` with the leaf level given) -/
def treeOfLeaves (node : List Wd → List Wd) (n : Nat) (leaves : List Wd) : List Wd :=
  leaves ++ upperLevels node n n leaves

theorem merkleTree_eq_treeOfLeaves (leaf node : List Wd → List Wd) (input : Region) (w R : Nat) :
    merkleTree leaf node (rowsOf input w R) =
      treeOfLeaves node R ((List.range R).flatMap (fun i => leaf (rowOf input w i))) :=
  merkleTree_rowsOf leaf node input w R

/-- the leaf level of the AVX512 builders for 2^k rows of w words: pair digests (`leaf2` of two consecutive rows, 8 words),
    for one row its one-state digest -/
def leaves512 (leaf1 : List Wd → List Wd) (leaf2 : List Wd → Nat → List Wd) (input : Region) (w k : Nat) : List Wd :=
  if k = 0 then leaf1 (rowOf input w 0)
  else (List.range (2 ^ (k - 1))).flatMap (fun m => leaf2 (rowOf input w (2 * m) ++ rowOf input w (2 * m + 1)) w)

theorem flatMap_pairs (g : Nat → List Wd) : ∀ n,
    (List.range n).flatMap (fun m => g (2 * m) ++ g (2 * m + 1)) = (List.range (2 * n)).flatMap g := by
  intro n
  induction n with
  | zero => rfl
  | succ n ih =>
    have e : 2 * (n + 1) = 2 * n + 1 + 1 := by omega
    rw [List.range_succ, List.flatMap_append, ih, e, List.range_succ, List.range_succ, List.flatMap_append,
      List.flatMap_append, List.append_assoc]
    simp

/-- with the two-at-a-time hash being two one-at-a-time hashes, the AVX512 leaf level is the level of row digests -/
theorem leaves512_rows (leaf1 : List Wd → List Wd) (leaf2 : List Wd → Nat → List Wd)
    (hpair : ∀ a b : List Wd, a.length = b.length → leaf2 (a ++ b) a.length = leaf1 a ++ leaf1 b)
    (input : Region) (w k : Nat) :
    leaves512 leaf1 leaf2 input w k = (List.range (2 ^ k)).flatMap (fun i => leaf1 (rowOf input w i)) := by
  unfold leaves512
  cases k with
  | zero => simp
  | succ k =>
    have h2 : (2 : Nat) ^ (k + 1) = 2 * 2 ^ k := by rw [Nat.pow_succ]; omega
    rw [if_neg (by omega), h2, ← flatMap_pairs, Nat.add_sub_cancel]
    congr 1
    funext m
    have hl : (rowOf input w (2 * m)).length = (rowOf input w (2 * m + 1)).length := by
      unfold rowOf; rw [Region.length_toList, Region.length_toList]
    have := hpair _ _ hl
    have hw : (rowOf input w (2 * m)).length = w := by unfold rowOf; rw [Region.length_toList]
    rw [hw] at this
    exact this

/-- two consecutive rows are the 2·w words from the first one -/
theorem two_rows (input : Region) (w m : Nat) :
    Region.toList (Region.shift input (2 * m * w)) (2 * w) = rowOf input w (2 * m) ++ rowOf input w (2 * m + 1) := by
  unfold rowOf
  have e : 2 * m * w + w = (2 * m + 1) * w := (Nat.succ_mul _ _).symm
  rw [toList_two_inputs, shift_shift, e]

/-! ### `merkletree_avx512` -/

/-- what the sponge bridge provides for `linear_hash_avx512` -/
def PairHash (LH2 : Nat → Region → Region → BitVec 64 → Option Region) (leaf2 : List Wd → Nat → List Wd) : Prop :=
  ∀ (fuel : Nat) (out inp : Region) (size : BitVec 64), size.toNat < fuel →
    ∃ out', LH2 fuel out inp size = some out' ∧ Region.toList out' 8 = leaf2 (Region.toList inp (2 * size.toNat)) size.toNat ∧
      ∀ k, 8 ≤ k → out' k = out k

def mt512LeafG (LH2 LH1 : Nat → Region → Region → BitVec 64 → Option Region) (fuel : Nat) (input : Region)
    (num_cols num_rows dim : BitVec 64) (i : Nat) (st__ : Region) : Option Region :=
  let tree := st__
  (if (decide ((BitVec.ofNat 64 (i + 1)) < num_rows)) then
      (LH2 fuel (Region.shift tree (4 * i)) (Region.shift input ((((BitVec.ofNat 64 i) * num_cols) * dim)).toNat) (num_cols * dim)).bind fun r_1 =>
      let tree := (Region.unshift tree (4 * i) r_1)
      some tree
    else
      (LH1 fuel (Region.shift tree (4 * i)) (Region.shift input ((((BitVec.ofNat 64 i) * num_cols) * dim)).toNat) (num_cols * dim)).bind fun r_2 =>
      let tree := (Region.unshift tree (4 * i) r_2)
      some tree
    ).bind fun j_3 =>
  let tree := j_3
  some tree

def mt512GenG (LH2 LH1 : Nat → Region → Region → BitVec 64 → Option Region) (H : Region → Region → Region) (fuel : Nat)
    (tree input : Region) (num_cols num_rows : BitVec 64) (dim : BitVec 64) : Option Region :=
  if (num_rows == 0#64) then
    some tree
  else
    mtTailG H fuel (Loop.rangeM 0 (num_rows).toNat 2 tree (mt512LeafG LH2 LH1 fuel input num_cols num_rows dim)) num_rows

theorem mt512_generic (fuel : Nat) (tree input : Region) (num_cols num_rows : BitVec 64) (nThreads : Int) (dim : BitVec 64) :
    Pos_merkletree_avx512 fuel tree input num_cols num_rows nThreads dim =
      mt512GenG Gen.LinearHashGen.Pos_linear_hash_avx512 Gen.LinearHashGen.Pos_linear_hash Gen.PosAvx2.Pos_hash
        fuel tree input num_cols num_rows dim := by
  delta mt512GenG mtTailG mt512LeafG mtLevelG mtNodeG
  delta_prefix "Gen.MerkleGen."
  gen_equiv

/-- the condition `i + 1 < num_rows` of the leaf loop, for i = 2·m -/
theorem pair_cond (num_rows : BitVec 64) (R m : Nat) (hR : num_rows.toNat = R) (hlt : 2 * m + 1 < 2 ^ 64) :
    (decide ((BitVec.ofNat 64 (2 * m + 1)) < num_rows)) = decide (2 * m + 1 < R) := by
  by_cases h : 2 * m + 1 < R
  · rw [decide_eq_true h, decide_eq_true_iff, BitVec.lt_def, ofNat_toNat_lt _ hlt, hR]
    exact h
  · rw [decide_eq_false h, decide_eq_false_iff_not, BitVec.lt_def, ofNat_toNat_lt _ hlt, hR]
    exact h

/-- the leaf loop of `merkletree_avx512` -/
theorem mt512_leaves (LH2 LH1 : Nat → Region → Region → BitVec 64 → Option Region)
    (leaf1 : List Wd → List Wd) (leaf2 : List Wd → Nat → List Wd) (hLH1 : LeafHash LH1 leaf1) (hLH2 : PairHash LH2 leaf2)
    (fuel : Nat) (input tree : Region) (num_cols num_rows dim : BitVec 64) (k w : Nat)
    (hR : num_rows.toNat = 2 ^ k)
    (hw : (num_cols * dim).toNat = w) (hidx : ∀ i, i < 2 ^ k → (((BitVec.ofNat 64 i) * num_cols) * dim).toNat = i * w)
    (hf : w < fuel) :
    ∃ t, Loop.rangeM 0 (2 ^ k) 2 tree (mt512LeafG LH2 LH1 fuel input num_cols num_rows dim) = some t ∧
      Region.toList t (4 * 2 ^ k) = leaves512 leaf1 leaf2 input w k ∧ ∀ j, 4 * 2 ^ k ≤ j → t j = tree j := by
  rw [rangeM_zero_two]
  unfold leaves512
  cases k with
  | zero =>
    obtain ⟨t, h1, h2, h3⟩ := fill_spec 4 (fun m => mt512LeafG LH2 LH1 fuel input num_cols num_rows dim (2 * m))
      (fun m out => LH1 fuel out (Region.shift input ((((BitVec.ofNat 64 (2 * m)) * num_cols) * dim)).toNat) (num_cols * dim))
      (fun m => leaf1 (rowOf input w m)) 1
      (by
        intro m hm t
        have hm0 : m = 0 := by omega
        subst hm0
        have hc := pair_cond num_rows (2 ^ 0) 0 hR (by decide)
        have hc' : decide ((BitVec.ofNat 64 (2 * 0 + 1)) < num_rows) = false := by rw [hc]; decide
        unfold mt512LeafG
        dsimp only
        rw [hc']
        simp only [Bool.false_eq_true, if_false]
        cases (LH1 fuel (Region.shift t (4 * (2 * 0)))
          (Region.shift input ((((BitVec.ofNat 64 (2 * 0)) * num_cols) * dim)).toNat) (num_cols * dim)) <;> rfl)
      (by
        intro m hm out
        have hm0 : m = 0 := by omega
        subst hm0
        obtain ⟨out', ho, hd, hofr⟩ := hLH1 fuel out
          (Region.shift input ((((BitVec.ofNat 64 (2 * 0)) * num_cols) * dim)).toNat) (num_cols * dim) (by rw [hw]; exact hf)
        refine ⟨out', ho, ?_, hofr⟩
        rw [hd, hw, hidx (2 * 0) (by decide)]
        simp [rowOf])
      tree
    refine ⟨t, h1, ?_, fun j hj => h3 j (by simpa using hj)⟩
    rw [if_pos rfl]
    simpa using h2
  | succ k =>
    have h2p : (2 : Nat) ^ (k + 1) = 2 * 2 ^ k := by rw [Nat.pow_succ]; omega
    have hN : (2 ^ (k + 1) + 1) / 2 = 2 ^ k := by omega
    rw [hN, if_neg (by omega), Nat.add_sub_cancel]
    obtain ⟨t, h1, h2, h3⟩ := fill_spec 8 (fun m => mt512LeafG LH2 LH1 fuel input num_cols num_rows dim (2 * m))
      (fun m out => LH2 fuel out (Region.shift input ((((BitVec.ofNat 64 (2 * m)) * num_cols) * dim)).toNat) (num_cols * dim))
      (fun m => leaf2 (rowOf input w (2 * m) ++ rowOf input w (2 * m + 1)) w) (2 ^ k)
      (by
        intro m hm t
        have hc := pair_cond num_rows (2 ^ (k + 1)) m hR (by have := num_rows.isLt; omega)
        have hc' : decide ((BitVec.ofNat 64 (2 * m + 1)) < num_rows) = true := by
          rw [hc, decide_eq_true_iff]; omega
        have e8 : 4 * (2 * m) = 8 * m := by omega
        unfold mt512LeafG
        dsimp only
        rw [hc', e8]
        simp only [if_true]
        cases (LH2 fuel (Region.shift t (8 * m))
          (Region.shift input ((((BitVec.ofNat 64 (2 * m)) * num_cols) * dim)).toNat) (num_cols * dim)) <;> rfl)
      (by
        intro m hm out
        obtain ⟨out', ho, hd, hofr⟩ := hLH2 fuel out
          (Region.shift input ((((BitVec.ofNat 64 (2 * m)) * num_cols) * dim)).toNat) (num_cols * dim) (by rw [hw]; exact hf)
        refine ⟨out', ho, ?_, hofr⟩
        rw [hd, hw, hidx (2 * m) (by omega), two_rows])
      tree
    have e : 4 * 2 ^ (k + 1) = 8 * 2 ^ k := by omega
    rw [e]
    exact ⟨t, h1, h2, h3⟩

/-- the generated `merkletree_avx512` (text `mt512GenG`) for rows = 2^k -/
theorem mt512GenG_spec (LH2 LH1 : Nat → Region → Region → BitVec 64 → Option Region)
    (leaf1 : List Wd → List Wd) (leaf2 : List Wd → Nat → List Wd) (hLH1 : LeafHash LH1 leaf1) (hLH2 : PairHash LH2 leaf2)
    (H : Region → Region → Region) (nodeF : List Wd → List Wd) (hH : NodeHash H nodeF)
    (fuel : Nat) (tree input : Region) (num_cols num_rows : BitVec 64) (dim : BitVec 64) (k : Nat)
    (hR : num_rows.toNat = 2 ^ k) (hk : k ≤ 48) (hprod : 2 ^ k * (num_cols.toNat * dim.toNat) < 2 ^ 64)
    (hf1 : num_cols.toNat * dim.toNat < fuel) (hf2 : 2 ^ k < fuel) :
    ∃ t, mt512GenG LH2 LH1 H fuel tree input num_cols num_rows dim = some t ∧
      Region.toList t (4 * (2 * 2 ^ k - 1)) =
        treeOfLeaves (fun x => nodeF (x ++ zeros 4)) (2 ^ k)
          (leaves512 leaf1 leaf2 input (num_cols.toNat * dim.toNat) k) ∧
      ∀ i, 4 * (2 * 2 ^ k - 1) ≤ i → t i = tree i := by
  have hkpos : 0 < 2 ^ k := Nat.two_pow_pos k
  have hw : (num_cols * dim).toNat = num_cols.toNat * dim.toNat := by
    rw [BitVec.toNat_mul]
    exact Nat.mod_eq_of_lt (Nat.lt_of_le_of_lt (Nat.le_mul_of_pos_left _ hkpos) hprod)
  have hne : ¬ (num_rows == 0#64) = true := by
    rw [beq_iff_eq]
    intro h
    rw [h] at hR
    have : (0#64 : BitVec 64).toNat = 0 := rfl
    omega
  unfold mt512GenG treeOfLeaves
  rw [if_neg hne]
  refine mtTailG_spec H nodeF hH fuel tree num_rows k hR hk hf2 _ _ ?_
  rw [hR]
  exact mt512_leaves LH2 LH1 leaf1 leaf2 hLH1 hLH2 fuel input tree num_cols num_rows dim k _ hR hw
    (fun i hi => row_index num_cols dim (2 ^ k) i hi hprod) hf1

/-! ### `merkletree_batch_avx512` -/

def mtb512InnerG (LH2 : Nat → Region → Region → BitVec 64 → Option Region) (fuel : Nat) (input : Region)
    (num_cols batch_size dim nbatches nlastb : BitVec 64) (i j : Nat) (st__ : Region) : Option Region :=
  let buff0 := st__
  let nn : BitVec 64 := batch_size
  let nn := if ((BitVec.ofNat 64 j) == (nbatches - 1#64)) then
      let nn := nlastb
      nn
    else
      nn
  let nbuff1 : BitVec 64 := ((2#64 * nn) * dim)
  let buff1 : Region := Region.zero
  let buff2 : Region := Region.zero
  let buff1 := (Region.copyN buff1 (Region.shift input (((((BitVec.ofNat 64 i) * num_cols) * dim) + (((BitVec.ofNat 64 j) * batch_size) * dim))).toNat) ((((dim * nn) * 8#64)).toNat / 8))
  let buff1 := (Region.unshift buff1 ((nn * dim)).toNat (Region.copyN (Region.shift buff1 ((nn * dim)).toNat) (Region.shift input (((((BitVec.ofNat 64 (i + 1)) * num_cols) * dim) + (((BitVec.ofNat 64 j) * batch_size) * dim))).toNat) ((((dim * nn) * 8#64)).toNat / 8)))
  (LH2 fuel buff2 buff1 (nn * dim)).bind fun r_4 =>
  let buff2 := r_4
  let buff0 := (Region.unshift buff0 (4 * j) (Region.copyN (Region.shift buff0 (4 * j)) buff2 4))
  let buff0 := (Region.unshift buff0 ((((BitVec.ofNat 64 j) + nbatches) * 4#64)).toNat (Region.copyN (Region.shift buff0 ((((BitVec.ofNat 64 j) + nbatches) * 4#64)).toNat) (Region.shift buff2 4) 4))
  some buff0

def mtb512LeafG (LH2 LH1 : Nat → Region → Region → BitVec 64 → Option Region) (fuel : Nat) (input : Region)
    (num_cols num_rows batch_size dim nbatches nlastb : BitVec 64) (i : Nat) (st__ : Region) : Option Region :=
  let tree := st__
  let buff0 : Region := Region.zero
  if (decide ((BitVec.ofNat 64 (i + 1)) ≥ num_rows)) then
    (Loop.rangeM 0 (nbatches).toNat 1 buff0 (mtbInnerG LH1 fuel input num_cols batch_size dim nbatches nlastb i)).bind fun st_2 =>
    let buff0 := st_2
    (LH1 fuel (Region.shift tree (4 * i)) buff0 (nbatches * 4#64)).bind fun r_3 =>
    let tree := (Region.unshift tree (4 * i) r_3)
    some tree
  else
    (Loop.rangeM 0 (nbatches).toNat 1 buff0 (mtb512InnerG LH2 fuel input num_cols batch_size dim nbatches nlastb i)).bind fun st_5 =>
    let buff0 := st_5
    (LH2 fuel (Region.shift tree (4 * i)) buff0 (nbatches * 4#64)).bind fun r_6 =>
    let tree := (Region.unshift tree (4 * i) r_6)
    some tree

def mtb512GenG (LH2 LH1 : Nat → Region → Region → BitVec 64 → Option Region) (H : Region → Region → Region) (fuel : Nat)
    (tree input : Region) (num_cols num_rows batch_size : BitVec 64) (dim : BitVec 64) : Option Region :=
  if (num_rows == 0#64) then
    some tree
  else
    mtTailG H fuel (Loop.rangeM 0 (num_rows).toNat 2 tree
      (mtb512LeafG LH2 LH1 fuel input num_cols num_rows batch_size dim (nbBV num_cols batch_size)
        (nlastBV num_cols batch_size))) num_rows

theorem mtb512_generic (fuel : Nat) (tree input : Region) (num_cols num_rows batch_size : BitVec 64) (nThreads : Int)
    (dim : BitVec 64) (hb : 1 ≤ batch_size.toNat) (hcb : num_cols.toNat + batch_size.toNat < 2 ^ 61) :
    Pos_merkletree_batch_avx512 fuel tree input num_cols num_rows batch_size nThreads dim =
      mtb512GenG Gen.LinearHashGen.Pos_linear_hash_avx512 Gen.LinearHashGen.Pos_linear_hash Gen.PosAvx2.Pos_hash
        fuel tree input num_cols num_rows batch_size dim := by
  -- the batch count does not wrap (buff0 has 8·nbatches words): the order of the two digest copies to buff0[4j..) and
  -- buff0[4(nbatches + j)..), j < nbatches, is then immaterial; `gen_equiv` reads the bound from the context
  have hq : ((num_cols + batch_size - 1#64) / batch_size).toNat < 2 ^ 61 := by
    have h1 : (1#64 : BitVec 64).toNat = 1 := rfl
    rw [BitVec.toNat_udiv]
    refine Nat.lt_of_le_of_lt (Nat.div_le_self _ _) ?_
    rw [BitVec.toNat_sub, BitVec.toNat_add, h1]
    omega
  clear hb hcb
  delta mtb512GenG mtTailG mtb512LeafG mtb512InnerG mtbInnerG mtLevelG mtNodeG nlastBV nbBV
  delta_prefix "Gen.MerkleGen."
  gen_equiv

/-! ### the default wrappers -/

theorem mt_default_generic (fuel : Nat) (tree input : Region) (num_cols num_rows : BitVec 64) (nThreads : Int)
    (dim : BitVec 64) :
    Pos_merkletree fuel tree input num_cols num_rows nThreads dim =
      Pos_merkletree_avx512 fuel tree input num_cols num_rows nThreads dim := by
  unfold Pos_merkletree
  cases (Pos_merkletree_avx512 fuel tree input num_cols num_rows nThreads dim) <;>
    simp only [Option.bind_some, Option.bind_none]

theorem mtb_default_generic (fuel : Nat) (tree input : Region) (num_cols num_rows batch_size : BitVec 64) (nThreads : Int)
    (dim : BitVec 64) :
    Pos_merkletree_batch fuel tree input num_cols num_rows batch_size nThreads dim =
      Pos_merkletree_batch_avx512 fuel tree input num_cols num_rows batch_size nThreads dim := by
  unfold Pos_merkletree_batch
  cases (Pos_merkletree_batch_avx512 fuel tree input num_cols num_rows batch_size nThreads dim) <;>
    simp only [Option.bind_some, Option.bind_none]

/-! ### the leaf phase of `merkletree_batch_avx512` -/

/-- batch j of a row -/
def batchOf (c b d j : Nat) (row : List Wd) : List Wd := (row.drop (j * b * d)).take (nnOf c b j * d)

/-- the pair digest of batch j of two rows -/
def pairPart (leaf2 : List Wd → Nat → List Wd) (c d b : Nat) (rowA rowB : List Wd) (j : Nat) : List Wd :=
  leaf2 (batchOf c b d j rowA ++ batchOf c b d j rowB) (nnOf c b j * d)

/-- the two leaf digests of two consecutive rows as `merkletree_batch_avx512` computes them: per batch one two-at-a-time hash
    of the two row slices; the first halves are collected in buff0[0 .. 4·nbatches), the second halves in
    buff0[4·nbatches .. 8·nbatches); one two-at-a-time hash of the two halves of buff0 -/
def batchLeaf512 (leaf2 : List Wd → Nat → List Wd) (c d b : Nat) (rowA rowB : List Wd) : List Wd :=
  leaf2 ((List.range (nbOf c b)).flatMap (fun j => (pairPart leaf2 c d b rowA rowB j).take 4) ++
         (List.range (nbOf c b)).flatMap (fun j => (pairPart leaf2 c d b rowA rowB j).drop 4)) (4 * nbOf c b)

/-- leaf level of `merkletree_batch_avx512` for 2^k rows -/
def leavesB512 (leaf1 : List Wd → List Wd) (leaf2 : List Wd → Nat → List Wd) (input : Region) (c d b k : Nat) : List Wd :=
  if k = 0 then batchLeaf leaf1 c d b (rowOf input (c * d) 0)
  else (List.range (2 ^ (k - 1))).flatMap
    (fun m => batchLeaf512 leaf2 c d b (rowOf input (c * d) (2 * m)) (rowOf input (c * d) (2 * m + 1)))

theorem flatMap_length4 (g : Nat → List Wd) (hg : ∀ j, (g j).length = 4) : ∀ n, ((List.range n).flatMap g).length = 4 * n := by
  intro n
  induction n with
  | zero => rfl
  | succ n ih => rw [List.range_succ, List.flatMap_append, List.length_append, ih]; simp [hg]; omega

theorem batchOf_length (c b d j : Nat) (row : List Wd) (hb : 1 ≤ b) (hj : j < nbOf c b) (hrow : row.length = c * d) :
    (batchOf c b d j row).length = nnOf c b j * d := by
  have := batch_in_row c b d j hb hj
  unfold batchOf
  rw [List.length_take, List.length_drop, hrow]
  omega

theorem flatMap_congr_range (g g' : Nat → List Wd) (n : Nat) (h : ∀ j, j < n → g j = g' j) :
    (List.range n).flatMap g = (List.range n).flatMap g' := by
  induction n with
  | zero => rfl
  | succ n ih =>
    rw [List.range_succ, List.flatMap_append, List.flatMap_append, ih (fun j hj => h j (by omega))]
    simp [h n (by omega)]

/-- with the two-at-a-time hash being two one-at-a-time hashes, the AVX512 batched pair digest is the two batched leaves -/
theorem batchLeaf512_rows (leaf1 : List Wd → List Wd) (leaf2 : List Wd → Nat → List Wd)
    (hpair : ∀ a b : List Wd, a.length = b.length → leaf2 (a ++ b) a.length = leaf1 a ++ leaf1 b)
    (hlen : ∀ a, (leaf1 a).length = 4)
    (c d b : Nat) (hb : 1 ≤ b) (rowA rowB : List Wd) (hA : rowA.length = c * d) (hB : rowB.length = c * d) :
    batchLeaf512 leaf2 c d b rowA rowB = batchLeaf leaf1 c d b rowA ++ batchLeaf leaf1 c d b rowB := by
  have hP : ∀ j, j < nbOf c b →
      pairPart leaf2 c d b rowA rowB j = leaf1 (batchOf c b d j rowA) ++ leaf1 (batchOf c b d j rowB) := by
    intro j hj
    have lA := batchOf_length c b d j rowA hb hj hA
    have lB := batchOf_length c b d j rowB hb hj hB
    have := hpair (batchOf c b d j rowA) (batchOf c b d j rowB) (by rw [lA, lB])
    rw [lA] at this
    exact this
  have e1 : (List.range (nbOf c b)).flatMap (fun j => (pairPart leaf2 c d b rowA rowB j).take 4) =
      (List.range (nbOf c b)).flatMap (fun j => leaf1 (batchOf c b d j rowA)) :=
    flatMap_congr_range _ _ _ (fun j hj => by
      show (pairPart leaf2 c d b rowA rowB j).take 4 = _
      rw [hP j hj, List.take_left' (hlen _)])
  have e2 : (List.range (nbOf c b)).flatMap (fun j => (pairPart leaf2 c d b rowA rowB j).drop 4) =
      (List.range (nbOf c b)).flatMap (fun j => leaf1 (batchOf c b d j rowB)) :=
    flatMap_congr_range _ _ _ (fun j hj => by
      show (pairPart leaf2 c d b rowA rowB j).drop 4 = _
      rw [hP j hj, List.drop_left' (hlen _)])
  have l1 := flatMap_length4 (fun j => leaf1 (batchOf c b d j rowA)) (fun j => hlen _) (nbOf c b)
  have l2 := flatMap_length4 (fun j => leaf1 (batchOf c b d j rowB)) (fun j => hlen _) (nbOf c b)
  unfold batchLeaf512
  rw [e1, e2]
  have := hpair _ _ (l1.trans l2.symm)
  rw [l1] at this
  rw [this, batchLeaf_eq, batchLeaf_eq]
  rfl

theorem leavesB512_rows (leaf1 : List Wd → List Wd) (leaf2 : List Wd → Nat → List Wd)
    (hpair : ∀ a b : List Wd, a.length = b.length → leaf2 (a ++ b) a.length = leaf1 a ++ leaf1 b)
    (hlen : ∀ a, (leaf1 a).length = 4) (input : Region) (c d b k : Nat) (hb : 1 ≤ b) :
    leavesB512 leaf1 leaf2 input c d b k =
      (List.range (2 ^ k)).flatMap (fun i => batchLeaf leaf1 c d b (rowOf input (c * d) i)) := by
  unfold leavesB512
  cases k with
  | zero => simp
  | succ k =>
    have h2 : (2 : Nat) ^ (k + 1) = 2 * 2 ^ k := by rw [Nat.pow_succ]; omega
    rw [if_neg (by omega), h2, ← flatMap_pairs, Nat.add_sub_cancel]
    congr 1
    funext m
    exact batchLeaf512_rows leaf1 leaf2 hpair hlen c d b hb _ _ (by unfold rowOf; rw [Region.length_toList])
      (by unfold rowOf; rw [Region.length_toList])

theorem take4_toList8 (r : Region) : (Region.toList r 8).take 4 = Region.toList r 4 := toList_take r 8 4 (by omega)

theorem drop4_toList8 (r : Region) : (Region.toList r 8).drop 4 = Region.toList (Region.shift r 4) 4 := by
  have h := toList_add r 4 4
  have e : 4 + 4 = 8 := rfl
  rw [e] at h
  rw [h, List.drop_left' (Region.length_toList _ _)]

/-- `buff1`: the two row slices back to back (two memcpy's into a fresh array) -/
def buff1Of (srcA srcB : Region) (n p : Nat) : Region :=
  Region.unshift (Region.copyN Region.zero srcA n) p (Region.copyN (Region.shift (Region.copyN Region.zero srcA n) p) srcB n)

theorem buff1_list (srcA srcB : Region) (n : Nat) :
    Region.toList (buff1Of srcA srcB n n) (2 * n) = Region.toList srcA n ++ Region.toList srcB n := by
  rw [toList_two_inputs]
  unfold buff1Of
  congr 1
  · exact toList_congr _ _ _ (fun x hx => by
      rw [Region.unshift_apply, if_neg (by omega), Region.copyN_apply, if_pos hx])
  · exact toList_congr _ _ _ (fun x hx => by
      rw [Region.shift_apply, Region.unshift_apply, if_pos (by omega), Region.copyN_apply, if_pos (by omega)]
      congr 1; omega)

/-- `buff0` after the two memcpy's of the digest halves -/
def buff0Upd (b0 : Region) (j q : Nat) (r : Region) : Region :=
  Region.unshift (Region.unshift b0 (4 * j) (Region.copyN (Region.shift b0 (4 * j)) r 4)) q
    (Region.copyN (Region.shift (Region.unshift b0 (4 * j) (Region.copyN (Region.shift b0 (4 * j)) r 4)) q) (Region.shift r 4) 4)

theorem buff0Upd_apply (b0 r : Region) (j q x : Nat) (hq : 4 * j + 4 ≤ q) :
    (buff0Upd b0 j q r) x =
      if 4 * j ≤ x ∧ x < 4 * j + 4 then r (x - 4 * j) else if q ≤ x ∧ x < q + 4 then r (4 + (x - q)) else b0 x := by
  unfold buff0Upd
  simp only [Region.unshift_apply, Region.copyN_apply, Region.shift_apply]
  split_ifs <;> first | rfl | omega | (congr 1; omega)

def nnSel (batch_size nbatches nlastb : BitVec 64) (j : Nat) : BitVec 64 :=
  if ((BitVec.ofNat 64 j) == (nbatches - 1#64)) then nlastb else batch_size

def offBV (num_cols batch_size dim : BitVec 64) (i j : Nat) : BitVec 64 :=
  ((((BitVec.ofNat 64 i) * num_cols) * dim) + (((BitVec.ofNat 64 j) * batch_size) * dim))

theorem mtb512InnerG_eq (LH2 : Nat → Region → Region → BitVec 64 → Option Region) (fuel : Nat) (input : Region)
    (num_cols batch_size dim nbatches nlastb : BitVec 64) (i j : Nat) (b0 : Region) :
    mtb512InnerG LH2 fuel input num_cols batch_size dim nbatches nlastb i j b0 =
      (LH2 fuel Region.zero
        (buff1Of (Region.shift input (offBV num_cols batch_size dim i j).toNat)
          (Region.shift input (offBV num_cols batch_size dim (i + 1) j).toNat)
          ((((dim * nnSel batch_size nbatches nlastb j) * 8#64)).toNat / 8) ((nnSel batch_size nbatches nlastb j * dim)).toNat)
        (nnSel batch_size nbatches nlastb j * dim)).bind fun r =>
      some (buff0Upd b0 j ((((BitVec.ofNat 64 j) + nbatches) * 4#64)).toNat r) := rfl

/-- the inner loop over the column batches of rows i, i+1 -/
theorem mtb512_inner (LH2 : Nat → Region → Region → BitVec 64 → Option Region) (leaf2 : List Wd → Nat → List Wd)
    (hLH2 : PairHash LH2 leaf2) (fuel : Nat) (input : Region) (num_cols batch_size dim nbatches nlastb : BitVec 64)
    (c b d R i : Nat) (hc : num_cols.toNat = c) (hbv : batch_size.toNat = b) (hd : dim.toNat = d) (hb : 1 ≤ b)
    (hi : i + 1 < R) (hprod : R * (c * d) < 2 ^ 64) (h61 : c * d < 2 ^ 61) (hcb : c + b < 2 ^ 61)
    (hnb : nbatches.toNat = nbOf c b) (hnl : nlastb.toNat = nlastOf c b) (hf1 : c * d < fuel) :
    ∃ b0, Loop.rangeM 0 nbatches.toNat 1 Region.zero
        (mtb512InnerG LH2 fuel input num_cols batch_size dim nbatches nlastb i) = some b0 ∧
      Region.toList b0 (2 * (4 * nbOf c b)) =
        (List.range (nbOf c b)).flatMap
          (fun j => (pairPart leaf2 c d b (rowOf input (c * d) i) (rowOf input (c * d) (i + 1)) j).take 4) ++
        (List.range (nbOf c b)).flatMap
          (fun j => (pairPart leaf2 c d b (rowOf input (c * d) i) (rowOf input (c * d) (i + 1)) j).drop 4) := by
  have hc64 : c < 2 ^ 64 := by rw [← hc]; exact num_cols.isLt
  have hnble := nbOf_le c b hb
  rw [hnb]
  obtain ⟨b0, hr, h1, h2⟩ := Loop.rangeM_inv (mtb512InnerG LH2 fuel input num_cols batch_size dim nbatches nlastb i)
    (fun j b0 =>
      Region.toList b0 (4 * j) = (List.range j).flatMap
        (fun j => (pairPart leaf2 c d b (rowOf input (c * d) i) (rowOf input (c * d) (i + 1)) j).take 4) ∧
      Region.toList (Region.shift b0 (4 * nbOf c b)) (4 * j) = (List.range j).flatMap
        (fun j => (pairPart leaf2 c d b (rowOf input (c * d) i) (rowOf input (c * d) (i + 1)) j).drop 4))
    0 (nbOf c b) (Nat.zero_le _)
    (by
      intro j b0 _ hj ⟨hl1, hl2⟩
      have hrow := batch_in_row c b d j hb hj
      have ew : (nnSel batch_size nbatches nlastb j * dim).toNat = nnOf c b j * d :=
        batch_width batch_size dim nbatches nlastb c b d j hbv hd hb hc64 (by omega) hnb hnl hj
      have eoA : (offBV num_cols batch_size dim i j).toNat = i * (c * d) + j * b * d :=
        batch_offset num_cols batch_size dim c b d R i j hc hbv hd hb (by omega) hj hprod
      have eoB : (offBV num_cols batch_size dim (i + 1) j).toNat = (i + 1) * (c * d) + j * b * d :=
        batch_offset num_cols batch_size dim c b d R (i + 1) j hc hbv hd hb hi hj hprod
      have en : (((dim * nnSel batch_size nbatches nlastb j) * 8#64)).toNat / 8 = nnOf c b j * d := by
        have h8 : (8#64 : BitVec 64).toNat = 8 := rfl
        rw [BitVec.mul_comm dim, BitVec.toNat_mul, ew, h8]
        omega
      have eq : ((((BitVec.ofNat 64 j) + nbatches) * 4#64)).toNat = 4 * nbOf c b + 4 * j := by
        have h4 : (4#64 : BitVec 64).toNat = 4 := rfl
        rw [BitVec.toNat_mul, BitVec.toNat_add, ofNat_toNat_lt j (by omega), hnb, h4]
        omega
      obtain ⟨r4, ho, hdg, _⟩ := hLH2 fuel Region.zero
        (buff1Of (Region.shift input (i * (c * d) + j * b * d)) (Region.shift input ((i + 1) * (c * d) + j * b * d))
          (nnOf c b j * d) (nnOf c b j * d))
        (nnSel batch_size nbatches nlastb j * dim) (by rw [ew]; omega)
      have hP : Region.toList r4 8 = pairPart leaf2 c d b (rowOf input (c * d) i) (rowOf input (c * d) (i + 1)) j := by
        rw [hdg, ew, buff1_list]
        unfold pairPart batchOf rowOf
        rw [toList_drop_take _ _ _ _ hrow, toList_drop_take _ _ _ _ hrow, shift_shift, shift_shift]
      have e4 : 4 * (j + 1) = 4 * j + 4 := by omega
      have es : ∀ g : Nat → List Wd, ([j] : List Nat).flatMap g = g j := fun g => by simp
      refine ⟨buff0Upd b0 j (4 * nbOf c b + 4 * j) r4, by rw [mtb512InnerG_eq, en, ew, eq, eoA, eoB, ho]; rfl, ?_, ?_⟩
      · rw [e4, toList_add, List.range_succ, List.flatMap_append, ← hl1, es, ← hP, take4_toList8]
        congr 1
        · exact toList_congr _ _ _ (fun x hx => by
            rw [buff0Upd_apply _ _ _ _ _ (by omega), if_neg (by omega), if_neg (by omega)])
        · exact toList_congr _ _ _ (fun x hx => by
            rw [Region.shift_apply, buff0Upd_apply _ _ _ _ _ (by omega), if_pos (by omega)]
            congr 1; omega)
      · rw [e4, toList_add, List.range_succ, List.flatMap_append, ← hl2, es, ← hP, drop4_toList8]
        congr 1
        · exact toList_congr _ _ _ (fun x hx => by
            rw [Region.shift_apply, Region.shift_apply, buff0Upd_apply _ _ _ _ _ (by omega), if_neg (by omega),
              if_neg (by omega)])
        · exact toList_congr _ _ _ (fun x hx => by
            rw [Region.shift_apply, Region.shift_apply, Region.shift_apply, buff0Upd_apply _ _ _ _ _ (by omega),
              if_neg (by omega), if_pos (by omega)]
            congr 1; omega))
    Region.zero ⟨by simp [Region.toList], by simp [Region.toList]⟩
  exact ⟨b0, hr, by rw [toList_two_inputs, h1, h2]⟩

/-- the condition `i + 1 >= num_rows` of the batched leaf loop, for i = 2·m -/
theorem pair_cond_ge (num_rows : BitVec 64) (R m : Nat) (hR : num_rows.toNat = R) (hlt : 2 * m + 1 < 2 ^ 64) :
    (decide ((BitVec.ofNat 64 (2 * m + 1)) ≥ num_rows)) = decide (R ≤ 2 * m + 1) := by
  by_cases h : R ≤ 2 * m + 1
  · rw [decide_eq_true h, decide_eq_true_iff, ge_iff_le, BitVec.le_def, ofNat_toNat_lt _ hlt, hR]
    exact h
  · rw [decide_eq_false h, decide_eq_false_iff_not, ge_iff_le, BitVec.le_def, ofNat_toNat_lt _ hlt, hR]
    exact h

/-- the leaf loop of `merkletree_batch_avx512` -/
theorem mtb512_leaves (LH2 LH1 : Nat → Region → Region → BitVec 64 → Option Region)
    (leaf1 : List Wd → List Wd) (leaf2 : List Wd → Nat → List Wd) (hLH1 : LeafHash LH1 leaf1) (hLH2 : PairHash LH2 leaf2)
    (fuel : Nat) (input tree : Region) (num_cols num_rows batch_size dim nbatches nlastb : BitVec 64)
    (c b d k : Nat) (hR : num_rows.toNat = 2 ^ k)
    (hc : num_cols.toNat = c) (hbv : batch_size.toNat = b) (hd : dim.toNat = d) (hb : 1 ≤ b)
    (hprod : 2 ^ k * (c * d) < 2 ^ 64) (h61 : c * d < 2 ^ 61) (hcb : c + b < 2 ^ 61)
    (hnb : nbatches.toNat = nbOf c b) (hnl : nlastb.toNat = nlastOf c b) (hf1 : c * d < fuel) (hf3 : 4 * (c + 1) < fuel) :
    ∃ t, Loop.rangeM 0 (2 ^ k) 2 tree
        (mtb512LeafG LH2 LH1 fuel input num_cols num_rows batch_size dim nbatches nlastb) = some t ∧
      Region.toList t (4 * 2 ^ k) = leavesB512 leaf1 leaf2 input c d b k ∧ ∀ j, 4 * 2 ^ k ≤ j → t j = tree j := by
  have hnble := nbOf_le c b hb
  have e4 : (nbatches * 4#64).toNat = 4 * nbOf c b := by
    have h4 : (4#64 : BitVec 64).toNat = 4 := rfl
    rw [BitVec.toNat_mul, hnb, h4]
    omega
  rw [rangeM_zero_two]
  unfold leavesB512
  cases k with
  | zero =>
    obtain ⟨t, h1, h2, h3⟩ := fill_spec 4
      (fun m => mtb512LeafG LH2 LH1 fuel input num_cols num_rows batch_size dim nbatches nlastb (2 * m))
      (fun m out => (Loop.rangeM 0 nbatches.toNat 1 Region.zero
          (mtbInnerG LH1 fuel input num_cols batch_size dim nbatches nlastb (2 * m))).bind fun st_2 =>
        LH1 fuel out st_2 (nbatches * 4#64))
      (fun m => batchLeaf leaf1 c d b (rowOf input (c * d) (2 * m))) 1
      (by
        intro m hm t
        have hm0 : m = 0 := by omega
        subst hm0
        have hcnd : decide ((BitVec.ofNat 64 (2 * 0 + 1)) ≥ num_rows) = true := by
          rw [pair_cond_ge num_rows (2 ^ 0) 0 hR (by decide)]; decide
        unfold mtb512LeafG
        dsimp only
        rw [hcnd]
        simp only [if_true]
        cases (Loop.rangeM 0 nbatches.toNat 1 Region.zero
          (mtbInnerG LH1 fuel input num_cols batch_size dim nbatches nlastb (2 * 0))) <;> rfl)
      (by
        intro m hm out
        have hm0 : m = 0 := by omega
        subst hm0
        obtain ⟨b0, hb0, hl0⟩ := mtb_inner LH1 leaf1 hLH1 fuel input num_cols batch_size dim nbatches nlastb c b d (2 ^ 0)
          (2 * 0) hc hbv hd hb (by decide) hprod hnb hnl hf1
        obtain ⟨out', ho, hdg, hofr⟩ := hLH1 fuel out b0 (nbatches * 4#64) (by rw [e4]; omega)
        refine ⟨out', by rw [hb0]; exact ho, ?_, hofr⟩
        rw [hdg, e4, hl0, batchLeaf_eq])
      tree
    refine ⟨t, h1, ?_, fun j hj => h3 j (by simpa using hj)⟩
    rw [if_pos rfl]
    simpa using h2
  | succ k =>
    have h2p : (2 : Nat) ^ (k + 1) = 2 * 2 ^ k := by rw [Nat.pow_succ]; omega
    have hN : (2 ^ (k + 1) + 1) / 2 = 2 ^ k := by omega
    rw [hN, if_neg (by omega), Nat.add_sub_cancel]
    obtain ⟨t, h1, h2, h3⟩ := fill_spec 8
      (fun m => mtb512LeafG LH2 LH1 fuel input num_cols num_rows batch_size dim nbatches nlastb (2 * m))
      (fun m out => (Loop.rangeM 0 nbatches.toNat 1 Region.zero
          (mtb512InnerG LH2 fuel input num_cols batch_size dim nbatches nlastb (2 * m))).bind fun st_5 =>
        LH2 fuel out st_5 (nbatches * 4#64))
      (fun m => batchLeaf512 leaf2 c d b (rowOf input (c * d) (2 * m)) (rowOf input (c * d) (2 * m + 1))) (2 ^ k)
      (by
        intro m hm t
        have hcnd : decide ((BitVec.ofNat 64 (2 * m + 1)) ≥ num_rows) = false := by
          rw [pair_cond_ge num_rows (2 ^ (k + 1)) m hR (by have := num_rows.isLt; omega), decide_eq_false_iff_not]
          omega
        have e8 : 4 * (2 * m) = 8 * m := by omega
        unfold mtb512LeafG
        dsimp only
        rw [hcnd, e8]
        simp only [Bool.false_eq_true, if_false]
        cases (Loop.rangeM 0 nbatches.toNat 1 Region.zero
          (mtb512InnerG LH2 fuel input num_cols batch_size dim nbatches nlastb (2 * m))) <;> rfl)
      (by
        intro m hm out
        obtain ⟨b0, hb0, hl0⟩ := mtb512_inner LH2 leaf2 hLH2 fuel input num_cols batch_size dim nbatches nlastb c b d
          (2 ^ (k + 1)) (2 * m) hc hbv hd hb (by omega) hprod h61 hcb hnb hnl hf1
        obtain ⟨out', ho, hdg, hofr⟩ := hLH2 fuel out b0 (nbatches * 4#64) (by rw [e4]; omega)
        refine ⟨out', by rw [hb0]; exact ho, ?_, hofr⟩
        rw [hdg, e4, hl0]
        rfl)
      tree
    have e : 4 * 2 ^ (k + 1) = 8 * 2 ^ k := by omega
    rw [e]
    exact ⟨t, h1, h2, h3⟩

/-- the generated `merkletree_batch_avx512` (text `mtb512GenG`) for rows = 2^k -/
theorem mtb512GenG_spec (LH2 LH1 : Nat → Region → Region → BitVec 64 → Option Region)
    (leaf1 : List Wd → List Wd) (leaf2 : List Wd → Nat → List Wd) (hLH1 : LeafHash LH1 leaf1) (hLH2 : PairHash LH2 leaf2)
    (H : Region → Region → Region) (nodeF : List Wd → List Wd) (hH : NodeHash H nodeF)
    (fuel : Nat) (tree input : Region) (num_cols num_rows batch_size : BitVec 64) (dim : BitVec 64) (k : Nat)
    (hR : num_rows.toNat = 2 ^ k) (hk : k ≤ 48) (hprod : 2 ^ k * (num_cols.toNat * dim.toNat) < 2 ^ 64)
    (h61 : num_cols.toNat * dim.toNat < 2 ^ 61)
    (hb : 1 ≤ batch_size.toNat) (hcb : num_cols.toNat + batch_size.toNat < 2 ^ 61)
    (hf1 : num_cols.toNat * dim.toNat < fuel) (hf2 : 2 ^ k < fuel) (hf3 : 4 * (num_cols.toNat + 1) < fuel) :
    ∃ t, mtb512GenG LH2 LH1 H fuel tree input num_cols num_rows batch_size dim = some t ∧
      Region.toList t (4 * (2 * 2 ^ k - 1)) =
        treeOfLeaves (fun x => nodeF (x ++ zeros 4)) (2 ^ k)
          (leavesB512 leaf1 leaf2 input num_cols.toNat dim.toNat batch_size.toNat k) ∧
      ∀ i, 4 * (2 * 2 ^ k - 1) ≤ i → t i = tree i := by
  have hkpos : 0 < 2 ^ k := Nat.two_pow_pos k
  have hne : ¬ (num_rows == 0#64) = true := by
    rw [beq_iff_eq]
    intro h
    rw [h] at hR
    have : (0#64 : BitVec 64).toNat = 0 := rfl
    omega
  unfold mtb512GenG treeOfLeaves
  rw [if_neg hne]
  refine mtTailG_spec H nodeF hH fuel tree num_rows k hR hk hf2 _ _ ?_
  rw [hR]
  exact mtb512_leaves LH2 LH1 leaf1 leaf2 hLH1 hLH2 fuel input tree num_cols num_rows batch_size dim _ _ _ _ _ k hR
    rfl rfl rfl hb hprod h61 hcb (nbBV_toNat num_cols batch_size hb (by omega))
    (nlastBV_toNat num_cols batch_size hb (by omega)) hf1 hf3

end GoldilocksVerif
