/-
  Proof automation for statements about the extents of the generated heap model (Lemmas/HeapSafe.lean):
  `Heap.Same h X` and `OInv P X` goals are decomposed BY THE HEAD SYMBOL of `X` (a memory operation, `if`, `some`,
  `Option.bind`, a loop).  The unifier is never asked to compare two different heap operations or an `if` with an
  operation: under the generated index expressions (bit reversal with 32-bit masks, `decide` of 64-bit comparisons) that
  comparison unfolds instances and runs for minutes.
-/
import Lean
import GoldilocksVerif.Lemmas.HeapSafe

namespace GoldilocksVerif
namespace Heap

theorem Same.ite {c : Prop} [Decidable c] (h a b : Heap) (ha : Same h a) (hb : Same h b) :
    Same h (if c then a else b) := by
  by_cases hc : c
  · rw [if_pos hc]; exact ha
  · rw [if_neg hc]; exact hb

theorem Same.fst_ite {τ : Type} {c : Prop} [Decidable c] (h : Heap) (a b : Heap × τ) (ha : Same h a.1) (hb : Same h b.1) :
    Same h (if c then a else b).1 := by
  by_cases hc : c
  · rw [if_pos hc]; exact ha
  · rw [if_neg hc]; exact hb

theorem Same.snd_ite {τ : Type} {c : Prop} [Decidable c] (h : Heap) (a b : τ × Heap) (ha : Same h a.2) (hb : Same h b.2) :
    Same h (if c then a else b).2 := by
  by_cases hc : c
  · rw [if_pos hc]; exact ha
  · rw [if_neg hc]; exact hb

theorem Same.size_pos {a b : Heap} (h : Same a b) (ha : 0 < a.size) : 0 < b.size := by rw [h.1]; exact ha

end Heap

/-- a result relative to the heap a callee started from, used from a heap of the same shape -/
theorem OInv.of_same {a b : Heap} {o : Option Heap} (hab : Heap.Same a b) (h : OInv (Heap.Same b) o) : OInv (Heap.Same a) o :=
  fun s hs => hab.trans (h s hs)

theorem OInv.of_same_fst {τ : Type} {a b : Heap} {o : Option (Heap × τ)} (hab : Heap.Same a b)
    (h : OInv (fun y => Heap.Same b y.1) o) : OInv (fun y => Heap.Same a y.1) o :=
  fun s hs => hab.trans (h s hs)

/-- `0 < h.size` from the context: directly, or through a heap of the same shape -/
macro "heap_pos" : tactic => `(tactic| first
  | assumption
  | (exact Heap.Same.size_pos (by assumption) (by assumption))
  | (rw [Heap.size_alloc]; exact Nat.succ_pos _))

/-- extensible: lemmas `OInv (Heap.Same s) (f … s)` about generated functions, tried by `heap_step` -/
syntax "same_lemmas" : tactic

open Lean Meta in
/-- components of a right-nested tuple `e` with `k` leaves: the literal components when `e` is a literal tuple, else projections -/
partial def tupleComps (k : Nat) (e : Expr) : MetaM (List Expr) := do
  if k ≤ 1 then return [e]
  else
    match e.consumeMData.getAppFn.constName?, e.consumeMData.getAppArgs with
    | some ``Prod.mk, #[_, _, a, b] => return a :: (← tupleComps (k - 1) b)
    | _, _ => return (← mkAppM ``Prod.fst #[e]) :: (← tupleComps (k - 1) (← mkAppM ``Prod.snd #[e]))

open Lean Meta in
/-- `match d with | (x₁, …, xₙ) => alt x₁ … xₙ` (one alternative, a right-nested tuple pattern — what the translator
    emits for `let (a, b) := …`) as `alt d.1 d.2.1 …` (definitionally equal: structure eta) -/
def tupleMatch? (x : Expr) : MetaM (Option Expr) := do
  let some app ← matchMatcherApp? x | return none
  unless app.discrs.size == 1 && app.alts.size == 1 && app.remaining.isEmpty do return none
  let cs ← tupleComps app.altNumParams[0]! app.discrs[0]!
  return some ((app.alts[0]!.beta cs.toArray).headBeta)

open Lean Meta in
/-- `(S.mk a b …).f` ↦ the field, everywhere in `e` (after a `{ self with f := v }` has been substituted for `self`) -/
def reduceProjs (e : Expr) : MetaM Expr :=
  Meta.transform e (post := fun e => do
    match e.getAppFn with
    | .const n _ =>
      if let some info ← getProjectionFnInfo? n then
        if e.getAppNumArgs == info.numParams + 1 then
          let s := e.appArg!
          if s.getAppFn.isConstOf info.ctorName then
            return .done (s.getArg! (info.numParams + info.i))
      return .done e
    | _ => return .done e)

open Lean Meta in
/-- a `let` whose type carries no heap, pointer or object state is GENERALISED (`∀ x, …` instead of substituting the
    value: the statements proved here do not depend on scalar values, and substituting nested `if`s doubles the term at
    every step); returns the new goal -/
def generalizeScalarLet? (g : MVarId) (mk : Expr → Expr) (x : Expr) : MetaM (Option MVarId) := do
  let ty := x.letType!
  if (ty.find? fun e => e.isConstOf ``Heap || e.isConstOf ``Ptr || e.isConstOf `Gen.NttGen.NTT_Goldilocks).isSome then
    return none
  if ty.hasLooseBVars then return none
  let newT := Expr.forallE x.letName! ty (mk x.letBody!) .default
  let g' ← mkFreshExprSyntheticOpaqueMVar newT
  g.assign (mkApp g' x.letValue!)
  return some g'.mvarId!

open Lean Meta Elab Tactic in
/-- one step on a goal `Heap.Same h X`, `OInv P X`, `∀ …`, `_ ∧ _`, `True` — by the head symbol of `X` -/
elab "heap_step" : tactic => withMainContext do
  let g ← getMainGoal
  let t := (← instantiateMVars (← g.getType)).consumeMData
  if t.isForall then
    evalTactic (← `(tactic| intro _))
  else if t.isAppOfArity ``And 2 then
    evalTactic (← `(tactic| constructor))
  else if t.isConstOf ``True then
    evalTactic (← `(tactic| exact True.intro))
  else if t.isAppOfArity ``Heap.Same 2 then
    let x := (t.getArg! 1).consumeMData
    if x.isLet then
      if let some g' ← generalizeScalarLet? g (fun b => mkApp2 (mkConst ``Heap.Same) (t.getArg! 0) b) x then
        replaceMainGoal [g']
        return
      let x' ← reduceProjs (x.letBody!.instantiate1 x.letValue!).headBeta
      let g' ← g.change (mkApp2 (mkConst ``Heap.Same) (t.getArg! 0) x') (checkDefEq := false)
      replaceMainGoal [g']
    else if let some x' ← tupleMatch? x then
      let g' ← g.change (mkApp2 (mkConst ``Heap.Same) (t.getArg! 0) x') (checkDefEq := false)
      replaceMainGoal [g']
    else if (x.isAppOfArity ``Prod.fst 3 || x.isAppOfArity ``Prod.snd 3) && (x.appArg!.consumeMData.isLet
        || x.appArg!.consumeMData.isAppOfArity ``Prod.mk 4) then
      -- a component of a tuple: through `let`, of a literal tuple
      let y := x.appArg!.consumeMData
      let x' := if y.isLet then Expr.letE y.letName! y.letType! y.letValue! (mkApp x.appFn! y.letBody!) y.letNondep!
        else if x.isAppOfArity ``Prod.fst 3 then y.getArg! 2 else y.getArg! 3
      let g' ← g.change (mkApp2 (mkConst ``Heap.Same) (t.getArg! 0) x') (checkDefEq := false)
      replaceMainGoal [g']
    else if x.isAppOfArity ``Prod.fst 3 && x.appArg!.consumeMData.isAppOfArity ``ite 5 then
      evalTactic (← `(tactic| with_reducible refine Heap.Same.fst_ite _ _ _ ?_ ?_))
    else if x.isAppOfArity ``Prod.snd 3 && x.appArg!.consumeMData.isAppOfArity ``ite 5 then
      evalTactic (← `(tactic| with_reducible refine Heap.Same.snd_ite _ _ _ ?_ ?_))
    else
      let tac ← match x.getAppFn.constName? with
        | some ``Heap.set => `(tactic| with_reducible refine Heap.Same.trans ?_ (Heap.Same.set _ _ _ _))
        | some ``Heap.copy => `(tactic| with_reducible refine Heap.Same.trans ?_ (Heap.Same.copy _ _ _ _))
        | some ``Heap.zero => `(tactic| with_reducible refine Heap.Same.trans ?_ (Heap.Same.zero _ _ _))
        | some ``ite => `(tactic| with_reducible refine Heap.Same.ite _ _ _ ?_ ?_)
        | some ``Heap.free => `(tactic| with_reducible refine Heap.Same.alloc_free _ _ _ (by heap_pos) ?_)
        | _ => `(tactic| with_reducible first | exact Heap.Same.refl _ | assumption)
      evalTactic tac
  else if t.isAppOfArity ``OInv 3 then
    let x := (t.getArg! 2).consumeMData
    if x.isLet then
      if let some g' ← generalizeScalarLet? g (fun b => mkApp3 t.appFn!.appFn!.appFn! (t.getArg! 0) (t.getArg! 1) b) x then
        replaceMainGoal [g']
        return
      let x' ← reduceProjs (x.letBody!.instantiate1 x.letValue!).headBeta
      let g' ← g.change (mkApp3 t.appFn!.appFn!.appFn! (t.getArg! 0) (t.getArg! 1) x') (checkDefEq := false)
      replaceMainGoal [g']
    else if let some x' ← tupleMatch? x then
      let g' ← g.change (mkApp3 t.appFn!.appFn!.appFn! (t.getArg! 0) (t.getArg! 1) x') (checkDefEq := false)
      replaceMainGoal [g']
    else
      if x.isAppOfArity ``Option.bind 4 then
        -- sequencing: a heap-valued step keeps the assertion, a step without heap needs none
        let α := x.getArg! 0
        let P := t.getArg! 1
        if α.isConstOf ``Heap && P.isAppOfArity ``Heap.Same 1 then
          evalTactic (← `(tactic| with_reducible refine OInv.bind $(← Term.exprToSyntax P) _ _ ?_ (fun _ _ => ?_)))
        else if (α.find? (fun e => e.isConstOf ``Heap || e.isConstOf ``Ptr || e.isConstOf `Gen.NttGen.NTT_Goldilocks)).isNone then
          evalTactic (← `(tactic| with_reducible refine OInv.bind (fun _ => True) _ _ (OInv.triv _) (fun _ _ => ?_)))
        else
          throwError "heap_step: Option.bind needs the intermediate assertion (oinv_bind Q)"
        return
      let tac ← match x.getAppFn.constName? with
        | some ``Option.some => `(tactic| ((with_reducible refine OInv.some _ _ ?_); try (with_reducible dsimp only [])))
        | some ``Option.none => `(tactic| with_reducible exact OInv.none _)
        | some ``ite => `(tactic| with_reducible refine OInv.ite _ _ (fun _ => ?_) (fun _ => ?_))
        | some ``Loop.rangeM => `(tactic| with_reducible refine OInv.rangeM _ _ _ _ _ ?_ ?_)
        | some ``Loop.whileM => `(tactic| with_reducible refine OInv.whileM _ _ _ ?_ ?_)
        | _ => `(tactic| with_reducible first
                  | (refine OInv.of_same (by assumption) ?_; same_lemmas)
                  | (refine OInv.of_same_fst (by assumption) ?_; same_lemmas)
                  | same_lemmas)
      evalTactic tac
  else
    throwError "heap_step: no rule"

/-- `heap_step` on every goal, as long as one of them makes progress -/
macro "heap_steps" : tactic => `(tactic| repeat (any_goals heap_step))

/-- `Option.bind x f` with the assertion `Q` about the result of `x` -/
macro "oinv_bind " q:term : tactic =>
  `(tactic| (with_reducible refine OInv.bind $q _ _ ?_ (fun _ _ => ?_)))

/-- sequencing through a heap-valued step that keeps the shape of `h0` -/
macro "oinv_bind_same " h0:term : tactic =>
  `(tactic| (with_reducible refine OInv.bind (Heap.Same $h0) _ _ ?_ (fun _ _ => ?_)))

/-- sequencing through a step whose result carries no heap -/
macro "oinv_bind_triv" : tactic =>
  `(tactic| (with_reducible refine OInv.bind (fun _ => True) _ _ (OInv.triv _) (fun _ _ => ?_)))

end GoldilocksVerif
