/-
  Helper definitions and lemmas for the strided / offset / broadcast wrappers (C17) and the batched
  cubic-extension routines (C16).  Core-only.  Property statements are in Props/C17.lean, Props/C16.lean;
  the per-overload structural equalities are generated into Props/C17Gen.lean from the C++ signatures.
-/
import GoldilocksVerif.Model.Region
import GoldilocksVerif.Isa.Vec
import GoldilocksVerif.Isa.Avx2
import GoldilocksVerif.Isa.Avx512

namespace GoldilocksVerif

/-- `n` sequential element writes `c[pos k] = v k`, lane 0 first (the order of the C++ scatter loops) -/
def writeSeq (c : Region) (pos : Nat → Nat) (v : Nat → BitVec 64) : Nat → Region
  | 0 => c
  | n + 1 => Region.set (writeSeq c pos v n) (pos n) (v n)

theorem writeSeq_frame (c : Region) (pos : Nat → Nat) (v : Nat → BitVec 64) (n j : Nat)
    (h : ∀ k, k < n → j ≠ pos k) : (writeSeq c pos v n) j = c j := by
  induction n with
  | zero => rfl
  | succ n ih =>
    simp only [writeSeq]
    rw [Region.set_other _ _ _ _ (h n (Nat.lt_succ_self n))]
    exact ih (fun k hk => h k (Nat.lt_succ_of_lt hk))

/-- the last lane designated for a position determines its content -/
theorem writeSeq_last (c : Region) (pos : Nat → Nat) (v : Nat → BitVec 64) (n k : Nat) (hk : k < n)
    (h : ∀ k', k < k' → k' < n → pos k' ≠ pos k) : (writeSeq c pos v n) (pos k) = v k := by
  induction n with
  | zero => exact absurd hk (Nat.not_lt_zero _)
  | succ n ih =>
    simp only [writeSeq]
    by_cases e : k = n
    · subst e; exact Region.set_same _ _ _
    · have hk' : k < n := Nat.lt_of_le_of_ne (Nat.le_of_lt_succ hk) e
      rw [Region.set_other _ _ _ _ (fun he => h n hk' (Nat.lt_succ_self n) he.symm)]
      exact ih hk' (fun k' h1 h2 => h k' h1 (Nat.lt_succ_of_lt h2))

/-- order-agnostic form: every designated position holds the value of SOME lane designated for it -/
theorem writeSeq_mem (c : Region) (pos : Nat → Nat) (v : Nat → BitVec 64) (n k : Nat) (hk : k < n) :
    ∃ k', k' < n ∧ pos k' = pos k ∧ (writeSeq c pos v n) (pos k) = v k' := by
  induction n with
  | zero => exact absurd hk (Nat.not_lt_zero _)
  | succ n ih =>
    simp only [writeSeq]
    by_cases e : pos k = pos n
    · exact ⟨n, Nat.lt_succ_self n, e.symm, by rw [e]; exact Region.set_same _ _ _⟩
    · have hk' : k < n := by
        rcases Nat.lt_or_ge k n with h | h
        · exact h
        · have : k = n := Nat.le_antisymm (Nat.le_of_lt_succ hk) h
          subst this; exact absurd rfl e
      obtain ⟨k', h1, h2, h3⟩ := ih hk'
      exact ⟨k', Nat.lt_succ_of_lt h1, h2, by rw [Region.set_other _ _ _ _ e]; exact h3⟩

/-! Loop-carried ("running") indices: a wrapper may keep `k1 += offset1` across its unrolled iterations instead of
    computing `i * offset1`.  The simp set `run_idx` folds the running sums `0 + s + s + …` back into `BitVec.ofNat 64 i * s`
    (the form the generated statements designate), whichever side the increment is written on. -/
theorem BitVec.run_two (x : BitVec 64) : x + x = BitVec.ofNat 64 2 * x := by
  have h := BitVec.add_mul (x := BitVec.ofNat 64 1) (y := BitVec.ofNat 64 1) (z := x)
  simp only [BitVec.one_mul] at h
  exact h.symm
theorem BitVec.run_succ (n : Nat) (x : BitVec 64) : BitVec.ofNat 64 n * x + x = BitVec.ofNat 64 (n + 1) * x := by
  have h := BitVec.add_mul (x := BitVec.ofNat 64 n) (y := BitVec.ofNat 64 1) (z := x)
  simp only [BitVec.one_mul] at h
  rw [← h, BitVec.ofNat_add]
theorem BitVec.run_succ' (n : Nat) (x : BitVec 64) : x + BitVec.ofNat 64 n * x = BitVec.ofNat 64 (n + 1) * x := by
  rw [BitVec.add_comm, BitVec.run_succ]

namespace V4
/-- lane `k` by number (lanes ≥ 4 read lane 3; never used beyond 3) -/
def getN (a : V4) (k : Nat) : BitVec 64 :=
  if k = 0 then a.l0 else if k = 1 then a.l1 else if k = 2 then a.l2 else a.l3
def ofFn (f : Nat → BitVec 64) : V4 := ⟨f 0, f 1, f 2, f 3⟩
theorem getN_eq_get (a : V4) (i : Fin 4) : a.getN i.val = a.get i := by
  match i with
  | 0 => rfl | 1 => rfl | 2 => rfl | 3 => rfl
theorem get_ofFn (f : Nat → BitVec 64) (i : Fin 4) : (ofFn f).get i = f i.val := by
  match i with
  | 0 => rfl | 1 => rfl | 2 => rfl | 3 => rfl
end V4

namespace V8
def getN (a : V8) (k : Nat) : BitVec 64 :=
  if k = 0 then a.l0 else if k = 1 then a.l1 else if k = 2 then a.l2 else if k = 3 then a.l3
  else if k = 4 then a.l4 else if k = 5 then a.l5 else if k = 6 then a.l6 else a.l7
def ofFn (f : Nat → BitVec 64) : V8 := ⟨f 0, f 1, f 2, f 3, f 4, f 5, f 6, f 7⟩
theorem getN_eq_get (a : V8) (i : Fin 8) : a.getN i.val = a.get i := by
  match i with
  | 0 => rfl | 1 => rfl | 2 => rfl | 3 => rfl | 4 => rfl | 5 => rfl | 6 => rfl | 7 => rfl
theorem get_ofFn (f : Nat → BitVec 64) (i : Fin 8) : (ofFn f).get i = f i.val := by
  match i with
  | 0 => rfl | 1 => rfl | 2 => rfl | 3 => rfl | 4 => rfl | 5 => rfl | 6 => rfl | 7 => rfl
end V8

theorem Avx2.store_eq (r : Region) (v : V4) : Avx2.store r v = writeSeq r (fun k => k) v.getN 4 := by
  apply Region.ext'
  intro j
  simp only [Avx2.store, writeSeq, Region.mk_apply, Region.set_apply, V4.getN]
  by_cases h3 : j = 3
  · subst h3; simp
  by_cases h2 : j = 2
  · subst h2; simp
  by_cases h1 : j = 1
  · subst h1; simp
  by_cases h0 : j = 0
  · subst h0; simp
  simp [h0, h1, h2, h3]

theorem Avx512.store_eq (r : Region) (v : V8) : Avx512.store r v = writeSeq r (fun k => k) v.getN 8 := by
  apply Region.ext'
  intro j
  simp only [Avx512.store, writeSeq, Region.mk_apply, Region.set_apply, V8.getN]
  by_cases h7 : j = 7
  · subst h7; simp
  by_cases h6 : j = 6
  · subst h6; simp
  by_cases h5 : j = 5
  · subst h5; simp
  by_cases h4 : j = 4
  · subst h4; simp
  by_cases h3 : j = 3
  · subst h3; simp
  by_cases h2 : j = 2
  · subst h2; simp
  by_cases h1 : j = 1
  · subst h1; simp
  by_cases h0 : j = 0
  · subst h0; simp
  simp [h0, h1, h2, h3, h4, h5, h6, h7]

end GoldilocksVerif
