/-
  Bridge theorems for the conversions (property C15): the functions of Gen/ConvGen.lean — translated from
  goldilocks_base_field_tools.hpp on every run by the "mpz mode" of tools/tr_cxx.py — equal the hand model Model/Conv.lean.
  A change of the C++ text changes the generated definitions and these proofs are re-checked against them.

  What stays modelled (externs of Model/TrMpz.lean): GMP's numeral parser (`Mpz.ofString` = `Model.parseInt`) and printer
  (`Mpz.getStr`, the digit loop `Model.toDigitsR`); `Mpz.getUi` / `Mpz.getSi` state what `mpz_get_ui` / `mpz_get_si` return.
-/
import GoldilocksVerif.Gen.ConvGen
import GoldilocksVerif.Lemmas.ConvF
set_option linter.unusedSimpArgs false
set_option linter.unusedVariables false
namespace GoldilocksVerif.BridgeConv
open GoldilocksVerif Gen.Scalar Gen.ConvGen Model

/-! ### `get_si` on values that fit -/

theorem getSi_natCast (n : Nat) (h : n < 9223372036854775808) : Mpz.getSi (n : Int) = BitVec.ofNat 64 n := by
  unfold Mpz.getSi
  by_cases h0 : 0 < (n : Int)
  · rw [if_pos h0, Int.natAbs_natCast]
    have e : n % 18446744073709551616 % 9223372036854775808 = n := by omega
    rw [e]
  · have hn : n = 0 := by omega
    subst hn
    rw [if_neg h0, if_neg (by decide)]

theorem getSi_neg_natCast (n : Nat) (h0 : 0 < n) (h : n ≤ 9223372036854775808) :
    Mpz.getSi (-(n : Int)) = - BitVec.ofNat 64 n := by
  unfold Mpz.getSi
  have c1 : ¬ (0 < -(n : Int)) := by omega
  have c2 : -(n : Int) < 0 := by omega
  rw [if_neg c1, if_pos c2, Int.natAbs_neg, Int.natAbs_natCast]
  have e : (n % 18446744073709551616 + 18446744073709551615) % 18446744073709551616 % 9223372036854775808 = n - 1 := by omega
  rw [e]
  have e2 : (-1 - ((n - 1 : Nat) : Int)) = -(n : Int) := by omega
  rw [e2, BitVec.ofInt_neg, BitVec.ofInt_natCast]

/-- `get_si()` returns the value whenever it fits `long` -/
theorem getSi_of_fits (x : Int) (h : -9223372036854775808 ≤ x ∧ x < 9223372036854775808) :
    Mpz.getSi x = BitVec.ofInt 64 x := by
  rcases Int.lt_or_le x 0 with hneg | hpos
  · obtain ⟨n, hn⟩ : ∃ n : Nat, x = -(n : Int) := ⟨x.natAbs, by omega⟩
    subst hn
    rw [getSi_neg_natCast n (by omega) (by omega), BitVec.ofInt_neg, BitVec.ofInt_natCast]
  · obtain ⟨n, hn⟩ : ∃ n : Nat, x = (n : Int) := ⟨x.natAbs, by omega⟩
    subst hn
    rw [getSi_natCast n (by omega), BitVec.ofInt_natCast]

theorem toInt_ofInt64_of_fits (x : Int) (h : -9223372036854775808 ≤ x ∧ x < 9223372036854775808) :
    (BitVec.ofInt 64 x).toInt = x := by
  rw [BitVec.toInt_ofInt]
  unfold Int.bmod
  simp only [Nat.reducePow]
  omega

theorem toInt_ofInt32_of_fits (x : Int) (h : -2147483648 ≤ x ∧ x < 2147483648) :
    (BitVec.ofInt 32 x).toInt = x := by
  rw [BitVec.toInt_ofInt]
  unfold Int.bmod
  simp only [Nat.reducePow]
  omega

/-- `(int32_t)` of a `long`: truncation of the two's complement pattern -/
theorem setWidth32_ofInt64 (x : Int) : BitVec.setWidth 32 (BitVec.ofInt 64 x) = BitVec.ofInt 32 x := by
  apply BitVec.eq_of_toNat_eq
  rw [BitVec.toNat_setWidth, BitVec.toNat_ofInt, BitVec.toNat_ofInt]
  simp only [Nat.reducePow]
  omega

/-! ### inward conversions -/

/-- the two arms of `fromS64` / `fromS32`, however the C++ spells them (`c ? x = a + p : x = a`, `x = a; if (c) x += p;`,
    either operand order of the wrapping addition, either polarity of the sign test): every `if` of both sides is split and
    each case is an identity, commutativity of `+`, or contradicts the sign of the argument.  (`with_reducible`: a FAILING
    unification of two sums with 2^64-sized literals runs into the recursion limit, which `first` cannot catch.) -/
macro "sign_arms" : tactic => `(tactic| (
  simp only [BitVec.msb_eq_toInt, decide_eq_true_eq] <;>
  (split_ifs <;> first
    | with_reducible rfl
    | with_reducible exact BitVec.add_comm _ _
    | (exfalso; omega))))

theorem fromS64_e_gen_eq (x : BitVec 64) : fromS64__ei x = Model.fromS64 x := by
  unfold fromS64__ei Model.fromS64
  sign_arms

theorem fromS64_r_gen_eq (x : BitVec 64) : fromS64__ri x = Model.fromS64 x := by
  unfold fromS64__ri
  exact fromS64_e_gen_eq x

theorem fromS32_e_gen_eq (x : BitVec 32) : fromS32__ei x = Model.fromS32 x := by
  unfold fromS32__ei Model.fromS32
  sign_arms

theorem fromS32_r_gen_eq (x : BitVec 32) : fromS32__ri x = Model.fromS32 x := by
  unfold fromS32__ri
  exact fromS32_e_gen_eq x

/-- the prime as an `mpz_class` built from the 64-bit constant (`const uint64_t prime = (uint64_t)GOLDILOCKS_PRIME`) -/
theorem ofU64_P : Mpz.ofU64 18446744069414584321#64 = (18446744069414584321 : Int) := by decide

theorem fromScalar_e_gen_eq (x : Int) : fromScalar__eZ x = Model.fromScalar x := by
  unfold fromScalar__eZ Model.fromScalar Mpz.getUi Model.getUi
  simp only [ofU64_P, P_int]

theorem fromScalar_r_gen_eq (x : Int) : fromScalar__rZ x = Model.fromScalar x := by
  unfold fromScalar__rZ
  exact fromScalar_e_gen_eq x

/-- the generated `fromString` for every fuel (there is no loop: `fuel` is not used): `none` exactly when the numeral is
    refused (the C++ constructor throws), otherwise the hand model's value -/
theorem fromString_e_gen_eq (fuel : Nat) (s : String) (radix : Int) :
    fromString__eSi fuel s radix = Model.fromString s radix.toNat := by
  unfold fromString__eSi Model.fromString Mpz.ofString
  cases h : parseInt radix.toNat s with
  | none => rfl
  | some v =>
    show some (Mpz.getUi _) = some (Model.fromScalar v)
    unfold Model.fromScalar Mpz.getUi Model.getUi
    simp only [ofU64_P, P_int]

theorem fromString_r_gen_eq (fuel : Nat) (s : String) (radix : Int) :
    fromString__rSi fuel s radix = Model.fromString s radix.toNat := by
  unfold fromString__rSi
  rw [fromString_e_gen_eq]
  cases Model.fromString s radix.toNat <;> rfl

/-! ### outward conversions -/

theorem toU64_lt (a : BitVec 64) : (toU64__rE a).toNat < 18446744069414584321 := by
  rw [Model.toU64_r_toNat]
  exact Nat.mod_lt _ (by decide)

/-- `toS64`: whatever `result` held before the call, it is overwritten with the hand model's value (two's complement).
    The proof splits every `if` of both sides and closes each case by linear arithmetic over the canonical value n < p
    (it does not depend on how the thresholds are spelled in the source) -/
theorem toS64_i_gen_eq (r a : BitVec 64) : toS64__iE r a = BitVec.ofInt 64 (Model.toS64 a) := by
  unfold toS64__iE Model.toS64 Mpz.ofU64
  have hlt := toU64_lt a
  have hh : (P - 1) / 2 = 9223372034707292160 := by decide
  have hP : P = 18446744069414584321 := rfl
  simp only [hh, hP, decide_eq_true_eq, Bool.not_eq_true', decide_eq_false_iff_not, Bool.and_eq_true, Bool.or_eq_true]
  generalize (toU64__rE a).toNat = n at hlt
  split_ifs <;> first
    | (exfalso; omega)
    | (rw [getSi_of_fits _ (by constructor <;> omega), ← BitVec.ofInt_neg]; congr 1; omega)
    | (rw [getSi_of_fits _ (by constructor <;> omega)])

theorem toS64_r_gen_eq (a : BitVec 64) : toS64__rE a = BitVec.ofInt 64 (Model.toS64 a) := by
  unfold toS64__rE
  exact toS64_i_gen_eq _ a

theorem toS64_fits (a : BitVec 64) : -9223372036854775808 ≤ Model.toS64 a ∧ Model.toS64 a < 9223372036854775808 := by
  have h := toS64_range a
  have hh : (((P - 1) / 2 : Nat) : Int) = 9223372034707292160 := by decide
  rw [hh] at h
  omega

/-- the signed value of the generated `toS64` is the hand model's integer -/
theorem toS64_i_gen_toInt (r a : BitVec 64) : (toS64__iE r a).toInt = Model.toS64 a := by
  rw [toS64_i_gen_eq, toInt_ofInt64_of_fits _ (toS64_fits a)]

theorem toS64_r_gen_toInt (a : BitVec 64) : (toS64__rE a).toInt = Model.toS64 a := by
  rw [toS64_r_gen_eq, toInt_ofInt64_of_fits _ (toS64_fits a)]

/-- `toS32`: the flag is the hand model's flag; on success `result` is the hand model's value (two's complement, 32 bits),
    on failure `result` keeps the value it had before the call -/
theorem toS32_gen_eq (r : BitVec 32) (a : BitVec 64) :
    Gen.ConvGen.toS32 r a =
      if (Model.toS32 a).1 then (true, BitVec.ofInt 32 (Model.toS32 a).2) else (false, r) := by
  unfold Gen.ConvGen.toS32 Model.toS32 Mpz.ofU64
  have hlt := toU64_lt a
  have hP : P = 18446744069414584321 := rfl
  simp only [hP, decide_eq_true_eq, Bool.not_eq_true', decide_eq_false_iff_not, Bool.and_eq_true, Bool.or_eq_true]
  generalize (toU64__rE a).toNat = n at hlt
  split_ifs <;> first
    | (exfalso; omega)
    | rfl
    | (exfalso; simp at *; done)
    | (rw [getSi_of_fits _ (by constructor <;> omega), ← BitVec.ofInt_neg, setWidth32_ofInt64]; congr 2; omega)
    | (rw [getSi_of_fits _ (by constructor <;> omega), setWidth32_ofInt64])

/-- `toString`: the generated function prints the hand model's numeral (the printer itself is the extern `Mpz.getStr`) -/
theorem toString_s_gen_eq (a : BitVec 64) (radix : Int) : toString__sEi a radix = Model.toStringR a radix.toNat := by
  unfold toString__sEi Model.toStringR Mpz.getStr Mpz.ofU64
  dsimp only
  have hlt : (toU64__rE a).toNat < 18446744073709551616 := (toU64__rE a).isLt
  generalize (toU64__rE a).toNat = n at hlt
  have c : ¬ ((n : Int) < 0) := by omega
  rw [if_neg c, Int.natAbs_natCast]
  have e : max 64 (n.log2 + 1) = 64 := by
    by_cases hn : n = 0
    · subst hn; decide
    · have : n.log2 < 64 := (Nat.log2_lt hn).mpr hlt
      omega
  rw [e]
  exact String.empty_append

theorem toString_r_gen_eq (a : BitVec 64) (radix : Int) : toString__rEi a radix = Model.toStringR a radix.toNat := by
  unfold toString__rEi
  exact toString_s_gen_eq a radix

end GoldilocksVerif.BridgeConv
