/-
  AVX2 12-wide kernels (Gen/Avx2Mat.lean) in the field view.  Helper lemmas; statements in Props/C13.lean.
-/
import GoldilocksVerif.Gen.Avx2Mat
import GoldilocksVerif.Lemmas.Avx2Mul
import GoldilocksVerif.Lemmas.Field
set_option linter.unusedSimpArgs false
namespace GoldilocksVerif
open Gen.Avx2 Gen.Avx2Mat Gen.VecConsts Lane

/-! lane kernels in the field view -/
theorem den_add_avx (a b : V4) (i : Fin 4) : den ((add_avx__vVV a b).get i) = den (a.get i) + den (b.get i) := by
  apply den_add_of; rw [add_get, add_spec]
theorem den_mult_avx (a b : V4) (i : Fin 4) : den ((mult_avx a b).get i) = den (a.get i) * den (b.get i) := by
  apply den_mul_of; exact mult_spec a b i

theorem get_load (r : Region) (i : Fin 4) : (Avx2.load r).get i = r i.val := by
  match i with
  | 0 => rfl | 1 => rfl | 2 => rfl | 3 => rfl

/-- the 12 products of one row: a_j[k] · M[off + 4j + k] -/
def dot12 (a0 a1 a2 : V4) (M : Region) (off : Nat) : F :=
  den a0.l0 * den (M off) + den a0.l1 * den (M (off + 1)) + den a0.l2 * den (M (off + 2)) + den a0.l3 * den (M (off + 3)) +
  (den a1.l0 * den (M (off + 4)) + den a1.l1 * den (M (off + 5)) + den a1.l2 * den (M (off + 6)) + den a1.l3 * den (M (off + 7))) +
  (den a2.l0 * den (M (off + 8)) + den a2.l1 * den (M (off + 9)) + den a2.l2 * den (M (off + 10)) + den a2.l3 * den (M (off + 11)))

/-! #### spmv_avx_4x12(_a) -/

theorem spmv_den (a0 a1 a2 : V4) (b : Region) (i : Fin 4) :
    den ((spmv_avx_4x12 a0 a1 a2 b).get i) =
      den (a0.get i) * den (b i.val) + den (a1.get i) * den (b (4 + i.val)) + den (a2.get i) * den (b (8 + i.val)) := by
  simp only [spmv_avx_4x12, load_avx, den_add_avx, den_mult_avx, get_load, Region.shift_apply]

/-- the operand order of the lane products is free (`mult_avx_comm` is a permutation lemma: `simp` orders both sides) -/
theorem spmv_a_eq (a0 a1 a2 : V4) (b : Region) : spmv_avx_4x12_a a0 a1 a2 b = spmv_avx_4x12 a0 a1 a2 b := by
  simp only [spmv_avx_4x12_a, spmv_avx_4x12, load_avx, load_avx_a, mult_avx_comm]

/-! #### dot_avx(_a) -/

theorem store_get (r : Region) (v : V4) :
    (Avx2.store r v) 0 = v.l0 ∧ (Avx2.store r v) 1 = v.l1 ∧ (Avx2.store r v) 2 = v.l2 ∧ (Avx2.store r v) 3 = v.l3 := by
  refine ⟨rfl, rfl, rfl, rfl⟩

/-- reading a lane straight from the register (`_mm256_extract_epi64`) -/
theorem extract_get (v : V4) :
    Avx2.extract_epi64 v 0 = v.l0 ∧ Avx2.extract_epi64 v 1 = v.l1 ∧ Avx2.extract_epi64 v 2 = v.l2 ∧
    Avx2.extract_epi64 v 3 = v.l3 := by
  refine ⟨rfl, rfl, rfl, rfl⟩

theorem dot_den (a0 a1 a2 : V4) (b : Region) : den (dot_avx a0 a1 a2 b) = dot12 a0 a1 a2 b 0 := by
  -- the four lanes, whether they go through a stored temporary or are extracted from the register
  simp only [dot_avx, store_avx, den_add_r, (store_get _ _).1, (store_get _ _).2.1, (store_get _ _).2.2.1,
    (store_get _ _).2.2.2, (extract_get _).1, (extract_get _).2.1, (extract_get _).2.2.1, (extract_get _).2.2.2]
  have h0 := spmv_den a0 a1 a2 b 0
  have h1 := spmv_den a0 a1 a2 b 1
  have h2 := spmv_den a0 a1 a2 b 2
  have h3 := spmv_den a0 a1 a2 b 3
  simp only [V4.get] at h0 h1 h2 h3
  rw [h0, h1, h2, h3]
  simp only [dot12, Fin.val_zero, Fin.val_one, Fin.val_two, Nat.add_zero, Nat.zero_add]
  have e3 : ((3 : Fin 4).val) = 3 := rfl
  rw [e3]
  ring

set_option linter.unusedTactic false in
set_option linter.unreachableTactic false in
theorem dot_a_eq (a0 a1 a2 : V4) (b : Region) : dot_avx_a a0 a1 a2 b = dot_avx a0 a1 a2 b := by
  -- (`store_avx_a` is only translated while some kernel calls it: the second alternative is for a text without it)
  first
    | simp only [dot_avx_a, dot_avx, spmv_a_eq, store_avx, store_avx_a, (store_get _ _).1, (store_get _ _).2.1,
        (store_get _ _).2.2.1, (store_get _ _).2.2.2, (extract_get _).1, (extract_get _).2.1, (extract_get _).2.2.1,
        (extract_get _).2.2.2]
    | simp only [dot_avx_a, dot_avx, spmv_a_eq, store_avx, (store_get _ _).1, (store_get _ _).2.1,
        (store_get _ _).2.2.1, (store_get _ _).2.2.2, (extract_get _).1, (extract_get _).2.1, (extract_get _).2.2.1,
        (extract_get _).2.2.2]

/-! #### mmult_avx_4x12(_a): four sparse products, 4x4 transpose, column sums -/

theorem permute_32 (a b : V4) : Avx2.permute2f128 a b 32 = ⟨a.l0, a.l1, b.l0, b.l1⟩ := rfl
theorem permute_49 (a b : V4) : Avx2.permute2f128 a b 49 = ⟨a.l2, a.l3, b.l2, b.l3⟩ := rfl

/-- the permute/unpack network is the 4x4 transpose.  (Documentation only: the proofs below evaluate the shuffles
  themselves — `permute_32`, `permute_49`, `unpacklo_pd`, `unpackhi_pd` on explicit lanes — so the two stages may come
  in either order, or be replaced by any other network of these intrinsics that yields the columns.) -/
theorem transpose4 (r0 r1 r2 r3 : V4) :
    Avx2.unpacklo_pd (Avx2.permute2f128 r0 r2 32) (Avx2.permute2f128 r1 r3 32) = ⟨r0.l0, r1.l0, r2.l0, r3.l0⟩ ∧
    Avx2.unpackhi_pd (Avx2.permute2f128 r0 r2 32) (Avx2.permute2f128 r1 r3 32) = ⟨r0.l1, r1.l1, r2.l1, r3.l1⟩ ∧
    Avx2.unpacklo_pd (Avx2.permute2f128 r0 r2 49) (Avx2.permute2f128 r1 r3 49) = ⟨r0.l2, r1.l2, r2.l2, r3.l2⟩ ∧
    Avx2.unpackhi_pd (Avx2.permute2f128 r0 r2 49) (Avx2.permute2f128 r1 r3 49) = ⟨r0.l3, r1.l3, r2.l3, r3.l3⟩ := by
  simp only [permute_32, permute_49, Avx2.unpacklo_pd, Avx2.unpackhi_pd, and_self]

theorem spmv_row_sum (a0 a1 a2 : V4) (M : Region) (off : Nat) :
    den (spmv_avx_4x12 a0 a1 a2 (Region.shift M off)).l0 + den (spmv_avx_4x12 a0 a1 a2 (Region.shift M off)).l1 +
      (den (spmv_avx_4x12 a0 a1 a2 (Region.shift M off)).l2 + den (spmv_avx_4x12 a0 a1 a2 (Region.shift M off)).l3) =
    dot12 a0 a1 a2 M off := by
  have h0 := spmv_den a0 a1 a2 (Region.shift M off) 0
  have h1 := spmv_den a0 a1 a2 (Region.shift M off) 1
  have h2 := spmv_den a0 a1 a2 (Region.shift M off) 2
  have h3 := spmv_den a0 a1 a2 (Region.shift M off) 3
  have e3 : ((3 : Fin 4).val) = 3 := rfl
  simp only [V4.get, Region.shift_apply, Fin.val_zero, Fin.val_one, Fin.val_two, e3, Nat.add_zero] at h0 h1 h2 h3
  rw [h0, h1, h2, h3]
  simp only [dot12, ← Nat.add_assoc]
  ring

theorem mmult_4x12_den (a0 a1 a2 : V4) (M : Region) (i : Fin 4) :
    den ((mmult_avx_4x12 a0 a1 a2 M).get i) = dot12 a0 a1 a2 M (12 * i.val) := by
  have e3 : ((3 : Fin 4).val) = 3 := rfl
  have s0 := spmv_row_sum a0 a1 a2 M 0
  have s1 := spmv_row_sum a0 a1 a2 M 12
  have s2 := spmv_row_sum a0 a1 a2 M 24
  have s3 := spmv_row_sum a0 a1 a2 M 36
  rw [Region.shift_zero] at s0
  simp only [mmult_avx_4x12, den_add_avx, permute_32, permute_49, Avx2.unpacklo_pd, Avx2.unpackhi_pd]
  match i with
  | 0 => simp only [V4.get, Fin.val_zero, Nat.mul_zero]; exact s0
  | 1 => simp only [V4.get, Fin.val_one, Nat.mul_one]; exact s1
  | 2 => simp only [V4.get, Fin.val_two]; exact s2
  | 3 => simp only [V4.get, e3]; exact s3

theorem mmult_4x12_a_eq (a0 a1 a2 : V4) (M : Region) : mmult_avx_4x12_a a0 a1 a2 M = mmult_avx_4x12 a0 a1 a2 M := by
  simp only [mmult_avx_4x12_a, mmult_avx_4x12, spmv_a_eq, permute_32, permute_49, Avx2.unpacklo_pd, Avx2.unpackhi_pd]


/-! #### mmult_avx(_a): the full 12x12 product = three 4x12 blocks -/

theorem mmult_den (a0 a1 a2 : V4) (M : Region) (i : Fin 4) :
    den ((mmult_avx a0 a1 a2 M).1.get i) = dot12 a0 a1 a2 M (12 * i.val) ∧
    den ((mmult_avx a0 a1 a2 M).2.1.get i) = dot12 a0 a1 a2 M (48 + 12 * i.val) ∧
    den ((mmult_avx a0 a1 a2 M).2.2.get i) = dot12 a0 a1 a2 M (96 + 12 * i.val) := by
  have h1 := mmult_4x12_den a0 a1 a2 M i
  have h2 := mmult_4x12_den a0 a1 a2 (Region.shift M 48) i
  have h3 := mmult_4x12_den a0 a1 a2 (Region.shift M 96) i
  simp only [dot12, Region.shift_apply, ← Nat.add_assoc] at h2 h3
  simp only [mmult_avx]
  refine ⟨h1, ?_, ?_⟩
  · rw [h2]; simp only [dot12, ← Nat.add_assoc]
  · rw [h3]; simp only [dot12, ← Nat.add_assoc]

theorem mmult_a_eq (a0 a1 a2 : V4) (M : Region) : mmult_avx_a a0 a1 a2 M = mmult_avx a0 a1 a2 M := by
  simp only [mmult_avx_a, mmult_avx, mmult_4x12_a_eq]

/-! #### 8-bit variants: 72-bit products, low parts added mod p, high parts added as integers -/

theorem den_mult72 (a b : V4) (i : Fin 4) (hb : (b.get i).toNat < 256) :
    den ((mult_avx_72 a b).2.get i) + ((((mult_avx_72 a b).1.get i).toNat : Nat) : F) * (18446744073709551616 : F) =
      den (a.get i) * den (b.get i) ∧ ((mult_avx_72 a b).1.get i).toNat < 256 := by
  rw [(mult72_get a b i).1, (mult72_get a b i).2]
  obtain ⟨s1, _⟩ := mul72_spec (a.get i) (b.get i)
  have e : (b.get i).toNat % 4294967296 = (b.get i).toNat := Nat.mod_eq_of_lt (by omega)
  rw [e] at s1
  constructor
  · unfold den
    have := congrArg (fun n : Nat => (n : F)) s1
    simp only [Nat.cast_add, Nat.cast_mul] at this
    rw [← this]; push_cast; ring
  · have ha := (a.get i).isLt
    have hp : (a.get i).toNat * (b.get i).toNat < 18446744073709551616 * 256 :=
      Nat.mul_lt_mul'' ha hb
    omega

theorem two64_F : (18446744073709551616 : F) = (4294967295 : F) := by
  have : ((18446744073709551616 : Nat) : F) = ((4294967295 : Nat) : F) :=
    natCast_eq_of_mod _ _ (by decide)
  exact_mod_cast this

/-- reduce_avx_96_64 in the field view, for a high word known as a natural number below 2^32 (the caller supplies
  the number; how the register holding it was computed is left to unification) -/
theorem den_reduce96_sum (h l : V4) (i : Fin 4) (t : Nat) (ht : (h.get i).toNat = t) (hlt : t < 4294967296) :
    den ((reduce_avx_96_64 h l).get i) = (t : F) * (18446744073709551616 : F) + den (l.get i) := by
  have red := reduce96_spec h l i
  rw [ht, Nat.mod_eq_of_lt hlt] at red
  rw [den_of_mod _ _ red]
  unfold den
  push_cast
  rfl

theorem spmv_8_den (a0 a1 a2 : V4) (b : Region) (i : Fin 4)
    (hb : ∀ k, k < 12 → (b k).toNat < 256) :
    den ((spmv_avx_4x12_8 a0 a1 a2 b).get i) =
      den (a0.get i) * den (b i.val) + den (a1.get i) * den (b (4 + i.val)) + den (a2.get i) * den (b (8 + i.val)) := by
  have hi := i.isLt
  have g0 : ((load_avx b).get i).toNat < 256 := by rw [load_avx, get_load]; exact hb _ (by omega)
  have g1 : ((load_avx (Region.shift b 4)).get i).toNat < 256 := by
    rw [load_avx, get_load, Region.shift_apply]; exact hb _ (by omega)
  have g2 : ((load_avx (Region.shift b 8)).get i).toNat < 256 := by
    rw [load_avx, get_load, Region.shift_apply]; exact hb _ (by omega)
  obtain ⟨m0, n0⟩ := den_mult72 a0 (load_avx b) i g0
  obtain ⟨m1, n1⟩ := den_mult72 a1 (load_avx (Region.shift b 4)) i g1
  obtain ⟨m2, n2⟩ := den_mult72 a2 (load_avx (Region.shift b 8)) i g2
  simp only [get_load, load_avx, Region.shift_apply] at m0 m1 m2
  -- the three 72-bit products: low parts added mod p (in any association), high parts (< 2^8 each) added as
  -- 64-bit integers (in any association and order), then one 96-bit reduction
  simp only [spmv_avx_4x12_8]
  rw [den_reduce96_sum _ _ i
    (((mult_avx_72 a0 (load_avx b)).1.get i).toNat + ((mult_avx_72 a1 (load_avx (Region.shift b 4))).1.get i).toNat +
      ((mult_avx_72 a2 (load_avx (Region.shift b 8))).1.get i).toNat)
    (by simp only [lane_get, BitVec.toNat_add]; omega) (by omega)]
  simp only [den_add_avx, load_avx]
  simp only [load_avx] at n0 n1 n2
  push_cast
  rw [← m0, ← m1, ← m2]
  ring


theorem spmv8_row_sum (a0 a1 a2 : V4) (M : Region) (off : Nat) (hb : ∀ k, k < 12 → (M (off + k)).toNat < 256) :
    den (spmv_avx_4x12_8 a0 a1 a2 (Region.shift M off)).l0 + den (spmv_avx_4x12_8 a0 a1 a2 (Region.shift M off)).l1 +
      (den (spmv_avx_4x12_8 a0 a1 a2 (Region.shift M off)).l2 + den (spmv_avx_4x12_8 a0 a1 a2 (Region.shift M off)).l3) =
    dot12 a0 a1 a2 M off := by
  have hb' : ∀ k, k < 12 → ((Region.shift M off) k).toNat < 256 := fun k hk => by
    rw [Region.shift_apply]; exact hb k hk
  have h0 := spmv_8_den a0 a1 a2 (Region.shift M off) 0 hb'
  have h1 := spmv_8_den a0 a1 a2 (Region.shift M off) 1 hb'
  have h2 := spmv_8_den a0 a1 a2 (Region.shift M off) 2 hb'
  have h3 := spmv_8_den a0 a1 a2 (Region.shift M off) 3 hb'
  have e3 : ((3 : Fin 4).val) = 3 := rfl
  simp only [V4.get, Region.shift_apply, Fin.val_zero, Fin.val_one, Fin.val_two, e3, Nat.add_zero] at h0 h1 h2 h3
  rw [h0, h1, h2, h3]
  simp only [dot12, ← Nat.add_assoc]
  ring

theorem mmult_4x12_8_den (a0 a1 a2 : V4) (M : Region) (i : Fin 4) (hb : ∀ k, k < 48 → (M k).toNat < 256) :
    den ((mmult_avx_4x12_8 a0 a1 a2 M).get i) = dot12 a0 a1 a2 M (12 * i.val) := by
  have e3 : ((3 : Fin 4).val) = 3 := rfl
  have s0 := spmv8_row_sum a0 a1 a2 M 0 (fun k hk => hb _ (by omega))
  have s1 := spmv8_row_sum a0 a1 a2 M 12 (fun k hk => hb _ (by omega))
  have s2 := spmv8_row_sum a0 a1 a2 M 24 (fun k hk => hb _ (by omega))
  have s3 := spmv8_row_sum a0 a1 a2 M 36 (fun k hk => hb _ (by omega))
  rw [Region.shift_zero] at s0
  simp only [mmult_avx_4x12_8, den_add_avx, permute_32, permute_49, Avx2.unpacklo_pd, Avx2.unpackhi_pd]
  match i with
  | 0 => simp only [V4.get, Fin.val_zero, Nat.mul_zero]; exact s0
  | 1 => simp only [V4.get, Fin.val_one, Nat.mul_one]; exact s1
  | 2 => simp only [V4.get, Fin.val_two]; exact s2
  | 3 => simp only [V4.get, e3]; exact s3

theorem mmult_8_den (a0 a1 a2 : V4) (M : Region) (i : Fin 4) (hb : ∀ k, k < 144 → (M k).toNat < 256) :
    den ((mmult_avx_8 a0 a1 a2 M).1.get i) = dot12 a0 a1 a2 M (12 * i.val) ∧
    den ((mmult_avx_8 a0 a1 a2 M).2.1.get i) = dot12 a0 a1 a2 M (48 + 12 * i.val) ∧
    den ((mmult_avx_8 a0 a1 a2 M).2.2.get i) = dot12 a0 a1 a2 M (96 + 12 * i.val) := by
  have h1 := mmult_4x12_8_den a0 a1 a2 M i (fun k hk => hb _ (by omega))
  have h2 := mmult_4x12_8_den a0 a1 a2 (Region.shift M 48) i (fun k hk => by
    rw [Region.shift_apply]; exact hb _ (by omega))
  have h3 := mmult_4x12_8_den a0 a1 a2 (Region.shift M 96) i (fun k hk => by
    rw [Region.shift_apply]; exact hb _ (by omega))
  simp only [dot12, Region.shift_apply, ← Nat.add_assoc] at h2 h3
  simp only [mmult_avx_8]
  refine ⟨h1, ?_, ?_⟩
  · rw [h2]; simp only [dot12, ← Nat.add_assoc]
  · rw [h3]; simp only [dot12, ← Nat.add_assoc]

end GoldilocksVerif
