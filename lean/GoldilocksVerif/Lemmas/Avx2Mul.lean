/-
  AVX2 lane kernels, part 2: 128-bit / 72-bit products, squares and the reductions.  Helper lemmas only.
-/
import GoldilocksVerif.Lemmas.Avx2Nat
set_option linter.unusedSimpArgs false
namespace GoldilocksVerif
open Gen.Avx2 Gen.VecConsts Lane

theorem split_mul (x y ah al bh bl : Nat) (hx : x = ah * 4294967296 + al) (hy : y = bh * 4294967296 + bl) :
    x * y = ah * bh * 18446744073709551616 + (ah * bl + al * bh) * 4294967296 + al * bl := by
  subst hx hy
  simp only [Nat.add_mul, Nat.mul_add]
  have e1 : ah * 4294967296 * (bh * 4294967296) = ah * bh * 18446744073709551616 := by
    rw [Nat.mul_mul_mul_comm]
  have e2 : ah * 4294967296 * bl = ah * bl * 4294967296 := Nat.mul_right_comm _ _ _
  have e3 : al * (bh * 4294967296) = al * bh * 4294967296 := (Nat.mul_assoc _ _ _).symm
  rw [e1, e2, e3]
  omega

theorem mul32_le (a b : Nat) (ha : a < 4294967296) (hb : b < 4294967296) : a * b ≤ 18446744065119617025 := by
  have : a * b ≤ 4294967295 * 4294967295 := Nat.mul_le_mul (by omega) (by omega)
  omega

/-- schoolbook recombination of `mult_avx_128` on the four 32x32 partial products -/
theorem mul128_core (hh hl lh ll : Nat) (h1 : hh ≤ 18446744065119617025) (h2 : hl ≤ 18446744065119617025)
    (h3 : lh ≤ 18446744065119617025) (h4 : ll ≤ 18446744065119617025) :
    ((hh + (hl + ll / 4294967296) % 18446744073709551616 / 4294967296) % 18446744073709551616 +
        (lh + (hl + ll / 4294967296) % 18446744073709551616 % 4294967296) % 18446744073709551616 / 4294967296) %
          18446744073709551616 * 18446744073709551616 +
      ((lh + (hl + ll / 4294967296) % 18446744073709551616 % 4294967296) % 18446744073709551616 % 4294967296 * 4294967296 +
        ll % 4294967296) =
    hh * 18446744073709551616 + (hl + lh) * 4294967296 + ll := by
  omega

theorem mul72_core (hl ll : Nat) (h2 : hl ≤ 18446744065119617025) (h4 : ll ≤ 18446744065119617025) :
    (hl + ll / 4294967296) % 18446744073709551616 / 4294967296 * 18446744073709551616 +
      ((hl + ll / 4294967296) % 18446744073709551616 % 4294967296 * 4294967296 + ll % 4294967296) =
    hl * 4294967296 + ll := by
  omega

/-- the four 32x32 partial products of two 64-bit values, their bounds, both orders of every product, and the
  schoolbook identity: the facts the 128-bit / 72-bit product proofs hand to `omega` (products become atoms) -/
theorem halves_facts (x y : Nat) (hx : x < 18446744073709551616) (hy : y < 18446744073709551616) :
    x / 4294967296 * (y / 4294967296) ≤ 18446744065119617025 ∧
    x / 4294967296 * (y % 4294967296) ≤ 18446744065119617025 ∧
    x % 4294967296 * (y / 4294967296) ≤ 18446744065119617025 ∧
    x % 4294967296 * (y % 4294967296) ≤ 18446744065119617025 ∧
    x * y = x / 4294967296 * (y / 4294967296) * 18446744073709551616 +
      (x / 4294967296 * (y % 4294967296) + x % 4294967296 * (y / 4294967296)) * 4294967296 +
      x % 4294967296 * (y % 4294967296) ∧
    x * (y % 4294967296) = x / 4294967296 * (y % 4294967296) * 4294967296 + x % 4294967296 * (y % 4294967296) := by
  have b1 : x / 4294967296 < 4294967296 := by omega
  have b2 : x % 4294967296 < 4294967296 := by omega
  have b3 : y / 4294967296 < 4294967296 := by omega
  have b4 : y % 4294967296 < 4294967296 := by omega
  have e1 : x = x / 4294967296 * 4294967296 + x % 4294967296 := by omega
  have e2 : y = y / 4294967296 * 4294967296 + y % 4294967296 := by omega
  refine ⟨mul32_le _ _ b1 b3, mul32_le _ _ b1 b4, mul32_le _ _ b2 b3, mul32_le _ _ b2 b4,
    split_mul x y _ _ _ _ e1 e2, ?_⟩
  conv => lhs; rw [e1]
  rw [Nat.add_mul, Nat.mul_right_comm]

/-- after `lane_nat`: bring every partial product into the order used by `halves_facts`, name the products,
  forget where they came from and let `omega` recombine them.  `x y` are the operand words. -/
macro "products_omega" x:term "," y:term : tactic => `(tactic| (
  obtain ⟨h1, h2, h3, h4, key, key72⟩ := halves_facts (($x).toNat) (($y).toNat) (BitVec.isLt _) (BitVec.isLt _)
  try rw [Nat.mul_comm (($y).toNat / 4294967296) (($x).toNat / 4294967296)] at *
  try rw [Nat.mul_comm (($y).toNat % 4294967296) (($x).toNat / 4294967296)] at *
  try rw [Nat.mul_comm (($y).toNat / 4294967296) (($x).toNat % 4294967296)] at *
  try rw [Nat.mul_comm (($y).toNat % 4294967296) (($x).toNat % 4294967296)] at *
  generalize ($x).toNat / 4294967296 * (($y).toNat / 4294967296) = hh at *
  generalize ($x).toNat / 4294967296 * (($y).toNat % 4294967296) = hl at *
  generalize ($x).toNat % 4294967296 * (($y).toNat / 4294967296) = lh at *
  generalize ($x).toNat % 4294967296 * (($y).toNat % 4294967296) = ll at *
  generalize ($x).toNat * ($y).toNat = xy at *
  generalize ($x).toNat * (($y).toNat % 4294967296) = xyl at *
  omega))

/-! #### mult_avx_128 -/

def mul128h (x y : BitVec 64) : BitVec 64 := ((mult_avx_128 (V4.splat x) (V4.splat y)).1).get 0
def mul128l (x y : BitVec 64) : BitVec 64 := ((mult_avx_128 (V4.splat x) (V4.splat y)).2).get 0

theorem mult128_get (a b : V4) (i : Fin 4) :
    (mult_avx_128 a b).1.get i = mul128h (a.get i) (b.get i) ∧
    (mult_avx_128 a b).2.get i = mul128l (a.get i) (b.get i) := by
  unfold mul128h mul128l
  simp only [mult_avx_128, lane_get]

/-- the 128-bit product is exact, for all operands -/
theorem mul128_spec (x y : BitVec 64) :
    (mul128h x y).toNat * 18446744073709551616 + (mul128l x y).toNat = x.toNat * y.toNat := by
  unfold mul128h mul128l
  simp only [mult_avx_128, lane_get, lane_nat]
  products_omega x, y


/-- 2^64 = 2^32 - 1 and 2^96 = -1 (mod p): the reduction identity behind reduce_*_128_64 -/
theorem reduce128_core (u hh hl cl r : Nat) (h1 : (u + hh) % P = cl % P)
    (h2 : r % P = (u + hl * 4294967295) % P) :
    r % P = ((hh * 4294967296 + hl) * 18446744073709551616 + cl) % P := by
  have c1 := mod_eq_cert _ _ h1
  have c2 := mod_eq_cert _ _ h2
  generalize (u + hh) / P = q1 at *
  generalize cl / P = q2 at *
  generalize r / P = q4 at *
  generalize (u + hl * 4294967295) / P = q3 at *
  apply mod_cert r _ (q2 + q3 + hh * 4294967297 + hl) (q1 + q4)
  unfold P at *
  omega

/-! #### reduce_avx_128_64 -/

theorem reduce128_get (h l : V4) (i : Fin 4) :
    (reduce_avx_128_64 h l).get i = L2.bin reduce_avx_128_64 (h.get i) (l.get i) := by
  unfold L2.bin
  simp only [reduce_avx_128_64, shift_get, sub_s_b_small_get, add_s_b_small_get, lane_get]

theorem mul32_Pn_toNat (h : BitVec 64) : (mul32 h 4294967295#64).toNat = h.toNat % 4294967296 * 4294967295 := by
  rw [mul32_toNat]; rfl
theorem Pn_mul32_toNat (h : BitVec 64) : (mul32 4294967295#64 h).toNat = h.toNat % 4294967296 * 4294967295 := by
  rw [mul32_toNat, Nat.mul_comm]; rfl

/-- reduce_avx_128_64 : for all 128-bit inputs (c_h, c_l) the result represents c_h·2^64 + c_l mod p -/
theorem reduce128_spec (h l : BitVec 64) :
    (L2.bin reduce_avx_128_64 h l).toNat % P = (h.toNat * 18446744073709551616 + l.toNat) % P := by
  -- the call structure: shift, subtract the top 32 bits, add (low 32 bits of c_h)·(2^32-1), shift back
  have e : ∃ m, (m.toNat = h.toNat % 4294967296 * 4294967295) ∧ L2.bin reduce_avx_128_64 h l =
      L2.un shift_avx (L2.bin add_avx_s_b_small (L2.bin sub_avx_s_b_small (L2.un shift_avx l) (h >>> 32)) m) := by
    -- (`refine … ?_; …; done` inside `first`: an error in a nested `by` of `exact ⟨…⟩` would not make `first` backtrack)
    first
      | (refine ⟨mul32 h 4294967295#64, mul32_Pn_toNat h, ?_⟩
         unfold L2.bin
         simp only [reduce_avx_128_64, shift_get, sub_s_b_small_get, add_s_b_small_get, lane_get]
         done)
      | (refine ⟨mul32 4294967295#64 h, Pn_mul32_toNat h, ?_⟩
         unfold L2.bin
         simp only [reduce_avx_128_64, shift_get, sub_s_b_small_get, add_s_b_small_get, lane_get]
         done)
  obtain ⟨m, hm, e⟩ := e
  rw [e, shift_spec]
  have hh := h.isLt
  have b1 : (h >>> 32).toNat ≤ 18446744069414584320 := by rw [ushr32_toNat]; omega
  have b2 : m.toNat ≤ 18446744069414584320 := by
    rw [hm]
    have := mul32_le (h.toNat % 4294967296) 4294967295 (by omega) (by decide)
    omega
  have s1 := sub_s_b_small_spec (L2.un shift_avx l) (h >>> 32) b1
  have s2 := add_s_b_small_spec (L2.bin sub_avx_s_b_small (L2.un shift_avx l) (h >>> 32)) m b2
  rw [shift_spec, unsh_unsh _ l.isLt, ushr32_toNat] at s1
  rw [hm] at s2
  have key := reduce128_core _ (h.toNat / 4294967296) (h.toNat % 4294967296) l.toNat _ s1 s2
  have e2 : h.toNat / 4294967296 * 4294967296 + h.toNat % 4294967296 = h.toNat := by omega
  rw [e2] at key
  exact key

/-! #### mult_avx -/

theorem mult_get (a b : V4) (i : Fin 4) :
    (mult_avx a b).get i = L2.bin reduce_avx_128_64 (mul128h (a.get i) (b.get i)) (mul128l (a.get i) (b.get i)) := by
  simp only [mult_avx, reduce128_get, (mult128_get a b i).1, (mult128_get a b i).2]

/-- mult_avx : every lane is the product mod p, for all 2^64 x 2^64 lane contents -/
theorem mult_spec (a b : V4) (i : Fin 4) :
    ((mult_avx a b).get i).toNat % P = ((a.get i).toNat * (b.get i).toNat) % P := by
  rw [mult_get, reduce128_spec, mul128_spec]

/-- the two words of the exact product are determined by the product: exchanging the operands changes no bit -/
theorem mul128_comm (x y : BitVec 64) : mul128h x y = mul128h y x ∧ mul128l x y = mul128l y x := by
  have s1 := mul128_spec x y
  have s2 := mul128_spec y x
  rw [Nat.mul_comm y.toNat x.toNat] at s2
  have a1 := (mul128l x y).isLt
  have a2 := (mul128l y x).isLt
  generalize x.toNat * y.toNat = p at *
  constructor <;> apply BitVec.eq_of_toNat_eq <;> omega

/-- `mult_avx(c, a, b)` and `mult_avx(c, b, a)` return the same register (bit for bit, not only mod p) -/
theorem mult_avx_comm (a b : V4) : mult_avx a b = mult_avx b a := by
  apply V4.ext_get; intro i
  rw [mult_get, mult_get, (mul128_comm (a.get i) (b.get i)).1, (mul128_comm (a.get i) (b.get i)).2]

/-! #### mult_avx_72 / reduce_avx_96_64 / mult_avx_8 -/

def mul72h (x y : BitVec 64) : BitVec 64 := ((mult_avx_72 (V4.splat x) (V4.splat y)).1).get 0
def mul72l (x y : BitVec 64) : BitVec 64 := ((mult_avx_72 (V4.splat x) (V4.splat y)).2).get 0

theorem mult72_get (a b : V4) (i : Fin 4) :
    (mult_avx_72 a b).1.get i = mul72h (a.get i) (b.get i) ∧
    (mult_avx_72 a b).2.get i = mul72l (a.get i) (b.get i) := by
  unfold mul72h mul72l
  simp only [mult_avx_72, lane_get]

/-- mult_avx_72 : exact product of `a` with the low 32 bits of `b`; the high word is below 2^32 -/
theorem mul72_spec (x y : BitVec 64) :
    (mul72h x y).toNat * 18446744073709551616 + (mul72l x y).toNat = x.toNat * (y.toNat % 4294967296) ∧
    (mul72h x y).toNat < 4294967296 := by
  unfold mul72h mul72l
  simp only [mult_avx_72, lane_get, lane_nat]
  products_omega x, y

theorem reduce96_get (h l : V4) (i : Fin 4) :
    (reduce_avx_96_64 h l).get i = L2.bin reduce_avx_96_64 (h.get i) (l.get i) := by
  unfold L2.bin
  simp only [reduce_avx_96_64, add_b_small_get, lane_get]

theorem reduce96_lane_spec (hv lv : BitVec 64) :
    (L2.bin reduce_avx_96_64 hv lv).toNat % P = (hv.toNat % 4294967296 * 18446744073709551616 + lv.toNat) % P := by
  have e : ∃ m, (m.toNat = hv.toNat % 4294967296 * 4294967295) ∧
      L2.bin reduce_avx_96_64 hv lv = L2.bin add_avx_b_small lv m := by
    first
      | (refine ⟨mul32 hv 4294967295#64, mul32_Pn_toNat hv, ?_⟩
         unfold L2.bin
         simp only [reduce_avx_96_64, add_b_small_get, lane_get]
         done)
      | (refine ⟨mul32 4294967295#64 hv, Pn_mul32_toNat hv, ?_⟩
         unfold L2.bin
         simp only [reduce_avx_96_64, add_b_small_get, lane_get]
         done)
  obtain ⟨m, hm, e⟩ := e
  have b2 : m.toNat ≤ 18446744069414584320 := by
    rw [hm]
    have := mul32_le (hv.toNat % 4294967296) 4294967295 (by omega) (by decide)
    omega
  rw [e, add_b_small_spec _ _ b2, hm]
  apply mod_cert _ _ (hv.toNat % 4294967296) 0
  unfold P
  omega

/-- reduce_avx_96_64 : uses the low 32 bits of c_h only -/
theorem reduce96_spec (h l : V4) (i : Fin 4) :
    ((reduce_avx_96_64 h l).get i).toNat % P =
      ((h.get i).toNat % 4294967296 * 18446744073709551616 + (l.get i).toNat) % P := by
  rw [reduce96_get, reduce96_lane_spec]

/-- mult_avx_8 : exact whenever the multiplier lane is below 2^32 (documented requirement: below 2^8) -/
theorem mult8_spec (a b : V4) (i : Fin 4) (hb : (b.get i).toNat < 4294967296) :
    ((mult_avx_8 a b).get i).toNat % P = ((a.get i).toNat * (b.get i).toNat) % P := by
  have r := reduce96_spec (mult_avx_72 a b).1 (mult_avx_72 a b).2 i
  have e : (mult_avx_8 a b).get i = (reduce_avx_96_64 (mult_avx_72 a b).1 (mult_avx_72 a b).2).get i := by
    simp only [mult_avx_8]
  rw [e, r, (mult72_get a b i).1, (mult72_get a b i).2]
  obtain ⟨s1, s2⟩ := mul72_spec (a.get i) (b.get i)
  have e2 : (mul72h (a.get i) (b.get i)).toNat % 4294967296 = (mul72h (a.get i) (b.get i)).toNat := by omega
  have e3 : (b.get i).toNat % 4294967296 = (b.get i).toNat := by omega
  rw [e2, s1, e3]


/-! #### square_avx_128 / square_avx -/

def sq128h (x : BitVec 64) : BitVec 64 := ((square_avx_128 (V4.splat x)).1).get 0
def sq128l (x : BitVec 64) : BitVec 64 := ((square_avx_128 (V4.splat x)).2).get 0

theorem square128_get (a : V4) (i : Fin 4) :
    (square_avx_128 a).1.get i = sq128h (a.get i) ∧ (square_avx_128 a).2.get i = sq128l (a.get i) := by
  unfold sq128h sq128l
  simp only [square_avx_128, lane_get]

/-- square_avx_128 : the 128-bit square is exact for all operands (33/31-bit split) -/
theorem sq128_spec (x : BitVec 64) :
    (sq128h x).toNat * 18446744073709551616 + (sq128l x).toNat = x.toNat * x.toNat := by
  unfold sq128h sq128l
  simp only [square_avx_128, lane_get, lane_nat]
  products_omega x, x

theorem square_get (a : V4) (i : Fin 4) :
    (square_avx a).get i = L2.bin reduce_avx_128_64 (sq128h (a.get i)) (sq128l (a.get i)) := by
  simp only [square_avx, reduce128_get, (square128_get a i).1, (square128_get a i).2]

/-- square_avx : every lane is the square mod p (the operand register is only read) -/
theorem square_spec (a : V4) (i : Fin 4) :
    ((square_avx a).get i).toNat % P = ((a.get i).toNat * (a.get i).toNat) % P := by
  rw [square_get, reduce128_spec, sq128_spec]

end GoldilocksVerif
