/-
  HISTORIES of calls on ONE object in the GENERATED model (Gen/NttGen.lean): sequences of the translated `NTT`, `INTT`,
  `extendPol` that thread the heap `hp` and the object state `self`.

  `GInv` is the invariant every call keeps: the object state with the heap represents a hand-model object whose tables are those
  of the freshly constructed object `o0` and whose cache is absent or valid (`Obj.wf`: it is `computeR` of the N it is keyed
  with); the object owns existing, distinct blocks; the caller's blocks (`U`) are below the original heap size, are not the
  object's, and keep their sizes.
  `gcall_step`: from a state satisfying `GInv`, a valid call returns, its destination block holds EXACTLY (bit for bit) what the
  hand model returns for the same arguments on the FRESH object `o0`, the caller's other blocks are unchanged, and `GInv`
  holds again.  `runG_inv`: hence `GInv` holds after every history, and every call of every history returns the fresh-object
  result.
-/
import GoldilocksVerif.Lemmas.BridgeNttExtendEq
import GoldilocksVerif.Lemmas.NttTop

namespace GoldilocksVerif.BridgeNtt
open GoldilocksVerif Gen.NttGen GoldilocksVerif.Model.Ntt

/-- one call of the public interface on the generated model: block numbers of the caller's buffers (destination / source, output /
    input), log2 of the sizes, column count, phase and block settings; no caller scratch buffer -/
inductive GCall where
  | ntt (D Sx d nc : Nat) (nphase nblock : BitVec 64)
  | intt (D Sx d nc : Nat) (nphase nblock : BitVec 64)
  | extendPol (Out In de dn nc : Nat) (nphase nblock : BitVec 64)

/-- run one call of the TRANSLATED functions: heap and object state afterwards (`none`: abort or out of fuel) -/
def GCall.run (fuel : Nat) (st : Heap × NTT_Goldilocks) : GCall → Option (Heap × NTT_Goldilocks)
  | .ntt D Sx d nc np nb =>
    (NTT_NTT fuel st.1 st.2 ⟨D, 0⟩ ⟨Sx, 0⟩ (bv (2 ^ d)) (bv nc) Ptr.null np nb false false).bind fun hp => some (hp, st.2)
  | .intt D Sx d nc np nb =>
    (NTT_INTT fuel st.1 st.2 ⟨D, 0⟩ ⟨Sx, 0⟩ (bv (2 ^ d)) (bv nc) Ptr.null np nb false).bind fun hp => some (hp, st.2)
  | .extendPol Out In de dn nc np nb =>
    NTT_extendPol fuel st.1 st.2 ⟨Out, 0⟩ ⟨In, 0⟩ (bv (2 ^ de)) (bv (2 ^ dn)) (bv nc) Ptr.null np nb

/-- a history: the state is threaded through the calls -/
def runG (fuel : Nat) : Heap × NTT_Goldilocks → List GCall → Option (Heap × NTT_Goldilocks)
  | st, [] => some st
  | st, c :: cs => (c.run fuel st).bind fun st' => runG fuel st' cs

/-- the destination block of a call -/
def GCall.dst : GCall → Nat
  | .ntt D _ _ _ _ _ => D
  | .intt D _ _ _ _ _ => D
  | .extendPol Out _ _ _ _ _ _ => Out

/-- the hand model's call with the same arguments; the buffers are the current contents of the blocks -/
def GCall.toCall (hp : Heap) : GCall → Call
  | .ntt D Sx d nc np nb => .ntt (if D = Sx then .same else .other) (hp.block D) (hp.block Sx) (2 ^ d) nc np.toNat nb.toNat
  | .intt D Sx d nc np nb => .intt (if D = Sx then .same else .other) (hp.block D) (hp.block Sx) (2 ^ d) nc np.toNat nb.toNat
  | .extendPol Out In de dn nc np nb =>
    .extendPol (decide (Out = In)) (hp.block Out) (hp.block In) (2 ^ de) (2 ^ dn) nc np.toNat nb.toNat

/-- a call the theorems cover: caller blocks, sizes within the object's domain and ≤ 2^30, at least one column, the destination
    block large enough; fuel ≥ 64 is a hypothesis of the theorems, size 1 needs more fuel than columns -/
def GCall.ok (m fuel : Nat) (U : Nat → Prop) (sz : Nat → Nat) : GCall → Prop
  | .ntt D Sx d nc _ _ => U D ∧ U Sx ∧ d ≤ 30 ∧ 2 ^ d ≤ m ∧ 1 ≤ nc ∧ 2 ^ d * nc * 8 < 2 ^ 64 ∧ 2 ^ d * nc ≤ sz D ∧ (d = 0 → nc < fuel)
  | .intt D Sx d nc _ _ => U D ∧ U Sx ∧ d ≤ 30 ∧ 2 ^ d ≤ m ∧ 1 ≤ nc ∧ 2 ^ d * nc * 8 < 2 ^ 64 ∧ 2 ^ d * nc ≤ sz D ∧ (d = 0 → nc < fuel)
  | .extendPol Out In de dn nc _ _ => U Out ∧ U In ∧ dn ≤ de ∧ de ≤ 30 ∧ 2 ^ dn ≤ m ∧ 1 ≤ nc ∧ 2 ^ de * nc * 8 < 2 ^ 64 ∧
      2 ^ de * nc ≤ sz Out ∧ (dn = 0 → nc < fuel)

/-- the invariant of a history: `o0` the freshly constructed hand-model object, `n0` the heap size when the history started,
    `U` the caller's blocks, `sz` their sizes -/
structure GInv (o0 : Obj) (n0 : Nat) (U : Nat → Prop) (sz : Nat → Nat) (st : Heap × NTT_Goldilocks) : Prop where
  obj : ∃ o, o.base = o0 ∧ o.wf ∧ ObjRep st.1 st.2 o
  oin : ObjIn st.1 st.2
  disj : ObjDisj st.2
  size : n0 ≤ st.1.size
  user : ∀ c, U c → c < n0 ∧ c ≠ 0 ∧ ObjFrame st.2 c ∧ (st.1.block c).size = sz c

section step
variable (m e : Nat) (o0 : Obj) (hobj : mkObj m e = some o0) (he : e ≤ 1)
variable (fuel : Nat) (hf : 64 ≤ fuel) (n0 : Nat) (U : Nat → Prop) (sz : Nat → Nat)

include hobj he hf in
/-- **one call after any history**: it returns; the destination block holds exactly what the hand model returns for the same
    arguments on the FRESH object; the caller's other blocks are unchanged; the invariant holds again -/
theorem gcall_step (st : Heap × NTT_Goldilocks) (hinv : GInv o0 n0 U sz st) (c : GCall) (hok : c.ok m fuel U sz) :
    ∃ st' out src, c.run fuel st = some st' ∧ ((c.toCall st.1).run o0).2 = .ok (out, src) ∧ st'.1.block c.dst = out ∧
      (∀ b, U b → b ≠ c.dst → st'.1.block b = st.1.block b) ∧ GInv o0 n0 U sz st' := by
  obtain ⟨hp, self⟩ := st
  obtain ⟨⟨o, hbase, hwf, hrep⟩, hin, hdisj, hsize, huser⟩ := hinv
  simp only at hrep hin hdisj hsize huser
  -- the fresh object
  have hfresh : o0.rcache = none := mkObj_fresh _ _ _ hobj
  have hm0 : ∀ d, 2 ^ d ≤ m → m ≠ 0 := fun d h => by have := Nat.two_pow_pos d; omega
  have hos : ∀ d, 2 ^ d ≤ m → d ≤ o.s ∧ o.s ≤ 32 ∧ o.extension < 2 ^ 31 ∧ ObjOk o0 (log2 m) ∧ d ≤ log2 m := by
    intro d hd
    have hm := hm0 d hd
    obtain ⟨s1, s2, s3⟩ := mkObj_s_val m e o0 hm hobj
    have hdl : d ≤ log2 m := (Nat.le_log2 hm).mpr hd
    have e1 : o.s = o0.s := by rw [← hbase]; rfl
    have e2 : o.extension = o0.extension := by rw [← hbase]; rfl
    exact ⟨by rw [e1]; omega, by rw [e1]; exact s2, by rw [e2, s3]; omega, mkObj_ok m e o0 hm he hobj, hdl⟩
  cases c with
  | ntt D Sx d nc np nb =>
    obtain ⟨uD, uS, hd30, hdm, hnc, hbound, hszD, hf1⟩ := hok
    obtain ⟨hDn, hD0, hfrD, hDsz⟩ := huser D uD
    obtain ⟨hSn, hS0, hfrS, hSsz⟩ := huser Sx uS
    obtain ⟨k1, k2, k3, hO, hdl⟩ := hos d hdm
    have hmode : (if D = Sx then DstMode.same else DstMode.other) = DstMode.other ↔ D ≠ Sx := by
      by_cases h : D = Sx <;> simp [h]
    have hdsize : 2 ^ d * nc ≤ (if (if D = Sx then DstMode.same else DstMode.other) = DstMode.other then hp.block D
        else hp.block Sx).size := by
      by_cases h : D = Sx
      · subst h; simp; omega
      · simp [h]; omega
    obtain ⟨out, eo, hosz, _⟩ := ntt_spec o0 (if D = Sx then .same else .other) (hp.block D) (hp.block Sx) d nc np.toNat nb.toNat
      false false (hO.mono hdl).dle (hO.mono hdl).roots hnc hdsize
    have hg := NTT_gen_all fuel hp self o hrep hin D Sx (by omega) (by omega) hD0 hfrD _ hmode ⟨D, 0⟩
      (by rw [ptr_beq_null D hD0]; rfl) d (2 ^ d) nc np nb false false hd30 rfl k1 k2 hnc hbound k3 (by intro h; cases h)
      (itersFuel_le self d nc fuel hf hf1)
    have hb : ntt o (if D = Sx then DstMode.same else DstMode.other) (hp.block D) (hp.block Sx) (2 ^ d) nc np.toNat nb.toNat
        false false = ntt o0 (if D = Sx then DstMode.same else DstMode.other) (hp.block D) (hp.block Sx) (2 ^ d) nc np.toNat
        nb.toNat false false := by rw [ntt_base, hbase]
    rw [hb, eo] at hg
    have hosz' : out.size = (hp.block D).size := by
      rw [hosz]
      by_cases h : D = Sx
      · subst h; simp
      · simp [h]
    refine ⟨(hp.setBlock D out, self), out, _, ?_, eo, ?_, ?_, ?_⟩
    · simp only [GCall.run]; rw [hg]; rfl
    · exact Heap.block_setBlock_same _ _ _ (by omega)
    · intro b _ hb'
      exact Heap.block_setBlock_other _ _ _ _ hb'
    · refine ⟨⟨o, hbase, hwf, hrep.frame1 hfrD (fun c hc => Heap.block_setBlock_other _ _ _ _ hc)⟩, ?_, hdisj, by simpa using hsize, ?_⟩
      · obtain ⟨a, b, c, d'⟩ := hin
        exact ⟨by simpa using a, by simpa using b, by simpa using c, by simpa using d'⟩
      · intro c uc
        obtain ⟨h1, h2, h3, h4⟩ := huser c uc
        refine ⟨h1, h2, h3, ?_⟩
        by_cases hcD : c = D
        · subst hcD
          show ((hp.setBlock c out).block c).size = _
          rw [Heap.block_setBlock_same _ _ _ (by omega), hosz', h4]
        · show ((hp.setBlock D out).block c).size = _
          rw [Heap.block_setBlock_other _ _ _ _ hcD, h4]
  | intt D Sx d nc np nb =>
    obtain ⟨uD, uS, hd30, hdm, hnc, hbound, hszD, hf1⟩ := hok
    obtain ⟨hDn, hD0, hfrD, hDsz⟩ := huser D uD
    obtain ⟨hSn, hS0, hfrS, hSsz⟩ := huser Sx uS
    obtain ⟨k1, k2, k3, hO, hdl⟩ := hos d hdm
    have hmode : (if D = Sx then DstMode.same else DstMode.other) = DstMode.other ↔ D ≠ Sx := by
      by_cases h : D = Sx <;> simp [h]
    have hdsize : 2 ^ d * nc ≤ (if (if D = Sx then DstMode.same else DstMode.other) = DstMode.other then hp.block D
        else hp.block Sx).size := by
      by_cases h : D = Sx
      · subst h; simp; omega
      · simp [h]; omega
    obtain ⟨out, eo, hosz, _⟩ := intt_spec o0 (if D = Sx then .same else .other) (hp.block D) (hp.block Sx) d nc np.toNat nb.toNat
      false (hO.mono hdl).dle (hO.mono hdl).roots hnc hdsize
    have hg := INTT_gen_all fuel hp self o hrep hin D Sx (by omega) (by omega) hD0 hfrD _ hmode ⟨D, 0⟩
      (by rw [ptr_beq_null D hD0]; rfl) d (2 ^ d) nc np nb false hd30 rfl k1 k2 hnc hbound k3 (by intro h; cases h)
      (itersFuel_le self d nc fuel hf hf1)
    have hb : intt o (if D = Sx then DstMode.same else DstMode.other) (hp.block D) (hp.block Sx) (2 ^ d) nc np.toNat nb.toNat
        false = intt o0 (if D = Sx then DstMode.same else DstMode.other) (hp.block D) (hp.block Sx) (2 ^ d) nc np.toNat
        nb.toNat false := by rw [intt_base, hbase]
    rw [hb, eo] at hg
    have hosz' : out.size = (hp.block D).size := by
      rw [hosz]
      by_cases h : D = Sx
      · subst h; simp
      · simp [h]
    refine ⟨(hp.setBlock D out, self), out, _, ?_, eo, ?_, ?_, ?_⟩
    · simp only [GCall.run]; rw [hg]; rfl
    · exact Heap.block_setBlock_same _ _ _ (by omega)
    · intro b _ hb'
      exact Heap.block_setBlock_other _ _ _ _ hb'
    · refine ⟨⟨o, hbase, hwf, hrep.frame1 hfrD (fun c hc => Heap.block_setBlock_other _ _ _ _ hc)⟩, ?_, hdisj, by simpa using hsize, ?_⟩
      · obtain ⟨a, b, c, d'⟩ := hin
        exact ⟨by simpa using a, by simpa using b, by simpa using c, by simpa using d'⟩
      · intro c uc
        obtain ⟨h1, h2, h3, h4⟩ := huser c uc
        refine ⟨h1, h2, h3, ?_⟩
        by_cases hcD : c = D
        · subst hcD
          show ((hp.setBlock c out).block c).size = _
          rw [Heap.block_setBlock_same _ _ _ (by omega), hosz', h4]
        · show ((hp.setBlock D out).block c).size = _
          rw [Heap.block_setBlock_other _ _ _ _ hcD, h4]
  | extendPol Out In de dn nc np nb =>
    obtain ⟨uO, uI, hde, hde30, hdm, hnc, hbound, hszO, hf1⟩ := hok
    obtain ⟨hOn, hO0, hfrO, hOsz⟩ := huser Out uO
    obtain ⟨hIn', hI0, hfrI, hIsz⟩ := huser In uI
    obtain ⟨k1, k2, k3, hO, hdl⟩ := hos dn hdm
    -- the model does not abort, on the object with its cache and (same result) on the fresh object
    have hset : setCache o0 o.rcache = o := by rw [← hbase]; cases o; rfl
    have hOo : ObjOk o (log2 m) := by
      have := hO.setCache o.rcache (by rw [hset]; exact hwf)
      rw [hset] at this; exact this
    have hosize : 2 ^ de * nc ≤ (if decide (Out = In) = true then hp.block In else hp.block Out).size := by
      by_cases h : Out = In
      · subst h; simp; omega
      · simp [h]; omega
    obtain ⟨o', out, eo, hosz, hwf', hbase', _⟩ := extendPol_spec o _ hOo (decide (Out = In)) (hp.block Out) (hp.block In) dn de nc
      np.toNat nb.toNat hdl hde (by omega) hnc hosize
    have hg := extendPol_gen_eq fuel hf hp self o hrep hin hdisj k2 k3 Out In (by omega) (by omega) hO0 hfrO hfrI dn de nc hde
      hde30 k1 hnc hbound np nb (by omega) hf1
    rw [eo] at hg
    obtain ⟨hp', self', hrun, hblk, hrep', hin', hdisj', hsz', hkeep, hfr'⟩ := hg
    have efresh : extendPol o0 (decide (Out = In)) (hp.block Out) (hp.block In) (2 ^ de) (2 ^ dn) nc np.toNat nb.toNat =
        .ok (setCache o0 o'.rcache, out) := by
      have := extendPol_base o hwf (decide (Out = In)) (hp.block Out) (hp.block In) (2 ^ de) (2 ^ dn) nc np.toNat nb.toNat
      rw [hbase, eo] at this
      rw [← this]
      have : setCache o0 o'.rcache = o' := by rw [← hbase, ← hbase']; cases o'; rfl
      rw [this]
    have hosz' : out.size = (hp.block Out).size := by
      rw [hosz]
      by_cases h : Out = In
      · subst h; simp
      · simp [h]
    refine ⟨(hp', self'), out, (if decide (Out = In) = true then out else hp.block In), hrun, ?_, hblk, ?_, ?_⟩
    · simp only [GCall.toCall, Call.run]
      rw [efresh]
    · intro b ub hb'
      obtain ⟨h1, h2, h3, h4⟩ := huser b ub
      exact hkeep b (by omega) hb' h3
    · refine ⟨⟨o', by rw [hbase', hbase], hwf', hrep'⟩, hin', hdisj', by simp only; omega, ?_⟩
      intro c uc
      obtain ⟨h1, h2, h3, h4⟩ := huser c uc
      refine ⟨h1, h2, hfr' c (by omega) h3, ?_⟩
      by_cases hcO : c = Out
      · subst hcO
        show (hp'.block c).size = _
        rw [hblk, hosz', h4]
      · show (hp'.block c).size = _
        rw [hkeep c (by omega) hcO h3, h4]

include hobj he hf in
/-- **every history keeps the invariant** (and returns): after any sequence of valid calls the object state still represents the
    constructed object with an absent or valid cache -/
theorem runG_inv (cs : List GCall) : ∀ (st : Heap × NTT_Goldilocks), GInv o0 n0 U sz st → (∀ c, c ∈ cs → c.ok m fuel U sz) →
    ∃ st', runG fuel st cs = some st' ∧ GInv o0 n0 U sz st' := by
  induction cs with
  | nil => intro st h _; exact ⟨st, rfl, h⟩
  | cons c cs ih =>
    intro st h hok
    obtain ⟨st1, _, _, hrun, _, _, _, hinv1⟩ := gcall_step m e o0 hobj he fuel hf n0 U sz st h c (hok c List.mem_cons_self)
    obtain ⟨st', hr, hinv'⟩ := ih st1 hinv1 (fun c' hc' => hok c' (List.mem_cons_of_mem _ hc'))
    exact ⟨st', by simp only [runG]; rw [hrun]; exact hr, hinv'⟩

end step

/-- the state right after the TRANSLATED constructor satisfies the invariant, for the caller's blocks = all blocks that existed
    before (except the NULL block) -/
theorem ctor_inv (fuel : Nat) (hf : 64 ≤ fuel) (hp : Heap) (hpos : 0 < hp.size) (self0 : NTT_Goldilocks)
    (mw : BitVec 64) (thr : BitVec 32) (e : Nat) (hm0 : mw ≠ 0#64) (o0 : Obj) (hobj : mkObj mw.toNat e = some o0) :
    ∃ st, NTT_ctor fuel hp self0 mw thr (e : Int) = some st ∧
      GInv o0 hp.size (fun c => 0 < c ∧ c < hp.size) (fun c => (hp.block c).size) st ∧
      ∀ c, c < hp.size → st.1.block c = hp.block c := by
  obtain ⟨self, hc, hrep, hin, f1, f2, f3, f4⟩ := ctor_rep fuel hf hp hpos self0 mw thr e hm0 o0 hobj
  have hfresh : o0.rcache = none := mkObj_fresh _ _ _ hobj
  have hb1 : ∀ c, c < hp.size → ((hp.push o0.roots).push o0.powTwoInv).block c = hp.block c := by
    intro c hc'
    rw [Heap.block_push_lt _ _ _ (by simp; omega), Heap.block_push_lt _ _ _ hc']
  refine ⟨_, hc, ⟨⟨o0, base_of_fresh o0 hfresh, wf_of_fresh o0 hfresh, hrep⟩, hin, ?_, by simp; omega, ?_⟩, hb1⟩
  · unfold ObjDisj
    rw [f1, f2, f3, f4]
    exact ⟨by show hp.size ≠ 0; omega, by show hp.size ≠ 0; omega, by show hp.size + 1 ≠ 0; omega,
      by show hp.size + 1 ≠ 0; omega⟩
  · intro c ⟨h0, hlt⟩
    refine ⟨hlt, by omega, ⟨?_, ?_, ?_, ?_⟩, by rw [hb1 c hlt]⟩
    · rw [f1]; show c ≠ hp.size; omega
    · rw [f2]; show c ≠ hp.size + 1; omega
    · rw [f3]; show c ≠ 0; omega
    · rw [f4]; show c ≠ 0; omega

end GoldilocksVerif.BridgeNtt
