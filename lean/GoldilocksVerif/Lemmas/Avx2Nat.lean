/-
  AVX2 lane kernels (Gen/Avx2.lean, regenerated from goldilocks_base_field_avx.hpp) on `Nat`.
  Part 1: lane extraction and the add/sub/canonicalise family.  Helper lemmas only.

  Proof scheme (chosen so that behaviour-preserving rewrites of the C++ do not disturb it):
  * `K_get`  : `(K a b).get i = L2.bin K (a.get i) (b.get i)` — both sides are normalised by the one closed simp set
               `lane_get`; no lane expression is ever written down, so local names, the order of independent
               statements and the choice among modelled intrinsics do not matter.
  * `K_spec` : the lane function `L2.bin K x y` is unfolded by `lane_get`, moved to `Nat` by `lane_nat` (which
               knows both operand orders of the commutative operations and the equivalent idioms) and the
               arithmetic fact is closed by `omega` per case of the comparison masks.
-/
import GoldilocksVerif.Gen.Avx2
import GoldilocksVerif.Lemmas.LaneNat
import GoldilocksVerif.Lemmas.ScalarNat
set_option linter.unusedSimpArgs false
namespace GoldilocksVerif
open Gen.Avx2 Gen.VecConsts Lane

@[simp, lane_get] theorem V4.get_set_same (c : BitVec 64) (i : Fin 4) : (Avx2.set_epi64x c c c c).get i = c := by
  match i with
  | 0 => rfl | 1 => rfl | 2 => rfl | 3 => rfl
@[lane_get] theorem V4.get_set1 (c : BitVec 64) (i : Fin 4) : (Avx2.set1_epi64x c).get i = c := by
  match i with
  | 0 => rfl | 1 => rfl | 2 => rfl | 3 => rfl
@[lane_get] theorem V4.get_blend_aa (a b : V4) (i : Fin 4) :
    (Avx2.blend_epi32 a b 170).get i = Lane.blend32 2 (a.get i) (b.get i) := by
  match i with
  | 0 => rfl | 1 => rfl | 2 => rfl | 3 => rfl
/-- the complementary immediate with exchanged operands is the same blend -/
@[lane_get] theorem V4.get_blend_55 (a b : V4) (i : Fin 4) :
    (Avx2.blend_epi32 a b 85).get i = Lane.blend32 2 (b.get i) (a.get i) := by
  match i with
  | 0 => rfl | 1 => rfl | 2 => rfl | 3 => rfl

-- every lane-wise intrinsic of `Isa/Avx2.lean`, the lane reads and the register constants of the library
attribute [lane_get] Avx2.add_epi64 Avx2.sub_epi64 Avx2.and_si256 Avx2.andnot_si256 Avx2.xor_si256 Avx2.or_si256
  Avx2.cmpeq_epi64 Avx2.cmpeq_epi32 Avx2.cmpgt_epi64 Avx2.cmpgt_epi32 Avx2.srli_epi64 Avx2.slli_epi64 Avx2.mul_epu32
  Avx2.movehdup_ps Avx2.moveldup_ps V4.get_map V4.get_map2 V4.get_splat and_self g_MSB g_P g_P_n g_P_s g_sqmask

namespace L2
/-- lane function of a unary / binary kernel: run it on a broadcast register and read lane 0 -/
def un (f : V4 → V4) (x : BitVec 64) : BitVec 64 := (f (V4.splat x)).get 0
def bin (f : V4 → V4 → V4) (x y : BitVec 64) : BitVec 64 := (f (V4.splat x) (V4.splat y)).get 0
end L2

theorem hi_unsh (v : Nat) : (v / 4294967296 + 2147483648) % 4294967296 = unsh v / 4294967296 := by
  unfold unsh; omega
theorem unsh_add (x y : Nat) : unsh ((x + y) % 18446744073709551616) = (unsh x + y) % 18446744073709551616 := by
  unfold unsh; omega
theorem unsh_add' (x y : Nat) : unsh ((y + x) % 18446744073709551616) = (unsh x + y) % 18446744073709551616 := by
  unfold unsh; omega
theorem unsh_sub (x y : Nat) :
    unsh ((18446744073709551616 - y + x) % 18446744073709551616) = (18446744073709551616 - y + unsh x) % 18446744073709551616 := by
  unfold unsh; omega
theorem unsh_lt (x : Nat) : unsh x < 18446744073709551616 := by unfold unsh; omega
theorem unsh_unsh (x : Nat) (h : x < 18446744073709551616) : unsh (unsh x) = x := by unfold unsh; omega
/-- the 32-bit-compare shortcut of `add_avx_s_b_small` (unsigned form) -/
theorem cmp32_add (a y : Nat) (ha : a < 18446744073709551616) (hy : y ≤ 18446744069414584320) :
    ((a + y) % 18446744073709551616 / 4294967296 < a / 4294967296) ↔ 18446744073709551616 ≤ a + y := by
  omega
/-- the 32-bit-compare shortcut of `sub_avx_s_b_small` (unsigned form) -/
theorem cmp32_sub (a y : Nat) (ha : a < 18446744073709551616) (hy : y ≤ 18446744069414584320) :
    (a / 4294967296 < (18446744073709551616 - y + a) % 18446744073709551616 / 4294967296) ↔ a < y := by
  omega

/-! #### lanewise-ness (tie to the generated definitions) -/

theorem shift_get (a : V4) (i : Fin 4) : (shift_avx a).get i = L2.un shift_avx (a.get i) := by
  unfold L2.un
  simp only [shift_avx, lane_get]

/-- shift_avx adds 2^63 (mod 2^64) -/
theorem shift_spec (x : BitVec 64) : (L2.un shift_avx x).toNat = unsh x.toNat := by
  unfold L2.un
  simp only [shift_avx, lane_get, lane_nat]

theorem toCanonical_s_get (a : V4) (i : Fin 4) :
    (toCanonical_avx_s a).get i = L2.un toCanonical_avx_s (a.get i) := by
  unfold L2.un
  simp only [toCanonical_avx_s, lane_get]

theorem toCanonical_get (a : V4) (i : Fin 4) :
    (toCanonical_avx a).get i = L2.un toCanonical_avx (a.get i) := by
  unfold L2.un
  simp only [toCanonical_avx, shift_get, toCanonical_s_get, V4.get_splat]

theorem add_a_sc_get (a b : V4) (i : Fin 4) :
    (add_avx_a_sc a b).get i = L2.bin add_avx_a_sc (a.get i) (b.get i) := by
  unfold L2.bin
  simp only [add_avx_a_sc, shift_get, lane_get]

theorem add_get (a b : V4) (i : Fin 4) :
    (add_avx__vVV a b).get i = L2.bin add_avx__vVV (a.get i) (b.get i) := by
  unfold L2.bin
  simp only [add_avx__vVV, shift_get, toCanonical_s_get, add_a_sc_get, V4.get_splat]

theorem add_s_b_small_get (a b : V4) (i : Fin 4) :
    (add_avx_s_b_small a b).get i = L2.bin add_avx_s_b_small (a.get i) (b.get i) := by
  unfold L2.bin
  simp only [add_avx_s_b_small, lane_get]

theorem add_b_small_get (a b : V4) (i : Fin 4) :
    (add_avx_b_small a b).get i = L2.bin add_avx_b_small (a.get i) (b.get i) := by
  unfold L2.bin
  simp only [add_avx_b_small, shift_get, add_s_b_small_get, lane_get]

theorem sub_get (a b : V4) (i : Fin 4) :
    (sub_avx__vVV a b).get i = L2.bin sub_avx__vVV (a.get i) (b.get i) := by
  unfold L2.bin
  simp only [sub_avx__vVV, shift_get, toCanonical_s_get, lane_get]

theorem sub_s_b_small_get (a b : V4) (i : Fin 4) :
    (sub_avx_s_b_small a b).get i = L2.bin sub_avx_s_b_small (a.get i) (b.get i) := by
  unfold L2.bin
  simp only [sub_avx_s_b_small, lane_get]

/-! #### the lane functions on `Nat` -/

/-- the shifted prime, whichever way the constant folds -/
theorem PsConst : (18446744069414584321#64 ^^^ 9223372036854775808#64 : BitVec 64).toNat = 9223372032559808513 := by
  rw [xor_msb_toNat]; rfl

/-- toCanonical_avx_s : on a shifted representation, returns the shifted canonical representative -/
theorem canon_s_spec (x : BitVec 64) :
    unsh (L2.un toCanonical_avx_s x).toNat = unsh x.toNat % P ∧ unsh (L2.un toCanonical_avx_s x).toNat < P := by
  unfold L2.un
  simp only [toCanonical_avx_s, lane_get, lane_nat, unsh, P]
  simp only [ltN_def]
  have hx := x.isLt
  split <;> omega

theorem canon_spec (x : BitVec 64) : (L2.un toCanonical_avx x).toNat = x.toNat % P := by
  have h : L2.un toCanonical_avx x = L2.un shift_avx (L2.un toCanonical_avx_s (L2.un shift_avx x)) := by
    unfold L2.un
    simp only [toCanonical_avx, shift_get, toCanonical_s_get, V4.get_splat]
  have hc := (canon_s_spec (L2.un shift_avx x)).1
  rw [h, shift_spec, hc, shift_spec, unsh_unsh _ x.isLt]

/-- add_avx_a_sc : first operand shifted canonical -/
theorem add_a_sc_spec (x y : BitVec 64) (hx : unsh x.toNat < P) :
    (L2.bin add_avx_a_sc x y).toNat % P = (unsh x.toNat + y.toNat) % P := by
  unfold L2.bin
  simp only [add_avx_a_sc, shift_get, lane_get, shift_spec, lane_nat, unsh, P] at *
  simp only [ltN_def]
  have h1 := x.isLt
  have h2 := y.isLt
  split <;> omega

theorem add_spec (x y : BitVec 64) : (L2.bin add_avx__vVV x y).toNat % P = (x.toNat + y.toNat) % P := by
  have h : L2.bin add_avx__vVV x y =
      L2.bin add_avx_a_sc (L2.un toCanonical_avx_s (L2.un shift_avx x)) y := by
    unfold L2.bin
    simp only [add_avx__vVV, shift_get, toCanonical_s_get, add_a_sc_get, V4.get_splat]
  have hc := canon_s_spec (L2.un shift_avx x)
  rw [h, add_a_sc_spec _ _ hc.2, hc.1, shift_spec, unsh_unsh _ x.isLt, Nat.mod_add_mod]

/-- add_avx_s_b_small : shifted first operand, second operand ≤ 0xFFFFFFFF00000000, shifted result -/
theorem add_s_b_small_spec (x y : BitVec 64) (hy : y.toNat ≤ 18446744069414584320) :
    unsh (L2.bin add_avx_s_b_small x y).toNat % P = (unsh x.toNat + y.toNat) % P := by
  unfold L2.bin
  simp only [add_avx_s_b_small, lane_get, lane_nat]
  simp only [hi_unsh, unsh_add, unsh_add', cmp32_add _ _ (unsh_lt _) hy]
  have h1 := unsh_lt x.toNat
  generalize unsh x.toNat = a at *
  unfold P
  split <;> omega

theorem add_b_small_spec (x y : BitVec 64) (hy : y.toNat ≤ 18446744069414584320) :
    (L2.bin add_avx_b_small x y).toNat % P = (x.toNat + y.toNat) % P := by
  have h : L2.bin add_avx_b_small x y =
      L2.un shift_avx (L2.bin add_avx_s_b_small (L2.un shift_avx x) y) := by
    unfold L2.bin
    simp only [add_avx_b_small, add_avx_s_b_small, shift_get, lane_get]
  have := add_s_b_small_spec (L2.un shift_avx x) y hy
  rw [shift_spec, unsh_unsh _ x.isLt] at this
  rw [h, shift_spec]
  exact this

theorem sub_spec (x y : BitVec 64) : ((L2.bin sub_avx__vVV x y).toNat + y.toNat) % P = x.toNat % P := by
  have hc := canon_s_spec (L2.un shift_avx y)
  rw [shift_spec, unsh_unsh _ y.isLt] at hc
  unfold L2.bin
  simp only [sub_avx__vVV, shift_get, toCanonical_s_get, lane_get, shift_spec, lane_nat]
  generalize L2.un toCanonical_avx_s (L2.un shift_avx y) = yc at *
  have h1 := x.isLt
  have h2 := y.isLt
  have h3 := yc.isLt
  obtain ⟨hc1, hc2⟩ := hc
  simp only [unsh, P] at *
  simp only [ltN_def]
  split <;> omega

/-- sub_avx_s_b_small : shifted minuend, subtrahend ≤ 0xFFFFFFFF00000000, shifted result -/
theorem sub_s_b_small_spec (x y : BitVec 64) (hy : y.toNat ≤ 18446744069414584320) :
    (unsh (L2.bin sub_avx_s_b_small x y).toNat + y.toNat) % P = unsh x.toNat % P := by
  unfold L2.bin
  simp only [sub_avx_s_b_small, lane_get, lane_nat]
  simp only [hi_unsh, unsh_sub, cmp32_sub _ _ (unsh_lt _) hy]
  have h1 := unsh_lt x.toNat
  generalize unsh x.toNat = a at *
  unfold P
  split <;> omega

end GoldilocksVerif
