/-
  AVX2 lane kernels (Gen/Avx2.lean, regenerated from goldilocks_base_field_avx.hpp) on `Nat`.
  Part 1: lane extraction and the add/sub/canonicalise family.  Helper lemmas only.
-/
import GoldilocksVerif.Gen.Avx2
import GoldilocksVerif.Lemmas.LaneNat
import GoldilocksVerif.Lemmas.ScalarNat
set_option linter.unusedSimpArgs false
namespace GoldilocksVerif
open Gen.Avx2 Gen.VecConsts Lane

@[simp] theorem V4.get_set_same (c : BitVec 64) (i : Fin 4) : (Avx2.set_epi64x c c c c).get i = c := by
  match i with
  | 0 => rfl | 1 => rfl | 2 => rfl | 3 => rfl
theorem V4.get_blend_aa (a b : V4) (i : Fin 4) :
    (Avx2.blend_epi32 a b 170).get i = Lane.blend32 2 (a.get i) (b.get i) := by
  match i with
  | 0 => rfl | 1 => rfl | 2 => rfl | 3 => rfl

namespace L2
/-- lane function of a unary / binary kernel: run it on a broadcast register and read lane 0 -/
def un (f : V4 → V4) (x : BitVec 64) : BitVec 64 := (f (V4.splat x)).get 0
def bin (f : V4 → V4 → V4) (x y : BitVec 64) : BitVec 64 := (f (V4.splat x) (V4.splat y)).get 0
end L2

/-- unshifted value of a shifted representation -/
def unsh (n : Nat) : Nat := (n + 9223372036854775808) % 18446744073709551616

theorem hi_unsh (v : Nat) : (v / 4294967296 + 2147483648) % 4294967296 = unsh v / 4294967296 := by
  unfold unsh; omega
theorem unsh_add (x y : Nat) : unsh ((x + y) % 18446744073709551616) = (unsh x + y) % 18446744073709551616 := by
  unfold unsh; omega
theorem unsh_sub (x y : Nat) :
    unsh ((18446744073709551616 - y + x) % 18446744073709551616) = (18446744073709551616 - y + unsh x) % 18446744073709551616 := by
  unfold unsh; omega
theorem unsh_lt (x : Nat) : unsh x < 18446744073709551616 := by unfold unsh; omega
/-- the 32-bit-compare shortcut of `add_avx_s_b_small` (unsigned form) -/
theorem cmp32_add (a y : Nat) (ha : a < 18446744073709551616) (hy : y ≤ 18446744069414584320) :
    ((a + y) % 18446744073709551616 / 4294967296 < a / 4294967296) ↔ 18446744073709551616 ≤ a + y := by
  omega
/-- the 32-bit-compare shortcut of `sub_avx_s_b_small` (unsigned form) -/
theorem cmp32_sub (a y : Nat) (ha : a < 18446744073709551616) (hy : y ≤ 18446744069414584320) :
    (a / 4294967296 < (18446744073709551616 - y + a) % 18446744073709551616 / 4294967296) ↔ a < y := by
  omega

/-! #### lanewise-ness (tie to the generated definitions) -/

theorem shift_get (a : V4) (i : Fin 4) : (shift_avx a).get i = a.get i ^^^ 9223372036854775808#64 := by
  simp only [shift_avx, Avx2.xor_si256, V4.get_map2, g_MSB, V4.get_set_same]

theorem toCanonical_s_get (a : V4) (i : Fin 4) :
    (toCanonical_avx_s a).get i = L2.un toCanonical_avx_s (a.get i) := by
  unfold L2.un
  simp only [toCanonical_avx_s, Avx2.cmpgt_epi64, Avx2.andnot_si256, Avx2.add_epi64, Avx2.xor_si256,
    V4.get_map2, V4.get_splat, V4.get_set_same, g_P_s, g_P_n, g_P, g_MSB]

theorem toCanonical_get (a : V4) (i : Fin 4) :
    (toCanonical_avx a).get i = L2.un toCanonical_avx (a.get i) := by
  unfold L2.un
  simp only [toCanonical_avx, shift_get, toCanonical_s_get, V4.get_splat]

theorem add_a_sc_get (a b : V4) (i : Fin 4) :
    (add_avx_a_sc a b).get i = L2.bin add_avx_a_sc (a.get i) (b.get i) := by
  unfold L2.bin
  simp only [add_avx_a_sc, shift_get, Avx2.cmpgt_epi64, Avx2.and_si256, Avx2.add_epi64,
    V4.get_map2, V4.get_splat, V4.get_set_same, g_P_n]

theorem add_get (a b : V4) (i : Fin 4) :
    (add_avx__vVV a b).get i = L2.bin add_avx__vVV (a.get i) (b.get i) := by
  unfold L2.bin
  simp only [add_avx__vVV, shift_get, toCanonical_s_get, add_a_sc_get, V4.get_splat]

theorem add_s_b_small_get (a b : V4) (i : Fin 4) :
    (add_avx_s_b_small a b).get i = L2.bin add_avx_s_b_small (a.get i) (b.get i) := by
  unfold L2.bin
  simp only [add_avx_s_b_small, Avx2.cmpgt_epi32, Avx2.srli_epi64, Avx2.add_epi64,
    V4.get_map2, V4.get_map, V4.get_splat]

theorem add_b_small_get (a b : V4) (i : Fin 4) :
    (add_avx_b_small a b).get i = L2.bin add_avx_b_small (a.get i) (b.get i) := by
  unfold L2.bin
  simp only [add_avx_b_small, shift_get, Avx2.cmpgt_epi32, Avx2.srli_epi64, Avx2.add_epi64,
    V4.get_map2, V4.get_map, V4.get_splat]

theorem sub_get (a b : V4) (i : Fin 4) :
    (sub_avx__vVV a b).get i = L2.bin sub_avx__vVV (a.get i) (b.get i) := by
  unfold L2.bin
  simp only [sub_avx__vVV, shift_get, toCanonical_s_get, Avx2.cmpgt_epi64, Avx2.and_si256, Avx2.add_epi64,
    Avx2.sub_epi64, V4.get_map2, V4.get_splat, V4.get_set_same, g_P]

theorem sub_s_b_small_get (a b : V4) (i : Fin 4) :
    (sub_avx_s_b_small a b).get i = L2.bin sub_avx_s_b_small (a.get i) (b.get i) := by
  unfold L2.bin
  simp only [sub_avx_s_b_small, Avx2.cmpgt_epi32, Avx2.srli_epi64, Avx2.sub_epi64,
    V4.get_map2, V4.get_map, V4.get_splat]

/-! #### lane functions as explicit bit-vector expressions -/

theorem canon_s_lane (x : BitVec 64) : L2.un toCanonical_avx_s x =
    x + (~~~(cmpgt64 (18446744069414584321#64 ^^^ 9223372036854775808#64) x) &&& 4294967295#64) := by
  unfold L2.un
  simp only [toCanonical_avx_s, Avx2.cmpgt_epi64, Avx2.andnot_si256, Avx2.add_epi64, Avx2.xor_si256,
    V4.get_map2, V4.get_splat, V4.get_set_same, g_P_s, g_P_n, g_P, g_MSB]

theorem PsConst : (18446744069414584321#64 ^^^ 9223372036854775808#64 : BitVec 64).toNat = 9223372032559808513 := by
  rw [xor_msb_toNat]; rfl

/-- toCanonical_avx_s : on a shifted representation, returns the shifted canonical representative -/
theorem canon_s_spec (x : BitVec 64) :
    unsh (L2.un toCanonical_avx_s x).toNat = unsh x.toNat % P ∧ unsh (L2.un toCanonical_avx_s x).toNat < P := by
  rw [canon_s_lane, BitVec.toNat_add, cmpgt64_eq, mask_andnot_toNat, PsConst]
  simp only [BitVec.toNat_ofNat, Nat.reducePow, Nat.reduceMod, decide_eq_true_eq, unsh, P, Nat.reduceAdd]
  have hx := x.isLt
  split <;> omega

theorem canon_spec (x : BitVec 64) : (L2.un toCanonical_avx x).toNat = x.toNat % P := by
  have h : L2.un toCanonical_avx x = (L2.un toCanonical_avx_s (x ^^^ 9223372036854775808#64)) ^^^ 9223372036854775808#64 := by
    unfold L2.un
    simp only [toCanonical_avx, shift_get, toCanonical_s_get, V4.get_splat]
  rw [h, xor_msb_toNat]
  have := (canon_s_spec (x ^^^ 9223372036854775808#64)).1
  rw [xor_msb_toNat] at this
  simp only [unsh] at this
  have hx := x.isLt
  have e : ((x.toNat + 9223372036854775808) % 18446744073709551616 + 9223372036854775808) % 18446744073709551616 = x.toNat := by omega
  rw [e] at this
  exact this

theorem add_a_sc_lane (x y : BitVec 64) : L2.bin add_avx_a_sc x y =
    (x + y + (cmpgt64 x (x + y) &&& 4294967295#64)) ^^^ 9223372036854775808#64 := by
  unfold L2.bin
  simp only [add_avx_a_sc, shift_get, Avx2.cmpgt_epi64, Avx2.and_si256, Avx2.add_epi64,
    V4.get_map2, V4.get_splat, V4.get_set_same, g_P_n]

/-- add_avx_a_sc : first operand shifted canonical -/
theorem add_a_sc_spec (x y : BitVec 64) (hx : unsh x.toNat < P) :
    (L2.bin add_avx_a_sc x y).toNat % P = (unsh x.toNat + y.toNat) % P := by
  rw [add_a_sc_lane, xor_msb_toNat, BitVec.toNat_add, BitVec.toNat_add, cmpgt64_eq, mask_and_toNat]
  simp only [BitVec.toNat_add, BitVec.toNat_ofNat, Nat.reducePow, Nat.reduceMod, decide_eq_true_eq, unsh, P] at *
  have h1 := x.isLt
  have h2 := y.isLt
  split <;> omega

theorem add_spec (x y : BitVec 64) : (L2.bin add_avx__vVV x y).toNat % P = (x.toNat + y.toNat) % P := by
  have h : L2.bin add_avx__vVV x y =
      L2.bin add_avx_a_sc (L2.un toCanonical_avx_s (x ^^^ 9223372036854775808#64)) y := by
    unfold L2.bin
    simp only [add_avx__vVV, shift_get, toCanonical_s_get, add_a_sc_get, V4.get_splat]
  have hc := canon_s_spec (x ^^^ 9223372036854775808#64)
  rw [h, add_a_sc_spec _ _ hc.2, hc.1, xor_msb_toNat]
  have h1 := x.isLt
  have e : unsh ((x.toNat + 9223372036854775808) % 18446744073709551616) = x.toNat := by unfold unsh; omega
  rw [e, Nat.mod_add_mod]

theorem add_s_b_small_lane (x y : BitVec 64) : L2.bin add_avx_s_b_small x y =
    x + y + (cmpgt32 x (x + y) >>> 32) := by
  unfold L2.bin
  simp only [add_avx_s_b_small, Avx2.cmpgt_epi32, Avx2.srli_epi64, Avx2.add_epi64,
    V4.get_map2, V4.get_map, V4.get_splat]

/-- add_avx_s_b_small : shifted first operand, second operand ≤ 0xFFFFFFFF00000000, shifted result -/
theorem add_s_b_small_spec (x y : BitVec 64) (hy : y.toNat ≤ 18446744069414584320) :
    unsh (L2.bin add_avx_s_b_small x y).toNat % P = (unsh x.toNat + y.toNat) % P := by
  rw [add_s_b_small_lane, BitVec.toNat_add, BitVec.toNat_add, cmpgt32_shr_toNat]
  simp only [BitVec.toNat_add, Nat.reducePow]
  simp only [hi_unsh, unsh_add, cmp32_add _ _ (unsh_lt _) hy]
  have h1 := unsh_lt x.toNat
  generalize unsh x.toNat = a at *
  unfold P
  split <;> omega

theorem add_b_small_spec (x y : BitVec 64) (hy : y.toNat ≤ 18446744069414584320) :
    (L2.bin add_avx_b_small x y).toNat % P = (x.toNat + y.toNat) % P := by
  have h : L2.bin add_avx_b_small x y =
      (L2.bin add_avx_s_b_small (x ^^^ 9223372036854775808#64) y) ^^^ 9223372036854775808#64 := by
    unfold L2.bin
    simp only [add_avx_b_small, add_avx_s_b_small, shift_get, Avx2.cmpgt_epi32, Avx2.srli_epi64, Avx2.add_epi64,
      V4.get_map2, V4.get_map, V4.get_splat]
  have := add_s_b_small_spec (x ^^^ 9223372036854775808#64) y hy
  rw [h, xor_msb_toNat]
  rw [xor_msb_toNat] at this
  simp only [unsh] at this
  have h1 := x.isLt
  have e : ((x.toNat + 9223372036854775808) % 18446744073709551616 + 9223372036854775808) % 18446744073709551616 = x.toNat := by omega
  rw [e] at this
  exact this

theorem sub_lane (x y : BitVec 64) : L2.bin sub_avx__vVV x y =
    (x ^^^ 9223372036854775808#64) - L2.un toCanonical_avx_s (y ^^^ 9223372036854775808#64) +
      (cmpgt64 (L2.un toCanonical_avx_s (y ^^^ 9223372036854775808#64)) (x ^^^ 9223372036854775808#64) &&&
        18446744069414584321#64) := by
  unfold L2.bin
  simp only [sub_avx__vVV, shift_get, toCanonical_s_get, Avx2.cmpgt_epi64, Avx2.and_si256, Avx2.add_epi64,
    Avx2.sub_epi64, V4.get_map2, V4.get_splat, V4.get_set_same, g_P]

theorem sub_spec (x y : BitVec 64) : ((L2.bin sub_avx__vVV x y).toNat + y.toNat) % P = x.toNat % P := by
  have hc := canon_s_spec (y ^^^ 9223372036854775808#64)
  rw [sub_lane, BitVec.toNat_add, BitVec.toNat_sub, cmpgt64_eq, mask_and_toNat]
  generalize L2.un toCanonical_avx_s (y ^^^ 9223372036854775808#64) = yc at *
  rw [xor_msb_toNat] at hc
  rw [xor_msb_toNat]
  have h1 := x.isLt
  have h2 := y.isLt
  have h3 := yc.isLt
  have e : unsh ((y.toNat + 9223372036854775808) % 18446744073709551616) = y.toNat := by unfold unsh; omega
  rw [e] at hc
  obtain ⟨hc1, hc2⟩ := hc
  simp only [BitVec.toNat_ofNat, Nat.reducePow, Nat.reduceMod, decide_eq_true_eq, unsh, P] at *
  split <;> omega

theorem sub_s_b_small_lane (x y : BitVec 64) : L2.bin sub_avx_s_b_small x y =
    x - y - (cmpgt32 (x - y) x >>> 32) := by
  unfold L2.bin
  simp only [sub_avx_s_b_small, Avx2.cmpgt_epi32, Avx2.srli_epi64, Avx2.sub_epi64,
    V4.get_map2, V4.get_map, V4.get_splat]

/-- sub_avx_s_b_small : shifted minuend, subtrahend ≤ 0xFFFFFFFF00000000, shifted result -/
theorem sub_s_b_small_spec (x y : BitVec 64) (hy : y.toNat ≤ 18446744069414584320) :
    (unsh (L2.bin sub_avx_s_b_small x y).toNat + y.toNat) % P = unsh x.toNat % P := by
  rw [sub_s_b_small_lane, BitVec.toNat_sub, BitVec.toNat_sub, cmpgt32_shr_toNat]
  simp only [BitVec.toNat_sub, Nat.reducePow]
  simp only [hi_unsh, unsh_sub, cmp32_sub _ _ (unsh_lt _) hy]
  have h1 := unsh_lt x.toNat
  generalize unsh x.toNat = a at *
  unfold P
  split <;> omega

end GoldilocksVerif
