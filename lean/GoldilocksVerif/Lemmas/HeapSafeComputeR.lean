/-
  IN-BOUNDS ACCESSES of the generated `computeR(int N)` (`NTT_computeR.Safe`, derived from the generated definition):
  `r = new Element[N]`, `r_ = new Element[N]` are the two new last blocks of N words; `r[0]`, `r_[0]`, the loop
  `r[i] = r[i-1]·shift; r_[i] = r[i]·powTwoInv[domainPow]` for 1 ≤ i < N stay inside them, and `powTwoInv[log2 N]` is a
  word of the object's table (s + 1 words) when log2 N ≤ s (the object was built for a domain of at least N points).
-/
import GoldilocksVerif.Lemmas.HeapSafeIters
import GoldilocksVerif.Lemmas.HeapSafeOwn
open GoldilocksVerif Gen.NttGen GoldilocksVerif.BridgeNtt
namespace GoldilocksVerif.HeapSafe

theorem Int_toNat_natCast (N : Nat) : ((N : Int)).toNat = N := Int.toNat_natCast N

/-- extents after two allocations of n1 and n2 words: the two new last blocks have n1 and n2 words, the old blocks keep theirs -/
theorem ext_alloc_two (hp : Heap) (n1 n2 : Nat) :
    ((hp.alloc n1).1.alloc n2).1.ext hp.size = n1 ∧ ((hp.alloc n1).1.alloc n2).1.ext (hp.size + 1) = n2 ∧
    (∀ b, b < hp.size → ((hp.alloc n1).1.alloc n2).1.ext b = hp.ext b) ∧
    ((hp.alloc n1).1.alloc n2).1.size = hp.size + 2 := by
  have e1 : (hp.alloc n1).1.size = hp.size + 1 := Heap.size_alloc _ _
  refine ⟨?_, ?_, fun b hb => ?_, ?_⟩
  · rw [Heap.ext_alloc, if_neg (by omega), Heap.ext_alloc, if_pos rfl]
  · rw [Heap.ext_alloc, if_pos e1.symm]
  · rw [Heap.ext_alloc, if_neg (by omega), Heap.ext_alloc, if_neg (by omega)]
  · rw [Heap.size_alloc, e1]

/-- one iteration of the loop of `computeR` -/
theorem computeR_body_safe (self : NTT_Goldilocks) (dp : BitVec 64) (N i : Nat) (st : Heap) (hi1 : 1 ≤ i) (hi : i < N)
    (hr : self.r.off + N ≤ st.ext self.r.blk) (hr_ : self.r_.off + N ≤ st.ext self.r_.blk)
    (hpti : self.powTwoInv.off + dp.toNat < st.ext self.powTwoInv.blk) :
    NTT_computeR_loop1.Safe self dp i st := by
  unfold NTT_computeR_loop1.Safe
  zeta_goal
  have i1 : st.InB self.r (i - 1) := InB_base (by omega)
  have i2 : st.InB self.r i := InB_base (by omega)
  have i3 : st.InB self.powTwoInv dp.toNat := InB_base hpti
  have i4 : st.InB self.r_ i := InB_base (by omega)
  exact ⟨i1, i2, ⟨i2.same (Heap.Same.set _ _ _ _), i3.same (Heap.Same.set _ _ _ _)⟩, i4.same (Heap.Same.set _ _ _ _)⟩

/-- **in-bounds accesses of `computeR(N)`**, 1 ≤ N < 2^31 (an `int`), on an object whose `powTwoInv` table has the s + 1
    words the constructor gave it, log2 N ≤ s -/
theorem computeR_safe (fuel : Nat) (hf : 64 ≤ fuel) (hp : Heap) (self : NTT_Goldilocks) (N : Nat)
    (hN1 : 1 ≤ N) (hN31 : N < 2 ^ 31) (hlog : Model.Ntt.log2 N ≤ self.s.toNat)
    (hpti : self.powTwoInv.off + self.s.toNat + 1 ≤ hp.ext self.powTwoInv.blk) :
    NTT_computeR.Safe fuel hp self (N : Int) := by
  have hNt : (bv N).toNat = N := bv_toNat N (by omega)
  have hNne : bv N ≠ 0#64 := by
    intro e; have := congrArg BitVec.toNat e; rw [hNt] at this; simp at this; omega
  have hlg := log2_gen_eq fuel (by unfold log2Fuel; omega) (bv N) hNne
  rw [hNt] at hlg
  have hs32 : self.s.toNat < 2 ^ 32 := self.s.isLt
  have hdp : (BitVec.setWidth 64 (BitVec.ofNat 32 (Model.Ntt.log2 N))).toNat = Model.Ntt.log2 N := by
    rw [setWidth_ofNat32 _ (by omega), bv_toNat _ (by omega)]
  have hpl : self.powTwoInv.blk < hp.size := Heap.lt_size_of_live hp _ (by omega)
  obtain ⟨x1, x2, x3, x4⟩ := ext_alloc_two hp N N
  unfold NTT_computeR.Safe
  intro y hy
  rw [toU64_nat, hlg] at hy
  cases hy
  zeta_goal
  simp only [toU64_nat, hNt, Int_toNat_natCast, hdp]
  have hb1 : (hp.alloc N).2 = ⟨hp.size, 0⟩ := rfl
  have hb2 : ((hp.alloc N).1.alloc N).2 = ⟨hp.size + 1, 0⟩ := by
    rw [Heap.alloc_snd, Heap.size_alloc]
  rw [hb1, hb2]
  have i1 : ((hp.alloc N).1.alloc N).1.InB ⟨hp.size, 0⟩ 0 := InB_base (by show 0 + 0 < _; rw [x1]; omega)
  have i2 : ((hp.alloc N).1.alloc N).1.InB self.powTwoInv (Model.Ntt.log2 N) := InB_base (by rw [x3 _ hpl]; omega)
  have i3 : ((hp.alloc N).1.alloc N).1.InB ⟨hp.size + 1, 0⟩ 0 := InB_base (by show 0 + 0 < _; rw [x2]; omega)
  refine ⟨i1, ⟨i2.same (Heap.Same.set _ _ _ _), i3.same (Heap.Same.set _ _ _ _)⟩, ?_⟩
  refine Loop.RangeAll.of_same (fun i s _ => computeR_loop1_same _ _ i s) (fun i st hi1 hi hst => ?_)
  have hs2 : Heap.Same ((hp.alloc N).1.alloc N).1 st :=
    ((Heap.Same.set _ _ _ _).trans (Heap.Same.set _ _ _ _)).trans hst
  refine computeR_body_safe _ _ N i st hi1 hi ?_ ?_ ?_
  · show 0 + N ≤ st.ext hp.size; rw [hs2.2, x1]; omega
  · show 0 + N ≤ st.ext (hp.size + 1); rw [hs2.2, x2]; omega
  · show self.powTwoInv.off + _ < st.ext self.powTwoInv.blk
    rw [hdp, hs2.2, x3 _ hpl]; omega

end GoldilocksVerif.HeapSafe
