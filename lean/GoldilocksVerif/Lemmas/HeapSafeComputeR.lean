/-
  IN-BOUNDS ACCESSES of the generated `computeR(int N)` (`NTT_computeR.Safe`, derived from the generated definition):
  `r = new Element[N]`, `r_ = new Element[N]` are the two new last blocks of N words; `r[0]`, `r_[0]`, the loop
  `r[i] = r[i-1]·shift; r_[i] = r[i]·powTwoInv[domainPow]` for 1 ≤ i < N stay inside them, and `powTwoInv[log2 N]` is a
  word of the object's table (s + 1 words) when log2 N ≤ s (the object was built for a domain of at least N points).
-/
import GoldilocksVerif.Lemmas.HeapSafeIters
import GoldilocksVerif.Lemmas.HeapSafeOwn
open GoldilocksVerif Gen.NttGen GoldilocksVerif.BridgeNtt
namespace GoldilocksVerif.HeapSafe

theorem Int_toNat_natCast (N : Nat) : ((N : Int)).toNat = N := Int.toNat_natCast N

/-- extents after two allocations of n1 and n2 words: the two new last blocks have n1 and n2 words, the old blocks keep theirs -/
theorem ext_alloc_two (hp : Heap) (n1 n2 : Nat) :
    ((hp.alloc n1).1.alloc n2).1.ext hp.size = n1 ∧ ((hp.alloc n1).1.alloc n2).1.ext (hp.size + 1) = n2 ∧
    (∀ b, b < hp.size → ((hp.alloc n1).1.alloc n2).1.ext b = hp.ext b) ∧
    ((hp.alloc n1).1.alloc n2).1.size = hp.size + 2 := by
  have e1 : (hp.alloc n1).1.size = hp.size + 1 := Heap.size_alloc _ _
  refine ⟨?_, ?_, fun b hb => ?_, ?_⟩
  · rw [Heap.ext_alloc, if_neg (by omega), Heap.ext_alloc, if_pos rfl]
  · rw [Heap.ext_alloc, if_pos e1.symm]
  · rw [Heap.ext_alloc, if_neg (by omega), Heap.ext_alloc, if_neg (by omega)]
  · rw [Heap.size_alloc, e1]

/-- **in-bounds accesses of `computeR(N)`**, 1 ≤ N < 2^31 (an `int`), on an object whose `powTwoInv` table has the s + 1
    words the constructor gave it, log2 N ≤ s -/
theorem computeR_safe (fuel : Nat) (hf : 64 ≤ fuel) (hp : Heap) (self : NTT_Goldilocks) (N : Nat)
    (hN1 : 1 ≤ N) (hN31 : N < 2 ^ 31) (hlog : Model.Ntt.log2 N ≤ self.s.toNat)
    (hpti : self.powTwoInv.off + self.s.toNat + 1 ≤ hp.ext self.powTwoInv.blk) :
    NTT_computeR.Safe fuel hp self (N : Int) := by
  have hNt : (bv N).toNat = N := bv_toNat N (by omega)
  have hNne : bv N ≠ 0#64 := by
    intro e; have := congrArg BitVec.toNat e; rw [hNt] at this; simp at this; omega
  have hlg := log2_gen_eq fuel (by unfold log2Fuel; omega) (bv N) hNne
  rw [hNt] at hlg
  have hs32 : self.s.toNat < 2 ^ 32 := self.s.isLt
  have hdp : (BitVec.setWidth 64 (BitVec.ofNat 32 (Model.Ntt.log2 N))).toNat = Model.Ntt.log2 N := by
    rw [setWidth_ofNat32 _ (by omega), bv_toNat _ (by omega)]
  have hpl : self.powTwoInv.blk < hp.size := Heap.lt_size_of_live hp _ (by omega)
  obtain ⟨x1, x2, x3, x4⟩ := ext_alloc_two hp N N
  unfold NTT_computeR.Safe
  intro y hy
  rw [toU64_nat, hlg] at hy
  cases hy
  zeta_goal
  simp only [toU64_nat, hNt, Int_toNat_natCast, hdp]
  have hb1 : (hp.alloc N).2 = ⟨hp.size, 0⟩ := rfl
  have hb2 : ((hp.alloc N).1.alloc N).2 = ⟨hp.size + 1, 0⟩ := by
    rw [Heap.alloc_snd, Heap.size_alloc]
  rw [hb1, hb2]
  -- every access is `r[j]`, `r_[j]` (j < N: the two new blocks of N words) or `powTwoInv[log2 N]`; the accesses in front of
  -- the loop and in its body are taken as they come (a table entry read once into a local, or in every iteration)
  have hlN : Model.Ntt.log2 N ≤ self.s.toNat := hlog
  have close : ∀ (st : Heap), (∀ b, st.ext b = ((hp.alloc N).1.alloc N).1.ext b) → ∀ (p : Ptr) (j : Nat),
      ((p = ⟨hp.size, 0⟩ ∨ p = ⟨hp.size + 1, 0⟩) ∧ j < N) ∨ (p = self.powTwoInv ∧ j = Model.Ntt.log2 N) → st.InB p j := by
    intro st hst p j h
    unfold Heap.InB
    rw [hst]
    rcases h with ⟨rfl | rfl, hj⟩ | ⟨rfl, rfl⟩
    · show 0 + j < _; rw [x1]; omega
    · show 0 + j < _; rw [x2]; omega
    · rw [x3 _ hpl]; omega
  repeat' apply And.intro
  all_goals first
    | (refine close _ (fun b => by simp only [Heap.ext_set]) _ _ ?_
       first | exact Or.inl ⟨Or.inl rfl, by omega⟩ | exact Or.inl ⟨Or.inr rfl, by omega⟩ | exact Or.inr ⟨rfl, by first | rfl | exact hdp⟩)
    | (refine Loop.RangeAll.of_same (fun i s _ => by loop_same) (fun i st hi1 hi hst => ?_)
       unfold_loops
       zeta_goal
       repeat' apply And.intro
       all_goals (
         refine close _ (fun b => by simp only [Heap.ext_set, hst.2]) _ _ ?_
         first | exact Or.inl ⟨Or.inl rfl, by omega⟩ | exact Or.inl ⟨Or.inr rfl, by omega⟩ | exact Or.inr ⟨rfl, by first | rfl | exact hdp⟩))

end GoldilocksVerif.HeapSafe
