/-
  L2, part 3: one pass of `NTT_iters` = the stages on every batch followed by the transposing copy
  (or, in the last pass of an inverse transform, the reflecting and scaling copy).
-/
import GoldilocksVerif.Lemmas.NttBatch
import GoldilocksVerif.Lemmas.NttDit

namespace GoldilocksVerif.Model.Ntt
open GoldilocksVerif.NttSpec

/-! ### row copies in the field view -/

theorem row_fits (nc n r : Nat) (sz : Nat) (hr : r < n) (h : n * nc ≤ sz) : (r + 1) * nc ≤ sz :=
  Nat.le_trans (Nat.mul_le_mul_right nc (by omega)) h

theorem copyRow_cell (dst src : Buf) (nc r0 s0 r k : Nat) (hk : k < nc) (hfit : (r0 + 1) * nc ≤ dst.size) :
    cell (copyRow dst (r0 * nc) src (s0 * nc) nc) nc r k = if r = r0 then cell src nc s0 k else cell dst nc r k := by
  unfold cell
  rw [copyRow_getD]
  rw [Nat.add_mul, Nat.one_mul] at hfit
  by_cases h : r = r0
  · subst h
    have c : r * nc ≤ r * nc + k ∧ r * nc + k < r * nc + nc ∧ r * nc + k < dst.size := by omega
    rw [if_pos c, if_pos rfl]
    have : s0 * nc + (r * nc + k - r * nc) = s0 * nc + k := by omega
    rw [this]
  · have c : ¬ (r0 * nc ≤ r * nc + k ∧ r * nc + k < r0 * nc + nc ∧ r * nc + k < dst.size) := by
      intro c
      apply h
      have e : r * nc + k = r0 * nc + (r * nc + k - r0 * nc) := by omega
      exact (rowcol_inj nc r k r0 _ hk (by omega) e).1
    rw [if_neg c, if_neg h]

theorem scaleRow_cell (a2 a : Buf) (nc r0 s0 r k : Nat) (f : W) (hk : k < nc) (hfit : (r0 + 1) * nc ≤ a2.size) :
    cell (scaleRow a2 a (r0 * nc) (s0 * nc) nc f) nc r k
      = if r = r0 then cell a nc s0 k * den f else cell a2 nc r k := by
  unfold cell
  rw [scaleRow_getD]
  rw [Nat.add_mul, Nat.one_mul] at hfit
  by_cases h : r = r0
  · subst h
    have c : r * nc ≤ r * nc + k ∧ r * nc + k < r * nc + nc ∧ r * nc + k < a2.size := by omega
    rw [if_pos c, if_pos rfl, den_mul]
    have : s0 * nc + (r * nc + k - r * nc) = s0 * nc + k := by omega
    rw [this]
  · have c : ¬ (r0 * nc ≤ r * nc + k ∧ r * nc + k < r0 * nc + nc ∧ r * nc + k < a2.size) := by
      intro c
      apply h
      have e : r * nc + k = r0 * nc + (r * nc + k - r0 * nc) := by omega
      exact (rowcol_inj nc r k r0 _ hk (by omega) e).1
    rw [if_neg c, if_neg h]

/-- what the pass proof needs from the copy of batch `b` (`B` rows) into the other buffer:
    logical row `q = x*nB + b` lands in physical row `ρ q`, transformed by `φ (ρ q)` -/
def CopyOk (cp : Buf → Buf → Nat → Buf) (ρ : Nat → Nat) (φ : Nat → F → F) (B nB nc : Nat) : Prop :=
  ∀ (A2 A' : Buf) (b : Nat), b < nB → B * nB * nc ≤ A2.size →
    (cp A2 A' b).size = A2.size ∧
    (∀ x k, x < B → k < nc → cell (cp A2 A' b) nc (ρ (x * nB + b)) k = φ (ρ (x * nB + b)) (cell A' nc (b * B + x) k)) ∧
    (∀ r k, k < nc → (∀ x, x < B → r ≠ ρ (x * nB + b)) → cell (cp A2 A' b) nc r k = cell A2 nc r k)

theorem transposeCopy_ok (B nB nc : Nat) :
    CopyOk (fun A2 A' b => transposeCopy A2 A' b B nB nc) (fun q => q) (fun _ v => v) B nB nc := by
  intro A2 A' b hb hsz
  have key : ∀ m, m ≤ B →
      (iter m A2 (fun x a2 => copyRow a2 ((x * nB + b) * nc) A' ((b * B + x) * nc) nc)).size = A2.size ∧
      (∀ x k, x < m → k < nc →
        cell (iter m A2 (fun x a2 => copyRow a2 ((x * nB + b) * nc) A' ((b * B + x) * nc) nc)) nc (x * nB + b) k
          = cell A' nc (b * B + x) k) ∧
      (∀ r k, k < nc → (∀ x, x < m → r ≠ x * nB + b) →
        cell (iter m A2 (fun x a2 => copyRow a2 ((x * nB + b) * nc) A' ((b * B + x) * nc) nc)) nc r k = cell A2 nc r k) := by
    intro m
    induction m with
    | zero => intro _; exact ⟨rfl, fun x k hx => absurd hx (by omega), fun r k _ _ => rfl⟩
    | succ m ih =>
      intro hm
      obtain ⟨i1, i2, i3⟩ := ih (by omega)
      rw [iter_succ]
      generalize iter m A2 (fun x a2 => copyRow a2 ((x * nB + b) * nc) A' ((b * B + x) * nc) nc) = C at i1 i2 i3
      have hfit : (m * nB + b + 1) * nc ≤ C.size := by
        rw [i1]; exact row_fits nc (B * nB) _ _ (mr_lt _ _ _ _ (by omega) hb) hsz
      refine ⟨by rw [copyRow_size, i1], ?_, ?_⟩
      · intro x k hx hk
        rw [copyRow_cell C A' nc _ _ _ k hk hfit]
        by_cases hxm : x = m
        · subst hxm; rw [if_pos rfl]
        · have : x * nB + b ≠ m * nB + b := by
            intro e
            exact hxm (by have := mr_div x b nB hb; have := mr_div m b nB hb; rw [e] at *; omega)
          rw [if_neg this]
          exact i2 x k (by omega) hk
      · intro r k hk hr
        rw [copyRow_cell C A' nc _ _ _ k hk hfit, if_neg (hr m (by omega))]
        exact i3 r k hk (fun x hx => hr x (by omega))
  unfold transposeCopy
  exact key B (Nat.le_refl _)

theorem inverseCopy_ok (o : Obj) (B nB nc dp : Nat) (extend : Bool) (hpos : 0 < B * nB) :
    CopyOk (fun A2 A' b => inverseCopy o A2 A' b B nB nc (B * nB) dp extend) (fun q => inttIdx q (B * nB))
      (fun row v => v * den (scaleFactor o extend dp row)) B nB nc := by
  intro A2 A' b hb hsz
  have key : ∀ m, m ≤ B →
      (iter m A2 (fun x a2 => scaleRow a2 A' (inttIdx (x * nB + b) (B * nB) * nc) ((b * B + x) * nc) nc
          (scaleFactor o extend dp (inttIdx (x * nB + b) (B * nB))))).size = A2.size ∧
      (∀ x k, x < m → k < nc →
        cell (iter m A2 (fun x a2 => scaleRow a2 A' (inttIdx (x * nB + b) (B * nB) * nc) ((b * B + x) * nc) nc
          (scaleFactor o extend dp (inttIdx (x * nB + b) (B * nB))))) nc (inttIdx (x * nB + b) (B * nB)) k
          = cell A' nc (b * B + x) k * den (scaleFactor o extend dp (inttIdx (x * nB + b) (B * nB)))) ∧
      (∀ r k, k < nc → (∀ x, x < m → r ≠ inttIdx (x * nB + b) (B * nB)) →
        cell (iter m A2 (fun x a2 => scaleRow a2 A' (inttIdx (x * nB + b) (B * nB) * nc) ((b * B + x) * nc) nc
          (scaleFactor o extend dp (inttIdx (x * nB + b) (B * nB))))) nc r k = cell A2 nc r k) := by
    intro m
    induction m with
    | zero => intro _; exact ⟨rfl, fun x k hx => absurd hx (by omega), fun r k _ _ => rfl⟩
    | succ m ih =>
      intro hm
      obtain ⟨i1, i2, i3⟩ := ih (by omega)
      rw [iter_succ]
      generalize iter m A2 (fun x a2 => scaleRow a2 A' (inttIdx (x * nB + b) (B * nB) * nc) ((b * B + x) * nc) nc
          (scaleFactor o extend dp (inttIdx (x * nB + b) (B * nB)))) = C at i1 i2 i3
      have hfit : (inttIdx (m * nB + b) (B * nB) + 1) * nc ≤ C.size := by
        rw [i1]; exact row_fits nc (B * nB) _ _ (inttIdx_lt _ _ hpos) hsz
      refine ⟨by rw [scaleRow_size, i1], ?_, ?_⟩
      · intro x k hx hk
        rw [scaleRow_cell C A' nc _ _ _ k _ hk hfit]
        by_cases hxm : x = m
        · subst hxm; rw [if_pos rfl]
        · have : inttIdx (x * nB + b) (B * nB) ≠ inttIdx (m * nB + b) (B * nB) := by
            intro e
            have e2 : inttIdx (inttIdx (x * nB + b) (B * nB)) (B * nB) = inttIdx (inttIdx (m * nB + b) (B * nB)) (B * nB) := by
              rw [e]
            rw [inttIdx_inttIdx _ _ (mr_lt _ _ _ _ (by omega) hb), inttIdx_inttIdx _ _ (mr_lt _ _ _ _ (by omega) hb)] at e2
            exact hxm (by have := mr_div x b nB hb; have := mr_div m b nB hb; rw [e2] at *; omega)
          rw [if_neg this]
          exact i2 x k (by omega) hk
      · intro r k hk hr
        rw [scaleRow_cell C A' nc _ _ _ k _ hk hfit, if_neg (hr m (by omega))]
        exact i3 r k hk (fun x hx => hr x (by omega))
  unfold inverseCopy
  exact key B (Nat.le_refl _)

/-! ### the loop over the batches of one pass -/

/-- the layout after the passes covering stages `1 … t`: row `hi * 2^(d-t) + lo` holds `S t lo hi` -/
def Lay (S : Nat → Nat → Nat → Nat → F) (d t nc : Nat) (a : Buf) : Prop :=
  ∀ hi lo k, hi < 2 ^ t → lo < 2 ^ (d - t) → k < nc → cell a nc (hi * 2 ^ (d - t) + lo) k = S t lo hi k

theorem passLoop_spec (o : Obj) (S : Nat → Nat → Nat → Nat → F) (d t c nc rm : Nat) (a a2 : Buf)
    (cp : Buf → Buf → Nat → Buf) (ρ : Nat → Nat) (φ : Nat → F → F)
    (hR : RootsOk o d) (hS : SRec d S) (htc : t + c ≤ d)
    (ha : 2 ^ d * nc ≤ a.size) (ha2 : 2 ^ d * nc ≤ a2.size) (hlay : Lay S d t nc a)
    (hcp : CopyOk cp ρ φ (2 ^ c) (2 ^ (d - c)) nc)
    (hρ : ∀ q q', q < 2 ^ d → q' < 2 ^ d → ρ q = ρ q' → q = q') :
    let R := iter (2 ^ (d - c)) (a, a2) (fun b st =>
      (batchStages o st.1 (t + 1) c b (2 ^ c) nc t (d - 1) (2 ^ t) rm,
       cp st.2 (batchStages o st.1 (t + 1) c b (2 ^ c) nc t (d - 1) (2 ^ t) rm) b))
    R.1.size = a.size ∧ R.2.size = a2.size ∧
    ∀ b x k, b < 2 ^ (d - c) → x < 2 ^ c → k < nc →
      cell R.2 nc (ρ (x * 2 ^ (d - c) + b)) k
        = φ (ρ (x * 2 ^ (d - c) + b)) (S (t + c) (b % 2 ^ (d - t - c)) (x * 2 ^ t + b / 2 ^ (d - t - c)) k) := by
  intro R
  have eD : 2 ^ d = 2 ^ c * 2 ^ (d - c) := pow_split c (d - c) d (by omega)
  have eN : 2 ^ (d - c) = 2 ^ t * 2 ^ (d - t - c) := pow_split t (d - t - c) (d - c) (by omega)
  have eG : 2 ^ (d - t) = 2 ^ (d - t - c) * 2 ^ c := pow_split (d - t - c) c (d - t) (by omega)
  have hG0 : 0 < 2 ^ (d - t - c) := Nat.two_pow_pos _
  have key : ∀ m, m ≤ 2 ^ (d - c) →
      (iter m (a, a2) (fun b st =>
        (batchStages o st.1 (t + 1) c b (2 ^ c) nc t (d - 1) (2 ^ t) rm,
         cp st.2 (batchStages o st.1 (t + 1) c b (2 ^ c) nc t (d - 1) (2 ^ t) rm) b))).1.size = a.size ∧
      (iter m (a, a2) (fun b st =>
        (batchStages o st.1 (t + 1) c b (2 ^ c) nc t (d - 1) (2 ^ t) rm,
         cp st.2 (batchStages o st.1 (t + 1) c b (2 ^ c) nc t (d - 1) (2 ^ t) rm) b))).2.size = a2.size ∧
      (∀ r k, k < nc → m * 2 ^ c ≤ r →
        cell (iter m (a, a2) (fun b st =>
          (batchStages o st.1 (t + 1) c b (2 ^ c) nc t (d - 1) (2 ^ t) rm,
           cp st.2 (batchStages o st.1 (t + 1) c b (2 ^ c) nc t (d - 1) (2 ^ t) rm) b))).1 nc r k = cell a nc r k) ∧
      (∀ b x k, b < m → x < 2 ^ c → k < nc →
        cell (iter m (a, a2) (fun b st =>
          (batchStages o st.1 (t + 1) c b (2 ^ c) nc t (d - 1) (2 ^ t) rm,
           cp st.2 (batchStages o st.1 (t + 1) c b (2 ^ c) nc t (d - 1) (2 ^ t) rm) b))).2 nc (ρ (x * 2 ^ (d - c) + b)) k
          = φ (ρ (x * 2 ^ (d - c) + b)) (S (t + c) (b % 2 ^ (d - t - c)) (x * 2 ^ t + b / 2 ^ (d - t - c)) k)) := by
    intro m
    induction m with
    | zero =>
      intro _
      exact ⟨rfl, rfl, fun r k _ _ => rfl, fun b x k hb => absurd hb (by omega)⟩
    | succ m ih =>
      intro hm
      obtain ⟨i1, i2, i3, i4⟩ := ih (by omega)
      rw [iter_succ]
      generalize iter m (a, a2) (fun b st =>
        (batchStages o st.1 (t + 1) c b (2 ^ c) nc t (d - 1) (2 ^ t) rm,
         cp st.2 (batchStages o st.1 (t + 1) c b (2 ^ c) nc t (d - 1) (2 ^ t) rm) b)) = st at i1 i2 i3 i4
      obtain ⟨A, A2⟩ := st
      simp only at i1 i2 i3 i4 ⊢
      -- the batch index in mixed radix
      have hmdm : m / 2 ^ (d - t - c) * 2 ^ (d - t - c) + m % 2 ^ (d - t - c) = m := by
        rw [Nat.mul_comm]; exact Nat.div_add_mod m _
      have hhi : m / 2 ^ (d - t - c) < 2 ^ t := by
        apply Nat.div_lt_of_lt_mul; rw [Nat.mul_comm, ← eN]; omega
      have hmid : m % 2 ^ (d - t - c) < 2 ^ (d - t - c) := Nat.mod_lt _ hG0
      have hfit : (m + 1) * 2 ^ c * nc ≤ A.size := by
        rw [i1]
        refine Nat.le_trans (Nat.mul_le_mul_right nc ?_) ha
        rw [eD, Nat.mul_comm (2 ^ c)]
        exact Nat.mul_le_mul_right _ (by omega)
      have hin : ∀ x k, x < 2 ^ c → k < nc →
          cell A nc ((m / 2 ^ (d - t - c) * 2 ^ (d - t - c) + m % 2 ^ (d - t - c)) * 2 ^ c + x) k
            = S t (m % 2 ^ (d - t - c) * 2 ^ c + x) (m / 2 ^ (d - t - c)) k := by
        intro x k hx hk
        rw [hmdm, i3 _ k hk (by omega)]
        have := hlay (m / 2 ^ (d - t - c)) (m % 2 ^ (d - t - c) * 2 ^ c + x) k hhi
          (by rw [eG]; exact mr_lt _ _ _ _ hmid hx) hk
        rw [← this]
        congr 1
        rw [eG]
        generalize m % 2 ^ (d - t - c) = mid at *
        generalize m / 2 ^ (d - t - c) = hi at *
        rw [← hmdm]; ring
      obtain ⟨b1, b2, b3⟩ := batchStages_spec o S d t c (m / 2 ^ (d - t - c)) (m % 2 ^ (d - t - c)) nc rm A hR hS htc
        hhi hmid (by rw [hmdm]; exact hfit) hin
      rw [hmdm] at b1 b2 b3
      generalize batchStages o A (t + 1) c m (2 ^ c) nc t (d - 1) (2 ^ t) rm = A' at b1 b2 b3
      obtain ⟨c1, c2, c3⟩ := hcp A2 A' m (by omega) (by rw [i2, ← eD]; exact ha2)
      refine ⟨by rw [b1, i1], by rw [c1, i2], ?_, ?_⟩
      · intro r k hk hr
        rw [b3 r k hk (Or.inr hr)]
        exact i3 r k hk (by rw [Nat.add_mul] at hr; omega)
      · intro b x k hb hx hk
        by_cases hbm : b = m
        · subst hbm
          rw [c2 x k hx hk, b2 x k hx hk]
        · have hq : ∀ x', x' < 2 ^ c → ρ (x * 2 ^ (d - c) + b) ≠ ρ (x' * 2 ^ (d - c) + m) := by
            intro x' hx' e
            have hlt1 : x * 2 ^ (d - c) + b < 2 ^ d := by rw [eD]; exact mr_lt _ _ _ _ hx (by omega)
            have hlt2 : x' * 2 ^ (d - c) + m < 2 ^ d := by rw [eD]; exact mr_lt _ _ _ _ hx' (by omega)
            have e2 := hρ _ _ hlt1 hlt2 e
            have m1 := mr_mod x b (2 ^ (d - c)) (by omega)
            have m2 := mr_mod x' m (2 ^ (d - c)) (by omega)
            rw [e2, m2] at m1
            exact hbm m1.symm
          rw [c3 _ k hk hq]
          exact i4 b x k (by omega) hx hk
  obtain ⟨k1, k2, _, k4⟩ := key (2 ^ (d - c)) (Nat.le_refl _)
  exact ⟨k1, k2, k4⟩

/-! ### one pass -/

theorem passBatch_eq (o : Obj) (d nc t c : Nat) (lastInv extend : Bool) (hc : c ≤ d) :
    passBatch o (2 ^ d) d nc (t + 1) c lastInv extend = fun b st =>
      (batchStages o st.1 (t + 1) c b (2 ^ c) nc t (d - 1) (2 ^ t) (2 ^ (d - 1 - t) - 1),
       (fun A2 A' b => if lastInv then inverseCopy o A2 A' b (2 ^ c) (2 ^ (d - c)) nc (2 ^ c * 2 ^ (d - c)) d extend
          else transposeCopy A2 A' b (2 ^ c) (2 ^ (d - c)) nc) st.2
        (batchStages o st.1 (t + 1) c b (2 ^ c) nc t (d - 1) (2 ^ t) (2 ^ (d - 1 - t) - 1)) b) := by
  funext b st
  unfold passBatch
  have e1 : t + 1 - 1 = t := by omega
  have e2 : 2 ^ d / 2 ^ c = 2 ^ (d - c) := Nat.pow_div hc (by omega)
  have e3 : 2 ^ c * 2 ^ (d - c) = 2 ^ d := (pow_split c (d - c) d (by omega)).symm
  simp only [e1, e2, e3]

/-- a pass that is not the fused last pass of an inverse transform: layout `t` becomes layout `t + c` in the other buffer -/
theorem pass_fwd (o : Obj) (S : Nat → Nat → Nat → Nat → F) (d t c nc : Nat) (a a2 : Buf) (flag inverse extend : Bool)
    (hR : RootsOk o d) (hS : SRec d S) (htc : t + c ≤ d) (hnl : t + c < d ∨ inverse = false)
    (ha : 2 ^ d * nc ≤ a.size) (ha2 : 2 ^ d * nc ≤ a2.size) (hlay : Lay S d t nc a) :
    ∃ a' a2', pass o (2 ^ d) d nc inverse extend (a, a2, flag) (t + 1, c) = (a2', a', !flag) ∧
      a2'.size = a2.size ∧ a'.size = a.size ∧ Lay S d (t + c) nc a2' := by
  have hli : (!decide (t + 1 + c ≤ d) && inverse) = false := by
    rcases hnl with h | h
    · have : decide (t + 1 + c ≤ d) = true := by simp; omega
      rw [this]; rfl
    · rw [h]; simp
  have e2 : 2 ^ d / 2 ^ c = 2 ^ (d - c) := Nat.pow_div (by omega) (by omega)
  unfold pass
  simp only [hli, e2]
  rw [passBatch_eq o d nc t c false extend (by omega)]
  simp only [Bool.false_eq_true, if_false]
  obtain ⟨r1, r2, r3⟩ := passLoop_spec o S d t c nc (2 ^ (d - 1 - t) - 1) a a2
    (fun A2 A' b => transposeCopy A2 A' b (2 ^ c) (2 ^ (d - c)) nc) (fun q => q) (fun _ v => v)
    hR hS htc ha ha2 hlay (transposeCopy_ok _ _ _) (fun q q' _ _ h => h)
  refine ⟨_, _, rfl, r2, r1, ?_⟩
  intro hi lo k hhi hlo hk
  have eN : 2 ^ (d - c) = 2 ^ t * 2 ^ (d - t - c) := pow_split t (d - t - c) (d - c) (by omega)
  have eT : 2 ^ (t + c) = 2 ^ c * 2 ^ t := by rw [Nat.add_comm]; exact pow_split c t _ rfl
  have eG : d - (t + c) = d - t - c := by omega
  rw [eG] at hlo ⊢
  have hT0 : 0 < 2 ^ t := Nat.two_pow_pos _
  have hx : hi / 2 ^ t < 2 ^ c := by
    apply Nat.div_lt_of_lt_mul; rw [Nat.mul_comm, ← eT]; exact hhi
  have hh : hi % 2 ^ t < 2 ^ t := Nat.mod_lt _ hT0
  have hb : hi % 2 ^ t * 2 ^ (d - t - c) + lo < 2 ^ (d - c) := by rw [eN]; exact mr_lt _ _ _ _ hh hlo
  have := r3 (hi % 2 ^ t * 2 ^ (d - t - c) + lo) (hi / 2 ^ t) k hb hx hk
  beta_reduce at this
  rw [mr_mod _ _ _ hlo, mr_div _ _ _ hlo] at this
  have hdm : hi / 2 ^ t * 2 ^ t + hi % 2 ^ t = hi := by rw [Nat.mul_comm]; exact Nat.div_add_mod hi _
  rw [hdm] at this
  rw [← this]
  congr 1
  rw [eN]
  generalize hi % 2 ^ t = h at *
  generalize hi / 2 ^ t = x at *
  rw [← hdm]; ring

/-- the fused last pass of an inverse transform: row `k'` receives `S d 0 (inttIdx k')` times the scaling factor of row `k'` -/
theorem pass_inv (o : Obj) (S : Nat → Nat → Nat → Nat → F) (d t c nc : Nat) (a a2 : Buf) (flag extend : Bool)
    (hR : RootsOk o d) (hS : SRec d S) (htc : t + c = d)
    (ha : 2 ^ d * nc ≤ a.size) (ha2 : 2 ^ d * nc ≤ a2.size) (hlay : Lay S d t nc a) :
    ∃ a' a2', pass o (2 ^ d) d nc true extend (a, a2, flag) (t + 1, c) = (a2', a', !flag) ∧
      a2'.size = a2.size ∧ a'.size = a.size ∧
      ∀ k' k, k' < 2 ^ d → k < nc →
        cell a2' nc k' k = S d 0 (inttIdx k' (2 ^ d)) k * den (scaleFactor o extend d k') := by
  have hli : (!decide (t + 1 + c ≤ d) && true) = true := by
    have : decide (t + 1 + c ≤ d) = false := by simp; omega
    rw [this]; rfl
  have e2 : 2 ^ d / 2 ^ c = 2 ^ (d - c) := Nat.pow_div (by omega) (by omega)
  have eD : 2 ^ d = 2 ^ c * 2 ^ (d - c) := pow_split c (d - c) d (by omega)
  have hpos : 0 < 2 ^ c * 2 ^ (d - c) := by rw [← eD]; exact Nat.two_pow_pos _
  unfold pass
  simp only [hli, e2]
  rw [passBatch_eq o d nc t c true extend (by omega)]
  simp only [if_true]
  obtain ⟨r1, r2, r3⟩ := passLoop_spec o S d t c nc (2 ^ (d - 1 - t) - 1) a a2
    (fun A2 A' b => inverseCopy o A2 A' b (2 ^ c) (2 ^ (d - c)) nc (2 ^ c * 2 ^ (d - c)) d extend)
    (fun q => inttIdx q (2 ^ c * 2 ^ (d - c))) (fun row v => v * den (scaleFactor o extend d row))
    hR hS (by omega) ha ha2 hlay (inverseCopy_ok o _ _ _ d extend hpos)
    (fun q q' hq hq' h => by
      rw [eD] at hq hq'
      have : inttIdx (inttIdx q (2 ^ c * 2 ^ (d - c))) (2 ^ c * 2 ^ (d - c))
          = inttIdx (inttIdx q' (2 ^ c * 2 ^ (d - c))) (2 ^ c * 2 ^ (d - c)) := by rw [h]
      rw [inttIdx_inttIdx _ _ hq, inttIdx_inttIdx _ _ hq'] at this
      exact this)
  refine ⟨_, _, rfl, r2, r1, ?_⟩
  intro k' k hk' hk
  -- the logical row that lands in row k'
  have hq : inttIdx k' (2 ^ d) < 2 ^ d := inttIdx_lt _ _ (Nat.two_pow_pos _)
  have hN0 : 0 < 2 ^ (d - c) := Nat.two_pow_pos _
  have hx : inttIdx k' (2 ^ d) / 2 ^ (d - c) < 2 ^ c := by
    apply Nat.div_lt_of_lt_mul; rw [Nat.mul_comm, ← eD]; exact hq
  have hb : inttIdx k' (2 ^ d) % 2 ^ (d - c) < 2 ^ (d - c) := Nat.mod_lt _ hN0
  have := r3 _ _ k hb hx hk
  have hdm : inttIdx k' (2 ^ d) / 2 ^ (d - c) * 2 ^ (d - c) + inttIdx k' (2 ^ d) % 2 ^ (d - c) = inttIdx k' (2 ^ d) := by
    rw [Nat.mul_comm]; exact Nat.div_add_mod _ _
  have hq' : inttIdx (inttIdx k' (2 ^ d)) (2 ^ c * 2 ^ (d - c)) = k' := by
    rw [← eD]; exact inttIdx_inttIdx _ _ hk'
  beta_reduce at this
  rw [hdm, hq'] at this
  rw [this]
  have eG : d - t - c = 0 := by omega
  have eN : d - c = t := by omega
  rw [eG, Nat.pow_zero, Nat.mod_one, Nat.div_one, htc]
  rw [eN] at hdm ⊢
  rw [hdm]

end GoldilocksVerif.Model.Ntt
