/-
  IN-BOUNDS ACCESSES of a whole object LIFE in the generated model: the generated constructor on the default-initialised
  members, any list of `NTT` / `INTT` / `extendPol` calls (`HeapSafe.Call`, `runCalls`, `life`: Lemmas/HeapSafeOwn.lean), the
  generated destructor.  `life.Safe` is the conjunction of the derived predicates (`NTT_ctor.Safe`, `NTT_NTT.Safe`,
  `NTT_INTT.Safe`, `NTT_extendPol.Safe`, `NTT_dtor.Safe`) along the history, each on the state the history has reached.

  The caller's buffers are blocks that exist BEFORE the object is constructed (live in `h0`); the invariant `HS` between
  the calls says: they keep their extents; the object's tables are two other live blocks with the extents the
  constructor gave them; the cache is absent or two more live blocks of `r_N` words (`CacheInv`).  The invariant comes from
  the constructor (`ctor_tables`), is kept by `NTT` / `INTT` (allocation balance: `NTT_same`) and by `extendPol`
  (`extendPol_post`), and gives the hypotheses of `NTT_safe_all` / `INTT_safe_all` / `extendPol_safe` / `dtor_safe`.
-/
import GoldilocksVerif.Lemmas.HeapSafeExtend
open GoldilocksVerif Gen.NttGen GoldilocksVerif.BridgeNtt
namespace GoldilocksVerif.HeapSafe

/-- the in-bounds condition of one call = the derived predicate of the function it calls, on the current state -/
def Call.Safe (fuel : Nat) (st : Heap × NTT_Goldilocks) : Call → Prop
  | .ntt dst src size ncols buffer nphase nblock inverse extend =>
    NTT_NTT.Safe fuel st.1 st.2 dst src size ncols buffer nphase nblock inverse extend
  | .intt dst src size ncols buffer nphase nblock extend =>
    NTT_INTT.Safe fuel st.1 st.2 dst src size ncols buffer nphase nblock extend
  | .extendPol output input NE N ncols buffer nphase nblock =>
    NTT_extendPol.Safe fuel st.1 st.2 output input NE N ncols buffer nphase nblock

/-- every call of the list is in bounds on the state the previous calls left -/
def runCalls.Safe (fuel : Nat) : Heap × NTT_Goldilocks → List Call → Prop
  | _, [] => True
  | st, c :: cs => Call.Safe fuel st c ∧ ∀ st', runCall fuel st c = some st' → runCalls.Safe fuel st' cs

/-- constructor, calls, destructor: every access of the whole history is in bounds -/
def life.Safe (fuel : Nat) (h0 : Heap) (maxDomainSize : BitVec 64) (nThreads : BitVec 32) (extension : Int) (cs : List Call) : Prop :=
  NTT_ctor.Safe fuel h0 NTT_Goldilocks.init maxDomainSize nThreads extension ∧
  ∀ st, NTT_ctor fuel h0 NTT_Goldilocks.init maxDomainSize nThreads extension = some st →
    runCalls.Safe fuel st cs ∧ ∀ st', runCalls fuel st cs = some st' → NTT_dtor.Safe st'.1 st'.2

/-- the buffers of an `NTT` / `INTT` call of `size = N = 2^K` rows of `ncols = NC` words, in the heap `h0` the caller had before
    the object was constructed: destination (`src` when `dst == NULL`) and source of N·NC words, another block when they
    are not the same pointer; a caller scratch buffer of N·NC words in a third block -/
structure BufOK (h0 : Heap) (dst src buffer : Ptr) (N NC K : Nat) : Prop where
  hK : K ≤ 30
  hN : N = 2 ^ K
  hNC : 0 < NC
  hbytes : N * NC * 8 < 2 ^ 64
  hD : (if (dst == Ptr.null) = true then src else dst).off + N * NC ≤ h0.ext (if (dst == Ptr.null) = true then src else dst).blk
  hsrc : src.off + N * NC ≤ h0.ext src.blk
  hds : (if (dst == Ptr.null) = true then src else dst) ≠ src → (if (dst == Ptr.null) = true then src else dst).blk ≠ src.blk
  hbuf : buffer ≠ Ptr.null → buffer.off + N * NC ≤ h0.ext buffer.blk ∧
    buffer.blk ≠ (if (dst == Ptr.null) = true then src else dst).blk ∧ buffer.blk ≠ src.blk

/-- the buffers of an `extendPol` call (the caller's part of `EPShape`), in `h0` -/
structure EPBuf (h0 : Heap) (output input buffer : Ptr) (N NE NC dn de : Nat) : Prop where
  hdn : dn ≤ de
  hde : de ≤ 30
  hN : N = 2 ^ dn
  hNE : NE = 2 ^ de
  hNC : 0 < NC
  hbytes : NE * NC * 8 < 2 ^ 64
  hout0 : output ≠ Ptr.null
  hout : output.off + NE * NC ≤ h0.ext output.blk
  hin : input.off + N * NC ≤ h0.ext input.blk
  hio : output ≠ input → output.blk ≠ input.blk
  hbuf : buffer ≠ Ptr.null → buffer.off + NE * NC ≤ h0.ext buffer.blk ∧ buffer.blk ≠ output.blk ∧ buffer.blk ≠ input.blk

/-- the documented preconditions of a call on an object built for a domain of 2^D points: sizes are powers of two up to
    2^D (and 2^30), buffers of the documented extents (`BufOK`, `EPBuf`); `extend` (internal to `extendPol`) is false -/
def CallOK (h0 : Heap) (D : Nat) : Call → Prop
  | .ntt dst src size ncols buffer _ _ _ extend =>
    extend = false ∧ ∃ N NC K, size = bv N ∧ ncols = bv NC ∧ K ≤ D ∧ BufOK h0 dst src buffer N NC K
  | .intt dst src size ncols buffer _ _ extend =>
    extend = false ∧ ∃ N NC K, size = bv N ∧ ncols = bv NC ∧ K ≤ D ∧ BufOK h0 dst src buffer N NC K
  | .extendPol output input NE N ncols buffer _ _ =>
    ∃ n ne nc dn de, NE = bv ne ∧ N = bv n ∧ ncols = bv nc ∧ dn ≤ D ∧ EPBuf h0 output input buffer n ne nc dn de

/-- what holds between the calls -/
structure HS (h0 : Heap) (D : Nat) (st : Heap × NTT_Goldilocks) : Prop where
  keep : ∀ b, 0 < h0.ext b → st.1.ext b = h0.ext b
  hsD : D ≤ st.2.s.toNat
  hs32 : st.2.s.toNat ≤ 32
  hs0 : st.2.s ≠ 0#32
  roff : st.2.roots.off = 0
  poff : st.2.powTwoInv.off = 0
  rext : 2 ^ st.2.s.toNat ≤ st.1.ext st.2.roots.blk
  pext : st.2.s.toNat + 1 ≤ st.1.ext st.2.powTwoInv.blk
  rdead : h0.ext st.2.roots.blk = 0
  pdead : h0.ext st.2.powTwoInv.blk = 0
  rp : st.2.roots.blk ≠ st.2.powTwoInv.blk
  cache : CacheInv st.1 st.2 (fun b => 0 < h0.ext b ∨ b = st.2.roots.blk ∨ b = st.2.powTwoInv.blk)
  cok : st.2.r = Ptr.null → st.2.r_ = Ptr.null

theorem HS.pos {h0 : Heap} {D : Nat} {st : Heap × NTT_Goldilocks} (h : HS h0 D st) : 0 < st.1.size := by
  have := Heap.lt_size_of_live st.1 st.2.powTwoInv.blk (by have := h.pext; omega)
  omega

/-- the constructor establishes the invariant -/
theorem HS.ctor (fuel : Nat) (hf : 64 ≤ fuel) (h0 : Heap) (hpos : 0 < h0.size) (m : BitVec 64) (thr : BitVec 32) (e : Nat)
    (hm0 : m ≠ 0#64) (st : Heap × NTT_Goldilocks)
    (h : NTT_ctor fuel h0 NTT_Goldilocks.init m thr (e : Int) = some st) : HS h0 (Model.Ntt.log2 m.toNat) st := by
  obtain ⟨H1, obj⟩ := st
  have hpost := ctor_shape fuel h0 NTT_Goldilocks.init m thr _ (H1, obj) h
  obtain ⟨t1, t2, t3, t4, t5, t6, _, t8, _⟩ := ctor_tables fuel hf h0 H1 hpos _ obj m thr e hm0 h
  obtain ⟨es0, er, er_⟩ : obj.s ≠ 0#32 ∧ obj.r = Ptr.null ∧ obj.r_ = Ptr.null := by
    rcases hpost with ⟨e0, _⟩ | ⟨_, hinv, _⟩
    · exact absurd e0 hm0
    · exact hinv
  refine ⟨fun b hb => t8 b (Heap.lt_size_of_live h0 b hb), t1, t2, es0, by rw [t3], by rw [t4], ?_, ?_, ?_, ?_, ?_,
    fun hr => absurd er hr, fun _ => er_⟩
  · show 2 ^ obj.s.toNat ≤ H1.ext obj.roots.blk
    rw [t3, t5]
  · show obj.s.toNat + 1 ≤ H1.ext obj.powTwoInv.blk
    rw [t4, t6]
  · show h0.ext obj.roots.blk = 0
    rw [t3]; exact Heap.ext_ge_size h0 _ (Nat.le_refl _)
  · show h0.ext obj.powTwoInv.blk = 0
    rw [t4]; exact Heap.ext_ge_size h0 _ (Nat.le_succ _)
  · show obj.roots.blk ≠ obj.powTwoInv.blk
    rw [t3, t4]; show h0.size ≠ h0.size + 1; omega

/-- a heap of the same shape keeps the invariant -/
theorem HS.same {h0 : Heap} {D : Nat} {hp hp' : Heap} {self : NTT_Goldilocks} (h : HS h0 D (hp, self)) (hs : Heap.Same hp hp') :
    HS h0 D (hp', self) := by
  obtain ⟨a1, a2, a3, a4, a5, a6, a7, a8, a9, a10, a11, a12, a13⟩ := h
  exact ⟨fun b hb => by show hp'.ext b = _; rw [hs.2]; exact a1 b hb, a2, a3, a4, a5, a6, by show _ ≤ hp'.ext _; rw [hs.2]; exact a7,
    by show _ ≤ hp'.ext _; rw [hs.2]; exact a8, a9, a10, a11, CacheInv.mono a12 (fun _ x => x) (hs.2 _) (hs.2 _), a13⟩

/-- the hypotheses of `NTT_safe_all` / `INTT_safe_all` from the invariant and the caller's buffers -/
theorem HS.nttShape {h0 : Heap} {D : Nat} {st : Heap × NTT_Goldilocks} (h : HS h0 D st) {dst src buffer : Ptr} {N NC K : Nat}
    (hKD : K ≤ D) (b : BufOK h0 dst src buffer N NC K) : NTTShape0 st.1 st.2 dst src buffer N NC K false := by
  obtain ⟨hK, hN, hNC, hbytes, hD, hsrc, hds, hbuf⟩ := b
  have hN0 : 0 < N := by rw [hN]; exact Nat.pow_pos (by omega)
  have hNNC0 : 0 < N * NC := Nat.mul_pos hN0 hNC
  have hN30 : N ≤ 2 ^ 30 := by rw [hN]; exact Nat.pow_le_pow_right (by omega) hK
  have hsl : 0 < h0.ext src.blk := by omega
  refine ⟨hK, hN, hNC, hbytes, h.pos, by rw [h.keep _ (by omega)]; exact hD, ?_, ?_, hds, fun hb => ?_, by have := h.hsD; omega,
    h.hs32, by rw [h.roff]; have := h.rext; omega, by rw [h.poff]; have := h.pext; omega, fun x => by cases x⟩
  · have := Nat.mul_le_mul_right NC (srcRows_le st.2 N (by omega))
    rw [h.keep _ hsl]; omega
  · exact Heap.lt_size_of_live st.1 _ (by rw [h.keep _ hsl]; exact hsl)
  · obtain ⟨b1, b2, b3⟩ := hbuf hb
    exact ⟨by rw [h.keep _ (by omega)]; exact b1, b2, b3⟩

/-- the hypotheses of `extendPol_safe` from the invariant and the caller's buffers -/
theorem HS.epShape {h0 : Heap} {D : Nat} {st : Heap × NTT_Goldilocks} (h : HS h0 D st) {output input buffer : Ptr}
    {N NE NC dn de : Nat} (hdD : dn ≤ D) (b : EPBuf h0 output input buffer N NE NC dn de) :
    EPShape st.1 st.2 output input buffer N NE NC dn de := by
  obtain ⟨hdn, hde, hN, hNE, hNC, hbytes, hout0, hout, hin, hio, hbuf⟩ := b
  have hN0 : 0 < N := by rw [hN]; exact Nat.pow_pos (by omega)
  have hNE0 : 0 < NE := by rw [hNE]; exact Nat.pow_pos (by omega)
  have hNNC0 : 0 < N * NC := Nat.mul_pos hN0 hNC
  have hNENC0 : 0 < NE * NC := Nat.mul_pos hNE0 hNC
  refine ⟨hdn, hde, hN, hNE, hNC, hbytes, hout0, by rw [h.keep _ (by omega)]; exact hout, by rw [h.keep _ (by omega)]; exact hin,
    hio, fun hb => ?_, by have := h.hsD; omega, h.hs32, by rw [h.roff]; have := h.rext; omega,
    by rw [h.poff]; have := h.pext; omega, ?_⟩
  · obtain ⟨b1, b2, b3⟩ := hbuf hb
    exact ⟨by rw [h.keep _ (by omega)]; exact b1, b2, b3⟩
  · refine CacheInv.mono h.cache (fun x hx => ?_) rfl rfl
    rcases hx with e | e | ⟨hb, e⟩ | e | e
    · rw [e]; exact Or.inl (by omega)
    · rw [e]; exact Or.inl (by omega)
    · rw [e]; exact Or.inl (by have := (hbuf hb).1; omega)
    · exact Or.inr (Or.inl e)
    · exact Or.inr (Or.inr e)

/-- one call with documented arguments is in bounds -/
theorem call_safe (fuel : Nat) (hf : 64 ≤ fuel) (h0 : Heap) (D : Nat) (st : Heap × NTT_Goldilocks) (c : Call)
    (h : HS h0 D st) (hc : CallOK h0 D c) : Call.Safe fuel st c := by
  cases c with
  | ntt dst src size ncols buffer nphase nblock inverse extend =>
    obtain ⟨he, N, NC, K, e1, e2, hKD, b⟩ := hc
    subst he e1 e2
    exact NTT_safe_all fuel hf st.1 st.2 dst src buffer N NC K nphase nblock inverse false (h.nttShape hKD b)
  | intt dst src size ncols buffer nphase nblock extend =>
    obtain ⟨he, N, NC, K, e1, e2, hKD, b⟩ := hc
    subst he e1 e2
    exact INTT_safe_all fuel hf st.1 st.2 dst src buffer N NC K nphase nblock false (h.nttShape hKD b)
  | extendPol output input NE N ncols buffer nphase nblock =>
    obtain ⟨n, ne, nc, dn, de, e1, e2, e3, hdD, b⟩ := hc
    subst e1 e2 e3
    exact extendPol_safe fuel hf st.1 st.2 output input buffer n ne nc dn de nphase nblock (h.epShape hdD b)

/-- one call with documented arguments keeps the invariant -/
theorem call_step (fuel : Nat) (hf : 64 ≤ fuel) (h0 : Heap) (D : Nat) (st st' : Heap × NTT_Goldilocks) (c : Call)
    (h : HS h0 D st) (hc : CallOK h0 D c) (hr : runCall fuel st c = some st') : HS h0 D st' := by
  cases c with
  | ntt dst src size ncols buffer nphase nblock inverse extend =>
    unfold runCall at hr
    rw [Option.bind_eq_some_iff] at hr
    obtain ⟨y, hy, e⟩ := hr
    injection e with e
    rw [← e]
    exact HS.same (self := st.2) h (NTT_same fuel st.1 st.2 dst src size ncols buffer nphase nblock inverse extend h.pos y hy)
  | intt dst src size ncols buffer nphase nblock extend =>
    unfold runCall at hr
    rw [Option.bind_eq_some_iff] at hr
    obtain ⟨y, hy, e⟩ := hr
    injection e with e
    rw [← e]
    exact HS.same (self := st.2) h (INTT_same fuel st.1 st.2 dst src size ncols buffer nphase nblock extend h.pos y hy)
  | extendPol output input NE N ncols buffer nphase nblock =>
    obtain ⟨n, ne, nc, dn, de, e1, e2, e3, hdD, b⟩ := hc
    subst e1 e2 e3
    unfold runCall at hr
    obtain ⟨p1, ⟨q1, q2, q3, _, _⟩, p3, p4, _⟩ :=
      extendPol_post fuel hf st.1 st.2 output input buffer n ne nc dn de nphase nblock (h.epShape hdD b) st' hr
    -- the caller's blocks and the tables are live and not blocks of the old cache
    have hold : ∀ x, (0 < h0.ext x ∨ x = st.2.roots.blk ∨ x = st.2.powTwoInv.blk) → EPOld st.1 st.2 x := by
      intro x hx
      refine ⟨?_, fun hcx => ?_⟩
      · rcases hx with e | e | e
        · rw [h.keep _ e]; exact e
        · rw [e]; have := h.rext; have : 0 < 2 ^ st.2.s.toNat := Nat.pow_pos (by omega); omega
        · rw [e]; have := h.pext; omega
      · obtain ⟨_, _, _, _, _, f, _⟩ := h.cache hcx.1
        obtain ⟨f1, f2⟩ := f x hx
        rcases hcx.2 with e | e
        · exact f1 e.symm
        · exact f2 e.symm
    have hr' := hold _ (Or.inr (Or.inl rfl))
    have hp' := hold _ (Or.inr (Or.inr rfl))
    refine ⟨fun x hx => by rw [p1 x (hold x (Or.inl hx))]; exact h.keep x hx, by rw [q1]; exact h.hsD, by rw [q1]; exact h.hs32,
      by rw [q1]; exact h.hs0, by rw [q2]; exact h.roff, by rw [q3]; exact h.poff, ?_, ?_, by rw [q2]; exact h.rdead,
      by rw [q3]; exact h.pdead, by rw [q2, q3]; exact h.rp, ?_, fun e => absurd e p4⟩
    · rw [q1, q2, p1 _ hr']; exact h.rext
    · rw [q1, q3, p1 _ hp']; exact h.pext
    · refine CacheInv.mono p3 (fun x hx => ?_) rfl rfl
      rw [q2, q3] at hx
      exact hold x hx

/-- a list of calls with documented arguments is in bounds, and leaves the invariant -/
theorem runCalls_safe (fuel : Nat) (hf : 64 ≤ fuel) (h0 : Heap) (D : Nat) (cs : List Call) :
    ∀ (st : Heap × NTT_Goldilocks), HS h0 D st → (∀ c, c ∈ cs → CallOK h0 D c) →
      runCalls.Safe fuel st cs ∧ ∀ st', runCalls fuel st cs = some st' → HS h0 D st' := by
  induction cs with
  | nil =>
    intro st h _
    refine ⟨trivial, fun st' hr => ?_⟩
    unfold runCalls at hr
    injection hr with hr
    rw [← hr]; exact h
  | cons c cs ih =>
    intro st h hok
    have hc := hok c (List.mem_cons_self ..)
    have hrest : ∀ c', c' ∈ cs → CallOK h0 D c' := fun c' hc' => hok c' (List.mem_cons_of_mem _ hc')
    refine ⟨⟨call_safe fuel hf h0 D st c h hc, fun st1 h1 => (ih st1 (call_step fuel hf h0 D st st1 c h hc h1) hrest).1⟩,
      fun st' hr => ?_⟩
    unfold runCalls at hr
    rw [Option.bind_eq_some_iff] at hr
    obtain ⟨st1, h1, hr⟩ := hr
    exact (ih st1 (call_step fuel hf h0 D st st1 c h hc h1) hrest).2 st' hr

/-- the destructor on a state that satisfies the invariant -/
theorem HS.dtor {h0 : Heap} {D : Nat} {st : Heap × NTT_Goldilocks} (h : HS h0 D st) : NTT_dtor.Safe st.1 st.2 := by
  refine dtor_safe st.1 st.2 ⟨fun _ => ⟨h.roff, ?_, h.poff, ?_, h.rp⟩, fun hr => ?_, fun hr_ => ?_⟩
  · have := h.rext; have : 0 < 2 ^ st.2.s.toNat := Nat.pow_pos (by omega); omega
  · have := h.pext; omega
  · obtain ⟨a, b, _, _, _, f, _⟩ := h.cache hr
    exact ⟨a, b, fun _ => ⟨(f _ (Or.inr (Or.inl rfl))).1, (f _ (Or.inr (Or.inr rfl))).1⟩⟩
  · have hr : st.2.r ≠ Ptr.null := fun e => hr_ (h.cok e)
    obtain ⟨_, _, c, d, e, f, _⟩ := h.cache hr
    exact ⟨c, d, fun _ => ⟨(f _ (Or.inr (Or.inl rfl))).2, (f _ (Or.inr (Or.inr rfl))).2⟩, fun _ x => e x.symm⟩

/-- **in-bounds accesses of a whole object life**: the generated constructor (`maxDomainSize ≠ 0`) on any heap with its NULL
    block, any list of `NTT` / `INTT` / `extendPol` calls with documented arguments (`CallOK`: power-of-two sizes up to the
    domain the object was built for, the caller's buffers are blocks of `h0` of the documented extents), the generated
    destructor: every access, every `memcpy` / `memset` range and every release of the whole history is in bounds -/
theorem life_safe (fuel : Nat) (hf : 64 ≤ fuel) (h0 : Heap) (hpos : 0 < h0.size) (m : BitVec 64) (thr : BitVec 32) (e : Nat)
    (hm0 : m ≠ 0#64) (cs : List Call) (hok : ∀ c, c ∈ cs → CallOK h0 (Model.Ntt.log2 m.toNat) c) :
    life.Safe fuel h0 m thr (e : Int) cs := by
  refine ⟨ctor_safe _ _ _ _ _ _, fun st hst => ?_⟩
  have hs := HS.ctor fuel hf h0 hpos m thr e hm0 st hst
  obtain ⟨s1, s2⟩ := runCalls_safe fuel hf h0 _ cs st hs hok
  exact ⟨s1, fun st' hr => (s2 st' hr).dtor⟩

end GoldilocksVerif.HeapSafe
