/-
  Hypothesis `hH` of the Merkle bridge (Lemmas/BridgeMerkle.lean) for `merkletree_avx`, discharged: the translated AVX2
  `hash(out, inp)` writes out[0..3] = a function of inp[0..11] and nothing else.
-/
import GoldilocksVerif.Lemmas.BridgeMerkle
import GoldilocksVerif.Lemmas.BridgePermAvx

namespace GoldilocksVerif
open Gen.LinearHashGen Gen.Avx2Mat

/-- the translated AVX2 `hash` as a list function: four digest words of twelve input words -/
def nodeAvxList (l : List Model.Wd) : List Model.Wd :=
  Region.toList (Gen.PosAvx2.Pos_hash_full_result Region.zero (Region.ofList l)) 4

theorem nodeAvxList_length (l : List Model.Wd) : (nodeAvxList l).length = 4 := Region.length_toList _ _

/-- hypothesis `hH` of the Merkle bridge for `merkletree_avx`, discharged -/
theorem hash_avx_node : NodeHash Gen.PosAvx2.Pos_hash nodeAvxList := by
  intro out inp
  constructor
  · unfold nodeAvxList
    apply List.ext_getElem?
    intro j
    rw [Region.getElem?_toList, Region.getElem?_toList]
    by_cases hj : j < 4
    · rw [if_pos hj, if_pos hj]
      have e : (Gen.PosAvx2.Pos_hash out inp) j = (Gen.PosAvx2.Pos_hash_full_result Region.zero inp) j := by
        simp only [Gen.PosAvx2.Pos_hash, Region.copyN_apply, hj, if_true]
      rw [e, perm_avx2_local Region.zero inp _ (eq12_ofList_toList inp) j (by omega)]
    · rw [if_neg hj, if_neg hj]
  · intro k hk
    simp only [Gen.PosAvx2.Pos_hash, Region.copyN_apply, show ¬ k < 4 from by omega, if_false]

end GoldilocksVerif
