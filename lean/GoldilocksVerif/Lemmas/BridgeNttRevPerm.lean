/-
  The four loop bodies of the TRANSLATED `reversePermutation`, stated about the lifted functions by NAME
  and parameter list (used by Lemmas/ParGenNtt.lean for C12).  These statements depend on the parameter lists the translator
  gives the lifted bodies; the bridge theorem `reversePermutation_gen` (Lemmas/BridgeNttRevPermG.lean) does NOT use them: it
  characterises the bodies where the loops are called, so it survives a hoisted byte count or a swapped sum.
-/
import GoldilocksVerif.Lemmas.BridgeNttRevPermG

namespace GoldilocksVerif.BridgeNtt
open GoldilocksVerif Gen.NttGen

section bodies
variable (H : Heap) (d s : Nat) (oc nc nca : BitVec 64) (ds : BitVec 32) (k size : Nat)
variable (hk : k ≤ 32) (hds : ds.toNat = k) (hsz : size = 2 ^ k)
variable (hb1 : size * nca.toNat + oc.toNat < 2 ^ 64) (hb2 : size * nc.toNat < 2 ^ 64) (hb3 : nc.toNat * 8 < 2 ^ 64)

by_name_form include hk hds hsz hb1 hb2 hb3 in
/-- destination distinct, extension ≤ 1 -/
theorem rp_body1 (hne : d ≠ s) (i : Nat) (hi : i < size) (X : Heap) :
    NTT_reversePermutation_loop1 ⟨d, 0⟩ ⟨s, 0⟩ oc nc nca ds i X =
      some (X.setBlock d (Model.Ntt.copyRow (X.block d) (i * nc.toNat) (X.block s) (Model.Ntt.br i k * nca.toNat + oc.toNat) nc.toNat)) := by
  unfold NTT_reversePermutation_loop1
  simp only [Heap.copy_eq, Ptr.add_blk, Ptr.add_off, Nat.zero_add]
  rw [src_off oc nca ds k size hk hds hsz hb1 i hi, dst_off nc k size hk hsz hb2 i hi, words_toNat nc hb3, copyRow_eq]

by_name_form include hk hds hsz hb1 hb2 hb3 in
/-- destination distinct, extension > 1 (rows beyond size / extension read as zero) -/
theorem rp_body2 (ext_ : BitVec 64) (i : Nat) (hi : i < size) (X : Heap) :
    NTT_reversePermutation_loop2 ⟨d, 0⟩ ⟨s, 0⟩ oc nc nca ds ext_ i X =
      some (X.setBlock d (if Model.Ntt.br i k * nca.toNat + oc.toNat < ext_.toNat
        then Model.Ntt.copyRow (X.block d) (i * nc.toNat) (X.block s) (Model.Ntt.br i k * nca.toNat + oc.toNat) nc.toNat
        else Model.Ntt.zeroRow (X.block d) (i * nc.toNat) nc.toNat)) := by
  unfold NTT_reversePermutation_loop2
  simp only [Heap.copy_eq, Heap.zero_eq, Ptr.add_blk, Ptr.add_off, Nat.zero_add, BitVec.lt_def]
  rw [src_off oc nca ds k size hk hds hsz hb1 i hi, dst_off nc k size hk hsz hb2 i hi, words_toNat nc hb3, copyRow_eq,
    zeroRow_eq]
  by_cases hc : Model.Ntt.br i k * nca.toNat + oc.toNat < ext_.toNat
  · simp only [hc, decide_true, if_true]
  · simp only [hc, decide_false, if_false, Bool.false_eq_true]

by_name_form include hk hds hsz hb2 hb3 in
/-- in place, extension ≤ 1 -/
theorem rp_body3 (i : Nat) (hi : i < size) (X : Heap) (hd : d < X.size) :
    NTT_reversePermutation_loop3 ⟨d, 0⟩ ⟨d, 0⟩ nc ds i X = some (X.setBlock d (ipHand1 k nc.toNat i (X.block d))) := by
  have h64 : size < 2 ^ 64 := by
    rw [hsz]; exact Nat.pow_lt_pow_right (by omega) (by omega)
  obtain ⟨e, hlt⟩ := BR_i ds k size hk hds hsz i hi
  unfold NTT_reversePermutation_loop3 ipHand1
  simp only [Ptr.add, Nat.zero_add, lt_ofNat _ i (by omega), e,
    ip_off nc ds k size hk hds hsz hb2 i hi, dst_off nc k size hk hsz hb2 i hi, words_toNat nc hb3,
    Heap.alloc_fst, Heap.alloc_snd]
  by_cases hc : Model.Ntt.br i k < i
  · simp only [hc, decide_true, if_true]
    rw [Heap.tmp_copy_in X _ X.size d rfl hd, Heap.tmp_copy_self X _ d hd,
      Heap.tmp_copy_out _ _ X.size d (by simp) (by simpa using hd),
      Heap.free_push' _ _ X.size (by simp) (by simp; omega)]
    rw [Heap.setBlock_setBlock, Heap.block_setBlock_same _ _ _ hd]
    rfl
  · simp only [hc, decide_false, if_false, Bool.false_eq_true]
    rw [Heap.setBlock_block]

by_name_form include hk hds hsz hb2 hb3 in
/-- in place, extension > 1 -/
theorem rp_body4 (nIn : BitVec 64) (i : Nat) (hi : i < size) (X : Heap) (hd : d < X.size) :
    NTT_reversePermutation_loop4 ⟨d, 0⟩ ⟨d, 0⟩ nc ds nIn i X =
      some (X.setBlock d (ipHand2 k nc.toNat nIn.toNat i (X.block d))) := by
  have h64 : size < 2 ^ 64 := by
    rw [hsz]; exact Nat.pow_lt_pow_right (by omega) (by omega)
  obtain ⟨e, hlt⟩ := BR_i ds k size hk hds hsz i hi
  have hiN : (BitVec.ofNat 64 i).toNat = i := ofNat_toNat_lt i (by omega)
  have heq : (BR (BitVec.ofNat 64 i) (BitVec.setWidth 64 ds) == BitVec.ofNat 64 i) = decide (Model.Ntt.br i k = i) := by
    rw [Bool.eq_iff_iff]
    simp only [beq_iff_eq, decide_eq_true_eq]
    constructor
    · intro h; rw [← e, h, hiN]
    · intro h; apply BitVec.eq_of_toNat_eq; rw [e, hiN, h]
  unfold NTT_reversePermutation_loop4 ipHand2
  simp only [Ptr.add, Nat.zero_add, lt_ofNat _ i (by omega), BitVec.lt_def, BitVec.le_def, ge_iff_le, e, hiN, heq,
    ip_off nc ds k size hk hds hsz hb2 i hi, dst_off nc k size hk hsz hb2 i hi, words_toNat nc hb3,
    Heap.alloc_fst, Heap.alloc_snd]
  by_cases hc : Model.Ntt.br i k < i
  · simp only [hc, decide_true, if_true]
    -- the temporary row
    have hA : (if decide (Model.Ntt.br i k < nIn.toNat) = true
          then (X.push (Array.replicate nc.toNat 0#64)).copy ⟨X.size, 0⟩ ⟨d, Model.Ntt.br i k * nc.toNat⟩ nc.toNat
          else (X.push (Array.replicate nc.toNat 0#64)).zero ⟨X.size, 0⟩ nc.toNat) =
        X.push (if Model.Ntt.br i k < nIn.toNat
          then Model.Ntt.copyRow (Array.replicate nc.toNat 0#64) 0 (X.block d) (Model.Ntt.br i k * nc.toNat) nc.toNat
          else Array.replicate nc.toNat 0#64) := by
      by_cases h1 : Model.Ntt.br i k < nIn.toNat
      · simp only [h1, decide_true, if_true]
        rw [Heap.tmp_copy_in X _ X.size d rfl hd]; rfl
      · simp only [h1, decide_false, if_false, Bool.false_eq_true]
        rw [Heap.tmp_zero_in X _ X.size rfl, zeroRow_eq, zeroRow_replicate]
    rw [hA]
    generalize (if Model.Ntt.br i k < nIn.toNat
          then Model.Ntt.copyRow (Array.replicate nc.toNat 0#64) 0 (X.block d) (Model.Ntt.br i k * nc.toNat) nc.toNat
          else Array.replicate nc.toNat 0#64) = T
    have hB : (if decide (i < nIn.toNat) = true
          then (X.push T).copy ⟨d, Model.Ntt.br i k * nc.toNat⟩ ⟨d, i * nc.toNat⟩ nc.toNat
          else (X.push T).zero ⟨d, Model.Ntt.br i k * nc.toNat⟩ nc.toNat) =
        (X.setBlock d (if i < nIn.toNat
          then Model.Ntt.copyRow (X.block d) (Model.Ntt.br i k * nc.toNat) (X.block d) (i * nc.toNat) nc.toNat
          else Model.Ntt.zeroRow (X.block d) (Model.Ntt.br i k * nc.toNat) nc.toNat)).push T := by
      by_cases h1 : i < nIn.toNat
      · simp only [h1, decide_true, if_true]
        rw [Heap.tmp_copy_self X _ d hd]; rfl
      · simp only [h1, decide_false, if_false, Bool.false_eq_true]
        rw [Heap.tmp_zero_self X _ d hd]; rfl
    rw [hB]
    rw [Heap.tmp_copy_out _ _ X.size d (by simp) (by simpa using hd),
      Heap.free_push' _ _ X.size (by simp) (by simp; omega)]
    rw [Heap.setBlock_setBlock, Heap.block_setBlock_same _ _ _ hd]
    rfl
  · simp only [hc, decide_false, if_false, Bool.false_eq_true]
    by_cases h2 : Model.Ntt.br i k = i ∧ nIn.toNat ≤ i
    · have h2' : (decide (Model.Ntt.br i k = i) && decide (nIn.toNat ≤ i)) = true := by simp [h2.1, h2.2]
      simp only [h2', if_true, if_pos h2, Heap.zero_eq, zeroRow_eq]
    · have h2' : (decide (Model.Ntt.br i k = i) && decide (nIn.toNat ≤ i)) = false := by
        rw [Bool.and_eq_false_iff]
        by_cases h3 : Model.Ntt.br i k = i
        · right; simp; omega
        · left; simp [h3]
      simp only [h2', if_neg h2, Bool.false_eq_true, if_false]
      rw [Heap.setBlock_block]

end bodies

end GoldilocksVerif.BridgeNtt
