/-
  The field view: a 64-bit representation denotes an element of `ZMod P`.
  (Mathlib: Data.ZMod.Basic only.)  Transfers from the `Nat`-level lemmas to ring identities.
-/
import Mathlib.Data.ZMod.Basic
import Mathlib.Tactic.Ring
import GoldilocksVerif.Lemmas.ScalarNat

namespace GoldilocksVerif

abbrev F := ZMod P

/-- the field element a representation denotes -/
def den (x : BitVec 64) : F := (x.toNat : F)

theorem den_of_mod (x : BitVec 64) (n : Nat) (h : x.toNat % P = n % P) : den x = (n : F) := by
  unfold den
  exact (ZMod.natCast_eq_natCast_iff' _ _ _).mpr h

theorem den_eq_iff (x y : BitVec 64) : den x = den y ↔ x.toNat % P = y.toNat % P := by
  unfold den
  exact ZMod.natCast_eq_natCast_iff' _ _ _

theorem natCast_eq_of_mod (a b : Nat) (h : a % P = b % P) : (a : F) = (b : F) :=
  (ZMod.natCast_eq_natCast_iff' _ _ _).mpr h

theorem den_add_of (r a b : BitVec 64) (h : r.toNat % P = (a.toNat + b.toNat) % P) : den r = den a + den b := by
  rw [den_of_mod r _ h]; unfold den; push_cast; rfl

theorem den_mul_of (r a b : BitVec 64) (h : r.toNat % P = (a.toNat * b.toNat) % P) : den r = den a * den b := by
  rw [den_of_mod r _ h]; unfold den; push_cast; rfl

theorem den_sub_of (r a b : BitVec 64) (h : (r.toNat + b.toNat) % P = a.toNat % P) : den r = den a - den b := by
  have := natCast_eq_of_mod _ _ h
  push_cast at this
  unfold den
  rw [← this]; ring

theorem den_canon (x : BitVec 64) : ((x.toNat % P : Nat) : F) = den x := by
  unfold den
  exact natCast_eq_of_mod _ _ (Nat.mod_mod _ _)

/-- the scalar operations in the field view (C01 restated) -/
theorem den_add (a b : BitVec 64) : den (Gen.Scalar.add__eEE a b) = den a + den b := den_add_of _ _ _ (add_mod a b)
theorem den_add_r (a b : BitVec 64) : den (Gen.Scalar.add__rEE a b) = den a + den b := den_add a b
theorem den_sub (a b : BitVec 64) : den (Gen.Scalar.sub__eEE a b) = den a - den b := den_sub_of _ _ _ (sub_mod a b)
theorem den_sub_r (a b : BitVec 64) : den (Gen.Scalar.sub__rEE a b) = den a - den b := den_sub a b
theorem den_mul (a b : BitVec 64) : den (Gen.Scalar.mul__eEE a b) = den a * den b := den_mul_of _ _ _ (mul_mod a b)
theorem den_mul_r (a b : BitVec 64) : den (Gen.Scalar.mul__rEE a b) = den a * den b := den_mul a b

end GoldilocksVerif
