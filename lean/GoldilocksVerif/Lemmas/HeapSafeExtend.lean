/-
  IN-BOUNDS ACCESSES of the generated `extendPol` (`NTT_extendPol.Safe`, derived from the generated definition):
  the local object `ntt_extension(N_Extended, nThreads, N_Extended / N)` (constructor: Lemmas/HeapSafeCtorLoops.lean; its
  tables are the two new last blocks), the scratch `tmp` (malloc of N_Extended·ncols words, or the caller's buffer), the cache
  refresh (`delete[] r; delete[] r_;` release starts of live blocks of the object's own, `computeR(N)`:
  Lemmas/HeapSafeComputeR.lean) in all three cache states, `INTT(output, input, N, ncols, tmp, …, extend = true)` on the
  object (reads `r_[0 … N)`), `ntt_extension.NTT(output, output, N_Extended, ncols, tmp, …)` (in place: zero fill of the rows
  beyond N inside `reversePermutation`), `free(tmp)`, the destructor of the local object.
-/
import GoldilocksVerif.Lemmas.HeapSafeNttAll
import GoldilocksVerif.Lemmas.HeapSafeCtorLoops
import GoldilocksVerif.Lemmas.HeapSafeCtor
import GoldilocksVerif.Lemmas.HeapSafeDtor
open GoldilocksVerif Gen.NttGen GoldilocksVerif.BridgeNtt
namespace GoldilocksVerif.HeapSafe

/-- the cache of the object (`r`, `r_`, `r_N`) is absent (`r == NULL`) or consists of two distinct live blocks of the
    object's own — their starts are stored, they are not one of the blocks `K` (the caller's buffers, the object's
    tables, …) — and `r_` has (at least) `r_N` words -/
def CacheInv (H : Heap) (self : NTT_Goldilocks) (K : Nat → Prop) : Prop :=
  self.r ≠ Ptr.null → self.r.off = 0 ∧ 0 < H.ext self.r.blk ∧ self.r_.off = 0 ∧ 0 < H.ext self.r_.blk ∧
    self.r.blk ≠ self.r_.blk ∧ (∀ b, K b → self.r.blk ≠ b ∧ self.r_.blk ≠ b) ∧ self.r_N.toNat ≤ H.ext self.r_.blk

theorem CacheInv.mono {H H' : Heap} {self : NTT_Goldilocks} {K K' : Nat → Prop} (h : CacheInv H self K)
    (hK : ∀ b, K' b → K b) (he1 : H'.ext self.r.blk = H.ext self.r.blk) (he2 : H'.ext self.r_.blk = H.ext self.r_.blk) :
    CacheInv H' self K' := by
  intro hr
  obtain ⟨a, b, c, d, e, f, g⟩ := h hr
  exact ⟨a, by rw [he1]; exact b, c, by rw [he2]; exact d, e, fun x hx => f x (hK x hx), by rw [he2]; exact g⟩

theorem ptr_eq_null_of_not_bne {p : Ptr} (h : ¬ (p != Ptr.null) = true) : p = Ptr.null := by
  by_cases e : p = Ptr.null
  · exact e
  · exact absurd ((bne_true _ _).2 e) h

/-- **the cache refresh** `if (r == NULL || r_N != N) { if (r != NULL) { delete[] r; delete[] r_; } computeR(N); }`:
    every access and both releases are in bounds; afterwards the blocks `K` have the extents they had, the tables of the
    object are the same, and the cache is present, valid for `N` and again of the object's own -/
theorem ep_refresh (fuel : Nat) (hf : 64 ≤ fuel) (H2 : Heap) (self : NTT_Goldilocks) (N dn : Nat) (K : Nat → Prop)
    (hN : N = 2 ^ dn) (hdn : dn ≤ 30) (hsK : dn ≤ self.s.toNat)
    (hpti : self.powTwoInv.off + self.s.toNat + 1 ≤ H2.ext self.powTwoInv.blk) (hKp : K self.powTwoInv.blk)
    (hlive : ∀ b, K b → 0 < H2.ext b) (hc : CacheInv H2 self K) :
    ((self.r == Ptr.null || self.r_N != bv N) = true →
      ((self.r != Ptr.null) = true → H2.FreeOK self.r ∧ (H2.free self.r).FreeOK self.r_) ∧
        NTT_computeR.Safe fuel (if (self.r != Ptr.null) = true then (H2.free self.r).free self.r_ else H2) self
          (I32.ofU64 (bv N))) ∧
    ∀ (y : Heap × NTT_Goldilocks),
      (if (self.r == Ptr.null || self.r_N != bv N) = true then
            (NTT_computeR fuel (if (self.r != Ptr.null) = true then (H2.free self.r).free self.r_ else H2) self
                  (I32.ofU64 (bv N))).bind
              fun rt_3 => some (rt_3.1, rt_3.2)
          else some (H2, self)) = some y →
        (∀ b, K b → y.1.ext b = H2.ext b) ∧ y.2.s = self.s ∧ y.2.roots = self.roots ∧ y.2.powTwoInv = self.powTwoInv ∧
        y.2.extension = self.extension ∧ y.2.nThreads = self.nThreads ∧ CacheInv y.1 y.2 K ∧ y.2.r ≠ Ptr.null ∧
        y.2.r_N = bv N := by
  have hN0 : 0 < N := by rw [hN]; exact Nat.pow_pos (by omega)
  have hN30 : N ≤ 2 ^ 30 := by rw [hN]; exact Nat.pow_le_pow_right (by omega) hdn
  have hN31 : N < 2 ^ 31 := by omega
  have hlogN : Model.Ntt.log2 N = dn := by rw [hN]; exact Nat.log2_two_pow
  have hNt : (bv N).toNat = N := bv_toNat N (by omega)
  -- the heap after the (conditional) release of the old tables
  have hk' : ∀ b, K b → (if (self.r != Ptr.null) = true then (H2.free self.r).free self.r_ else H2).ext b = H2.ext b := by
    intro b hb
    by_cases hr : (self.r != Ptr.null) = true
    · rw [if_pos hr]
      obtain ⟨_, _, _, _, _, f, _⟩ := hc ((bne_true _ _).1 hr)
      obtain ⟨f1, f2⟩ := f b hb
      rw [ext_free_ne _ _ _ (fun x => f2 x.symm), ext_free_ne _ _ _ (fun x => f1 x.symm)]
    · rw [if_neg hr]
  rw [ofU64_bv N hN31]
  refine ⟨fun _ => ⟨fun hrn => ?_, ?_⟩, fun y hy => ?_⟩
  · obtain ⟨a, b, c, d, e, _, _⟩ := hc ((bne_true _ _).1 hrn)
    exact ⟨Or.inr ⟨a, b⟩, Or.inr ⟨c, by rw [ext_free_ne _ _ _ (fun x => e x.symm)]; exact d⟩⟩
  · exact computeR_safe fuel hf _ self N hN0 hN31 (by rw [hlogN]; exact hsK) (by rw [hk' _ hKp]; exact hpti)
  · by_cases hcond : (self.r == Ptr.null || self.r_N != bv N) = true
    · rw [if_pos hcond, Option.bind_eq_some_iff] at hy
      obtain ⟨y', hy', e⟩ := hy
      injection e with e
      have ey : y = y' := by rw [← e]
      subst ey
      obtain ⟨e2, hsame⟩ := computeR_shape fuel _ self (N : Int) y hy'
      rw [toU64_nat, hNt] at e2 hsame
      generalize (if (self.r != Ptr.null) = true then (H2.free self.r).free self.r_ else H2) = H2' at hk' e2 hsame hy'
      obtain ⟨x1, x2, x3, _⟩ := ext_alloc_two H2' N N
      have hlt : ∀ b, K b → b < H2'.size := fun b hb => Heap.lt_size_of_live H2' b (by rw [hk' b hb]; exact hlive b hb)
      have hsz : H2'.size ≠ 0 := by have := hlt _ hKp; omega
      have er : y.2.r = ⟨H2'.size, 0⟩ := by rw [e2]; rfl
      have er_ : y.2.r_ = ⟨H2'.size + 1, 0⟩ := by
        rw [e2]; show ((H2'.alloc N).1.alloc N).2 = _; rw [Heap.alloc_snd, Heap.size_alloc]
      refine ⟨fun b hb => ?_, by rw [e2], by rw [e2], by rw [e2], by rw [e2], by rw [e2], ?_, ?_, by rw [e2]⟩
      · rw [hsame.2, x3 b (hlt b hb), hk' b hb]
      · intro _
        rw [er, er_]
        refine ⟨rfl, ?_, rfl, ?_, ?_, fun b hb => ?_, ?_⟩
        · show 0 < y.1.ext H2'.size; rw [hsame.2, x1]; exact hN0
        · show 0 < y.1.ext (H2'.size + 1); rw [hsame.2, x2]; exact hN0
        · show H2'.size ≠ H2'.size + 1; omega
        · have := hlt b hb
          exact ⟨by show H2'.size ≠ b; omega, by show H2'.size + 1 ≠ b; omega⟩
        · show y.2.r_N.toNat ≤ y.1.ext (H2'.size + 1)
          rw [hsame.2, x2, e2]; show (bv N).toNat ≤ N; omega
      · rw [er]; exact ptr_ne_null_of_blk hsz
    · rw [if_neg hcond] at hy
      injection hy with hy
      rw [← hy]
      rw [Bool.or_eq_true, not_or] at hcond
      have hr : self.r ≠ Ptr.null := by
        intro e; exact hcond.1 (by rw [e]; rfl)
      have hrN : self.r_N = bv N := by
        by_cases e : self.r_N = bv N
        · exact e
        · exact absurd ((bne_true _ _).2 e) hcond.2
      exact ⟨fun _ _ => rfl, rfl, rfl, rfl, rfl, rfl, hc, hr, hrN⟩

theorem srcRows_le (obj : NTT_Goldilocks) (n : Nat) (hn : n < 2 ^ 64) : srcRows obj (bv n) ≤ n := by
  unfold srcRows
  by_cases h : obj.extension ≤ 1
  · rw [if_pos h, bv_toNat n hn]
  · rw [if_neg h, BitVec.toNat_udiv, bv_toNat n hn]; exact Nat.div_le_self _ _

/-- the documented shape of an `extendPol(output, input, N_Extended, N, ncols, buffer, nphase, nblock)` call on the object
    `obj`: `N = 2^dn ≤ N_Extended = 2^de ≤ 2^30`, `ncols ≥ 1`; `output` (not NULL) has N_Extended·ncols words, `input` N·ncols words
    (`output == input`, or another block); a caller buffer has N_Extended·ncols words and is another block than `output` and
    `input`; the object was built for a domain of at least N points (its tables have the extents the constructor gave them);
    its cache is absent or two live blocks of its own (not the caller's, not the tables), `r_` of `r_N` words -/
structure EPShape (hp : Heap) (obj : NTT_Goldilocks) (output input buffer : Ptr) (N NE NC dn de : Nat) : Prop where
  hdn : dn ≤ de
  hde : de ≤ 30
  hN : N = 2 ^ dn
  hNE : NE = 2 ^ de
  hNC : 0 < NC
  hbytes : NE * NC * 8 < 2 ^ 64
  hout0 : output ≠ Ptr.null
  hout : output.off + NE * NC ≤ hp.ext output.blk
  hin : input.off + N * NC ≤ hp.ext input.blk
  hio : output ≠ input → output.blk ≠ input.blk
  hbuf : buffer ≠ Ptr.null → buffer.off + NE * NC ≤ hp.ext buffer.blk ∧ buffer.blk ≠ output.blk ∧ buffer.blk ≠ input.blk
  hsK : dn ≤ obj.s.toNat
  hs32 : obj.s.toNat ≤ 32
  hroots : obj.roots.off + 2 ^ obj.s.toNat ≤ hp.ext obj.roots.blk
  hpti : obj.powTwoInv.off + obj.s.toNat + 1 ≤ hp.ext obj.powTwoInv.blk
  hcache : CacheInv hp obj (fun b => b = output.blk ∨ b = input.blk ∨ (buffer ≠ Ptr.null ∧ b = buffer.blk) ∨
    b = obj.roots.blk ∨ b = obj.powTwoInv.blk)

/-- the blocks `extendPol` does not release before its last two statements: every block that is live when it is called,
    except the blocks of a cache that is present; the scratch buffer; the two tables of the local object (the two new
    blocks after the last block of the heap `extendPol` was called with) -/
def EPK (hp : Heap) (self : NTT_Goldilocks) (tmp : Ptr) (b : Nat) : Prop :=
  (0 < hp.ext b ∧ ¬ (self.r ≠ Ptr.null ∧ (b = self.r.blk ∨ b = self.r_.blk))) ∨ b = tmp.blk ∨ b = hp.size ∨ b = hp.size + 1

/-- what is known when the second transform of `extendPol` has returned (heap `y4`): the local object `ext`, the scratch
    pointer `tmp`, the object state `y.2` after the cache refresh -/
structure EPFacts (hp : Heap) (self : NTT_Goldilocks) (buffer : Ptr) (N : Nat) (ext : NTT_Goldilocks) (tmp : Ptr)
    (y : Heap × NTT_Goldilocks) (y4 : Heap) : Prop where
  eroots : ext.roots = ⟨hp.size, 0⟩
  epti : ext.powTwoInv = ⟨hp.size + 1, 0⟩
  es0 : ext.s ≠ 0#32
  er : ext.r = Ptr.null
  er_ : ext.r_ = Ptr.null
  toff : (buffer == Ptr.null) = true → tmp.off = 0 ∧ hp.size ≤ tmp.blk
  tne : tmp.blk ≠ hp.size ∧ tmp.blk ≠ hp.size + 1
  live : ∀ b, EPK hp self tmp b → 0 < y4.ext b
  keep : ∀ b, b < hp.size → EPK hp self tmp b → y4.ext b = hp.ext b
  obj : y.2.s = self.s ∧ y.2.roots = self.roots ∧ y.2.powTwoInv = self.powTwoInv ∧ y.2.extension = self.extension ∧
    y.2.nThreads = self.nThreads
  cache : CacheInv y4 y.2 (EPK hp self tmp)
  rnn : y.2.r ≠ Ptr.null
  rN : y.2.r_N = bv N

/-- `extendPol` up to the return of its second transform: every access is in bounds, and `EPFacts` holds there
    (continuation form: `Q` is what remains to be shown about the rest — `free(tmp)` and the destructor of the local
    object for `extendPol_safe`, the state after the call for `extendPol_post`) -/
theorem extendPol_chain (fuel : Nat) (hf : 64 ≤ fuel) (hp : Heap) (self : NTT_Goldilocks) (output input buffer : Ptr)
    (N NE NC dn de : Nat) (nphase nblock : BitVec 64) (sh : EPShape hp self output input buffer N NE NC dn de)
    (Q : NTT_Goldilocks → Ptr → Heap × NTT_Goldilocks → Heap → Prop)
    (hQ : ∀ ext tmp y y4, EPFacts hp self buffer N ext tmp y y4 → Q ext tmp y y4)
    (y1 : Heap × NTT_Goldilocks)
    (hy1 : NTT_ctor fuel hp NTT_Goldilocks.init (bv NE) self.nThreads (I32.ofU64 (bv NE / bv N)) = some y1)
    (t : Ptr × Heap)
    (ht : (if (buffer == Ptr.null) = true then
        ((y1.1.alloc ((bv NE * bv NC * 8#64).toNat / 8)).2, (y1.1.alloc ((bv NE * bv NC * 8#64).toNat / 8)).1)
      else (buffer, y1.1)) = t) :
    ((self.r == Ptr.null || self.r_N != bv N) = true →
      ((self.r != Ptr.null) = true → t.2.FreeOK self.r ∧ (t.2.free self.r).FreeOK self.r_) ∧
        NTT_computeR.Safe fuel (if (self.r != Ptr.null) = true then (t.2.free self.r).free self.r_ else t.2) self
          (I32.ofU64 (bv N))) ∧
    ∀ (y : Heap × NTT_Goldilocks),
      (if (self.r == Ptr.null || self.r_N != bv N) = true then
            (NTT_computeR fuel (if (self.r != Ptr.null) = true then (t.2.free self.r).free self.r_ else t.2) self
                  (I32.ofU64 (bv N))).bind
              fun rt_3 => some (rt_3.1, rt_3.2)
          else some (t.2, self)) = some y →
        NTT_INTT.Safe fuel y.1 y.2 output input (bv N) (bv NC) t.1 nphase nblock true ∧
          ∀ (y3 : Heap), NTT_INTT fuel y.1 y.2 output input (bv N) (bv NC) t.1 nphase nblock true = some y3 →
            NTT_NTT.Safe fuel y3 y1.2 output output (bv NE) (bv NC) t.1 nphase nblock false false ∧
              ∀ (y4 : Heap), NTT_NTT fuel y3 y1.2 output output (bv NE) (bv NC) t.1 nphase nblock false false = some y4 →
                Q y1.2 t.1 y y4 := by
  obtain ⟨hdn, hde, hN, hNE, hNC, hbytes, hout0, hout, hin, hio, hbuf, hsK, hs32, hroots, hpti, hcache⟩ := sh
  have hN0 : 0 < N := by rw [hN]; exact Nat.pow_pos (by omega)
  have hNE0 : 0 < NE := by rw [hNE]; exact Nat.pow_pos (by omega)
  have hNNE : N ≤ NE := by rw [hN, hNE]; exact Nat.pow_le_pow_right (by omega) hdn
  have hNE30 : NE ≤ 2 ^ 30 := by rw [hNE]; exact Nat.pow_le_pow_right (by omega) hde
  have hNNC : N * NC ≤ NE * NC := Nat.mul_le_mul_right _ hNNE
  have hNNC0 : 0 < N * NC := Nat.mul_pos hN0 hNC
  have hNENC0 : 0 < NE * NC := Nat.mul_pos hNE0 hNC
  have hNEt : (bv NE).toNat = NE := bv_toNat NE (by omega)
  have hNEne : bv NE ≠ 0#64 := by
    intro e; have := congrArg BitVec.toNat e; rw [hNEt] at this; simp at this; omega
  have hlogE : Model.Ntt.log2 (bv NE).toNat = de := by rw [hNEt, hNE]; exact Nat.log2_two_pow
  have holive : output.blk < hp.size := Heap.lt_size_of_live hp _ (by omega)
  have hilive : input.blk < hp.size := Heap.lt_size_of_live hp _ (by omega)
  have hrlive : self.roots.blk < hp.size := Heap.lt_size_of_live hp _ (by
    have : 0 < 2 ^ self.s.toNat := Nat.pow_pos (by omega)
    omega)
  have hplive : self.powTwoInv.blk < hp.size := Heap.lt_size_of_live hp _ (by omega)
  have hpos : 0 < hp.size := by omega
  have hE : 2 ^ de / 2 ^ dn = 2 ^ (de - dn) := by
    have : 2 ^ de = 2 ^ dn * 2 ^ (de - dn) := by rw [← Nat.pow_add]; congr 1; omega
    rw [this, Nat.mul_div_cancel_left _ (Nat.pow_pos (by omega))]
  have hE31 : 2 ^ (de - dn) < 2 ^ 31 := Nat.pow_lt_pow_right (by omega) (by omega)
  have hdivE : I32.ofU64 (bv NE / bv N) = ((2 ^ (de - dn) : Nat) : Int) := by
    rw [bv_div _ _ (by omega) (by omega), hNE, hN, hE, ofU64_bv _ hE31]
  have hwords : (bv NE * bv NC * 8#64).toNat / 8 = NE * NC := by rw [bv_mul]; exact words_bv _ hbytes
  obtain ⟨H1, ext⟩ := y1
  have hpost := ctor_shape fuel hp NTT_Goldilocks.init (bv NE) self.nThreads _ (H1, ext) hy1
  rw [hdivE] at hy1
  obtain ⟨t1, t2, t3, t4, t5, t6, t7, t8, _⟩ := ctor_tables fuel hf hp H1 hpos _ ext (bv NE) self.nThreads _ hNEne hy1
  rw [hlogE] at t1
  obtain ⟨es0, er, er_⟩ : ext.s ≠ 0#32 ∧ ext.r = Ptr.null ∧ ext.r_ = Ptr.null := by
    rcases hpost with ⟨e0, _⟩ | ⟨_, hinv, _⟩
    · exact absurd e0 hNEne
    · exact hinv
  simp only [hwords] at ht
  -- the scratch buffer: the caller's, or the new last block
  have hT : (∀ b, b < H1.size → t.2.ext b = H1.ext b) ∧ t.1.off + NE * NC ≤ t.2.ext t.1.blk ∧
      ((buffer == Ptr.null) = true → t.1.off = 0) ∧
      (t.1.blk = H1.size ∨ (buffer ≠ Ptr.null ∧ t.1 = buffer ∧ buffer.blk < hp.size)) := by
    by_cases hb : (buffer == Ptr.null) = true
    · rw [if_pos hb] at ht
      subst ht
      exact ⟨fun b hb' => ext_alloc_lt _ _ _ hb', by rw [ext_alloc_new]; exact Nat.le_of_eq (Nat.zero_add _), fun _ => rfl,
        Or.inl rfl⟩
    · rw [if_neg hb] at ht
      subst ht
      have hbn : buffer ≠ Ptr.null := by simpa using hb
      obtain ⟨b1, _, _⟩ := hbuf hbn
      have hbl : buffer.blk < hp.size := Heap.lt_size_of_live hp _ (by omega)
      exact ⟨fun _ _ => rfl, by show buffer.off + NE * NC ≤ H1.ext buffer.blk; rw [t8 _ hbl]; exact b1,
        fun h => absurd h hb, Or.inr ⟨hbn, rfl, hbl⟩⟩
  obtain ⟨T1, T2, T4, T3⟩ := hT
  generalize t.1 = tmp at *
  generalize t.2 = H2 at *
  -- every old live block keeps its extent up to H2
  have hold : ∀ b, b < hp.size → H2.ext b = hp.ext b := fun b hb => by rw [T1 b (by omega), t8 b hb]
  have htO : tmp.blk ≠ output.blk := by
    rcases T3 with e | ⟨hbn, e, _⟩
    · omega
    · rw [e]; exact (hbuf hbn).2.1
  have htI : tmp.blk ≠ input.blk := by
    rcases T3 with e | ⟨hbn, e, _⟩
    · omega
    · rw [e]; exact (hbuf hbn).2.2
  have htA : tmp.blk ≠ hp.size ∧ tmp.blk ≠ hp.size + 1 := by
    rcases T3 with e | ⟨_, e, hl⟩
    · omega
    · rw [e]; omega
  have hxr : H2.ext hp.size = 2 ^ ext.s.toNat := by rw [T1 _ (by omega), t5]
  have hxp : H2.ext (hp.size + 1) = ext.s.toNat + 1 := by rw [T1 _ (by omega), t6]
  have hTfresh : (buffer == Ptr.null) = true → hp.size ≤ tmp.blk := by
    intro hb
    rcases T3 with e | ⟨hbn, _, _⟩
    · omega
    · exact absurd (by simpa using hb) hbn
  -- the blocks that must survive the releases of the cache refresh
  have hKold : ∀ b, (b = output.blk ∨ b = input.blk ∨ (buffer ≠ Ptr.null ∧ b = buffer.blk) ∨ b = self.roots.blk ∨
      b = self.powTwoInv.blk) → 0 < hp.ext b → EPK hp self tmp b := by
    intro b hb hl
    refine Or.inl ⟨hl, fun hx => ?_⟩
    obtain ⟨_, _, _, _, _, f, _⟩ := hcache hx.1
    obtain ⟨f1, f2⟩ := f b hb
    rcases hx.2 with e | e
    · exact f1 e.symm
    · exact f2 e.symm
  have hKo : EPK hp self tmp output.blk := hKold _ (Or.inl rfl) (by omega)
  have hKi : EPK hp self tmp input.blk := hKold _ (Or.inr (Or.inl rfl)) (by omega)
  have hKt : EPK hp self tmp tmp.blk := Or.inr (Or.inl rfl)
  have hKr : EPK hp self tmp self.roots.blk := hKold _ (Or.inr (Or.inr (Or.inr (Or.inl rfl)))) (by
    have : 0 < 2 ^ self.s.toNat := Nat.pow_pos (by omega)
    omega)
  have hKp : EPK hp self tmp self.powTwoInv.blk := hKold _ (Or.inr (Or.inr (Or.inr (Or.inr rfl)))) (by omega)
  have hKa : EPK hp self tmp hp.size := Or.inr (Or.inr (Or.inl rfl))
  have hKb : EPK hp self tmp (hp.size + 1) := Or.inr (Or.inr (Or.inr rfl))
  have hlive : ∀ b, EPK hp self tmp b → 0 < H2.ext b := by
    intro b hb
    rcases hb with e | e | e | e
    · rw [hold _ (Heap.lt_size_of_live hp b e.1)]; exact e.1
    · rw [e]; omega
    · rw [e, hxr]; exact Nat.pow_pos (by omega)
    · rw [e, hxp]; omega
  have hcI : CacheInv H2 self (EPK hp self tmp) := by
    intro hr
    obtain ⟨a, b, c, d, e, f, g⟩ := hcache hr
    have l1 : self.r.blk < hp.size := Heap.lt_size_of_live hp _ b
    have l2 : self.r_.blk < hp.size := Heap.lt_size_of_live hp _ d
    refine ⟨a, by rw [hold _ l1]; exact b, c, by rw [hold _ l2]; exact d, e, fun x hx => ?_, by rw [hold _ l2]; exact g⟩
    rcases hx with e | e | e | e
    · exact ⟨fun x => e.2 ⟨hr, Or.inl x.symm⟩, fun x => e.2 ⟨hr, Or.inr x.symm⟩⟩
    · rcases T3 with e' | ⟨hbn, e', _⟩
      · rw [e, e']; omega
      · exact f x (Or.inr (Or.inr (Or.inl ⟨hbn, by rw [e, e']⟩)))
    · rw [e]; omega
    · rw [e]; omega
  obtain ⟨hsafeR, hpostR⟩ := ep_refresh fuel hf H2 self N dn (EPK hp self tmp) hN (by omega) hsK (by rw [hold _ hplive]; exact hpti) hKp hlive hcI
  refine ⟨hsafeR, fun y hy => ?_⟩
  obtain ⟨k1, k2, k3, k4, k5, k6, k7, k8, k9⟩ := hpostR y hy
  obtain ⟨c1, _, c3, _, _, _, c7⟩ := k7 k8
  have hD0 : (if (output == Ptr.null) = true then input else output) = output := if_neg (by simpa using hout0)
  have hypos : 0 < y.1.size := by
    have := Heap.lt_size_of_live y.1 output.blk (by rw [k1 _ hKo]; exact hlive _ hKo)
    omega
  have hyO : y.1.ext output.blk = hp.ext output.blk := by rw [k1 _ hKo, hold _ holive]
  have hyI : y.1.ext input.blk = hp.ext input.blk := by rw [k1 _ hKi, hold _ hilive]
  have hyT : y.1.ext tmp.blk = H2.ext tmp.blk := k1 _ hKt
  refine ⟨INTT_safe_all fuel hf y.1 y.2 output input tmp N NC dn nphase nblock true
    ⟨by omega, hN, hNC, by omega, hypos, by rw [hD0, hyO]; omega, ?_, ?_, by rw [hD0]; exact hio, fun _ => ?_, by rw [k2]; exact hsK,
      by rw [k2]; exact hs32, ?_, ?_, fun _ => ?_⟩, fun y3 hy3 => ?_⟩
  · have := Nat.mul_le_mul_right NC (srcRows_le y.2 N (by omega))
    rw [hyI]; omega
  · exact Heap.lt_size_of_live y.1 _ (by rw [hyI]; omega)
  · rw [hD0]; exact ⟨by rw [hyT]; omega, htO, htI⟩
  · rw [k2, k3, k1 _ hKr, hold _ hrlive]; exact hroots
  · rw [k2, k4, k1 _ hKp, hold _ hplive]; exact hpti
  · rw [k9, bv_toNat N (by omega)] at c7
    omega
  have hs3 : Heap.Same y.1 y3 :=
    INTT_same fuel y.1 y.2 output input (bv N) (bv NC) tmp nphase nblock true hypos y3 hy3
  have hD1 : (if (output == Ptr.null) = true then output else output) = output := ite_self _
  refine ⟨NTT_safe_all fuel hf y3 ext output output tmp NE NC de nphase nblock false false
    ⟨hde, hNE, hNC, hbytes, hs3.size_pos hypos, by rw [hD1, hs3.2, hyO]; exact hout, ?_, ?_, fun h => absurd hD1 h, fun _ => ?_, t1, t2,
      ?_, ?_, fun h => by cases h⟩, fun y4 hy4 => ?_⟩
  · have := Nat.mul_le_mul_right NC (srcRows_le ext NE (by omega))
    rw [hs3.2, hyO]; omega
  · exact Heap.lt_size_of_live y3 _ (by rw [hs3.2, hyO]; omega)
  · rw [hD1]; exact ⟨by rw [hs3.2, hyT]; exact T2, htO, htO⟩
  · rw [t3]; show 0 + 2 ^ ext.s.toNat ≤ y3.ext hp.size
    rw [hs3.2, k1 _ hKa, hxr]; omega
  · rw [t4]; show 0 + ext.s.toNat + 1 ≤ y3.ext (hp.size + 1)
    rw [hs3.2, k1 _ hKb, hxp]; omega
  have hs4 : Heap.Same y3 y4 :=
    NTT_same fuel y3 ext output output (bv NE) (bv NC) tmp nphase nblock false false (hs3.size_pos hypos) y4 hy4
  have h4 : ∀ b, EPK hp self tmp b → y4.ext b = H2.ext b := fun b hb => by rw [hs4.2, hs3.2, k1 b hb]
  exact hQ ext tmp y y4 ⟨t3, t4, es0, er, er_, fun hb => ⟨T4 hb, hTfresh hb⟩, htA, fun b hb => by rw [h4 b hb]; exact hlive b hb,
    fun b hb hk => by rw [h4 b hk, hold b hb], ⟨k2, k3, k4, k5, k6⟩,
    k7.mono (fun _ h => h) (by rw [hs4.2, hs3.2]) (by rw [hs4.2, hs3.2]), k8, k9⟩

/-- `computeR` overwrites `r`, `r_` before it uses them: the in-bounds condition does not depend on their values at the call
    (the source may or may not reset them to NULL after `delete[]`) -/
theorem computeR_Safe_irrel (fuel : Nat) (X : Heap) (self : NTT_Goldilocks) (a b : Ptr) (N : Int) :
    NTT_computeR.Safe fuel X { self with r := a, r_ := b } N = NTT_computeR.Safe fuel X self N := by
  unfold NTT_computeR.Safe
  rfl

/-- evaluates the cache refresh of `extendPol` — its text in the goal (HOWEVER the source writes it) and the canonical text of
    `extendPol_chain` in `h` — in the four cases `r == NULL` × `r_N == N`, where the two coincide, and closes the goal with `h` -/
macro "refresh_cases " h:ident " : " self:term ", " n:term : tactic => `(tactic| (
  cases hr0 : (($self).r == Ptr.null) <;> cases hn0 : (($self).r_N == $n) <;>
    simp only [hr0, hn0, bne, Bool.not_true, Bool.not_false, Bool.true_or, Bool.false_or, Bool.or_true, Bool.or_false,
      Bool.true_and, Bool.false_and, Bool.and_true, Bool.and_false, if_true, if_false, Bool.false_eq_true, true_implies,
      false_implies, true_and, and_true, and_assoc, beq_self_eq_true, computeR_irrel, computeR_Safe_irrel] at $h:ident ⊢ <;>
    exact $h))

/-- **in-bounds accesses of `extendPol`** — every `nblock`, with or without caller buffer, in place or not, every state
    of the cache, sizes 1 ≤ N ≤ N_Extended ≤ 2^30 -/
theorem extendPol_safe (fuel : Nat) (hf : 64 ≤ fuel) (hp : Heap) (self : NTT_Goldilocks) (output input buffer : Ptr)
    (N NE NC dn de : Nat) (nphase nblock : BitVec 64) (sh : EPShape hp self output input buffer N NE NC dn de) :
    NTT_extendPol.Safe fuel hp self output input (bv NE) (bv N) (bv NC) buffer nphase nblock := by
  unfold NTT_extendPol.Safe
  zeta_goal
  refine ⟨ctor_safe _ _ _ _ _ _, fun y1 hy1 => ?_⟩
  have hch := extendPol_chain fuel hf hp self output input buffer N NE NC dn de nphase nblock sh
    (fun ext tmp _ y4 => ((buffer == Ptr.null) = true → y4.FreeOK tmp) ∧
      NTT_dtor.Safe (if (buffer == Ptr.null) = true then y4.free tmp else y4) ext) ?hQ y1 hy1 _ rfl
  case hQ =>
    intro ext tmp y y4 F
    obtain ⟨t3, t4, es0, er, er_, toff, htA, hlive, _, _, _, _, _⟩ := F
    refine ⟨fun hb => Or.inr ⟨(toff hb).1, hlive _ (Or.inr (Or.inl rfl))⟩, ?_⟩
    have h5 : ∀ b, b ≠ tmp.blk → (if (buffer == Ptr.null) = true then y4.free tmp else y4).ext b = y4.ext b := by
      intro b hb
      by_cases hbn : (buffer == Ptr.null) = true
      · rw [if_pos hbn, ext_free_ne _ _ _ hb]
      · rw [if_neg hbn]
    refine dtor_safe _ ext ⟨fun _ => ?_, fun h => absurd er h, fun h => absurd er_ h⟩
    rw [t3, t4]
    refine ⟨rfl, ?_, rfl, ?_, by show hp.size ≠ hp.size + 1; omega⟩
    · show 0 < Heap.ext _ hp.size
      rw [h5 _ (fun x => htA.1 x.symm)]; exact hlive _ (Or.inr (Or.inr (Or.inl rfl)))
    · show 0 < Heap.ext _ (hp.size + 1)
      rw [h5 _ (fun x => htA.2 x.symm)]; exact hlive _ (Or.inr (Or.inr (Or.inr rfl)))
  -- the cache refresh, HOWEVER the source writes it: in the four cases `r == NULL` × `r_N == N` its in-bounds condition and its
  -- value are those of the canonical text `extendPol_chain` is stated for
  refresh_cases hch : self, bv N

/-! ### the state after `extendPol` -/

theorem OInv.bind_eq {σ τ : Type} {P : τ → Prop} (x : Option σ) (f : σ → Option τ)
    (hf : ∀ y, x = some y → OInv P (f y)) : OInv P (x.bind f) :=
  OInv.bind (fun y => x = some y) x f (fun _ hs => hs) hf

/-- the destructor of an object without cache releases its two tables -/
theorem dtor_tables_only (H : Heap) (ext : NTT_Goldilocks) (es0 : ext.s ≠ 0#32) (er : ext.r = Ptr.null) (er_ : ext.r_ = Ptr.null) :
    NTT_dtor H ext = (H.free ext.roots).free ext.powTwoInv := by
  unfold NTT_dtor
  rw [er, er_, if_pos ((bne_true _ _).2 es0)]
  rfl

/-- the blocks that are live when `extendPol` is called and are not blocks of a cache that is present -/
def EPOld (hp : Heap) (self : NTT_Goldilocks) (b : Nat) : Prop :=
  0 < hp.ext b ∧ ¬ (self.r ≠ Ptr.null ∧ (b = self.r.blk ∨ b = self.r_.blk))

/-- **the state `extendPol` leaves**: every block that was live and is not a block of the old cache has the extent it had
    (the local object's tables and the scratch buffer are gone); the object has the same tables; its cache is present,
    valid for `N`, and consists of two live blocks that are none of those blocks -/
theorem extendPol_post (fuel : Nat) (hf : 64 ≤ fuel) (hp : Heap) (self : NTT_Goldilocks) (output input buffer : Ptr)
    (N NE NC dn de : Nat) (nphase nblock : BitVec 64) (sh : EPShape hp self output input buffer N NE NC dn de)
    (r : Heap × NTT_Goldilocks)
    (h : NTT_extendPol fuel hp self output input (bv NE) (bv N) (bv NC) buffer nphase nblock = some r) :
    (∀ b, EPOld hp self b → r.1.ext b = hp.ext b) ∧
    (r.2.s = self.s ∧ r.2.roots = self.roots ∧ r.2.powTwoInv = self.powTwoInv ∧ r.2.extension = self.extension ∧
      r.2.nThreads = self.nThreads) ∧
    CacheInv r.1 r.2 (EPOld hp self) ∧ r.2.r ≠ Ptr.null ∧ r.2.r_N = bv N := by
  revert r
  show OInv _ _
  unfold NTT_extendPol
  heap_steps
  refine OInv.bind_eq _ _ (fun y1 hy1 => ?_)
  heap_steps
  generalize hd : (if (buffer == Ptr.null) = true then
      have al_2 := y1.1.alloc ((bv NE * bv NC * 8#64).toNat / 8); have hp := al_2.1; have tmp := al_2.2; (tmp, hp)
    else have tmp := buffer; (tmp, y1.1)) = d
  have ht : (if (buffer == Ptr.null) = true then
        ((y1.1.alloc ((bv NE * bv NC * 8#64).toNat / 8)).2, (y1.1.alloc ((bv NE * bv NC * 8#64).toNat / 8)).1)
      else (buffer, y1.1)) = d := hd
  have hch := extendPol_chain fuel hf hp self output input buffer N NE NC dn de nphase nblock sh
    (fun ext tmp y y4 =>
      (∀ b, EPOld hp self b → (NTT_dtor (if (buffer == Ptr.null) = true then y4.free tmp else y4) ext).ext b = hp.ext b) ∧
      (y.2.s = self.s ∧ y.2.roots = self.roots ∧ y.2.powTwoInv = self.powTwoInv ∧ y.2.extension = self.extension ∧
        y.2.nThreads = self.nThreads) ∧
      CacheInv (NTT_dtor (if (buffer == Ptr.null) = true then y4.free tmp else y4) ext) y.2 (EPOld hp self) ∧
      y.2.r ≠ Ptr.null ∧ y.2.r_N = bv N) ?hQ y1 hy1 d ht
  case hQ =>
    intro ext tmp y y4 F
    obtain ⟨t3, t4, es0, er, er_, toff, htA, hlive, hkeep, hobj, hcache, rnn, rN⟩ := F
    rw [dtor_tables_only _ ext es0 er er_, t3, t4]
    -- the extents the two last statements do not touch
    have hfin : ∀ b, b ≠ hp.size → b ≠ hp.size + 1 → ((buffer == Ptr.null) = true → b ≠ tmp.blk) →
        (((if (buffer == Ptr.null) = true then y4.free tmp else y4).free ⟨hp.size, 0⟩).free ⟨hp.size + 1, 0⟩).ext b = y4.ext b := by
      intro b h1 h2 h3
      rw [ext_free_ne _ _ _ h2, ext_free_ne _ _ _ h1]
      by_cases hbn : (buffer == Ptr.null) = true
      · rw [if_pos hbn, ext_free_ne _ _ _ (h3 hbn)]
      · rw [if_neg hbn]
    have hold : ∀ b, EPOld hp self b → b ≠ hp.size ∧ b ≠ hp.size + 1 ∧ ((buffer == Ptr.null) = true → b ≠ tmp.blk) := by
      intro b hb
      have hl := Heap.lt_size_of_live hp b hb.1
      exact ⟨by omega, by omega, fun hbn => by have := (toff hbn).2; omega⟩
    refine ⟨fun b hb => ?_, hobj, ?_, rnn, rN⟩
    · obtain ⟨o1, o2, o3⟩ := hold b hb
      rw [hfin b o1 o2 o3]
      exact hkeep b (Heap.lt_size_of_live hp b hb.1) (Or.inl hb)
    · obtain ⟨_, _, _, _, _, f, _⟩ := hcache rnn
      have n1 := f tmp.blk (Or.inr (Or.inl rfl))
      have n2 := f hp.size (Or.inr (Or.inr (Or.inl rfl)))
      have n3 := f (hp.size + 1) (Or.inr (Or.inr (Or.inr rfl)))
      exact hcache.mono (fun b hb => Or.inl hb) (hfin _ n2.1 n3.1 (fun _ => n1.1)) (hfin _ n2.2 n3.2 (fun _ => n1.2))
  refine OInv.bind_eq _ _ (fun y hy => ?_)
  -- the value of the cache refresh, HOWEVER the source writes it, is the value of the canonical text of `extendPol_chain`
  have hy' : (if (self.r == Ptr.null || self.r_N != bv N) = true then
        (NTT_computeR fuel (if (self.r != Ptr.null) = true then (d.2.free self.r).free self.r_ else d.2) self
          (I32.ofU64 (bv N))).bind fun rt_3 => some (rt_3.1, rt_3.2)
      else some (d.2, self)) = some y := by
    refresh_cases hy : self, bv N
  heap_steps
  refine OInv.bind_eq _ _ (fun y3 hy3 => ?_)
  heap_steps
  refine OInv.bind_eq _ _ (fun y4 hy4 => ?_)
  exact OInv.some _ _ (((hch.2 y hy').2 y3 hy3).2 y4 hy4)

end GoldilocksVerif.HeapSafe
