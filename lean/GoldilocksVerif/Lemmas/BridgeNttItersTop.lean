/-
  Bridge theorem, NTT_iters part 4: the whole TRANSLATED `NTT_Goldilocks::NTT_iters` (Gen/NttGen.lean) — destination
  selection, `log2`, the power-of-two assert, the clamp of `nphase`, the parity choice of the first buffer,
  `reversePermutation`, the pass loop with its pointer swaps, the final "should never need this copy" test — against the
  hand model's `nttIters` (Model/Ntt.lean), for sizes 2 ≤ 2^K ≤ 2^30.
-/
import GoldilocksVerif.Lemmas.BridgeNttItersG
import GoldilocksVerif.Lemmas.BridgeNttComm
import GoldilocksVerif.Lemmas.BridgeNttSizes

namespace GoldilocksVerif.BridgeNtt
open GoldilocksVerif Gen.NttGen

theorem one_shl (K : Nat) (hK : K < 64) : (1#64 : BitVec 64) <<< K = bv (2 ^ K) := by
  apply BitVec.eq_of_toNat_eq
  have h2 : 2 ^ K < 2 ^ 64 := Nat.pow_lt_pow_right (by omega) hK
  rw [BitVec.toNat_shiftLeft, bv_toNat _ h2, Nat.shiftLeft_eq]
  have : (1#64 : BitVec 64).toNat = 1 := rfl
  rw [this, Nat.one_mul, Nat.mod_eq_of_lt h2]

theorem setWidth_ofNat32 (K : Nat) (hK : K < 2 ^ 32) : BitVec.setWidth 64 (BitVec.ofNat 32 K) = bv K := by
  apply BitVec.eq_of_toNat_eq
  rw [BitVec.toNat_setWidth, BitVec.toNat_ofNat, Nat.mod_eq_of_lt (a := K) (by omega), bv_toNat _ (by omega),
    Nat.mod_eq_of_lt (by omega)]

/-- the clamp of `nphase` -/
theorem clamp_gen (nphase : BitVec 64) (K : Nat) (hK : K < 2 ^ 63) :
    (if (decide (nphase < 1#64) || bv K == 0#64) = true then 1#64
      else if decide (nphase > bv K) = true then bv K else nphase) = bv (Model.Ntt.clampPhase nphase.toNat K) := by
  have h0 : (bv K == 0#64) = decide (K = 0) := by
    show (bv K == bv 0) = _
    rw [beq_bv _ _ (by omega) (by omega)]
  have h1 : decide (nphase < 1#64) = decide (nphase.toNat < 1) := by
    rw [decide_eq_decide, BitVec.lt_def]; rfl
  have h2 : decide (nphase > bv K) = decide (nphase.toNat > K) := by
    rw [decide_eq_decide]; show bv K < nphase ↔ _; rw [BitVec.lt_def, bv_toNat _ (by omega)]
  rw [h0, h1, h2]
  unfold Model.Ntt.clampPhase
  by_cases c1 : nphase.toNat < 1 ∨ K = 0
  · rw [if_pos c1]
    have : (decide (nphase.toNat < 1) || decide (K = 0)) = true := by
      rcases c1 with c | c <;> simp [c]
    rw [if_pos this]
  · rw [if_neg c1]
    have : (decide (nphase.toNat < 1) || decide (K = 0)) = false := by
      rw [Bool.or_eq_false_iff]; constructor <;> simp <;> omega
    rw [this]
    simp only [Bool.false_eq_true, if_false]
    by_cases c2 : nphase.toNat > K
    · simp only [c2, decide_true, if_true]
    · simp only [c2, decide_false, if_false, Bool.false_eq_true]
      exact bv_self nphase

theorem ptr_ne' (d s : Nat) : ((⟨d, 0⟩ : Ptr) != ⟨s, 0⟩) = !decide (d = s) := ptr_ne d s

/-- **NTT_iters** (2 ≤ size = 2^K ≤ 2^30): the generated function returns iff the hand model's `nttIters` does; then the
    destination block holds the model's result (the block of `aux` holds the other ping-pong buffer) and no other block
    changes -/
theorem nttIters_gen (fuel : Nat) (hf : 64 ≤ fuel) (hp : Heap) (self : NTT_Goldilocks) (o : Model.Ntt.Obj)
    (hrep : ObjRep hp self o) (D Sx Ax : Nat) (hD : D < hp.size) (hAx : Ax < hp.size) (hDA : D ≠ Ax) (hSA : Sx ≠ Ax)
    (hfrD : ObjFrame self D) (hfrA : ObjFrame self Ax)
    (dst : Ptr) (hdst : (if (dst != Ptr.null) = true then dst else (⟨Sx, 0⟩ : Ptr)) = ⟨D, 0⟩)
    (K N oc NC NCA : Nat) (nphase : BitVec 64) (inverse extend : Bool)
    (hK1 : 1 ≤ K) (hK : K ≤ 30) (hN : N = 2 ^ K) (hKs : K ≤ o.s) (hos : o.s ≤ 32)
    (hb1 : N * NCA + oc < 2 ^ 64) (hNNC : N * NC < 2 ^ 64) (hNC8 : NC * 8 < 2 ^ 64) (hext31 : o.extension < 2 ^ 31)
    (hcache : extend = true → o.rcache ≠ none) :
    match Model.Ntt.nttIters o (hp.block D) (hp.block Sx) (hp.block Ax) (decide (D = Sx)) N oc NC NCA nphase.toNat
        inverse extend with
    | .ok (d, _) => ∃ X', NTT_NTT_iters fuel hp self dst ⟨Sx, 0⟩ (bv N) (bv oc) (bv NC) (bv NCA) nphase ⟨Ax, 0⟩ inverse extend =
        some ((hp.setBlock D d).setBlock Ax X') ∧ X'.size = (hp.block Ax).size
    | .error _ => NTT_NTT_iters fuel hp self dst ⟨Sx, 0⟩ (bv N) (bv oc) (bv NC) (bv NCA) nphase ⟨Ax, 0⟩ inverse extend = none := by
  have hN30 : N ≤ 2 ^ 30 := by rw [hN]; exact Nat.pow_le_pow_right (by omega) hK
  have hN2 : 2 ≤ N := by
    rw [hN]; calc 2 = 2 ^ 1 := rfl
      _ ≤ 2 ^ K := Nat.pow_le_pow_right (by omega) hK1
  have hNt : (bv N).toNat = N := bv_toNat N (by omega)
  have hNne : bv N ≠ 0#64 := by
    intro e; have := congrArg BitVec.toNat e; rw [hNt] at this; simp at this; omega
  have hlogK : Model.Ntt.log2 N = K := by rw [hN]; exact Nat.log2_two_pow
  have hlog := log2_gen_eq fuel (by unfold log2Fuel; omega) (bv N) hNne
  rw [hNt, hlogK] at hlog
  have hpow : ((1#64 : BitVec 64) <<< (bv K).toNat == bv N) = true := by
    rw [bv_toNat K (by omega), one_shl K (by omega), hN]; simp
  -- the clamped number of phases and the schedule parameters
  generalize hnp : Model.Ntt.clampPhase nphase.toNat K = np
  have hnpr : 1 ≤ np ∧ np ≤ K := by
    have := Model.Ntt.clampPhase_range nphase.toNat K
    rw [hnp] at this
    exact ⟨this.1, this.2.1 hK1⟩
  have hdiv : bv K / bv np = bv (K / np) := bv_div _ _ (by omega) (by omega)
  have hmod : bv K % bv np = bv (K % np) := bv_mod _ _ (by omega) (by omega)
  have hmodlt : K % np < np := Nat.mod_lt _ (by omega)
  have hdivle : K / np ≤ K := Nat.div_le_self _ _
  have hres0 : decide (bv (K % np) > 0#64) = decide (K % np > 0) := by
    rw [decide_eq_decide]; show bv 0 < bv (K % np) ↔ _; rw [lt_bv _ _ (by omega) (by omega)]
  have hmbp0 : (if decide (K % np > 0) = true then bv (K / np) + 1#64 else bv (K / np)) =
      bv (K / np + (if K % np > 0 then 1 else 0)) := by
    by_cases h : K % np > 0
    · simp only [h, decide_true, if_true]; rw [bv_one, bv_add]
    · simp only [h, decide_false, if_false, Bool.false_eq_true]; rfl
  have hodd : (bv np % 2#64 == 1#64) = decide (np % 2 = 1) := by
    rw [bv_two, bv_mod _ _ (by omega) (by omega), bv_one, beq_bv _ _ (by omega) (by omega)]
  have hsize1 : decide (bv N > 1#64) = true := by
    rw [decide_eq_true_eq]; show bv 1 < bv N; rw [lt_bv _ _ (by omega) (by omega)]; omega
  have hsched : Model.Ntt.schedule K np =
      Model.Ntt.schedule.go K (K % np) (K + 1) 1 1 (K / np + (if K % np > 0 then 1 else 0)) [] := rfl
  have hmb1 : 1 ≤ K / np + (if K % np > 0 then 1 else 0) ∧ K / np + (if K % np > 0 then 1 else 0) ≤ 64 := by
    have : 1 ≤ K / np := Nat.div_pos hnpr.2 (by omega)
    by_cases h : K % np > 0
    · rw [if_pos h]; omega
    · rw [if_neg h]; omega
  unfold NTT_NTT_iters Model.Ntt.nttIters
  dsimp only
  rw [hdst, hlog]
  simp only [Option.bind_some, setWidth_ofNat32 K (by omega), hpow, if_true, clamp_gen nphase K (by omega), hlogK, hnp, hdiv,
    hmod, hres0, hmbp0, hodd]
  have hpk : 2 ^ K = N := hN.symm
  -- the step function of the pass loop, whatever its parameter list: one step of the model's schedule + `pass`
  name_while step with hstepdef
  have hstep : ∀ (A A2 : Nat), A ≠ A2 → A < hp.size → A2 < hp.size → ObjFrame self A → ObjFrame self A2 →
      ∀ (mbp s count : Nat), 1 ≤ s → s ≤ K → 1 ≤ mbp → mbp ≤ 64 → count ≤ 128 → ∀ (tmp : Ptr) (st : Block × Block),
      step (bv mbp, Heap.R2 hp A A2 st, tmp, ⟨A2, 0⟩, ⟨A, 0⟩, bv s, bv count) =
        some (true, (bv (stepMbp (K % np) count mbp),
          Heap.R2 hp A A2 (Model.Ntt.iter (N / 2 ^ stepInc K s (stepMbp (K % np) count mbp)) st
            (Model.Ntt.passBatch o N K NC s (stepInc K s (stepMbp (K % np) count mbp))
              (!(decide (s + stepMbp (K % np) count mbp ≤ K) || !inverse)) extend)),
          ⟨A2, 0⟩, ⟨A, 0⟩, ⟨A2, 0⟩, bv (s + stepMbp (K % np) count mbp), bv (count + 1))) := by
    intro A A2 hne hA hA2 hfr hfr2 mbp s count hs1 hsK hm1 hm hcount tmp st
    subst hstepdef
    obtain ⟨e1, e2, e3, e4, e5, e6, e7, e8, e9, hle, hmb, hsi⟩ :=
      sched_arith N K (K % np) mbp s count hK hN hs1 hsK hm1 hm (by omega) hcount
    generalize stepMbp (K % np) count mbp = mbp' at *
    generalize stepInc K s mbp' = sInc at *
    unfold_loops
    dsimp only
    rw [if_pos hle, e1, e2, e3, e4, e5, e6, e7, e8, e9]
    rw [Loop.rangeM_rep (R := Heap.R2 hp A A2)
      (f := Model.Ntt.passBatch o N K NC s sInc (!(decide (s + mbp' ≤ K) || !inverse)) extend) (s := st) _ 0 (N / 2 ^ sInc)]
    · simp only [Option.bind_some, bv_add, bv_one]
      rfl
    · -- the body of the batch loop = the hand model's `passBatch`
      intro b st' _ hb
      have hN30 : N ≤ 2 ^ 30 := by rw [hN]; exact Nat.pow_le_pow_right (by omega) hK
      have hBN : 2 ^ sInc * (N / 2 ^ sInc) = N := by
        rw [hN]
        have : 2 ^ K = 2 ^ sInc * 2 ^ (K - sInc) := by rw [← Nat.pow_add]; congr 1; omega
        rw [this, Nat.mul_div_cancel_left _ (Nat.pow_pos (by omega))]
      have hbB : b * 2 ^ sInc + 2 ^ sInc ≤ N := by
        have := mul_le_of_lt b (N / 2 ^ sInc) (2 ^ sInc) hb
        rw [Nat.mul_comm (N / 2 ^ sInc)] at this
        omega
      have hX := ObjRep.R2 hrep hfr hfr2 st'
      have hKS : K - 1 - (s - 1) = K - s := by omega
      have hA' : A < (Heap.R2 hp A A2 st').size := by simpa using hA
      have hB64 : 2 ^ sInc < 2 ^ 64 := Nat.pow_lt_pow_right (by omega) (by omega)
      unfold_loops
      dsimp only
      rw [bv_toNat sInc (by omega), bv_toNat _ hB64]
      rw [block_loop_g (Heap.R2 hp A A2 st') self o A hA' hX hfr sInc
        (fun si a => Model.Ntt.stage o a s si b (2 ^ sInc) NC (s - 1) (K - 1) (2 ^ (s - 1)) (2 ^ (K - s) - 1))]
      · simp only [Option.bind_some, bind_some_id]
        rw [Heap.R2_block_fst _ _ _ _ hne hA, Heap.R2_setBlock_fst _ _ _ _ _ hne]
        rw [show Model.Ntt.iter sInc st'.1 (fun si a => Model.Ntt.stage o a s si b (2 ^ sInc) NC (s - 1) (K - 1) (2 ^ (s - 1))
            (2 ^ (K - s) - 1)) = Model.Ntt.batchStages o st'.1 s sInc b (2 ^ sInc) NC (s - 1) (K - 1) (2 ^ (s - 1)) (2 ^ (K - s) - 1)
          from rfl]
        have hc : decide (bv s + bv mbp' ≤ bv K) = decide (s + mbp' ≤ K) := by
          rw [bv_add, decide_eq_decide, le_bv _ _ (by omega) (by omega)]
        rw [hc]
        unfold Model.Ntt.passBatch
        by_cases hcond : (decide (s + mbp' ≤ K) || !inverse) = true
        · rw [if_pos hcond]
          simp only [hcond, Bool.not_true, Bool.false_eq_true, if_false, hKS]
          -- the transposing copy
          rw [snd_loop_g hp A A2 (2 ^ sInc) (fun x a2 => Model.Ntt.copyRow a2 ((x * (N / 2 ^ sInc) + b) * NC)
            (Model.Ntt.batchStages o st'.1 s sInc b (2 ^ sInc) NC (s - 1) (K - 1) (2 ^ (s - 1)) (2 ^ (K - s) - 1))
            ((b * 2 ^ sInc + x) * NC) NC)]
          · rfl
          · intro x P2 hx
            have h1 : x * (N / 2 ^ sInc) + b < N := by
              have := mr_lt' x b (2 ^ sInc) (N / 2 ^ sInc) hx hb
              rw [hBN] at this; exact this
            have h2 : b * 2 ^ sInc + x < N := by
              have := mr_lt' b x (N / 2 ^ sInc) (2 ^ sInc) hb hx
              rw [Nat.mul_comm (N / 2 ^ sInc) (2 ^ sInc), hBN] at this; exact this
            have h3 := mul_le_of_lt _ _ NC h1
            have h4 := mul_le_of_lt _ _ NC h2
            unfold_loops
            dsimp only
            simp only [Heap.copy_eq, Ptr.add_blk, Ptr.add_off, Nat.zero_add, bv_add, bv_mul, e8]
            simp (disch := bv_side) only [bv_toNat, Nat.mul_div_cancel, Nat.mul_div_cancel_left]
            rw [Heap.R2_block_snd _ _ _ _ hA2, Heap.R2_block_fst _ _ _ _ hne hA, Heap.R2_setBlock_snd, copyRow_eq]
            close_shape
        · rw [if_neg hcond]
          have hcf : (decide (s + mbp' ≤ K) || !inverse) = false := by simpa using hcond
          simp only [hcf, Bool.not_false, if_true, hKS]
          cases extend with
          | true =>
            simp only [if_true]
            -- the reflecting, scaling copy with the factors `r_[dsty]` of `extendPol`
            have hfac : ∀ j, (hp.block self.r_.blk).getD (self.r_.off + j) 0#64 = Model.Ntt.scaleFactor o true K j := by
              intro j
              have hc := hrep.cache
              cases hrc : o.rcache with
              | none => exact absurd hrc (hcache rfl)
              | some v =>
                obtain ⟨n, r, r_⟩ := v
                rw [hrc] at hc
                obtain ⟨_, _, _, _, c5, c6⟩ := hc
                rw [c5, c6, Nat.zero_add]
                simp only [Model.Ntt.scaleFactor, hrc, if_true]
            have hrA : self.r_.blk ≠ A := fun e => hfr.2.2.2 e.symm
            have hrA2 : self.r_.blk ≠ A2 := fun e => hfr2.2.2.2 e.symm
            rw [snd_loop_g hp A A2 (2 ^ sInc) (fun x a2 =>
              Model.Ntt.scaleRow a2 (Model.Ntt.batchStages o st'.1 s sInc b (2 ^ sInc) NC (s - 1) (K - 1) (2 ^ (s - 1)) (2 ^ (K - s) - 1))
                (Model.Ntt.inttIdx (x * (N / 2 ^ sInc) + b) N * NC) ((b * 2 ^ sInc + x) * NC) NC
                (Model.Ntt.scaleFactor o true K (Model.Ntt.inttIdx (x * (N / 2 ^ sInc) + b) N)))]
            · rfl
            · intro x P2 hx
              have h1 : x * (N / 2 ^ sInc) + b < N := by
                have := mr_lt' x b (2 ^ sInc) (N / 2 ^ sInc) hx hb
                rw [hBN] at this; exact this
              have h2 : b * 2 ^ sInc + x < N := by
                have := mr_lt' b x (N / 2 ^ sInc) (2 ^ sInc) hb hx
                rw [Nat.mul_comm (N / 2 ^ sInc) (2 ^ sInc), hBN] at this; exact this
              have hd := inttIdx_lt _ _ h1
              have h3 := mul_le_of_lt _ _ NC hd
              have h4 := mul_le_of_lt _ _ NC h2
              unfold_loops
              dsimp only
              simp only [bv_add, bv_mul, e8]
              simp (disch := bv_side) only [ofU64_bv, intt_idx_gen, toU64_nat, bv_toNat, bv_mul, bind_some_id]
              refine scaleRow_g hp A A2 _ _ _ NC (_, P2) _ ?_
              intro k P2' hk
              unfold_loops
              try simp (disch := assumption) only [Heap.get_R2_other]
              simp only [Heap.set_eq, Heap.get_def, Nat.zero_add, bv_add]
              simp (disch := bv_side) only [bv_toNat]
              rw [Heap.R2_block_snd _ _ _ _ hA2, Heap.R2_block_fst _ _ _ _ hne hA, Heap.R2_setBlock_snd, hfac]
              all_goals try simp only [Model.Ntt.scaleFactor, Bool.false_eq_true, if_false]
              close_shape
          | false =>
            simp only [Bool.false_eq_true, if_false]
            -- the reflecting, scaling copy with the factor `powTwoInv[domainPow]`
            have hfac : (hp.block self.powTwoInv.blk).getD (self.powTwoInv.off + K) 0#64 = o.powTwoInv.getD K 0#64 := by
              rw [hrep.pti, hrep.pti_off, Nat.zero_add]
            have hpA : self.powTwoInv.blk ≠ A := fun e => hfr.2.1 e.symm
            have hpA2 : self.powTwoInv.blk ≠ A2 := fun e => hfr2.2.1 e.symm
            try simp (disch := assumption) only [Heap.get_R2_other]
            rw [snd_loop_g hp A A2 (2 ^ sInc) (fun x a2 =>
              Model.Ntt.scaleRow a2 (Model.Ntt.batchStages o st'.1 s sInc b (2 ^ sInc) NC (s - 1) (K - 1) (2 ^ (s - 1)) (2 ^ (K - s) - 1))
                (Model.Ntt.inttIdx (x * (N / 2 ^ sInc) + b) N * NC) ((b * 2 ^ sInc + x) * NC) NC
                (Model.Ntt.scaleFactor o false K (Model.Ntt.inttIdx (x * (N / 2 ^ sInc) + b) N)))]
            · rfl
            · intro x P2 hx
              have h1 : x * (N / 2 ^ sInc) + b < N := by
                have := mr_lt' x b (2 ^ sInc) (N / 2 ^ sInc) hx hb
                rw [hBN] at this; exact this
              have h2 : b * 2 ^ sInc + x < N := by
                have := mr_lt' b x (N / 2 ^ sInc) (2 ^ sInc) hb hx
                rw [Nat.mul_comm (N / 2 ^ sInc) (2 ^ sInc), hBN] at this; exact this
              have hd := inttIdx_lt _ _ h1
              have h3 := mul_le_of_lt _ _ NC hd
              have h4 := mul_le_of_lt _ _ NC h2
              unfold_loops
              dsimp only
              simp only [bv_add, bv_mul, e8]
              simp (disch := bv_side) only [ofU64_bv, intt_idx_gen, toU64_nat, bv_toNat, bv_mul, bind_some_id]
              refine scaleRow_g hp A A2 _ _ _ NC (_, P2) _ ?_
              intro k P2' hk
              unfold_loops
              try simp (disch := assumption) only [Heap.get_R2_other]
              simp only [Heap.set_eq, Heap.get_def, Nat.zero_add, bv_add]
              simp (disch := bv_side) only [bv_toNat]
              rw [Heap.R2_block_snd _ _ _ _ hA2, Heap.R2_block_fst _ _ _ _ hne hA, Heap.R2_setBlock_snd, hfac]
              all_goals try simp only [Model.Ntt.scaleFactor, Bool.false_eq_true, if_false]
              close_shape
      · -- one stage of one batch = the hand model's `stage`
        intro si Y hsi hAY hrepY
        have hU : 0 < 2 ^ si := Nat.pow_pos (by omega)
        have hp1 : 2 ^ (s + si) < 2 ^ 64 := Nat.pow_lt_pow_right (by omega) (by omega)
        have hp2 : 2 ^ si < 2 ^ 64 := Nat.pow_lt_pow_right (by omega) (by omega)
        have hp3 : 2 ^ si * 2 ≤ 2 ^ sInc := by
          rw [← Nat.pow_succ]; exact Nat.pow_le_pow_right (by omega) (by omega)
        unfold_loops
        dsimp only
        simp (disch := bv_side) only [bv_add, bv_mul, bv_shr, bv_toNat, shl_one, Nat.pow_one, bind_some_id]
        rw [block_loop_g Y self o A hAY hrepY hfr (2 ^ sInc / 2)
          (Model.Ntt.stageStep o s si b (2 ^ sInc) NC (s - 1) (K - 1) (2 ^ (s - 1)))]
        · rfl
        · -- one butterfly of one stage = the hand model's `stageStep`
          intro i Z hi hAZ hrepZ
          have hi64 : i < 2 ^ 64 := by omega
          have hbB64 : b * 2 ^ sInc < 2 ^ 64 := by omega
          have hj0 : b * 2 ^ sInc / 2 + i ≤ 2 ^ 31 := by omega
          have hRB : 2 ^ (s - 1) ≤ 2 ^ 30 := Nat.pow_le_pow_right (by omega) (by omega)
          have hj1 : (b * 2 ^ sInc / 2 + i) % 2 ^ (K - s) * 2 ^ (s - 1) + (b * 2 ^ sInc / 2 + i) / 2 ^ (K - s) < 2 ^ 62 := by
            have h1 : (b * 2 ^ sInc / 2 + i) % 2 ^ (K - s) ≤ 2 ^ 31 := Nat.le_trans (Nat.mod_le _ _) hj0
            have h2 : (b * 2 ^ sInc / 2 + i) / 2 ^ (K - s) ≤ 2 ^ 31 := Nat.le_trans (Nat.div_le_self _ _) hj0
            have h3 : (b * 2 ^ sInc / 2 + i) % 2 ^ (K - s) * 2 ^ (s - 1) ≤ 2 ^ 31 * 2 ^ 30 := Nat.mul_le_mul h1 hRB
            omega
          have hM : 2 ^ (s + si) / 2 < 2 ^ 64 := by omega
          unfold_loops
          dsimp only
          simp (disch := bv_side) only [bv_add, bv_mul, bv_div, bv_mod, bv_mask, bv_shr, bv_sub, bv_toNat, hKS, bind_some_id]
          have hhalf : 0 < 2 ^ (s + si) / 2 := by
            have : 2 ^ (s + si) = 2 ^ (s + si - 1) * 2 := by
              rw [← Nat.pow_succ]; congr 1; omega
            rw [this, Nat.mul_div_cancel _ (by omega)]
            exact Nat.pow_pos (by omega)
          rw [root_bv Z self o hrepZ _ _ (by omega) hos
            (Nat.lt_of_lt_of_le (Nat.mod_lt _ hhalf) (Nat.div_le_self _ _))]
          have hiM : i < 2 ^ (sInc - si - 1) * 2 ^ si := by
            have : 2 ^ sInc / 2 = 2 ^ (sInc - si - 1) * 2 ^ si := by
              rw [pow_stage sInc si hsi, ← Nat.mul_assoc, Nat.mul_div_cancel _ (by omega)]
            omega
          have hrow := row_lt (2 ^ si) (2 ^ (sInc - si - 1)) i hU hiM
          rw [← pow_stage sInc si hsi] at hrow
          have hrow2 := mul_le_of_lt _ _ NC
            (show b * 2 ^ sInc + i / 2 ^ si * (2 ^ si * 2) + i % 2 ^ si + 2 ^ si < N by omega)
          unfold Model.Ntt.stageStep Model.Ntt.twIdx
          dsimp only
          refine bfly_loop_g A _ _ NC _ Z hAZ _ ?_
          -- one column of one butterfly = the hand model's `bflyStep`
          intro k Y' hk hY'
          unfold_loops
          unfold Model.Ntt.bflyStep
          simp only [Heap.set_eq, Heap.get_def, Nat.zero_add, bv_add]
          simp (disch := bv_side) only [bv_toNat]
          rw [Heap.block_setBlock_same _ _ _ hY', Heap.setBlock_setBlock]
          close_shape
  have hstop : ∀ (mbp s count : Nat), K < s → s < 2 ^ 64 → ∀ (X : Heap) (tmp a2 a : Ptr),
      step (bv mbp, X, tmp, a2, a, bv s, bv count) = some (false, (bv mbp, X, tmp, a2, a, bv s, bv count)) := by
    intro mbp s count hsK hs X tmp a2 a
    subst hstepdef
    have hle : decide (bv s ≤ bv K) = false := by
      rw [decide_eq_false_iff_not, le_bv _ _ hs (by omega)]; omega
    unfold_loops
    dsimp only
    rw [hle]
    rfl
  clear hstepdef
  have ha0 : (if decide (D = Sx) = true then hp.block Sx else hp.block D) = hp.block D := by
    by_cases h : D = Sx
    · subst h; simp
    · simp [h]
  have hone : (1#64 : BitVec 64) = bv 1 := rfl
  have hocT : (bv oc).toNat = oc := bv_toNat _ (by omega)
  have hNCAT : (bv NCA).toNat = NCA := by
    apply bv_toNat
    have : 2 * NCA ≤ N * NCA := Nat.mul_le_mul_right _ hN2
    omega
  have hNCT : (bv NC).toNat = NC := bv_toNat _ (by omega)
  by_cases hpar : np % 2 = 1
  · simp only [hpar, decide_true, if_true, beq_self_eq_true, hpk, ne_eq, not_true_eq_false, if_false, ha0]
    have hrp := reversePermutation_gen fuel (by unfold log2Fuel; omega) hp self o Ax Sx (bv N) (bv oc) (bv NC) (bv NCA) K
      (by omega) (by rw [hNt]; exact hN) hAx hrep.ext hext31 (by rw [hNt, hNCAT, hocT]; exact hb1)
      (by rw [hNt, hNCT]; exact hNNC) (by rw [hNCT]; exact hNC8)
    have hdec : decide (Ax = Sx) = false := by simp [Ne.symm hSA]
    rw [hNt, hNCAT, hocT, hNCT, hdec] at hrp
    rw [hrp]
    cases hr : Model.Ntt.reversePermutation o (hp.block Ax) (hp.block Sx) false N oc NC NCA with
    | error e => simp only [Option.bind_none]
    | ok t =>
      simp only [Option.bind_some]
      have hR : hp.setBlock Ax t = Heap.R2 hp Ax D (t, hp.block D) := by
        unfold Heap.R2
        have := Heap.setBlock_block (hp.setBlock Ax t) D
        rw [Heap.block_setBlock_other _ _ _ _ hDA] at this
        exact this.symm
      rw [hR, hsched, hone]
      obtain ⟨A', A2', tmp', m', s', c', hw, hd⟩ := passes_g hp self o N NC K (K % np) inverse extend hK step hstep hstop
        (by omega) (K + 1) Ax D (Ne.symm hDA) hAx hD hfrA hfrD
        (K / np + (if K % np > 0 then 1 else 0)) 1 1 false ⟨Ax, 0⟩ (t, hp.block D) fuel (by omega) (by omega) (by omega)
        (by omega) hmb1.1 hmb1.2 (by omega)
      rcases hd with ⟨e, ea, eb⟩ | ⟨e, ea, eb⟩
      · rw [ea, eb] at hw
        rw [hw]
        simp only [Option.bind_some]
        have hne' : ((⟨Ax, 0⟩ : Ptr) != ⟨D, 0⟩) = true := by rw [ptr_ne]; simp [Ne.symm hDA]
        have hgt : N > 1 := by omega
        simp only [e, hne', hsize1, if_true, Bool.not_false, hgt]
      · rw [ea, eb] at hw
        rw [hw]
        simp only [Option.bind_some]
        have hne' : ((⟨D, 0⟩ : Ptr) != ⟨D, 0⟩) = false := by rw [ptr_ne]; simp
        have hsz := ((Model.Ntt.foldl_pass_size o N K NC inverse extend _ (t, hp.block D, false)).2 e).2
        have hts := Model.Ntt.reversePermutation_size o _ _ false N oc NC NCA t hr
        simp only [Bool.false_eq_true, if_false] at hts
        rw [hts] at hsz
        simp only [e, hne', Bool.not_false, Bool.not_true, Bool.false_eq_true, if_false]
        by_cases hDS : D = Sx
        · simp only [hDS, decide_true, if_true]
          simp only [hDS] at hsz
          exact ⟨_, rfl, hsz⟩
        · simp only [hDS, decide_false, Bool.false_eq_true, if_false]
          exact ⟨_, rfl, hsz⟩
  · have hparf : decide (np % 2 = 1) = false := by simp [hpar]
    simp only [hparf, Bool.false_eq_true, if_false, hpk, ne_eq, not_true_eq_false, ha0,
      show ((true == false) = true) = False from by simp]
    have hrp := reversePermutation_gen fuel (by unfold log2Fuel; omega) hp self o D Sx (bv N) (bv oc) (bv NC) (bv NCA) K
      (by omega) (by rw [hNt]; exact hN) hD hrep.ext hext31 (by rw [hNt, hNCAT, hocT]; exact hb1)
      (by rw [hNt, hNCT]; exact hNNC) (by rw [hNCT]; exact hNC8)
    rw [hNt, hNCAT, hocT, hNCT] at hrp
    rw [hrp]
    cases hr : Model.Ntt.reversePermutation o (hp.block D) (hp.block Sx) (decide (D = Sx)) N oc NC NCA with
    | error e => simp only [Option.bind_none]
    | ok t =>
      simp only [Option.bind_some]
      have hR : hp.setBlock D t = Heap.R2 hp D Ax (t, hp.block Ax) := by
        unfold Heap.R2
        have := Heap.setBlock_block (hp.setBlock D t) Ax
        rw [Heap.block_setBlock_other _ _ _ _ (Ne.symm hDA)] at this
        exact this.symm
      rw [hR, hsched, hone]
      obtain ⟨A', A2', tmp', m', s', c', hw, hd⟩ := passes_g hp self o N NC K (K % np) inverse extend hK step hstep hstop
        (by omega) (K + 1) D Ax hDA hD hAx hfrD hfrA
        (K / np + (if K % np > 0 then 1 else 0)) 1 1 true ⟨D, 0⟩ (t, hp.block Ax) fuel (by omega) (by omega) (by omega)
        (by omega) hmb1.1 hmb1.2 (by omega)
      rcases hd with ⟨e, ea, eb⟩ | ⟨e, ea, eb⟩
      · rw [ea, eb] at hw
        rw [hw]
        simp only [Option.bind_some]
        have hne' : ((⟨D, 0⟩ : Ptr) != ⟨D, 0⟩) = false := by rw [ptr_ne]; simp
        have hsz := ((Model.Ntt.foldl_pass_size o N K NC inverse extend _ (t, hp.block Ax, true)).1 e).2
        simp only [e, hne', Bool.not_false, Bool.not_true, Bool.false_eq_true, if_false]
        by_cases hDS : D = Sx
        · simp only [hDS, decide_true, if_true]
          simp only [hDS] at hsz
          exact ⟨_, rfl, hsz⟩
        · simp only [hDS, decide_false, Bool.false_eq_true, if_false]
          exact ⟨_, rfl, hsz⟩
      · rw [ea, eb] at hw
        rw [hw]
        simp only [Option.bind_some]
        have hne' : ((⟨Ax, 0⟩ : Ptr) != ⟨D, 0⟩) = true := by rw [ptr_ne]; simp [Ne.symm hDA]
        have hgt : N > 1 := by omega
        simp only [e, hne', hsize1, if_true, Bool.not_false, Bool.not_true, hgt]

end GoldilocksVerif.BridgeNtt
