/-
  Order independence for the GENERATED parallel loops of ntt_goldilocks.cpp (Gen/NttGen.lean), per-iteration part:
  every lifted body of an `omp parallel for` loop, run on a heap in representation form, is the corresponding NAMED body
  of the hand model (whose footprints are derived in Lemmas/NttPar*.lean):
    NTT_NTT_iters_loop9              → passBatch        (Lemmas/BridgeNttPass.lean: `passBatch_gen`, used as is)
    NTT_NTT_loop1  (block scatter)   → scatterBody      (`scatter_rep`, new: the scatter loop is not bridged elsewhere)
    NTT_reversePermutation_loop1/2   → revOutBody       (`rev1_rep`, `rev2_rep`, from `rp_body1/2`)
    NTT_reversePermutation_loop3/4   → revInBody        (`rev3_rep`, `rev4_rep`, from `rp_body3/4`; the per-iteration
                                                         temporary row block allocated and freed inside the body)
  Helper of Props/C12.lean (`C12_generated_*`).
-/
import GoldilocksVerif.Lemmas.ParGen
import GoldilocksVerif.Lemmas.BridgeNttPass
import GoldilocksVerif.Lemmas.NttParRev

namespace GoldilocksVerif.ParGen
open GoldilocksVerif Gen.NttGen GoldilocksVerif.BridgeNtt

/-- every heap is in two-buffer representation form -/
theorem R2_self (H : Heap) (A A2 : Nat) : Heap.R2 H A A2 (H.block A, H.block A2) = H := by
  unfold Heap.R2
  rw [Heap.setBlock_block, Heap.setBlock_block]

/-- a body that changes block `d` only, as the function `f i` of its content, keeps to the representation `X0.setBlock d` -/
theorem block_rep (X0 : Heap) (d : Nat) (hd : d < X0.size) (f : Nat → Block → Block) (body : Nat → Heap → Option Heap)
    (P : Nat → Prop)
    (hbody : ∀ i (X : Heap), P i → X.size = X0.size → (∀ c, c ≠ d → X.block c = X0.block c) →
      body i X = some (X.setBlock d (f i (X.block d)))) :
    ∀ i, P i → ∀ D : Block, body i (X0.setBlock d D) = some (X0.setBlock d (f i D)) := by
  intro i hi D
  rw [hbody i (X0.setBlock d D) hi (by simp) (fun c hc => Heap.block_setBlock_other _ _ _ _ hc),
    Heap.block_setBlock_same _ _ _ hd, Heap.setBlock_setBlock]

/-- a model object that only carries the `extension` member (the bit-reversal bodies of the model read nothing else) -/
def extObj (e : Nat) : Model.Ntt.Obj := ⟨0, #[], #[], e, none⟩

/-! ### block scatter of `NTT` (ntt_goldilocks.cpp:219): `NTT_NTT_loop1` -/

/-- one iteration of the generated scatter loop = the model's `scatterBody` on the destination block.
    `D ≠ T` (`dst_` is a block `NTT` allocated itself); the column block lies inside a row; no 64-bit wrap. -/
theorem scatter_rep (hp : Heap) (D T : Nat) (hD : D < hp.size) (hne : D ≠ T) (ncols oc aux : BitVec 64) (size : Nat)
    (hfit : oc.toNat + aux.toNat ≤ ncols.toNat) (hb1 : size * ncols.toNat < 2 ^ 64) (hb3 : aux.toNat * 8 < 2 ^ 64)
    (hsz : size < 2 ^ 64) :
    ∀ ie, ie < size → ∀ B : Block, NTT_NTT_loop1 ⟨D, 0⟩ ncols oc ⟨T, 0⟩ aux ie (hp.setBlock D B) =
      some (hp.setBlock D (Model.Ntt.scatterBody ncols.toNat oc.toNat aux.toNat ie (hp.block T) B)) := by
  refine block_rep hp D hD (fun ie B => Model.Ntt.scatterBody ncols.toNat oc.toNat aux.toNat ie (hp.block T) B) _
    (fun ie => ie < size) ?_
  intro ie X hie _ hfr
  have hm := mul_le_of_lt ie size ncols.toNat hie
  have hma : ie * aux.toNat ≤ ie * ncols.toNat := Nat.mul_le_mul_left _ (by omega)
  have e0 : (BitVec.ofNat 64 ie).toNat = ie := ofNat_toNat_lt ie (by omega)
  have e1 : (BitVec.ofNat 64 ie * ncols + oc).toNat = ie * ncols.toNat + oc.toNat := by
    rw [add_toNat, mul_toNat, e0]
    · rw [e0]; omega
    · rw [mul_toNat _ _ (by rw [e0]; omega), e0]; omega
  have e2 : (BitVec.ofNat 64 ie * aux).toNat = ie * aux.toNat := by
    rw [mul_toNat _ _ (by rw [e0]; omega), e0]
  unfold NTT_NTT_loop1 Model.Ntt.scatterBody
  simp only [Heap.copy_eq, Ptr.add_blk, Ptr.add_off, Nat.zero_add]
  rw [e1, e2, words_toNat aux hb3, copyRow_eq, hfr T (fun e => hne e.symm)]

/-! ### `reversePermutation` (ntt_goldilocks.cpp:254, 267, 289, 311) -/

section rev
variable (hp : Heap) (d s : Nat) (oc nc nca : BitVec 64) (ds : BitVec 32) (k size : Nat)
variable (hk : k ≤ 32) (hds : ds.toNat = k) (hsz : size = 2 ^ k) (hd : d < hp.size)
variable (hb1 : size * nca.toNat + oc.toNat < 2 ^ 64) (hb2 : size * nc.toNat < 2 ^ 64) (hb3 : nc.toNat * 8 < 2 ^ 64)

include hsz in
theorem log2_size : Model.Ntt.log2 size = k := by rw [hsz]; exact Nat.log2_two_pow

include hk hds hsz hd hb1 hb2 hb3 in
/-- destination distinct, extension ≤ 1 -/
theorem rev1_rep (hne : d ≠ s) : ∀ i, i < size → ∀ D : Block,
    NTT_reversePermutation_loop1 ⟨d, 0⟩ ⟨s, 0⟩ oc nc nca ds i (hp.setBlock d D) =
      some (hp.setBlock d (Model.Ntt.revOutBody (extObj 1) size oc.toNat nc.toNat nca.toNat i (hp.block s) D)) := by
  refine block_rep hp d hd (fun i D => Model.Ntt.revOutBody (extObj 1) size oc.toNat nc.toNat nca.toNat i (hp.block s) D) _
    (fun i => i < size) ?_
  intro i X hi _ hfr
  rw [rp_body1 d s oc nc nca ds k size hk hds hsz hb1 hb2 hb3 hne i hi X, hfr s (fun e => hne e.symm)]
  unfold Model.Ntt.revOutBody
  rw [log2_size k size hsz, if_pos (show (extObj 1).extension ≤ 1 from Nat.le_refl 1)]

include hk hds hsz hd hb1 hb2 hb3 in
/-- destination distinct, extension `e > 1`; `ext_` is what the generated function passes: `(size / extension) * ncols_all` -/
theorem rev2_rep (hne : d ≠ s) (ext_ : BitVec 64) (e : Nat) (he : ¬ e ≤ 1) (hE : ext_.toNat = size / e * nca.toNat) :
    ∀ i, i < size → ∀ D : Block,
    NTT_reversePermutation_loop2 ⟨d, 0⟩ ⟨s, 0⟩ oc nc nca ds ext_ i (hp.setBlock d D) =
      some (hp.setBlock d (Model.Ntt.revOutBody (extObj e) size oc.toNat nc.toNat nca.toNat i (hp.block s) D)) := by
  refine block_rep hp d hd (fun i D => Model.Ntt.revOutBody (extObj e) size oc.toNat nc.toNat nca.toNat i (hp.block s) D) _
    (fun i => i < size) ?_
  intro i X hi _ hfr
  rw [rp_body2 d s oc nc nca ds k size hk hds hsz hb1 hb2 hb3 ext_ i hi X, hfr s (fun e => hne e.symm), hE]
  unfold Model.Ntt.revOutBody
  rw [log2_size k size hsz, if_neg (show ¬ (extObj e).extension ≤ 1 from he)]
  rfl

include hk hds hsz hd hb2 hb3 in
/-- in place, extension ≤ 1 (the temporary row is a block allocated and freed by the iteration) -/
theorem rev3_rep : ∀ i, i < size → ∀ D : Block,
    NTT_reversePermutation_loop3 ⟨d, 0⟩ ⟨d, 0⟩ nc ds i (hp.setBlock d D) =
      some (hp.setBlock d (Model.Ntt.revInBody (extObj 1) size nc.toNat i D)) := by
  refine block_rep hp d hd (fun i D => Model.Ntt.revInBody (extObj 1) size nc.toNat i D) _ (fun i => i < size) ?_
  intro i X hi hs _
  rw [rp_body3 d nc ds k size hk hds hsz hb2 hb3 i hi X (by omega)]
  unfold Model.Ntt.revInBody ipHand1
  rw [log2_size k size hsz, if_pos (show (extObj 1).extension ≤ 1 from Nat.le_refl 1)]

include hk hds hsz hd hb2 hb3 in
/-- in place, extension `e > 1`; `nIn` is what the generated function passes: `size / extension` -/
theorem rev4_rep (nIn : BitVec 64) (e : Nat) (he : ¬ e ≤ 1) (hN : nIn.toNat = size / e) : ∀ i, i < size → ∀ D : Block,
    NTT_reversePermutation_loop4 ⟨d, 0⟩ ⟨d, 0⟩ nc ds nIn i (hp.setBlock d D) =
      some (hp.setBlock d (Model.Ntt.revInBody (extObj e) size nc.toNat i D)) := by
  refine block_rep hp d hd (fun i D => Model.Ntt.revInBody (extObj e) size nc.toNat i D) _ (fun i => i < size) ?_
  intro i X hi hs _
  rw [rp_body4 d nc ds k size hk hds hsz hb2 hb3 nIn i hi X (by omega), hN]
  unfold Model.Ntt.revInBody ipHand2 Model.Ntt.swapStep
  rw [log2_size k size hsz, if_neg (show ¬ (extObj e).extension ≤ 1 from he)]
  rfl

end rev

end GoldilocksVerif.ParGen
