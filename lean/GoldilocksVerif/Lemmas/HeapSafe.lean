/-
  Extents of the blocks of the translator's heap (Model/TrHeap.lean): which blocks are LIVE, and how every memory
  operation of the heap mode changes the extents.  Basis of the C18 statements about the GENERATED NTT model
  (Gen/NttGen.lean): allocation balance (Lemmas/HeapSafeBal*.lean) and in-bounds accesses (Lemmas/HeapSafeVC.lean ff.).

  `Heap.ext h b` = number of 64-bit words that can be addressed in block `b` of `h`:
     * `n` after `Heap.alloc h n` returned block `b` (malloc / new[] / run-time sized stack array of n words),
     * `0` after `Heap.free` of that block (the last block is removed from the list, another one is emptied — in both
       cases `Heap.block h b = #[]`), for the block of `NULL` of a well-formed heap, and for every block number that
       was never handed out.
  `Heap.live h b` = `0 < Heap.ext h b`.  A block of zero words (`malloc(0)`) is therefore NOT distinguished from a
  released one: it has nothing that could be accessed; its leak would not be seen by the statements below.
  `Heap.set / copy / zero` never change an extent (`Array.setIfInBounds` keeps the size): only `alloc` and `free` do.

  `Heap.Same h h'`: same number of blocks and the same extent of every block ("everything that was allocated in
  between was released again, nothing else was released").
-/
import GoldilocksVerif.Lemmas.HeapL

namespace GoldilocksVerif

namespace Block

theorem size_rangeAux (f : Nat → Block → Block) (hf : ∀ i d, (f i d).size = d.size) (step : Nat) :
    ∀ (m i : Nat) (d : Block), (Loop.rangeAux step f m i d).size = d.size := by
  intro m
  induction m with
  | zero => intro i d; rfl
  | succ m ih =>
    intro i d
    show (Loop.rangeAux step f m (i + step) (f i d)).size = d.size
    rw [ih, hf]

theorem size_copyRow (d : Block) (d0 : Nat) (s : Block) (s0 n : Nat) : (copyRow d d0 s s0 n).size = d.size := by
  unfold copyRow Loop.range
  exact size_rangeAux _ (fun i d => Array.size_setIfInBounds ..) _ _ _ _

theorem size_zeroRow (d : Block) (d0 n : Nat) : (zeroRow d d0 n).size = d.size := by
  unfold zeroRow Loop.range
  exact size_rangeAux _ (fun i d => Array.size_setIfInBounds ..) _ _ _ _

end Block

namespace Heap

/-- number of addressable words of block `b` (0: NULL, released, never allocated) -/
def ext (h : Heap) (b : Nat) : Nat := (h.block b).size

/-- block `b` is allocated and not released (and has at least one word) -/
def live (h : Heap) (b : Nat) : Prop := 0 < h.ext b

theorem ext_def (h : Heap) (b : Nat) : h.ext b = (h.block b).size := rfl

theorem ext_ge_size (h : Heap) (b : Nat) (hb : h.size ≤ b) : h.ext b = 0 := by
  unfold ext block
  unfold size at hb
  rw [Array.getD_eq_getD_getElem?, Array.getElem?_eq_none hb]; rfl

theorem lt_size_of_live (h : Heap) (b : Nat) (hl : 0 < h.ext b) : b < h.size := by
  rcases Nat.lt_or_ge b h.size with h1 | h1
  · exact h1
  · rw [ext_ge_size h b h1] at hl; exact absurd hl (Nat.lt_irrefl 0)

theorem ext_setBlock (h : Heap) (b c : Nat) (a : Block) :
    (h.setBlock b a).ext c = if c = b ∧ b < h.size then a.size else h.ext c := by
  unfold ext; rw [block_setBlock]; split <;> rfl

@[simp] theorem ext_set (h : Heap) (p : Ptr) (i : Nat) (v : BitVec 64) (c : Nat) : (h.set p i v).ext c = h.ext c := by
  rw [set_eq, ext_setBlock]
  split
  · rename_i hc; rw [hc.1, Array.size_setIfInBounds]; rfl
  · rfl

@[simp] theorem ext_copy (h : Heap) (d s : Ptr) (n : Nat) (c : Nat) : (h.copy d s n).ext c = h.ext c := by
  rw [copy_eq, ext_setBlock]
  split
  · rename_i hc; rw [hc.1, Block.size_copyRow]; rfl
  · rfl

@[simp] theorem ext_zero (h : Heap) (d : Ptr) (n : Nat) (c : Nat) : (h.zero d n).ext c = h.ext c := by
  rw [zero_eq, ext_setBlock]
  split
  · rename_i hc; rw [hc.1, Block.size_zeroRow]; rfl
  · rfl

theorem ext_alloc (h : Heap) (n c : Nat) : (h.alloc n).1.ext c = if c = h.size then n else h.ext c := by
  unfold ext; rw [block_alloc]; split
  · exact Array.size_replicate ..
  · rfl

theorem alloc_blk (h : Heap) (n : Nat) : (h.alloc n).2.blk = h.size := rfl
theorem alloc_off (h : Heap) (n : Nat) : (h.alloc n).2.off = 0 := rfl

/-- `free` empties exactly the block the pointer designates (nothing for NULL) -/
theorem ext_free (h : Heap) (p : Ptr) (c : Nat) : (h.free p).ext c = if c = p.blk ∧ p.blk ≠ 0 then 0 else h.ext c := by
  by_cases hc : c = p.blk
  · by_cases h0 : p.blk = 0
    · rw [if_neg (fun x => x.2 h0)]; unfold free; rw [if_pos h0]
    · rw [if_pos ⟨hc, h0⟩]
      subst hc
      unfold free; rw [if_neg h0]
      by_cases hl : p.blk + 1 = h.blocks.size
      · rw [if_pos hl]
        apply ext_ge_size
        show (h.blocks.pop).size ≤ p.blk
        rw [Array.size_pop]; omega
      · rw [if_neg hl]
        have := ext_setBlock ⟨h.blocks⟩ p.blk p.blk #[]
        rw [show Heap.setBlock ⟨h.blocks⟩ p.blk #[] = ⟨h.blocks.setIfInBounds p.blk #[]⟩ from rfl] at this
        rw [this]
        split
        · rfl
        · rename_i hn
          apply ext_ge_size
          show h.blocks.size ≤ p.blk
          have : ¬ p.blk < h.blocks.size := fun x => hn ⟨rfl, x⟩
          omega
  · rw [if_neg (fun x => hc x.1)]
    unfold ext; rw [block_free_other h p c hc]

theorem size_free (h : Heap) (p : Ptr) :
    (h.free p).size = if p.blk ≠ 0 ∧ p.blk + 1 = h.size then h.size - 1 else h.size := by
  unfold free size
  by_cases h0 : p.blk = 0
  · rw [if_pos h0, if_neg (fun x => x.1 h0)]
  · rw [if_neg h0]
    by_cases hl : p.blk + 1 = h.blocks.size
    · rw [if_pos hl, if_pos ⟨h0, hl⟩]; simp
    · rw [if_neg hl, if_neg (fun x => hl x.2)]; simp

/-- same number of blocks, same extent of every block -/
def Same (h h' : Heap) : Prop := h'.size = h.size ∧ ∀ b, h'.ext b = h.ext b

theorem Same.refl (h : Heap) : Same h h := ⟨rfl, fun _ => rfl⟩
theorem Same.trans {a b c : Heap} (h1 : Same a b) (h2 : Same b c) : Same a c :=
  ⟨h2.1.trans h1.1, fun x => (h2.2 x).trans (h1.2 x)⟩

theorem Same.set (h : Heap) (p : Ptr) (i : Nat) (v : BitVec 64) : Same h (h.set p i v) := ⟨size_set .., ext_set h p i v⟩
theorem Same.copy (h : Heap) (d s : Ptr) (n : Nat) : Same h (h.copy d s n) := ⟨size_copy .., ext_copy h d s n⟩
theorem Same.zero (h : Heap) (d : Ptr) (n : Nat) : Same h (h.zero d n) := ⟨size_zero .., ext_zero h d n⟩

/-- a temporary: allocate, work on a heap of the same shape, release — the shape is the one before -/
theorem Same.alloc_free (h h' : Heap) (n : Nat) (hs : 0 < h.size) (hw : Same (h.alloc n).1 h') :
    Same h (h'.free (h.alloc n).2) := by
  constructor
  · rw [size_free, alloc_blk, hw.1, size_alloc, if_pos ⟨by omega, rfl⟩]; rfl
  · intro b
    rw [ext_free, alloc_blk, hw.2, ext_alloc]
    by_cases hb : b = h.size
    · rw [if_pos ⟨hb, by omega⟩, ext_ge_size h b (by omega)]
    · rw [if_neg (fun x => hb x.1), if_neg hb]

end Heap

namespace Loop

/-- partial-correctness rule for counted loops: an invariant of the body holds for the result, when there is one -/
theorem rangeMAux_pres {σ : Type} (f : Nat → σ → Option σ) (Inv : σ → Prop) (step : Nat)
    (hstep : ∀ i s s', Inv s → f i s = some s' → Inv s') :
    ∀ (n i : Nat) (s s' : σ), Inv s → rangeMAux step f n i s = some s' → Inv s' := by
  intro n
  induction n with
  | zero => intro i s s' hi h; rw [rangeMAux_zero] at h; cases h; exact hi
  | succ n ih =>
    intro i s s' hi h
    rw [rangeMAux_succ] at h
    cases hf : f i s with
    | none => rw [hf] at h; cases h
    | some s1 => rw [hf] at h; exact ih (i + step) s1 s' (hstep i s s1 hi hf) h

theorem rangeM_pres {σ : Type} (f : Nat → σ → Option σ) (Inv : σ → Prop) (lo hi step : Nat) (s s' : σ)
    (hstep : ∀ i s s', Inv s → f i s = some s' → Inv s') (h0 : Inv s) (h : rangeM lo hi step s f = some s') : Inv s' :=
  rangeMAux_pres f Inv step hstep _ _ s s' h0 h

/-- partial-correctness rule for fuel-bounded loops -/
theorem whileM_pres {σ : Type} (stp : σ → Option (Bool × σ)) (Inv : σ → Prop)
    (hstep : ∀ s b s', Inv s → stp s = some (b, s') → Inv s') :
    ∀ (fuel : Nat) (s s' : σ), Inv s → whileM stp fuel s = some s' → Inv s' := by
  intro fuel
  induction fuel with
  | zero => intro s s' _ h; rw [whileM_zero] at h; cases h
  | succ f ih =>
    intro s s' hi h
    rw [whileM_succ] at h
    cases hs : stp s with
    | none => rw [hs] at h; cases h
    | some p =>
      obtain ⟨b, s1⟩ := p
      rw [hs] at h
      cases b with
      | false => cases h; exact hstep s false s' hi hs
      | true => exact ih s1 s' (hstep s true s1 hi hs) h

end Loop
end GoldilocksVerif

/-! ### a partial-correctness calculus for the `Option`-valued generated functions

`OInv P o`: when `o` returns (`some s`), `P s` holds.  One rule per construct the translator emits (sequencing =
`Option.bind`, `if`, counted loops, fuel-bounded loops). -/
namespace GoldilocksVerif

def OInv {σ : Type} (P : σ → Prop) (o : Option σ) : Prop := ∀ s, o = some s → P s

namespace OInv
variable {σ τ : Type}

theorem some (P : σ → Prop) (x : σ) (h : P x) : OInv P (some x) := by
  intro s hs; cases hs; exact h

theorem none (P : σ → Prop) : OInv P (none : Option σ) := by
  intro s hs; cases hs

theorem triv (o : Option σ) : OInv (fun _ => True) o := fun _ _ => trivial

theorem mono {P Q : σ → Prop} {o : Option σ} (h : OInv P o) (hpq : ∀ s, P s → Q s) : OInv Q o :=
  fun s hs => hpq s (h s hs)

theorem bind {P : τ → Prop} (Q : σ → Prop) (x : Option σ) (f : σ → Option τ)
    (hx : OInv Q x) (hf : ∀ y, Q y → OInv P (f y)) : OInv P (x.bind f) := by
  intro s hs
  cases x with
  | none => cases hs
  | some y => exact hf y (hx y rfl) s hs

theorem ite {P : σ → Prop} {c : Prop} [Decidable c] (a b : Option σ) (ha : c → OInv P a) (hb : ¬ c → OInv P b) :
    OInv P (if c then a else b) := by
  by_cases hc : c
  · rw [if_pos hc]; exact ha hc
  · rw [if_neg hc]; exact hb hc

theorem rangeM {P : σ → Prop} (lo hi step : Nat) (init : σ) (f : Nat → σ → Option σ)
    (h0 : P init) (hf : ∀ i s, P s → OInv P (f i s)) : OInv P (Loop.rangeM lo hi step init f) :=
  fun s hs => Loop.rangeM_pres f P lo hi step init s (fun i a b ha hb => hf i a ha b hb) h0 hs

theorem whileM {P : σ → Prop} (stp : σ → Option (Bool × σ)) (fuel : Nat) (init : σ)
    (h0 : P init) (hf : ∀ s, P s → OInv (fun bs => P bs.2) (stp s)) : OInv P (Loop.whileM stp fuel init) :=
  fun s hs => Loop.whileM_pres stp P (fun a b c ha hb => hf a ha (b, c) hb) fuel init s h0 hs

end OInv
end GoldilocksVerif
