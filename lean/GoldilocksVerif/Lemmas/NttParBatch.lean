/-
  Footprints of the body of the butterfly-batch loop of the model (`passBatch`, ntt_goldilocks.cpp:81), derived from
  the model's definitions loop by loop: bflyStep ⊂ bfly ⊂ stageStep ⊂ stage ⊂ batchStages, transposeCopy / inverseCopy.
  No hypothesis on the buffers (accesses of the model are bounds-tolerant).  Helper of Props/C12.lean.
-/
import GoldilocksVerif.Lemmas.NttPar
import GoldilocksVerif.Lemmas.NttStage

namespace GoldilocksVerif.Model.Ntt
open GoldilocksVerif.Par

/-- the rows of batch `b` -/
def batchRows (B b : Nat) : Nat → Prop := fun r => b * B ≤ r ∧ r < (b + 1) * B

/-- the rows the copy of batch `b` writes: `σ (x·nB + b)`, `x < B` -/
def copyRows (σ : Nat → Nat) (B nB b : Nat) : Nat → Prop := fun r => ∃ x, x < B ∧ r = σ (x * nB + b)

/-! ### butterflies -/

theorem bflyStep_local (w : W) (o1 o2 k : Nat) : Local (bflyStep w o1 o2 k) (fun j => j = o1 + k ∨ j = o2 + k) where
  size := fun a => bflyStep_size w o1 o2 k a
  frame := by
    intro a j hj
    unfold bflyStep
    simp only
    rw [getD_set_ne _ _ _ _ (fun e => hj (Or.inl e)), getD_set_ne _ _ _ _ (fun e => hj (Or.inr e))]
  dep := by
    intro a a' hs hag j hj
    have e1 := hag (o1 + k) (Or.inl rfl)
    have e2 := hag (o2 + k) (Or.inr rfl)
    unfold bflyStep
    simp only
    rw [getD_set, getD_set, getD_set, getD_set, Array.size_setIfInBounds, Array.size_setIfInBounds, e1, e2, hs,
      hag j hj]

theorem bfly_local (w : W) (nc r1 r2 : Nat) :
    Local (fun a => bfly a w (r1 * nc) (r2 * nc) nc) (rowsW nc (fun r => r = r1 ∨ r = r2)) := by
  unfold bfly
  apply Local.iter
  intro k hk
  apply (bflyStep_local w (r1 * nc) (r2 * nc) k).mono
  rintro j (h | h)
  · exact ⟨r1, Or.inl rfl, by omega, by omega⟩
  · exact ⟨r2, Or.inr rfl, by omega, by omega⟩

theorem rowsW_mono (nc : Nat) {P Q : Nat → Prop} (h : ∀ r, P r → Q r) (j : Nat) (hj : rowsW nc P j) : rowsW nc Q j := by
  obtain ⟨r, hr, h1, h2⟩ := hj
  exact ⟨r, h r hr, h1, h2⟩

/-- butterfly `i` of stage `si` of batch `b` stays inside the rows of the batch -/
theorem stageStep_local (o : Obj) (s si b B nc rs re rb i : Nat) (hin : loR (2 ^ si) i + 2 ^ si < B) :
    Local (stageStep o s si b B nc rs re rb i) (rowsW nc (batchRows B b)) := by
  have e : stageStep o s si b B nc rs re rb i
      = fun a => bfly a (root o (s + si) (twIdx s si b B rs re rb i)) ((b * B + loR (2 ^ si) i + 2 ^ si) * nc)
          ((b * B + loR (2 ^ si) i) * nc) nc := by
    funext a; exact stageStep_eq o s si b B nc rs re rb i a
  rw [e]
  apply (bfly_local _ nc _ _).mono
  apply rowsW_mono
  have hbB : (b + 1) * B = b * B + B := by rw [Nat.add_mul, Nat.one_mul]
  intro r hr
  unfold batchRows
  clear e
  generalize loR (2 ^ si) i = L at hin hr
  generalize 2 ^ si = U at hin hr
  rcases hr with hr | hr <;> omega

theorem stage_local (o : Obj) (s si b B nc rs re rb rm M : Nat) (hB : B = M * (2 ^ si * 2)) :
    Local (fun a => stage o a s si b B nc rs re rb rm) (rowsW nc (batchRows B b)) := by
  have hU0 : 0 < 2 ^ si := Nat.two_pow_pos si
  have hhalf : B / 2 = M * 2 ^ si := by rw [hB, ← Nat.mul_assoc]; exact Nat.mul_div_cancel _ (by omega)
  unfold stage
  simp only
  apply Local.iter
  intro i hi
  apply stageStep_local
  rw [hB]
  exact hiR_lt (2 ^ si) M i hU0 (by omega)

/-- all the stages of one pass on batch `b` (batch size `2^sInc`): only the rows of the batch, from the rows of the batch -/
theorem batchStages_local (o : Obj) (s sInc b nc rs re rb rm : Nat) :
    Local (fun a => batchStages o a s sInc b (2 ^ sInc) nc rs re rb rm) (rowsW nc (batchRows (2 ^ sInc) b)) := by
  unfold batchStages
  apply Local.iter
  intro si hsi
  apply stage_local o s si b (2 ^ sInc) nc rs re rb rm (2 ^ (sInc - 1 - si))
  have h1 : 2 ^ sInc = 2 ^ (sInc - 1 - si) * 2 ^ (si + 1) := by
    rw [← Nat.pow_add]; congr 1; omega
  rw [h1, Nat.pow_succ]

/-! ### the copies into the other buffer -/

theorem rowsW_one (nc r0 j : Nat) : rowsW nc (fun r => r = r0) j ↔ (r0 * nc ≤ j ∧ j < r0 * nc + nc) := by
  constructor
  · rintro ⟨r, rfl, h1, h2⟩; exact ⟨h1, h2⟩
  · intro h; exact ⟨r0, rfl, h.1, h.2⟩

/-- `memcpy` of one row: row `s0` of the source to row `r0` of the destination -/
theorem copyRow_rows (nc r0 s0 : Nat) :
    Writer (fun s d => copyRow d (r0 * nc) s (s0 * nc) nc) (rowsW nc (fun r => r = s0)) (rowsW nc (fun r => r = r0)) := by
  have h := copyRow_writer (r0 * nc) (s0 * nc) nc
  exact (h.monoR (fun j hj => (rowsW_one nc s0 j).2 hj)).congrW (rowsW_one nc r0)

theorem scaleRow_rows (nc r0 s0 : Nat) (fac : W) :
    Writer (fun s d => scaleRow d s (r0 * nc) (s0 * nc) nc fac) (rowsW nc (fun r => r = s0)) (rowsW nc (fun r => r = r0)) := by
  have h := scaleRow_writer (r0 * nc) (s0 * nc) nc fac
  exact (h.monoR (fun j hj => (rowsW_one nc s0 j).2 hj)).congrW (rowsW_one nc r0)

theorem rowsW_union (nc n : Nat) (ρ : Nat → Nat) (j : Nat) :
    rowsW nc (fun r => ∃ x, x < n ∧ r = ρ x) j ↔ ∃ x, x < n ∧ rowsW nc (fun r => r = ρ x) j := by
  constructor
  · rintro ⟨r, ⟨x, hx, rfl⟩, h1, h2⟩; exact ⟨x, hx, _, rfl, h1, h2⟩
  · rintro ⟨x, hx, r, rfl, h1, h2⟩; exact ⟨_, ⟨x, hx, rfl⟩, h1, h2⟩

/-- the transposing copy of batch `b` reads the rows of the batch and writes the rows `x·nB + b`, `x < B` -/
theorem transposeCopy_writer (b B nB nc : Nat) :
    Writer (fun a a2 => transposeCopy a2 a b B nB nc) (rowsW nc (batchRows B b)) (rowsW nc (copyRows (fun q => q) B nB b)) := by
  unfold transposeCopy
  have h := Writer.iter (Rd := rowsW nc (batchRows B b)) B
    (fun x s d => copyRow d ((x * nB + b) * nc) s ((b * B + x) * nc) nc)
    (fun x => rowsW nc (fun r => r = x * nB + b))
    (by
      intro x hx
      apply (copyRow_rows nc (x * nB + b) (b * B + x)).monoR
      apply rowsW_mono
      intro r hr
      have hbB : (b + 1) * B = b * B + B := by rw [Nat.add_mul, Nat.one_mul]
      unfold batchRows; omega)
  exact h.congrW (rowsW_union nc B (fun x => x * nB + b))

/-- the reflecting, scaling copy of the last inverse pass: rows `inttIdx (x·nB + b) size`, `x < B` -/
theorem inverseCopy_writer (o : Obj) (b B nB nc size dp : Nat) (extend : Bool) :
    Writer (fun a a2 => inverseCopy o a2 a b B nB nc size dp extend) (rowsW nc (batchRows B b))
      (rowsW nc (copyRows (fun q => inttIdx q size) B nB b)) := by
  unfold inverseCopy
  have h := Writer.iter (Rd := rowsW nc (batchRows B b)) B
    (fun x s d => scaleRow d s (inttIdx (x * nB + b) size * nc) ((b * B + x) * nc) nc
      (scaleFactor o extend dp (inttIdx (x * nB + b) size)))
    (fun x => rowsW nc (fun r => r = inttIdx (x * nB + b) size))
    (by
      intro x hx
      apply (scaleRow_rows nc (inttIdx (x * nB + b) size) (b * B + x) _).monoR
      apply rowsW_mono
      intro r hr
      have hbB : (b + 1) * B = b * B + B := by rw [Nat.add_mul, Nat.one_mul]
      unfold batchRows; omega)
  exact h.congrW (rowsW_union nc B (fun x => inttIdx (x * nB + b) size))

/-! ### the body of the batch loop -/

/-- the row map of the copy of a pass: identity (transposing copy) or `inttIdx` (last pass of an inverse transform) -/
def passSigma (size : Nat) (lastInv : Bool) : Nat → Nat := fun q => if lastInv then inttIdx q size else q

/-- the in-place part of `passBatch`: the stages on batch `b` -/
def batchF (o : Obj) (domainPow ncols s sInc b : Nat) : Buf → Buf := fun a =>
  batchStages o a s sInc b (2 ^ sInc) ncols (s - 1) (domainPow - 1) (2 ^ (s - 1)) (2 ^ (domainPow - 1 - (s - 1)) - 1)

/-- the copy part of `passBatch`: from the first buffer into the second -/
def batchG (o : Obj) (size domainPow ncols sInc : Nat) (lastInv extend : Bool) (b : Nat) : Buf → Buf → Buf := fun a a2 =>
  if lastInv then inverseCopy o a2 a b (2 ^ sInc) (size / 2 ^ sInc) ncols size domainPow extend
  else transposeCopy a2 a b (2 ^ sInc) (size / 2 ^ sInc) ncols

theorem passBatch_split (o : Obj) (size domainPow ncols s sInc : Nat) (lastInv extend : Bool) (b : Nat) (st : Buf × Buf) :
    passBatch o size domainPow ncols s sInc lastInv extend b st
      = (batchF o domainPow ncols s sInc b st.1,
         batchG o size domainPow ncols sInc lastInv extend b (batchF o domainPow ncols s sInc b st.1) st.2) := by
  unfold passBatch batchF batchG
  cases lastInv <;> rfl

theorem batchF_local (o : Obj) (domainPow ncols s sInc b : Nat) :
    Local (batchF o domainPow ncols s sInc b) (rowsW ncols (batchRows (2 ^ sInc) b)) :=
  batchStages_local o s sInc b ncols _ _ _ _

theorem batchG_writer (o : Obj) (size domainPow ncols sInc : Nat) (lastInv extend : Bool) (b : Nat) :
    Writer (batchG o size domainPow ncols sInc lastInv extend b) (rowsW ncols (batchRows (2 ^ sInc) b))
      (rowsW ncols (copyRows (passSigma size lastInv) (2 ^ sInc) (size / 2 ^ sInc) b)) := by
  unfold batchG
  cases lastInv with
  | true => exact inverseCopy_writer o b (2 ^ sInc) (size / 2 ^ sInc) ncols size domainPow extend
  | false => exact transposeCopy_writer b (2 ^ sInc) (size / 2 ^ sInc) ncols

/-- `passBatch … b` as an iteration with footprints on the state `(a, a2)`:
    reads  the rows `[b·B, (b+1)·B)` of `a`  (B = 2^sInc);
    writes the rows `[b·B, (b+1)·B)` of `a` and the rows `σ (x·nB + b)`, `x < B`, of `a2`  (nB = size / B). -/
def batchIter (o : Obj) (size domainPow ncols s sInc : Nat) (lastInv extend : Bool) (b : Nat) : PIter view2 :=
  (PIter.ofLocalWriter (batchF o domainPow ncols s sInc b) (batchG o size domainPow ncols sInc lastInv extend b)
    (rowsW ncols (batchRows (2 ^ sInc) b))
    (rowsW ncols (copyRows (passSigma size lastInv) (2 ^ sInc) (size / 2 ^ sInc) b))
    (batchF_local o domainPow ncols s sInc b) (batchG_writer o size domainPow ncols sInc lastInv extend b)).reFoot
    (wordsOf ncols (fun l => l.1 = 0 ∧ batchRows (2 ^ sInc) b l.2))
    (wordsOf ncols (fun l => (l.1 = 0 ∧ batchRows (2 ^ sInc) b l.2)
      ∨ (l.1 = 1 ∧ copyRows (passSigma size lastInv) (2 ^ sInc) (size / 2 ^ sInc) b l.2)))
    (by
      rintro ⟨buf, j⟩
      constructor
      · rintro ⟨r, ⟨h0, hr⟩, h1, h2⟩; exact ⟨h0, r, hr, h1, h2⟩
      · rintro ⟨h0, r, hr, h1, h2⟩; exact ⟨r, ⟨h0, hr⟩, h1, h2⟩)
    (by
      rintro ⟨buf, j⟩
      constructor
      · rintro ⟨r, (⟨h0, hr⟩ | ⟨h0, hr⟩), h1, h2⟩
        · exact Or.inl ⟨h0, r, hr, h1, h2⟩
        · exact Or.inr ⟨h0, r, hr, h1, h2⟩
      · rintro (⟨h0, r, hr, h1, h2⟩ | ⟨h0, r, hr, h1, h2⟩)
        · exact ⟨r, Or.inl ⟨h0, hr⟩, h1, h2⟩
        · exact ⟨r, Or.inr ⟨h0, hr⟩, h1, h2⟩)

theorem batchIter_R (o : Obj) (size domainPow ncols s sInc : Nat) (lastInv extend : Bool) (b : Nat) :
    (batchIter o size domainPow ncols s sInc lastInv extend b).R
      = wordsOf ncols (fun l => l.1 = 0 ∧ batchRows (2 ^ sInc) b l.2) := rfl

theorem batchIter_W (o : Obj) (size domainPow ncols s sInc : Nat) (lastInv extend : Bool) (b : Nat) :
    (batchIter o size domainPow ncols s sInc lastInv extend b).W
      = wordsOf ncols (fun l => (l.1 = 0 ∧ batchRows (2 ^ sInc) b l.2)
          ∨ (l.1 = 1 ∧ copyRows (passSigma size lastInv) (2 ^ sInc) (size / 2 ^ sInc) b l.2)) := rfl

/-- the iteration IS the loop body of the model -/
theorem batchIter_run (o : Obj) (size domainPow ncols s sInc : Nat) (lastInv extend : Bool) (b : Nat) (st : Buf × Buf) :
    (batchIter o size domainPow ncols s sInc lastInv extend b).run st
      = passBatch o size domainPow ncols s sInc lastInv extend b st := by
  rw [passBatch_split]; rfl

end GoldilocksVerif.Model.Ntt
