/-
  Order independence for the GENERATED `Goldilocks::parSetZero` (Gen/ParZeroGen.lean, heap mode; goldilocks_base_field.cpp:93),
  per-iteration part — the sibling of Lemmas/ParGenCopy.lean.  The translator renders
  `#pragma omp parallel for  for (i = 0; i < size; i += components_thread)` as a fuel-bounded `Loop.whileM` whose state is
  `(heap, i)`: the lifted body `parSetZero_loop1` tests `i < size`, zeroes the chunk that starts at `i` and steps `i`.
  * `zChunkBody … i hp` : that SAME lifted body run for the chunk starting at `i` (the heap it leaves);
  * `zchunk_rep`        : on the representation `hp.setBlock D`, it is `zeroChunk` = `memset` of `ParCopy.len` words at `i`
                          (the hand model's chunk, Model/ParCopy.lean), for every start of `ParCopy.starts`;
  * `parSetZero_seq`    : the generated function is the fold of `zeroChunk` over `ParCopy.starts` (so the chunk starts the
                          generated loop visits ARE the hand model's list).
  The lifted body is read through `BridgeNtt.parSetZero_step` (semantic: independent of how the source spells the chunk length).
  Helper of Props/C12.lean.
-/
import GoldilocksVerif.Lemmas.ParGenCopy
import GoldilocksVerif.Lemmas.BridgeParcpyZero

namespace GoldilocksVerif.ParGen
open GoldilocksVerif Gen.ParZeroGen GoldilocksVerif.BridgeNtt GoldilocksVerif.ParCopy

/-- the lifted body of the chunk loop, run for the chunk that starts at `i`: the heap it leaves -/
def zChunkBody (dst : Ptr) (size ct : BitVec 64) (i : Nat) (hp : Heap) : Option Heap :=
  (parSetZero_loop1 dst size ct (hp, BitVec.ofNat 64 i)).map (fun r => r.2.1)

theorem parSetZero_unfold (fuel : Nat) (hp : Heap) (dst : Ptr) (size : BitVec 64) (nt : Int) :
    parSetZero fuel hp dst size nt =
      (Loop.whileM (parSetZero_loop1 dst size (genChunk size nt)) fuel (hp, 0#64)).bind (fun st => some st.1) := by
  rw [parSetZero_top, genChunk_eq]

/-- the hand model's chunk on block contents: `memset(&dst[i], 0, len)` (the first argument, the "source" of a `Par.Writer`, is
    not used) -/
def zeroChunk (size : Nat) (nt : Int) (i : Nat) (_s d : Block) : Block :=
  Model.Ntt.zeroRow d i (len size nt i)

/-- one chunk of the generated loop, from any heap: the `memset`, and the next start -/
theorem zchunk_step (X : Heap) (D : Nat) (size ct : BitVec 64) (i : Nat) (hi : i < size.toNat)
    (hs8 : size.toNat * 8 < 2 ^ 64) (hc : ct.toNat ≤ size.toNat) :
    parSetZero_loop1 ⟨D, 0⟩ size ct (X, BitVec.ofNat 64 i) =
      some (true, (X.setBlock D (Model.Ntt.zeroRow (X.block D) i
        (if size.toNat - i < ct.toNat then size.toNat - i else ct.toNat)), BitVec.ofNat 64 (i + ct.toNat))) := by
  have e0 : (BitVec.ofNat 64 i).toNat = i := ofNat_toNat_lt i (by omega)
  have hlt : BitVec.ofNat 64 i < size := by rw [BitVec.lt_def, e0]; exact hi
  have enext : BitVec.ofNat 64 i + ct = BitVec.ofNat 64 (i + ct.toNat) := by
    apply BitVec.eq_of_toNat_eq
    rw [BitVec.toNat_add, BitVec.toNat_ofNat, BitVec.toNat_ofNat]
    omega
  have hmin : min (size.toNat - i) ct.toNat = (if size.toNat - i < ct.toNat then size.toNat - i else ct.toNat) := by
    split <;> omega
  rw [parSetZero_step _ _ _ _ _ hs8 hc, if_pos hlt, enext, e0, hmin]
  simp only [Heap.zero_eq, Ptr.add_blk, Ptr.add_off, Nat.zero_add, zeroRow_eq]

/-- the test of the generated loop fails from `size` on -/
theorem zchunk_exit (X : Heap) (dst : Ptr) (size ct : BitVec 64) (i : Nat) (hi : size.toNat ≤ i) (hi64 : i < 2 ^ 64)
    (hs8 : size.toNat * 8 < 2 ^ 64) (hc : ct.toNat ≤ size.toNat) :
    parSetZero_loop1 dst size ct (X, BitVec.ofNat 64 i) = some (false, (X, BitVec.ofNat 64 i)) := by
  have e0 : (BitVec.ofNat 64 i).toNat = i := ofNat_toNat_lt i hi64
  have hlt : ¬ (BitVec.ofNat 64 i < size) := by rw [BitVec.lt_def, e0]; omega
  rw [parSetZero_step _ _ _ _ _ hs8 hc, if_neg hlt]

section seq
variable (hp : Heap) (D : Nat) (hD : D < hp.size) (size : BitVec 64) (nt : Int)
variable (hnt : nt < 2 ^ 31) (hs8 : size.toNat * 8 < 2 ^ 64)

include hD hnt hs8 in
/-- **per-iteration bridge**: for every chunk start of the hand model's list, the generated body on the representation
    `hp.setBlock D` is the hand model's chunk -/
theorem zchunk_rep (s : Block) : ∀ i, i ∈ starts size.toNat nt → ∀ B : Block,
    zChunkBody ⟨D, 0⟩ size (genChunk size nt) i (hp.setBlock D B) =
      some (hp.setBlock D (zeroChunk size.toNat nt i s B)) := by
  intro i hi B
  obtain ⟨_, _, _, hlt⟩ := (mem_starts size.toNat nt i).mp hi
  have hct := genChunk_toNat size nt hnt (by omega)
  have hcl := chunk_le size.toNat nt
  unfold zChunkBody
  rw [zchunk_step _ D size _ i hlt hs8 (by rw [hct]; omega), hct]
  simp only [Option.map_some]
  rw [Heap.block_setBlock_same _ _ _ hD, Heap.setBlock_setBlock]
  rfl

include hD hs8 in
theorem parSetZero_loop_seq (s : Block) (ct : BitVec 64) (hct : ct.toNat = chunk size.toNat nt) : ∀ (f fuel i : Nat) (B : Block),
    size.toNat ≤ i + f * ct.toNat → i ≤ size.toNat + ct.toNat → (startsAux size.toNat ct.toNat f i).length < fuel →
    ∃ i', Loop.whileM (parSetZero_loop1 ⟨D, 0⟩ size ct) fuel (hp.setBlock D B, BitVec.ofNat 64 i) =
      some (hp.setBlock D ((startsAux size.toNat ct.toNat f i).foldl
        (fun B i => zeroChunk size.toNat nt i s B) B), i') := by
  have hcl := chunk_le size.toNat nt
  intro f
  induction f with
  | zero =>
    intro fuel i B h1 h2 hfu
    obtain ⟨fuel', rfl⟩ : ∃ g, fuel = g + 1 := ⟨fuel - 1, by simp [startsAux] at hfu; omega⟩
    refine ⟨BitVec.ofNat 64 i, ?_⟩
    rw [Loop.whileM_stop _ _ _ (hp.setBlock D B, BitVec.ofNat 64 i)]
    · rfl
    · exact zchunk_exit _ _ size ct i (by omega) (by omega) hs8 (by rw [hct]; omega)
  | succ f ih =>
    intro fuel i B h1 h2 hfu
    by_cases hi : i < size.toNat
    · have hst : startsAux size.toNat ct.toNat (f + 1) i = i :: startsAux size.toNat ct.toNat f (i + ct.toNat) := by
        rw [startsAux, if_pos hi]
      rw [hst] at hfu ⊢
      obtain ⟨fuel', rfl⟩ : ∃ g, fuel = g + 1 := ⟨fuel - 1, by simp at hfu; omega⟩
      rw [Loop.whileM_next _ _ _ _ (zchunk_step _ D size ct i hi hs8 (by rw [hct]; omega))]
      rw [Heap.block_setBlock_same _ _ _ hD, Heap.setBlock_setBlock, List.foldl_cons]
      have hm : (f + 1) * ct.toNat = f * ct.toNat + ct.toNat := Nat.succ_mul _ _
      obtain ⟨i', hw⟩ := ih fuel' (i + ct.toNat) _ (by omega) (by omega) (by simp at hfu; omega)
      refine ⟨i', ?_⟩
      rw [hw]
      unfold zeroChunk len
      rw [hct]
    · have hst : startsAux size.toNat ct.toNat (f + 1) i = [] := by rw [startsAux, if_neg hi]
      rw [hst] at hfu ⊢
      obtain ⟨fuel', rfl⟩ : ∃ g, fuel = g + 1 := ⟨fuel - 1, by simp at hfu; omega⟩
      refine ⟨BitVec.ofNat 64 i, ?_⟩
      rw [Loop.whileM_stop _ _ _ (hp.setBlock D B, BitVec.ofNat 64 i)]
      · rfl
      · exact zchunk_exit _ _ size ct i (by omega) (by omega) hs8 (by rw [hct]; omega)

include hD hnt hs8 in
/-- **the generated `parSetZero`** is the fold of the hand model's chunk over the hand model's chunk starts -/
theorem parSetZero_seq (s : Block) (fuel : Nat) (hfuel : (starts size.toNat nt).length < fuel) :
    parSetZero fuel hp ⟨D, 0⟩ size nt =
      some (hp.setBlock D ((starts size.toNat nt).foldl (fun B i => zeroChunk size.toNat nt i s B) (hp.block D))) := by
  have hct := genChunk_toNat size nt hnt (by omega)
  have hcl := chunk_le size.toNat nt
  rw [parSetZero_unfold]
  have h0 : (0#64 : BitVec 64) = BitVec.ofNat 64 0 := rfl
  have hinit : size.toNat ≤ 0 + size.toNat * (genChunk size nt).toNat := by
    rw [hct, Nat.zero_add]
    by_cases hz : size.toNat = 0
    · omega
    · exact Nat.le_mul_of_pos_right _ (chunk_pos _ _ (by omega))
  obtain ⟨i', hw⟩ := parSetZero_loop_seq hp D hD size nt hs8 s (genChunk size nt) hct size.toNat fuel 0 (hp.block D)
    hinit (by omega) (by rw [hct]; exact hfuel)
  rw [Heap.setBlock_block, ← h0] at hw
  rw [hw, hct]
  rfl

end seq

/-- the hand model's chunk is a writer: reads nothing, writes `[i, i+len)` of the destination -/
theorem zeroChunk_writer (size : Nat) (nt : Int) (i : Nat) :
    Par.Writer (zeroChunk size nt i) (fun _ => False) (fun j => i ≤ j ∧ j < i + len size nt i) :=
  Par.zeroRow_writer _ i (len size nt i)

end GoldilocksVerif.ParGen
