/-
  Allocation balance of the GENERATED NTT model, part 2: the functions that allocate or release blocks the object
  keeps — constructor, `computeR`, destructor, `extendPol` — and whole histories  constructor → calls → destructor.

  `Fr base O hp`: the heap `hp` has the extents `base` outside the set `O` of block numbers, and every block number in `O`
  is dead in `base` (extent 0: never allocated, or released).  Read: "`hp` is `base` plus blocks allocated since, all of
  them listed in `O`; nothing that `base` had was released".  `Heap.alloc` adds the new block number to `O`, `Heap.free`
  of a block in `O` removes it, the shape-preserving functions of part 1 keep `Fr`.

  `Tables self` / `Cache self` / `Owned self`: the block numbers the object state `self` holds pointers to and releases
  in its destructor (`roots`, `powTwoInv` when `s != 0`;  `r`, `r_` when not NULL).
-/
import GoldilocksVerif.Lemmas.HeapSafeBal

namespace GoldilocksVerif.HeapSafe
open GoldilocksVerif Gen.NttGen

structure Fr (base : Nat → Nat) (O : Nat → Prop) (hp : Heap) : Prop where
  pos : 0 < hp.size
  dead : ∀ b, O b → base b = 0
  frame : ∀ b, ¬ O b → hp.ext b = base b

namespace Fr
variable {base : Nat → Nat} {O : Nat → Prop} {hp : Heap}

theorem refl (hp : Heap) (hs : 0 < hp.size) : Fr hp.ext (fun _ => False) hp :=
  ⟨hs, fun _ h => h.elim, fun _ _ => rfl⟩

theorem same (h : Fr base O hp) {hp' : Heap} (hs : Heap.Same hp hp') : Fr base O hp' :=
  ⟨hs.size_pos h.pos, h.dead, fun b hb => (hs.2 b).trans (h.frame b hb)⟩

theorem mono (h : Fr base O hp) {O' : Nat → Prop} (hd : ∀ b, O' b → base b = 0) (hsub : ∀ b, O b → O' b) : Fr base O' hp :=
  ⟨h.pos, hd, fun b hb => h.frame b (fun x => hb (hsub b x))⟩

theorem iff (h : Fr base O hp) {O' : Nat → Prop} (hi : ∀ b, O' b ↔ O b) : Fr base O' hp :=
  h.mono (fun b hb => h.dead b ((hi b).1 hb)) (fun b hb => (hi b).2 hb)

theorem alloc (h : Fr base O hp) (n : Nat) : Fr base (fun b => O b ∨ b = hp.size) (hp.alloc n).1 := by
  refine ⟨by rw [Heap.size_alloc]; exact Nat.succ_pos _, ?_, ?_⟩
  · intro b hb
    rcases hb with hb | hb
    · exact h.dead b hb
    · by_cases ho : O b
      · exact h.dead b ho
      · rw [← h.frame b ho, hb]; exact Heap.ext_ge_size hp _ (Nat.le_refl _)
  · intro b hb
    rw [Heap.ext_alloc, if_neg (fun e => hb (Or.inr e))]
    exact h.frame b (fun x => hb (Or.inl x))

/-- releasing a block that `base` does not have (NULL: nothing happens) -/
theorem free (h : Fr base O hp) (p : Ptr) (hdead : p.blk ≠ 0 → base p.blk = 0) :
    Fr base (fun b => O b ∧ ¬ (b = p.blk ∧ p.blk ≠ 0)) (hp.free p) := by
  refine ⟨?_, fun b hb => h.dead b hb.1, ?_⟩
  · rw [Heap.size_free]
    have := h.pos
    split
    · rename_i hc; omega
    · exact this
  · intro b hb
    rw [Heap.ext_free]
    by_cases hc : b = p.blk ∧ p.blk ≠ 0
    · rw [if_pos hc, hc.1]
      exact (hdead hc.2).symm
    · rw [if_neg hc]
      exact h.frame b (fun x => hb ⟨x, hc⟩)

theorem free_if (h : Fr base O hp) (c : Prop) [Decidable c] (p : Ptr) (hdead : c → p.blk ≠ 0 → base p.blk = 0) :
    Fr base (fun b => O b ∧ ¬ (c ∧ b = p.blk ∧ b ≠ 0)) (if c then hp.free p else hp) := by
  by_cases hc : c
  · rw [if_pos hc]
    refine (h.free p (hdead hc)).mono (fun b hb => h.dead b hb.1) ?_
    intro b hb
    exact ⟨hb.1, fun x => hb.2 ⟨x.2.1, x.2.1 ▸ x.2.2⟩⟩
  · rw [if_neg hc]
    exact h.mono (fun b hb => h.dead b hb.1) (fun b hb => ⟨hb, fun x => hc x.1⟩)

/-- everything is back: no block number is outstanding, every extent is the one of `base` -/
theorem done (h : Fr base (fun _ => False) hp) : ∀ b, hp.ext b = base b := fun b => h.frame b (fun x => x)

end Fr

/-- `roots` and `powTwoInv` (the destructor releases them when `s != 0`) -/
def Tables (self : NTT_Goldilocks) (b : Nat) : Prop :=
  b ≠ 0 ∧ self.s ≠ 0#32 ∧ (b = self.roots.blk ∨ b = self.powTwoInv.blk)

/-- `r` and `r_` (released when not NULL, by the destructor and by a cache refresh of `extendPol`) -/
def Cache (self : NTT_Goldilocks) (b : Nat) : Prop :=
  b ≠ 0 ∧ ((self.r ≠ Ptr.null ∧ b = self.r.blk) ∨ (self.r_ ≠ Ptr.null ∧ b = self.r_.blk))

def Owned (self : NTT_Goldilocks) (b : Nat) : Prop := Tables self b ∨ Cache self b

theorem bne_true {α : Type} [BEq α] [LawfulBEq α] (a b : α) : ((a != b) = true) ↔ a ≠ b := by
  simp

/-! ### destructor: releases exactly the blocks the object owns -/
theorem dtor_own {base : Nat → Nat} {O : Nat → Prop} {hp : Heap} (self : NTT_Goldilocks) (h : Fr base O hp)
    (hown : ∀ b, Owned self b → base b = 0) : Fr base (fun b => O b ∧ ¬ Owned self b) (NTT_dtor hp self) := by
  unfold NTT_dtor
  -- the three conditional releases, one after the other
  have h1 : Fr base (fun b => O b ∧ ¬ Tables self b)
      (if (self.s != 0#32) = true then (hp.free self.roots).free self.powTwoInv else hp) := by
    by_cases hs : (self.s != 0#32) = true
    · rw [if_pos hs]
      have hs' : self.s ≠ 0#32 := (bne_true _ _).1 hs
      have a := h.free self.roots (fun h0 => hown _ (Or.inl ⟨h0, hs', Or.inl rfl⟩))
      have b := a.free self.powTwoInv (fun h0 => hown _ (Or.inl ⟨h0, hs', Or.inr rfl⟩))
      refine b.mono (fun b hb => h.dead b hb.1) ?_
      intro b hb
      refine ⟨hb.1.1, fun ht => ?_⟩
      rcases ht.2.2 with e | e
      · exact hb.1.2 ⟨e, e ▸ ht.1⟩
      · exact hb.2 ⟨e, e ▸ ht.1⟩
    · rw [if_neg hs]
      have hs' : self.s = 0#32 := by
        by_cases e : self.s = 0#32
        · exact e
        · exact absurd ((bne_true _ _).2 e) hs
      exact h.mono (fun b hb => h.dead b hb.1) (fun b hb => ⟨hb, fun ht => ht.2.1 hs'⟩)
  have h2 := h1.free_if ((self.r != Ptr.null) = true) self.r
    (fun hc h0 => hown _ (Or.inr ⟨h0, Or.inl ⟨(bne_true _ _).1 hc, rfl⟩⟩))
  have h3 := h2.free_if ((self.r_ != Ptr.null) = true) self.r_
    (fun hc h0 => hown _ (Or.inr ⟨h0, Or.inr ⟨(bne_true _ _).1 hc, rfl⟩⟩))
  refine Fr.mono h3 (fun b hb => h.dead b hb.1) ?_
  intro b hb
  refine ⟨hb.1.1.1, fun ho => ?_⟩
  rcases ho with ht | hc
  · exact hb.1.1.2 ht
  · rcases hc.2 with e | e
    · exact hb.1.2 ⟨(bne_true _ _).2 e.1, e.2, hc.1⟩
    · exact hb.2 ⟨(bne_true _ _).2 e.1, e.2, hc.1⟩

/-! ### computeR -/

/-- `computeR`: two new blocks of N words, stored in `r`, `r_`; nothing else changes shape -/
def ComputeRPost (hp : Heap) (self : NTT_Goldilocks) (N : Int) (r : Heap × NTT_Goldilocks) : Prop :=
  r.2 = { self with r := (hp.alloc (I32.toU64 N).toNat).2,
                    r_ := ((hp.alloc (I32.toU64 N).toNat).1.alloc (I32.toU64 N).toNat).2, r_N := I32.toU64 N } ∧
  Heap.Same ((hp.alloc (I32.toU64 N).toNat).1.alloc (I32.toU64 N).toNat).1 r.1

theorem computeR_shape (fuel : Nat) (hp : Heap) (self : NTT_Goldilocks) (N : Int) :
    OInv (ComputeRPost hp self N) (NTT_computeR fuel hp self N) := by
  unfold NTT_computeR
  repeat heap_step
  oinv_bind_same ((hp.alloc (I32.toU64 N).toNat).1.alloc (I32.toU64 N).toNat).1
  · repeat heap_step
  · heap_step
    heap_step
    exact ⟨rfl, by assumption⟩

/-! ### constructor -/

theorem bv32_succ_ne_zero (s d : BitVec 32) (h : s < d) : s + 1#32 ≠ 0#32 := by
  intro e
  have h1 : s.toNat < d.toNat := BitVec.lt_def.mp h
  have h2 := d.isLt
  have h3 := congrArg BitVec.toNat e
  rw [BitVec.toNat_add] at h3
  simp at h3
  omega

/-- what the second `while` of the constructor (counting `s`) keeps: `s != 0`, the cache pointers stay NULL -/
def CtorInv (self : NTT_Goldilocks) : Prop := self.s ≠ 0#32 ∧ self.r = Ptr.null ∧ self.r_ = Ptr.null

theorem ctor_loop2_inv (dp : BitVec 32) (st : Nat × NTT_Goldilocks) (h : CtorInv st.2) :
    OInv (fun bs => CtorInv bs.2.2) (NTT_ctor_loop2 dp st) := by
  unfold NTT_ctor_loop2
  heap_steps
  · rename_i a hc b
    rw [Bool.and_eq_true] at hc
    exact ⟨bv32_succ_ne_zero _ _ (of_decide_eq_true hc.2), h.2.1, h.2.2⟩
  · exact h

/-- the constructor: either `maxDomainSize == 0` (nothing allocated, `s` untouched) or two new blocks stored in `roots`,
    `powTwoInv`, `s != 0`; in both cases the cache pointers are NULL -/
def CtorPost (hp : Heap) (self : NTT_Goldilocks) (m : BitVec 64) (r : Heap × NTT_Goldilocks) : Prop :=
  (m = 0#64 ∧ r.1 = hp ∧ r.2.s = self.s ∧ r.2.r = Ptr.null ∧ r.2.r_ = Ptr.null) ∨
  (m ≠ 0#64 ∧ CtorInv r.2 ∧ ∃ n1 n2, r.2.roots = (hp.alloc n1).2 ∧ r.2.powTwoInv = ((hp.alloc n1).1.alloc n2).2 ∧
    Heap.Same ((hp.alloc n1).1.alloc n2).1 r.1)

theorem ctor_shape (fuel : Nat) (hp : Heap) (self : NTT_Goldilocks) (m : BitVec 64) (thr : BitVec 32) (e : Int) :
    OInv (CtorPost hp self m) (NTT_ctor fuel hp self m thr e) := by
  unfold NTT_ctor
  heap_steps
  · exact Or.inl ⟨by simpa using ‹(m == 0#64) = true›, rfl, rfl, rfl, rfl⟩
  · oinv_bind (fun (y : Nat × NTT_Goldilocks) => CtorInv y.2)
    · heap_step
      · exact ⟨by show (1#32 : BitVec 32) ≠ 0#32; decide, rfl, rfl⟩
      · intro s hs; exact ctor_loop2_inv _ s hs
    · heap_steps
      rename_i st4 hst4 maux hlt nRoots
      oinv_bind_same ((hp.alloc ((nRoots * 8#64).toNat / 8)).1.alloc ((BitVec.setWidth 64 (st4.2.s + 1#32) * 8#64).toNat / 8)).1
      · heap_steps
      · heap_steps
        oinv_bind (fun (y : Heap × BitVec 64) => Heap.Same ((hp.alloc ((nRoots * 8#64).toNat / 8)).1.alloc ((BitVec.setWidth 64 (st4.2.s + 1#32) * 8#64).toNat / 8)).1 y.1)
        · heap_step
          · assumption
          · -- the body of the `powTwoInv` loop, whatever its parameter list
            intro s hs
            unfold_loops
            repeat heap_step
        · heap_steps
          refine Or.inr ⟨?_, hst4, _, _, rfl, rfl, by assumption⟩
          intro e0; subst e0; exact absurd rfl ‹¬(0#64 == 0#64) = true›

theorem Fr.ctor {base : Nat → Nat} {O : Nat → Prop} {hp : Heap} (h : Fr base O hp) {self : NTT_Goldilocks} {m : BitVec 64}
    {r : Heap × NTT_Goldilocks} (hs : self.s = 0#32) (hpost : CtorPost hp self m r) :
    Fr base (fun b => O b ∨ Tables r.2 b) r.1 ∧ r.2.r = Ptr.null ∧ r.2.r_ = Ptr.null := by
  rcases hpost with ⟨_, e1, e2, e3, e4⟩ | ⟨_, hinv, n1, n2, e1, e2, hsame⟩
  · refine ⟨?_, e3, e4⟩
    rw [e1]
    refine h.iff (fun b => ⟨fun hb => ?_, fun hb => Or.inl hb⟩)
    rcases hb with hb | hb
    · exact hb
    · exact absurd (e2.trans hs) hb.2.1
  · refine ⟨?_, hinv.2.1, hinv.2.2⟩
    have h2 := (((h.alloc n1).alloc n2).same hsame)
    have hp0 := h.pos
    refine h2.iff (fun b => ?_)
    rw [Heap.size_alloc]
    unfold Tables
    rw [e1, e2, Heap.alloc_blk, Heap.alloc_blk, Heap.size_alloc]
    constructor
    · rintro (hb | ⟨_, _, hb | hb⟩)
      · exact Or.inl (Or.inl hb)
      · exact Or.inl (Or.inr hb)
      · exact Or.inr hb
    · rintro ((hb | hb) | hb)
      · exact Or.inl hb
      · exact Or.inr ⟨by omega, hinv.1, Or.inl hb⟩
      · exact Or.inr ⟨by omega, hinv.1, Or.inr hb⟩

theorem Fr.computeR {base : Nat → Nat} {O : Nat → Prop} {hp : Heap} (h : Fr base O hp) {self : NTT_Goldilocks} {N : Int}
    {r : Heap × NTT_Goldilocks} (hpost : ComputeRPost hp self N r) :
    Fr base (fun b => O b ∨ b = hp.size ∨ b = hp.size + 1) r.1 ∧
    r.2.r = ⟨hp.size, 0⟩ ∧ r.2.r_ = ⟨hp.size + 1, 0⟩ ∧ r.2.s = self.s ∧ r.2.roots = self.roots ∧ r.2.powTwoInv = self.powTwoInv := by
  obtain ⟨e, hsame⟩ := hpost
  refine ⟨?_, by rw [e]; rfl, ?_, by rw [e], by rw [e], by rw [e]⟩
  rotate_left
  · rw [e]
    show ((hp.alloc (I32.toU64 N).toNat).fst.alloc (I32.toU64 N).toNat).snd = _
    rw [Heap.alloc_snd, Heap.size_alloc]
  have h2 := (((h.alloc (I32.toU64 N).toNat).alloc (I32.toU64 N).toNat).same hsame)
  refine h2.iff (fun b => ?_)
  rw [Heap.size_alloc]
  constructor
  · rintro (hb | hb | hb)
    · exact Or.inl (Or.inl hb)
    · exact Or.inl (Or.inr hb)
    · exact Or.inr hb
  · rintro ((hb | hb) | hb)
    · exact Or.inl hb
    · exact Or.inr (Or.inl hb)
    · exact Or.inr (Or.inr hb)

/-! ### extendPol -/

/-- the cache pointers are both NULL or `r` is not -/
def CacheOK (self : NTT_Goldilocks) : Prop := self.r = Ptr.null → self.r_ = Ptr.null

theorem ptr_ne_null_of_blk {p : Ptr} (h : p.blk ≠ 0) : p ≠ Ptr.null := by
  intro e; rw [e] at h; exact h rfl

/-- `computeR` overwrites `r`, `r_` before it reads them: their values at the call do not matter (the source may or may not
    reset them to NULL after `delete[]`) -/
theorem computeR_irrel (fuel : Nat) (X : Heap) (self : NTT_Goldilocks) (a b : Ptr) (N : Int) :
    NTT_computeR fuel X { self with r := a, r_ := b } N = NTT_computeR fuel X self N := by
  unfold NTT_computeR
  rfl

/-- the cache refresh of `extendPol`: `if (r == NULL || r_N != N) { if (r != NULL) { delete[] r; delete[] r_; } computeR(N); }` -/
theorem refresh_own {base : Nat → Nat} {O2 : Nat → Prop} (fuel : Nat) (hp2 : Heap) (self : NTT_Goldilocks) (N : BitVec 64)
    (h2 : Fr base (fun b => O2 b ∨ Cache self b) hp2) (hc : CacheOK self) :
    OInv (fun j => Fr base (fun b => O2 b ∨ Cache j.2 b) j.1 ∧ CacheOK j.2 ∧ j.2.s = self.s ∧ j.2.roots = self.roots ∧
        j.2.powTwoInv = self.powTwoInv)
      (if (self.r == Ptr.null || self.r_N != N) = true then
        (NTT_computeR fuel (if (self.r != Ptr.null) = true then (hp2.free self.r).free self.r_ else hp2) self (I32.ofU64 N)).bind
          fun rt_3 => some (rt_3.1, rt_3.2)
       else some (hp2, self)) := by
  refine OInv.ite _ _ (fun _ => ?_) (fun _ => ?_)
  · -- the old tables are released (when there are any): what remains outstanding is O2
    have h3 : Fr base O2 (if (self.r != Ptr.null) = true then (hp2.free self.r).free self.r_ else hp2) := by
      by_cases hr : (self.r != Ptr.null) = true
      · rw [if_pos hr]
        have hr' := (bne_true _ _).1 hr
        have a := h2.free self.r (fun h0 => h2.dead _ (Or.inr ⟨h0, Or.inl ⟨hr', rfl⟩⟩))
        have b := a.free self.r_ (fun h0 => h2.dead _ (Or.inr ⟨h0, Or.inr ⟨ptr_ne_null_of_blk h0, rfl⟩⟩))
        refine b.mono (fun b hb => h2.dead b (Or.inl hb)) ?_
        intro b hb
        rcases hb.1.1 with ho | hcache
        · exact ho
        · rcases hcache.2 with e | e
          · exact absurd ⟨e.2, e.2 ▸ hcache.1⟩ hb.1.2
          · exact absurd ⟨e.2, e.2 ▸ hcache.1⟩ hb.2
      · rw [if_neg hr]
        have hr' : self.r = Ptr.null := by
          by_cases e : self.r = Ptr.null
          · exact e
          · exact absurd ((bne_true _ _).2 e) hr
        refine h2.iff (fun b => ⟨fun hb => Or.inl hb, fun hb => ?_⟩)
        rcases hb with hb | hb
        · exact hb
        · rcases hb.2 with e | e
          · exact absurd hr' e.1
          · exact absurd (hc hr') e.1
    refine OInv.bind (ComputeRPost _ self (I32.ofU64 N)) _ _ (computeR_shape _ _ _ _) (fun rt hrt => ?_)
    refine OInv.some _ _ ?_
    obtain ⟨f, e1, e2, e3, e4, e5⟩ := h3.computeR hrt
    have hz : (if (self.r != Ptr.null) = true then (hp2.free self.r).free self.r_ else hp2).size ≠ 0 := Nat.pos_iff_ne_zero.mp h3.pos
    refine ⟨?_, ?_, e3, e4, e5⟩
    · refine f.iff (fun b => ?_)
      show O2 b ∨ Cache rt.2 b ↔ _
      unfold Cache
      rw [e1, e2]
      constructor
      · rintro (hb | ⟨_, hb | hb⟩)
        · exact Or.inl hb
        · exact Or.inr (Or.inl hb.2)
        · exact Or.inr (Or.inr hb.2)
      · rintro (hb | hb | hb)
        · exact Or.inl hb
        · exact Or.inr ⟨hb ▸ hz, Or.inl ⟨ptr_ne_null_of_blk hz, hb⟩⟩
        · exact Or.inr ⟨hb ▸ Nat.succ_ne_zero _, Or.inr ⟨ptr_ne_null_of_blk (Nat.succ_ne_zero _), hb⟩⟩
    · show rt.2.r = Ptr.null → rt.2.r_ = Ptr.null
      intro e
      rw [e1] at e
      exact absurd e (ptr_ne_null_of_blk hz)
  · exact OInv.some _ _ ⟨h2, hc, rfl, rfl, rfl⟩

def ExtendPost (base : Nat → Nat) (O : Nat → Prop) (self : NTT_Goldilocks) (r : Heap × NTT_Goldilocks) : Prop :=
  Fr base (fun b => O b ∨ Cache r.2 b) r.1 ∧ CacheOK r.2 ∧ r.2.s = self.s ∧ r.2.roots = self.roots ∧ r.2.powTwoInv = self.powTwoInv

/-- `extendPol`: the local transform object is constructed and destroyed, the scratch buffer is allocated and released
    (when the caller gave none), the cache `r`, `r_` is kept or replaced (the replaced blocks are released); every other
    block number that is outstanding afterwards was outstanding before -/
theorem extendPol_own {base : Nat → Nat} {O : Nat → Prop} (fuel : Nat) (hp : Heap) (self : NTT_Goldilocks) (output input : Ptr)
    (NE N ncols : BitVec 64) (buffer : Ptr) (nphase nblock : BitVec 64)
    (h : Fr base (fun b => O b ∨ Cache self b) hp) (hc : CacheOK self) :
    OInv (ExtendPost base O self) (NTT_extendPol fuel hp self output input NE N ncols buffer nphase nblock) := by
  unfold NTT_extendPol
  heap_steps
  oinv_bind (CtorPost hp NTT_Goldilocks.init NE)
  · exact ctor_shape _ _ _ _ _ _
  · rename_i ext hext
    obtain ⟨h1, er, er_⟩ := h.ctor (self := NTT_Goldilocks.init) rfl hext
    heap_steps
    -- the scratch buffer: the caller's, or a new block
    generalize hd : (if (buffer == Ptr.null) = true then
        have al_2 := ext.1.alloc ((NE * ncols * 8#64).toNat / 8); have hp := al_2.1; have tmp := al_2.2; (tmp, hp)
      else have tmp := buffer; (tmp, ext.1)) = d
    have h2 : Fr base (fun b => (O b ∨ Tables ext.2 b ∨ ((buffer == Ptr.null) = true ∧ b = d.1.blk ∧ b ≠ 0)) ∨ Cache self b) d.2 := by
      by_cases hb : (buffer == Ptr.null) = true
      · rw [if_pos hb] at hd
        subst hd
        refine (h1.alloc _).iff (fun b => ?_)
        show _ ↔ ((O b ∨ Cache self b) ∨ Tables ext.2 b) ∨ b = ext.1.size
        constructor
        · rintro ((hx | hx | hx) | hx)
          · exact Or.inl (Or.inl (Or.inl hx))
          · exact Or.inl (Or.inr hx)
          · exact Or.inr hx.2.1
          · exact Or.inl (Or.inl (Or.inr hx))
        · rintro (((hx | hx) | hx) | hx)
          · exact Or.inl (Or.inl hx)
          · exact Or.inr hx
          · exact Or.inl (Or.inr (Or.inl hx))
          · exact Or.inl (Or.inr (Or.inr ⟨hb, hx, hx ▸ Nat.pos_iff_ne_zero.mp h1.pos⟩))
      · rw [if_neg hb] at hd
        subst hd
        refine h1.iff (fun b => ?_)
        constructor
        · rintro ((hx | hx | hx) | hx)
          · exact Or.inl (Or.inl hx)
          · exact Or.inr hx
          · exact absurd hx.1 hb
          · exact Or.inl (Or.inr hx)
        · rintro ((hx | hx) | hx)
          · exact Or.inl (Or.inl hx)
          · exact Or.inr hx
          · exact Or.inl (Or.inr (Or.inl hx))
    oinv_bind (fun (j : Heap × NTT_Goldilocks) =>
      Fr base (fun b => (O b ∨ Tables ext.2 b ∨ ((buffer == Ptr.null) = true ∧ b = d.1.blk ∧ b ≠ 0)) ∨ Cache j.2 b) j.1 ∧ CacheOK j.2 ∧
        j.2.s = self.s ∧ j.2.roots = self.roots ∧ j.2.powTwoInv = self.powTwoInv)
    · -- the cache refresh, HOWEVER the source writes it (one nested `if`, two sequential `if`s with the pointers reset to
      -- NULL, …): evaluated in the four cases `r == NULL` × `r_N == N` it is the canonical text of `refresh_own`
      have hcan := refresh_own fuel d.2 self N h2 hc
      cases hr0 : (self.r == Ptr.null) <;> cases hn0 : (self.r_N == N) <;>
        simp only [hr0, hn0, bne, Bool.not_true, Bool.not_false, Bool.true_or, Bool.false_or, Bool.or_true, Bool.or_false,
          Bool.true_and, Bool.false_and, Bool.and_true, Bool.and_false, if_true, if_false, Bool.false_eq_true, computeR_irrel,
          beq_self_eq_true] at hcan ⊢ <;>
        exact hcan
    · rename_i j hj
      obtain ⟨f, hcj, e3, e4, e5⟩ := hj
      have hpos := f.pos
      heap_steps
      oinv_bind_same j.1
      · heap_steps
      · heap_steps
        oinv_bind_same j.1
        · heap_steps
        · heap_steps
          rename_i h5 hs5
          refine ⟨?_, hcj, e3, e4, e5⟩
          have f5 := f.same hs5
          have f6 := f5.free_if ((buffer == Ptr.null) = true) d.1
            (fun hb h0 => f.dead _ (Or.inl (Or.inr (Or.inr ⟨hb, rfl, h0⟩))))
          have f7 := dtor_own ext.2 f6 (fun b hb => f.dead _ (by
            rcases hb with hb | hb
            · exact Or.inl (Or.inr (Or.inl hb))
            · rcases hb.2 with e | e
              · exact absurd er e.1
              · exact absurd er_ e.1))
          refine f7.mono ?_ ?_
          · rintro b (hb | hb)
            · exact h.dead b (Or.inl hb)
            · exact f.dead b (Or.inr hb)
          · intro b hb
            rcases hb.1.1 with (hx | hx | hx) | hx
            · exact Or.inl hx
            · exact absurd (Or.inl hx) hb.2
            · exact absurd hx hb.1.2
            · exact Or.inr hx

/-! ### histories: constructor → any calls → destructor -/

/-- a public call on a transform object, with its arguments (any pointers, any sizes) -/
inductive Call where
  | ntt (dst src : Ptr) (size ncols : BitVec 64) (buffer : Ptr) (nphase nblock : BitVec 64) (inverse extend : Bool)
  | intt (dst src : Ptr) (size ncols : BitVec 64) (buffer : Ptr) (nphase nblock : BitVec 64) (extend : Bool)
  | extendPol (output input : Ptr) (N_Extended N ncols : BitVec 64) (buffer : Ptr) (nphase nblock : BitVec 64)

/-- one call of the generated model on (heap, object state) -/
def runCall (fuel : Nat) (st : Heap × NTT_Goldilocks) : Call → Option (Heap × NTT_Goldilocks)
  | .ntt dst src size ncols buffer nphase nblock inverse extend =>
    (NTT_NTT fuel st.1 st.2 dst src size ncols buffer nphase nblock inverse extend).bind fun h => some (h, st.2)
  | .intt dst src size ncols buffer nphase nblock extend =>
    (NTT_INTT fuel st.1 st.2 dst src size ncols buffer nphase nblock extend).bind fun h => some (h, st.2)
  | .extendPol output input NE N ncols buffer nphase nblock =>
    NTT_extendPol fuel st.1 st.2 output input NE N ncols buffer nphase nblock

def runCalls (fuel : Nat) : Heap × NTT_Goldilocks → List Call → Option (Heap × NTT_Goldilocks)
  | st, [] => some st
  | st, c :: cs => (runCall fuel st c).bind fun st' => runCalls fuel st' cs

/-- the life of an object: the generated constructor on the default-initialised members, the calls, the generated destructor -/
def life (fuel : Nat) (h0 : Heap) (maxDomainSize : BitVec 64) (nThreads : BitVec 32) (extension : Int) (cs : List Call) : Option Heap :=
  (NTT_ctor fuel h0 NTT_Goldilocks.init maxDomainSize nThreads extension).bind fun st =>
    (runCalls fuel st cs).bind fun st' => some (NTT_dtor st'.1 st'.2)

/-- what holds between the calls: the heap is the initial one plus the blocks the object owns -/
def HInv (h0 : Heap) (st : Heap × NTT_Goldilocks) : Prop :=
  Fr h0.ext (fun b => Tables st.2 b ∨ Cache st.2 b) st.1 ∧ CacheOK st.2

theorem runCall_inv (fuel : Nat) (h0 : Heap) (st : Heap × NTT_Goldilocks) (c : Call) (h : HInv h0 st) :
    OInv (HInv h0) (runCall fuel st c) := by
  cases c with
  | ntt dst src size ncols buffer nphase nblock inverse extend =>
    unfold runCall
    refine OInv.bind (Heap.Same st.1) _ _ (NTT_same _ _ _ _ _ _ _ _ _ _ _ _ h.1.pos) (fun y hy => OInv.some _ _ ?_)
    exact ⟨h.1.same hy, h.2⟩
  | intt dst src size ncols buffer nphase nblock extend =>
    unfold runCall
    refine OInv.bind (Heap.Same st.1) _ _ (INTT_same _ _ _ _ _ _ _ _ _ _ _ h.1.pos) (fun y hy => OInv.some _ _ ?_)
    exact ⟨h.1.same hy, h.2⟩
  | extendPol output input NE N ncols buffer nphase nblock =>
    unfold runCall
    refine (extendPol_own fuel st.1 st.2 output input NE N ncols buffer nphase nblock h.1 h.2).mono ?_
    intro r hr
    obtain ⟨f, hc, e1, e2, e3⟩ := hr
    refine ⟨f.iff (fun b => ?_), hc⟩
    unfold Tables
    rw [e1, e2, e3]

theorem runCalls_inv (fuel : Nat) (h0 : Heap) (cs : List Call) :
    ∀ (st : Heap × NTT_Goldilocks), HInv h0 st → OInv (HInv h0) (runCalls fuel st cs) := by
  induction cs with
  | nil => intro st h; exact OInv.some _ _ h
  | cons c cs ih =>
    intro st h
    unfold runCalls
    exact OInv.bind (HInv h0) _ _ (runCall_inv fuel h0 st c h) (fun y hy => ih y hy)

/-- allocation balance of a whole object life in the generated model: whatever the constructor arguments and the calls
    (any number, any kind, any arguments), when the history returns, every block has the extent it had before the
    constructor ran: every block allocated in between was released, no other block was released -/
theorem life_balance (fuel : Nat) (h0 : Heap) (m : BitVec 64) (thr : BitVec 32) (e : Int) (cs : List Call) (hs : 0 < h0.size) :
    OInv (fun h' => ∀ b, h'.ext b = h0.ext b) (life fuel h0 m thr e cs) := by
  unfold life
  refine OInv.bind (CtorPost h0 NTT_Goldilocks.init m) _ _ (ctor_shape _ _ _ _ _ _) (fun st hst => ?_)
  obtain ⟨f, er, er_⟩ := (Fr.refl h0 hs).ctor (self := NTT_Goldilocks.init) rfl hst
  have hinv : HInv h0 st := by
    refine ⟨f.iff (fun b => ?_), fun _ => er_⟩
    constructor
    · rintro (hb | hb)
      · exact Or.inr hb
      · rcases hb.2 with x | x
        · exact absurd er x.1
        · exact absurd er_ x.1
    · rintro (hb | hb)
      · exact hb.elim
      · exact Or.inl hb
  refine OInv.bind (HInv h0) _ _ (runCalls_inv fuel h0 cs st hinv) (fun st' hst' => OInv.some _ _ ?_)
  have fd := dtor_own st'.2 hst'.1 (fun b hb => hst'.1.dead b hb)
  exact Fr.done (fd.iff (fun b => ⟨fun x => x.elim, fun x => x.2 x.1⟩))

end GoldilocksVerif.HeapSafe
