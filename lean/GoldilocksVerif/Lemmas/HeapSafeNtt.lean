/-
  IN-BOUNDS ACCESSES of the generated `NTT` and `INTT`: the clamp of `nblock`, the column blocks (widths
  `ncols / nblock + (ib < ncols % nblock)`, running offset), the scratch `aux` and the block destination `dst_` — allocated
  with `size * ceil(ncols / nblock)` words or taken from the caller (`buffer`: size * ncols words) —, `NTT_iters` on
  every block, the scatter of a block into its columns of the destination, and the two `free`s (start of a live block).
  For EVERY `nblock`, with or without caller buffer, in place or not.
-/
import GoldilocksVerif.Lemmas.HeapSafeIters
open GoldilocksVerif Gen.NttGen GoldilocksVerif.BridgeNtt
namespace GoldilocksVerif.HeapSafe

/-! ### the column blocks of `NTT()`: widths and offsets -/

/-- number of columns of block `ib` -/
def colW (NC nb ib : Nat) : Nat := NC / nb + (if ib < NC % nb then 1 else 0)
/-- first column of block `ib` -/
def colO (NC nb ib : Nat) : Nat := ib * (NC / nb) + min ib (NC % nb)
/-- columns of the scratch blocks: ceil(NC / nb) -/
def colA (NC nb : Nat) : Nat := NC / nb + (if NC % nb > 0 then 1 else 0)

theorem colO_zero (NC nb : Nat) : colO NC nb 0 = 0 := by simp [colO]

theorem colO_succ (NC nb ib : Nat) : colO NC nb (ib + 1) = colO NC nb ib + colW NC nb ib := by
  unfold colO colW
  rw [Nat.add_mul, Nat.one_mul]
  by_cases h : ib < NC % nb
  · rw [if_pos h, Nat.min_eq_left (by omega), Nat.min_eq_left (by omega)]; omega
  · rw [if_neg h, Nat.min_eq_right (by omega), Nat.min_eq_right (by omega)]; omega

theorem colO_le (NC nb ib : Nat) (hib : ib ≤ nb) : colO NC nb ib ≤ NC := by
  unfold colO
  have h1 : ib * (NC / nb) ≤ nb * (NC / nb) := Nat.mul_le_mul_right _ hib
  have h2 := Nat.div_add_mod NC nb
  have h3 : min ib (NC % nb) ≤ NC % nb := Nat.min_le_right _ _
  omega

theorem colOW_le (NC nb ib : Nat) (hib : ib < nb) : colO NC nb ib + colW NC nb ib ≤ NC := by
  rw [← colO_succ]; exact colO_le NC nb (ib + 1) hib

theorem colW_le (NC nb ib : Nat) : colW NC nb ib ≤ colA NC nb := by
  unfold colW colA
  by_cases h : ib < NC % nb
  · rw [if_pos h, if_pos (by omega)]
  · rw [if_neg h]; omega

theorem colW_pos (NC nb ib : Nat) (h1 : 1 ≤ nb) (h2 : nb ≤ NC) : 0 < colW NC nb ib := by
  unfold colW
  have : 0 < NC / nb := Nat.div_pos h2 h1
  omega

theorem colA_le (NC nb : Nat) (h1 : 1 ≤ nb) (h2 : nb ≤ NC) : colA NC nb ≤ NC := by
  unfold colA
  have hdm := Nat.div_add_mod NC nb
  by_cases h : NC % nb > 0
  · rw [if_pos h]
    -- remainder > 0 forces nb ≥ 2
    have hnb2 : 2 ≤ nb := by
      rcases Nat.lt_or_ge 1 nb with x | x
      · exact x
      · have : nb = 1 := by omega
        rw [this, Nat.mod_one] at h; omega
    have : 2 * (NC / nb) ≤ nb * (NC / nb) := Nat.mul_le_mul_right _ hnb2
    have : 0 < NC / nb := Nat.div_pos h2 h1
    omega
  · rw [if_neg h]; have := Nat.div_le_self NC nb; omega

theorem colA_one (NC : Nat) : colA NC 1 = NC := by simp [colA, Nat.mod_one]

/-- width of block `ib` on 64-bit words -/
theorem colW_bv (NC nb ib : Nat) (hNC : NC < 2 ^ 63) (hib : ib < 2 ^ 63) :
    (if decide (BitVec.ofNat 64 ib < bv (NC % nb)) = true then bv (NC / nb) + 1#64 else bv (NC / nb)) = bv (colW NC nb ib) := by
  have hm : NC % nb ≤ NC := Nat.mod_le _ _
  have hc : decide (BitVec.ofNat 64 ib < bv (NC % nb)) = decide (ib < NC % nb) := by
    rw [decide_eq_decide]; show bv ib < bv (NC % nb) ↔ _; rw [lt_bv _ _ (by omega) (by omega)]
  rw [hc]
  unfold colW
  by_cases h : ib < NC % nb
  · simp only [h, decide_true, if_true]; rw [bv_one, bv_add]
  · simp only [h, decide_false, if_false, Bool.false_eq_true]; rfl

/-- the running column offset after block `ib` -/
theorem NTT_loop2_oc (fuel : Nat) (dst src : Ptr) (size ncols nphase nblock : BitVec 64) (inverse extend : Bool)
    (self : NTT_Goldilocks) (ncb ncr : BitVec 64) (dst_ aux : Ptr) (ib : Nat) (st s' : Heap × BitVec 64)
    (h : NTT_NTT_loop2 fuel dst src size ncols nphase nblock inverse extend self ncb ncr dst_ aux ib st = some s') :
    s'.2 = st.2 + (if decide (BitVec.ofNat 64 ib < ncr) = true then ncb + 1#64 else ncb) := by
  unfold NTT_NTT_loop2 at h
  dsimp only at h
  rw [Option.bind_eq_some_iff] at h
  obtain ⟨y1, _, h⟩ := h
  rw [Option.bind_eq_some_iff] at h
  obtain ⟨y2, _, h⟩ := h
  injection h with h
  rw [← h]

/-- one row of the scatter of a column block: row `ie` of the block destination to columns [o, o+w) of row `ie` of `dst` -/
theorem scatter_safe (st : Heap) (D dstp : Ptr) (N NC o w ie : Nat) (hie : ie < N) (how : o + w ≤ NC) (hNNC : N * NC * 8 < 2 ^ 64)
    (hD : D.off + N * NC ≤ st.ext D.blk) (hd : dstp.off + N * w ≤ st.ext dstp.blk) (hne : D.blk ≠ dstp.blk) :
    NTT_NTT_loop1.Safe D (bv NC) (bv o) dstp (bv w) ie st := by
  have h1 := mul_le_of_lt _ _ NC hie
  have h2 := mul_le_of_lt _ _ w hie
  have hN0 : 0 < N := by omega
  have hwN : w ≤ N * NC := Nat.le_trans (by omega) (Nat.le_mul_of_pos_left NC hN0)
  have hww : N * w ≤ N * NC := Nat.mul_le_mul_left _ (by omega)
  have e1 : (BitVec.ofNat 64 ie * bv NC + bv o).toNat = ie * NC + o := by
    show (bv ie * bv NC + bv o).toNat = _
    rw [bv_mul, bv_add, bv_toNat _ (by omega)]
  have e2 : (BitVec.ofNat 64 ie * bv w).toNat = ie * w := by
    show (bv ie * bv w).toNat = _
    rw [bv_mul, bv_toNat _ (by omega)]
  unfold NTT_NTT_loop1.Safe
  zeta_goal
  rw [e1, e2, words_bv w (by omega)]
  exact ⟨RangeOK_add (by omega), RangeOK_add (by omega), Or.inr (Or.inl hne)⟩

/-- what the block loop of `NTT()` works with: the caller's destination `D` (N rows of NC words), the source, the block
    destination `dstp` and the scratch `auxp` (N rows of ceil(NC / nb) words each, distinct blocks, distinct from the source),
    the object's tables -/
structure NShape (H : Heap) (obj : NTT_Goldilocks) (D src dstp auxp : Ptr) (N NC K nb : Nat) (extend : Bool) : Prop where
  hK1 : 1 ≤ K
  hK : K ≤ 30
  hN : N = 2 ^ K
  hnb1 : 1 ≤ nb
  hnbNC : nb ≤ NC
  hbytes : N * NC * 8 < 2 ^ 64
  hpos : 0 < H.size
  hD : D.off + N * NC ≤ H.ext D.blk
  hdstp : dstp.off + N * colA NC nb ≤ H.ext dstp.blk
  hauxp : auxp.off + N * colA NC nb ≤ H.ext auxp.blk
  hda : dstp.blk ≠ auxp.blk
  hsrc : src.off + srcRows obj (bv N) * NC ≤ H.ext src.blk
  hds : dstp ≠ src → dstp.blk ≠ src.blk
  has : auxp.blk ≠ src.blk
  hDd : 1 < nb → D.blk ≠ dstp.blk
  hsel : (if (dstp != Ptr.null) = true then dstp else src) = dstp
  hsK : K ≤ obj.s.toNat
  hs32 : obj.s.toNat ≤ 32
  hroots : obj.roots.off + 2 ^ obj.s.toNat ≤ H.ext obj.roots.blk
  hpti : obj.powTwoInv.off + obj.s.toNat + 1 ≤ H.ext obj.powTwoInv.blk
  hr_ : extend = true → obj.r_.off + N ≤ H.ext obj.r_.blk

/-- the loop over the column blocks: each block is transformed by `NTT_iters` into the block destination and (with more
    than one block) scattered into its columns of the destination -/
theorem NTT_blocks_safe (fuel : Nat) (hf : 64 ≤ fuel) (H : Heap) (self : NTT_Goldilocks) (D src dstp auxp : Ptr)
    (N NC K nb : Nat) (nphase : BitVec 64) (inverse extend : Bool) (sh : NShape H self D src dstp auxp N NC K nb extend) :
    Loop.RangeAll 0 nb (H, 0#64)
      (NTT_NTT_loop2 fuel D src (bv N) (bv NC) nphase (bv nb) inverse extend self (bv (NC / nb)) (bv (NC % nb)) dstp auxp)
      (fun ib st => NTT_NTT_loop2.Safe fuel D src (bv N) (bv NC) nphase (bv nb) inverse extend self (bv (NC / nb))
        (bv (NC % nb)) dstp auxp ib st) := by
  obtain ⟨hK1, hK, hN, hnb1, hnbNC, hbytes, hpos, hD, hdstp, hauxp, hda, hsrc, hds, has, hDd, hsel, hsK, hs32, hroots, hpti,
    hr_⟩ := sh
  have hN0 : 0 < N := by rw [hN]; exact Nat.pow_pos (by omega)
  have hN30 : N ≤ 2 ^ 30 := by rw [hN]; exact Nat.pow_le_pow_right (by omega) hK
  have hNC63 : NC < 2 ^ 63 := by
    have : NC ≤ N * NC := Nat.le_mul_of_pos_left _ hN0
    omega
  refine Loop.RangeAll.of_inv (fun ib st => Heap.Same H st.1 ∧ st.2 = bv (colO NC nb ib)) ?_ ?_ ?_
  · exact ⟨Heap.Same.refl _, by rw [colO_zero]⟩
  · intro ib s s' _ hib hinv hstep
    refine ⟨?_, ?_⟩
    · exact NTT_loop2_same fuel D src (bv N) (bv NC) nphase (bv nb) inverse extend self _ _ dstp auxp ib H s hpos hinv.1 s' hstep
    · rw [NTT_loop2_oc _ _ _ _ _ _ _ _ _ _ _ _ _ _ ib s s' hstep, hinv.2, colW_bv NC nb ib hNC63 (by omega), bv_add, colO_succ]
  · intro ib st _ hib hinv
    obtain ⟨X, ocv⟩ := st
    obtain ⟨hsame, hoc⟩ := hinv
    simp only at hsame hoc
    subst hoc
    have how := colOW_le NC nb ib hib
    have hwA := colW_le NC nb ib
    have hwpos := colW_pos NC nb ib hnb1 hnbNC
    have hAN := colA_le NC nb hnb1 hnbNC
    have hNw : N * colW NC nb ib ≤ N * colA NC nb := Nat.mul_le_mul_left _ hwA
    have hNA : N * colA NC nb ≤ N * NC := Nat.mul_le_mul_left _ hAN
    unfold NTT_NTT_loop2.Safe
    zeta_goal
    rw [colW_bv NC nb ib hNC63 (by omega)]
    have hsh : IShape X self (if (dstp != Ptr.null) = true then dstp else src) auxp N (colW NC nb ib) K extend := by
      rw [hsel]
      exact ⟨hK, hN, by omega, by rw [hsame.2]; omega, by rw [hsame.2]; omega, hda, hsK, hs32, by rw [hsame.2]; exact hroots,
        by rw [hsame.2]; exact hpti, fun e => by rw [hsame.2]; exact hr_ e⟩
    have hoT : (bv (colO NC nb ib)).toNat = colO NC nb ib := bv_toNat _ (by omega)
    have hNCT : (bv NC).toNat = NC := bv_toNat _ (by omega)
    refine ⟨?_, fun y hy => ?_⟩
    · exact NTT_iters_safe fuel hf X self dstp src auxp N (colW NC nb ib) K _ _ nphase inverse extend hK1
        (hsame.size_pos hpos) hsh hwpos (by rw [hoT, hNCT]; exact how) (by rw [hNCT]; exact hbytes)
        (by rw [hNCT, hsame.2]; exact hsrc) (by rw [hsel]; exact hds) has
    · intro hgt
      have hnb2 : 1 < nb := by
        have := of_decide_eq_true hgt
        have h2 : bv 1 < bv nb := this
        rwa [lt_bv _ _ (by omega) (by omega)] at h2
      have hsy : Heap.Same X y :=
        NTT_iters_same fuel X self dstp src (bv N) _ _ (bv NC) nphase auxp inverse extend (hsame.size_pos hpos) y hy
      rw [bv_toNat N (by omega)]
      refine Loop.RangeAll.of_same (fun ie s _ => by loop_same) (fun ie st' _ hie hst' => ?_)
      have hs' := (hsame.trans hsy).trans hst'
      exact scatter_safe st' D dstp N NC _ _ ie hie how hbytes (by rw [hs'.2]; exact hD) (by rw [hs'.2]; omega) (hDd hnb2)

/-- the clamp of `nblock` to [1, ncols] -/
theorem nblock_clamp (nblock : BitVec 64) (NC : Nat) (hNC : 0 < NC) (hNC64 : NC < 2 ^ 64) :
    1 ≤ (if decide ((if decide (nblock < 1#64) = true then 1#64 else nblock) > bv NC) = true then bv NC
        else if decide (nblock < 1#64) = true then 1#64 else nblock).toNat ∧
    (if decide ((if decide (nblock < 1#64) = true then 1#64 else nblock) > bv NC) = true then bv NC
        else if decide (nblock < 1#64) = true then 1#64 else nblock).toNat ≤ NC := by
  have h1 : (1#64 : BitVec 64).toNat = 1 := rfl
  have hNCt : (bv NC).toNat = NC := bv_toNat _ hNC64
  by_cases c1 : nblock < 1#64
  · simp only [c1, decide_true, if_true]
    by_cases c2 : (1#64 : BitVec 64) > bv NC
    · simp only [c2, decide_true, if_true]
      rw [hNCt]; exact ⟨hNC, Nat.le_refl _⟩
    · simp only [c2, decide_false, if_false, Bool.false_eq_true]
      rw [h1]; exact ⟨Nat.le_refl _, hNC⟩
  · simp only [c1, decide_false, if_false, Bool.false_eq_true]
    have c1' : 1 ≤ nblock.toNat := by
      rw [BitVec.lt_def, h1] at c1; omega
    by_cases c2 : nblock > bv NC
    · simp only [c2, decide_true, if_true]
      rw [hNCt]; exact ⟨hNC, Nat.le_refl _⟩
    · simp only [c2, decide_false, if_false, Bool.false_eq_true]
      have : ¬ (bv NC).toNat < nblock.toNat := fun x => c2 (BitVec.lt_def.mpr x)
      rw [hNCt] at this
      exact ⟨c1', by omega⟩

theorem colA_bv (NC nb : Nat) (hNC : NC < 2 ^ 63) :
    (if decide (bv (NC % nb) > 0#64) = true then bv (NC / nb) + 1#64 else bv (NC / nb)) = bv (colA NC nb) := by
  have hm : NC % nb ≤ NC := Nat.mod_le _ _
  have hc : decide (bv (NC % nb) > 0#64) = decide (NC % nb > 0) := by
    rw [decide_eq_decide]; show bv 0 < bv (NC % nb) ↔ _; rw [lt_bv _ _ (by omega) (by omega)]
  rw [hc]
  unfold colA
  by_cases h : NC % nb > 0
  · simp only [h, decide_true, if_true]; rw [bv_one, bv_add]
  · simp only [h, decide_false, if_false, Bool.false_eq_true]; rfl

/-- `malloc(sizeof(Element) * size * ncols_alloc)` in words -/
theorem alloc_words (N A : Nat) (h : N * A * 8 < 2 ^ 64) : (8#64 * bv N * bv A).toNat / 8 = N * A := by
  have : (8#64 : BitVec 64) = bv 8 := rfl
  have e : 8 * N * A = N * A * 8 := by rw [Nat.mul_assoc, Nat.mul_comm]
  rw [this, bv_mul, bv_mul, e, bv_toNat _ h]
  exact Nat.mul_div_cancel _ (by omega)

theorem sel_dst (dst src : Ptr) :
    (if ((if (dst == Ptr.null) = true then src else dst) != Ptr.null) = true then (if (dst == Ptr.null) = true then src else dst)
      else src) = (if (dst == Ptr.null) = true then src else dst) := by
  by_cases h : (dst == Ptr.null) = true
  · rw [if_pos h]
    by_cases h2 : (src != Ptr.null) = true
    · rw [if_pos h2]
    · rw [if_neg h2]
  · rw [if_neg h]
    have : (dst != Ptr.null) = true := by simpa using h
    rw [if_pos this]

theorem ext_alloc_lt (st : Heap) (n b : Nat) (hb : b < st.size) : (st.alloc n).1.ext b = st.ext b := by
  rw [Heap.ext_alloc, if_neg (by omega)]

/-- the documented shape of an `NTT(dst, src, size, ncols, buffer, nphase, nblock, …)` call:
    `size = 2^K` rows (1 ≤ K ≤ 30) of `ncols ≥ 1` words; the destination (`src` when `dst == NULL`) has size·ncols words, the
    source `srcRows`·ncols words; a destination that is not the source is another block; a caller buffer has size·ncols
    words and is another block than destination and source; the object's tables have the extents the constructor gave them -/
structure NTTShape (hp : Heap) (obj : NTT_Goldilocks) (dst src buffer : Ptr) (N NC K : Nat) (extend : Bool) : Prop where
  hK1 : 1 ≤ K
  hK : K ≤ 30
  hN : N = 2 ^ K
  hNC : 0 < NC
  hbytes : N * NC * 8 < 2 ^ 64
  hpos : 0 < hp.size
  hD : (if (dst == Ptr.null) = true then src else dst).off + N * NC ≤ hp.ext (if (dst == Ptr.null) = true then src else dst).blk
  hsrc : src.off + srcRows obj (bv N) * NC ≤ hp.ext src.blk
  hsrcl : src.blk < hp.size
  hds : (if (dst == Ptr.null) = true then src else dst) ≠ src → (if (dst == Ptr.null) = true then src else dst).blk ≠ src.blk
  hbuf : buffer ≠ Ptr.null → buffer.off + N * NC ≤ hp.ext buffer.blk ∧
    buffer.blk ≠ (if (dst == Ptr.null) = true then src else dst).blk ∧ buffer.blk ≠ src.blk
  hsK : K ≤ obj.s.toNat
  hs32 : obj.s.toNat ≤ 32
  hroots : obj.roots.off + 2 ^ obj.s.toNat ≤ hp.ext obj.roots.blk
  hpti : obj.powTwoInv.off + obj.s.toNat + 1 ≤ hp.ext obj.powTwoInv.blk
  hr_ : extend = true → obj.r_.off + N ≤ hp.ext obj.r_.blk

theorem NTT_safe (fuel : Nat) (hf : 64 ≤ fuel) (hp : Heap) (self : NTT_Goldilocks) (dst src buffer : Ptr) (N NC K : Nat)
    (nphase nblock : BitVec 64) (inverse extend : Bool) (sh : NTTShape hp self dst src buffer N NC K extend) :
    NTT_NTT.Safe fuel hp self dst src (bv N) (bv NC) buffer nphase nblock inverse extend := by
  obtain ⟨hK1, hK, hN, hNC, hbytes, hpos, hD, hsrc, hsrcl, hds, hbuf, hsK, hs32, hroots, hpti, hr_⟩ := sh
  have hN0 : 0 < N := by rw [hN]; exact Nat.pow_pos (by omega)
  have hN30 : N ≤ 2 ^ 30 := by rw [hN]; exact Nat.pow_le_pow_right (by omega) hK
  have hNC63 : NC < 2 ^ 63 := by
    have : NC ≤ N * NC := Nat.le_mul_of_pos_left _ hN0
    omega
  unfold NTT_NTT.Safe
  zeta_goal
  intro _
  obtain ⟨hnb1, hnbNC⟩ := nblock_clamp nblock NC hNC (by omega)
  generalize (if decide ((if decide (nblock < 1#64) = true then 1#64 else nblock) > bv NC) = true then bv NC
        else if decide (nblock < 1#64) = true then 1#64 else nblock) = nbv at hnb1 hnbNC ⊢
  rw [bv_self nbv]
  generalize nbv.toNat = nb at hnb1 hnbNC ⊢
  have hAN := colA_le NC nb hnb1 hnbNC
  have hApos : 0 < colA NC nb := Nat.lt_of_lt_of_le (colW_pos NC nb 0 hnb1 hnbNC) (colW_le NC nb 0)
  have hNA : N * colA NC nb ≤ N * NC := Nat.mul_le_mul_left _ hAN
  have hNApos : 0 < N * colA NC nb := Nat.mul_pos hN0 hApos
  simp only [bv_div NC nb (by omega) (by omega), bv_mod NC nb (by omega) (by omega), add_toU64_ite, colA_bv NC nb hNC63,
    alloc_words N (colA NC nb) (by omega), bv_toNat nb (by omega)]
  generalize hDdef : (if (dst == Ptr.null) = true then src else dst) = D at *
  have hgt : decide (bv nb > 1#64) = decide (1 < nb) := by
    rw [decide_eq_decide]; show bv 1 < bv nb ↔ _; rw [lt_bv _ _ (by omega) (by omega)]
  rw [hgt]
  have hDlive : D.blk < hp.size := Heap.lt_size_of_live hp D.blk (by
    have : 0 < N * NC := Nat.mul_pos hN0 hNC
    omega)
  have hsel : (if (D != Ptr.null) = true then D else src) = D := by rw [← hDdef]; exact sel_dst dst src
  have hrl : self.roots.blk < hp.size := Heap.lt_size_of_live hp _ (by
    have : 0 < 2 ^ self.s.toNat := Nat.pow_pos (by omega)
    omega)
  have hpl : self.powTwoInv.blk < hp.size := Heap.lt_size_of_live hp _ (by omega)
  -- the shape of the block loop from a heap `H1` that extends `hp`
  have mk : ∀ (H1 : Heap) (dstp auxp : Ptr), 0 < H1.size → (∀ b, b < hp.size → H1.ext b = hp.ext b) →
      dstp.off + N * colA NC nb ≤ H1.ext dstp.blk → auxp.off + N * colA NC nb ≤ H1.ext auxp.blk → dstp.blk ≠ auxp.blk →
      (dstp ≠ src → dstp.blk ≠ src.blk) → auxp.blk ≠ src.blk → (1 < nb → D.blk ≠ dstp.blk) →
      (if (dstp != Ptr.null) = true then dstp else src) = dstp → NShape H1 self D src dstp auxp N NC K nb extend := by
    intro H1 dstp auxp h1 hE h2 h3 h4 h5 h6 h7 h8
    refine ⟨hK1, hK, hN, hnb1, hnbNC, hbytes, h1, by rw [hE _ hDlive]; exact hD, h2, h3, h4, by rw [hE _ hsrcl]; exact hsrc,
      h5, h6, h7, h8, hsK, hs32, by rw [hE _ hrl]; exact hroots, by rw [hE _ hpl]; exact hpti, fun e => ?_⟩
    have := hr_ e
    rw [hE _ (Heap.lt_size_of_live hp _ (by omega))]; exact this
  have hselp : ∀ p : Ptr, p.blk ≠ 0 → (if (p != Ptr.null) = true then p else src) = p := by
    intro p hp0
    have : (p != Ptr.null) = true := by
      rw [bne_iff_ne]; intro e; rw [e] at hp0; exact hp0 rfl
    rw [if_pos this]
  have hloopsame : ∀ (H1 : Heap) (dstp auxp : Ptr) (y : Heap × BitVec 64), 0 < H1.size →
      Loop.rangeM 0 nb 1 (H1, 0#64) (NTT_NTT_loop2 fuel D src (bv N) (bv NC) nphase (bv nb) inverse extend self
        (bv (NC / nb)) (bv (NC % nb)) dstp auxp) = some y → Heap.Same H1 y.1 := by
    intro H1 dstp auxp y h1 hy
    exact OInv.rangeM (P := fun r => Heap.Same H1 r.1) _ _ _ _ _ (Heap.Same.refl _)
      (fun i s hs' => NTT_loop2_same fuel D src (bv N) (bv NC) nphase (bv nb) inverse extend self _ _ dstp auxp i H1 s h1 hs') y hy
  by_cases hb : (buffer == Ptr.null) = true <;> by_cases hn : 1 < nb
  · -- own scratch, block destination allocated
    simp only [if_pos hb, hn, decide_true, if_true]
    have e1 : (hp.alloc (N * colA NC nb)).1.size = hp.size + 1 := Heap.size_alloc _ _
    have hE : ∀ b, b < hp.size → ((hp.alloc (N * colA NC nb)).1.alloc (N * colA NC nb)).1.ext b = hp.ext b := by
      intro b hb'
      rw [ext_alloc_lt _ _ _ (by omega), ext_alloc_lt _ _ _ hb']
    have hb2 : ((hp.alloc (N * colA NC nb)).1.alloc (N * colA NC nb)).2.blk = hp.size + 1 := by rw [Heap.alloc_blk, e1]
    have hb1 : (hp.alloc (N * colA NC nb)).2.blk = hp.size := Heap.alloc_blk _ _
    have hx2 : ((hp.alloc (N * colA NC nb)).1.alloc (N * colA NC nb)).1.ext
        ((hp.alloc (N * colA NC nb)).1.alloc (N * colA NC nb)).2.blk = N * colA NC nb := ext_alloc_new _ _
    have hx1 : ((hp.alloc (N * colA NC nb)).1.alloc (N * colA NC nb)).1.ext (hp.alloc (N * colA NC nb)).2.blk = N * colA NC nb := by
      rw [ext_alloc_lt _ _ _ (by rw [hb1, e1]; omega)]; exact ext_alloc_new _ _
    have hpos1 : 0 < ((hp.alloc (N * colA NC nb)).1.alloc (N * colA NC nb)).1.size := by rw [Heap.size_alloc]; omega
    refine ⟨NTT_blocks_safe fuel hf _ self D src _ _ N NC K nb nphase inverse extend
      (mk _ _ _ hpos1 hE (by rw [hx2]; exact Nat.le_of_eq (Nat.zero_add _)) (by rw [hx1]; exact Nat.le_of_eq (Nat.zero_add _))
        (by rw [hb2, hb1]; omega) (fun _ => by rw [hb2]; omega) (by rw [hb1]; omega) (fun _ => by rw [hb2]; omega)
        (hselp _ (by rw [hb2]; omega))), fun y hy => ?_⟩
    have hsy := hloopsame _ _ _ y hpos1 hy
    refine ⟨fun _ => Or.inr ⟨rfl, by rw [hsy.2, hx2]; exact hNApos⟩, fun _ => Or.inr ⟨rfl, ?_⟩⟩
    rw [Heap.ext_free, if_neg (fun x => by rw [hb1, hb2] at x; omega), hsy.2, hx1]; exact hNApos
  · -- own scratch, one block
    have hn' : decide (1 < nb) = false := by simp [hn]
    simp only [if_pos hb, hn', Bool.false_eq_true, if_false]
    have hb1 : (hp.alloc (N * colA NC nb)).2.blk = hp.size := Heap.alloc_blk _ _
    have hx1 : (hp.alloc (N * colA NC nb)).1.ext (hp.alloc (N * colA NC nb)).2.blk = N * colA NC nb := ext_alloc_new _ _
    have hpos1 : 0 < (hp.alloc (N * colA NC nb)).1.size := by rw [Heap.size_alloc]; omega
    have hnb : nb = 1 := by omega
    have hA1 : colA NC nb = NC := by rw [hnb]; exact colA_one NC
    refine ⟨NTT_blocks_safe fuel hf _ self D src _ _ N NC K nb nphase inverse extend
      (mk _ _ _ hpos1 (fun b hb' => ext_alloc_lt _ _ _ hb') (by rw [ext_alloc_lt _ _ _ hDlive, hA1]; exact hD)
        (by rw [hx1]; exact Nat.le_of_eq (Nat.zero_add _)) (by rw [hb1]; omega) hds (by rw [hb1]; omega)
        (fun h => absurd h hn) hsel), fun y hy => ?_⟩
    have hsy := hloopsame _ _ _ y hpos1 hy
    exact ⟨fun h => h.elim, fun _ => Or.inr ⟨rfl, by rw [hsy.2, hx1]; exact hNApos⟩⟩
  · -- caller buffer, block destination allocated
    have hbn : buffer ≠ Ptr.null := by simpa using hb
    obtain ⟨hbe, hbD, hbs⟩ := hbuf hbn
    have hbl : buffer.blk < hp.size := Heap.lt_size_of_live hp _ (by
      have : 0 < N * NC := Nat.mul_pos hN0 hNC
      omega)
    simp only [if_neg hb, hn, decide_true, if_true]
    have hb2 : (hp.alloc (N * colA NC nb)).2.blk = hp.size := Heap.alloc_blk _ _
    have hx2 : (hp.alloc (N * colA NC nb)).1.ext (hp.alloc (N * colA NC nb)).2.blk = N * colA NC nb := ext_alloc_new _ _
    have hpos1 : 0 < (hp.alloc (N * colA NC nb)).1.size := by rw [Heap.size_alloc]; omega
    refine ⟨NTT_blocks_safe fuel hf _ self D src _ _ N NC K nb nphase inverse extend
      (mk _ _ _ hpos1 (fun b hb' => ext_alloc_lt _ _ _ hb') (by rw [hx2]; exact Nat.le_of_eq (Nat.zero_add _))
        (by rw [ext_alloc_lt _ _ _ hbl]; omega) (by rw [hb2]; omega) (fun _ => by rw [hb2]; omega) hbs
        (fun _ => by rw [hb2]; omega) (hselp _ (by rw [hb2]; omega))), fun y hy => ?_⟩
    have hsy := hloopsame _ _ _ y hpos1 hy
    exact ⟨fun _ => Or.inr ⟨rfl, by rw [hsy.2, hx2]; exact hNApos⟩, fun h => absurd h hb⟩
  · -- caller buffer, one block
    have hbn : buffer ≠ Ptr.null := by simpa using hb
    obtain ⟨hbe, hbD, hbs⟩ := hbuf hbn
    have hn' : decide (1 < nb) = false := by simp [hn]
    simp only [if_neg hb, hn', Bool.false_eq_true, if_false]
    have hnb : nb = 1 := by omega
    have hA1 : colA NC nb = NC := by rw [hnb]; exact colA_one NC
    refine ⟨NTT_blocks_safe fuel hf _ self D src _ _ N NC K nb nphase inverse extend
      (mk _ _ _ hpos (fun b _ => rfl) (by rw [hA1]; exact hD) (by omega) (fun e => hbD e.symm) hds hbs
        (fun h => absurd h hn) hsel), fun y hy => ?_⟩
    exact ⟨fun h => h.elim, fun h => absurd h hb⟩

theorem sel_dst' (dst src : Ptr) :
    (if ((if (dst == Ptr.null) = true then src else dst) == Ptr.null) = true then src
      else (if (dst == Ptr.null) = true then src else dst)) = (if (dst == Ptr.null) = true then src else dst) := by
  by_cases h : (dst == Ptr.null) = true
  · rw [if_pos h]
    by_cases h2 : (src == Ptr.null) = true
    · rw [if_pos h2]
    · rw [if_neg h2]
  · rw [if_neg h, if_neg h]

/-- the same with the pointer tests as propositions (`ptr_norm`) -/
theorem sel_dst_p (dst src : Ptr) :
    (if (if dst = Ptr.null then src else dst) = Ptr.null then src else (if dst = Ptr.null then src else dst)) =
      (if dst = Ptr.null then src else dst) := by
  by_cases h : dst = Ptr.null
  · rw [if_pos h]
    by_cases h2 : src = Ptr.null
    · rw [if_pos h2]
    · rw [if_neg h2]
  · rw [if_neg h, if_neg h]

/-- `INTT` = `NTT` with `inverse = true` on the same buffers -/
theorem INTT_safe (fuel : Nat) (hf : 64 ≤ fuel) (hp : Heap) (self : NTT_Goldilocks) (dst src buffer : Ptr) (N NC K : Nat)
    (nphase nblock : BitVec 64) (extend : Bool) (sh : NTTShape hp self dst src buffer N NC K extend) :
    NTT_INTT.Safe fuel hp self dst src (bv N) (bv NC) buffer nphase nblock extend := by
  unfold NTT_INTT.Safe
  zeta_goal
  intro _
  refine NTT_safe fuel hf hp self _ src buffer N NC K nphase nblock true extend ?_
  obtain ⟨h1, h2, h3, h4, h5, h6, h7, h8, h9, h10, h11, h12, h13, h14, h15, h16⟩ := sh
  refine ⟨h1, h2, h3, h4, h5, h6, ?_, h8, h9, ?_, ?_, h12, h13, h14, h15, h16⟩
  · ptr_norm at h7 ⊢; rw [sel_dst_p]; exact h7
  · ptr_norm at h10 ⊢; rw [sel_dst_p]; exact h10
  · ptr_norm at h11 ⊢; rw [sel_dst_p]; exact h11

end GoldilocksVerif.HeapSafe
