/-
  Footprints of the bodies of the row loops of the model: block scatter (`scatterBlock`, ntt_goldilocks.cpp:219) and
  the four loops of `reversePermutation` (out of place :254/:267, in place :289/:311).  The bodies are named here
  (`scatterBody`, `revOutBody`, `revInBody`) and shown to be the bodies of the model's loops (`*_eq`).
  Helper of Props/C12.lean.
-/
import GoldilocksVerif.Lemmas.NttPar
import GoldilocksVerif.Lemmas.NttRevPerm

namespace GoldilocksVerif.Par
open GoldilocksVerif.Model.Ntt

/-- the words of a footprint given in abstract cells: cell `(buffer, r)` owns the words `j` with `cells (buffer, r) j` -/
def liftOf (cells : Nat × Nat → Nat → Prop) (F : Nat × Nat → Prop) : Nat × Nat → Prop :=
  fun w => ∃ r, F (w.1, r) ∧ cells (w.1, r) w.2

/-- Bernstein's conditions on cells give Bernstein's conditions on words when a word lies in one WRITTEN cell only -/
theorem FootIndep.lift (cells : Nat × Nat → Nat → Prop) {R1 W1 R2 W2 : Nat × Nat → Prop} (h : FootIndep R1 W1 R2 W2)
    (huniq : ∀ b r r' j, (W1 (b, r) ∨ W2 (b, r)) → cells (b, r) j → cells (b, r') j → r = r') :
    FootIndep (liftOf cells R1) (liftOf cells W1) (liftOf cells R2) (liftOf cells W2) := by
  refine ⟨?_, ?_, ?_⟩
  · rintro ⟨b, j⟩ ⟨⟨r, hr, c⟩, ⟨r', hr', c'⟩⟩
    have := huniq b r r' j (Or.inl hr) c c'
    subst this
    exact h.1 _ ⟨hr, hr'⟩
  · rintro ⟨b, j⟩ ⟨⟨r, hr, c⟩, ⟨r', hr', c'⟩⟩
    have := huniq b r r' j (Or.inl hr) c c'
    subst this
    exact h.2.1 _ ⟨hr, hr'⟩
  · rintro ⟨b, j⟩ ⟨⟨r, hr, c⟩, ⟨r', hr', c'⟩⟩
    have := huniq b r r' j (Or.inr hr) c c'
    subst this
    exact h.2.2 _ ⟨hr, hr'⟩

/-- a writer applied to its own buffer is local to any set of words containing what it reads and writes -/
theorem Writer.toLocal {g : Buf → Buf → Buf} {Rd Wr X : Nat → Prop} (h : Writer g Rd Wr) (hR : ∀ j, Rd j → X j)
    (hW : ∀ j, Wr j → X j) : Local (fun d => g d d) X where
  size := fun a => h.size a a
  frame := fun a j hj => h.frame a a j (fun hw => hj (hW j hw))
  dep := by
    intro a a' hs hag j hj
    by_cases hw : Wr j
    · exact h.dep a a' a a' hs (fun j' hj' => hag j' (hR j' hj')) j hw
    · rw [h.frame a a j hw, h.frame a' a' j hw]; exact hag j hj

end GoldilocksVerif.Par

namespace GoldilocksVerif.Model.Ntt
open GoldilocksVerif.Par

/-! ### block scatter -/

/-- body of the scatter loop: `memcpy(&dst[ie*ncols + offset_cols], &dst_[ie*aux_ncols], aux_ncols)` -/
def scatterBody (ncols oc aux : Nat) (ie : Nat) (d dst : Buf) : Buf :=
  copyRow dst (ie * ncols + oc) d (ie * aux) aux

theorem scatterBlock_eq (dst d : Buf) (size ncols oc aux : Nat) :
    scatterBlock dst d size ncols oc aux = iter size dst (fun ie dst => scatterBody ncols oc aux ie d dst) := rfl

theorem scatterBody_writer (ncols oc aux ie : Nat) :
    Writer (scatterBody ncols oc aux ie) (fun j => ie * aux ≤ j ∧ j < ie * aux + aux)
      (fun j => ie * ncols + oc ≤ j ∧ j < ie * ncols + oc + aux) :=
  copyRow_writer (ie * ncols + oc) (ie * aux) aux

/-- iteration `ie` on the state `(dst_, dst)` -/
def scatterIter (ncols oc aux ie : Nat) : PIter view2 :=
  PIter.ofWriter (scatterBody ncols oc aux ie) _ _ (scatterBody_writer ncols oc aux ie)

/-! ### bit reversal, destination distinct from the source -/

/-- body of the two out-of-place loops (`extension ≤ 1`: plain; otherwise zero-extending) -/
def revOutBody (o : Obj) (size oc nc nca : Nat) (i : Nat) (src d : Buf) : Buf :=
  if o.extension ≤ 1 then copyRow d (i * nc) src (br i (log2 size) * nca + oc) nc
  else if br i (log2 size) * nca + oc < size / o.extension * nca then
    copyRow d (i * nc) src (br i (log2 size) * nca + oc) nc
  else zeroRow d (i * nc) nc

theorem reversePermutation_out_eq (o : Obj) (dst src : Buf) (size oc nc nca : Nat) :
    reversePermutation o dst src false size oc nc nca
      = .ok (iter size dst (fun i d => revOutBody o size oc nc nca i src d)) := by
  unfold reversePermutation revOutBody
  simp only [Bool.not_false, if_true]
  by_cases hext : o.extension ≤ 1
  · simp only [if_pos hext]
  · simp only [if_neg hext]

theorem revOutBody_writer (o : Obj) (size oc nc nca i : Nat) :
    Writer (revOutBody o size oc nc nca i)
      (fun j => br i (log2 size) * nca + oc ≤ j ∧ j < br i (log2 size) * nca + oc + nc)
      (fun j => i * nc ≤ j ∧ j < i * nc + nc) := by
  unfold revOutBody
  exact Writer.ite _ (copyRow_writer _ _ _) (Writer.ite _ (copyRow_writer _ _ _) (zeroRow_writer _ _ _))

/-- iteration `i` on the state `(src, dst)` -/
def revOutIter (o : Obj) (size oc nc nca i : Nat) : PIter view2 :=
  PIter.ofWriter (revOutBody o size oc nc nca i) _ _ (revOutBody_writer o size oc nc nca i)

/-! ### bit reversal in place -/

/-- body of the two in-place loops -/
def revInBody (o : Obj) (size nc : Nat) (i : Nat) (d : Buf) : Buf :=
  if o.extension ≤ 1 then
    if br i (log2 size) < i then
      copyRow (copyRow d (br i (log2 size) * nc) d (i * nc) nc) (i * nc)
        (copyRow (Array.replicate nc 0#64) 0 d (br i (log2 size) * nc) nc) 0 nc
    else d
  else
    if br i (log2 size) < i then swapStep (size / o.extension) nc d (br i (log2 size)) i
    else if br i (log2 size) = i ∧ size / o.extension ≤ i then zeroRow d (i * nc) nc
    else d

theorem reversePermutation_in_eq (o : Obj) (dst src : Buf) (size nc : Nat) :
    reversePermutation o dst src true size 0 nc nc = .ok (iter size src (revInBody o size nc)) := by
  unfold reversePermutation revInBody swapStep
  simp only [Bool.not_true, Bool.false_eq_true, if_false, and_self, decide_true]
  by_cases hext : o.extension ≤ 1
  · simp only [if_pos hext]
  · simp only [if_neg hext]

theorem reversePermutation_in_assert (o : Obj) (dst src : Buf) (size oc nc nca : Nat) (h : ¬ (oc = 0 ∧ nc = nca)) :
    reversePermutation o dst src true size oc nc nca = .error "assert(offset_cols == 0 && ncols == ncols_all)" := by
  unfold reversePermutation
  simp only [Bool.not_true, Bool.false_eq_true, if_false]
  have hc : (!decide (oc = 0 ∧ nc = nca)) = true := by rw [decide_eq_false h]; rfl
  rw [if_pos hc]

/-- the swap of rows `r` and `i` touches these two rows only -/
theorem swapStep_local (nIn nc r i : Nat) :
    Local (fun d => swapStep nIn nc d r i) (rowsW nc (fun p => p = i ∨ p = r)) where
  size := fun d => swapStep_size nIn nc d r i
  frame := by
    intro d j hj
    have hi : ¬ (i * nc ≤ j ∧ j < i * nc + nc) := fun c => hj ⟨i, Or.inl rfl, c.1, c.2⟩
    have hr : ¬ (r * nc ≤ j ∧ j < r * nc + nc) := fun c => hj ⟨r, Or.inr rfl, c.1, c.2⟩
    unfold swapStep
    simp only
    rw [copyRow_getD, if_neg (fun c => hi ⟨c.1, c.2.1⟩)]
    by_cases h : i < nIn
    · rw [if_pos h, copyRow_getD, if_neg (fun c => hr ⟨c.1, c.2.1⟩)]
    · rw [if_neg h, zeroRow_getD, if_neg (fun c => hr ⟨c.1, c.2.1⟩)]
  dep := by
    intro d d' hs hag j hj
    -- the intermediate buffer `d1`
    have h1 : Local (fun d => if i < nIn then copyRow d (r * nc) d (i * nc) nc else zeroRow d (r * nc) nc)
        (rowsW nc (fun p => p = i ∨ p = r)) := by
      have hcp : Local (fun d => copyRow d (r * nc) d (i * nc) nc) (rowsW nc (fun p => p = i ∨ p = r)) := by
        refine Writer.toLocal (copyRow_writer (r * nc) (i * nc) nc) ?_ ?_
        · intro j hj; exact ⟨i, Or.inl rfl, hj.1, hj.2⟩
        · intro j hj; exact ⟨r, Or.inr rfl, hj.1, hj.2⟩
      have hz : Local (fun d => zeroRow d (r * nc) nc) (rowsW nc (fun p => p = i ∨ p = r)) := by
        refine Writer.toLocal (zeroRow_writer (fun _ => False) (r * nc) nc) ?_ ?_
        · intro j hj; exact hj.elim
        · intro j hj; exact ⟨r, Or.inr rfl, hj.1, hj.2⟩
      exact Local.ite _ hcp hz
    have hd1 := h1.dep d d' hs hag j hj
    have hs1 := h1.size d
    have hs1' := h1.size d'
    unfold swapStep
    simp only
    rw [copyRow_getD, copyRow_getD, hs1, hs1', hs]
    by_cases hc : i * nc ≤ j ∧ j < i * nc + nc ∧ j < d'.size
    · rw [if_pos hc, if_pos hc]
      by_cases hrn : r < nIn
      · simp only [if_pos hrn]
        rw [copyRow_getD, copyRow_getD, Array.size_replicate, if_pos (by omega), if_pos (by omega)]
        exact hag _ ⟨r, Or.inr rfl, by omega, by omega⟩
      · simp only [if_neg hrn]
    · rw [if_neg hc, if_neg hc]
      exact hd1

/-- the rows iteration `i` of an in-place loop touches: `i` and `r = BR(i)` when `r < i`, `i` when `r = i` -/
def swapRows (r i : Nat) : Nat → Prop := fun p => (r < i ∧ (p = i ∨ p = r)) ∨ (r = i ∧ p = i)

theorem revInBody_local (o : Obj) (size nc i : Nat) :
    Local (revInBody o size nc i) (rowsW nc (swapRows (br i (log2 size)) i)) := by
  generalize hr : br i (log2 size) = r
  have e : revInBody o size nc i = fun d =>
      if o.extension ≤ 1 then (if r < i then swapStep (r + i + 1) nc d r i else d)
      else (if r < i then swapStep (size / o.extension) nc d r i
        else if r = i ∧ size / o.extension ≤ i then (fun d => zeroRow d (i * nc) nc) d else d) := by
    funext d
    unfold revInBody swapStep
    simp only [hr]
    rw [if_pos (show r < r + i + 1 by omega), if_pos (show i < r + i + 1 by omega)]
  rw [e]
  have hsw : ∀ nIn, r < i → Local (fun d => swapStep nIn nc d r i) (rowsW nc (swapRows r i)) := by
    intro nIn hri
    apply (swapStep_local nIn nc r i).mono
    rintro j ⟨p, hp, h1, h2⟩
    exact ⟨p, Or.inl ⟨hri, hp⟩, h1, h2⟩
  apply Local.ite
  · by_cases hri : r < i
    · simp only [if_pos hri]; exact hsw _ hri
    · simp only [if_neg hri]; exact Local.id _
  · by_cases hri : r < i
    · simp only [if_pos hri]; exact hsw _ hri
    · simp only [if_neg hri]
      by_cases hz : r = i ∧ size / o.extension ≤ i
      · simp only [if_pos hz]
        refine Writer.toLocal (zeroRow_writer (fun _ => False) (i * nc) nc) ?_ ?_
        · intro j hj; exact hj.elim
        · intro j hj; exact ⟨i, Or.inr ⟨hz.1, rfl⟩, hj.1, hj.2⟩
      · simp only [if_neg hz]; exact Local.id _

/-- iteration `i` of an in-place loop, on the state `src` -/
def revInIter (o : Obj) (size nc i : Nat) : PIter view1 :=
  PIter.ofLocal (revInBody o size nc i) _ (revInBody_local o size nc i)

end GoldilocksVerif.Model.Ntt
