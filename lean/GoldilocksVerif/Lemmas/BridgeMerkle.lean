/-
  Bridge: the TRANSLATED Merkle builders `merkletree_seq` and `merkletree_avx` (Gen/MerkleGen.lean, regenerated from
  poseidon_goldilocks.cpp on every run: the two `#pragma omp parallel for` loops sequentially, `while (pending > 1)` as a
  fuel-bounded fold, `floor((pending - 1) / 2) + 1` through `F64`) build `Model.merkleTree` of Model/Sponge.lean.

  Shape of the argument
    * `mt_seq_generic`, `mt_avx_generic`: both generated builders EQUAL the reference text `mtGenG LH H` (kept here),
      instantiated with the translated linear hash `LH` and the translated capacity-sized hash `H` they call.  Proved
      extensionally by `gen_equiv` (Lemmas/BridgeEquiv.lean), not by `rfl`: the number / names / captured variables of the
      lifted loop bodies, hoisted invariants (`row_size`, `parentIndex`), `(i*c)*d` vs `i*(c*d)`, `x >> 1` vs `x / 2`,
      copy-then-zero vs zero-then-copy of the node input, inverted `if`s do not matter; a change of an offset, a length, a
      callee or the loop structure does.
    * `mtGenG_spec`: for every `LH` that returns the 4-word digest `leaf` of its input words and writes nothing else
      (`hLH`: what Lemmas/BridgeSponge.lean proves about the translated linear hashes) and every `H` whose first four output
      words are a function `nodeF` of its twelve input words and which writes nothing else (`hH`), for rows = 2^k (k ≤ 48),
      rows·cols·dim < 2^64 and fuel > rows, fuel > cols·dim: the builder returns, the first 4·(2·rows − 1) words of the
      tree buffer are `merkleTree leaf (fun x => nodeF (x ++ zeros 4)) rows`, and nothing beyond them is written.
-/
import GoldilocksVerif.Gen.MerkleGen
import GoldilocksVerif.Lemmas.MerkleL
import GoldilocksVerif.Lemmas.BridgeSponge
set_option linter.unusedSimpArgs false

namespace GoldilocksVerif
open Model Gen.MerkleGen

/-! ### the generated text, generic in the two hash calls -/

def mtLeafG (LH : Nat → Region → Region → BitVec 64 → Option Region) (fuel : Nat) (input : Region)
    (num_cols dim : BitVec 64) (i : Nat) (st__ : Region) : Option Region :=
  let tree := st__
  (LH fuel (Region.shift tree (4 * i)) (Region.shift input ((((BitVec.ofNat 64 i) * num_cols) * dim)).toNat) (num_cols * dim)).bind fun r_1 =>
  let tree := (Region.unshift tree (4 * i) r_1)
  some tree

def mtNodeG (H : Region → Region → Region) (pending nextIndex : BitVec 64) (i : Nat) (st__ : Region) : Option Region :=
  let tree := st__
  let pol_input : Region := Region.zero
  let pol_input := (Region.zeroN pol_input 12)
  let pol_input := (Region.copyN pol_input (Region.shift tree ((nextIndex + (BitVec.ofNat 64 (8 * i)))).toNat) 8)
  let r_3 := H (Region.shift tree ((nextIndex + ((pending + (BitVec.ofNat 64 i)) * 4#64))).toNat) pol_input
  let tree := (Region.unshift tree ((nextIndex + ((pending + (BitVec.ofNat 64 i)) * 4#64))).toNat r_3)
  some tree

def mtLevelG (H : Region → Region → Region) (st__ : Region × BitVec 64 × BitVec 64 × BitVec 64) :
    Option (Bool × (Region × BitVec 64 × BitVec 64 × BitVec 64)) :=
  let tree := st__.1
  let nextIndex := st__.2.1
  let pending := st__.2.2.1
  let nextN := st__.2.2.2
  if (decide (pending > 1#64)) then
    (Loop.rangeM 0 (nextN).toNat 1 tree (mtNodeG H pending nextIndex)).bind fun st_4 =>
    let tree := st_4
    let nextIndex := (nextIndex + (pending * 4#64))
    let pending := (pending / 2#64)
    let nextN := (F64.toU64 (F64.add (F64.floor (F64.ofU64 ((pending - 1#64) / 2#64))) (F64.ofNat 1)))
    some (true, (tree, nextIndex, pending, nextN))
  else
    some (false, (tree, nextIndex, pending, nextN))

def mtGenG (LH : Nat → Region → Region → BitVec 64 → Option Region) (H : Region → Region → Region) (fuel : Nat)
    (tree input : Region) (num_cols num_rows : BitVec 64) (nThreads : Int) (dim : BitVec 64) : Option Region :=
  if (num_rows == 0#64) then
    some tree
  else
    let nThreads := if (decide ((nThreads : Int) = (0 : Int))) then Omp.maxThreads else nThreads
    (Loop.rangeM 0 (num_rows).toNat 1 tree (mtLeafG LH fuel input num_cols dim)).bind fun st_2 =>
    let tree := st_2
    let pending : BitVec 64 := num_rows
    let nextN : BitVec 64 := (F64.toU64 (F64.add (F64.floor (F64.ofU64 ((pending - 1#64) / 2#64))) (F64.ofNat 1)))
    let nextIndex : BitVec 64 := 0#64
    (Loop.whileM (mtLevelG H) fuel (tree, nextIndex, pending, nextN)).bind fun st_5 =>
    let tree := st_5.1
    some tree

theorem mt_seq_generic (fuel : Nat) (tree input : Region) (num_cols num_rows : BitVec 64) (nThreads : Int) (dim : BitVec 64) :
    Pos_merkletree_seq fuel tree input num_cols num_rows nThreads dim =
      mtGenG Gen.LinearHashGen.Pos_linear_hash_seq Gen.PosScalar.Pos_hash_seq fuel tree input num_cols num_rows nThreads dim := by
  delta mtGenG mtLevelG mtNodeG mtLeafG
  delta_prefix "Gen.MerkleGen."
  gen_equiv

theorem mt_avx_generic (fuel : Nat) (tree input : Region) (num_cols num_rows : BitVec 64) (nThreads : Int) (dim : BitVec 64) :
    Pos_merkletree_avx fuel tree input num_cols num_rows nThreads dim =
      mtGenG Gen.LinearHashGen.Pos_linear_hash Gen.PosAvx2.Pos_hash fuel tree input num_cols num_rows nThreads dim := by
  delta mtGenG mtLevelG mtNodeG mtLeafG
  delta_prefix "Gen.MerkleGen."
  gen_equiv

/-! ### lists and regions -/

theorem toList_congr (s s' : Region) (n : Nat) (h : ∀ i, i < n → s i = s' i) : Region.toList s n = Region.toList s' n := by
  apply List.ext_getElem?
  intro j
  simp only [Region.getElem?_toList]
  by_cases hj : j < n
  · rw [if_pos hj, if_pos hj, h j hj]
  · rw [if_neg hj, if_neg hj]

theorem toList_add (t : Region) (a b : Nat) :
    Region.toList t (a + b) = Region.toList t a ++ Region.toList (Region.shift t a) b := by
  apply List.ext_getElem?
  intro j
  simp only [Region.getElem?_toList, List.getElem?_append, Region.length_toList, Region.shift_apply]
  split_ifs <;> first | rfl | omega | (congr 2; omega)

theorem toList_take (t : Region) (n m : Nat) (h : m ≤ n) : (Region.toList t n).take m = Region.toList t m := by
  apply List.ext_getElem?
  intro j
  simp only [Region.getElem?_toList, List.getElem?_take]
  split_ifs <;> first | rfl | omega

theorem toList_drop_take (t : Region) (n a b : Nat) (h : a + b ≤ n) :
    ((Region.toList t n).drop a).take b = Region.toList (Region.shift t a) b := by
  apply List.ext_getElem?
  intro j
  simp only [Region.getElem?_toList, List.getElem?_take, List.getElem?_drop, Region.shift_apply]
  split_ifs <;> first | rfl | omega

theorem nextLevel_snoc (node : List Wd → List Wd) : ∀ (i : Nat) (lvl : List Wd),
    nextLevel node (i + 1) lvl = nextLevel node i lvl ++ node ((lvl.drop (8 * i)).take 8) := by
  intro i
  induction i with
  | zero => intro lvl; simp [nextLevel]
  | succ i ih =>
    intro lvl
    have h1 : nextLevel node (i + 1 + 1) lvl = node (lvl.take 8) ++ nextLevel node (i + 1) (lvl.drop 8) := rfl
    have h2 : nextLevel node (i + 1) lvl = node (lvl.take 8) ++ nextLevel node i (lvl.drop 8) := rfl
    rw [h1, ih (lvl.drop 8), h2, List.append_assoc, List.drop_drop]
    have e : 8 + 8 * i = 8 * (i + 1) := by omega
    rw [e]

theorem upperLevels_one (node : List Wd → List Wd) (f : Nat) (lvl : List Wd) : upperLevels node f 1 lvl = [] := by
  cases f <;> simp [upperLevels]

theorem upperLevels_succ (node : List Wd → List Wd) (f j : Nat) (lvl : List Wd) :
    upperLevels node (f + 1) (2 ^ (j + 1)) lvl =
      nextLevel node (2 ^ j) lvl ++ upperLevels node f (2 ^ j) (nextLevel node (2 ^ j) lvl) := by
  have hpos : 0 < 2 ^ j := Nat.two_pow_pos j
  have h2 : (2 : Nat) ^ (j + 1) = 2 * 2 ^ j := by rw [Nat.pow_succ]; omega
  have hgt : ¬ (2 ^ (j + 1) ≤ 1) := by omega
  have hdiv : 2 ^ (j + 1) / 2 = 2 ^ j := by omega
  conv => lhs; unfold upperLevels
  simp only [hgt, if_false, hdiv]

theorem upperLevels_fuel (node : List Wd → List Wd) : ∀ (j f f' : Nat) (lvl : List Wd), j ≤ f → j ≤ f' →
    upperLevels node f (2 ^ j) lvl = upperLevels node f' (2 ^ j) lvl := by
  intro j
  induction j with
  | zero => intro f f' lvl _ _; rw [Nat.pow_zero, upperLevels_one, upperLevels_one]
  | succ j ih =>
    intro f f' lvl hf hf'
    obtain ⟨g, rfl⟩ : ∃ g, f = g + 1 := ⟨f - 1, by omega⟩
    obtain ⟨g', rfl⟩ : ∃ g', f' = g' + 1 := ⟨f' - 1, by omega⟩
    rw [upperLevels_succ, upperLevels_succ, ih g g' _ (by omega) (by omega)]

/-! ### doubles -/

theorem nextN_val (x : BitVec 64) (h : x.toNat + 1 < 2 ^ 53) :
    (F64.toU64 (F64.add (F64.floor (F64.ofU64 x)) (F64.ofNat 1))).toNat = x.toNat + 1 := by
  have h53 : (2 : Nat) ^ 53 = 9007199254740992 := by decide
  unfold F64.toU64 F64.add F64.floor F64.ofU64 F64.ofNat
  rw [F64.round_small x.toNat (by omega), F64.round_small 1 (by omega), F64.round_small (x.toNat + 1) (by omega)]
  rw [BitVec.toNat_ofNat]
  omega

/-! ### the leaves -/

/-- row i of the input (w = cols·dim words per row) -/
def rowOf (input : Region) (w i : Nat) : List Wd := Region.toList (Region.shift input (i * w)) w
def rowsOf (input : Region) (w R : Nat) : List (List Wd) := (List.range R).map (rowOf input w)

/-- what the bridge of the linear hashes provides -/
def LeafHash (LH : Nat → Region → Region → BitVec 64 → Option Region) (leaf : List Wd → List Wd) : Prop :=
  ∀ (fuel : Nat) (out inp : Region) (size : BitVec 64), size.toNat < fuel →
    ∃ out', LH fuel out inp size = some out' ∧ Region.toList out' 4 = leaf (Region.toList inp size.toNat) ∧
      ∀ k, 4 ≤ k → out' k = out k

theorem mt_leaves (LH : Nat → Region → Region → BitVec 64 → Option Region) (leaf : List Wd → List Wd)
    (hLH : LeafHash LH leaf) (fuel : Nat) (input tree : Region) (num_cols dim : BitVec 64) (R w : Nat)
    (hw : (num_cols * dim).toNat = w) (hidx : ∀ i, i < R → (((BitVec.ofNat 64 i) * num_cols) * dim).toNat = i * w)
    (hf : w < fuel) :
    ∃ t, Loop.rangeM 0 R 1 tree (mtLeafG LH fuel input num_cols dim) = some t ∧
      Region.toList t (4 * R) = (rowsOf input w R).flatMap leaf ∧ ∀ j, 4 * R ≤ j → t j = tree j := by
  obtain ⟨t, hr, h1, h2⟩ := Loop.rangeM_inv (mtLeafG LH fuel input num_cols dim)
    (fun i t => Region.toList t (4 * i) = ((List.range i).map (rowOf input w)).flatMap leaf ∧ ∀ j, 4 * i ≤ j → t j = tree j)
    0 R (Nat.zero_le _)
    (by
      intro i t _ hi ⟨hl, hfr⟩
      obtain ⟨out', ho, hd, hofr⟩ := hLH fuel (Region.shift t (4 * i))
        (Region.shift input ((((BitVec.ofNat 64 i) * num_cols) * dim)).toNat) (num_cols * dim) (by rw [hw]; exact hf)
      refine ⟨Region.unshift t (4 * i) out', by unfold mtLeafG; dsimp only; rw [ho]; rfl, ?_, ?_⟩
      · have e4 : 4 * (i + 1) = 4 * i + 4 := by omega
        rw [e4, toList_add, List.range_succ, List.map_append, List.flatMap_append, ← hl]
        congr 1
        · exact toList_congr _ _ _ (fun j hj => by rw [Region.unshift_apply, if_neg (by omega)])
        · have : Region.toList (Region.shift (Region.unshift t (4 * i) out') (4 * i)) 4 = Region.toList out' 4 :=
            toList_congr _ _ _ (fun j _ => by
              rw [Region.shift_apply, Region.unshift_apply, if_pos (by omega)]; congr 1; omega)
          rw [this, hd, hw, hidx i hi]
          simp [rowOf]
      · intro j hj
        rw [Region.unshift_apply, if_pos (by omega), hofr _ (by omega), Region.shift_apply]
        have : 4 * i + (j - 4 * i) = j := by omega
        rw [this]
        exact hfr j (by omega))
    tree ⟨by simp [Region.toList], fun j _ => rfl⟩
  exact ⟨t, hr, h1, h2⟩

/-! ### one level of pair hashes -/

/-- what is needed of the capacity-sized hash: four output words, a function of the twelve input words; nothing else written -/
def NodeHash (H : Region → Region → Region) (nodeF : List Wd → List Wd) : Prop :=
  ∀ out inp, Region.toList (H out inp) 4 = nodeF (Region.toList inp 12) ∧ ∀ k, 4 ≤ k → (H out inp) k = out k

theorem pol_input_list (t : Region) (a : Nat) :
    Region.toList (Region.copyN (Region.zeroN Region.zero 12) (Region.shift t a) 8) 12 =
      Region.toList (Region.shift t a) 8 ++ zeros 4 := by
  apply List.ext_getElem?
  intro j
  simp only [Region.getElem?_toList, List.getElem?_append, List.getElem?_replicate, Region.length_toList, zeros,
    Region.copyN_apply, Region.zeroN_apply, Region.shift_apply]
  split_ifs <;> first | rfl | omega

theorem mt_level (H : Region → Region → Region) (nodeF : List Wd → List Wd) (hH : NodeHash H nodeF)
    (t : Region) (pending nextIndex : BitVec 64) (ni p m : Nat)
    (hni : nextIndex.toNat = ni) (hp : pending.toNat = p) (hm : 2 * m = p) (hsmall : ni + 8 * p < 2 ^ 60) :
    ∃ t', Loop.rangeM 0 m 1 t (mtNodeG H pending nextIndex) = some t' ∧
      Region.toList (Region.shift t' (ni + 4 * p)) (4 * m) =
        nextLevel (fun x => nodeF (x ++ zeros 4)) m (Region.toList (Region.shift t ni) (4 * p)) ∧
      (∀ j, j < ni + 4 * p → t' j = t j) ∧ (∀ j, ni + 4 * p + 4 * m ≤ j → t' j = t j) := by
  obtain ⟨t', hr, h1, h2, h3⟩ := Loop.rangeM_inv (mtNodeG H pending nextIndex)
    (fun i ti => Region.toList (Region.shift ti (ni + 4 * p)) (4 * i) =
        nextLevel (fun x => nodeF (x ++ zeros 4)) i (Region.toList (Region.shift t ni) (4 * p)) ∧
      (∀ j, j < ni + 4 * p → ti j = t j) ∧ (∀ j, ni + 4 * p + 4 * i ≤ j → ti j = t j))
    0 m (Nat.zero_le _)
    (by
      intro i ti _ hi ⟨hl, hlo, hhi⟩
      have e_rd : (nextIndex + (BitVec.ofNat 64 (8 * i))).toNat = ni + 8 * i := by
        rw [BitVec.toNat_add, BitVec.toNat_ofNat, hni]; omega
      have e_wr : (nextIndex + ((pending + (BitVec.ofNat 64 i)) * 4#64)).toNat = ni + 4 * p + 4 * i := by
        rw [BitVec.toNat_add, BitVec.toNat_mul, BitVec.toNat_add, BitVec.toNat_ofNat, hni, hp]
        show (ni + (p + i % 2 ^ 64) % 2 ^ 64 * 4 % 2 ^ 64) % 2 ^ 64 = _
        omega
      obtain ⟨hd, hfr⟩ := hH (Region.shift ti (ni + 4 * p + 4 * i))
        (Region.copyN (Region.zeroN Region.zero 12) (Region.shift ti (ni + 8 * i)) 8)
      refine ⟨Region.unshift ti (ni + 4 * p + 4 * i) (H (Region.shift ti (ni + 4 * p + 4 * i))
          (Region.copyN (Region.zeroN Region.zero 12) (Region.shift ti (ni + 8 * i)) 8)), ?_, ?_, ?_, ?_⟩
      · unfold mtNodeG
        dsimp only
        rw [e_rd, e_wr]
      · have e4 : 4 * (i + 1) = 4 * i + 4 := by omega
        rw [e4, toList_add, nextLevel_snoc, ← hl]
        congr 1
        · exact toList_congr _ _ _ (fun j hj => by
            rw [Region.shift_apply, Region.shift_apply, Region.unshift_apply, if_neg (by omega)])
        · have e1 : Region.toList (Region.shift (Region.shift (Region.unshift ti (ni + 4 * p + 4 * i)
              (H (Region.shift ti (ni + 4 * p + 4 * i))
                (Region.copyN (Region.zeroN Region.zero 12) (Region.shift ti (ni + 8 * i)) 8))) (ni + 4 * p)) (4 * i)) 4 =
              Region.toList (H (Region.shift ti (ni + 4 * p + 4 * i))
                (Region.copyN (Region.zeroN Region.zero 12) (Region.shift ti (ni + 8 * i)) 8)) 4 :=
            toList_congr _ _ _ (fun j _ => by
              rw [Region.shift_apply, Region.shift_apply, Region.unshift_apply, if_pos (by omega)]; congr 1; omega)
          rw [e1, hd, pol_input_list, toList_drop_take _ _ _ _ (by omega)]
          congr 2
          exact toList_congr _ _ _ (fun j hj => by
            rw [Region.shift_apply, Region.shift_apply, Region.shift_apply, hlo _ (by omega)]; congr 1; omega)
      · intro j hj
        rw [Region.unshift_apply, if_neg (by omega)]
        exact hlo j hj
      · intro j hj
        rw [Region.unshift_apply, if_pos (by omega), hfr _ (by omega), Region.shift_apply]
        have : ni + 4 * p + 4 * i + (j - (ni + 4 * p + 4 * i)) = j := by omega
        rw [this]
        exact hhi j (by omega))
    t ⟨by simp [Region.toList, nextLevel], fun j _ => rfl, fun j _ => rfl⟩
  exact ⟨t', hr, h1, h2, h3⟩

/-! ### the levels and the whole builder -/

theorem half_pow (j : Nat) : ((2 : Nat) ^ j - 1) / 2 + 1 = if j = 0 then 1 else 2 ^ (j - 1) := by
  cases j with
  | zero => rfl
  | succ j =>
    have h2 : (2 : Nat) ^ (j + 1) = 2 * 2 ^ j := by rw [Nat.pow_succ]; omega
    have hpos : 0 < 2 ^ j := Nat.two_pow_pos j
    simp only [Nat.succ_ne_zero, if_false, Nat.add_sub_cancel]
    omega

theorem pow_le_48 (j : Nat) (h : j ≤ 48) : (2 : Nat) ^ j ≤ 2 ^ 48 := Nat.pow_le_pow_right (by omega) h

/-- invariant of `while (pending > 1)`: the buffer holds the leaves and the levels built so far, the current level is the
    last one; the rest of the model tree is `upperLevels` of the current level -/
def LevelInv (node : List Wd → List Wd) (M : List Wd) (tree : Region) (k : Nat)
    (s : Region × BitVec 64 × BitVec 64 × BitVec 64) : Prop :=
  ∃ j, j ≤ k ∧ s.2.2.1.toNat = 2 ^ j ∧ s.2.1.toNat = 8 * (2 ^ k - 2 ^ j) ∧
    s.2.2.2.toNat = (if j = 0 then 1 else 2 ^ (j - 1)) ∧
    M = Region.toList s.1 (8 * (2 ^ k - 2 ^ j) + 4 * 2 ^ j) ++
      upperLevels node j (2 ^ j) (Region.toList (Region.shift s.1 (8 * (2 ^ k - 2 ^ j))) (4 * 2 ^ j)) ∧
    ∀ i, 4 * (2 * 2 ^ k - 1) ≤ i → s.1 i = tree i

theorem mt_levels (H : Region → Region → Region) (nodeF : List Wd → List Wd) (hH : NodeHash H nodeF)
    (M : List Wd) (tree : Region) (k : Nat) (hk : k ≤ 48) (fuel : Nat)
    (s : Region × BitVec 64 × BitVec 64 × BitVec 64)
    (hinv : LevelInv (fun x => nodeF (x ++ zeros 4)) M tree k s) (hf : s.2.2.1.toNat < fuel) :
    ∃ s', Loop.whileM (mtLevelG H) fuel s = some s' ∧
      Region.toList s'.1 (4 * (2 * 2 ^ k - 1)) = M ∧ ∀ i, 4 * (2 * 2 ^ k - 1) ≤ i → s'.1 i = tree i := by
  refine Loop.whileM_inv (mtLevelG H) (LevelInv (fun x => nodeF (x ++ zeros 4)) M tree k)
    (fun s' => Region.toList s'.1 (4 * (2 * 2 ^ k - 1)) = M ∧ ∀ i, 4 * (2 * 2 ^ k - 1) ≤ i → s'.1 i = tree i)
    (fun s => s.2.2.1.toNat) ?_ fuel s hinv hf
  rintro ⟨t, nextIndex, pending, nextN⟩ ⟨j, hjk, hp, hni, hnn, hM, hfr⟩
  simp only at hp hni hnn hM hfr
  have hk48 := pow_le_48 k hk
  have hkpos : 0 < 2 ^ k := Nat.two_pow_pos k
  have hjle : 2 ^ j ≤ 2 ^ k := Nat.pow_le_pow_right (by omega) hjk
  have h1 : (1#64 : BitVec 64).toNat = 1 := rfl
  cases j with
  | zero =>
    left
    have hp1 : pending.toNat = 1 := by simpa using hp
    have hc : (decide (pending > 1#64)) = false := by
      rw [decide_eq_false_iff_not, gt_iff_lt, BitVec.lt_def, h1, hp1]; omega
    refine ⟨(t, nextIndex, pending, nextN), by unfold mtLevelG; simp only [hc, Bool.false_eq_true, if_false], ?_, hfr⟩
    simp only
    rw [hM, Nat.pow_zero, upperLevels_one, List.append_nil]
    congr 1
    omega
  | succ j =>
    right
    have h2 : (2 : Nat) ^ (j + 1) = 2 * 2 ^ j := by rw [Nat.pow_succ]; omega
    have hjpos : 0 < 2 ^ j := Nat.two_pow_pos j
    have hc : (decide (pending > 1#64)) = true := by
      rw [decide_eq_true_iff, gt_iff_lt, BitVec.lt_def, h1, hp]; omega
    have hnn' : nextN.toNat = 2 ^ j := by simpa using hnn
    obtain ⟨t', hr, hlvl, hlo, hhi⟩ := mt_level H nodeF hH t pending nextIndex (8 * (2 ^ k - 2 ^ (j + 1))) (2 ^ (j + 1))
      (2 ^ j) hni hp (by omega) (by omega)
    have e_ni : (nextIndex + (pending * 4#64)).toNat = 8 * (2 ^ k - 2 ^ j) := by
      rw [BitVec.toNat_add, BitVec.toNat_mul, hni, hp]
      show (8 * (2 ^ k - 2 ^ (j + 1)) + 2 ^ (j + 1) * 4 % 2 ^ 64) % 2 ^ 64 = _
      omega
    have e_p : (pending / 2#64).toNat = 2 ^ j := by
      rw [BitVec.toNat_udiv, hp]; show 2 ^ (j + 1) / 2 = _; omega
    have e_n : (F64.toU64 (F64.add (F64.floor (F64.ofU64 ((pending / 2#64 - 1#64) / 2#64))) (F64.ofNat 1))).toNat =
        (if j = 0 then 1 else 2 ^ (j - 1)) := by
      have ex : ((pending / 2#64 - 1#64) / 2#64).toNat = (2 ^ j - 1) / 2 := by
        rw [BitVec.toNat_udiv, BitVec.toNat_sub, e_p]
        show (2 ^ 64 - 1 + 2 ^ j) % 2 ^ 64 / 2 = _
        omega
      rw [nextN_val _ (by rw [ex]; omega), ex, half_pow]
    refine ⟨(t', nextIndex + (pending * 4#64), pending / 2#64,
        F64.toU64 (F64.add (F64.floor (F64.ofU64 ((pending / 2#64 - 1#64) / 2#64))) (F64.ofNat 1))), ?_, ?_, ?_⟩
    · unfold mtLevelG
      simp only [hc, if_true, hnn']
      rw [hr]
      rfl
    · refine ⟨j, by omega, e_p, e_ni, e_n, ?_, ?_⟩
      · simp only
        have ea : 8 * (2 ^ k - 2 ^ j) + 4 * 2 ^ j = (8 * (2 ^ k - 2 ^ (j + 1)) + 4 * 2 ^ (j + 1)) + 4 * 2 ^ j := by omega
        have eb : 8 * (2 ^ k - 2 ^ j) = 8 * (2 ^ k - 2 ^ (j + 1)) + 4 * 2 ^ (j + 1) := by omega
        have hsplit : Region.toList t' (8 * (2 ^ k - 2 ^ j) + 4 * 2 ^ j) =
            Region.toList t (8 * (2 ^ k - 2 ^ (j + 1)) + 4 * 2 ^ (j + 1)) ++
              Region.toList (Region.shift t' (8 * (2 ^ k - 2 ^ (j + 1)) + 4 * 2 ^ (j + 1))) (4 * 2 ^ j) := by
          rw [ea, toList_add t' (8 * (2 ^ k - 2 ^ (j + 1)) + 4 * 2 ^ (j + 1)) (4 * 2 ^ j)]
          congr 1
          exact toList_congr _ _ _ (fun i hi => hlo i hi)
        rw [hM, upperLevels_succ, hsplit, eb, hlvl, List.append_assoc]
      · intro i hi
        simp only
        rw [hhi i (by omega)]
        exact hfr i hi
    · simp only
      rw [e_p, hp]; omega

theorem row_index (num_cols dim : BitVec 64) (R i : Nat) (hi : i < R)
    (hprod : R * (num_cols.toNat * dim.toNat) < 2 ^ 64) :
    (((BitVec.ofNat 64 i) * num_cols) * dim).toNat = i * (num_cols.toNat * dim.toNat) := by
  have hlt : i * (num_cols.toNat * dim.toNat) < 2 ^ 64 :=
    Nat.lt_of_le_of_lt (Nat.mul_le_mul_right _ (Nat.le_of_lt hi)) hprod
  rw [BitVec.toNat_mul, BitVec.toNat_mul, BitVec.toNat_ofNat, Nat.mod_mul_mod, Nat.mul_assoc, Nat.mod_mul_mod]
  exact Nat.mod_eq_of_lt hlt

/-- the generated builder `mtGenG LH H` builds `Model.merkleTree` for rows = 2^k -/
theorem mtGenG_spec (LH : Nat → Region → Region → BitVec 64 → Option Region) (leaf : List Wd → List Wd)
    (hLH : LeafHash LH leaf) (H : Region → Region → Region) (nodeF : List Wd → List Wd) (hH : NodeHash H nodeF)
    (fuel : Nat) (tree input : Region) (num_cols num_rows : BitVec 64) (nThreads : Int) (dim : BitVec 64) (k : Nat)
    (hR : num_rows.toNat = 2 ^ k) (hk : k ≤ 48) (hprod : 2 ^ k * (num_cols.toNat * dim.toNat) < 2 ^ 64)
    (hf1 : num_cols.toNat * dim.toNat < fuel) (hf2 : 2 ^ k < fuel) :
    ∃ t, mtGenG LH H fuel tree input num_cols num_rows nThreads dim = some t ∧
      Region.toList t (4 * (2 * 2 ^ k - 1)) =
        merkleTree leaf (fun x => nodeF (x ++ zeros 4)) (rowsOf input (num_cols.toNat * dim.toNat) (2 ^ k)) ∧
      ∀ i, 4 * (2 * 2 ^ k - 1) ≤ i → t i = tree i := by
  have hkpos : 0 < 2 ^ k := Nat.two_pow_pos k
  have hk48 := pow_le_48 k hk
  have hw : (num_cols * dim).toNat = num_cols.toNat * dim.toNat := by
    rw [BitVec.toNat_mul]
    exact Nat.mod_eq_of_lt (Nat.lt_of_le_of_lt (Nat.le_mul_of_pos_left _ hkpos) hprod)
  have hne : (num_rows == 0#64) = false := by
    rw [beq_eq_false_iff_ne]
    intro h
    rw [h] at hR
    have : (0#64 : BitVec 64).toNat = 0 := rfl
    omega
  obtain ⟨t0, hr0, hl0, hfr0⟩ := mt_leaves LH leaf hLH fuel input tree num_cols dim (2 ^ k) (num_cols.toNat * dim.toNat) hw
    (fun i hi => row_index num_cols dim (2 ^ k) i hi hprod) hf1
  have hlen : (rowsOf input (num_cols.toNat * dim.toNat) (2 ^ k)).length = 2 ^ k := by simp [rowsOf]
  have e_n0 : (F64.toU64 (F64.add (F64.floor (F64.ofU64 ((num_rows - 1#64) / 2#64))) (F64.ofNat 1))).toNat =
      (if k = 0 then 1 else 2 ^ (k - 1)) := by
    have ex : ((num_rows - 1#64) / 2#64).toNat = (2 ^ k - 1) / 2 := by
      rw [BitVec.toNat_udiv, BitVec.toNat_sub, hR]
      show (2 ^ 64 - 1 + 2 ^ k) % 2 ^ 64 / 2 = _
      omega
    rw [nextN_val _ (by rw [ex]; omega), ex, half_pow]
  obtain ⟨s', hw', hM, hfr⟩ := mt_levels H nodeF hH
    (merkleTree leaf (fun x => nodeF (x ++ zeros 4)) (rowsOf input (num_cols.toNat * dim.toNat) (2 ^ k))) tree k hk fuel
    (t0, 0#64, num_rows, F64.toU64 (F64.add (F64.floor (F64.ofU64 ((num_rows - 1#64) / 2#64))) (F64.ofNat 1)))
    ⟨k, Nat.le_refl _, hR, by simp, e_n0, by
      simp only [Nat.sub_self, Nat.mul_zero, Nat.zero_add, Region.shift_zero]
      unfold merkleTree
      dsimp only
      rw [hlen, hl0, upperLevels_fuel _ k (2 ^ k) k _ (Nat.le_of_lt Nat.lt_two_pow_self) (Nat.le_refl _)],
     fun i hi => hfr0 i (by omega)⟩ (by simp only; omega)
  refine ⟨s'.1, ?_, hM, hfr⟩
  unfold mtGenG
  simp only [hne, Bool.false_eq_true, if_false, hR]
  rw [hr0]
  simp only [Option.bind_some]
  rw [hw']
  rfl

end GoldilocksVerif
