/-
  Poseidon (C06), part 3: the side conditions on the constant tables (Gen/PosConsts.lean) in the form the vector backends'
  proofs consume them: round constants canonical, M_ entries below 2^8, M_ / P_ the transposes of M / P.
  (The same finite facts are exported as `C06_tables_*` in Props/C06.lean.)
-/
import GoldilocksVerif.Gen.PosConsts
import GoldilocksVerif.Lemmas.ScalarNat
namespace GoldilocksVerif
open Gen.PosConsts

theorem all_getD {α : Type} (l : List α) (p : α → Bool) (d : α) (h : l.all p = true) (k : Nat) (hk : k < l.length) :
    p (l.getD k d) = true := by
  rw [List.all_eq_true] at h
  have e : l.getD k d = l[k] := by simp [hk]
  rw [e]
  exact h _ (List.getElem_mem hk)

theorem posC_canon (k : Nat) (hk : k < 118) : (c_Pos_C k).toNat < P := by
  have h : (c_Pos_C_list.all (fun x => decide (x.toNat < P))) = true := by decide +kernel
  have hl : c_Pos_C_list.length = 118 := by decide +kernel
  have := all_getD _ _ 0#64 h k (by omega)
  have e : c_Pos_C k = c_Pos_C_list.getD k 0#64 := rfl
  rw [e]
  exact of_decide_eq_true this

theorem posM__8bit (k : Nat) (hk : k < 144) : (c_Pos_M_ k).toNat < 256 := by
  have h : (c_Pos_M__list.all (fun x => decide (x.toNat < 256))) = true := by decide +kernel
  have hl : c_Pos_M__list.length = 144 := by decide +kernel
  have := all_getD _ _ 0#64 h k (by omega)
  have e : c_Pos_M_ k = c_Pos_M__list.getD k 0#64 := rfl
  rw [e]
  exact of_decide_eq_true this

theorem range_all (n : Nat) (p : Nat → Bool) (h : (List.range n).all p = true) (k : Nat) (hk : k < n) : p k = true := by
  rw [List.all_eq_true] at h
  exact h k (List.mem_range.mpr hk)

theorem posM__transp (k : Nat) (hk : k < 144) : c_Pos_M_ k = c_Pos_M (12 * (k % 12) + k / 12) := by
  have h : (List.range 144).all (fun k => c_Pos_M__list.getD k 0 == c_Pos_M_list.getD (12 * (k % 12) + k / 12) 0) = true := by
    decide +kernel
  have := range_all _ _ h k hk
  exact eq_of_beq this

theorem posP__transp (k : Nat) (hk : k < 144) : c_Pos_P_ k = c_Pos_P (12 * (k % 12) + k / 12) := by
  have h : (List.range 144).all (fun k => c_Pos_P__list.getD k 0 == c_Pos_P_list.getD (12 * (k % 12) + k / 12) 0) = true := by
    decide +kernel
  have := range_all _ _ h k hk
  exact eq_of_beq this

end GoldilocksVerif
