/-
  Field-level facts about the conversion models (Model/Conv.lean).  Helper lemmas for C15.
-/
import GoldilocksVerif.Model.Conv
import GoldilocksVerif.Lemmas.InvF
set_option linter.unusedSimpArgs false
namespace GoldilocksVerif
open Gen.Scalar Model

theorem P_cast_zero : ((P : Nat) : F) = 0 := ZMod.natCast_self P

/-- integers that differ by a multiple of p denote the same field element -/
theorem intCast_eq_of (a b k : Int) (h : a = b + (P : Int) * k) : ((a : Int) : F) = ((b : Int) : F) := by
  subst h
  push_cast
  rw [P_cast_zero]; ring

theorem den_eq_intCast (x : BitVec 64) : den x = (((x.toNat : Nat) : Int) : F) := by
  unfold den; push_cast; rfl

/-! fromScalar -/

theorem P_int : ((P : Nat) : Int) = 18446744069414584321 := by decide

theorem tmod_shift (x : Int) : ((x.tmod P) + P).tmod P = x.emod P := by
  show ((x.tmod P) + P).tmod P = x % (P : Int)
  rw [P_int]
  rcases Int.lt_or_le x 0 with hneg | hpos
  · -- x < 0 : x.tmod P = -((-x) % P)
    have e1 : x.tmod 18446744069414584321 = -((-x).tmod 18446744069414584321) := by rw [Int.neg_tmod, Int.neg_neg]
    have e2 : (-x).tmod 18446744069414584321 = (-x) % 18446744069414584321 := Int.tmod_eq_emod_of_nonneg (by omega)
    rw [e1, e2]
    have h3 : 0 ≤ -(-x % 18446744069414584321) + 18446744069414584321 := by omega
    rw [Int.tmod_eq_emod_of_nonneg h3]
    omega
  · have e1 : x.tmod 18446744069414584321 = x % 18446744069414584321 := Int.tmod_eq_emod_of_nonneg hpos
    rw [e1]
    have h3 : 0 ≤ x % 18446744069414584321 + 18446744069414584321 := by omega
    rw [Int.tmod_eq_emod_of_nonneg h3]
    omega

theorem fromScalar_toNat (x : Int) : (fromScalar x).toNat = (x.emod P).toNat := by
  unfold fromScalar getUi
  rw [tmod_shift, BitVec.toNat_ofNat]
  have h0 := Int.emod_nonneg x (show (P : Int) ≠ 0 by decide)
  have h1 := Int.emod_lt_of_pos x (show (0 : Int) < (P : Int) by decide)
  have : (x.emod P).natAbs = (x.emod P).toNat := by
    show (x % (P : Int)).natAbs = (x % (P : Int)).toNat
    omega
  rw [this]
  apply Nat.mod_eq_of_lt
  show (x % (P : Int)).toNat < 2 ^ 64
  have hP : (P : Int) < 2 ^ 64 := by decide
  omega

theorem fromScalar_den (x : Int) : den (fromScalar x) = (x : F) := by
  rw [den_eq_intCast, fromScalar_toNat]
  have h0 := Int.emod_nonneg x (show (P : Int) ≠ 0 by decide)
  have e : (((x.emod P).toNat : Nat) : Int) = x % (P : Int) := by
    show (((x % (P : Int)).toNat : Nat) : Int) = _
    omega
  rw [e]
  apply intCast_eq_of _ _ (-(x / (P : Int)))
  have := Int.emod_add_mul_ediv x (P : Int)
  rw [Int.mul_neg]; omega

theorem fromScalar_lt (x : Int) : (fromScalar x).toNat < P := by
  rw [fromScalar_toNat]
  have h1 := Int.emod_lt_of_pos x (show (0 : Int) < (P : Int) by decide)
  have h0 := Int.emod_nonneg x (show (P : Int) ≠ 0 by decide)
  show (x % (P : Int)).toNat < P
  omega

/-! fromS64 / fromS32 -/

theorem toInt_of_msb (x : BitVec 64) : x.toInt = if x.msb then (x.toNat : Int) - 18446744073709551616 else (x.toNat : Int) := by
  rw [BitVec.toInt_eq_msb_cond]; rfl

theorem msb64_iff (x : BitVec 64) : x.msb = decide (9223372036854775808 ≤ x.toNat) := by
  rw [BitVec.msb_eq_decide]

theorem fromS64_den (x : BitVec 64) : den (fromS64 x) = ((x.toInt : Int) : F) := by
  rw [den_eq_intCast, toInt_of_msb]
  unfold fromS64
  have hx := x.isLt
  by_cases h : x.msb = true
  · rw [if_pos h, if_pos h, BitVec.toNat_add]
    have h2 : 9223372036854775808 ≤ x.toNat := by rw [msb64_iff] at h; simpa using h
    have hP : (18446744069414584321#64 : BitVec 64).toNat = 18446744069414584321 := by decide
    rw [hP]
    apply intCast_eq_of _ _ 1
    unfold P; omega
  · rw [if_neg h, if_neg h]

theorem signExtend_toNat (x : BitVec 32) :
    (x.signExtend 64).toNat = if x.msb then x.toNat + 18446744069414584320 else x.toNat := by
  rw [BitVec.toNat_signExtend, BitVec.toNat_setWidth]
  have hx := x.isLt
  have e : x.toNat % 2 ^ 64 = x.toNat := Nat.mod_eq_of_lt (by omega)
  rw [e]
  by_cases hm : x.msb = true
  · rw [if_pos hm, if_pos hm]
  · rw [if_neg hm, if_neg hm]; rfl

theorem fromS32_den (x : BitVec 32) : den (fromS32 x) = ((x.toInt : Int) : F) := by
  rw [den_eq_intCast]
  unfold fromS32
  have hx := x.isLt
  rw [BitVec.toInt_eq_msb_cond]
  by_cases h : x.msb = true
  · rw [if_pos h, if_pos h, BitVec.toNat_add, signExtend_toNat, if_pos h]
    have hP : (18446744069414584321#64 : BitVec 64).toNat = 18446744069414584321 := by decide
    rw [hP]
    have h2 : 2147483648 ≤ x.toNat := by
      rw [BitVec.msb_eq_decide] at h; simpa using h
    apply intCast_eq_of _ _ 1
    unfold P; omega
  · rw [if_neg h, if_neg h, signExtend_toNat, if_neg h]


/-! toS64 / toS32 -/

/-- the centred representative of a canonical value -/
def centred (n : Nat) : Int := if n > (P - 1) / 2 then - ((P - n : Nat) : Int) else (n : Int)

theorem toS64_eq (a : BitVec 64) : toS64 a = centred (a.toNat % P) := by
  unfold toS64 centred
  rw [Model.toU64_r_toNat]

theorem toS64_range (a : BitVec 64) : -(((P - 1) / 2 : Nat) : Int) ≤ toS64 a ∧ toS64 a ≤ (((P - 1) / 2 : Nat) : Int) := by
  rw [toS64_eq]; unfold centred
  have h := Nat.mod_lt a.toNat (show 0 < P by decide)
  generalize a.toNat % P = n at *
  have hP : P = 18446744069414584321 := rfl
  have hh : (P - 1) / 2 = 9223372034707292160 := by decide
  rw [hh]
  split <;> omega

theorem toS64_den (a : BitVec 64) : ((toS64 a : Int) : F) = den a := by
  rw [toS64_eq, ← den_canon]
  unfold centred
  have h := Nat.mod_lt a.toNat (show 0 < P by decide)
  generalize a.toNat % P = n at *
  rw [show ((n : Nat) : F) = (((n : Nat) : Int) : F) from (Int.cast_natCast n).symm]
  split
  · apply intCast_eq_of _ _ (-1)
    have hP : P = 18446744069414584321 := rfl
    omega
  · rfl

theorem toS32_spec (a : BitVec 64) :
    ((toS32 a).1 = true ↔ (-2147483648 ≤ toS64 a ∧ toS64 a < 2147483648)) ∧
    ((toS32 a).1 = true → (toS32 a).2 = toS64 a) := by
  rw [toS64_eq]
  unfold toS32 centred
  rw [Model.toU64_r_toNat]
  have h := Nat.mod_lt a.toNat (show 0 < P by decide)
  generalize a.toNat % P = n at *
  have hP : P = 18446744069414584321 := rfl
  have hh : (P - 1) / 2 = 9223372034707292160 := by decide
  rw [hh]
  by_cases c1 : n > 2147483647
  · rw [if_pos c1]
    by_cases c2 : n ≥ P - 2147483648
    · rw [if_pos c2]
      have c3 : n > 9223372034707292160 := by omega
      rw [if_pos c3]
      refine ⟨⟨fun _ => by omega, fun _ => rfl⟩, fun _ => rfl⟩
    · rw [if_neg c2]
      refine ⟨⟨fun hf => by simp at hf, fun hr => ?_⟩, fun hf => by simp at hf⟩
      exfalso
      by_cases c3 : n > 9223372034707292160
      · rw [if_pos c3] at hr; omega
      · rw [if_neg c3] at hr; omega
  · rw [if_neg c1]
    have c3 : ¬ n > 9223372034707292160 := by omega
    rw [if_neg c3]
    refine ⟨⟨fun _ => by omega, fun _ => rfl⟩, fun _ => rfl⟩

/-! round trips -/

theorem rt_u64 (x : BitVec 64) (h : x.toNat < P) : toU64__rE (fromU64__rE x) = x := by
  apply BitVec.eq_of_toNat_eq
  rw [Model.toU64_r_toNat, fromU64_eq, Nat.mod_eq_of_lt h]

theorem canon_of_intCast (r : BitVec 64) (v : Int) (h : den r = ((v : Int) : F)) : ((r.toNat % P : Nat) : Int) = v % (P : Int) := by
  rw [den_eq_intCast] at h
  have := (ZMod.intCast_eq_intCast_iff' _ _ P).mp h
  rw [← this]
  push_cast; rfl

theorem centred_of (n : Nat) (v : Int) (hn : n < P) (hv : (n : Int) = v % (P : Int))
    (hr : -(9223372034707292160 : Int) ≤ v ∧ v ≤ 9223372034707292160) : centred n = v := by
  unfold centred
  have hh : (P - 1) / 2 = 9223372034707292160 := by decide
  rw [hh]
  rw [P_int] at hv
  have hP : P = 18446744069414584321 := rfl
  split <;> omega

theorem rt_s64 (x : BitVec 64) (h : -(9223372034707292160 : Int) ≤ x.toInt ∧ x.toInt ≤ 9223372034707292160) :
    toS64 (fromS64 x) = x.toInt := by
  rw [toS64_eq]
  exact centred_of _ _ (Nat.mod_lt _ (by decide)) (canon_of_intCast _ _ (fromS64_den x)) h

theorem rt_s32 (x : BitVec 32) : toS32 (fromS32 x) = (true, x.toInt) := by
  have hx := x.isLt
  have hr : -(2147483648 : Int) ≤ x.toInt ∧ x.toInt < 2147483648 := by
    rw [BitVec.toInt_eq_toNat_cond]
    simp only [Nat.reducePow]
    split <;> omega
  have e : toS64 (fromS32 x) = x.toInt := by
    rw [toS64_eq]
    exact centred_of _ _ (Nat.mod_lt _ (by decide)) (canon_of_intCast _ _ (fromS32_den x)) ⟨by omega, by omega⟩
  obtain ⟨s1, s2⟩ := toS32_spec (fromS32 x)
  rw [e] at s1 s2
  have ok : (toS32 (fromS32 x)).1 = true := s1.mpr hr
  have v := s2 ok
  exact Prod.ext ok v

/-! predicates depend only on the residue class -/

theorem equal_iff (a b : BitVec 64) : equal a b = true ↔ den a = den b := by
  rw [den_eq_iff]
  exact equal_iff_mod a b

theorem den_negone : den 18446744069414584320#64 = -1 := by
  have h : den 18446744069414584320#64 + 1 = 0 := by
    have : den 18446744069414584320#64 + den 1#64 = ((0 : Nat) : F) := by
      unfold den
      have e : ((18446744069414584320#64 : BitVec 64).toNat : F) + ((1#64 : BitVec 64).toNat : F) =
          (((18446744069414584320#64 : BitVec 64).toNat + (1#64 : BitVec 64).toNat : Nat) : F) := by push_cast; rfl
      rw [e]
      exact natCast_eq_of_mod _ _ (by decide)
    rw [den_one] at this
    simpa using this
  exact eq_neg_of_add_eq_zero_left h

theorem predicates (a : BitVec 64) :
    (isZero a = true ↔ den a = 0) ∧ (isOne a = true ↔ den a = 1) ∧ (isNegone a = true ↔ den a = -1) := by
  refine ⟨?_, ?_, ?_⟩
  · unfold isZero; rw [equal_iff]
    have : den zero__r = 0 := den_zero
    rw [this]
  · unfold isOne; rw [equal_iff]
    have : den one__r = 1 := den_one
    rw [this]
  · unfold isNegone; rw [equal_iff]
    have : den negone__r = -1 := den_negone
    rw [this]

end GoldilocksVerif
