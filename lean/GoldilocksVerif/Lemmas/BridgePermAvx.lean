/-
  Locality of the translated AVX2 and AVX512 permutations in the call pattern of `linear_hash` / `linear_hash_avx512`
  (`hash_full_result*(state, state)`): their first twelve (24) output words are a function of their first twelve (24)
  input words.  The generated bodies load three registers from the state, compute on registers (spilling state[0] (and
  state[4]) around the 22 partial rounds) and store three registers: `simp` collapses the final store chain to the register
  lanes, the spill / reload pairs to register lanes, and the three initial loads are equal for inputs that agree on the
  first twelve (24) words.  This discharges the hypotheses `hP` / `hP2` of Lemmas/BridgeSponge.lean.
-/
import GoldilocksVerif.Lemmas.BridgePerm

namespace GoldilocksVerif
open Gen.LinearHashGen Gen.Avx2Mat Gen.Avx512Mat Gen.PosAvx512

/-! ### AVX2: `hash_full_result(state, state)` and `hash(out, inp)` -/

/-- the twelve words three 4-lane registers hold -/
def W12 (b0 b1 b2 : V4) : Region :=
  Region.ofList [b0.l0, b0.l1, b0.l2, b0.l3, b1.l0, b1.l1, b1.l2, b1.l3, b2.l0, b2.l1, b2.l2, b2.l3]

theorem stores_words (S : Region) (b0 b1 b2 : V4) : ∀ i, i < 12 →
    (Region.unshift (Region.unshift (store_avx S b0) 4 (store_avx (Region.shift (store_avx S b0) 4) b1)) 8
      (store_avx (Region.shift (Region.unshift (store_avx S b0) 4 (store_avx (Region.shift (store_avx S b0) 4) b1)) 8) b2)) i =
      W12 b0 b1 b2 i := by
  refine br_forall_lt_12 _ ?_ ?_ ?_ ?_ ?_ ?_ ?_ ?_ ?_ ?_ ?_ ?_ <;>
    simp only [W12, Region.ofList_apply, Region.unshift_apply, store_avx, Avx2.store, Region.shift_apply,
      Nat.reduceLeDiff, Nat.reduceSub, ↓reduceIte, Nat.reduceEqDiff] <;> rfl

theorem reload_eq' (S : Region) (a0 : V4) (y : BitVec 64) :
    load_avx (Region.set (store_avx S a0) 0 y) = ⟨y, a0.l1, a0.l2, a0.l3⟩ := by
  simp only [load_avx, Avx2.load, store_avx, Avx2.store, Region.set_apply, ↓reduceIte, Nat.reduceEqDiff]

theorem store_get0 (S : Region) (a0 : V4) : (store_avx S a0) 0 = a0.l0 := by
  simp only [store_avx, Avx2.store, Region.mk_apply, ↓reduceIte]

theorem load_congr (a b : Region) (h0 : a 0 = b 0) (h1 : a 1 = b 1) (h2 : a 2 = b 2) (h3 : a 3 = b 3) :
    load_avx a = load_avx b := by
  simp only [load_avx, Avx2.load, h0, h1, h2, h3]

theorem loads_congr (t t' : Region) (h : Eq12 t t') :
    load_avx t = load_avx t' ∧ load_avx (Region.shift t 4) = load_avx (Region.shift t' 4) ∧
    load_avx (Region.shift t 8) = load_avx (Region.shift t' 8) := by
  refine ⟨load_congr _ _ (h 0 (by omega)) (h 1 (by omega)) (h 2 (by omega)) (h 3 (by omega)), ?_, ?_⟩
  · exact load_congr _ _ (by simpa using h 4 (by omega)) (by simpa using h 5 (by omega)) (by simpa using h 6 (by omega))
      (by simpa using h 7 (by omega))
  · exact load_congr _ _ (by simpa using h 8 (by omega)) (by simpa using h 9 (by omega)) (by simpa using h 10 (by omega))
      (by simpa using h 11 (by omega))

set_option maxRecDepth 16384 in
/-- `hash_full_result(state, state)` (AVX2): the first twelve output words depend only on the first twelve input words -/
theorem perm_avx_local (s s' : Region) (h : Eq12 s s') :
    Eq12 (Pos_hash_full_result_al_state_input s) (Pos_hash_full_result_al_state_input s') := by
  obtain ⟨hl0, hl1, hl2⟩ := loads_congr _ _ (copy12_congr s s' h)
  intro i hi
  simp only [Pos_hash_full_result_al_state_input, stores_words _ _ _ _ i hi, reload_eq', store_get0, hl0, hl1, hl2]

set_option maxRecDepth 16384 in
/-- `hash_full_result(state, input)` (AVX2): the first twelve output words depend only on the first twelve input words -/
theorem perm_avx2_local (st s s' : Region) (h : Eq12 s s') :
    Eq12 (Gen.PosAvx2.Pos_hash_full_result st s) (Gen.PosAvx2.Pos_hash_full_result st s') := by
  obtain ⟨hl0, hl1, hl2⟩ := loads_congr _ _ (copy12_in_congr st s s' h)
  intro i hi
  simp only [Gen.PosAvx2.Pos_hash_full_result, stores_words _ _ _ _ i hi, reload_eq', store_get0, hl0, hl1, hl2]

/-- the translated AVX2 permutation as a list function on twelve words -/
def permAvxList (l : List Model.Wd) : List Model.Wd :=
  Region.toList (Pos_hash_full_result_al_state_input (Region.ofList l)) 12

/-- hypothesis `hP` of the bridge for `linear_hash` (AVX2), discharged -/
theorem perm_avx_hP (s : Region) :
    Region.toList (Pos_hash_full_result_al_state_input s) 12 = permAvxList (Region.toList s 12) := by
  unfold permAvxList
  apply List.ext_getElem?
  intro j
  rw [Region.getElem?_toList, Region.getElem?_toList]
  by_cases hj : j < 12
  · rw [if_pos hj, if_pos hj, perm_avx_local s _ (eq12_ofList_toList s) j hj]
  · rw [if_neg hj, if_neg hj]

theorem permAvxList_length (l : List Model.Wd) : (permAvxList l).length = 12 := Region.length_toList _ _


/-! ### AVX512: `hash_full_result_avx512(state, state)` on two interleaved states (24 words) -/

def Eq24 (s s' : Region) : Prop := ∀ i, i < 24 → s i = s' i

/-- the 24 words three 8-lane registers hold -/
def W24 (b0 b1 b2 : V8) : Region :=
  Region.ofList [b0.l0, b0.l1, b0.l2, b0.l3, b0.l4, b0.l5, b0.l6, b0.l7, b1.l0, b1.l1, b1.l2, b1.l3, b1.l4, b1.l5, b1.l6, b1.l7,
    b2.l0, b2.l1, b2.l2, b2.l3, b2.l4, b2.l5, b2.l6, b2.l7]

theorem br_forall_lt_24 (p : Nat → Prop) (h : ∀ i, i < 12 → p i) (h' : ∀ i, i < 12 → p (12 + i)) : ∀ i, i < 24 → p i := by
  intro i hi
  by_cases h12 : i < 12
  · exact h i h12
  · have := h' (i - 12) (by omega)
    have e : 12 + (i - 12) = i := by omega
    rw [e] at this; exact this

theorem stores512_words (S : Region) (b0 b1 b2 : V8) : ∀ i, i < 24 →
    (Region.unshift (Region.unshift (store_avx512 S b0) 8 (store_avx512 (Region.shift (store_avx512 S b0) 8) b1)) 16
      (store_avx512 (Region.shift (Region.unshift (store_avx512 S b0) 8 (store_avx512 (Region.shift (store_avx512 S b0) 8) b1)) 16) b2)) i =
      W24 b0 b1 b2 i := by
  refine br_forall_lt_24 _ ?_ ?_ <;> refine br_forall_lt_12 _ ?_ ?_ ?_ ?_ ?_ ?_ ?_ ?_ ?_ ?_ ?_ ?_ <;>
    simp only [W24, Region.ofList_apply, Region.unshift_apply, store_avx512, Avx512.store, Region.shift_apply,
      Nat.reduceLeDiff, Nat.reduceSub, Nat.reduceAdd, ↓reduceIte, Nat.reduceEqDiff] <;> rfl

theorem br_reload512_eq (S : Region) (a0 : V8) (x y : BitVec 64) :
    load_avx512 (Region.set (Region.set (store_avx512 S a0) 0 x) 4 y) = ⟨x, a0.l1, a0.l2, a0.l3, y, a0.l5, a0.l6, a0.l7⟩ := by
  simp only [load_avx512, Avx512.load, store_avx512, Avx512.store, Region.set_apply, ↓reduceIte, Nat.reduceEqDiff]

theorem store512_get0 (S : Region) (a0 : V8) : (store_avx512 S a0) 0 = a0.l0 := by
  simp only [store_avx512, Avx512.store, Region.mk_apply, ↓reduceIte]
theorem store512_get4 (S : Region) (a0 : V8) : (store_avx512 S a0) 4 = a0.l4 := by
  simp only [store_avx512, Avx512.store, Region.mk_apply, ↓reduceIte, Nat.reduceEqDiff]

theorem load512_congr (a b : Region) (h : ∀ i, i < 8 → a i = b i) : load_avx512 a = load_avx512 b := by
  simp only [load_avx512, Avx512.load, h 0 (by omega), h 1 (by omega), h 2 (by omega), h 3 (by omega), h 4 (by omega),
    h 5 (by omega), h 6 (by omega), h 7 (by omega)]

theorem copy24_congr (s s' : Region) (h : Eq24 s s') : Eq24 (Region.copyN s s 24) (Region.copyN s' s' 24) := by
  intro i hi
  simp only [Region.copyN_apply, hi, if_true]
  exact h i hi

theorem loads512_congr (t t' : Region) (h : Eq24 t t') :
    load_avx512 t = load_avx512 t' ∧ load_avx512 (Region.shift t 8) = load_avx512 (Region.shift t' 8) ∧
    load_avx512 (Region.shift t 16) = load_avx512 (Region.shift t' 16) :=
  ⟨load512_congr _ _ (fun i hi => h i (by omega)),
   load512_congr _ _ (fun i hi => by simpa using h (8 + i) (by omega)),
   load512_congr _ _ (fun i hi => by simpa using h (16 + i) (by omega))⟩

set_option maxRecDepth 16384 in
theorem perm512_local (s s' : Region) (h : Eq24 s s') :
    Eq24 (Pos_hash_full_result_avx512_al_state_input s) (Pos_hash_full_result_avx512_al_state_input s') := by
  obtain ⟨hl0, hl1, hl2⟩ := loads512_congr _ _ (copy24_congr s s' h)
  intro i hi
  simp only [Pos_hash_full_result_avx512_al_state_input, stores512_words _ _ _ _ i hi, br_reload512_eq, store512_get0,
    store512_get4, hl0, hl1, hl2]


/-- the translated two-state AVX512 permutation as a list function on 24 words -/
def perm512List (l : List Model.Wd) : List Model.Wd :=
  Region.toList (Pos_hash_full_result_avx512_al_state_input (Region.ofList l)) 24

theorem eq24_ofList_toList (s : Region) : Eq24 s (Region.ofList (Region.toList s 24)) := by
  intro i hi
  rw [Region.ofList_apply, List.getD_eq_getElem?_getD, Region.getElem?_toList, if_pos hi]
  rfl

/-- hypothesis `hP2` of the bridge for `linear_hash_avx512`, discharged -/
theorem perm512_hP (s : Region) :
    Region.toList (Pos_hash_full_result_avx512_al_state_input s) 24 = perm512List (Region.toList s 24) := by
  unfold perm512List
  apply List.ext_getElem?
  intro j
  rw [Region.getElem?_toList, Region.getElem?_toList]
  by_cases hj : j < 24
  · rw [if_pos hj, if_pos hj, perm512_local s _ (eq24_ofList_toList s) j hj]
  · rw [if_neg hj, if_neg hj]

end GoldilocksVerif
