/-
  Bridge theorem: the TRANSLATED `NTT_Goldilocks::extendPol` (Gen/NttGen.lean) EQUALS the hand model's `extendPol`
  (Model/Ntt.lean) — bit for bit, for every `nblock`, every 1 ≤ N = 2^dn ≤ N_ext = 2^de ≤ 2^30, output = input block or another
  block — and what the call leaves behind: the returned object state with the final heap still REPRESENTS the model's object
  (tables unchanged, cache = the model's refreshed cache), the caller's other blocks are unchanged and stay other blocks than the
  object's.  This is what makes whole call histories provable (Lemmas/BridgeNttHist.lean).

  The generated code shares ONE scratch block (N_ext·ncols words, dirty after the inverse transform) between the two transforms;
  the hand model takes a fresh zero-filled one of the right size per transform: `NTT_gen_buf_all` / `INTT_gen_buf_all`
  (Lemmas/BridgeNttBufEq.lean, through `Model.Ntt.nttIters_aux_irrelevant`).
-/
import GoldilocksVerif.Lemmas.BridgeNttBufEq
import GoldilocksVerif.Lemmas.BridgeNttExtend

namespace GoldilocksVerif.BridgeNtt
open GoldilocksVerif Gen.NttGen

/-- fuel: 64, and for size 1 more than the column count, is enough whatever the thread count -/
theorem itersFuel_le (self : NTT_Goldilocks) (K NC fuel : Nat) (h64 : 64 ≤ fuel) (h1 : K = 0 → NC < fuel) :
    itersFuel self K NC ≤ fuel := by
  unfold itersFuel
  by_cases hK : K = 0
  · rw [if_pos hK]
    unfold parFuel
    have := h1 hK
    omega
  · rw [if_neg hK]; exact h64

/-- a block other than the freed one that exists before `free` exists after it (`free(NULL)` does nothing) -/
theorem lt_size_free (h : Heap) (p : Ptr) (c : Nat) (hc : c < h.size) (hne : c ≠ p.blk ∨ p.blk = 0) : c < (h.free p).size := by
  unfold Heap.free Heap.size at *
  by_cases h0 : p.blk = 0
  · rw [if_pos h0]; exact hc
  · rw [if_neg h0]
    by_cases hl : p.blk + 1 = h.blocks.size
    · rw [if_pos hl]; simp; omega
    · rw [if_neg hl]; simpa using hc

/-- the destructor keeps the blocks the object does not own -/
theorem lt_size_dtor (hp : Heap) (obj : NTT_Goldilocks) (c : Nat) (hc : c < hp.size)
    (c1 : c ≠ obj.roots.blk ∨ obj.roots.blk = 0) (c2 : c ≠ obj.powTwoInv.blk ∨ obj.powTwoInv.blk = 0)
    (c3 : c ≠ obj.r.blk ∨ obj.r.blk = 0) (c4 : c ≠ obj.r_.blk ∨ obj.r_.blk = 0) :
    c < (NTT_dtor hp obj).size := by
  unfold NTT_dtor
  dsimp only
  by_cases h1 : (obj.s != 0#32) = true <;> by_cases h2 : (obj.r != Ptr.null) = true <;>
    by_cases h3 : (obj.r_ != Ptr.null) = true <;>
    simp only [h1, h2, h3, if_true, if_false, Bool.false_eq_true] <;>
    first
    | exact hc
    | (apply lt_size_free _ _ _ _ ‹_›; first
        | exact hc
        | (apply lt_size_free _ _ _ _ ‹_›; first
            | exact hc
            | (apply lt_size_free _ _ _ _ ‹_›; first
                | exact hc
                | (apply lt_size_free _ _ _ _ ‹_›; exact hc))))

/-- what `computeR` does to the object state -/
theorem computeR_self (fuel : Nat) (X : Heap) (self : NTT_Goldilocks) (N : Int) (X' : Heap) (self' : NTT_Goldilocks)
    (h : NTT_computeR fuel X self N = some (X', self')) :
    self' = { self with r := ⟨X.size, 0⟩, r_ := ⟨X.size + 1, 0⟩, r_N := I32.toU64 N } := by
  unfold NTT_computeR at h
  -- whatever the loop and its body look like: the function returns the object state it has built before the loop
  simp only [Option.bind_eq_some_iff, Option.some.injEq, Prod.mk.injEq] at h
  obtain ⟨_, _, _, _, _, h⟩ := h
  rw [← h]
  simp only [Heap.alloc_snd, Heap.size_alloc]

/-- an in-place call does not look at the destination buffer argument -/
theorem ntt_same_irrel (o : Model.Ntt.Obj) (d1 d2 srcB : Model.Ntt.Buf) (size ncols nphase nblock : Nat) (inverse extend : Bool) :
    Model.Ntt.ntt o .same d1 srcB size ncols nphase nblock inverse extend =
      Model.Ntt.ntt o .same d2 srcB size ncols nphase nblock inverse extend := by
  unfold Model.Ntt.ntt Model.Ntt.nttBlocks Model.Ntt.nttIters
  simp

section extend
open GoldilocksVerif.Model.Ntt

/-- **extendPol, generated = hand model, bit for bit** (no caller buffer; every `nblock`; 1 ≤ 2^dn ≤ 2^de ≤ 2^30; output block =
    input block or another block; any cache state), and the state it leaves: the returned object state with the final heap
    represents the model's object after the call; the object still owns existing, pairwise distinct blocks; the heap has not
    shrunk below its original size; the caller's blocks other than the output are unchanged and are still not the object's -/
theorem extendPol_gen_eq (fuel : Nat) (hf : 64 ≤ fuel) (hp : Heap) (self : NTT_Goldilocks) (o : Obj)
    (hrep : ObjRep hp self o) (hin : ObjIn hp self) (hdisj : ObjDisj self) (hos : o.s ≤ 32) (hext31 : o.extension < 2 ^ 31)
    (Out In : Nat) (hOut : Out < hp.size) (hIn : In < hp.size) (hOut0 : Out ≠ 0)
    (hfrOut : ObjFrame self Out) (hfrIn : ObjFrame self In)
    (dn de nc : Nat) (hde : dn ≤ de) (hde30 : de ≤ 30) (hdns : dn ≤ o.s) (hnc : 1 ≤ nc)
    (hbound : 2 ^ de * nc * 8 < 2 ^ 64) (nphase nblock : BitVec 64)
    (hout : 2 ^ de * nc ≤ (hp.block Out).size) (hf1 : dn = 0 → nc < fuel) :
    match extendPol o (decide (Out = In)) (hp.block Out) (hp.block In) (2 ^ de) (2 ^ dn) nc nphase.toNat nblock.toNat with
    | .ok (o', out) => ∃ hp' self',
        NTT_extendPol fuel hp self ⟨Out, 0⟩ ⟨In, 0⟩ (bv (2 ^ de)) (bv (2 ^ dn)) (bv nc) Ptr.null nphase nblock =
          some (hp', self') ∧
        hp'.block Out = out ∧ ObjRep hp' self' o' ∧ ObjIn hp' self' ∧ ObjDisj self' ∧ hp.size ≤ hp'.size ∧
        (∀ c, c < hp.size → c ≠ Out → ObjFrame self c → hp'.block c = hp.block c) ∧
        (∀ c, c < hp.size → ObjFrame self c → ObjFrame self' c)
    | .error _ =>
        NTT_extendPol fuel hp self ⟨Out, 0⟩ ⟨In, 0⟩ (bv (2 ^ de)) (bv (2 ^ dn)) (bv nc) Ptr.null nphase nblock = none := by
  have hpos : 0 < hp.size := by omega
  have h2de : 2 ^ de ≤ 2 ^ 30 := Nat.pow_le_pow_right (by omega) hde30
  have h2dn : 2 ^ dn ≤ 2 ^ de := Nat.pow_le_pow_right (by omega) hde
  have h2dn1 : 1 ≤ 2 ^ dn := Nat.two_pow_pos dn
  have hE : 2 ^ de / 2 ^ dn = 2 ^ (de - dn) := Nat.pow_div hde (by omega)
  have hE31 : 2 ^ (de - dn) < 2 ^ 31 := Nat.pow_lt_pow_right (by omega) (by omega)
  have hlogE : log2 (2 ^ de) = de := Nat.log2_two_pow
  -- the local transform object
  obtain ⟨oext, hoext⟩ := mkObj_some (2 ^ de) (2 ^ (de - dn)) (by rw [hlogE]; omega)
  have hne : (2 : Nat) ^ de ≠ 0 := Nat.ne_of_gt (Nat.two_pow_pos de)
  obtain ⟨hs1E, hs2E, hs3E⟩ := mkObj_s_val (2 ^ de) (2 ^ (de - dn)) oext hne hoext
  rw [hlogE] at hs1E
  have hbvE : (bv (2 ^ de)).toNat = 2 ^ de := bv_toNat _ (by omega)
  have hbvEne : bv (2 ^ de) ≠ 0#64 := by
    intro e; have h2 := congrArg BitVec.toNat e; rw [hbvE] at h2
    have h3 : (0#64 : BitVec 64).toNat = 0 := rfl
    omega
  obtain ⟨selfE, hcE, hrepE, hinE, fE1, fE2, fE3, fE4⟩ := ctor_rep fuel hf hp hpos NTT_Goldilocks.init (bv (2 ^ de)) self.nThreads
    (2 ^ (de - dn)) hbvEne oext (by rw [hbvE]; exact hoext)
  have hdivE : I32.ofU64 (bv (2 ^ de) / bv (2 ^ dn)) = ((2 ^ (de - dn) : Nat) : Int) := by
    rw [bv_div _ _ (by omega) (by omega), hE, ofU64_bv _ hE31]
  have hcnt : (bv (2 ^ de) * bv nc * 8#64).toNat / 8 = 2 ^ de * nc := by
    rw [bv_mul]; exact words_bv _ hbound
  -- the heap with the object's tables and the scratch block
  generalize hhp1 : (hp.push oext.roots).push oext.powTwoInv = hp1 at hcE hrepE hinE
  have hs1 : hp1.size = hp.size + 2 := by rw [← hhp1]; simp
  have hb1 : ∀ c, c < hp.size → hp1.block c = hp.block c := by
    intro c hc; rw [← hhp1, Heap.block_push_lt _ _ _ (by simp; omega), Heap.block_push_lt _ _ _ hc]
  have hrep1 : ObjRep hp1 self o := by rw [← hhp1]; exact (hrep.push hin _).push (hin.push _) _
  have hin1 : ObjIn hp1 self := by rw [← hhp1]; exact (hin.push _).push _
  let Z : Block := Array.replicate (2 ^ de * nc) 0#64
  have hZs : Z.size = 2 ^ de * nc := Array.size_replicate
  have hs2 : (hp1.push Z).size = hp.size + 3 := by simp [hs1]
  have hb2 : ∀ c, c < hp.size + 2 → (hp1.push Z).block c = hp1.block c := by
    intro c hc; exact Heap.block_push_lt _ _ _ (by omega)
  have hrep2 : ObjRep (hp1.push Z) self o := hrep1.push hin1 _
  have hin2 : ObjIn (hp1.push Z) self := hin1.push _
  have hrepE2 : ObjRep (hp1.push Z) selfE oext := hrepE.push hinE _
  have hinE2 : ObjIn (hp1.push Z) selfE := hinE.push _
  obtain ⟨i1, i2, i3, i4⟩ := hin
  obtain ⟨dj1, dj2, dj3, dj4⟩ := hdisj
  -- the cache refresh
  obtain ⟨X3, self', href, hrep3, hin3, hsz3, hfr3, hfrm3, hcache3⟩ := refresh_gen fuel hf (hp1.push Z) self o hrep2 hin2
    ⟨dj1, dj2, dj3, dj4⟩ (fun _ => ⟨by rw [hs2]; omega, by rw [hs2]; omega⟩) (2 ^ dn) (by omega) (by omega)
  -- the fields of the new object state
  have hfields : self'.roots = self.roots ∧ self'.powTwoInv = self.powTwoInv ∧
      ((self'.r = self.r ∧ self'.r_ = self.r_) ∨ (self'.r.blk = hp.size + 3 ∧ self'.r_.blk = hp.size + 4)) := by
    by_cases hc : (self.r == Ptr.null || self.r_N != bv (2 ^ dn)) = true
    · rw [if_pos hc] at href
      cases hcr : NTT_computeR fuel (if (self.r != Ptr.null) = true then ((hp1.push Z).free self.r).free self.r_ else hp1.push Z)
          self (I32.ofU64 (bv (2 ^ dn))) with
      | none => rw [hcr] at href; cases href
      | some v =>
        obtain ⟨Xc, sc⟩ := v
        have hself := computeR_self _ _ _ _ _ _ hcr
        rw [hcr] at href
        simp only [Option.bind_some] at href
        injection href with href
        injection href with _ href
        rw [← href, hself]
        refine ⟨rfl, rfl, Or.inr ?_⟩
        have hsz : (if (self.r != Ptr.null) = true then ((hp1.push Z).free self.r).free self.r_ else hp1.push Z).size
            = hp.size + 3 := by
          by_cases hn : (self.r != Ptr.null) = true
          · rw [if_pos hn]
            have e1 : ((hp1.push Z).free self.r).size = (hp1.push Z).size := Heap.size_free_mid _ _ (by rw [hs2]; omega)
            rw [Heap.size_free_mid _ _ (by rw [e1, hs2]; omega), e1, hs2]
          · rw [if_neg hn, hs2]
        exact ⟨by show _ = _; rw [hsz], by show _ = _; rw [hsz]⟩
    · rw [if_neg hc] at href
      injection href with href
      injection href with _ href
      rw [← href]
      exact ⟨rfl, rfl, Or.inl ⟨rfl, rfl⟩⟩
  obtain ⟨hroots', hpti', hrr⟩ := hfields
  have hdisj' : ObjDisj self' := by
    unfold ObjDisj
    rw [hroots', hpti']
    rcases hrr with ⟨e1, e2⟩ | ⟨e1, e2⟩
    · rw [e1, e2]; exact ⟨dj1, dj2, dj3, dj4⟩
    · rw [e1, e2]; exact ⟨by omega, by omega, by omega, by omega⟩
  obtain ⟨rf1, rf2, rf3, rf4⟩ := refreshCache_fields o (2 ^ dn)
  generalize ho' : refreshCache o (2 ^ dn) = o' at hrep3 hcache3 rf1 rf2 rf3 rf4
  have hT2 : hp.size + 2 < (hp1.push Z).size := by rw [hs2]; omega
  have hT3 : hp.size + 2 < X3.size := by omega
  have bOld : ∀ c, c < hp.size → ObjFrame self c → X3.block c = hp.block c := by
    intro c hc ⟨_, _, f3, f4⟩
    rw [hfr3 c (by rw [hs2]; omega) f3 f4, hb2 c (by omega), hb1 c hc]
  have bNew : ∀ c, hp.size ≤ c → c < hp.size + 3 → X3.block c = (hp1.push Z).block c := by
    intro c h1 h2
    exact hfr3 c (by rw [hs2]; exact h2) (by omega) (by omega)
  have bT : X3.block (hp.size + 2) = Z := by
    rw [bNew _ (by omega) (by omega), Heap.block_push_last _ _ _ hs1.symm]
  have hfr'Out : ObjFrame self' Out := hfrm3 Out (by rw [hs2]; omega) hfrOut
  have hfr'new : ∀ A, hp.size ≤ A → A < hp.size + 3 → ObjFrame self' A := by
    intro A h1 h2
    exact hfrm3 _ (by rw [hs2]; exact h2) (ObjIn.frame_ge ⟨i1, i2, i3, i4⟩ _ h1)
  have hfr'T : ObjFrame self' (hp.size + 2) := hfr'new _ (by omega) (by omega)
  have hptrOut : (if ((⟨Out, 0⟩ : Ptr) == Ptr.null) = true then (⟨In, 0⟩ : Ptr) else ⟨Out, 0⟩) = ⟨Out, 0⟩ := by
    rw [ptr_beq_null Out hOut0]; rfl
  have hle : 2 ^ dn * nc ≤ 2 ^ de * nc := Nat.mul_le_mul_right _ h2dn
  -- the hand model
  have hmodel : extendPol o (decide (Out = In)) (hp.block Out) (hp.block In) (2 ^ de) (2 ^ dn) nc nphase.toNat nblock.toNat =
      match intt o' (if decide (Out = In) = true then .same else .other) (hp.block Out) (hp.block In) (2 ^ dn) nc nphase.toNat
          nblock.toNat true with
      | .error e => .error e
      | .ok (out1, _) =>
        match ntt oext .same out1 out1 (2 ^ de) nc nphase.toNat nblock.toNat false false with
        | .error e => .error e
        | .ok (out2, _) => .ok (o', out2) := by
    unfold extendPol
    rw [hE, hoext]
    simp only [ho']
    cases intt o' (if decide (Out = In) = true then DstMode.same else DstMode.other) (hp.block Out) (hp.block In) (2 ^ dn) nc
        nphase.toNat nblock.toNat true with
    | error e => rfl
    | ok v =>
      obtain ⟨out1, s1⟩ := v
      simp only
      rw [ntt_same_irrel oext #[] out1 out1]
      cases ntt oext DstMode.same out1 out1 (2 ^ de) nc nphase.toNat nblock.toNat false false with
      | error e => rfl
      | ok v => rfl
  rw [hmodel]
  -- step 1: the scaled inverse transform, scratch = the zero block
  have hmode1 : (if decide (Out = In) = true then DstMode.same else DstMode.other) = DstMode.other ↔ Out ≠ In := by
    by_cases h : Out = In <;> simp [h]
  have hI := INTT_gen_buf_all fuel X3 self' o' hrep3 hin3 Out In (hp.size + 2) (by omega) (by omega) hT3 hOut0 (by omega)
    (by omega) (by omega) hfr'Out hfr'T _ hmode1 ⟨Out, 0⟩ hptrOut dn (2 ^ dn) nc nphase nblock true (by omega) rfl
    (by rw [rf1]; exact hdns) (by rw [rf1]; exact hos) hnc (by
      have : 2 ^ dn * nc * 8 ≤ 2 ^ de * nc * 8 := Nat.mul_le_mul_right _ hle
      omega) (by rw [rf2]; exact hext31) (fun _ => hcache3) (itersFuel_le self' dn nc fuel hf hf1)
    (by rw [bOld Out hOut hfrOut]; omega) (by rw [bT, hZs]; exact hle)
  rw [bOld Out hOut hfrOut, bOld In hIn hfrIn, bT] at hI
  -- the generated function up to the inverse transform
  have hnull : ((Ptr.null : Ptr) == Ptr.null) = true := by decide
  unfold NTT_extendPol
  dsimp only
  rw [hdivE, hcE]
  simp only [Option.bind_some, hnull, if_true, hcnt, Heap.alloc_fst, Heap.alloc_snd]
  refresh_rw href (X3, self') : self, bv (2 ^ dn)
  simp only [Option.bind_some, hs1]
  cases hr1 : intt o' (if decide (Out = In) = true then DstMode.same else DstMode.other) (hp.block Out) (hp.block In) (2 ^ dn) nc
      nphase.toNat nblock.toNat true with
  | error e =>
    rw [hr1] at hI
    simp only [] at hI
    rw [hI]
    rfl
  | ok v1 =>
    obtain ⟨out1, s1⟩ := v1
    rw [hr1] at hI
    obtain ⟨X1', hI1, hI2⟩ := hI
    have hs1sz : out1.size = (hp.block Out).size := by
      have := intt_size o' _ (hp.block Out) (hp.block In) dn nc nphase.toNat nblock.toNat true out1 s1 hr1
      rw [this]
      by_cases h : Out = In
      · simp [h]
      · simp [h]
    rw [hI1]
    simp only [Option.bind_some]
    -- step 2: the forward transform of the zero-extended result with the local object, scratch = what step 1 left
    generalize hX4 : (X3.setBlock Out out1).setBlock (hp.size + 2) X1' = X4
    have hs4 : X4.size = X3.size := by rw [← hX4]; simp
    have b4Out : X4.block Out = out1 := by
      rw [← hX4, Heap.block_setBlock_other _ _ _ _ (by omega), Heap.block_setBlock_same _ _ _ (by omega)]
    have b4T : X4.block (hp.size + 2) = X1' := by
      rw [← hX4, Heap.block_setBlock_same _ _ _ (by simp; omega)]
    have b4other : ∀ c, c ≠ Out → c ≠ hp.size + 2 → X4.block c = X3.block c := by
      intro c h1 h2
      rw [← hX4, Heap.block_setBlock_other _ _ _ _ h2, Heap.block_setBlock_other _ _ _ _ h1]
    have hcE0 : oext.rcache = none := Model.Ntt.mkObj_fresh _ _ _ hoext
    have hrepE4 : ObjRep X4 selfE oext := by
      apply hrepE2.frame_fresh hcE0
      · rw [fE1]; show X4.block hp.size = _
        rw [b4other _ (by omega) (by omega), bNew _ (by omega) (by omega)]
      · rw [fE2]; show X4.block (hp.size + 1) = _
        rw [b4other _ (by omega) (by omega), bNew _ (by omega) (by omega)]
    have hinE4 : ObjIn X4 selfE := by
      unfold ObjIn
      rw [fE1, fE2, fE3, fE4, hs4]
      exact ⟨by show hp.size < _; omega, by show hp.size + 1 < _; omega, by show 0 < _; omega, by show 0 < _; omega⟩
    have hfrEOut : ObjFrame selfE Out := by
      refine ⟨?_, ?_, ?_, ?_⟩
      · rw [fE1]; show Out ≠ hp.size; omega
      · rw [fE2]; show Out ≠ hp.size + 1; omega
      · rw [fE3]; exact hOut0
      · rw [fE4]; exact hOut0
    have hfrET : ObjFrame selfE (hp.size + 2) := by
      refine ⟨?_, ?_, ?_, ?_⟩
      · rw [fE1]; show hp.size + 2 ≠ hp.size; omega
      · rw [fE2]; show hp.size + 2 ≠ hp.size + 1; omega
      · rw [fE3]; show hp.size + 2 ≠ 0; omega
      · rw [fE4]; show hp.size + 2 ≠ 0; omega
    have hptrOut2 : (if ((⟨Out, 0⟩ : Ptr) == Ptr.null) = true then (⟨Out, 0⟩ : Ptr) else ⟨Out, 0⟩) = ⟨Out, 0⟩ := by
      split <;> rfl
    have hNt := NTT_gen_buf_all fuel X4 selfE oext hrepE4 hinE4 Out Out (hp.size + 2) (by omega) (by omega) (by omega) hOut0
      (by omega) (by omega) (by omega) hfrEOut hfrET .same (by simp) ⟨Out, 0⟩ hptrOut2 de (2 ^ de) nc nphase nblock false false
      hde30 rfl hs1E hs2E hnc hbound (by rw [hs3E]; exact hE31) (by intro h; cases h)
      (itersFuel_le selfE de nc fuel hf (fun h => hf1 (by omega)))
      (by rw [b4Out, hs1sz]; exact hout) (by rw [b4T, hI2, hZs])
    rw [b4Out] at hNt
    cases hr2 : ntt oext DstMode.same out1 out1 (2 ^ de) nc nphase.toNat nblock.toNat false false with
    | error e =>
      rw [hr2] at hNt
      simp only [] at hNt
      rw [hNt]
      rfl
    | ok v2 =>
      obtain ⟨out2, s2⟩ := v2
      rw [hr2] at hNt
      obtain ⟨X2', hN1, hN2⟩ := hNt
      rw [hN1]
      simp only [Option.bind_some]
      -- the final heap
      generalize hX5 : (X4.setBlock Out out2).setBlock (hp.size + 2) X2' = X5
      have hs5 : X5.size = X3.size := by rw [← hX5]; simp [hs4]
      have b5Out : X5.block Out = out2 := by
        rw [← hX5, Heap.block_setBlock_other _ _ _ _ (by omega), Heap.block_setBlock_same _ _ _ (by omega)]
      have b5other : ∀ c, c ≠ Out → c ≠ hp.size + 2 → X5.block c = X3.block c := by
        intro c h1 h2
        rw [← hX5, Heap.block_setBlock_other _ _ _ _ h2, Heap.block_setBlock_other _ _ _ _ h1, b4other c h1 h2]
      -- what survives the two frees and the destructor
      have hkeep : ∀ c, c ≠ hp.size → c ≠ hp.size + 1 → c ≠ hp.size + 2 →
          (NTT_dtor (X5.free ⟨hp.size + 2, 0⟩) selfE).block c = X5.block c := by
        intro c h1 h2 h3
        rw [dtor_block_fresh _ _ _ fE3 fE4 (by rw [fE1]; exact h1) (by rw [fE2]; exact h2),
          Heap.block_free_other _ _ _ (by exact h3)]
      have hkeepsz : ∀ c, c < X3.size → c ≠ hp.size → c ≠ hp.size + 1 → c ≠ hp.size + 2 →
          c < (NTT_dtor (X5.free ⟨hp.size + 2, 0⟩) selfE).size := by
        intro c hc h1 h2 h3
        apply lt_size_dtor
        · exact lt_size_free _ _ _ (by rw [hs5]; exact hc) (Or.inl h3)
        · rw [fE1]; exact Or.inl h1
        · rw [fE2]; exact Or.inl h2
        · rw [fE3]; exact Or.inr rfl
        · rw [fE4]; exact Or.inr rfl
      have hobjblk : ∀ c, (c = self'.roots.blk ∨ c = self'.powTwoInv.blk ∨ c = self'.r.blk ∨ c = self'.r_.blk) →
          c ≠ Out ∧ c ≠ hp.size ∧ c ≠ hp.size + 1 ∧ c ≠ hp.size + 2 := by
        intro c hc
        obtain ⟨o1, o2, o3, o4⟩ := hfr'Out
        obtain ⟨a1, a2, a3, a4⟩ := hfr'new hp.size (by omega) (by omega)
        obtain ⟨b1, b2, b3, b4⟩ := hfr'new (hp.size + 1) (by omega) (by omega)
        obtain ⟨t1, t2, t3, t4⟩ := hfr'T
        rcases hc with rfl | rfl | rfl | rfl
        · exact ⟨Ne.symm o1, Ne.symm a1, Ne.symm b1, Ne.symm t1⟩
        · exact ⟨Ne.symm o2, Ne.symm a2, Ne.symm b2, Ne.symm t2⟩
        · exact ⟨Ne.symm o3, Ne.symm a3, Ne.symm b3, Ne.symm t3⟩
        · exact ⟨Ne.symm o4, Ne.symm a4, Ne.symm b4, Ne.symm t4⟩
      refine ⟨_, self', rfl, ?_, ?_, ?_, hdisj', ?_, ?_, ?_⟩
      · rw [hkeep Out (by omega) (by omega) (by omega), b5Out]
      · apply hrep3.frame
        intro c hc
        obtain ⟨c1, c2, c3, c4⟩ := hobjblk c hc
        rw [hkeep c c2 c3 c4, b5other c c1 c4]
      · obtain ⟨j1, j2, j3, j4⟩ := hin3
        obtain ⟨_, a2, a3, a4⟩ := hobjblk _ (Or.inl rfl)
        obtain ⟨_, b2, b3, b4⟩ := hobjblk _ (Or.inr (Or.inl rfl))
        obtain ⟨_, c2, c3, c4⟩ := hobjblk _ (Or.inr (Or.inr (Or.inl rfl)))
        obtain ⟨_, d2, d3, d4⟩ := hobjblk _ (Or.inr (Or.inr (Or.inr rfl)))
        exact ⟨hkeepsz _ j1 a2 a3 a4, hkeepsz _ j2 b2 b3 b4, hkeepsz _ j3 c2 c3 c4, hkeepsz _ j4 d2 d3 d4⟩
      · have := hkeepsz (hp.size - 1) (by omega) (by omega) (by omega) (by omega)
        omega
      · intro c hc hcO hfr
        obtain ⟨f1, f2, f3, f4⟩ := hfr
        rw [hkeep c (by omega) (by omega) (by omega), b5other c hcO (by omega), bOld c hc ⟨f1, f2, f3, f4⟩]
      · intro c hc hfr
        exact hfrm3 c (by rw [hs2]; omega) hfr

end extend

end GoldilocksVerif.BridgeNtt
