/-
  Lemmas about the chunking of parcpy / parSetZero (Model/ParCopy.lean).  Core-only.
-/
import GoldilocksVerif.Model.ParCopy

namespace GoldilocksVerif.ParCopy

theorem threads_pos (nt : Int) : 0 < threads nt := by
  unfold threads; split <;> omega

theorem chunk_pos (size : Nat) (nt : Int) (h : 0 < size) : 0 < chunk size nt := by
  unfold chunk
  have ht := threads_pos nt
  apply Nat.div_pos _ ht
  omega

theorem mem_startsAux (size c : Nat) : ∀ (fuel s i : Nat),
    i ∈ startsAux size c fuel s ↔ ∃ k, k < fuel ∧ i = s + k * c ∧ i < size := by
  intro fuel
  induction fuel with
  | zero => intro s i; simp [startsAux]
  | succ fuel ih =>
    intro s i
    unfold startsAux
    constructor
    · intro h
      split at h
      · rename_i hs
        rcases List.mem_cons.mp h with h | h
        · exact ⟨0, Nat.succ_pos _, by omega, by omega⟩
        · obtain ⟨k, hk, e, hi⟩ := (ih (s + c) i).mp h
          refine ⟨k + 1, Nat.succ_lt_succ hk, ?_, hi⟩
          rw [e, Nat.add_mul]; omega
      · exact absurd h (List.not_mem_nil)
    · rintro ⟨k, hk, e, hi⟩
      have hs : s < size := by
        have : s ≤ i := by rw [e]; exact Nat.le_add_right _ _
        omega
      rw [if_pos hs]
      cases k with
      | zero => exact List.mem_cons.mpr (Or.inl (by omega))
      | succ k =>
        apply List.mem_cons.mpr; right
        apply (ih (s + c) i).mpr
        refine ⟨k, Nat.lt_of_succ_lt_succ hk, ?_, hi⟩
        rw [e, Nat.add_mul]; omega

theorem mem_starts (size : Nat) (nt : Int) (i : Nat) :
    i ∈ starts size nt ↔ ∃ k, k < size ∧ i = k * chunk size nt ∧ i < size := by
  unfold starts
  rw [mem_startsAux]
  constructor
  · rintro ⟨k, h1, h2, h3⟩; exact ⟨k, h1, by omega, h3⟩
  · rintro ⟨k, h1, h2, h3⟩; exact ⟨k, h1, by omega, h3⟩

theorem len_le (size : Nat) (nt : Int) (i : Nat) : len size nt i ≤ size - i := by
  unfold len; split <;> omega

/-- the chunks cover exactly `[0, size)` -/
theorem covered_iff (size : Nat) (nt : Int) (j : Nat) :
    (∃ i, i ∈ starts size nt ∧ i ≤ j ∧ j < i + len size nt i) ↔ j < size := by
  constructor
  · rintro ⟨i, hi, h1, h2⟩
    have := len_le size nt i
    obtain ⟨k, _, _, hlt⟩ := (mem_starts size nt i).mp hi
    omega
  · intro hj
    have hc := chunk_pos size nt (by omega)
    have hdm := Nat.div_add_mod j (chunk size nt)
    have hml := Nat.mod_lt j hc
    refine ⟨j / chunk size nt * chunk size nt, ?_, ?_, ?_⟩
    · apply (mem_starts size nt _).mpr
      refine ⟨j / chunk size nt, ?_, rfl, ?_⟩
      · exact Nat.lt_of_le_of_lt (Nat.div_le_self _ _) hj
      · rw [Nat.mul_comm]; omega
    · rw [Nat.mul_comm]; omega
    · unfold len
      rw [Nat.mul_comm]
      split <;> omega

/-- pointwise content after ANY sequence of copy iterations: every iteration writes `src j` at `j` -/
theorem parcpyIn_apply (src : Region) (size : Nat) (nt : Int) : ∀ (order : List Nat) (dst : Region) (j : Nat),
    (parcpyIn order dst src size nt) j =
      if (∃ i, i ∈ order ∧ i ≤ j ∧ j < i + len size nt i) then src j else dst j := by
  intro order
  induction order with
  | nil => intro dst j; simp [parcpyIn]
  | cons a rest ih =>
    intro dst j
    have e : parcpyIn (a :: rest) dst src size nt = parcpyIn rest (cpyIter src size nt dst a) src size nt := rfl
    rw [e, ih]
    by_cases h1 : ∃ i, i ∈ rest ∧ i ≤ j ∧ j < i + len size nt i
    · obtain ⟨i, hi, hh⟩ := h1
      rw [if_pos ⟨i, hi, hh⟩, if_pos ⟨i, List.mem_cons_of_mem _ hi, hh⟩]
    · rw [if_neg h1]
      simp only [cpyIter, Region.mk_apply]
      by_cases h2 : a ≤ j ∧ j < a + len size nt a
      · rw [if_pos h2, if_pos ⟨a, List.mem_cons_self, h2⟩]
      · rw [if_neg h2, if_neg]
        rintro ⟨i, hi, hh⟩
        rcases List.mem_cons.mp hi with e | hi
        · subst e; exact h2 hh
        · exact h1 ⟨i, hi, hh⟩

theorem parSetZeroIn_apply (size : Nat) (nt : Int) : ∀ (order : List Nat) (dst : Region) (j : Nat),
    (parSetZeroIn order dst size nt) j =
      if (∃ i, i ∈ order ∧ i ≤ j ∧ j < i + len size nt i) then 0#64 else dst j := by
  intro order
  induction order with
  | nil => intro dst j; simp [parSetZeroIn]
  | cons a rest ih =>
    intro dst j
    have e : parSetZeroIn (a :: rest) dst size nt = parSetZeroIn rest (zeroIter size nt dst a) size nt := rfl
    rw [e, ih]
    by_cases h1 : ∃ i, i ∈ rest ∧ i ≤ j ∧ j < i + len size nt i
    · obtain ⟨i, hi, hh⟩ := h1
      rw [if_pos ⟨i, hi, hh⟩, if_pos ⟨i, List.mem_cons_of_mem _ hi, hh⟩]
    · rw [if_neg h1]
      simp only [zeroIter, Region.mk_apply]
      by_cases h2 : a ≤ j ∧ j < a + len size nt a
      · rw [if_pos h2, if_pos ⟨a, List.mem_cons_self, h2⟩]
      · rw [if_neg h2, if_neg]
        rintro ⟨i, hi, hh⟩
        rcases List.mem_cons.mp hi with e | hi
        · subst e; exact h2 hh
        · exact h1 ⟨i, hi, hh⟩

/-- two different chunks never overlap -/
theorem chunks_disjoint (size : Nat) (nt : Int) (i i' : Nat) (hi : i ∈ starts size nt) (hi' : i' ∈ starts size nt)
    (hne : i ≠ i') (j : Nat) : ¬ ((i ≤ j ∧ j < i + len size nt i) ∧ (i' ≤ j ∧ j < i' + len size nt i')) := by
  obtain ⟨k, _, e, _⟩ := (mem_starts size nt i).mp hi
  obtain ⟨k', _, e', _⟩ := (mem_starts size nt i').mp hi'
  have hl : len size nt i ≤ chunk size nt := by unfold len; split <;> omega
  have hl' : len size nt i' ≤ chunk size nt := by unfold len; split <;> omega
  rintro ⟨⟨a1, a2⟩, ⟨b1, b2⟩⟩
  have hkk : k ≠ k' := by intro h; subst h; exact hne (by omega)
  rcases Nat.lt_or_gt_of_ne hkk with h | h
  · have : (k + 1) * chunk size nt ≤ k' * chunk size nt := Nat.mul_le_mul_right _ h
    rw [Nat.add_mul] at this
    omega
  · have : (k' + 1) * chunk size nt ≤ k * chunk size nt := Nat.mul_le_mul_right _ h
    rw [Nat.add_mul] at this
    omega

end GoldilocksVerif.ParCopy
