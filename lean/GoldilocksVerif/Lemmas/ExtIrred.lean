/-
  x³ − x − 1 has no root in F_p (p = 2^64 − 2^32 + 1), hence (cubic) it is irreducible and the norm form of
  K3 = F_p[x]/(x³ − x − 1) vanishes only at 0:   a ≠ 0 → tval a ≠ 0   (tval = −Norm, the quantity `t` of Goldilocks3::inv).

  No root: if r³ = r + 1 then evaluation at r, φ(c0,c1,c2) = c0 + c1 r + c2 r², is multiplicative for the reduced schoolbook
  product.  x^p in K3 is computed by square-and-multiply on Nat triples in the kernel (`decide +kernel`): x^p = (h0,h1,h2).
  Then φ(x^p) = r^p = r (Fermat), so r is a root of g = h2 x² + (h1 − 1) x + h0 too, and an explicit Bézout identity
  u·f + v·g = 1 (mod p) gives 1 = 0.
-/
import GoldilocksVerif.Lemmas.ExtF
import GoldilocksVerif.Lemmas.Prime
import Mathlib.FieldTheory.Finite.Basic

namespace GoldilocksVerif

/-! #### the Nat mirror of the K3 product and of square-and-multiply -/

/-- reduced schoolbook product on canonical Nat triples (same shape as `K3.mul`) -/
def k3mulN (a b : Nat × Nat × Nat) : Nat × Nat × Nat :=
  ((a.1 * b.1 + (a.2.1 * b.2.2 + a.2.2 * b.2.1)) % P,
   (a.1 * b.2.1 + a.2.1 * b.1 + (a.2.1 * b.2.2 + a.2.2 * b.2.1) + a.2.2 * b.2.2) % P,
   (a.1 * b.2.2 + a.2.1 * b.2.1 + a.2.2 * b.1 + a.2.2 * b.2.2) % P)

/-- square-and-multiply, structurally recursive on the fuel -/
def k3powAuxN : Nat → Nat × Nat × Nat → Nat → Nat × Nat × Nat → Nat × Nat × Nat
  | 0, _, _, acc => acc
  | fuel + 1, b, e, acc =>
    if e = 0 then acc
    else k3powAuxN fuel (k3mulN b b) (e / 2) (if e % 2 = 1 then k3mulN acc b else acc)

/-- evaluation of a Nat triple at r -/
def phiN (r : F) (t : Nat × Nat × Nat) : F := (t.1 : F) + (t.2.1 : F) * r + (t.2.2 : F) * r ^ 2

theorem phiN_mul (r : F) (hr : r ^ 3 = r + 1) (a b : Nat × Nat × Nat) :
    phiN r (k3mulN a b) = phiN r a * phiN r b := by
  obtain ⟨a0, a1, a2⟩ := a
  obtain ⟨b0, b1, b2⟩ := b
  simp only [phiN, k3mulN, ZMod.natCast_mod]
  push_cast
  linear_combination (-(((a1 : F) * b2 + a2 * b1) + (a2 : F) * b2 * r)) * hr

theorem phiN_powAux (r : F) (hr : r ^ 3 = r + 1) : ∀ (fuel : Nat) (b : Nat × Nat × Nat) (e : Nat) (acc : Nat × Nat × Nat),
    e < 2 ^ fuel → phiN r (k3powAuxN fuel b e acc) = phiN r acc * phiN r b ^ e := by
  intro fuel
  induction fuel with
  | zero =>
    intro b e acc h
    have : e = 0 := by omega
    subst this
    simp [k3powAuxN]
  | succ n ih =>
    intro b e acc h
    unfold k3powAuxN
    by_cases he : e = 0
    · subst he; simp
    · simp only [he, if_false]
      have h2 : e / 2 < 2 ^ n := by
        rw [Nat.pow_succ] at h; omega
      rw [ih _ _ _ h2, phiN_mul r hr]
      have hdecomp : e = 2 * (e / 2) + e % 2 := by omega
      have hpow : phiN r b ^ e = (phiN r b * phiN r b) ^ (e / 2) * phiN r b ^ (e % 2) := by
        conv => lhs; rw [hdecomp]
        rw [pow_add, pow_mul, pow_two]
      rw [hpow]
      by_cases hodd : e % 2 = 1
      · simp only [hodd, if_true, pow_one]
        rw [phiN_mul r hr]; ring
      · have h0 : e % 2 = 0 := by omega
        simp only [h0, Nat.zero_ne_one, if_false, pow_zero, mul_one]

/-- x^p in K3, evaluated in the kernel -/
theorem k3_frobenius_x :
    k3powAuxN 64 (0, 1, 0) P (1, 0, 0) = (10615703402128488253, 10050274602728160328, 11746561000929144102) := by
  decide +kernel

/-- x³ − x − 1 has no root in F_p -/
theorem cubic_no_root (r : F) : r ^ 3 ≠ r + 1 := by
  intro hr
  have hpow := phiN_powAux r hr 64 (0, 1, 0) P (1, 0, 0) (by decide)
  rw [k3_frobenius_x] at hpow
  have hfr : r ^ P = r := ZMod.pow_card r
  have hx : phiN r (0, 1, 0) = r := by simp [phiN]
  have h1 : phiN r (1, 0, 0) = 1 := by simp [phiN]
  rw [hx, h1, hfr, one_mul] at hpow
  simp only [phiN] at hpow
  push_cast at hpow
  have hP : (18446744069414584321 : F) = 0 := by
    have : ((18446744069414584321 : Nat) : F) = 0 := ZMod.natCast_self P
    exact_mod_cast this
  have : (1 : F) = 0 := by
    linear_combination (2549906194796835896 + 12909963218832731643 * r) * hr +
      (991315191999139912 + 15238614666038134874 * r + 11086490780951302402 * r ^ 2) * hpow -
      (570480514972574959 + 9309588879490733367 * r + 15313689135103035685 * r ^ 2 + 15743894552913474338 * r ^ 3 +
        7059681630245326407 * r ^ 4) * hP
  exact one_ne_zero this

/-! #### from "no root" to "the norm form vanishes only at 0" (any field) -/

/-- if −Norm(a0 + a1 x + a2 x²) = 0 for a non-zero triple then x³ − x − 1 has a root: with M = a1² − a0a2 − a2², N = a0a1 − a2²
    (the remainder of f modulo a is proportional to M x + N) the root is −N/M, or a1/a2 when M = 0 -/
theorem cubic_root_of_norm_zero {K : Type*} [Field K] (a0 a1 a2 : K)
    (hT : a1 * a0 * a2 + a1 * a0 * a2 + a1 * a0 * a2 + a1 * a0 * a1 - a0 * a0 * a0 - a0 * a0 * a2 - a0 * a0 * a2 -
      a0 * a2 * a2 - a1 * a1 * a1 + a1 * a2 * a2 - a2 * a2 * a2 = 0)
    (hne : ¬ (a0 = 0 ∧ a1 = 0 ∧ a2 = 0)) : ∃ s : K, s ^ 3 = s + 1 := by
  by_cases hM : a1 ^ 2 - a0 * a2 - a2 ^ 2 = 0
  · have hN2 : (a1 * a0 - a2 ^ 2) ^ 2 * a2 = 0 := by
      linear_combination (-a2 ^ 2) * hT + (a1 * (a1 * a0 - a2 ^ 2) - a0 * (a1 ^ 2 - a0 * a2 - a2 ^ 2)) * hM
    by_cases h2 : a2 = 0
    · exfalso
      apply hne
      subst h2
      have h1 : a1 = 0 := by
        have : a1 ^ 2 = 0 := by linear_combination hM
        exact pow_eq_zero_iff (two_ne_zero) |>.mp this
      subst h1
      have h0 : a0 ^ 3 = 0 := by linear_combination (-1 : K) * hT
      exact ⟨pow_eq_zero_iff (three_ne_zero) |>.mp h0, rfl, rfl⟩
    · have hN : a1 * a0 - a2 ^ 2 = 0 := by
        rcases mul_eq_zero.mp hN2 with h | h
        · exact pow_eq_zero_iff (two_ne_zero) |>.mp h
        · exact absurd h h2
      refine ⟨a1 / a2, ?_⟩
      field_simp
      linear_combination a1 * hM + a2 * hN
  · refine ⟨-(a1 * a0 - a2 ^ 2) / (a1 ^ 2 - a0 * a2 - a2 ^ 2), ?_⟩
    field_simp
    linear_combination (a1 ^ 3 - a1 * a2 ^ 2 - a2 ^ 3) * hT

/-- the missing fact of C09: the quantity t of `Goldilocks3::inv` vanishes only at the zero element -/
theorem K3.tval_ne_zero (a : K3) (h : a ≠ K3.zero) : K3.tval a ≠ 0 := by
  intro hT
  obtain ⟨s, hs⟩ := cubic_root_of_norm_zero a.c0 a.c1 a.c2 hT (by
    rintro ⟨h0, h1, h2⟩
    exact h (K3.ext' _ _ h0 h1 h2))
  exact cubic_no_root s hs

theorem K3.tval_zero : K3.tval K3.zero = 0 := by simp [K3.tval, K3.zero]

theorem K3.tval_eq_zero_iff (a : K3) : K3.tval a = 0 ↔ a = K3.zero := by
  constructor
  · intro h; by_contra hne; exact K3.tval_ne_zero a hne h
  · intro h; rw [h]; exact K3.tval_zero

end GoldilocksVerif
