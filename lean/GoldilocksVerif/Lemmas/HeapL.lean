/-
  Lemmas about the block heap of the translator's heap mode (Model/TrHeap.lean): every memory operation is
  `setBlock` of one block with an array operation on its content; reads see the block that was set; loops over a heap
  that keep to a representation `R : σ → Heap` are the loops over σ (`rangeM_rep`, `whileM_rep`).
-/
import GoldilocksVerif.Model.TrHeap

namespace GoldilocksVerif

namespace Heap

theorem modify_eq {α : Type} (a : Array α) (i : Nat) (f : α → α) (d : α) :
    a.modify i f = a.setIfInBounds i (f (a.getD i d)) := by
  apply Array.ext_getElem?
  intro j
  rw [Array.getElem?_modify, Array.getElem?_setIfInBounds, Array.getD_eq_getD_getElem?]
  by_cases hij : i = j
  · subst hij
    by_cases hi : i < a.size
    · simp [hi]
    · simp [hi]
  · simp [hij]

theorem ext_blocks (h1 h2 : Heap) (h : h1.blocks = h2.blocks) : h1 = h2 := by
  cases h1; cases h2; simp at h; simp [h]

theorem set_eq (h : Heap) (p : Ptr) (i : Nat) (v : BitVec 64) :
    h.set p i v = h.setBlock p.blk ((h.block p.blk).setIfInBounds (p.off + i) v) := by
  apply ext_blocks
  simp only [set, setBlock, block]
  exact modify_eq _ _ _ #[]

theorem copy_eq (h : Heap) (d s : Ptr) (n : Nat) :
    h.copy d s n = h.setBlock d.blk (Block.copyRow (h.block d.blk) d.off (h.block s.blk) s.off n) := by
  apply ext_blocks
  simp only [copy, setBlock, block]
  exact modify_eq _ _ _ #[]

theorem zero_eq (h : Heap) (d : Ptr) (n : Nat) :
    h.zero d n = h.setBlock d.blk (Block.zeroRow (h.block d.blk) d.off n) := by
  apply ext_blocks
  simp only [zero, setBlock, block]
  exact modify_eq _ _ _ #[]

@[simp] theorem size_setBlock (h : Heap) (b : Nat) (a : Block) : (h.setBlock b a).size = h.size := by
  simp [size, setBlock]

theorem block_setBlock (h : Heap) (b c : Nat) (a : Block) :
    (h.setBlock b a).block c = if c = b ∧ b < h.size then a else h.block c := by
  simp only [block, setBlock, size, Array.getD_eq_getD_getElem?, Array.getElem?_setIfInBounds]
  by_cases hc : b = c
  · subst hc
    by_cases hb : b < h.blocks.size
    · simp [hb]
    · simp [hb]
  · have : ¬ c = b := fun e => hc e.symm
    simp [hc, this]

theorem block_setBlock_same (h : Heap) (b : Nat) (a : Block) (hb : b < h.size) : (h.setBlock b a).block b = a := by
  rw [block_setBlock]; simp [hb]

theorem block_setBlock_other (h : Heap) (b c : Nat) (a : Block) (hc : c ≠ b) : (h.setBlock b a).block c = h.block c := by
  rw [block_setBlock]; simp [hc]

theorem setBlock_setBlock (h : Heap) (b : Nat) (a a' : Block) : (h.setBlock b a).setBlock b a' = h.setBlock b a' := by
  apply ext_blocks
  simp only [setBlock]
  apply Array.ext_getElem?
  intro j
  simp only [Array.getElem?_setIfInBounds, Array.size_setIfInBounds]
  by_cases hj : b = j <;> simp [hj]

theorem setBlock_block (h : Heap) (b : Nat) : h.setBlock b (h.block b) = h := by
  apply ext_blocks
  simp only [setBlock, block]
  apply Array.ext_getElem?
  intro j
  simp only [Array.getElem?_setIfInBounds, Array.getD_eq_getD_getElem?]
  by_cases hj : b = j
  · subst hj
    by_cases hb : b < h.blocks.size
    · simp [hb]
    · simp [hb]
  · simp [hj]

theorem setBlock_comm (h : Heap) (b c : Nat) (a a' : Block) (hbc : b ≠ c) :
    (h.setBlock b a).setBlock c a' = (h.setBlock c a').setBlock b a := by
  apply ext_blocks
  simp only [setBlock]
  apply Array.ext_getElem?
  intro j
  simp only [Array.getElem?_setIfInBounds, Array.size_setIfInBounds]
  by_cases hj : b = j
  · subst hj
    have : ¬ c = b := fun e => hbc e.symm
    simp [this]
  · by_cases hj' : c = j <;> simp [hj, hj']

theorem get_def (h : Heap) (p : Ptr) (i : Nat) : h.get p i = (h.block p.blk).getD (p.off + i) 0#64 := rfl

@[simp] theorem size_set (h : Heap) (p : Ptr) (i : Nat) (v : BitVec 64) : (h.set p i v).size = h.size := by
  rw [set_eq, size_setBlock]
@[simp] theorem size_copy (h : Heap) (d s : Ptr) (n : Nat) : (h.copy d s n).size = h.size := by
  rw [copy_eq, size_setBlock]
@[simp] theorem size_zero (h : Heap) (d : Ptr) (n : Nat) : (h.zero d n).size = h.size := by
  rw [zero_eq, size_setBlock]

/-! allocation -/
theorem alloc_fst_blocks (h : Heap) (n : Nat) : (h.alloc n).1.blocks = h.blocks.push (Array.replicate n 0#64) := rfl
theorem alloc_snd (h : Heap) (n : Nat) : (h.alloc n).2 = ⟨h.size, 0⟩ := rfl
@[simp] theorem size_alloc (h : Heap) (n : Nat) : (h.alloc n).1.size = h.size + 1 := by simp [size, alloc]

theorem block_alloc (h : Heap) (n c : Nat) :
    (h.alloc n).1.block c = if c = h.size then Array.replicate n 0#64 else h.block c := by
  simp only [block, alloc, size, Array.getD_eq_getD_getElem?, Array.getElem?_push]
  by_cases hc : c = h.blocks.size <;> simp [hc]

/-- the heap with one more block -/
def push (h : Heap) (a : Block) : Heap := ⟨h.blocks.push a⟩

theorem alloc_fst (h : Heap) (n : Nat) : (h.alloc n).1 = h.push (Array.replicate n 0#64) := rfl
@[simp] theorem size_push (h : Heap) (a : Block) : (h.push a).size = h.size + 1 := by simp [size, push]
theorem block_push (h : Heap) (a : Block) (c : Nat) : (h.push a).block c = if c = h.size then a else h.block c := by
  simp only [block, push, size, Array.getD_eq_getD_getElem?, Array.getElem?_push]
  by_cases hc : c = h.blocks.size <;> simp [hc]

theorem setBlock_push_last (h : Heap) (a a' : Block) : (h.push a).setBlock h.size a' = h.push a' := by
  apply ext_blocks
  simp only [setBlock, push, size]
  apply Array.ext_getElem?
  intro j
  simp only [Array.getElem?_setIfInBounds, Array.getElem?_push, Array.size_push]
  by_cases hj : h.blocks.size = j
  · subst hj; simp
  · have : ¬ j = h.blocks.size := fun e => hj e.symm
    simp [hj, this]

theorem setBlock_push_lt (h : Heap) (a a' : Block) (b : Nat) (hb : b < h.size) :
    (h.push a).setBlock b a' = (h.setBlock b a').push a := by
  apply ext_blocks
  simp only [setBlock, push, size] at *
  apply Array.ext_getElem?
  intro j
  simp only [Array.getElem?_setIfInBounds, Array.getElem?_push, Array.size_push, Array.size_setIfInBounds]
  by_cases hj : b = j
  · subst hj
    have h1 : b < h.blocks.size + 1 := by omega
    have h2 : ¬ b = h.blocks.size := by omega
    simp [h1, h2, hb]
  · simp [hj]

/-- freeing the last block removes it -/
theorem free_push (h : Heap) (a : Block) (hs : 0 < h.size) : (h.push a).free ⟨h.size, 0⟩ = h := by
  apply ext_blocks
  simp only [free, push, size] at *
  have h0 : ¬ h.blocks.size = 0 := by omega
  simp [h0]

end Heap

namespace Loop

theorem rangeMAux_rep {σ τ : Type} (R : σ → τ) (f : Nat → σ → σ) (body : Nat → τ → Option τ) (hi : Nat)
    (hbody : ∀ i s, i < hi → body i (R s) = some (R (f i s))) :
    ∀ (n i : Nat) (s : σ), i + n ≤ hi → rangeMAux 1 body n i (R s) = some (R (rangeAux 1 f n i s)) := by
  intro n
  induction n with
  | zero => intro i s _; rfl
  | succ n ih =>
    intro i s h
    rw [rangeMAux_succ, hbody i s (by omega)]
    simp only [Option.bind_some]   -- `Option.bind (some x) g = g x`
    rw [ih (i + 1) (f i s) (by omega)]
    rfl

/-- a counted loop over τ whose body keeps to the representation `R : σ → τ` is the loop over σ -/
theorem rangeM_rep {σ τ : Type} (R : σ → τ) (f : Nat → σ → σ) (body : Nat → τ → Option τ) (lo hi : Nat)
    (hbody : ∀ i s, lo ≤ i → i < hi → body i (R s) = some (R (f i s))) (s : σ) :
    rangeM lo hi 1 (R s) body = some (R (range lo hi 1 s f)) := by
  unfold rangeM range
  have hn : (hi - lo + 1 - 1) / 1 = hi - lo := by simp
  rw [hn]
  by_cases hle : lo ≤ hi
  · -- restrict to indices ≥ lo by shifting the invariant
    have key : ∀ (n i : Nat) (s : σ), lo ≤ i → i + n ≤ hi →
        rangeMAux 1 body n i (R s) = some (R (rangeAux 1 f n i s)) := by
      intro n
      induction n with
      | zero => intro i s _ _; rfl
      | succ n ih =>
        intro i s hl h
        rw [rangeMAux_succ, hbody i s hl (by omega)]
        simp only [Option.bind_some]
        rw [ih (i + 1) (f i s) (by omega) (by omega)]
        rfl
    exact key (hi - lo) lo s (Nat.le_refl _) (by omega)
  · have : hi - lo = 0 := by omega
    rw [this]; rfl

/-- the same for a loop whose body cannot fail and is given as a total function -/
theorem range_rep {σ τ : Type} (R : σ → τ) (f : Nat → σ → σ) (body : Nat → τ → τ) (lo hi : Nat)
    (hbody : ∀ i s, lo ≤ i → i < hi → body i (R s) = R (f i s)) (s : σ) :
    range lo hi 1 (R s) body = R (range lo hi 1 s f) := by
  unfold range
  have hn : (hi - lo + 1 - 1) / 1 = hi - lo := by simp
  rw [hn]
  by_cases hle : lo ≤ hi
  · have key : ∀ (n i : Nat) (s : σ), lo ≤ i → i + n ≤ hi →
        rangeAux 1 body n i (R s) = R (rangeAux 1 f n i s) := by
      intro n
      induction n with
      | zero => intro i s _ _; rfl
      | succ n ih =>
        intro i s hl h
        show rangeAux 1 body n (i + 1) (body i (R s)) = R (rangeAux 1 f n (i + 1) (f i s))
        rw [hbody i s hl (by omega)]
        exact ih (i + 1) (f i s) (by omega) (by omega)
    exact key (hi - lo) lo s (Nat.le_refl _) (by omega)
  · have : hi - lo = 0 := by omega
    rw [this]; rfl

/-- two counted loops with pointwise equal bodies (on the index range) are equal -/
theorem range_congr {σ : Type} (f g : Nat → σ → σ) (lo hi : Nat)
    (h : ∀ i s, lo ≤ i → i < hi → f i s = g i s) (s : σ) : range lo hi 1 s f = range lo hi 1 s g := by
  have := range_rep (R := id) (f := g) (body := f) lo hi (fun i s a b => h i s a b) s
  simpa using this

end Loop
end GoldilocksVerif

namespace GoldilocksVerif
namespace Heap

/-- two blocks of a base heap replaced: the representation used for loops that work on two buffers -/
def R2 (H : Heap) (b c : Nat) (s : Block × Block) : Heap := (H.setBlock b s.1).setBlock c s.2

theorem R2_block_fst (H : Heap) (b c : Nat) (s : Block × Block) (hbc : b ≠ c) (hb : b < H.size) :
    (R2 H b c s).block b = s.1 := by
  unfold R2
  rw [block_setBlock_other _ _ _ _ hbc, block_setBlock_same _ _ _ hb]

theorem R2_block_snd (H : Heap) (b c : Nat) (s : Block × Block) (hc : c < H.size) :
    (R2 H b c s).block c = s.2 := by
  unfold R2
  rw [block_setBlock_same _ _ _ (by rw [size_setBlock]; exact hc)]

theorem R2_block_other (H : Heap) (b c d : Nat) (s : Block × Block) (hb : d ≠ b) (hc : d ≠ c) :
    (R2 H b c s).block d = H.block d := by
  unfold R2
  rw [block_setBlock_other _ _ _ _ hc, block_setBlock_other _ _ _ _ hb]

theorem R2_setBlock_fst (H : Heap) (b c : Nat) (s : Block × Block) (a : Block) (hbc : b ≠ c) :
    (R2 H b c s).setBlock b a = R2 H b c (a, s.2) := by
  unfold R2
  rw [setBlock_comm _ _ _ _ _ (fun e => hbc e.symm), setBlock_setBlock]

theorem R2_setBlock_snd (H : Heap) (b c : Nat) (s : Block × Block) (a : Block) :
    (R2 H b c s).setBlock c a = R2 H b c (s.1, a) := by
  unfold R2
  rw [setBlock_setBlock]

@[simp] theorem size_R2 (H : Heap) (b c : Nat) (s : Block × Block) : (R2 H b c s).size = H.size := by
  unfold R2; simp

/-- a read through a pointer into a block that is neither of the two replaced blocks sees the base heap (wherever the
    read stands: in a loop body, or hoisted in front of the loop) -/
theorem get_R2_other (H : Heap) (b c : Nat) (s : Block × Block) (p : Ptr) (j : Nat) (h1 : p.blk ≠ b) (h2 : p.blk ≠ c) :
    get (R2 H b c s) p j = (H.block p.blk).getD (p.off + j) 0#64 := by
  rw [get_def, R2_block_other _ _ _ _ _ h1 h2]

end Heap
end GoldilocksVerif

namespace GoldilocksVerif
namespace Heap

theorem block_push_last (X : Heap) (Z : Block) (b : Nat) (hb : b = X.size) : (X.push Z).block b = Z := by
  rw [block_push, if_pos hb]

theorem block_push_lt (X : Heap) (Z : Block) (c : Nat) (hc : c < X.size) : (X.push Z).block c = X.block c := by
  rw [block_push, if_neg (by omega)]

theorem setBlock_push_last' (X : Heap) (Z Z' : Block) (b : Nat) (hb : b = X.size) : (X.push Z).setBlock b Z' = X.push Z' := by
  subst hb; exact setBlock_push_last X Z Z'

theorem free_push' (X : Heap) (Z : Block) (b : Nat) (hb : b = X.size) (hs : 0 < X.size) : (X.push Z).free ⟨b, 0⟩ = X := by
  subst hb; exact free_push X Z hs

/-- a counted loop whose body changes block `d` only, as the function `f` of its content (other blocks may be read) -/
theorem rangeM_block (X0 : Heap) (d : Nat) (hd : d < X0.size) (f : Nat → Block → Block) (body : Nat → Heap → Option Heap)
    (lo hi : Nat)
    (hbody : ∀ i (X : Heap), lo ≤ i → i < hi → X.size = X0.size → (∀ c, c ≠ d → X.block c = X0.block c) →
      body i X = some (X.setBlock d (f i (X.block d)))) :
    Loop.rangeM lo hi 1 X0 body = some (X0.setBlock d (Loop.range lo hi 1 (X0.block d) f)) := by
  have h := Loop.rangeM_rep (R := fun A => X0.setBlock d A) (f := f) body lo hi
    (fun i A h1 h2 => by
      have := hbody i (X0.setBlock d A) h1 h2 (by simp) (fun c hc => block_setBlock_other _ _ _ _ hc)
      rw [this, block_setBlock_same _ _ _ hd, setBlock_setBlock]) (X0.block d)
  simp only [setBlock_block] at h
  exact h

end Heap
end GoldilocksVerif

namespace GoldilocksVerif
namespace Heap

/-! ### a temporary block at the end of the heap (run-time sized stack array) -/
section tmp
variable (X : Heap) (T : Block) (b d : Nat) (hb : b = X.size) (hd : d < X.size)

include hb hd in
theorem tmp_copy_in (o n : Nat) :
    (X.push T).copy ⟨b, 0⟩ ⟨d, o⟩ n = X.push (Block.copyRow T 0 (X.block d) o n) := by
  rw [copy_eq]
  simp only []
  rw [block_push_last X T b hb, block_push_lt X T d hd, setBlock_push_last' X T _ b hb]

include hb in
theorem tmp_zero_in (n : Nat) : (X.push T).zero ⟨b, 0⟩ n = X.push (Block.zeroRow T 0 n) := by
  rw [zero_eq]
  simp only []
  rw [block_push_last X T b hb, setBlock_push_last' X T _ b hb]

include hd in
theorem tmp_copy_self (o1 o2 n : Nat) :
    (X.push T).copy ⟨d, o1⟩ ⟨d, o2⟩ n = (X.setBlock d (Block.copyRow (X.block d) o1 (X.block d) o2 n)).push T := by
  rw [copy_eq]
  simp only []
  rw [block_push_lt X T d hd, setBlock_push_lt X T _ d hd]

include hd in
theorem tmp_zero_self (o1 n : Nat) :
    (X.push T).zero ⟨d, o1⟩ n = (X.setBlock d (Block.zeroRow (X.block d) o1 n)).push T := by
  rw [zero_eq]
  simp only []
  rw [block_push_lt X T d hd, setBlock_push_lt X T _ d hd]

include hb hd in
theorem tmp_copy_out (o n : Nat) :
    (X.push T).copy ⟨d, o⟩ ⟨b, 0⟩ n = (X.setBlock d (Block.copyRow (X.block d) o T 0 n)).push T := by
  rw [copy_eq]
  simp only []
  rw [block_push_lt X T d hd, block_push_last X T b hb, setBlock_push_lt X T _ d hd]

end tmp

end Heap
end GoldilocksVerif

namespace GoldilocksVerif
namespace Heap

/-- two new blocks at the end of a heap, in representation form over the heap with two empty blocks -/
theorem push_push_R2 (hp : Heap) (A B : Block) :
    (hp.push A).push B = R2 ((hp.push #[]).push #[]) hp.size (hp.size + 1) (A, B) := by
  simp only [R2]
  rw [setBlock_push_lt _ _ _ _ (by simp), setBlock_push_last]
  have : hp.size + 1 = (hp.push A).size := by simp
  rw [this, setBlock_push_last]

end Heap
end GoldilocksVerif

namespace GoldilocksVerif
namespace Heap

/-- freeing a block that is not the last one empties it -/
theorem free_mid (h : Heap) (p : Ptr) (h0 : p.blk ≠ 0) (hl : p.blk + 1 ≠ h.size) : h.free p = h.setBlock p.blk #[] := by
  unfold free setBlock
  rw [if_neg h0]
  have : ¬ (p.blk + 1 = h.blocks.size) := hl
  rw [if_neg this]

/-- `free` never changes another block -/
theorem block_free_other (h : Heap) (p : Ptr) (c : Nat) (hc : c ≠ p.blk) : (h.free p).block c = h.block c := by
  unfold free
  by_cases h0 : p.blk = 0
  · rw [if_pos h0]
  · rw [if_neg h0]
    by_cases hl : p.blk + 1 = h.blocks.size
    · rw [if_pos hl]
      simp only [block, Array.getD_eq_getD_getElem?, Array.getElem?_pop]
      by_cases hc2 : c < h.blocks.size - 1
      · rw [if_pos hc2]
      · rw [if_neg hc2]
        have : h.blocks.size ≤ c := by omega
        rw [Array.getElem?_eq_none this]
    · rw [if_neg hl]
      exact block_setBlock_other ⟨h.blocks⟩ p.blk c #[] hc

theorem size_free_le (h : Heap) (p : Ptr) : (h.free p).size ≤ h.size := by
  unfold free size
  by_cases h0 : p.blk = 0
  · rw [if_pos h0]; exact Nat.le_refl _
  · rw [if_neg h0]
    by_cases hl : p.blk + 1 = h.blocks.size
    · rw [if_pos hl]; simp
    · rw [if_neg hl]; simp

/-- `free` of a block other than the last keeps the size -/
theorem size_free_mid (h : Heap) (p : Ptr) (hl : p.blk + 1 ≠ h.size) : (h.free p).size = h.size := by
  unfold free size
  by_cases h0 : p.blk = 0
  · rw [if_pos h0]
  · rw [if_neg h0]
    have : ¬ (p.blk + 1 = h.blocks.size) := hl
    rw [if_neg this]; simp

/-- after `free` the size shrinks by at most one -/
theorem size_free_ge (h : Heap) (p : Ptr) : h.size ≤ (h.free p).size + 1 := by
  unfold free size
  by_cases h0 : p.blk = 0
  · rw [if_pos h0]; omega
  · rw [if_neg h0]
    by_cases hl : p.blk + 1 = h.blocks.size
    · rw [if_pos hl]; simp; omega
    · rw [if_neg hl]; simp

end Heap
end GoldilocksVerif
