/-
  Proof tools that keep the bridge theorems (Lemmas/BridgeNtt*.lean, Lemmas/HeapSafe*.lean) independent of HOW the
  translated text is written, as long as it computes the same thing:

  * `unfold_loops`: unfolds, one level, every lifted loop body (`…_loopN`, `…_loopN.Safe`) that occurs in the goal.  The
    lemmas about a loop are stated for an ARBITRARY body with a semantic hypothesis (`∀ i X, body i X = …`); the hypothesis
    is discharged where the loop is CALLED, after unfolding, so no lemma statement mentions the parameter list of a lifted
    body (a hoisted sub-expression, a renamed or reordered local changes that list).
  * (Lemmas/BridgeNttComm.lean) bit-level commutativity of the scalar field multiplication (`w * x` / `x * w`) and
    `close_shape`: closes an equation between two applications of the same function whose arguments are provably equal.
  * `bv_arith`: closes `(64-bit expression).toNat = (Nat expression)`, `… < …`, `… ≤ …` by computing `toNat` of sums and
    products modulo 2^64 and handing the result to `omega` (or `grind` when factors were permuted): the order of the
    operands of `+` / `*`, `x * 2` vs `x + x`, do not matter.
-/
import Lean
import GoldilocksVerif.Gen.NttGen
import GoldilocksVerif.Lemmas.HeapL

namespace GoldilocksVerif.BridgeNtt
open Lean Elab Tactic Meta

/-- is `n` (or a prefix of it) the name of a lifted loop body of the translator -/
def isLoopName (n : Name) : Bool :=
  n.components.any fun c => match c with
    | .str _ s => (s.splitOn "_loop").length > 1
    | _ => false

/-- unfold (one level) every lifted loop body that occurs in the goal -/
elab "unfold_loops" : tactic => withMainContext do
  let g ← getMainGoal
  let t ← instantiateMVars (← g.getType)
  let env ← getEnv
  let names := t.foldConsts (init := ([] : List Name)) fun n acc =>
    if isLoopName n && !acc.contains n && (env.find? n).any (·.hasValue) then n :: acc else acc
  if names.isEmpty then throwError "unfold_loops: no lifted loop body in the goal"
  for n in names do
    evalTactic (← `(tactic| unfold $(mkIdent n):ident))

/-- the same at a hypothesis -/
elab "unfold_loops" " at " h:ident : tactic => withMainContext do
  let d ← getLocalDeclFromUserName h.getId
  let t ← instantiateMVars d.type
  let env ← getEnv
  let names := t.foldConsts (init := ([] : List Name)) fun n acc =>
    if isLoopName n && !acc.contains n && (env.find? n).any (·.hasValue) then n :: acc else acc
  if names.isEmpty then throwError "unfold_loops: no lifted loop body in the hypothesis"
  for n in names do
    evalTactic (← `(tactic| unfold $(mkIdent n):ident at $h:ident))

/-- `name_while f with h`: the step function of the (first) `Loop.whileM` of the goal becomes the variable `f`
    (`h : <step function> = f`), so that statements about it can be written without its parameter list -/
elab "name_while " x:ident " with " h:ident : tactic => withMainContext do
  let g ← getMainGoal
  let t ← instantiateMVars (← g.getType)
  let some e := t.find? (fun e => e.isAppOfArity ``Loop.whileM 4 && !(e.getArg! 1).isFVar && !(e.getArg! 1).hasLooseBVars)
    | throwError "name_while: no `Loop.whileM` with a closed step function in the goal"
  let (_, g') ← g.generalize #[{ expr := e.getArg! 1, xName? := some x.getId, hName? := some h.getId }]
  replaceMainGoal [g']

/-- `name_range f with h`: the same for the body of the (first) `Loop.rangeM` of the goal -/
elab "name_range " x:ident " with " h:ident : tactic => withMainContext do
  let g ← getMainGoal
  let t ← instantiateMVars (← g.getType)
  let some e := t.find? (fun e => e.isAppOfArity ``Loop.rangeM 6 && !(e.getArg! 5).isFVar && !(e.getArg! 5).hasLooseBVars)
    | throwError "name_range: no `Loop.rangeM` with a closed body in the goal"
  let (_, g') ← g.generalize #[{ expr := e.getArg! 5, xName? := some x.getId, hName? := some h.getId }]
  replaceMainGoal [g']

/-- `name_bind_arg x with h`: the first argument `e` of the (outermost, first) `Option.bind e f` of the goal whose `e` is a
    closed term other than a variable becomes the variable `x` (`h : e = x`) -/
elab "name_bind_arg " x:ident " with " h:ident : tactic => withMainContext do
  let g ← getMainGoal
  let t ← instantiateMVars (← g.getType)
  let some e := t.find? (fun e => e.isAppOfArity ``Option.bind 4 && !(e.getArg! 2).isFVar && !(e.getArg! 2).hasLooseBVars)
    | throwError "name_bind_arg: no `Option.bind` with a closed first argument in the goal"
  let (_, g') ← g.generalize #[{ expr := e.getArg! 2, xName? := some x.getId, hName? := some h.getId }]
  replaceMainGoal [g']

open Lean Elab Command in
/-- `by_name_form <declaration>`: a lemma stated about a lifted loop body BY NAME, with the parameter list the translator
    gives it today (kept because statements outside the NTT bridge — C12 — are written in that form).  When the
    declaration no longer elaborates because the source was rewritten (another parameter list, another loop text) it is
    SKIPPED with a warning instead of failing the file: nothing is added to the environment, so whatever uses the by-name
    form then fails to compile and is reported there, while the theorems that do not use it (the bridge theorems of C03 / C04 /
    C05 / C19 are proved without by-name forms) are unaffected.  Never used for a property statement. -/
elab "by_name_form " c:command : command => do
  let s ← get
  modify fun st => { st with messages := {} }
  let failed ← try
      elabCommand (← `(command| set_option Elab.async false in $c))
      pure (← get).messages.hasErrors
    catch _ => pure true
  if failed then
    set s
    logWarning "by-name form skipped: it does not elaborate against the current generated definitions"
  else
    modify fun st => { st with messages := s.messages ++ st.messages }

/-! ### arithmetic closers -/

/-- `toNat` of 64-bit sums / products / constants (and the facts given), then linear arithmetic with the bounds of the
    context; `grind` when the factors of a product were permuted -/
syntax "bv_arith" (" [" Lean.Parser.Tactic.simpLemma,* "]")? : tactic
macro_rules
  | `(tactic| bv_arith) => `(tactic|
      ((try simp only [BitVec.toNat_add, BitVec.toNat_mul, BitVec.reduceToNat, Nat.zero_add, BitVec.lt_def, BitVec.le_def,
          decide_eq_true_eq]); first | omega | grind))
  | `(tactic| bv_arith [$ts,*]) => `(tactic|
      ((try simp only [BitVec.toNat_add, BitVec.toNat_mul, BitVec.reduceToNat, Nat.zero_add, BitVec.lt_def, BitVec.le_def,
          decide_eq_true_eq, $ts,*]); first | omega | grind))

/-- pointer tests in ONE form, whichever way the source writes them (`p == q` / `p != q`, `c ? a : b` / `!c ? b : a`,
    if / else with the branches exchanged): equalities as propositions, negated conditions of `if` flipped.  Used on the
    goal AND on the hypothesis that is to be rewritten with, so that both take the same form. -/
macro "ptr_norm" loc:(Lean.Parser.Tactic.location)? : tactic =>
  `(tactic| simp only [beq_iff_eq, bne_iff_ne, ne_eq, ite_not, Bool.not_eq_true, Bool.not_eq_false] $[$loc]?)

/-- discharger of the side conditions (small bounds) of the 64-bit normalisation lemmas -/
macro "bv_side" : tactic => `(tactic| first | assumption | omega | grind)

end GoldilocksVerif.BridgeNtt
